import MindsVerif.Model.Sem
import MindsVerif.Model.SemSeq
/-! Line protocol driver for the C08 two-table fragment.
input : <kind> <c0> <c1> <limit|-> <group 0|1> <having 0|1> <expr tokens | -> ; <t0 rows> ; <t1 rows>
        kind ::= inner | left | right | full | leftOuter
        expr ::= c <op> <side> <col> <int> | cc <op> <c0> <c1> | n <side> <col> | & e e | | e e | ! e      (prefix)
        rows ::= row/row/...   row ::= v,v,v   v ::= <int> | N          (empty table: `.`)
input3: uselimit <having> <group> <plain flags> <kind> …   output: uselimit=<0|1>
input2: chain <kind> <kind> …   (join kinds of a left-deep chain)   output: nullable=<flag per table>
output: push0=<exprs> push1=<exprs> limit0=<n|-> semi=<0|1> | plan=<rows> | query=<rows> | sound=<planSound q> | planInner=<rows of the plan without the outer LIMIT>
        rows of the results: l-values,r-values per row, rows separated by `/` -/
open MindsVerif.Sem

def opOf : String → Option CmpOp
  | "=" => some .eq | "<>" => some .ne | "<" => some .lt | "<=" => some .le | ">" => some .gt | ">=" => some .ge
  | _ => none

def opStr : CmpOp → String
  | .eq => "=" | .ne => "<>" | .lt => "<" | .le => "<=" | .gt => ">" | .ge => ">="

partial def readE : List String → Option (Expr × List String)
  | "c" :: op :: s :: c :: k :: rest => do
    let op ← opOf op
    some (.cmpC op (← s.toNat?) (← c.toNat?) (.int (← k.toInt?)), rest)
  | "cc" :: op :: a :: b :: rest => do
    some (.cmpCC (← opOf op) (← a.toNat?) (← b.toNat?), rest)
  | "n" :: s :: c :: rest => do some (.isNull (← s.toNat?) (← c.toNat?), rest)
  | "&" :: rest => do
    let (a, rest) ← readE rest
    let (b, rest) ← readE rest
    some (.and a b, rest)
  | "|" :: rest => do
    let (a, rest) ← readE rest
    let (b, rest) ← readE rest
    some (.or a b, rest)
  | "!" :: rest => do
    let (a, rest) ← readE rest
    some (.not a, rest)
  | _ => none

def showV : Val → String
  | .null => "N"
  | .int i => toString i
  | .str s => "'" ++ s ++ "'"

partial def showE : Expr → String
  | .cmpC op s c k => s!"c {opStr op} {s} {c} {showV k}"
  | .cmpCC op a b => s!"cc {opStr op} {a} {b}"
  | .isNull s c => s!"n {s} {c}"
  | .and a b => s!"& {showE a} {showE b}"
  | .or a b => s!"| {showE a} {showE b}"
  | .not a => s!"! {showE a}"

def readV (s : String) : Val := if s == "N" then .null else match s.toInt? with | some i => .int i | none => .str s

def readRows (s : String) : List TRow :=
  if s.trimAscii.toString == "." then [] else
  ((s.trimAscii.toString).splitOn "/").map fun r => (r.splitOn ",").map readV

def kindOf : String → Option JoinKind
  | "inner" => some .inner | "left" => some .left | "right" => some .right | "full" => some .full
  | "leftOuter" => some .leftOuter | _ => none

def showRows (rs : List (TRow × TRow)) : String :=
  if rs.isEmpty then "." else
  "/".intercalate (rs.map fun (l, r) => ",".intercalate ((l ++ r).map showV))

def handleChain (ks : List String) : String :=
  match ks.mapM kindOf with
  | some ks => "nullable=" ++ ",".intercalate ((markNullable ks).map fun b => if b then "1" else "0")
  | none => "bad-line"

/-- `uselimit <having 0|1> <group 0|1> <plain flags, e.g. 1,1,0> <kind> <kind> …`: `check_use_limit` on the join sequence
table, table, join, table, join, … -/
def handleUseLimit (ws : List String) : String :=
  match ws with
  | h :: g :: flags :: ks =>
    match ks.mapM kindOf with
    | some ks =>
      let fl := (flags.splitOn ",").map (· == "1")
      let items : List SeqItem := match fl with
        | [] => []
        | f0 :: rest => SeqItem.table f0 ::
            ((rest.zip ks).flatMap fun (f, k) => [SeqItem.table f, SeqItem.join k])
      if fl.length == ks.length + 1 then
        s!"uselimit={if checkUseLimit (h == "1") (g == "1") true items then 1 else 0}"
      else "bad-line"
    | none => "bad-line"
  | _ => "bad-line"

def handle (line : String) : String :=
  if line.startsWith "uselimit " then
    handleUseLimit (((line.drop 9).trimAscii.toString.splitOn " ").filter (· ≠ "")) else
  if line.startsWith "chain " then handleChain (((line.drop 6).trimAscii.toString.splitOn " ").filter (· ≠ "")) else
  match line.splitOn ";" with
  | [qs, a, b] =>
    match (qs.splitOn " ").filter (· ≠ "") with
    | k :: c0 :: c1 :: lim :: g :: h :: rest =>
      let w : Option (Option Expr) := if rest == ["-"] then some none else
        match readE rest with | some (e, []) => some (some e) | _ => none
      match kindOf k, c0.toNat?, c1.toNat?, w with
      | some k, some c0, some c1, some w =>
        let t0 := readRows a
        let t1 := readRows b
        let q : Q2 := { kind := k, c0 := c0, c1 := c1, w := w, limit := if lim == "-" then none else lim.toNat?,
                        groupBy := g == "1", having := h == "1" }
        let db : DB := { t0 := t0, t1 := t1, n0 := 3, n1 := 3 }
        let p := plan q
        let se (es : List Expr) := "[" ++ "; ".intercalate (es.map showE) ++ "]"
        let lim0 := match p.limit0 with | none => "-" | some n => toString n
        s!"push0={se p.push0} push1={se p.push1} limit0={lim0} semi={if p.semi1 then 1 else 0} | plan={showRows (execPlan p db)} | query={showRows (evalQuery q db)} | sound={if planSound q then 1 else 0} | planInner={showRows (execPlan { p with limit := none } db)}"
      | _, _, _, _ => "bad-line"
    | _ => "bad-line"
  | _ => "bad-line"

partial def loop (h : IO.FS.Stream) (out : IO.FS.Stream) : IO Unit := do
  let line ← h.getLine
  if line.isEmpty then return ()
  out.putStrLn (handle line)
  loop h out

def main : IO Unit := do
  loop (← IO.getStdin) (← IO.getStdout)
