import MindsVerif.Model.SemAgg
import MindsVerif.Model.SemSet
import MindsVerif.Model.SemNames
/-! Line protocol driver for the round-5 models of C08 (select lists with aggregates; set operations).

agg    <kind> <c0> <c1> <limit|-> ; <targets> ; <t0 rows> ; <t1 rows>
       targets ::= tgt { , tgt }        (prefix notation, blank separated)
       tgt ::= * | col <side> <col> | k <int|N> | f <name> <arity> tgt… | ar <+|-|*> tgt tgt | cmp <op> tgt tgt
             | cast tgt | case tgt tgt tgt
       a function is an aggregate iff `AggFn.ofName name` (lower-cased name among count sum min max avg std)
  ->   agg=<selHasAgg> limit0=<n|-> | plan=<rows> | query=<rows> | sound=<planSound q.toQ2>
aggapi <limit|-> ; <targets> ; <t0 rows>
  ->   agg=<selHasAgg> push=<apiPushLimit> | plan=<rows of execApi> | query=<rows of evalApi>
setq   <tree> ; <rows of table 0> ; <rows of table 1> ; <rows of table 2>
       tree ::= op <union|unionAll|intersect|except> tree tree
              | sel <tbl> <cols i,j> <distinct 0|1> <group 0|1> <order e.g. 0a,1d | -> <limit|-> <offset|->
  ->   steps=<F(tbl;cols;d;g;order;limit;offset) … U(k;left;right)> result=<n> | plan=<rows> | query=<rows>
names|<alias>|<column name>|<col>|<col>|…      (fields separated by `|`; any other character may occur in a name)
  ->   bare=<parts of bareColumn [alias, name] joined by |> idx=<Scope.resolve of it | -> dotted=<parts of dottedColumn> didx=<…>
rows ::= row/row/…  row ::= v,v,v  v ::= <int> | N      (empty table: `.`) -/
open MindsVerif.Sem

def opOf : String → Option CmpOp
  | "=" => some .eq | "<>" => some .ne | "<" => some .lt | "<=" => some .le | ">" => some .gt | ">=" => some .ge
  | _ => none

def readV (s : String) : Val := if s == "N" then .null else match s.toInt? with | some i => .int i | none => .str s

def showV : Val → String
  | .null => "N"
  | .int i => toString i
  | .str s => "'" ++ s ++ "'"

def readRows (s : String) : List TRow :=
  if s.trimAscii.toString == "." then [] else
  ((s.trimAscii.toString).splitOn "/").map fun r => (r.splitOn ",").map readV

def showRows (rs : List TRow) : String :=
  if rs.isEmpty then "." else "/".intercalate (rs.map fun r => ",".intercalate (r.map showV))

def kindOf : String → Option JoinKind
  | "inner" => some .inner | "left" => some .left | "right" => some .right | "full" => some .full
  | "leftOuter" => some .leftOuter | _ => none

partial def readE : List String → Option (Expr × List String)
  | "c" :: op :: s :: c :: k :: rest => do
    some (.cmpC (← opOf op) (← s.toNat?) (← c.toNat?) (.int (← k.toInt?)), rest)
  | "n" :: s :: c :: rest => do some (.isNull (← s.toNat?) (← c.toNat?), rest)
  | "&" :: rest => do
    let (a, rest) ← readE rest
    let (b, rest) ← readE rest
    some (.and a b, rest)
  | _ => none

partial def readT : List String → Option (Tgt × List String)
  | "*" :: rest => some (.star, rest)
  | "col" :: s :: c :: rest => do some (.col (← s.toNat?) (← c.toNat?), rest)
  | "k" :: v :: rest => some (.const (readV v), rest)
  | "f" :: name :: "1" :: rest => do
    let (a, rest) ← readT rest
    match AggFn.ofName name with
    | some f => some (.agg f a, rest)
    | none => some (.fn1 a, rest)
  | "f" :: _ :: "2" :: rest => do
    let (a, rest) ← readT rest
    let (b, rest) ← readT rest
    some (.fn2 a b, rest)
  | "ar" :: o :: rest => do
    let op ← match o with | "+" => some ArOp.add | "-" => some ArOp.sub | "*" => some ArOp.mul | _ => none
    let (a, rest) ← readT rest
    let (b, rest) ← readT rest
    some (.arith op a b, rest)
  | "cmp" :: o :: rest => do
    let (a, rest) ← readT rest
    let (b, rest) ← readT rest
    some (.cmp (← opOf o) a b, rest)
  | "cast" :: rest => do
    let (a, rest) ← readT rest
    some (.cast a, rest)
  | "case" :: rest => do
    let (c, rest) ← readT rest
    let (t, rest) ← readT rest
    let (e, rest) ← readT rest
    some (.case c t e, rest)
  | _ => none

def toks (s : String) : List String := (s.splitOn " ").filter (· ≠ "")

def readTargets (s : String) : Option (List Tgt) :=
  (s.splitOn ",").mapM fun part => match readT (toks part) with
    | some (t, []) => some t
    | _ => none

def b01 (b : Bool) : String := if b then "1" else "0"
def optN (o : Option Nat) : String := match o with | none => "-" | some n => toString n
def readOptN (s : String) : Option Nat := if s == "-" then none else s.toNat?

def handleAgg (body : String) : String :=
  match body.splitOn ";" with
  | [qs, ts, a, b] =>
    match toks qs with
    | k :: c0 :: c1 :: lim :: rest =>
      let w : Option (Option Expr) := if rest == ["-"] then some none else
        match readE rest with | some (e, []) => some (some e) | _ => none
      match kindOf k, c0.toNat?, c1.toNat?, readTargets ts, w with
      | some k, some c0, some c1, some ts, some w =>
        let q : QA := { kind := k, c0 := c0, c1 := c1, w := w, limit := readOptN lim, targets := ts }
        let db : DB := { t0 := readRows a, t1 := readRows b, n0 := 3, n1 := 3 }
        let p := planA q
        s!"agg={b01 (selHasAgg ts)} limit0={optN p.limit0} | plan={showRows (execPlanA p ts db)} | query={showRows (evalQueryA q db)} | sound={b01 (planSound q.toQ2)}"
      | _, _, _, _, _ => "bad-line"
    | _ => "bad-line"
  | _ => "bad-line"

def handleAggApi (body : String) : String :=
  match body.splitOn ";" with
  | [lim, ts, a] =>
    match readTargets ts with
    | some ts =>
      let n := readOptN lim.trimAscii.toString
      let T := readRows a
      s!"agg={b01 (selHasAgg ts)} push={b01 (apiPushLimit ts)} | plan={showRows (execApi (apiPushLimit ts) ts n T)} | query={showRows (evalApi ts n T)}"
    | none => "bad-line"
  | _ => "bad-line"

def setOpOf : String → Option SetOpK
  | "union" => some .union | "unionAll" => some .unionAll | "intersect" => some .intersect | "except" => some .except
  | _ => none

def setOpStr : SetOpK → String
  | .union => "union" | .unionAll => "unionAll" | .intersect => "intersect" | .except => "except"

def readOrder (s : String) : Option (List (Nat × Bool)) :=
  if s == "-" then some [] else
  (s.splitOn ",").mapM fun it =>
    let d := it.endsWith "d"
    match (it.dropEnd 1).toString.toNat? with
    | some i => some (i, d)
    | none => none

def showOrder (o : List (Nat × Bool)) : String :=
  if o.isEmpty then "-" else ",".intercalate (o.map fun (i, d) => toString i ++ (if d then "d" else "a"))

def readNats (s : String) : Option (List Nat) := (s.splitOn ",").mapM (·.toNat?)

partial def readQ : List String → Option (SetQ × List String)
  | "op" :: k :: rest => do
    let k ← setOpOf k
    let (l, rest) ← readQ rest
    let (r, rest) ← readQ rest
    some (.op k l r, rest)
  | "sel" :: t :: cols :: d :: g :: ord :: lim :: off :: rest => do
    some (.sel { tbl := ← t.toNat?, cols := ← readNats cols, distinct := d == "1", group := g == "1",
                 order := ← readOrder ord, limit := readOptN lim, offset := readOptN off }, rest)
  | _ => none

def showStep : SStep → String
  | .fetch o => s!"F({o.tbl};{",".intercalate (o.cols.map toString)};{b01 o.distinct};{b01 o.group};{showOrder o.order};{optN o.limit};{optN o.offset})"
  | .setop k l r => s!"U({setOpStr k};{l};{r})"

def handleSet (body : String) : String :=
  match body.splitOn ";" with
  | [qs, a, b, c] =>
    match readQ (toks qs) with
    | some (q, []) =>
      let db : DBn := [readRows a, readRows b, readRows c]
      let p := planSet q []
      s!"steps={" ".intercalate (p.1.map showStep)} result={p.2} | plan={showRows (execSetPlan p db)} | query={showRows (q.eval db)}"
    | _ => "bad-line"
  | _ => "bad-line"

def handleNames (body : String) : String :=
  match ((body.splitOn "\n").headD "").splitOn "|" with
  | a :: n :: cols =>
    let sc : Scope := { alias := a.toList, cols := cols.map (·.toList) }
    let show_ (c : Ident) := "|".intercalate (c.map String.ofList)
    let idx (o : Option Nat) := match o with | some i => toString i | none => "-"
    let b := bareColumn [a.toList, n.toList]
    let d := dottedColumn [a.toList, n.toList]
    s!"bare={show_ b} idx={idx (sc.resolve b)} dotted={show_ d} didx={idx (sc.resolve d)}"
  | _ => "bad-line"

def handle (line : String) : String :=
  if line.startsWith "names|" then handleNames (line.drop 6).toString else
  if line.startsWith "aggapi " then handleAggApi (line.drop 7).toString else
  if line.startsWith "agg " then handleAgg (line.drop 4).toString else
  if line.startsWith "setq " then handleSet (line.drop 5).toString else "bad-line"

partial def loop (h : IO.FS.Stream) (out : IO.FS.Stream) : IO Unit := do
  let line ← h.getLine
  if line.isEmpty then return ()
  out.putStrLn (handle line)
  loop h out

def main : IO Unit := do
  loop (← IO.getStdin) (← IO.getStdout)
