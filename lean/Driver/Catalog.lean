import MindsVerif.Model.Catalog
/-! Line protocol driver for the catalog look-ups of the planner model (`Model/Catalog.lean`).
input : cat <fx> <form> <proj> <pns> ( rec <key>=<val>* ) <q>
      | int <fx> ( rec <ikey>=<val>* )
  fx   ::= four characters 0|1: repairs ts, target, ns, itype (`0000` = the code as it is)
  form ::= l (list) | g (legacy dict, plain name) | d (legacy dict, dotted name)
  key  ::= ns | ts | ob | gb | w | tp | o<n>          ikey ::= type | ct | o<n>
  val  ::= N (None) | T | F | n<nat> | s:<word> | l:<word>,<word>,… | D ({})        (`s:` = '', `l:` = [])
  q    ::= ( mj <col> <tf> <gcol|-> <limit> <star> <modelFirst> ) | ( j3 ) | ( ms <columnsOnly> <star> )
  tf   ::= none | latest | gt | ge | eq | between | lt
output: ok <answer> <step>;<step>;…  (as Driver/Plan.lean) | err planning | err notimpl | err internal <class> | bad-line -/
open MindsVerif.Plan

def showNum : SNum → String
  | .top n => s!"t{n}"
  | .sub p i => s!"s{p}_{i}"

def showONum : Option SNum → String
  | none => "none"
  | some n => showNum n

def showKind : Kind → String
  | .fetch => "f" | .subselect => "ss" | .join => "j" | .apply => "a" | .mapreduce => "mr" | .query => "q"
  | .other n => s!"o{n}"

def showSub (s : Sub) : String :=
  s!"{showKind s.kind}:{showONum s.num}:{",".intercalate (s.refs.map showNum)}"

def showStep (s : Step) : String :=
  s!"{showKind s.kind}:{showONum s.num}:{",".intercalate (s.refs.map showNum)}:{"|".intercalate (s.subs.map showSub)}"

def showResult : Except Err (List Step × SNum) → String
  | .ok (plan, x) => s!"ok {showNum x} " ++ ";".intercalate (plan.map showStep)
  | .error (.planning _) => "err planning"
  | .error (.notImpl _) => "err notimpl"
  | .error (.internal m) => s!"err internal {m}"

def nm (w : String) : Name := w.toList.map Char.toNat

def readBool (t : String) : Option Bool :=
  if t == "0" then some false else if t == "1" then some true else none

def readFx (t : String) : Option CatFix :=
  match t.toList with
  | [a, b, c, d] => do
    pure ⟨← readBool a.toString, ← readBool b.toString, ← readBool c.toString, ← readBool d.toString⟩
  | _ => none

def readVal (t : String) : Option Val :=
  if t == "N" then some .null
  else if t == "T" then some (.bool true)
  else if t == "F" then some (.bool false)
  else if t == "D" then some .dict
  else if t.startsWith "n" then (t.drop 1).toString.toNat?.map .num
  else if t.startsWith "s:" then some (.str (nm (t.drop 2).toString))
  else if t.startsWith "l:" then
    let body := (t.drop 2).toString
    some (.strs (if body == "" then [] else (body.splitOn ",").map nm))
  else none

def readKey (t : String) : Option Key :=
  if t == "ns" then some .integrationName else if t == "ts" then some .timeseries else if t == "ob" then some .orderBy
  else if t == "gb" then some .groupBy else if t == "w" then some .window else if t == "tp" then some .toPredict
  else if t.startsWith "o" then (t.drop 1).toString.toNat?.map .other else none

def readIKey (t : String) : Option IKey :=
  if t == "type" then some .type else if t == "ct" then some .classType
  else if t.startsWith "o" then (t.drop 1).toString.toNat?.map .other else none

/-- `( rec k=v … )` -/
def readRec {κ : Type} (rk : String → Option κ) : List String → Option (List (κ × Val) × List String)
  | "(" :: "rec" :: rest =>
    let body := rest.takeWhile (· ≠ ")")
    match rest.dropWhile (· ≠ ")") with
    | ")" :: tail =>
      let pairs := body.map (fun t =>
        match t.splitOn "=" with
        | [k, v] => do pure (← rk k, ← readVal v)
        | _ => none)
      if pairs.all Option.isSome then some (pairs.filterMap id, tail) else none
    | _ => none
  | _ => none

def readTF (t : String) : Option TF :=
  if t == "none" then some .none else if t == "latest" then some .latest else if t == "gt" then some .gt
  else if t == "ge" then some .ge else if t == "eq" then some .eq else if t == "between" then some .between
  else if t == "lt" then some .lt else none

def readQ : List String → Option CQ
  | ["(", "mj", col, tf, g, l, s, mf, ")"] => do
    pure (.modelJoin ⟨nm col, ← readTF tf, if g == "-" then none else some (nm g), ← readBool l, ← readBool s, ← readBool mf⟩)
  | ["(", "j3", ")"] => some .join3
  | ["(", "ms", co, s, ")"] => do pure (.modelSelect (← readBool co) (← readBool s))
  | _ => none

def handle (line : String) : String :=
  let padded := ((line.trimAscii.toString).replace "(" " ( ").replace ")" " ) "
  match (padded.splitOn " ").filter (· ≠ "") with
  | "cat" :: fx :: form :: proj :: pns :: rest =>
    let form? : Option Form := if form == "l" then some .list else if form == "g" then some .legacy
      else if form == "d" then some .dotted else none
    match readFx fx, form?, readRec readKey rest with
    | some fx, some form, some (r, rest) =>
      match readQ rest with
      | some q => showResult (planCat fx form (nm proj) (nm pns) r q [])
      | none => "bad-line"
    | _, _, _ => "bad-line"
  | "int" :: fx :: rest =>
    match readFx fx, readRec readIKey rest with
    | some fx, some (r, []) => showResult (planIntegration fx r [])
    | _, _ => "bad-line"
  | _ => "bad-line"

partial def loop (h : IO.FS.Stream) (out : IO.FS.Stream) : IO Unit := do
  let line ← h.getLine
  if line.isEmpty then return ()
  out.putStrLn (handle line)
  loop h out

def main : IO Unit := do
  loop (← IO.getStdin) (← IO.getStdout)
