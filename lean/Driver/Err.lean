import MindsVerif.Model.Err
import MindsVerif.Gen.Tables_mindsdb
import MindsVerif.Gen.ErrLex
import MindsVerif.Model.CanTake
/-! Line protocol driver for the M10 model (mindsdb dialect).
strings are sent as decimal code points joined by ',' ("-" = empty string)
input  `P <bad idx|eof> <expected ids , joined|-> <raising lists: ids , joined, lists ; joined|-> {<type> <lineno> <index> <value>}*`
                                                                                         → `ErrorHandling.process`
       `K <tok id>*`                                                                      → ids of the `expected_tokens` stored by `MindsDBParser.error` (kept by `_can_take`)
       `L <index> <text>`                                                                → `MindsDBLexer.error` (lines after the header)
output the message, encoded the same way -/
open MindsVerif MindsVerif.Err MindsVerif.Gen

def decStr (s : String) : List Char :=
  if s == "-" then [] else (s.splitOn ",").filterMap (fun x => x.toNat?.map Char.ofNat)

def encStr (s : List Char) : String :=
  if s.isEmpty then "-" else ",".intercalate (s.map (fun c => toString c.toNat))

def nm : Names := ⟨ErrLex.idTok, ErrLex.floatTok, ErrLex.integerTok, ErrLex.dquoteTok, ErrLex.quoteTok⟩
def attr (t : Nat) : Option (List Char) := ((ErrLex.attrs.getD t none).map String.toList)

def toToks : List String → Option (List Tok)
  | [] => some []
  | a :: b :: c :: d :: r =>
    match a.toNat?, b.toNat?, c.toNat?, toToks r with
    | some ty, some ln, some ix, some ts => some (⟨ty, decStr d, ln, ix⟩ :: ts)
    | _, _, _, _ => none
  | _ => none

def handle (line : String) : String :=
  match (line.trimAscii.toString.splitOn " ").filter (· ≠ "") with
  | "P" :: b :: e :: rj :: rest =>
    match toToks rest with
    | none => "bad-line"
    | some toks =>
      let bad := if b == "eof" then none else b.toNat?
      let exp := if e == "-" then [] else (e.splitOn ",").filterMap String.toNat?
      let rej : List (List Nat) := if rj == "-" then [] else (rj.splitOn ";").map (fun l => (l.splitOn ",").filterMap String.toNat?)
      encStr (process ErrLex.splitValues (queryIsValid Tables_mindsdb.tables (fun l => rej.any (· == l))) nm attr toks bad exp)
  | "K" :: rest =>
    ",".intercalate ((LR.keptExpected Tables_mindsdb.tables Tables_mindsdb.nTerms (rest.filterMap String.toNat?)).map toString)
  | ["L", i, t] =>
    match i.toNat? with
    | none => "bad-line"
    | some ix => encStr (joinWith ['\n'] (lexError (decStr t) ix))
  | _ => "bad-line"

partial def loop (h : IO.FS.Stream) (out : IO.FS.Stream) : IO Unit := do
  let line ← h.getLine
  if line.isEmpty then return ()
  out.putStrLn (handle line)
  loop h out

def main : IO Unit := do
  loop (← IO.getStdin) (← IO.getStdout)
