import MindsVerif.Model.ErrLine
/-! Line protocol driver for the text-level model of `MindsDBLexer.error` (M10b).
strings are sent as decimal code points joined by ',' ("-" = empty string)
input  `M <index> <text>`  → the complete `LexError` message (`lexErrorMsg`: header, echoed lines, caret line)
       `S <index> <text>`  → regression variant over `str.splitlines()` (`lexErrorSL`, lines after the header)
output the message, encoded the same way -/
open MindsVerif MindsVerif.Err

def decStr (s : String) : List Char :=
  if s == "-" then [] else (s.splitOn ",").filterMap (fun x => x.toNat?.map Char.ofNat)

def encStr (s : List Char) : String :=
  if s.isEmpty then "-" else ",".intercalate (s.map (fun c => toString c.toNat))

def handle (line : String) : String :=
  match (line.trimAscii.toString.splitOn " ").filter (· ≠ "") with
  | ["M", i, t] =>
    match i.toNat? with
    | none => "bad-line"
    | some ix => encStr (lexErrorMsg (decStr t) ix)
  | ["S", i, t] =>
    match i.toNat? with
    | none => "bad-line"
    | some ix => encStr (joinWith ['\n'] (lexErrorSL (decStr t) ix))
  | _ => "bad-line"

partial def loop (h : IO.FS.Stream) (out : IO.FS.Stream) : IO Unit := do
  let line ← h.getLine
  if line.isEmpty then return ()
  out.putStrLn (handle line)
  loop h out

def main : IO Unit := do
  loop (← IO.getStdin) (← IO.getStdout)
