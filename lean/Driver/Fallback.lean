import MindsVerif.Model.Fallback
import MindsVerif.Gen.SaTables
/-! Line protocol driver for the C17 models (tables = the generated `Gen.SaTables`).

R <w:0|1> <tree>                       → `raise=<exc|none> clean=<0|1> shaped=<0|1>`   (saRaises / clean / shaped at ctx stmt)
C <col>*                               → `raise=<exc|none> cols=<col>*`           (prepareCols;  col ::= <type:xHEX|~>:<pk 0|1>)
W <inner> <printer> <fb> <dialect> <xHEX> → `rendering` | `fallback xHEX` | `raised <exc>`   (inner, printer ::= ret | <exc>)

tree ::= ( <tag> <field>* <tree>* )     fields: naturals, `-` (no alias / None), xHEX strings (utf-8 hex),
                                        `N` | `L`xHEX,xHEX… string lists, `N` | `K`col,col… column lists
-/
open MindsVerif.Fallback MindsVerif.Gen

def G : Tables :=
  { typesMap := SaTables.typesMapKeys, methods := SaTables.methods, functions := SaTables.functionsKeys,
    opmap := SaTables.opmap, listOps := SaTables.listOps, textHas := SaTables.textHas,
    tupleIsList := SaTables.tupleIsList, dupExc := excOfProbe SaTables.dupExc,
    funcPyAttrs := SaTables.funcPyAttrs, funcGuard := SaTables.funcGuard, funcEmptyGuard := SaTables.funcEmptyGuard }

def hexVal (c : Char) : Nat :=
  if c.isDigit then c.toNat - '0'.toNat else if 'a' ≤ c ∧ c ≤ 'f' then c.toNat - 'a'.toNat + 10 else 0

partial def hexBytes : List Char → List UInt8
  | a :: b :: rest => UInt8.ofNat (hexVal a * 16 + hexVal b) :: hexBytes rest
  | _ => []

def unhex (s : String) : String :=
  match String.fromUTF8? (ByteArray.mk (hexBytes (s.toList.drop 1)).toArray) with
  | some r => r
  | none => ""

def hexDigit (n : Nat) : Char := if n < 10 then Char.ofNat (48 + n) else Char.ofNat (87 + n)

def tohex (s : String) : String :=
  "x" ++ String.ofList (s.toUTF8.toList.flatMap (fun b => [hexDigit (b.toNat / 16), hexDigit (b.toNat % 16)]))

def excOf (s : String) : Option Exc :=
  match s with
  | "sa" => some .sa | "notImpl" => some .notImpl | "key" => some .key | "attr" => some .attr
  | "type" => some .type | "index" => some .index | "exception" => some .exception | "other" => some .other
  | _ => none

def excStr : Exc → String
  | .sa => "sa" | .notImpl => "notImpl" | .key => "key" | .attr => "attr" | .type => "type"
  | .index => "index" | .exception => "exception" | .other => "other"

def alOf (s : String) : Al := if s == "-" then none else s.toNat?
def tblOf (s : String) : TblName := if s == "-" then .notIdent else .ident (s.toNat?.getD 0)
def boolOf (s : String) : Bool := s == "1"
def modeOf (s : String) : Mode := if s == "-" then .none else if s == "F" then .forUpdate else .other

def colOf (s : String) : Col :=
  match s.splitOn ":" with
  | [t, p] => { type := if t == "~" then none else some (unhex t), pk := p == "1" }
  | _ => { type := none, pk := false }

def colStr (c : Col) : String :=
  (match c.type with | some t => tohex t | none => "~") ++ ":" ++ (if c.pk then "1" else "0")

def listField (s : String) : Option (List String) :=
  if s == "N" then none else some (((s.drop 1).toString.splitOn ",").filter (· ≠ ""))

def tagOf (name : String) (f : List String) : Option Tag :=
  match name, f with
  | "star", [] => some .star
  | "last", [] => some .last
  | "const", [a] => some (.const (alOf a))
  | "ident", [n, s, a] => some (.ident (n.toNat?.getD 0) (unhex s) (alOf a))
  | "select", [m, a] => some (.select (modeOf m) (alOf a))
  | "union", [u, a] => some (.union (boolOf u) (alOf a))
  | "func", [n, d, h, a] => some (.func (unhex n) (boolOf d) (boolOf h) (alOf a))
  | "binop", [o, a] => some (.binop (unhex o) (alOf a))
  | "unop", [o, a] => some (.unop (unhex o) (alOf a))
  | "between", [a] => some (.between (alOf a))
  | "interval", [a] => some (.interval (alOf a))
  | "window", [a] => some (.window (alOf a))
  | "cast", [t, a] => some (.cast (unhex t) (alOf a))
  | "param", [h] => some (.param (boolOf h))
  | "tuple", [] => some .tuple
  | "variable", [] => some .variable
  | "latest", [] => some .latest
  | "exists", [a] => some (.exists_ (alOf a))
  | "case", [a] => some (.case_ (alOf a))
  | "cte", [h, n] => some (.cte (boolOf h) (n.toNat?.getD 0))
  | "join", [i, jt] => some (.join (boolOf i) (unhex jt))
  | "native", [a] => some (.nativeQuery (alOf a))
  | "grp", [] => some .grp
  | "nil", [] => some .nil
  | "insert", [t, cols, p, h] => some (.insert (tblOf t) ((listField cols).map (·.map unhex)) (boolOf p) (boolOf h))
  | "update", [t, h] => some (.update (tblOf t) (boolOf h))
  | "delete", [t] => some (.delete (tblOf t))
  | "create", [t, cols] => some (.createTable (tblOf t) ((listField cols).map (·.map colOf)))
  | "drop", [n, t] => some (.dropTables (n.toNat?.getD 0) (tblOf t))
  | "other", [] => some .other
  | _, _ => none

/-- `( name field* node* )` -/
partial def readNode : List String → Option (T × List String)
  | "(" :: name :: rest => go name [] [] rest
  | _ => none
where
  go (name : String) (fields : List String) (kids : List T) : List String → Option (T × List String)
    | ")" :: r => (tagOf name fields.reverse).map (fun tg => (T.mk tg kids.reverse, r))
    | toks@("(" :: _) =>
      match readNode toks with
      | some (k, r) => go name fields (k :: kids) r
      | none => none
    | t :: r => go name (t :: fields) kids r
    | [] => none

def tokens (line : String) : List String := (line.splitOn " ").filter (· ≠ "")

def handle (line : String) : String :=
  match tokens line with
  | "R" :: w :: rest =>
    match readNode rest with
    | some (t, []) =>
      let r := saRaises G (boolOf w) .stmt t
      s!"raise={match r with | some e => excStr e | none => "none"} clean={if clean G (boolOf w) .stmt t then 1 else 0} shaped={if shaped G (boolOf w) .stmt t then 1 else 0}"
    | _ => "bad-tree"
  | "C" :: cols =>
    let r := prepareCols G (cols.map colOf)
    s!"raise={match r.2 with | some e => excStr e | none => "none"} cols={" ".intercalate (r.1.map colStr)}"
  | ["W", inner, printer, fb, dialect, text] =>
    let i : Outcome Unit := match excOf inner with | some e => .raise e | none => .ret ()
    let p : Outcome String := match excOf printer with | some e => .raise e | none => .ret (unhex text)
    match getExecParams i p (boolOf fb) (SaTables.dialects.lookup dialect |>.getD dialect) SaTables.pgKeepsLiteral with
    | .rendering _ => "rendering"
    | .fallback s => "fallback " ++ tohex s
    | .raised e => "raised " ++ excStr e
  | _ => "bad-line"

partial def loop (h : IO.FS.Stream) (out : IO.FS.Stream) : IO Unit := do
  let line ← h.getLine
  if line.isEmpty then return ()
  out.putStrLn (handle (line.trimAscii.toString))
  loop h out

def main : IO Unit := do
  loop (← IO.getStdin) (← IO.getStdout)
