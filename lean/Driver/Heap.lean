import MindsVerif.Model.Heap
import MindsVerif.Model.HeapIso
import MindsVerif.Model.PyEq
import MindsVerif.Model.SingleLine
/-! Line protocol driver for the C18 models.
  copy HOOK ROOT | KIND k=v k=v … | KIND …      cells in address order; v ::= r<addr> | <atom token>
      → canonical form of the copy (`Heap.canon`) # iso=<Heap.isoCheck original copy>, or `none`
  stepeq TY k=v … | TY k=v …                     → true | false | none | raises   (`PlanStep.__eq__`)
  planeq FIXED SAMETYPE _ s s … | _ s s …        step tokens (after a dummy `_`); equal tokens = equal steps (`QueryPlan.__eq__`)
  reseq SN SN                                     step numbers i<int> | s<text> → true | false   (`Result.__eq__`)
  hash pinned N | hash fixed SN T                 → TypeError | ok <h>   (`Result.__hash__`: former / live, T = hash(('Result', step_num)))
  sline VARIANT n,n,n…                            character codes; `to_single_line` (pinned | fixed) → character codes
  coleq a b c d e f | a b c d e f                 name type pk default length nullable (`TableColumn.__eq__`) -/
open MindsVerif.Heap MindsVerif.PyEq

def words (s : String) : List String := (s.splitOn " ").filter (· ≠ "")

def readVal (t : String) : Val :=
  if t.startsWith "r" then
    match (t.drop 1).toNat? with
    | some n => .ref n
    | none => .atom t
  else .atom t

def readSlot (t : String) : String × String :=
  match t.splitOn "=" with
  | [k, v] => (k, v)
  | k :: rest => (k, "=".intercalate rest)
  | [] => ("", "")

def readCell (s : String) : Cell :=
  match words s with
  | k :: slots => ⟨k, slots.map (fun t => let p := readSlot t; (p.1, readVal p.2))⟩
  | [] => ⟨"?", []⟩

def readHook (s : String) : Hook :=
  if s == "off" then .off else if s == "pinned" then .pinned else if s == "fixed" then .fixed else .unknown

def showR : R → String
  | .true => "true" | .false => "false" | .none => "none" | .raises => "raises"

def readStep (s : String) : Step String :=
  match words s with
  | k :: slots => ⟨k, slots.map readSlot⟩
  | [] => ⟨"?", []⟩

def handle (line : String) : String :=
  match line.trimAscii.toString.splitOn " | " with
  | [] => "bad-line"
  | hd :: rest =>
    match words hd with
    | ["copy", hook, root] =>
      let h : Heap := rest.map readCell
      match deepcopy (readHook hook) 100000 h (readVal root) with
      | some (h', v') => canon h.length h' v' ++ (if isoCheck h h' (readVal root) v' then " # iso=1" else " # iso=0")
      | none => "none"
    | "stepeq" :: a =>
      match rest with
      | [b] => showR (stepEq (fun x y => x == y) (readStep (" ".intercalate a)) (readStep b))
      | _ => "bad-line"
    | "planeq" :: fixed :: same :: a =>
      match rest with
      | [b] => showR (planEq (fun (x y : String) => if x == y then R.true else R.false) (fixed == "1") (same == "1") (a.drop 1) ((words b).drop 1))
      | _ => "bad-line"
    | ["sline", variant, codes] =>
      let cs : List Char := (codes.splitOn ",").filterMap (fun t => t.toNat?.map Char.ofNat)
      let out := if variant == "fixed" then MindsVerif.SingleLine.fixedGo none false false false cs
                 else MindsVerif.SingleLine.collapseGo false false cs
      ",".intercalate (out.map (fun c => toString c.toNat))
    | ["sline", _] => ""
    | ["reseq", a, b] =>
      let rd (t : String) : Option StepNum :=
        if t.startsWith "i" then (t.drop 1).toInt?.map StepNum.int
        else if t.startsWith "s" then some (StepNum.str (t.drop 1).toString) else none
      match rd a, rd b with
      | some x, some y => if resultEqSN x y then "true" else "false"
      | _, _ => "bad-line"
    | ["hash", "pinned", n] =>
      match n.toInt? with
      | some i => (match resultHash (fun x => x) i with | .ok v => s!"ok {v}" | .error e => e)
      | none => "bad-line"
    | ["hash", "fixed", n, t] =>
      let sn : Option StepNum :=
        if n.startsWith "i" then (n.drop 1).toInt?.map StepNum.int
        else if n.startsWith "s" then some (StepNum.str (n.drop 1).toString) else none
      match sn, t.toInt? with
      | some x, some tv => s!"ok {resultHashSN (fun _ => tv) x}"
      | _, _ => "bad-line"
    | "coleq" :: a =>
      match a, rest.map words with
      | [a1, a2, a3, a4, a5, a6], [[b1, b2, b3, b4, b5, b6]] =>
        if colEq (⟨a1, a2, a3, a4, a5, a6⟩ : TableColumn String) ⟨b1, b2, b3, b4, b5, b6⟩ then "true" else "false"
      | _, _ => "bad-line"
    | _ => "bad-line"

partial def loop (h : IO.FS.Stream) (out : IO.FS.Stream) : IO Unit := do
  let line ← h.getLine
  if line.isEmpty then return ()
  out.putStrLn (handle line)
  loop h out

def main : IO Unit := do
  loop (← IO.getStdin) (← IO.getStdout)
