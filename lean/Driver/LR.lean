import MindsVerif.Model.LR
import MindsVerif.Gen.Tables_sqlite
import MindsVerif.Gen.Tables_mysql
import MindsVerif.Gen.Tables_mindsdb
/-! Line protocol driver for the LR model.
input line :  <dialect> <raise|drain> <bad:0|1> <tok id>*
output line:  <kind> [<bad idx|eof> <state> <expected ids,comma>] | <reduction log in order> -/
open MindsVerif.LR MindsVerif.Gen

def tablesOf (d : String) : Option (Tables × Nat) :=
  if d == "sqlite" then some (Tables_sqlite.tables, Tables_sqlite.nTerms)
  else if d == "mysql" then some (Tables_mysql.tables, Tables_mysql.nTerms)
  else if d == "mindsdb" then some (Tables_mindsdb.tables, Tables_mindsdb.nTerms)
  else none

def showLog (l : List Nat) : String := " | " ++ " ".intercalate (l.reverse.map toString)

def showErr (T : Tables) (nT : Nat) (e : ErrInfo) : String :=
  let b := match e.bad with | none => "eof" | some i => toString i
  let ks := match T.rows.get? e.state with
    | none => []
    | some r => r.keys nT
  s!" {b} {e.state} " ++ ",".intercalate (ks.map toString)

def showOutcome (T : Tables) (nT : Nat) : Outcome → String
  | .accept _ log => "accept" ++ showLog log
  | .none_ none log => "none -" ++ showLog log
  | .none_ (some e) log => "none" ++ showErr T nT e ++ showLog log
  | .synErr e log => "synerr" ++ showErr T nT e ++ showLog log
  | .lexErr log => "lexerr" ++ showLog log
  | .stuck n => s!"stuck {n}"
  | .fuel => "fuel"

def handle (line : String) : String :=
  match (line.trimAscii.toString.splitOn " ").filter (· ≠ "") with
  | d :: m :: b :: toks =>
    match tablesOf d with
    | none => "bad-dialect"
    | some (T, nT) =>
      let mode := if m == "drain" then Mode.drain else Mode.raise
      let ts := toks.filterMap String.toNat?
      if ts.length ≠ toks.length then "bad-token" else
      let fuel := 200 * (ts.length + 2) + 1000
      showOutcome T nT (parse T mode (b == "1") ts fuel)
  | _ => "bad-line"

partial def loop (h : IO.FS.Stream) (out : IO.FS.Stream) : IO Unit := do
  let line ← h.getLine
  if line.isEmpty then return ()
  out.putStrLn (handle line)
  loop h out

def main : IO Unit := do
  loop (← IO.getStdin) (← IO.getStdout)
