import MindsVerif.Model.Lex
import MindsVerif.Model.LexTab
import MindsVerif.Model.Denote
import MindsVerif.Model.LitRender
import MindsVerif.Model.Codec
import MindsVerif.Model.LexBq
import MindsVerif.Gen.Lex_sqlite
import MindsVerif.Gen.Lex_mysql
import MindsVerif.Gen.Lex_mindsdb
import MindsVerif.Gen.Reserved
/-! Line protocol driver for the literal / identifier models (C04, C07).
input : <op> <dialect|-> <arg> [<arg> …]     every arg is a string written as comma separated code points, `-` = empty
output: one line; strings written the same way; `none` for a failed scan.
ops   : scanq scandq read enc spec1 spec2 parts ident path num var render stdlex mysqllex -/
open MindsVerif MindsVerif.Lex MindsVerif.Gen

def dec (s : String) : List Char :=
  if s == "-" then [] else (s.splitOn ",").filterMap fun x => x.toNat?.map Char.ofNat

def enc (s : List Char) : String :=
  if s.isEmpty then "-" else ",".intercalate (s.map fun c => toString c.toNat)

def encL (l : List (List Char)) : String := "[" ++ "|".intercalate (l.map enc) ++ "]"

def dialectOf (d : String) : Option Dialect :=
  if d == "sqlite" then some .sqlite else if d == "mysql" then some .mysql
  else if d == "mindsdb" then some .mindsdb else none

def reservedL : List (List Char) := Reserved.wordsC

def kwOf : Dialect → KwTable
  | .sqlite => kwTable Lex_sqlite.rulesC Lex_sqlite.idAlts
  | .mysql => kwTable Lex_mysql.rulesC Lex_mysql.idAlts
  | .mindsdb => kwTable Lex_mindsdb.rulesC Lex_mindsdb.idAlts

def showTok : Option Tok → String
  | none => "none"
  | some t => s!"some {enc t.src} {enc t.value} {enc t.rest}"

def showItem : Denote.Item → String
  | .ch c => s!"c{c.toNat}"
  | .esc c => s!"e{c.toNat}"
  | .qq => "qq"

def showNum : Option (Num × List Char) → String
  | none => "none"
  | some (.int n, r) => s!"int {n} {enc r}"
  | some (.dec a b, r) => s!"dec {enc a} {enc b} {enc r}"

def handle (kw : Dialect → KwTable) (line : String) : String :=
  match (line.trimAscii.toString.splitOn " ").filter (· ≠ "") with
  | [op, d, a] =>
    let s := dec a
    let dl := (dialectOf d).getD .mindsdb
    if op == "scanq" then showTok (lexQuote dl s)
    else if op == "scandq" then showTok (lexDQuote dl s)
    else if op == "read" then
      match readString dl s with | none => "none" | some (v, r) => s!"some {enc v} {enc r}"
    else if op == "enc" then enc (constantToString s)
    else if op == "enc2" then enc (Codec.constantToString s)
    else if op == "read2" then
      match Codec.readString s with | none => "none" | some (v, r) => s!"some {enc v} {enc r}"
    else if op == "spec1" || op == "spec2" then
      let q := if op == "spec1" then '\'' else '"'
      match Denote.scan q (op == "spec1") s with
      | none => "none"
      | some (is, r) =>
        let its := if is.isEmpty then "-" else ",".intercalate (is.map showItem)
        s!"some {its} {enc (Denote.denote q is)} {enc r} esc={Denote.hasEscBackslash is} edge={Denote.edgeQuote q is} run={Denote.escQuoteRun q is} uses={Denote.usesEscape is}"
    else if op == "ident" then
      match lexIdentPath (kw dl) s with | none => "none" | some ps => "some " ++ encL ps
    else if op == "path" then encL (pathStrToParts s)
    else if op == "ident2" then
      match LexBq.lexIdentPath (kw dl) s with | none => "none" | some ps => "some " ++ encL ps
    else if op == "path2" then encL (LexBq.pathStrToParts s)
    else if op == "parts2" then
      let ps := (a.splitOn ",0,").map dec
      let str := LexBq.partsToStr reservedL ps
      let back := match LexBq.lexIdentPath (kw dl) str with | none => "none" | some ps => "some " ++ encL ps
      s!"{enc str} {back}"
    else if op == "num" then showNum (lexNumber dl s)
    else if op == "var" then
      match lexVariable s with | none => "none" | some (sys, v, r) => s!"some {sys} {enc v} {enc r}"
    else if op == "varstr" then enc (variableToString (d == "sys") s)
    else if op == "varrt" then
      match lexVariable (variableToString (d == "sys") s) with
      | none => "none" | some (sys, v, r) => s!"some {sys} {enc v} {enc r}"
    else if op == "render" then enc (LitRender.renderLiteral (d == "mysql") s)
    else if op == "stdlex" then
      match LitRender.stdLex s with | none => "none" | some (v, r) => s!"some {enc v} {enc r}"
    else if op == "mysqllex" then
      match LitRender.mysqlLex s with | none => "none" | some (v, r) => s!"some {enc v} {enc r}"
    else if op == "parts" then
      -- parts are separated by code point 0 inside the single argument
      let ps := (a.splitOn ",0,").map dec
      let str := partsToStr reservedL ps
      let back := match lexIdentPath (kw dl) str with | none => "none" | some ps => "some " ++ encL ps
      s!"{enc str} {back}"
    else "bad-op"
  | _ => "bad-line"

partial def loop (kw : Dialect → KwTable) (h : IO.FS.Stream) (out : IO.FS.Stream) : IO Unit := do
  let line ← h.getLine
  if line.isEmpty then return ()
  out.putStrLn (handle kw line)
  loop kw h out

def main : IO Unit := do
  -- build the keyword tables once
  let s := kwOf .sqlite
  let m := kwOf .mysql
  let x := kwOf .mindsdb
  let kw : Dialect → KwTable := fun d => match d with | .sqlite => s | .mysql => m | .mindsdb => x
  loop kw (← IO.getStdin) (← IO.getStdout)
