import MindsVerif.Model.PreLex
import MindsVerif.Model.Hist
import MindsVerif.Model.FloatPos
import MindsVerif.Model.LexBq
import MindsVerif.Model.CodecDq
import MindsVerif.Model.LitRender
import MindsVerif.Model.LexTab
import MindsVerif.Gen.Lex_sqlite
import MindsVerif.Gen.Lex_mysql
import MindsVerif.Gen.Lex_mindsdb
import MindsVerif.Gen.Reserved
/-! Line protocol driver for the round-5 models of C04 / C07 (pre-lexing step of `parse_sql`, object histories of an
`Identifier`, `float_to_str`).
input : <op> <dialect|-> <arg>      strings are comma separated code points, `-` = empty
ops   :
  prelex  - <text>        -> text handed to the lexer
  pyspace - <bound>       -> the code points below <bound> (decimal) in `\s`
  hist    <d> <items>     -> items separated by `/`: `A:<parts>` assign, `P` print, `O:<i>` pop, `I:<i>:<part>` insert,
                             `X:<part>` append, `S:<i>:<part>` set item, `E:<parts>` extend, `R` reverse; <parts> = parts
                             separated by `|`, `~` = no part.  Output: per print `<text>><read back>` separated by blanks
  fpos    - <repr>        -> `<printed text> <plain|sci|noparse> <float|nofloat>`
  encdq   - <value>       -> the double-quoted literal `json_to_sql` prints for a string
  renderx <-|mysql> <rle> -> `renderLiteral` of a long value; stdlexx / mysqllexx - <rle> -> the readers; texts in run-length form
                             `<count>*<code point>+…` in and out -/
open MindsVerif MindsVerif.Lex MindsVerif.Gen MindsVerif.Hist

def dec (s : String) : List Char :=
  if s == "-" then [] else (s.splitOn ",").filterMap fun x => x.toNat?.map Char.ofNat

def enc (s : List Char) : String :=
  if s.isEmpty then "-" else ",".intercalate (s.map fun c => toString c.toNat)

def encL (l : List (List Char)) : String := "[" ++ "|".intercalate (l.map enc) ++ "]"

/-- run-length form for long texts: `<count>*<code point>` joined by `+` (`-` = empty) -/
def decR (s : String) : List Char :=
  if s == "-" then [] else
  (s.splitOn "+").foldr (fun seg acc =>
    match seg.splitOn "*" with
    | [n, c] => List.replicate (n.toNat?.getD 0) (Char.ofNat (c.toNat?.getD 0)) ++ acc
    | _ => acc) []

def encRGo : List Char → Option (Char × Nat) → List String → List String
  | [], none, acc => acc.reverse
  | [], some (c, n), acc => (s!"{n}*{c.toNat}" :: acc).reverse
  | x :: t, none, acc => encRGo t (some (x, 1)) acc
  | x :: t, some (c, n), acc => if x == c then encRGo t (some (c, n + 1)) acc else encRGo t (some (x, 1)) (s!"{n}*{c.toNat}" :: acc)

def encR (s : List Char) : String :=
  if s.isEmpty then "-" else "+".intercalate (encRGo s none [])

def decParts (s : String) : List (List Char) :=
  if s == "~" then [] else (s.splitOn "|").map dec

def dialectOf (d : String) : Dialect :=
  if d == "sqlite" then .sqlite else if d == "mysql" then .mysql else .mindsdb

def reservedL : List (List Char) := Reserved.wordsC

def kwOf : Dialect → KwTable
  | .sqlite => kwTable Lex_sqlite.rulesC Lex_sqlite.idAlts
  | .mysql => kwTable Lex_mysql.rulesC Lex_mysql.idAlts
  | .mindsdb => kwTable Lex_mindsdb.rulesC Lex_mindsdb.idAlts

def evOf (item : String) : Option (Ev (ListOp (List Char))) :=
  match item.splitOn ":" with
  | ["P"] => some .obs
  | ["R"] => some (.act .reverse)
  | ["A", ps] => some (.act (.assign (decParts ps)))
  | ["E", ps] => some (.act (.extend (decParts ps)))
  | ["O", i] => i.toNat?.map fun n => .act (.pop n)
  | ["X", p] => some (.act (.append (dec p)))
  | ["I", i, p] => i.toNat?.map fun n => .act (.insert n (dec p))
  | ["S", i, p] => i.toNat?.map fun n => .act (.setItem n (dec p))
  | _ => none

def handle (kw : Dialect → KwTable) (line : String) : String :=
  match (line.trimAscii.toString.splitOn " ").filter (· ≠ "") with
  | [op, d, a] =>
    if op == "prelex" then enc (PreLex.preLex (dec a))
    else if op == "encdq" then enc (Codec.jsonStrToSql (dec a))
    else if op == "renderx" then encR (LitRender.renderLiteral (d == "mysql") (decR a))
    else if op == "stdlexx" then
      match LitRender.stdLex (decR a) with | none => "none" | some (v, r) => s!"some {encR v} {encR r}"
    else if op == "mysqllexx" then
      match LitRender.mysqlLex (decR a) with | none => "none" | some (v, r) => s!"some {encR v} {encR r}"
    else if op == "pyspace" then
      ",".intercalate (((List.range (a.toNat?.getD 0)).filter PreLex.isPySpaceN).map toString)
    else if op == "hist" then
      match (a.splitOn "/").mapM evOf with
      | none => "bad-items"
      | some evs =>
        let K := kw (dialectOf d)
        let outs := runLive ListOp.apply (LexBq.partsToStr reservedL) evs []
        let shown := outs.map fun t =>
          enc t ++ ">" ++ (match LexBq.lexIdentPath K t with | none => "none" | some ps => "some" ++ encL ps)
        if shown.isEmpty then "-" else " ".intercalate shown
    else if op == "fpos" then
      let r := dec a
      let out := FloatPos.floatToStr r
      let kind := if FloatPos.hasExp r then (if (FloatPos.parseSci r).isSome then "sci" else "noparse") else "plain"
      let body := match out with | '-' :: t => t | _ => out
      let tok := match lexNumber .mindsdb body with
        | some (.dec _ fp, []) => if fp.isEmpty then "nofloat" else "float"
        | _ => "nofloat"
      s!"{enc out} {kind} {tok}"
    else "bad-op"
  | _ => "bad-line"

partial def loop (kw : Dialect → KwTable) (h : IO.FS.Stream) (out : IO.FS.Stream) : IO Unit := do
  let line ← h.getLine
  if line.isEmpty then return ()
  out.putStrLn (handle kw line)
  loop kw h out

def main : IO Unit := do
  let s := kwOf .sqlite
  let m := kwOf .mysql
  let x := kwOf .mindsdb
  let kw : Dialect → KwTable := fun d => match d with | .sqlite => s | .mysql => m | .mindsdb => x
  loop kw (← IO.getStdin) (← IO.getStdout)
