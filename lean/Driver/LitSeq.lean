import MindsVerif.Model.LitSeq
/-! Line protocol driver for sequences of string constants and the two atom printers (C01, L1).
input : <v1> <sep1> <v2> <sep2> …     every argument a string written as comma separated code points, `-` = empty
output: <printed text> | [<value>|<value>|…]      or      <printed text> | none
input : P <v>            output: <Parameter.get_string model>
input : V <0|1> <v>      output: <Variable.get_string model> | <lexVariable of it: sys value rest | none> -/
open MindsVerif MindsVerif.LitSeq

def dec (s : String) : List Char :=
  if s == "-" then [] else (s.splitOn ",").filterMap fun x => x.toNat?.map Char.ofNat

def enc (s : List Char) : String :=
  if s.isEmpty then "-" else ",".intercalate (s.map fun c => toString c.toNat)

def pairs : List String → List (List Char × List Char)
  | v :: s :: rest => (dec v, dec s) :: pairs rest
  | _ => []

def handleSeq (ws : List String) : String :=
  let items := pairs ws
  let printed := printSeq items
  let res := match readSeq (items.map (·.2)) printed with
    | some vs => "[" ++ "|".intercalate (vs.map enc) ++ "]"
    | none => "none"
  enc printed ++ " | " ++ res

def handle (line : String) : String :=
  let ws := (line.trimAscii.toString.splitOn " ").filter (· ≠ "")
  match ws with
  | ["P", v] => enc (Lex.parameterToString (dec v))
  | ["V", sys, v] =>
    let txt := Lex.variableToString (sys == "1") (dec v)
    let back := match Lex.lexVariable txt with
      | some (isSys, value, rest) => s!"{if isSys then 1 else 0} {enc value} {enc rest}"
      | none => "none"
    enc txt ++ " | " ++ back
  | _ => handleSeq ws

partial def loop (h : IO.FS.Stream) (out : IO.FS.Stream) : IO Unit := do
  let line ← h.getLine
  if line.isEmpty then return ()
  out.putStrLn (handle line)
  loop h out

def main : IO Unit := do
  loop (← IO.getStdin) (← IO.getStdout)
