import MindsVerif.Model.ModelJoin
import MindsVerif.Model.JoinKind
/-! Line protocol driver for the table–model join planner model (C14).

input (space separated tokens; strings are `~` + percent-encoded text):
  line    ::= nops operand* where using info catalog
  catalog ::= nint str* nproj str* nmodel ((-|str) str)* pns dns        (pns, dns: - | str)
  info    ::= ntargets expr* isStar distinct groupBy having limit offset order nothers expr*   (flags 0|1; limit/offset - | str)
  order   ::= - | R n (expr dir)*
  operand ::= (tab|mod|sub) nparts part* alias jtype on target ninner integ tkey
  alias   ::= - | A n part*
  on,where::= - | expr
  target  ::= - | str
  using   ::= - | G n (key value)*
  expr    ::= C n qual* name | K v | P v | B op l r | W a b c | U op e | F name n arg* | O tag | S nsteps
output: steps separated by " | ", or `exc:PlanningException` / `exc:NotImplementedError`

a line `JK str` asks for the classification of one join-type string (Model/JoinKind.lean):
output `class=<semClass>;kind=<first word>;keepsRight=..;padsRight=..;padsLeft=..;limitLeft=..;respects=..` -/
open MindsVerif.ModelJoin

def hexVal (c : Char) : Nat :=
  if c.isDigit then c.toNat - '0'.toNat
  else if 'a' ≤ c ∧ c ≤ 'f' then c.toNat - 'a'.toNat + 10
  else if 'A' ≤ c ∧ c ≤ 'F' then c.toNat - 'A'.toNat + 10 else 0

def decodeChars : List Char → List Char
  | '%' :: a :: b :: rest => Char.ofNat (hexVal a * 16 + hexVal b) :: decodeChars rest
  | c :: rest => c :: decodeChars rest
  | [] => []

def dec (t : String) : String := String.ofList (decodeChars (t.toList.drop 1))

def hexDigit (n : Nat) : Char := if n < 10 then Char.ofNat (48 + n) else Char.ofNat (87 + n)

def enc (s : String) : String :=
  "~" ++ String.ofList (s.toList.flatMap fun c =>
    if c.isAlphanum ∨ c = '_' then [c] else ['%', hexDigit (c.toNat / 16), hexDigit (c.toNat % 16)])

def takeN {α} (rd : List String → Option (α × List String)) : Nat → List String → Option (List α × List String)
  | 0, ts => some ([], ts)
  | n + 1, ts => do
    let (x, ts) ← rd ts
    let (xs, ts) ← takeN rd n ts
    pure (x :: xs, ts)

def rdStr : List String → Option (String × List String)
  | t :: ts => some (dec t, ts)
  | [] => none

def mkArgs : List E → E
  | [] => .anil
  | a :: as => .acons a (mkArgs as)

partial def rdE : List String → Option (E × List String)
  | "C" :: n :: ts => do
    let n ← n.toNat?
    let (q, ts) ← takeN rdStr n ts
    let (nm, ts) ← rdStr ts
    pure (.col q nm, ts)
  | "K" :: v :: ts => some (.const (dec v), ts)
  | "P" :: v :: ts => some (.param (dec v), ts)
  | "B" :: op :: ts => do
    let (l, ts) ← rdE ts
    let (r, ts) ← rdE ts
    pure (.bin (dec op) l r, ts)
  | "W" :: ts => do
    let (a, ts) ← rdE ts
    let (b, ts) ← rdE ts
    let (c, ts) ← rdE ts
    pure (.btw a b c, ts)
  | "U" :: op :: ts => do
    let (e, ts) ← rdE ts
    pure (.un (dec op) e, ts)
  | "F" :: nm :: n :: ts => do
    let n ← n.toNat?
    let (as, ts) ← takeN rdE n ts
    pure (.fn (dec nm) (mkArgs as), ts)
  | "O" :: tag :: ts => some (.opq (dec tag), ts)
  | "S" :: n :: ts => n.toNat?.map fun n => (.sel n, ts)
  | _ => none

def rdOptE : List String → Option (Option E × List String)
  | "-" :: ts => some (none, ts)
  | ts => (rdE ts).map fun (e, ts) => (some e, ts)

def rdOperand : List String → Option (Operand × List String)
  | k :: n :: ts => do
    let kind ← (match k with | "tab" => some Kind.tab | "mod" => some .mod | "sub" => some .sub | _ => none)
    let n ← n.toNat?
    let (parts, ts) ← takeN rdStr n ts
    let (alias, ts) ← (match ts with
      | "-" :: ts => some (none, ts)
      | "A" :: m :: ts => do
        let m ← m.toNat?
        let (a, ts) ← takeN rdStr m ts
        pure (some a, ts)
      | _ => none)
    let (jt, ts) ← rdStr ts
    let (on, ts) ← rdOptE ts
    let (tg, ts) ← (match ts with
      | "-" :: ts => some (none, ts)
      | t :: ts => some (some (dec t), ts)
      | [] => none)
    let (ni, ts) ← (match ts with
      | t :: ts => t.toNat?.map fun n => (n, ts)
      | [] => none)
    let (ig, ts) ← rdStr ts
    let (tk, ts) ← rdStr ts
    pure ({ kind := kind, parts := parts, alias := alias, jtype := jt, on := on, target := tg, inner := ni,
            integ := ig, tkey := tk }, ts)
  | _ => none

def rdPair (ts : List String) : Option ((String × String) × List String) := do
  let (k, ts) ← rdStr ts
  let (v, ts) ← rdStr ts
  pure ((k, v), ts)

def rdUsing : List String → Option (Option (List (String × String)) × List String)
  | "-" :: ts => some (none, ts)
  | "G" :: n :: ts => do
    let n ← n.toNat?
    let (ps, ts) ← takeN rdPair n ts
    pure (some ps, ts)
  | _ => none

def rdFlag : List String → Option (Bool × List String)
  | "1" :: ts => some (true, ts)
  | "0" :: ts => some (false, ts)
  | _ => none

def rdOptStr : List String → Option (Option String × List String)
  | "-" :: ts => some (none, ts)
  | t :: ts => some (some (dec t), ts)
  | [] => none

def rdOrd (ts : List String) : Option ((E × String) × List String) := do
  let (e, ts) ← rdE ts
  let (d, ts) ← rdStr ts
  pure ((e, d), ts)

def rdInfo : List String → Option (QInfo × List E × List String)
  | n :: ts => do
    let n ← n.toNat?
    let (tg, ts) ← takeN rdE n ts
    let (st, ts) ← rdFlag ts
    let (di, ts) ← rdFlag ts
    let (gb, ts) ← rdFlag ts
    let (hv, ts) ← rdFlag ts
    let (li, ts) ← rdOptStr ts
    let (off, ts) ← rdOptStr ts
    let (ob, ts) ← (match ts with
      | "-" :: ts => some (none, ts)
      | "R" :: m :: ts => do
        let m ← m.toNat?
        let (l, ts) ← takeN rdOrd m ts
        pure (some l, ts)
      | _ => none)
    match ts with
    | m :: ts => do
      let m ← m.toNat?
      let (others, ts) ← takeN rdE m ts
      pure ({ targets := tg, isStar := st, distinct := di, groupBy := gb, having := hv, limit := li, offset := off,
              orderBy := ob }, others, ts)
    | [] => none
  | [] => none

def rdModel (ts : List String) : Option ((Option String × String) × List String) := do
  let (p, ts) ← rdOptStr ts
  let (n, ts) ← rdStr ts
  pure ((p, n), ts)

def rdCatalog : List String → Option (Catalog × List String)
  | n :: ts => do
    let n ← n.toNat?
    let (ints, ts) ← takeN rdStr n ts
    match ts with
    | m :: ts => do
      let m ← m.toNat?
      let (projs, ts) ← takeN rdStr m ts
      match ts with
      | k :: ts => do
        let k ← k.toNat?
        let (models, ts) ← takeN rdModel k ts
        let (pns, ts) ← rdOptStr ts
        let (dns, ts) ← rdOptStr ts
        pure ({ integrations := ints, projects := projs, models := models, predictorNs := pns, defaultNs := dns }, ts)
      | [] => none
    | [] => none
  | [] => none

def rdQuery : List String → Option (Query × Catalog)
  | n :: ts => do
    let n ← n.toNat?
    let (ops, ts) ← takeN rdOperand n ts
    let (w, ts) ← rdOptE ts
    let (u, ts) ← rdUsing ts
    let (info, others, ts) ← rdInfo ts
    let (cat, ts) ← rdCatalog ts
    if ts.isEmpty then pure ({ ops := ops, wh := w, using? := u, info := info, others := others }, cat) else none
  | [] => none

/-- what the catalog model says about every operand: model? routable? -/
def showRoute (cat : Catalog) (ops : List Operand) : String :=
  "route(" ++ ",".intercalate (ops.map fun o =>
    if o.kind = .sub then "s" else
      (if cat.isModel o.parts then "m" else "t") ++ (if cat.routable o.parts then "1" else "0")) ++ ")"

def argList : E → List E
  | .acons h t => h :: argList t
  | _ => []

partial def showE : E → String
  | .col q n => s!"C {q.length}" ++ String.join (q.map fun x => " " ++ enc x) ++ " " ++ enc n
  | .const v => "K " ++ enc v
  | .param v => "P " ++ enc v
  | .bin op l r => s!"B {enc op} {showE l} {showE r}"
  | .btw a b c => s!"W {showE a} {showE b} {showE c}"
  | .un op e => s!"U {enc op} {showE e}"
  | .fn nm a => s!"F {enc nm} {(argList a).length}" ++ String.join ((argList a).map fun x => " " ++ showE x)
  | .anil => "NIL"
  | .acons h t => s!"CONS {showE h} {showE t}"
  | .opq t => "O " ++ enc t
  | .sel n => s!"S {n}"

def showOptE : Option E → String
  | none => "-"
  | some e => showE e

def showDict (f : α → String) : Option (List (String × α)) → String
  | none => "None"
  | some d => "{" ++ ",".intercalate (d.map fun (k, v) => enc k ++ ":" ++ f v) ++ "}"

partial def showStep : Step → String
  | .nested k => s!"nested({k})"
  | .fetch t w l =>
    let so : Option String → String := fun | none => "-" | some v => enc v
    let ord := match l.order with
      | none => "-"
      | some os => "[" ++ ",".intercalate (os.map fun (c, d) => enc c ++ ":" ++ enc d) ++ "]"
    s!"fetch(t={t};w={showOptE w};limit={so l.limit};offset={so l.offset};order={ord})"
  | .inner t => s!"inner(t={t})"
  | .subsel t i w => s!"sub(t={t};in={i.show};w={showOptE w})"
  | .distinct i c => s!"dist(in={i.show};col={enc c})"
  | .apply t i row ps cm =>
    s!"apply(t={t};in={i.show};row={showDict enc row};params={showDict enc ps};map={showDict showE cm})"
  | .join l r jt on => s!"join(l={l.show};r={r.show};type={enc jt};on={showOptE on})"
  | .mr v sz subs => s!"mr(values={v.show};part={enc sz};[" ++ " ; ".intercalate (subs.map showStep) ++ "])"
  | .query i w li off =>
    let so : Option String → String := fun | none => "-" | some v => enc v
    s!"query(in={i.show};w={showOptE w};limit={so li};offset={so off})"

def showJoinKind (jt : String) : String :=
  let k := codeFlags jt
  s!"class={(semClass jt).name};kind={enc (joinKind jt)};keepsRight={k.keepsRight};padsRight={k.padsRight};" ++
    s!"padsLeft={k.padsLeft};limitLeft={k.limitLeft};respects={respects jt}"

def handle (line : String) : String :=
  match (line.trimAscii.toString.splitOn " ").filter (· ≠ "") with
  | ["JK", t] => showJoinKind (dec t)
  | toks =>
  match rdQuery toks with
  | none => "bad-line"
  | some (q, cat) =>
    showRoute cat q.ops ++ " || " ++
    match plan q with
    | .error .planning => "exc:PlanningException"
    | .error .notImplemented => "exc:NotImplementedError"
    | .ok steps => " | ".intercalate (steps.map showStep)

partial def loop (h : IO.FS.Stream) (out : IO.FS.Stream) : IO Unit := do
  let line ← h.getLine
  if line.isEmpty then return ()
  out.putStrLn (handle line)
  loop h out

def main : IO Unit := do
  loop (← IO.getStdin) (← IO.getStdout)
