import MindsVerif.Model.OPM
import MindsVerif.Gen.Prec_sqlite
import MindsVerif.Gen.Prec_mysql
import MindsVerif.Gen.Prec_mindsdb
/-! Line protocol driver for the operator-precedence machine.
input : <dialect> <tree>      tree ::= a<n> | (b <op> <tree> <tree>) | (p <op> <tree>) | (w <tree> <tree> <tree>) | (q <tree>)
output: <tokens of print (addParens tree)> | <parse result tree or "none"> | <addParens tree> | canon=<0|1> frag=<0|1>
tokens: a<n>  o<op>  (  )  -/
open MindsVerif.OPM MindsVerif.Gen

partial def showE : Expr → String
  | .atom n => s!"a{n}"
  | .bin o l r => s!"(b {o} {showE l} {showE r})"
  | .pre o e => s!"(p {o} {showE e})"
  | .btw x y z => s!"(w {showE x} {showE y} {showE z})"
  | .paren e => s!"(q {showE e})"

def showT : Tok → String
  | .atom n => s!"a{n}"
  | .op o => s!"o{o}"
  | .lpar => "("
  | .rpar => ")"

/-- reader over a token list produced by splitting on spaces after padding parentheses -/
partial def readE : List String → Option (Expr × List String)
  | [] => none
  | "(" :: "b" :: o :: rest => do
    let o ← o.toNat?
    let (l, rest) ← readE rest
    let (r, rest) ← readE rest
    match rest with | ")" :: rest => some (.bin o l r, rest) | _ => none
  | "(" :: "p" :: o :: rest => do
    let o ← o.toNat?
    let (e, rest) ← readE rest
    match rest with | ")" :: rest => some (.pre o e, rest) | _ => none
  | "(" :: "w" :: rest => do
    let (x, rest) ← readE rest
    let (y, rest) ← readE rest
    let (z, rest) ← readE rest
    match rest with | ")" :: rest => some (.btw x y z, rest) | _ => none
  | "(" :: "q" :: rest => do
    let (e, rest) ← readE rest
    match rest with | ")" :: rest => some (.paren e, rest) | _ => none
  | t :: rest =>
    if t.startsWith "a" then (t.drop 1).toNat?.map (fun n => (.atom n, rest)) else none

def specOf (d : String) : Option (Table × Strata × Fragment) :=
  if d == "sqlite" then some (Prec_sqlite.P, Prec_sqlite.S, Prec_sqlite.F)
  else if d == "mysql" then some (Prec_mysql.P, Prec_mysql.S, Prec_mysql.F)
  else if d == "mindsdb" then some (Prec_mindsdb.P, Prec_mindsdb.S, Prec_mindsdb.F)
  else none

def handle (line : String) : String :=
  let padded := ((line.trimAscii.toString).replace "(" " ( ").replace ")" " ) "
  match (padded.splitOn " ").filter (· ≠ "") with
  | d :: rest =>
    match specOf d, readE rest with
    | some (P, S, F), some (e, []) =>
      let e' := addParens S e
      let toks := print P e'
      let res := match parse P toks [] none with | none => "none" | some r => showE r
      " ".intercalate (toks.map showT) ++ " | " ++ res ++ " | " ++ showE e' ++
        s!" | canon={if canon P e' then 1 else 0} frag={if inFragment F e then 1 else 0}"
    | _, _ => "bad-line"
  | _ => "bad-line"

partial def loop (h : IO.FS.Stream) (out : IO.FS.Stream) : IO Unit := do
  let line ← h.getLine
  if line.isEmpty then return ()
  out.putStrLn (handle line)
  loop h out

def main : IO Unit := do
  loop (← IO.getStdin) (← IO.getStdout)
