import MindsVerif.Model.Plan
/-! Line protocol driver for the join-planner bookkeeping model.
input : <fixed 0|1> <jq>
  jq    ::= (q <wrap 0|1> (pre <pb>*) <tree>)
  pb    ::= (b <ret> <keep 0|1> <step>*)
  tree  ::= (j <tree> <tree>) | (T <cte 0|1> (d <nat>*) (p <nat>*)) | (M <ts 0|1> <psize 0|1>)
          | (S <aliased 0|1> <ret> <step>*) | (X)
  step  ::= (s <kind> <num> (r <num>*) (u <sub>*))        sub ::= (v <kind> <num> (r <num>*))
  kind  ::= f | ss | j | a | mr | q | o<n>                 num ::= t<n> | s<p>_<i> | none
output: ok <answer> <step>;<step>;…     with step = kind:num:ref,ref,…:sub|sub|…  (sub = kind:num:ref,…)
      | err planning | err notimpl | err internal | bad-line -/
open MindsVerif.Plan

def showNum : SNum → String
  | .top n => s!"t{n}"
  | .sub p i => s!"s{p}_{i}"

def showONum : Option SNum → String
  | none => "none"
  | some n => showNum n

def showKind : Kind → String
  | .fetch => "f" | .subselect => "ss" | .join => "j" | .apply => "a" | .mapreduce => "mr" | .query => "q"
  | .other n => s!"o{n}"

def showSub (s : Sub) : String :=
  s!"{showKind s.kind}:{showONum s.num}:{",".intercalate (s.refs.map showNum)}"

def showStep (s : Step) : String :=
  s!"{showKind s.kind}:{showONum s.num}:{",".intercalate (s.refs.map showNum)}:{"|".intercalate (s.subs.map showSub)}"

def readKind (t : String) : Option Kind :=
  if t == "f" then some .fetch else if t == "ss" then some .subselect else if t == "j" then some .join
  else if t == "a" then some .apply else if t == "mr" then some .mapreduce else if t == "q" then some .query
  else if t.startsWith "o" then (t.drop 1).toNat?.map .other else none

def readNum (t : String) : Option (Option SNum) :=
  if t == "none" then some none
  else if t.startsWith "t" then (t.drop 1).toNat?.map (fun n => some (.top n))
  else if t.startsWith "s" then
    match (t.drop 1).toString.splitOn "_" with
    | [p, i] => do let p ← p.toNat?; let i ← i.toNat?; pure (some (.sub p i))
    | _ => none
  else none

def readBool (t : String) : Option Bool :=
  if t == "0" then some false else if t == "1" then some true else none

partial def readNums : List String → List SNum → Option (List SNum × List String)
  | ")" :: rest, acc => some (acc.reverse, rest)
  | t :: rest, acc => match readNum t with | some (some n) => readNums rest (n :: acc) | _ => none
  | [], _ => none

partial def readNats : List String → List Nat → Option (List Nat × List String)
  | ")" :: rest, acc => some (acc.reverse, rest)
  | t :: rest, acc => match t.toNat? with | some n => readNats rest (n :: acc) | none => none
  | [], _ => none

partial def readSubs : List String → List Sub → Option (List Sub × List String)
  | ")" :: rest, acc => some (acc.reverse, rest)
  | "(" :: "v" :: k :: n :: "(" :: "r" :: rest, acc => do
    let k ← readKind k
    let n ← readNum n
    let (refs, rest) ← readNums rest []
    match rest with
    | ")" :: rest => readSubs rest (⟨k, n, refs⟩ :: acc)
    | _ => none
  | _, _ => none

partial def readSteps : List String → List Step → Option (List Step × List String)
  | ")" :: rest, acc => some (acc.reverse, rest)
  | "(" :: "s" :: k :: n :: "(" :: "r" :: rest, acc => do
    let k ← readKind k
    let n ← readNum n
    let (refs, rest) ← readNums rest []
    match rest with
    | "(" :: "u" :: rest =>
      let (subs, rest) ← readSubs rest []
      match rest with
      | ")" :: rest => readSteps rest (⟨k, n, refs, subs⟩ :: acc)
      | _ => none
    | _ => none
  | _, _ => none

partial def readTree : List String → Option (JT × List String)
  | "(" :: "j" :: rest => do
    let (l, rest) ← readTree rest
    let (r, rest) ← readTree rest
    match rest with | ")" :: rest => some (.join l r, rest) | _ => none
  | "(" :: "T" :: c :: "(" :: "d" :: rest => do
    let c ← readBool c
    let (d, rest) ← readNats rest []
    match rest with
    | "(" :: "p" :: rest =>
      let (p, rest) ← readNats rest []
      match rest with | ")" :: rest => some (.leaf (.table c d p), rest) | _ => none
    | _ => none
  | "(" :: "M" :: ts :: ps :: ")" :: rest => do
    let ts ← readBool ts
    let ps ← readBool ps
    some (.leaf (.predictor ts ps), rest)
  | "(" :: "S" :: al :: ret :: rest => do
    let al ← readBool al
    let ret ← ret.toNat?
    let (b, rest) ← readSteps rest []
    some (.leaf (.subselect al b ret), rest)
  | "(" :: "X" :: ")" :: rest => some (.bad, rest)
  | _ => none

partial def readPre : List String → List (List Step × Nat × Bool) → Option (List (List Step × Nat × Bool) × List String)
  | ")" :: rest, acc => some (acc.reverse, rest)
  | "(" :: "b" :: ret :: keep :: rest, acc => do
    let ret ← ret.toNat?
    let keep ← readBool keep
    let (b, rest) ← readSteps rest []
    readPre rest ((b, ret, keep) :: acc)
  | _, _ => none

def readJQ : List String → Option JQ
  | "(" :: "q" :: w :: "(" :: "pre" :: rest => do
    let w ← readBool w
    let (pre, rest) ← readPre rest []
    let (t, rest) ← readTree rest
    match rest with | [")"] => some ⟨pre, t, w⟩ | _ => none
  | _ => none

def handle (line : String) : String :=
  let padded := ((line.trimAscii.toString).replace "(" " ( ").replace ")" " ) "
  match (padded.splitOn " ").filter (· ≠ "") with
  | fx :: rest =>
    match readBool fx, readJQ rest with
    | some fixed, some q =>
      match planJoin fixed q [] with
      | .ok (plan, x) => s!"ok {showNum x} " ++ ";".intercalate (plan.map showStep)
      | .error (.planning _) => "err planning"
      | .error (.notImpl _) => "err notimpl"
      | .error (.internal _) => "err internal"
    | _, _ => "bad-line"
  | _ => "bad-line"

partial def loop (h : IO.FS.Stream) (out : IO.FS.Stream) : IO Unit := do
  let line ← h.getLine
  if line.isEmpty then return ()
  out.putStrLn (handle line)
  loop h out

def main : IO Unit := do
  loop (← IO.getStdin) (← IO.getStdout)
