import MindsVerif.Model.PlanQ
import MindsVerif.Model.PlanSizes
/-! Line protocol driver for the plan-bookkeeping model (`fromQuery` over the skeleton language).
input : <fixed 0|1> <stmt>
  stmt ::= (sel <sel>) | (cta <sel>) | (ct <0|1>) | (ins <sel>) | (insv) | (upd <sel>) | (upd0) | (del <sel>) | (oth)
  sel  ::= (un <sel> <sel>) | (bind <sel> <sel>) | (fail <0|1>) | (whole) | (tab <cte> <u>) | (api <u> <wrap> <u>)
         | (fn <u> <wrap> <u>) | (pred <columnsOnly> <u> <star> <u>) | (fs <sel> <wrap>) | (nat <wrap> <u>)
         | (dat <wrap> <u>) | (ts <grouped> <two> <cte> <limit> <star> <u>) | (jt <sel> <wrap> <u>) | (dml <kind> <u>)
         | (T <cte> (d <nat>*) <u>) | (M <ts> <psize>) | (S <aliased> <sel>) | (j <sel> <sel>)
  u    ::= (u <nat>*)        indexes into the environment of bound results, 0 = innermost `bind`
      | sz <j|s|f> (sizes <nat>*) (jt <sel> <wrap> <u>)     the join planner with per-model partition sizes (operand index ↦
        size; `Model/PlanSizes.lean`): j = joinOpen (the code as it is), s = splitStale, f = splitFresh (hypothetical variants)
output: ok <answer> <step>;<step>;…     with step = kind:num:ref,ref,…:sub|sub|…  (sub = kind:num:ref,…)
      | err planning | err notimpl | err internal | bad-line -/
open MindsVerif.Plan

def showNum : SNum → String
  | .top n => s!"t{n}"
  | .sub p i => s!"s{p}_{i}"

def showONum : Option SNum → String
  | none => "none"
  | some n => showNum n

def showKind : Kind → String
  | .fetch => "f" | .subselect => "ss" | .join => "j" | .apply => "a" | .mapreduce => "mr" | .query => "q"
  | .other n => s!"o{n}"

def showSub (s : Sub) : String :=
  s!"{showKind s.kind}:{showONum s.num}:{",".intercalate (s.refs.map showNum)}"

def showStep (s : Step) : String :=
  s!"{showKind s.kind}:{showONum s.num}:{",".intercalate (s.refs.map showNum)}:{"|".intercalate (s.subs.map showSub)}"

def readBool (t : String) : Option Bool :=
  if t == "0" then some false else if t == "1" then some true else none

partial def readNats : List String → List Nat → Option (List Nat × List String)
  | ")" :: rest, acc => some (acc.reverse, rest)
  | t :: rest, acc => match t.toNat? with | some n => readNats rest (n :: acc) | none => none
  | [], _ => none

def readU : List String → Option (List Nat × List String)
  | "(" :: "u" :: rest => readNats rest []
  | _ => none

def close : List String → Option (List String)
  | ")" :: rest => some rest
  | _ => none

partial def readSel : List String → Option (Sel × List String)
  | "(" :: "un" :: rest => do
    let (l, rest) ← readSel rest
    let (r, rest) ← readSel rest
    let rest ← close rest
    pure (.union l r, rest)
  | "(" :: "bind" :: rest => do
    let (c, rest) ← readSel rest
    let (r, rest) ← readSel rest
    let rest ← close rest
    pure (.bind c r, rest)
  | "(" :: "fail" :: b :: ")" :: rest => do pure (.fail (← readBool b), rest)
  | "(" :: "whole" :: ")" :: rest => some (.whole, rest)
  | "(" :: "tab" :: c :: rest => do
    let c ← readBool c
    let (u, rest) ← readU rest
    let rest ← close rest
    pure (.table c u, rest)
  | "(" :: "api" :: rest => do
    let (u, rest) ← readU rest
    match rest with
    | w :: rest =>
      let w ← readBool w
      let (u2, rest) ← readU rest
      let rest ← close rest
      pure (.apiDb u w u2, rest)
    | _ => none
  | "(" :: "fn" :: rest => do
    let (u, rest) ← readU rest
    match rest with
    | w :: rest =>
      let w ← readBool w
      let (u2, rest) ← readU rest
      let rest ← close rest
      pure (.withFunctions u w u2, rest)
    | _ => none
  | "(" :: "pred" :: co :: rest => do
    let co ← readBool co
    let (u, rest) ← readU rest
    match rest with
    | st :: rest =>
      let st ← readBool st
      let (u2, rest) ← readU rest
      let rest ← close rest
      pure (.predictor co u st u2, rest)
    | _ => none
  | "(" :: "fs" :: rest => do
    let (i, rest) ← readSel rest
    match rest with
    | w :: ")" :: rest => pure (.fromSelect i (← readBool w), rest)
    | _ => none
  | "(" :: "nat" :: w :: rest => do
    let w ← readBool w
    let (u, rest) ← readU rest
    let rest ← close rest
    pure (.native w u, rest)
  | "(" :: "dat" :: w :: rest => do
    let w ← readBool w
    let (u, rest) ← readU rest
    let rest ← close rest
    pure (.data w u, rest)
  | "(" :: "ts" :: g :: tw :: c :: l :: st :: rest => do
    let (u, rest) ← readU rest
    let rest ← close rest
    pure (.ts (← readBool g) (← readBool tw) (← readBool c) (← readBool l) (← readBool st) u, rest)
  | "(" :: "jt" :: rest => do
    let (t, rest) ← readSel rest
    match rest with
    | w :: rest =>
      let w ← readBool w
      let (u, rest) ← readU rest
      let rest ← close rest
      pure (.joinTables t w u, rest)
    | _ => none
  | "(" :: "dml" :: k :: rest => do
    let k ← k.toNat?
    let (u, rest) ← readU rest
    let rest ← close rest
    pure (.dml k u, rest)
  | "(" :: "T" :: c :: "(" :: "d" :: rest => do
    let c ← readBool c
    let (d, rest) ← readNats rest []
    let (u, rest) ← readU rest
    let rest ← close rest
    pure (.jTable c d u, rest)
  | "(" :: "M" :: ts :: ps :: ")" :: rest => do pure (.jModel (← readBool ts) (← readBool ps), rest)
  | "(" :: "S" :: al :: rest => do
    let al ← readBool al
    let (s, rest) ← readSel rest
    let rest ← close rest
    pure (.jSub al s, rest)
  | "(" :: "j" :: rest => do
    let (l, rest) ← readSel rest
    let (r, rest) ← readSel rest
    let rest ← close rest
    pure (.jJoin l r, rest)
  | _ => none

def readStmt : List String → Option Stmt
  | ["(", "insv", ")"] => some .insertValues
  | ["(", "upd0", ")"] => some (.update none)
  | ["(", "oth", ")"] => some .other
  | ["(", "ct", b, ")"] => (readBool b).map .createTable
  | "(" :: tag :: rest => do
    let (s, rest) ← readSel rest
    match rest with
    | [")"] =>
      if tag == "sel" then some (.select s) else if tag == "cta" then some (.createTableAs s)
      else if tag == "ins" then some (.insertSelect s) else if tag == "upd" then some (.update (some s))
      else if tag == "del" then some (.delete s) else none
    | _ => none
  | _ => none

/-- `cte <e|f> (defs <name>*) <ref>`: the i-th CTE (a one-step body) is stored with result `t<i>`; how is the bare
table name `ref` resolved?  `e` = keys as written (`CteKeys.exact`), `f` = case-folded (`CteKeys.folded`) -/
def handleCte (toks : List String) : String :=
  let nm (w : String) : Name := w.toList.map Char.toNat
  match toks with
  | v :: "(" :: "defs" :: rest =>
    let k := if v == "f" then CteKeys.folded else CteKeys.exact
    let defs := rest.takeWhile (· ≠ ")")
    match rest.dropWhile (· ≠ ")") with
    | [")", ref] =>
      let dict := (defs.zipIdx).foldl (fun d (w, i) => cteStore k d (nm w) (.top i)) []
      match cteRef k dict (nm ref) with
      | .ok (some r) => s!"cte {showNum r}"
      | .ok none => "table"
      | .error _ => "err internal"
    | _ => "bad-line"
  | _ => "bad-line"

/-- `sz <policy> (sizes n*) (jt tree wrap (u))` -/
def handleSz (toks : List String) : String :=
  match toks with
  | p :: "(" :: "sizes" :: rest =>
    let pol? : Option SizePolicy := if p == "j" then some .joinOpen else if p == "s" then some .splitStale
      else if p == "f" then some .splitFresh else none
    match pol?, readNats rest [] with
    | some pol, some (sz, rest) =>
      match readSel rest with
      | some (.joinTables t wrap _, []) =>
        match planJoinZ pol (sizesOf sz) (den true t []).2 wrap [] [] with
        | .ok (plan, x) => s!"ok {showNum x} " ++ ";".intercalate (plan.map showStep)
        | .error (.planning _) => "err planning"
        | .error (.notImpl _) => "err notimpl"
        | .error (.internal _) => "err internal"
      | _ => "bad-line"
    | _, _ => "bad-line"
  | _ => "bad-line"

def handle (line : String) : String :=
  let padded := ((line.trimAscii.toString).replace "(" " ( ").replace ")" " ) "
  match (padded.splitOn " ").filter (· ≠ "") with
  | "cte" :: rest => handleCte rest
  | "sz" :: rest => handleSz rest
  | fx :: rest =>
    match readBool fx, readStmt rest with
    | some fixed, some q =>
      match fromQuery fixed q [] with
      | .ok (plan, x) => s!"ok {showNum x} " ++ ";".intercalate (plan.map showStep)
      | .error (.planning _) => "err planning"
      | .error (.notImpl _) => "err notimpl"
      | .error (.internal _) => "err internal"
    | _, _ => "bad-line"
  | _ => "bad-line"

partial def loop (h : IO.FS.Stream) (out : IO.FS.Stream) : IO Unit := do
  let line ← h.getLine
  if line.isEmpty then return ()
  out.putStrLn (handle line)
  loop h out

def main : IO Unit := do
  loop (← IO.getStdin) (← IO.getStdout)
