import MindsVerif.Model.PrintHist
import MindsVerif.Gen.Reserved
/-! Line protocol driver for printing histories (C01, round 5).
input : one HISTORY per line = atoms separated by blanks, oldest first; strings are comma separated code points, `-` = empty
        I <part>|<part>|…     Identifier(parts=[…]).to_string()
        S <value>             Constant(value).to_string()        (string value)
        V0 <name> / V1 <name> Variable(name, is_system_var=…).to_string()
        P <value>             Parameter(value).to_string()
output: the texts `(atomPrinter reserved).texts history` prints, in order, separated by blanks -/
open MindsVerif MindsVerif.PrintHist

def dec (s : String) : List Char :=
  if s == "-" then [] else (s.splitOn ",").filterMap fun x => x.toNat?.map Char.ofNat

def enc (s : List Char) : String :=
  if s.isEmpty then "-" else ",".intercalate (s.map fun c => toString c.toNat)

def atoms : List String → List Atom
  | "I" :: a :: rest => .ident ((a.splitOn "|").map dec) :: atoms rest
  | "S" :: a :: rest => .str (dec a) :: atoms rest
  | "V0" :: a :: rest => .var false (dec a) :: atoms rest
  | "V1" :: a :: rest => .var true (dec a) :: atoms rest
  | "P" :: a :: rest => .param (dec a) :: atoms rest
  | _ => []

def handle (line : String) : String :=
  let ws := (line.trimAscii.toString.splitOn " ").filter (· ≠ "")
  " ".intercalate (((atomPrinter Gen.Reserved.wordsC).texts (atoms ws)).map enc)

partial def loop (h : IO.FS.Stream) (out : IO.FS.Stream) : IO Unit := do
  let line ← h.getLine
  if line.isEmpty then return ()
  out.putStrLn (handle line)
  loop h out

def main : IO Unit := do
  loop (← IO.getStdin) (← IO.getStdout)
