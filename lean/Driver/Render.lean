import MindsVerif.Model.Render
import MindsVerif.Model.SaParen
import MindsVerif.Model.EngineSqlite
import MindsVerif.Gen.SaPrec
import MindsVerif.Model.RenderSetOps
import MindsVerif.Model.RenderScope
/-! Line protocol driver for the renderer model (C06).

    E <expr>                 expr in prefix form: null | i <int> | c <n> | cmp <key_> L R | ar <key> L R |
                             and L R | or L R | not E | neg E | btw X LO HI        (key_: spaces as `_`)
      -> text of the WHERE expression SQLAlchemy prints (saNormE, then saParens over the generated
         `_PRECEDENCE`), `| ok=<okE> saok=<saOk> regroup=<sqlite regroups the text to the printed tree>`
    J <has_on 0|1> <join_type…>   -> printed join keyword | printed ON text for a missing condition | handled=<0|1>
    K <dir_> <nulls_>        -> ORDER BY suffix printed by prepare_select          (`_` for spaces, `-` for "")
    W <dir_> <nulls_>        -> ORDER BY suffix printed inside OVER (…)
    T <int n | null | btw | col> <alias or ->   -> label of the target
    SO <dialect> ; <rows of operand 0> <rows of operand 1> … ; <tree>      tree: L <i> | N <OPKEY> <l> <r>
      -> text structure `prepare_union` prints (S<i>, D[ … ], ( … ), OPKEY) | sup=<target has the operators> |
         rows of the tree | rows the target reads from that text (`!` = rejected)
    SX <rows …> ; <tree> ; <text structure sqlite> ; <… mysql> ; <… postgres>
      -> the model's text structure ×3 | sup=<sqlite has the operators> | rows of the tree | rows each dialect reads
         from the given text ×3 | acc=<`accepted d tree text` per dialect, 3 digits>
    SR <dialect> ; <rows …> ; <text structure as printed above>
      -> rows the target dialect reads from the text (`!` = rejected)
    FS <fresh|cache|cacheall> ; <level> ; <level> …      level: entries `t<table>[:<alias>]` | `j,<tref>,<tref>…`
      -> the FROM lists SQLAlchemy displays for that chain of nested expression sub-queries
-/
open MindsVerif MindsVerif.Render MindsVerif.Gen

def binId (key : String) : Nat := ((SaPrec.bins.find? fun r => r.2.1 == key).map (·.1)).getD 0
def binText (o : Nat) : String := ((SaPrec.bins.find? fun r => r.1 == o).map (·.2.2.1)).getD "?"
def preText (o : Nat) : String := ((SaPrec.pres.find? fun r => r.1 == o).map (·.2.2.1)).getD "?"

def cmpKey : Cmp → String
  | .eq => "=" | .ne => "!=" | .lt => "<" | .le => "<=" | .gt => ">" | .ge => ">="
  | .is => "is" | .isNot => "is not" | .like => "like" | .notLike => "not like"

def cmpOfKey (k : String) : Option Cmp :=
  [Cmp.eq, .ne, .lt, .le, .gt, .ge, .is, .isNot, .like, .notLike].find? fun c => cmpKey c == k

def arKey : Ar → String
  | .add => "+" | .sub => "-" | .mul => "*" | .mod => "%" | .div => "/"

def arOfKey (k : String) : Option Ar := [Ar.add, .sub, .mul, .mod, .div].find? fun c => arKey c == k

def saPolicy : SaParen.Policy where
  rkBin o := ((SaPrec.bins.find? fun r => r.1 == o).map (·.2.2.2.1)).getD 0
  rkPre o := ((SaPrec.pres.find? fun r => r.1 == o).map (·.2.2.2.1)).getD 0
  rkBtw := SaPrec.rkBtw
  natural o := ((SaPrec.bins.find? fun r => r.1 == o).map (·.2.2.2.2.1)).getD false
  preAll o := ((SaPrec.pres.find? fun r => r.1 == o).map (·.2.2.2.2)).getD false
  extra o := match ((SaPrec.bins.find? fun r => r.1 == o).map (·.2.2.2.2.2.2)).getD (0, 0) with
    | (0, _) => none
    | (k, 0) => some (k, none)
    | (k, x) => some (k, some x)

def sqliteP : OPM.Table :=
  EngineSqlite.table (SaPrec.bins.map fun r => (r.1, r.2.2.1)) (SaPrec.pres.map fun r => (r.1, r.2.2.1))
    SaPrec.btwId (binId "and")

/-- operator skeleton of a (normalised) expression; literals become atoms: NULL ↦ 999, n ↦ 1000+n -/
def toOPM : Render.Expr → OPM.Expr
  | .null => .atom 999
  | .int n => .atom (1000 + n.toNat)
  | .col i => .atom i
  | .cmp o l r => .bin (binId (cmpKey o)) (toOPM l) (toOPM r)
  | .ar o l r => .bin (binId (arKey o)) (toOPM l) (toOPM r)
  | .and l r => .bin (binId "and") (toOPM l) (toOPM r)
  | .or l r => .bin (binId "or") (toOPM l) (toOPM r)
  | .not e => .pre 201 (toOPM e)
  | .neg e => .pre 202 (toOPM e)
  | .btw _ x lo hi => .btw (toOPM x) (toOPM lo) (toOPM hi)
  | .inl _ x _ => .bin (binId "in") (toOPM x) (.atom 997)
  | .ite _ _ _ => .atom 998
  | .cast _ => .atom 998
  | .tnil => .atom 998
  | .tcons _ _ => .atom 998
  | .inq _ x _ => .bin (binId "in") (toOPM x) (.atom 997)
  | .exists_ _ => .atom 998
  | .scalar _ => .atom 998

def itemsOf : Render.Expr → List Render.Expr
  | .tcons e rest => e :: itemsOf rest
  | _ => []

/-- print the normalised expression with the `Grouping`s `saParens` decided -/
partial def pr : Render.Expr → OPM.Expr → String
  | e, .paren o => "(" ++ pr e o ++ ")"
  | .null, _ => "c999"
  | .int n, _ => s!"c{1000 + n.toNat}"
  | .col i, _ => s!"c{i}"
  | .cmp _ l r, .bin o a b => pr l a ++ " " ++ binText o ++ " " ++ pr r b
  | .ar _ l r, .bin o a b => pr l a ++ " " ++ binText o ++ " " ++ pr r b
  | .and l r, .bin o a b => pr l a ++ " " ++ binText o ++ " " ++ pr r b
  | .or l r, .bin o a b => pr l a ++ " " ++ binText o ++ " " ++ pr r b
  | .not e, .pre _ a => "NOT " ++ pr e a
  | .neg e, .pre _ a => "-" ++ pr e a
  | .btw n x lo hi, .btw a b c =>
    pr x a ++ (if n then " NOT BETWEEN " else " BETWEEN ") ++ pr lo b ++ " AND " ++ pr hi c
  | .ite c r e, _ =>
    let top := fun (x : Render.Expr) => pr x (SaParen.saParens saPolicy (toOPM x))
    let cond := match toOPM c with
      | .atom _ => top c
      | _ => "(" ++ top c ++ ")"
    "CASE WHEN " ++ cond ++ " THEN " ++ top r ++ " ELSE " ++ top e ++ " END"
  | .cast e, _ => "CAST(" ++ pr e (SaParen.saParens saPolicy (toOPM e)) ++ " AS BIGINT)"
  | .inl n x items, .bin _ a _ =>
    let top := fun (y : Render.Expr) => pr y (SaParen.saParens saPolicy (toOPM y))
    (if n then "(" else "") ++ pr x a ++ (if n then " NOT IN (" else " IN (") ++
      ", ".intercalate ((itemsOf items).map top) ++ ")" ++ (if n then ")" else "")
  | _, _ => "?"

/-- = `okE` (kept separate for the protocol flag) -/
def modelledE : Render.Expr → Bool
  | .cmp _ l r => modelledE l && modelledE r
  | .ar _ l r => modelledE l && modelledE r
  | .and l r => modelledE l && modelledE r
  | .or l r => modelledE l && modelledE r
  | .not e => modelledE e && !typedArith (saNormE e)
  | .neg e => modelledE e
  | .btw _ x lo hi => modelledE x && modelledE lo && modelledE hi
  | .ite c r e => modelledE c && modelledE r && modelledE e
  | .cast e => modelledE e
  | .inl _ x items => modelledE x && modelledE items
  | .tcons e rest => modelledE e && modelledE rest
  | .inq _ x _ => modelledE x
  | _ => true

/-- the sub-expressions that are printed as operator trees of their own (inside CASE, CAST, IN lists) -/
partial def subRoots : Render.Expr → List Render.Expr
  | .cmp _ l r => subRoots l ++ subRoots r
  | .ar _ l r => subRoots l ++ subRoots r
  | .and l r => subRoots l ++ subRoots r
  | .or l r => subRoots l ++ subRoots r
  | .not e => subRoots e
  | .neg e => subRoots e
  | .btw _ x lo hi => subRoots x ++ subRoots lo ++ subRoots hi
  | .ite c r e => [c, r, e]
  | .cast e => [e]
  | .inl _ x items => subRoots x ++ itemsOf items
  | _ => []

/-- (`saOk`, the engine regroups the print to the printed tree) for the expression and, recursively,
for every operator tree nested in a CASE / CAST / IN list -/
partial def deepFlags (n : Render.Expr) : Bool × Bool :=
  let o := toOPM n
  let p := SaParen.saParens saPolicy o
  let here := (SaParen.saOk saPolicy o, OPM.parse sqliteP (OPM.print sqliteP p) [] none == some p)
  (subRoots n).foldl (fun acc e => let f := deepFlags e; (acc.1 && f.1, acc.2 && f.2)) here

partial def readE : List String → Option (Render.Expr × List String)
  | "null" :: rest => some (.null, rest)
  | "i" :: n :: rest => n.toInt?.map fun n => (.int n, rest)
  | "c" :: n :: rest => n.toNat?.map fun n => (.col n, rest)
  | "cmp" :: k :: rest => do
    let o ← cmpOfKey (k.replace "_" " ")
    let (l, rest) ← readE rest
    let (r, rest) ← readE rest
    some (.cmp o l r, rest)
  | "ar" :: k :: rest => do
    let o ← arOfKey k
    let (l, rest) ← readE rest
    let (r, rest) ← readE rest
    some (.ar o l r, rest)
  | "and" :: rest => do
    let (l, rest) ← readE rest
    let (r, rest) ← readE rest
    some (.and l r, rest)
  | "or" :: rest => do
    let (l, rest) ← readE rest
    let (r, rest) ← readE rest
    some (.or l r, rest)
  | "not" :: rest => do
    let (e, rest) ← readE rest
    some (.not e, rest)
  | "neg" :: rest => do
    let (e, rest) ← readE rest
    some (.neg e, rest)
  | "ite" :: rest => do
    let (c, rest) ← readE rest
    let (r, rest) ← readE rest
    let (e, rest) ← readE rest
    some (.ite c r e, rest)
  | "cast" :: rest => do
    let (e, rest) ← readE rest
    some (.cast e, rest)
  | "in" :: k :: rest => do
    let k ← k.toNat?
    let (x, rest) ← readE rest
    let rec items : Nat → List String → Option (Render.Expr × List String)
      | 0, rest => some (.tnil, rest)
      | n + 1, rest => do
        let (e, rest) ← readE rest
        let (tl, rest) ← items n rest
        some (.tcons e tl, rest)
    let (its, rest) ← items k rest
    some (.inl false x its, rest)
  | "btw" :: rest => do
    let (x, rest) ← readE rest
    let (lo, rest) ← readE rest
    let (hi, rest) ← readE rest
    some (.btw false x lo hi, rest)
  | _ => none

/-- operator trees over *all* keys of the method table (incl. `||`), prefix form:
`a <n>` | `b <key_> L R` | `p <key> E` | `w X Y Z` -/
partial def readG : List String → Option (OPM.Expr × List String)
  | "a" :: n :: rest => n.toNat?.map fun n => (.atom n, rest)
  | "b" :: k :: rest => do
    let (l, rest) ← readG rest
    let (r, rest) ← readG rest
    some (.bin (binId (k.replace "_" " ")) l r, rest)
  | "p" :: k :: rest => do
    let (e, rest) ← readG rest
    some (.pre (if k == "NOT" then 201 else 202) e, rest)
  | "w" :: rest => do
    let (x, rest) ← readG rest
    let (y, rest) ← readG rest
    let (z, rest) ← readG rest
    some (.btw x y z, rest)
  | _ => none

def opName (o : Nat) : String := if o ≥ 200 then preText o else binText o

def unus (s : String) : String := if s == "-" then "" else s.replace "_" " "

def keySuffix (k : OrderKey) : String :=
  (if k.dir == "" then "" else " " ++ k.dir) ++ (if k.nulls == "" then "" else " " ++ k.nulls)

def b01 (b : Bool) : String := if b then "1" else "0"

/-! ### the specification semantics itself (`eval`, `evalFrom`, `evalSelect`, `evalGSelect`, `exec`) as
values, to be compared with sqlite3 on the same inputs -/

def sqliteEnv : Env := ⟨fun _ _ => none, true, fun _ => []⟩

def readVal (s : String) : Val := if s == "n" then none else s.toInt?

def showVal : Val → String
  | none => "n"
  | some n => toString n

def showRows (t : Render.Table) : String :=
  if t.isEmpty then "-" else "/".intercalate (t.map fun r => ",".intercalate (r.map showVal))

def readRows (s : String) : Render.Table :=
  if s == "-" then [] else (s.splitOn "/").map fun r => (r.splitOn ",").map readVal

def splitSemi (ts : List String) : List (List String) :=
  let go := ts.foldl (fun (acc : List (List String) × List String) t =>
    if t == ";" then (acc.1 ++ [acc.2], []) else (acc.1, acc.2 ++ [t])) ([], [])
  go.1 ++ [go.2]

def readOpt (ts : List String) : Option (Option Render.Expr) :=
  match ts with
  | ["-"] => some none
  | _ => match readE ts with | some (e, []) => some (some e) | _ => none

def readDb (ts : List String) : Option Db :=
  match ts with
  | [t, u] => some ⟨fun _ => 2, fun i => if i = 0 then readRows t else if i = 1 then readRows u else []⟩
  | _ => none

def readFrom (ts : List String) : Option From :=
  match ts with
  | ["t"] => some (.table 0)
  | ["i"] => some (.join (.table 0) "JOIN" true 1 none)
  | "j" :: jt :: rest => (readOpt rest).map fun on => .join (.table 0) (jt.replace "_" " ") false 1 on
  | _ => none

def readKeys (ts : List String) : List OrderKey :=
  if ts == ["-"] then [] else ts.filterMap fun t =>
    match t.splitOn ":" with
    | [c, d, n] => c.toNat?.map fun c => ⟨.col c, unus d, unus n⟩
    | _ => none

def readNatOpt (s : String) : Option Nat := if s == "-" then none else s.toNat?

def readT (t : String) : Option TExpr :=
  match t.splitOn ":" with
  | ["cs"] => some .countStar
  | ["p", c] => c.toNat?.map fun c => .plain (.col c)
  | ["a", f, c] =>
    let fn := if f == "count" then some AggFn.count else if f == "sum" then some .sum
      else if f == "min" then some .min else if f == "max" then some .max else none
    match fn, c.toNat? with | some fn, some c => some (.agg fn (.col c)) | _, _ => none
  | _ => none

def semQS (ts : List String) : String :=
  match splitSemi ts with
  | [db, fr, wh, [di], ord, [li], [off]] =>
    match readDb db, readFrom fr, readOpt wh with
    | some db, some f, some w =>
      let width := fromWidth db f
      let s : Select := ⟨di == "1", (List.range width).map fun i => ⟨.col i, none⟩, f, w, readKeys ord,
        readNatOpt li, readNatOpt off⟩
      showRows (evalSelect sqliteEnv db s)
    | _, _, _ => "bad-line"
  | _ => "bad-line"

def semQG (ts : List String) : String :=
  match splitSemi ts with
  | [db, wh, grp, tg, hv] =>
    match readDb db, readOpt wh with
    | some db, some w =>
      let keys : List Render.Expr := if grp == ["-"] then [] else grp.filterMap fun c => c.toNat?.map .col
      let targets := tg.filterMap readT
      let having : Option (TExpr × Cmp × Int) := match hv with
        | [t, c, n] => match readT t, cmpOfKey (c.replace "_" " "), n.toInt? with
          | some t, some c, some n => some (t, c, n) | _, _, _ => none
        | _ => none
      showRows (evalGSelect sqliteEnv db ⟨targets, .table 0, w, keys, having, [], none, none⟩)
    | _, _ => "bad-line"
  | _ => "bad-line"

def semQX (ts : List String) : String :=
  match splitSemi ts with
  | [db, "ins" :: cols :: [rows]] =>
    match readDb db with
    | some db =>
      let cs := (cols.splitOn ",").filterMap (·.toNat?)
      let rs := (readRows rows).map fun r => r.map fun v => match v with | none => Render.Expr.null | some n => .int n
      showRows (exec sqliteEnv db (.insert 0 cs rs))
    | none => "bad-line"
  | [db, "upd" :: c :: e, wh] =>
    match readDb db, c.toNat?, readE e, readOpt wh with
    | some db, some c, some (e, []), some w => showRows (exec sqliteEnv db (.update 0 [(c, e)] w))
    | _, _, _, _ => "bad-line"
  | [db, ["del"], wh] =>
    match readDb db, readOpt wh with
    | some db, some w => showRows (exec sqliteEnv db (.delete 0 w))
    | _, _ => "bad-line"
  | _ => "bad-line"

def handle (line : String) : String :=
  match (line.trimAscii.toString.splitOn " ").filter (· ≠ "") with
  | "V" :: v0 :: v1 :: v2 :: v3 :: rest =>
    match readE rest with
    | some (e, []) =>
      let vs := [readVal v0, readVal v1, readVal v2, readVal v3]
      showVal (eval sqliteEnv (fun i => (vs[i]?).join) e)
    | _ => "bad-line"
  | "QS" :: rest => semQS rest
  | "QG" :: rest => semQG rest
  | "QX" :: rest => semQX rest
  | "E" :: rest =>
    match readE rest with
    | some (e, []) =>
      let n := saNormE e
      let o := toOPM n
      let p := SaParen.saParens saPolicy o
      let fl := deepFlags n
      pr n p ++ s!" | ok={b01 (okE e)} mod={b01 (modelledE e)} saok={b01 fl.1} regroup={b01 fl.2}"
    | _ => "bad-line"
  | "G" :: rest =>
    match readG rest with
    | some (o, []) =>
      let p := SaParen.saParens saPolicy o
      let re := OPM.parse sqliteP (OPM.print sqliteP p) [] none == some p
      SaParen.render opName "BETWEEN" "AND" p ++
        s!" | saok={b01 (SaParen.saOk saPolicy o)} regroup={b01 re}"
    | _ => "bad-line"
  | ["D", pk, nl, serial] =>
    let c : ColDef := ⟨pk == "1", if nl == "t" then some true else if nl == "f" then some false else none, serial == "1"⟩
    let s := saSpec c
    s!"notnull={b01 s.notNull} pk={b01 s.pk}"
  | ["C", w, g, h, o, l, f] =>
    -- clause skeleton of a select with aggregates: which clauses does the rendered statement have
    let one : Render.Expr := .cmp .eq (.col 0) (.int 1)
    let q : GSelect :=
      { targets := [.countStar], from_ := .table 0
        where_ := if w == "1" then some one else none
        groupBy := if g == "1" then [.col 0] else []
        having := if h == "1" then some (.countStar, .gt, 1) else none
        order := if o == "1" then [⟨.col 0, "", ""⟩] else []
        limit := if l == "1" then some 1 else none
        offset := if f == "1" then some 1 else none }
    let r := saGSelect q
    s!"where={b01 r.where_.isSome} group={b01 (!r.groupBy.isEmpty)} having={b01 r.having.isSome} order={b01 (!r.order.isEmpty)} limit={b01 r.limit.isSome} offset={b01 r.offset.isSome}"
  | "JJ" :: rest =>
    -- a chain of two explicit joins: join types separated by `|`
    let parts := (" ".intercalate rest).splitOn " | "
    let f : From := parts.foldl (fun acc jt => .join acc jt false 1 (some oneEqOne)) (.table 0)
    if raisesFrom f then "!NotImplementedError" else
      let rec kws : From → List String
        | .join l jt _ _ _ => kws l ++ [jt]
        | _ => []
      " | ".intercalate (kws (saFrom f))
  | "J" :: on :: jt =>
    let jt := " ".intercalate jt
    match saKind jt with
    | some k => kindText k ++ " | " ++ (if on == "1" then "" else "1=1") ++
        s!" | handled={b01 (sqlKind jt == some k)}"
    | none => "!NotImplementedError |  | handled=0"
  | ["K", d, n] => keySuffix (saKey ⟨.null, unus d, unus n⟩)
  | ["W", d, n] => keySuffix (saWinKey ⟨.null, unus d, unus n⟩)
  | "T" :: rest =>
    let (e, al) : Option Render.Expr × String := match rest with
      | ["int", n, a] => (n.toInt?.map .int, a)
      | ["null", a] => (some .null, a)
      | ["btw", a] => (some (.btw false (.col 0) (.int 0) (.int 1)), a)
      | ["col", a] => (some (.col 0), a)
      | _ => (none, "")
    match e with
    | none => "bad-line"
    | some e => ((saTarget ⟨e, if al == "-" then none else some al⟩).alias).getD "-"
  | _ => "bad-line"

/-! ### round 5: set-operation text structure, FROM lists under auto-correlation -/
section Round5
open MindsVerif.RenderSetOps MindsVerif.RenderScope

def opOfKey (k : String) : Option (SetOp × Bool) :=
  [(SetOp.union, true), (.union, false), (.intersect, true), (.intersect, false), (.except, true), (.except, false)].find?
    fun p => opText p.1 p.2 == k

def dialectOf (s : String) : Option Dialect :=
  if s == "sqlite" then some .sqlite else if s == "mysql" then some .mysql
  else if s == "postgres" then some .postgres else none

partial def readTree : List String → Option (STree × List String)
  | "L" :: i :: rest => i.toNat?.map fun i => (.leaf i, rest)
  | "N" :: k :: rest => do
    let (op, u) ← opOfKey k
    let (l, rest) ← readTree rest
    let (r, rest) ← readTree rest
    some (.node op u l r, rest)
  | _ => none

mutual
partial def readAtom : List String → Option (RText × List String)
  | "D[" :: rest => do
    let (x, rest) ← readText rest
    match rest with | "]" :: rest => some (.wrap .derived x, rest) | _ => none
  | "(" :: rest => do
    let (x, rest) ← readText rest
    match rest with | ")" :: rest => some (.wrap .paren x, rest) | _ => none
  | t :: rest =>
    if t.startsWith "S" then (t.drop 1).toString.toNat?.map fun i => (.sel i, rest) else none
  | [] => none
partial def readMore (acc : RText) : List String → Option (RText × List String)
  | k :: rest =>
    match opOfKey k with
    | some (op, u) => do
      let (y, rest) ← readAtom rest
      readMore (.chain acc op u y) rest
    | none => some (acc, k :: rest)
  | [] => some (acc, [])
partial def readText (ts : List String) : Option (RText × List String) := do
  let (x, rest) ← readAtom ts
  readMore x rest
end

/-- (the rows are read once, by the caller: `tabsOf (ts.map readRows)`) -/
def tabsOf (tabs : List Render.Table) (i : Nat) : Render.Table := (tabs[i]?).getD []

def showOpt : Option Render.Table → String
  | none => "!"
  | some t => showRows t

def readTRef (s : String) : Option TRef :=
  match (s.drop 1).toString.splitOn ":" with
  | [t] => t.toNat?.map fun t => ⟨t, none⟩
  | [t, a] => match t.toNat?, a.toNat? with | some t, some a => some ⟨t, some a⟩ | _, _ => none
  | _ => none

def readFRef (s : String) : Option FRef :=
  if s.startsWith "j," then
    match ((s.drop 2).toString.splitOn ",").mapM readTRef with
    | some (a :: more) => some (.join a more)
    | _ => none
  else (readTRef s).map .table

def showTRef (t : TRef) : String := s!"t{t.table}" ++ (match t.alias with | none => "" | some a => s!":{a}")

def showFRef : FRef → String
  | .table t => showTRef t
  | .join a more => "j," ++ ",".intercalate ((a :: more).map showTRef)

def handle5 (line : String) : Option String :=
  match (line.trimAscii.toString.splitOn " ").filter (· ≠ "") with
  | "SO" :: rest =>
    match splitSemi rest with
    | [[d], tabs, tree] =>
      match dialectOf d, readTree tree with
      | some d, some (t, []) =>
        let rows := tabs.map readRows
        let tb := tabsOf rows
        let x := RenderSetOps.render d t
        some (x.show ++ s!" | sup={b01 (supported d t)} | " ++ showRows (evalTree tb t) ++ " | " ++ showOpt (denote d tb x))
      | _, _ => some "bad-line"
    | _ => some "bad-line"
  | "SX" :: rest =>
    -- all three dialects at once: SX <rows …> ; <tree> ; <sqlite text> ; <mysql text> ; <postgres text>
    --   -> model text ×3 | sup(sqlite) | rows of the tree | reading of the given text ×3 | acc=<3 digits>
    match splitSemi rest with
    | [tabs, tree, xs, xm, xp] =>
      match readTree tree with
      | some (t, []) =>
        let rows := tabs.map readRows
        let tb := tabsOf rows
        let rd := fun (d : Dialect) (ts : List String) => match readText ts with
          | some (x, []) => showOpt (denote d tb x)
          | _ => "bad-text"
        let ac := fun (d : Dialect) (ts : List String) => match readText ts with
          | some (x, []) => b01 (accepted d t x)
          | _ => "0"
        some (" | ".intercalate [(RenderSetOps.render .sqlite t).show, (RenderSetOps.render .mysql t).show,
          (RenderSetOps.render .postgres t).show, s!"sup={b01 (supported .sqlite t)}", showRows (evalTree tb t),
          rd .sqlite xs, rd .mysql xm, rd .postgres xp, "acc=" ++ ac .sqlite xs ++ ac .mysql xm ++ ac .postgres xp])
      | _ => some "bad-line"
    | _ => some "bad-line"
  | "SR" :: rest =>
    match splitSemi rest with
    | [[d], tabs, text] =>
      match dialectOf d, readText text with
      | some d, some (x, []) => let rows := tabs.map readRows
        some (showOpt (denote d (tabsOf rows) x))
      | _, _ => some "bad-line"
    | _ => some "bad-line"
  | "FS" :: rest =>
    match splitSemi rest with
    | [pol] :: levels =>
      match levels.mapM (fun l => l.mapM readFRef) with
      | some ls =>
        let objs := if pol == "fresh" then allocFresh 0 ls else allocCached (pol == "cacheall") 0 ls
        some (" ; ".intercalate ((printed (displayAll [] objs)).map fun l =>
          if l.isEmpty then "-" else " ".intercalate (l.map showFRef)))
      | none => some "bad-line"
    | _ => some "bad-line"
  | _ => none

end Round5

partial def loop (h : IO.FS.Stream) (out : IO.FS.Stream) : IO Unit := do
  let line ← h.getLine
  if line.isEmpty then return ()
  let r5 := line.startsWith "SO " || line.startsWith "SR " || line.startsWith "SX " || line.startsWith "FS "
  out.putStrLn (if r5 then (handle5 line).getD "bad-line" else handle line)
  loop h out

def main : IO Unit := do
  loop (← IO.getStdin) (← IO.getStdout)
