import Lean.Data.Json
import MindsVerif.Model.Route
import MindsVerif.Model.RouteNorm
/-! Line protocol driver for the routing model (C10, C11).  One JSON object per input line, one JSON
object per output line.  Names are arrays of code points.

  {"op":"cat","cat":CAT}                                    → the normalised catalog
  {"op":"route","cat":CAT,"parts":[NAME…]}                  → both resolvers, both routes, predictor views
  {"op":"plan","cat":CAT,"ctes":[NAME…],"names":[NAME…],"node":NODE}        → get_query_info + check_single_integration + stripped identifiers
  {"op":"strip","db":NAME,"par":"n|j|s","slot":"t|g|a","node":NODE} → identifiers after prepare_integration_select
  {"op":"sem","db":NAME,"sch":[[NAME,[NAME…]]…],"sel":SEL}  → resolution of every column reference, federated and stripped/local
  {"op":"norm","tbl":[[c,[c…]]…],"cat":CAT,"ctes":[NAME…],"names":[NAME…],"node":NODE}
      → the generic model (Model/RouteNorm.lean) with the character table as THE normaliser of every site: catalog,
        get_query_info, both check_single_integration sites, identifiers after prepare_integration_select
  {"op":"pathstr","name":NAME}                              → path_str_to_parts on a string without back-quotes

  CAT  = {"ints":null|[["n",NAME]|["d",NAME,NAME,NAME|null]…],"pns":null|NAME,"pm":null|["list"|"legacy",[[NAME,NAME|null]…]],"dns":null|NAME}
  NODE = ["I",[NAME…],star,null|[NAME…]] | ["L"] | ["N"] | ["F",udf,[KID…]] | ["S","n|j|s",[KID…]] | ["P",[KID…]]
  KID  = ["t|g|a|k",NODE]
  SEL  = [[[[NAME…],NAME|null]…],[[NAME…]…],[SEL…],[SEL…]]   (tables, column references, nested selects, CTE bodies) -/
open Lean (Json)
open MindsVerif.Route

def getName (j : Json) : Except String Name := do
  let a ← j.getArr?
  a.toList.mapM (·.getNat?)

def getNames (j : Json) : Except String (List Name) := do
  let a ← j.getArr?
  a.toList.mapM getName

def getOptName (j : Json) : Except String (Option Name) :=
  if j.isNull then pure none else some <$> getName j

def getSpec (j : Json) : Except String IntegSpec := do
  let a ← j.getArr?
  match a.toList with
  | [k, n] => if (← k.getStr?) == "n" then return .nm (← getName n) else throw "spec"
  | [_, n, t, c] => return .dict (← getName n) (← getName t) (← getOptName c)
  | _ => throw "spec"

def getPredSpec (j : Json) : Except String PredSpec := do
  let a ← j.getArr?
  match a.toList with
  | [n, i] => return ⟨← getName n, ← getOptName i⟩
  | _ => throw "predspec"

def getCat (j : Json) : Except String CatalogIn := do
  let ints ← j.getObjVal? "ints"
  let ints ← if ints.isNull then pure none else some <$> ((← ints.getArr?).toList.mapM getSpec)
  let pns ← getOptName (← j.getObjVal? "pns")
  let pm ← j.getObjVal? "pm"
  let pm ← if pm.isNull then pure PredMeta.none else do
    match (← pm.getArr?).toList with
    | [k, l] =>
      let ps ← (← l.getArr?).toList.mapM getPredSpec
      if (← k.getStr?) == "list" then pure (PredMeta.list ps) else pure (PredMeta.legacy ps)
    | _ => throw "pm"
  let dns ← getOptName (← j.getObjVal? "dns")
  return ⟨ints, pns, pm, dns⟩

def getSlot (s : String) : Slot :=
  if s == "t" then .tbl else if s == "g" then .tgt else if s == "k" then .skip else .arg

def getPar (s : String) : Par :=
  if s == "j" then .sel true else if s == "s" then .sel false else .noFrom

mutual
partial def getNode (j : Json) : Except String Node := do
  let a ← j.getArr?
  match a.toList with
  | [k] => if (← k.getStr?) == "N" then return .native else return .leaf
  | [_, parts, star, alias] =>
    let al ← if alias.isNull then pure none else some <$> getNames alias
    return .ident (← getNames parts) (← star.getBool?) al
  | [k, x, kids] =>
    if (← k.getStr?) == "F" then return .func (← x.getBool?) (← getKids (← kids.getArr?).toList)
    else return .scope (getPar (← x.getStr?)) (← getKids (← kids.getArr?).toList)
  | [_, kids] => return .plain (← getKids (← kids.getArr?).toList)
  | _ => throw "node"
partial def getKids : List Json → Except String Kids
  | [] => pure .nil
  | k :: r => do
    match (← k.getArr?).toList with
    | [s, n] => return .cons (getSlot (← s.getStr?)) (← getNode n) (← getKids r)
    | _ => throw "kid"
end

mutual
partial def getSel (j : Json) : Except String Sel := do
  let l := (← j.getArr?).toList
  match l with
  | tabs :: cols :: subs :: rest =>
    let tabs ← (← tabs.getArr?).toList.mapM fun t => do
      match (← t.getArr?).toList with
      | [p, a] => pure (⟨← getNames p, ← getOptName a⟩ : TRef)
      | _ => throw "tref"
    let cols ← (← cols.getArr?).toList.mapM getNames
    let ctes ← match rest with
      | [c] => getSels (← c.getArr?).toList
      | _ => pure Sels.nil
    return .mk tabs cols (← getSels (← subs.getArr?).toList) ctes
  | _ => throw "sel"
partial def getSels : List Json → Except String Sels
  | [] => pure .nil
  | s :: r => do return .cons (← getSel s) (← getSels r)
end

def jName (n : Name) : Json := .arr (n.map fun (c : Nat) => Lean.toJson c).toArray
def jNames (l : List Name) : Json := .arr (l.map jName).toArray
def jOptName : Option Name → Json
  | none => .null
  | some n => jName n
def jRes : Option (Name × List Name) → Json
  | none => .null
  | some (d, t) => .arr #[jName d, jNames t]
def jRouted : Routed → Json
  | .fetch i t => .arr #["fetch", jName i, jNames t]
  | .planningError => .arr #["planningError"]
  | .crash => .arr #["crash"]
def jView : Option PredView → Json
  | none => .null
  | some v => .arr #[jOptName v.project, jName v.name, jOptName v.version]
def jItem : Item → Json
  | .table p => .arr #["t", jNames p]
  | .native => .arr #["n"]
  | .udf => .arr #["u"]
def jIdent (x : List Name × Bool × Option (List Name)) : Json :=
  .arr #[jNames x.1, x.2.1, match x.2.2 with | none => .null | some a => jNames a]
def jResC : Res → Json
  | .ok d i t c => .arr #["ok", d, i, jName t, jName c]
  | .ambiguous => .arr #["ambiguous"]
  | .notFound => .arr #["notFound"]
  | .badTable => .arr #["badTable"]

def handle (line : String) : Except String Json := do
  let j ← Json.parse line
  let op ← (← j.getObjVal? "op").getStr?
  if op == "cat" then
    let c := mkCatalog (← getCat (← j.getObjVal? "cat"))
    return Json.mkObj [
      ("integrations", .arr (c.integrations.map fun (k, v) => Json.arr #[jName k, jOptName v]).toArray),
      ("projects", jNames c.projects),
      ("predictors", .arr (c.predictors.map fun (k, v) => Json.arr #[jName k, jOptName v.project]).toArray),
      ("dns", jOptName c.defaultNs)]
  else if op == "route" then
    let c := mkCatalog (← getCat (← j.getObjVal? "cat"))
    let parts ← getNames (← j.getObjVal? "parts")
    let alias ← match j.getObjVal? "alias" with
      | .ok v => if v.isNull then pure none else some <$> getNames v
      | .error _ => pure none
    let jInfo : Option TableInfo → Json
      | none => .null
      | some ti => .arr #[jOptName ti.integration, jNames ti.table, .arr (ti.aliases.map jNames).toArray, ti.bareName]
    return Json.mkObj [
      ("tableInfo", jInfo (resolveTable c parts alias false)),
      ("dbt", jNames (dbtSource c (← match j.getObjVal? "dbtInt" with
        | .ok v => getOptName v
        | .error _ => pure none) parts)),
      ("dbtOld", jNames (dbtSourceOld c (← match j.getObjVal? "dbtInt" with
        | .ok v => getOptName v
        | .error _ => pure none) parts)),
      ("simple", jRes (resolveSimple c parts)),
      ("join", jRes (resolveJoin c parts)),
      ("routeSimple", jRouted (routeSimple c parts)),
      ("routeJoin", jRouted (routeJoinOperand c parts)),
      ("routeJoinOld", jRouted (routeJoinOperandOld c parts)),
      ("pred", jView (getPredictor c parts)),
      ("predSimple", jRes (predictorStepSimple c parts)),
      ("predJoin", jRes (predictorStepJoin c parts)),
      ("agree", agreeClass c parts), ("defaultOk", defaultOk c)]
  else if op == "plan" then
    let c := mkCatalog (← getCat (← j.getObjVal? "cat"))
    let ctes ← getNames (← j.getObjVal? "ctes")
    let q ← getNode (← j.getObjVal? "node")
    let names ← match j.getObjVal? "names" with
      | .ok v => getNames v
      | .error _ => pure []
    let items := visit .arg q
    let jInfo := fun (skip : Bool) => match queryInfo skip c ctes items with
      | none => Json.null
      | some qi => Json.mkObj [("mdb", qi.mdbEntities), ("ints", jNames qi.integrations),
          ("preds", qi.predictors), ("udf", qi.userFunctions)]
    let jIdents := fun (dec : Option Name) (nm : List Name) => match dec with
      | none => Json.null
      | some i => Json.arr ((allIdents (strip i nm .noFrom .arg q)).map jIdent).toArray
    -- "…N": get_query_info that skips bare CTE names (fixes/C11_1.diff); "…A": alias-aware cut (fixes/C11_2.diff)
    let dec := checkSingle false c ctes items
    let decN := checkSingle true c ctes items
    return Json.mkObj [
      ("items", .arr (items.map jItem).toArray), ("info", jInfo false), ("infoN", jInfo true),
      ("single", jOptName dec), ("singleN", jOptName decN),
      ("singleJoin", jOptName (checkSingleJoin false c ctes items)),
      ("singleJoinN", jOptName (checkSingleJoin true c ctes items)),
      ("identsJoinNA", jIdents (checkSingleJoin true c ctes items) names),
      ("idents", jIdents dec []), ("identsA", jIdents dec names),
      ("identsN", jIdents decN []), ("identsNA", jIdents decN names),
      ("skipLeafOnly", skipLeafOnly q), ("allTables", .arr ((allTables .arg q).map jNames).toArray)]
  else if op == "strip" then
    let db ← getName (← j.getObjVal? "db")
    let par := getPar (← (← j.getObjVal? "par").getStr?)
    let slot := getSlot (← (← j.getObjVal? "slot").getStr?)
    let q ← getNode (← j.getObjVal? "node")
    let names ← match j.getObjVal? "names" with
      | .ok v => getNames v
      | .error _ => pure []
    return Json.mkObj [("idents", .arr ((allIdents (strip db [] par slot q)).map jIdent).toArray),
      ("identsA", .arr ((allIdents (strip db names par slot q)).map jIdent).toArray)]
  else if op == "sem" then
    let db ← getName (← j.getObjVal? "db")
    let schL ← (← (← j.getObjVal? "sch").getArr?).toList.mapM fun e => do
      match (← e.getArr?).toList with
      | [t, cs] => pure ((← getName t), (← getNames cs))
      | _ => throw "sch"
    let sch : Schema := fun _ t => (lookup t schL).getD []
    let s ← getSel (← j.getObjVal? "sel")
    return Json.mkObj [
      ("fed", .arr ((resolveAll true db sch [] s).map jResC).toArray),
      ("local", .arr ((resolveAll false db sch [] (stripSel db [] s)).map jResC).toArray),
      ("ok", okSel db [] s),
      ("localA", .arr ((resolveAll false db sch [] (stripSel db (aliasesOf s) s)).map jResC).toArray),
      ("okA", okSel db (aliasesOf s) s), ("names", jNames (aliasesOf s))]
  else if op == "norm" then
    let tbl ← (← (← j.getObjVal? "tbl").getArr?).toList.mapM fun e => do
      match (← e.getArr?).toList with
      | [c, l] => pure ((← c.getNat?), (← (← l.getArr?).toList.mapM (·.getNat?)))
      | _ => throw "tbl"
    let n : Norm := lowerByChar tbl
    let c := mkCatalogG n (← getCat (← j.getObjVal? "cat"))
    let ctes ← getNames (← j.getObjVal? "ctes")
    let names ← getNames (← j.getObjVal? "names")
    let q ← getNode (← j.getObjVal? "node")
    let items := visit .arg q
    let jInfo := match queryInfoG n c ctes items with
      | none => Json.null
      | some qi => Json.mkObj [("mdb", qi.mdbEntities), ("ints", jNames qi.integrations),
          ("preds", qi.predictors), ("udf", qi.userFunctions)]
    let jIdents := fun (dec : Option Name) => match dec with
      | none => Json.null
      | some i => Json.arr ((allIdents (stripG n i names .noFrom .arg q)).map jIdent).toArray
    let dec := checkSingleG n c ctes items
    let decJ := checkSingleJoinG n c ctes items
    return Json.mkObj [
      ("integrations", .arr (c.integrations.map fun (k, v) => Json.arr #[jName k, jOptName v]).toArray),
      ("projects", jNames c.projects),
      ("predictors", .arr (c.predictors.map fun (k, v) => Json.arr #[jName k, jOptName v.project]).toArray),
      ("dns", jOptName c.defaultNs),
      ("items", .arr (items.map jItem).toArray), ("info", jInfo),
      ("single", jOptName dec), ("singleJoin", jOptName decJ),
      ("idents", jIdents dec), ("identsJoin", jIdents decJ)]
  else if op == "pathstr" then
    return Json.mkObj [("parts", jNames (pathParts (← getName (← j.getObjVal? "name"))))]
  else throw "op"

partial def loop (h : IO.FS.Stream) (out : IO.FS.Stream) : IO Unit := do
  let line ← h.getLine
  if line.isEmpty then return ()
  match handle line with
  | .ok j => out.putStrLn j.compress
  | .error e => out.putStrLn (Json.mkObj [("error", e)]).compress
  loop h out

def main : IO Unit := do
  loop (← IO.getStdin) (← IO.getStdout)
