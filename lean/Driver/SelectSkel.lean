import MindsVerif.Model.SelectSkel
/-! Line protocol driver for the SELECT skeleton and set-operation chains.
S <distinct 0|1> <t,t,..> <clause>*      clause ::= F:n | W:n | G:n,n.. | H:n | O:n,n.. | L:n | L2:n,n | X:n | U | US:n
   payload n: n%4=0 operation, n%4=2 integer constant, otherwise neither
   -> ok <record> | <printed clauses> | rt=<0|1>      or     err <code>
Q <tok>*      tok ::= s<n> | u | ua | i | ia | e | ea | ( | )      (parenthesised operands, nested to any depth)
   -> some <tree> | <printed> | rt=<0|1>    or   none        (a set operation with parentheses = True is shown `(u! l r)`)
-/
open MindsVerif.SelectSkel

def cfg : Cfg Nat := { isOp := fun n => n % 4 == 0, isInt := fun n => n % 4 == 2 }

def nums (s : String) : List Nat := (s.splitOn ",").filterMap (·.toNat?)

def readClause (w : String) : Option (Clause Nat) :=
  match w.splitOn ":" with
  | ["F", n] => n.toNat?.map .from_
  | ["W", n] => n.toNat?.map .where_
  | ["H", n] => n.toNat?.map .having
  | ["L", n] => n.toNat?.map .limit
  | ["X", n] => n.toNat?.map .offset
  | ["US", n] => n.toNat?.map .usng
  | ["U"] => some .forUpdate
  | ["G", l] => match nums l with | e :: es => some (.groupBy e es) | [] => none
  | ["O", l] => match nums l with | e :: es => some (.orderBy e es) | [] => none
  | ["L2", l] => match nums l with | [a, b] => some (.limit2 a b) | _ => none
  | _ => none

def showNs (l : List Nat) : String := ",".intercalate (l.map toString)
def showO : Option Nat → String | some n => toString n | none => "-"
def showOL : Option (List Nat) → String | some l => showNs l | none => "-"

def showSel (s : Sel Nat) : String :=
  s!"d={if s.distinct then 1 else 0} t={showNs s.targets} from={showO s.from_} where={showO s.where_} group={showOL s.groupBy} having={showO s.having} order={showOL s.orderBy} limit={showO s.limit} offset={showO s.offset} mode={if s.mode then 1 else 0} using={showO s.usng}"

def showClause : Clause Nat → String
  | .from_ e => s!"F:{e}" | .where_ e => s!"W:{e}" | .groupBy e es => s!"G:{showNs (e :: es)}"
  | .having e => s!"H:{e}" | .orderBy e es => s!"O:{showNs (e :: es)}" | .limit e => s!"L:{e}"
  | .limit2 a b => s!"L2:{a},{b}" | .offset e => s!"X:{e}" | .forUpdate => "U" | .usng u => s!"US:{u}"

def opName : Op → String
  | .from_ => "FROM" | .where_ => "WHERE" | .groupBy => "GROUP BY" | .having => "HAVING" | .orderBy => "ORDER BY"
  | .limit => "LIMIT" | .offset => "OFFSET" | .mode => "MODE"

def showErr : Err → String
  | .duplicate o => s!"dup:{opName o}"
  | .requires o r => s!"req:{opName o}:{opName r}"
  | .before o n => s!"before:{opName o}:{opName n}"
  | .notOperation o => s!"notop:{opName o}"
  | .notInt o => s!"notint:{opName o}"
  | .offsetTwice => "offset2"

def handleS (ws : List String) : String :=
  match ws with
  | d :: t :: cs =>
    match cs.mapM readClause with
    | none => "bad-line"
    | some cl =>
      match parseSel cfg none (d == "1") (nums t) cl with
      | .error e => "err " ++ showErr e
      | .ok s =>
        let rt := match parseSel cfg s.cte s.distinct s.targets s.clauses with
          | .ok s' => decide (s' = s)
          | .error _ => false
        s!"ok {showSel s} | {" ".intercalate (s.clauses.map showClause)} | rt={if rt then 1 else 0}"
  | _ => "bad-line"

partial def showQ : Q → String
  | .sel n => s!"s{n}"
  | .comb o u p l r =>
    let on := match o with | .union => "u" | .intersect => "i" | .except => "e"
    s!"({on}{if u then "" else "a"}{if p then "!" else ""} {showQ l} {showQ r})"

def opOf (w : String) : Option (SetOp × Bool) :=
  match w with
  | "u" => some (.union, true) | "ua" => some (.union, false)
  | "i" => some (.intersect, true) | "ia" => some (.intersect, false)
  | "e" => some (.except, true) | "ea" => some (.except, false)
  | _ => none

def readQTok (w : String) : Option QTok :=
  if w == "(" then some .lp else if w == ")" then some .rp else
  match opOf w with
  | some (o, u) => some (.op o u)
  | none => if w.startsWith "s" then (w.drop 1).toNat?.map .sel else none

def showQTok : QTok → String
  | .sel n => s!"s{n}"
  | .lp => "("
  | .rp => ")"
  | .op o u => (match o with | .union => "u" | .intersect => "i" | .except => "e") ++ (if u then "" else "a")

def handleQ (ws : List String) : String :=
  match ws.mapM readQTok with
  | some toks =>
    match parseQ toks with
    | none => "none"
    | some q =>
      let rt := decide (parseQ (printQ q) = some q)
      s!"some {showQ q} | {" ".intercalate ((printQ q).map showQTok)} | rt={if rt then 1 else 0}"
  | none => "none"

def handle (line : String) : String :=
  match (line.trimAscii.toString.splitOn " ").filter (· ≠ "") with
  | "S" :: ws => handleS ws
  | "Q" :: ws => handleQ ws
  | _ => "bad-line"

partial def loop (h : IO.FS.Stream) (out : IO.FS.Stream) : IO Unit := do
  let line ← h.getLine
  if line.isEmpty then return ()
  out.putStrLn (handle line)
  loop h out

def main : IO Unit := do
  loop (← IO.getStdin) (← IO.getStdout)
