import MindsVerif.Model.SlyLex
import MindsVerif.Gen.LexRe_sqlite
import MindsVerif.Gen.LexRe_mysql
import MindsVerif.Gen.LexRe_mindsdb
/-! Line protocol driver for the regex-level lexer model.
input : `<dialect> <code point> <code point> …` (decimal; the text to tokenize; may be empty)
        `m <dialect> <rule index> <index> <code points…>`  : one rule at one index (`pattern.match(text, index)`)
output: `ok <type>:<start>:<end> …` | `err <index> <type>:<start>:<end> …` | `hang <index> <rule>` | `stuck`
        (`m`: `some <end>` | `none`) -/
open MindsVerif.Re MindsVerif.SlyLex

def cfgOf (d : String) : Option Cfg :=
  if d == "sqlite" then some MindsVerif.Gen.LexRe_sqlite.cfg
  else if d == "mysql" then some MindsVerif.Gen.LexRe_mysql.cfg
  else if d == "mindsdb" then some MindsVerif.Gen.LexRe_mindsdb.cfg
  else none

def showToks (segs : List Seg) : String :=
  " ".intercalate ((tokensFrom 0 segs).map fun (n, s, e) => s!"{n}:{s}:{e}")

def handle (line : String) : String :=
  match (line.trimAscii.toString.splitOn " ").filter (· ≠ "") with
  | "m" :: d :: ri :: ix :: cps =>
    match cfgOf d, ri.toNat?, ix.toNat?, cps.mapM (·.toNat?) with
    | some c, some ri, some ix, some s =>
      match c.rules[ri]? with
      | some r =>
        match matchAt c.word r.re ⟨(s.take ix).reverse, s.drop ix⟩ with
        | some q => s!"some {q.index}"
        | none => "none"
      | none => "bad-rule"
    | _, _, _, _ => "bad-line"
  | d :: cps =>
    match cfgOf d, cps.mapM (·.toNat?) with
    | some c, some s =>
      match lex c s with
      | .ok segs => ("ok " ++ showToks segs).trimAscii.toString
      | .err i segs => (s!"err {i} " ++ showToks segs).trimAscii.toString
      | .hang i r => s!"hang {i} {r}"
      | .stuck => "stuck"
    | _, _ => "bad-line"
  | [] => "bad-line"

partial def loop (h : IO.FS.Stream) (out : IO.FS.Stream) : IO Unit := do
  let line ← h.getLine
  if line.isEmpty then return ()
  out.putStrLn (handle line)
  loop h out

def main : IO Unit := do
  loop (← IO.getStdin) (← IO.getStdout)
