import MindsVerif.Model.TS
import MindsVerif.Gen.TSCfg
/-! Line protocol driver for the time-series planner model (C15).

plan line : `P <nG> <window> <o><g><h><f> <limit|-> <W|->`
   ->  `planning` | `crash` | `ok part=<W|-|none> sels=<W>@<lim|->;… otf=<W|-> limit=<n|->`
dbt  line : `D <nG> <window> <inner o g h f> <inner limit|-> <outer limit|-> <inner W|-> | <outer W|->` -> as plan line
eval line : `E|F <p0,p1,…|-> <t,g0,g1;…|-> <limit|-> <W>`   (values: integer or `n` for NULL; F = executor
            fills `$var[col]` null-safely, E = plain SQL equality)
   ->  rows returned by `evalSel`, `t,g0,g1;…`  (or `-` when empty)

eval line with a second table: `ES|FS <p0,…|-> <rows|-> <rows of shops|-> <limit|-> <W>`  (sub-queries select from `shops`)

W ::= (i t) | (i g <n>) | (i x) | (c <int>) | L | N | (v <n>) | (T <int>*) | (O <0|1>)
    | (b <op> W W) | (w W W W) | (u W)        op ::= and gt ge eq lt le in isnot bad<k>
    | (S <k> W)            sub-select, `W` = its WHERE (`N`: none)
    | (K <0|1> <k> W W)    Tuple / TypeCast / Case / argument list with conditions inside: first child, rest (`N`: end)
-/
open MindsVerif.TS

def showOp : Op → String
  | .and => "and" | .gt => "gt" | .ge => "ge" | .eq => "eq" | .lt => "lt" | .le => "le"
  | .inn => "in" | .isnot => "isnot" | .bad k => s!"bad{k}"

partial def showW : W Int → String
  | .ident .time => "(i t)"
  | .ident (.grp i) => s!"(i g {i})"
  | .ident .other => "(i x)"
  | .const v => s!"(c {v})"
  | .latest => "L"
  | .null => "N"
  | .var i => s!"(v {i})"
  | .tuple vs => "(T" ++ String.join (vs.map (fun v => s!" {v}")) ++ ")"
  | .opaque f => s!"(O {if f then 1 else 0})"
  | .bin op l r => s!"(b {showOp op} {showW l} {showW r})"
  | .btw x a b => s!"(w {showW x} {showW a} {showW b})"
  | .un x => s!"(u {showW x})"
  | .sub k w => s!"(S {k} {showW w})"
  | .cont f k x rest => s!"(K {if f then 1 else 0} {k} {showW x} {showW rest})"

def readOp (s : String) : Option Op :=
  match s with
  | "and" => some .and | "gt" => some .gt | "ge" => some .ge | "eq" => some .eq | "lt" => some .lt
  | "le" => some .le | "in" => some .inn | "isnot" => some .isnot
  | _ => if s.startsWith "bad" then (s.drop 3).toNat?.map Op.bad else none

partial def readInts : List String → List Int → Option (List Int × List String)
  | ")" :: rest, acc => some (acc.reverse, rest)
  | t :: rest, acc => do let v ← t.toInt?; readInts rest (v :: acc)
  | [], _ => none

partial def readW : List String → Option (W Int × List String)
  | "L" :: rest => some (.latest, rest)
  | "N" :: rest => some (.null, rest)
  | "(" :: "i" :: "t" :: ")" :: rest => some (.ident .time, rest)
  | "(" :: "i" :: "x" :: ")" :: rest => some (.ident .other, rest)
  | "(" :: "i" :: "g" :: n :: ")" :: rest => n.toNat?.map (fun n => (.ident (.grp n), rest))
  | "(" :: "c" :: v :: ")" :: rest => v.toInt?.map (fun v => (.const v, rest))
  | "(" :: "v" :: n :: ")" :: rest => n.toNat?.map (fun n => (.var n, rest))
  | "(" :: "O" :: f :: ")" :: rest => some (.opaque (f == "1"), rest)
  | "(" :: "T" :: rest => do let (vs, rest) ← readInts rest []; some (.tuple vs, rest)
  | "(" :: "b" :: o :: rest => do
    let o ← readOp o
    let (l, rest) ← readW rest
    let (r, rest) ← readW rest
    match rest with | ")" :: rest => some (.bin o l r, rest) | _ => none
  | "(" :: "w" :: rest => do
    let (x, rest) ← readW rest
    let (a, rest) ← readW rest
    let (b, rest) ← readW rest
    match rest with | ")" :: rest => some (.btw x a b, rest) | _ => none
  | "(" :: "u" :: rest => do
    let (x, rest) ← readW rest
    match rest with | ")" :: rest => some (.un x, rest) | _ => none
  | "(" :: "S" :: k :: rest => do
    let k ← k.toNat?
    let (w, rest) ← readW rest
    match rest with | ")" :: rest => some (.sub k w, rest) | _ => none
  | "(" :: "K" :: f :: k :: rest => do
    let k ← k.toNat?
    let (x, rest) ← readW rest
    let (r, rest) ← readW rest
    match rest with | ")" :: rest => some (.cont (f == "1") k x r, rest) | _ => none
  | _ => none

def readOptW : List String → Option (Option (W Int))
  | ["-"] => some none
  | ts => match readW ts with | some (w, []) => some (some w) | _ => none

def showLim : Option Nat → String
  | none => "-"
  | some n => toString n

def showRes : Res Int → String
  | .planning => "planning"
  | .crash => "crash"
  | .ok p =>
    let part := match p.partWhere with | none => "none" | some none => "-" | some (some w) => showW w
    let sels := ";".intercalate (p.selects.map (fun s => showW s.whereC ++ "@" ++ showLim s.limit))
    let otf := match p.otf with | none => "-" | some w => showW w
    s!"ok part={part} sels={sels} otf={otf} limit={showLim p.limitStep}"

def readCell (s : String) : Option (Option Int) :=
  if s == "n" then some none else s.toInt?.map some

def readRow (s : String) : Option (Row Int) :=
  match (s.splitOn ",").mapM readCell with
  | some (t :: g) => some ⟨t, g⟩
  | _ => none

def showCell : Option Int → String
  | none => "n"
  | some v => toString v

def showRow (r : Row Int) : String := ",".intercalate ((r.t :: r.g).map showCell)

def tokens (s : String) : List String :=
  (((s.replace "(" " ( ").replace ")" " ) ").splitOn " ").filter (· ≠ "")

def readRows (rows : String) : Option (List (Row Int)) :=
  if rows == "-" then some [] else (rows.splitOn ";").mapM readRow

def handleE : List String → String
  | cmd :: p :: rows :: rest0 =>
    if cmd != "E" && cmd != "F" && cmd != "ES" && cmd != "FS" then "bad-line" else
    let two := cmd == "ES" || cmd == "FS"
    match (if two then rest0 else "-" :: rest0) with
    | shops :: lim :: rest =>
      let p? : Option (List (Option Int)) := if p == "-" then some [] else (p.splitOn ",").mapM readCell
      let lim? : Option (Option Nat) := if lim == "-" then some none else lim.toNat?.map some
      match p?, readRows rows, readRows shops, lim?, readW rest with
      | some p, some T, some S, some lim, some (w, []) =>
        let out := evalSel ⟨p, cmd == "F" || cmd == "FS", S⟩ T ⟨w, lim⟩
        if out.isEmpty then "-" else ";".intercalate (out.map showRow)
      | _, _, _, _, _ => "bad-line"
    | _ => "bad-line"
  | _ => "bad-line"

/-- `D <nG> <window> <inner o g h f> <inner limit|-> <outer limit|-> <inner W|-> | <outer W|->` : the dbt form -/
def handleD : List String → String
  | nG :: win :: flags :: ilim :: olim :: rest =>
    let (iw, ow) := (rest.takeWhile (· ≠ "|"), (rest.dropWhile (· ≠ "|")).drop 1)
    let lim? (s : String) : Option (Option Nat) := if s == "-" then some none else s.toNat?.map some
    match nG.toNat?, win.toNat?, readOptW iw, readOptW ow, flags.toList, lim? ilim, lim? olim with
    | some nG, some win, some iw, some ow, [o, g, h, f], some il, some ol =>
      let inner : Query Int := { whereC := iw, orderBy := o == '1', groupBy := g == '1', having := h == '1',
                                 offset := f == '1', limit := il }
      let outer : Query Int := { whereC := ow, limit := ol }
      showRes (planDbt MindsVerif.Gen.TSCfg.live ⟨nG, win⟩ outer inner)
    | _, _, _, _, _, _, _ => "bad-line"
  | _ => "bad-line"

def handle (line : String) : String :=
  match tokens line.trimAscii.toString with
  | "D" :: rest => handleD rest
  | pc :: nG :: win :: flags :: lim :: rest =>
    -- `P`: the variant probed on the live code (`Gen.TSCfg.live`; Props/C15 obliges it to be `Cfg.pinned`);
    -- `P00` / `P10` / `P01` / `P11`: an explicit variant (deepValidate, normalizeTF), for experiments only
    let cfg? : Option Cfg := match pc with
      | "P" => some MindsVerif.Gen.TSCfg.live | "P00" => some ⟨false, false⟩ | "P10" => some ⟨true, false⟩ | "P01" => some ⟨false, true⟩
      | "P11" => some ⟨true, true⟩ | _ => none
    match cfg? with
    | none => handleE (pc :: nG :: win :: flags :: lim :: rest)
    | some cfg =>
    match nG.toNat?, win.toNat?, readOptW rest, flags.toList with
    | some nG, some win, some w, [o, g, h, f] =>
      match (if lim == "-" then some none else lim.toNat?.map some) with
      | some lim =>
        let q : Query Int := { whereC := w, orderBy := o == '1', groupBy := g == '1', having := h == '1',
                               offset := f == '1', limit := lim }
        showRes (planTS cfg ⟨nG, win⟩ q)
      | none => "bad-line"
    | _, _, _, _ => "bad-line"
  | _ => "bad-line"

partial def loop (h : IO.FS.Stream) (out : IO.FS.Stream) : IO Unit := do
  let line ← h.getLine
  if line.isEmpty then return ()
  out.putStrLn (handle line)
  loop h out

def main : IO Unit := do
  loop (← IO.getStdin) (← IO.getStdout)
