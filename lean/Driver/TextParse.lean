import MindsVerif.Model.TextParse
import MindsVerif.Gen.LexRe_sqlite
import MindsVerif.Gen.LexRe_mysql
import MindsVerif.Gen.LexRe_mindsdb
import MindsVerif.Gen.Tables_sqlite
import MindsVerif.Gen.Tables_mysql
import MindsVerif.Gen.Tables_mindsdb
/-! Line protocol driver for the text-level model of `parse_sql` (strip, lex, parse).
input : `<dialect> <code point> …`
output: `accept <n tokens>` | `reject` | `lexerr <index>` | `hang` | `stuck` | `fuel`
(`reject` = ParsingException: syntax error raised, or parse() returned None) -/
open MindsVerif.Re MindsVerif.SlyLex MindsVerif.LR MindsVerif.TextParse MindsVerif.Gen

def langOf (d : String) : Option Lang :=
  if d == "sqlite" then some ⟨LexRe_sqlite.cfg, LexRe_sqlite.stripSet, LexRe_sqlite.termNames, Tables_sqlite.tables, .raise⟩
  else if d == "mysql" then some ⟨LexRe_mysql.cfg, LexRe_mysql.stripSet, LexRe_mysql.termNames, Tables_mysql.tables, .raise⟩
  else if d == "mindsdb" then some ⟨LexRe_mindsdb.cfg, LexRe_mindsdb.stripSet, LexRe_mindsdb.termNames, Tables_mindsdb.tables, .drain⟩
  else none

def handle (line : String) : String :=
  match (line.trimAscii.toString.splitOn " ").filter (· ≠ "") with
  | d :: cps =>
    match langOf d, cps.mapM (·.toNat?) with
    | some L, some s =>
      let fuel := 200 * (s.length + 2) + 1000
      match parseSql L s fuel with
      | (.ok segs, some (.accept _ _)) => s!"accept {(tokensFrom 0 segs).length}"
      | (.err i _, some (.lexErr _)) => s!"lexerr {i}"
      | (_, some (.synErr _ _)) => "reject"
      | (_, some (.none_ _ _)) => "reject"
      | (_, some (.stuck n)) => s!"stuck {n}"
      | (_, some .fuel) => "fuel"
      | (.hang _ _, _) => "hang"
      | (_, some (.accept _ _)) => "accept-after-lexerr"
      | (_, some (.lexErr _)) => "lexerr-without-lexer-error"
      | (_, none) => "stuck"
    | _, _ => "bad-line"
  | [] => "bad-line"

partial def loop (h : IO.FS.Stream) (out : IO.FS.Stream) : IO Unit := do
  let line ← h.getLine
  if line.isEmpty then return ()
  out.putStrLn (handle line)
  loop h out

def main : IO Unit := do
  loop (← IO.getStdin) (← IO.getStdout)
