import MindsVerif.Model.TokStr
import MindsVerif.Gen.C16Data
import MindsVerif.Model.MultiWord
/-! Line protocol driver for `tokens_to_string` + token actions.
input : tokens separated by one blank; token = `<ty>:<lineno>:<index>:<src>[:<value>]`
        ty ∈ q (QUOTE_STRING) d (DQUOTE_STRING) v (VARIABLE) s (SYSTEM_VARIABLE) o (other);
        src / value = code points in decimal separated by `.` (may be empty);
        without `<value>` the value is computed by the model's token action under the live `Gen.C16Data.actCfg`.
output: `<out> | <value;value;…> | wf=<0|1> closed=<0|1> verbatim=<0|1>`
(other commands: `mw …` multi-word keyword scanner, `lay …` source-layout model, see below)
        out = code points of tokensToString; closed: out = render; verbatim: out = verbatim -/
open MindsVerif.TokStr MindsVerif.MultiWord

def decStr (s : String) : Option Str :=
  if s.isEmpty then some [] else
  (s.splitOn ".").mapM (fun x => x.toNat?.map Char.ofNat)

def encStr (s : Str) : String := ".".intercalate (s.map (fun c => toString c.toNat))

def decTy (s : String) : Option TT :=
  if s == "q" then some .quote else if s == "d" then some .dquote else if s == "v" then some .var
  else if s == "s" then some .sysvar else if s == "o" then some (.other 0) else none

def decTok (s : String) : Option Tok :=
  match s.splitOn ":" with
  | [ty, ln, ix, src] => do
    let ty ← decTy ty; let ln ← ln.toNat?; let ix ← ix.toNat?; let src ← decStr src
    some (lexTok MindsVerif.Gen.C16Data.actCfg ty src ln ix)
  | [ty, ln, ix, src, val] => do
    let ty ← decTy ty; let ln ← ln.toNat?; let ix ← ix.toNat?; let src ← decStr src; let val ← decStr val
    some ⟨ty, val, src, ln, ix⟩
  | _ => none

def b2s (b : Bool) : String := if b then "1" else "0"

/-- `mw <NAME> <prev code point or -> <text code points>` → `some <n>` / `none` / `no-such-keyword` -/
def handleMW (name prev text : String) : String :=
  match MindsVerif.Gen.C16Data.multiWordRe.find? (fun x => x.1 == name) with
  | none => "no-such-keyword"
  | some (_, re) =>
    match parseMW re.toList, decStr text with
    | some k, some s =>
      let pv : Option Char := if prev == "-" then none else prev.toNat?.map Char.ofNat
      match mwMatch k pv s with
      | some n => s!"some {n}"
      | none => "none"
    | _, _ => "unparsed"

def decSeg (s : String) : Option Seg :=
  match s.splitOn ":" with
  | [ty, dl, gap, src] => do
    let ty ← decTy ty; let dl ← dl.toNat?; let gap ← decStr gap; let src ← decStr src
    some ⟨gap, dl, ty, src⟩
  | _ => none

/-- `lay <idx> <line> <seg> <seg> …`, seg = `<ty>:<dl>:<gap>:<src>` (code points).  The source-layout model:
output `<lineno:index:value;…> | <storedSpec> | <tokensToString (place …)> | <sourceText>` under the live `actCfg` -/
def handleLay (idx line : String) (segs : List String) : String :=
  match idx.toNat?, line.toNat?, segs.mapM decSeg with
  | some i, some l, some sg =>
    let toks := place MindsVerif.Gen.C16Data.actCfg i l sg
    ";".intercalate (toks.map (fun t => s!"{t.lineno}:{t.index}:{encStr t.value}")) ++ " | " ++
      encStr (storedSpec sg) ++ " | " ++ encStr (tokensToString toks) ++ " | " ++ encStr (sourceText sg)
  | _, _, _ => "bad-line"

def handle (line : String) : String :=
  match (line.trimAscii.toString.splitOn " ") with
  | "lay" :: idx :: ln :: segs => handleLay idx ln (segs.filter (· ≠ ""))
  | ["mw", name, prev, text] => handleMW name prev text
  | ["mw", name, prev] => handleMW name prev ""
  | _ =>
    let parts := (line.trimAscii.toString.splitOn " ").filter (· ≠ "")
    match parts.mapM decTok with
    | none => "bad-line"
    | some toks =>
      let out := tokensToString toks
      encStr out ++ " | " ++ ";".intercalate (toks.map (fun t => encStr t.value)) ++
        s!" | wf={b2s (WfBy (·.value) toks)} closed={b2s (out == render toks)} verbatim={b2s (out == verbatim toks)}"

partial def loop (h : IO.FS.Stream) (out : IO.FS.Stream) : IO Unit := do
  let line ← h.getLine
  if line.isEmpty then return ()
  out.putStrLn (handle line)
  loop h out

def main : IO Unit := do
  loop (← IO.getStdin) (← IO.getStdout)
