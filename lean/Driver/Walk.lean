import MindsVerif.Model.Walk
import MindsVerif.Model.Params
import MindsVerif.Model.WalkHist
import MindsVerif.Gen.Schema
/-! Line protocol driver for the walker model instantiated with the probed schema.
input : `log | <tree>`            logging callback (never replaces)
        `rep <tag> | <tree>`      the callback returns a fresh leaf (class `Constant`, tag 999999) for the node `tag`
        `rept <tag> | <tree>`     … an empty `Tuple` (tag 999997);  `repf <tag> | <tree>` … a falsy node object (tag 999998)
        `raise <tag> | <tree>`    a looking callback that raises at the node `tag`: the calls up to that node, `r=!` when the
                                  exception comes out of the walk (`Walk.abortLog`), the tree as it was
        `find | <tree>`           get_query_params: visits of the walk + number and textual order of the parameters
        `fill <n> | <tree>`       fill_query_params with the values 1000000 … 1000000+n-1
        `seq <op,op,…> | <tree>`  prepared-statement calls on a fresh planner: `p` prepare (a fresh copy of the tree),
                                  `e<k>` execute with k values, `en` execute without values, `i` get_statement_info
tree  : `(cls slot tag kid*)`
output: `<visits> ; <tree after> ; <extra>`   visit = `tag|N`:`is_table``is_target`:`pq class`:`answer tag|-` -/
open MindsVerif.Walk MindsVerif.Params MindsVerif.Gen

partial def showN : Node → String
  | .mk c s t ks => "(" ++ " ".intercalate ([toString c, toString s, toString t] ++ ks.map showN) ++ ")"

partial def readN : List String → Option (Node × List String)
  | "(" :: c :: s :: t :: rest => do
    let c ← c.toNat?
    let s ← s.toNat?
    let t ← t.toNat?
    let rec kids (rest : List String) (acc : List Node) : Option (List Node × List String) :=
      match rest with
      | ")" :: rest => some (acc.reverse, rest)
      | _ => do
        let (k, rest) ← readN rest
        kids rest (k :: acc)
    let (ks, rest) ← kids rest []
    some (.mk c s t ks, rest)
  | _ => none

def b01 (b : Bool) : String := if b then "1" else "0"

def showV (v : Visit) : String :=
  (match v.node with | some n => toString n.tag | none => "N") ++ ":" ++ b01 v.isTable ++ b01 v.isTarget ++ ":"
    ++ toString v.pq ++ ":" ++ (match v.ans with | some n => toString n.tag | none => "-")

def showOut {S : Type} (o : Out S) (extra : String) : String :=
  " ".intercalate (o.log.map showV) ++ " ; " ++ showN o.self ++ " ; r=" ++
    (match o.repl with | some n => toString n.tag | none => "-") ++ " " ++ extra

def showRes : Res → String
  | .planned q => "e:planned:" ++ showN q
  | .nothing => "e:nothing"
  | .error .planning => "e:planning"
  | .error .typeError => "e:type"

def runSeq (σ : Schema) (P C : Nat) (q : Node) : List String → PState → List String
  | [], _ => []
  | op :: rest, s =>
    if op == "p" then "p:ok" :: runSeq σ P C q rest (prepare σ P q s)
    else if op == "i" then
      (match info s with | .ok n => s!"i:{n}" | .error .planning => "i:planning" | .error .typeError => "i:type")
        :: runSeq σ P C q rest s
    else if op == "en" then
      let r := execute σ P C none s
      showRes r.2 :: runSeq σ P C q rest r.1
    else match (op.drop 1).toNat? with
      | some k =>
        let r := execute σ P C (some ((List.range k).map (· + 1000000))) s
        showRes r.2 :: runSeq σ P C q rest r.1
      | none => ["error: bad op"]

def classId (name : String) : Nat := Schema.classNames.findIdx (· == name)

def handle (line : String) : String :=
  match line.splitOn "|" with
  | [cmd, tree] =>
    let toks := ((tree.replace "(" " ( ").replace ")" " ) ").splitOn " " |>.filter (· ≠ "")
    match readN toks with
    | some (t, _) =>
      let σ := Schema.schema
      let constC := classId "Constant"
      let paramC := classId "Parameter"
      match (cmd.splitOn " ").filter (· ≠ "") with
      | ["log"] => showOut (walk σ (cbLog) t ()) ""
      | ["rep", x] =>
        match x.toNat? with
        | some x => showOut (walk σ (cbAt x (.mk constC 0 999999 [])) t ()) ""
        | none => "error: bad tag"
      | ["rept", x] =>
        match x.toNat? with
        | some x => showOut (walk σ (cbAt x (.mk (classId "Tuple") 0 999997 [])) t ()) ""
        | none => "error: bad tag"
      | ["repf", x] =>
        -- a node object of a class outside the schema whose instances are falsy
        match x.toNat? with
        | some x =>
          let σf := σ ++ [⟨[], [], [], true⟩]
          showOut (walk σf (cbAt x (.mk σ.length 0 999998 [])) t ()) ""
        | none => "error: bad tag"
      | ["raise", x] =>
        match x.toNat? with
        | some x =>
          let o := walk σ (cbLog) t ()
          " ".intercalate ((abortLog x o.log).map showV) ++ " ; " ++ showN o.self ++ " ; r="
            ++ (if aborts x o.log then "!" else "-") ++ " "
        | none => "error: bad tag"
      | ["find"] =>
        let o := walk σ (cbFind paramC) t []
        let found := getParams σ paramC t
        showOut o s!"n={found.length} order={",".intercalate (found.map (fun m => toString m.tag))}"
      | ["fill", n] =>
        match n.toNat? with
        | some n =>
          let r := fillParams σ paramC constC t ((List.range n).map (· + 1000000))
          showOut r.out s!"left={r.left} indexError={b01 r.failed}"
        | none => "error: bad n"
      | ["seq", ops] => " ".intercalate (runSeq σ paramC constC t (ops.splitOn ",") .init) ++ " ; - ; r=-"
      | _ => "error: bad command"
    | none => "error: bad tree"
  | _ => "error: bad line"

partial def loop (h : IO.FS.Stream) (out : IO.FS.Stream) : IO Unit := do
  let line ← h.getLine
  if line.isEmpty then return
  out.putStrLn (handle (line.replace "\n" " "))
  loop h out

def main : IO Unit := do
  let i ← IO.getStdin
  let o ← IO.getStdout
  loop i o
