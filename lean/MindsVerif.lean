import MindsVerif.Props.C02
import MindsVerif.Props.C03
import MindsVerif.Props.C05
import MindsVerif.Props.C20
