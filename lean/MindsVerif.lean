import MindsVerif.Model.LR
