import MindsVerif.Model.AstBuild
namespace MindsVerif.AstBuild
open MindsVerif.OPM

theorem read_setParen (a : Ast) :
    read (setParen a) = match read a with | .paren e => .paren e | e => .paren e := by
  cases a with
  | leaf n p => cases p <;> simp [setParen, read, wrapIf]
  | bin o l r p => cases p <;> simp [setParen, read, wrapIf]
  | un o e p => cases p <;> simp [setParen, read, wrapIf]
  | btw x y z p => cases p <;> simp [setParen, read, wrapIf]

/-- with faithful constructors the value built for `e` reads back as `e` (double parentheses collapsed) -/
theorem read_act {K : Ctors} (hK : K.Faithful) : ∀ e : Expr, read (act K e) = norm e := by
  obtain ⟨h1, h2, h3⟩ := hK
  intro e
  induction e with
  | atom n => simp [act, read, norm, wrapIf]
  | bin o l r ihl ihr => simp [act, h1, read, norm, wrapIf, ihl, ihr]
  | pre o e ih => simp [act, h2, read, norm, wrapIf, ih]
  | btw x y z ihx ihy ihz => simp [act, h3, read, norm, wrapIf, ihx, ihy, ihz]
  | paren e ih =>
    rw [act, read_setParen, ih, norm]
    cases norm e <;> rfl

end MindsVerif.AstBuild
