import MindsVerif.Lemmas.PlanQ
import MindsVerif.Model.Catalog
/-! Lemmas about the catalog look-ups of the planner model (`Model/Catalog.lean`): which record shapes make which
look-up raise which class of error, and — from that — C09 for the catalog-sensitive statements. -/
namespace MindsVerif.Plan

/-! ### shape predicates (decidable; hypotheses of the theorems in `Props/C09.lean`) -/

/-- `integration_name` is absent, `None`, or a string naming the project the query addresses the model under -/
def NsOK (proj : Name) (r : Rec) : Bool :=
  match r.get .integrationName with
  | none => true
  | some .null => true
  | some (.str s) => lowerName s == lowerName proj
  | some _ => false

/-- what the FORMER namespace handling needs: `integration_name` is a string, or absent in a form that supplies
the default (list form, legacy dict with a plain name) -/
def nsShapeOK (form : Form) (r : Rec) : Bool :=
  match r.get .integrationName with
  | some (.str _) => true
  | none => form != .dotted
  | some _ => false

/-- what the FORMER time-series planner needs of a record whose `timeseries` is truthy -/
def tsShapeOK (r : Rec) : Bool :=
  !truthy (r.get .timeseries) ||
    ((match r.get .orderBy with | some (.str _) => true | _ => false) &&
     (match r.get .groupBy with | some .null => true | some (.strs _) => true | some (.str _) => true | some .dict => true | _ => false) &&
     (r.get .window).isSome)

/-- what the FORMER `process_predictor` needs of `to_predict` -/
def targetShapeOK (r : Rec) : Bool :=
  match r.get .toPredict with
  | none => true
  | some .null => true
  | some (.str _) => true
  | some (.strs (_ :: _)) => true
  | some _ => false

/-- the record shapes on which variant `fx` of the code never raises an internal error: every repair that is in the
code lifts one restriction; with all repairs (`CatFix.live`, the code as it is) nothing is required -/
def ShapeOK (fx : CatFix) (form : Form) (r : Rec) : Bool :=
  (fx.ns || nsShapeOK form r) && (fx.ts || tsShapeOK r) && (fx.target || targetShapeOK r)

/-! ### the look-ups -/

theorem get_set_self (r : Rec) (k : Key) (v : Val) : (r.set k v).get k = some v := by
  simp [Rec.set, Rec.get]

theorem get_set_other (r : Rec) (k k' : Key) (v : Val) (h : k ≠ k') : (r.set k v).get k' = r.get k' := by
  simp [Rec.set, Rec.get, h]

/-- registration succeeds on every record of the domain and leaves a string namespace that names the project;
every other key is untouched -/
theorem set_ok (r : Rec) (proj x : Name) (hx : lowerName x = lowerName proj) :
    (∃ s, (r.set .integrationName (.str x)).get .integrationName = some (.str s) ∧ lowerName s = lowerName proj) ∧
      ∀ k, k ≠ .integrationName → (r.set .integrationName (.str x)).get k = r.get k :=
  ⟨⟨x, get_set_self _ _ _, hx⟩, fun _ hk => get_set_other _ _ _ _ (Ne.symm hk)⟩

/-- registration succeeds on every record of the domain and leaves a string namespace that names the project;
every other key is untouched -/
theorem register_ok (fx : CatFix) (form : Form) (proj pns : Name) (r : Rec) (hp : lowerName pns = lowerName proj)
    (hns : NsOK proj r = true) (hs : (fx.ns || nsShapeOK form r) = true) :
    ∃ info, register fx form proj pns r = .ok info ∧
      (∃ s, info.get .integrationName = some (.str s) ∧ lowerName s = lowerName proj) ∧
      ∀ k, k ≠ .integrationName → info.get k = r.get k := by
  unfold NsOK at hns
  unfold nsShapeOK at hs
  cases hg : r.get .integrationName with
  | none =>
    cases form with
    | dotted =>
      cases hfx : fx.ns
      · simp [hg, hfx] at hs
      · exact ⟨_, by simp [register, hfx, hg], set_ok r proj proj rfl⟩
    | list => exact ⟨_, by simp [register, hg], set_ok r proj pns hp⟩
    | legacy => exact ⟨_, by simp [register, hg], set_ok r proj pns hp⟩
  | some v =>
    cases v with
    | str s =>
      rw [hg] at hns
      have hl : lowerName s = lowerName proj := by simpa using hns
      cases form with
      | dotted => exact ⟨r, by cases hfx : fx.ns <;> simp [register, hg, hfx], ⟨s, hg, hl⟩, fun _ _ => rfl⟩
      | list => exact ⟨r, by simp [register, hg], ⟨s, hg, hl⟩, fun _ _ => rfl⟩
      | legacy => exact ⟨r, by simp [register, hg], ⟨s, hg, hl⟩, fun _ _ => rfl⟩
    | null =>
      cases hfx : fx.ns
      · simp [hg, hfx] at hs
      · cases form with
        | dotted => exact ⟨_, by simp [register, hfx, hg], set_ok r proj proj rfl⟩
        | list => exact ⟨_, by simp [register, hfx, hg], set_ok r proj pns hp⟩
        | legacy => exact ⟨_, by simp [register, hfx, hg], set_ok r proj pns hp⟩
    | bool b => rw [hg] at hns; simp at hns
    | num n => rw [hg] at hns; simp at hns
    | strs l => rw [hg] at hns; simp at hns
    | dict => rw [hg] at hns; simp at hns

theorem groupsRepaired_user (v : Option Val) (e : Err) (h : groupsRepaired v = .error e) : IsUserErr e := by
  cases v with
  | none => simp [groupsRepaired] at h
  | some v => cases v <;> simp [groupsRepaired] at h <;> (subst h; trivial)

/-- the repaired reads of the time-series settings raise user-level errors only -/
theorem tsSettings_repaired (fx : CatFix) (hfx : fx.ts = true) (info : Rec) (e : Err)
    (h : tsSettings fx info = .error e) : IsUserErr e := by
  unfold tsSettings at h
  rw [if_pos hfx] at h
  cases hob : info.get .orderBy with
  | none => simp [hob] at h; subst h; trivial
  | some o =>
    cases o with
    | str o =>
      simp only [hob] at h
      cases hgr : groupsRepaired (info.get .groupBy) with
      | error e' =>
        simp only [hgr] at h
        cases h
        exact groupsRepaired_user _ _ hgr
      | ok g =>
        simp only [hgr] at h
        cases hw : info.get .window with
        | none => simp [hw] at h; subst h; trivial
        | some w => simp [hw] at h
    | null => simp [hob] at h; subst h; trivial
    | bool b => simp [hob] at h; subst h; trivial
    | num n => simp [hob] at h; subst h; trivial
    | strs l => simp [hob] at h; subst h; trivial
    | dict => simp [hob] at h; subst h; trivial

/-- the former reads raise nothing at all on a record of the shape they expect -/
theorem tsSettings_live (fx : CatFix) (info : Rec) (ht : truthy (info.get .timeseries) = true)
    (hs : tsShapeOK info = true) : ∃ s, tsSettings fx info = .ok s ∨ ∃ e, tsSettings fx info = .error e ∧ IsUserErr e := by
  cases hfx : fx.ts
  · unfold tsShapeOK at hs
    simp only [ht, Bool.not_true, Bool.false_or, Bool.and_eq_true] at hs
    obtain ⟨⟨ho, hg⟩, hw⟩ := hs
    cases hob : info.get .orderBy with
    | none => simp [hob] at ho
    | some o =>
      cases o with
      | str o =>
        cases hgb : info.get .groupBy with
        | none => simp [hgb] at hg
        | some g =>
          cases hwi : info.get .window with
          | none => simp [hwi] at hw
          | some w =>
            cases g with
            | null => exact ⟨⟨o, []⟩, Or.inl (by simp [tsSettings, hfx, hob, hgb, hwi])⟩
            | strs l => exact ⟨⟨o, l⟩, Or.inl (by simp [tsSettings, hfx, hob, hgb, hwi])⟩
            | str s => exact ⟨⟨o, charsOf s⟩, Or.inl (by simp [tsSettings, hfx, hob, hgb, hwi])⟩
            | dict => exact ⟨⟨o, []⟩, Or.inl (by simp [tsSettings, hfx, hob, hgb, hwi])⟩
            | bool b => simp [hgb] at hg
            | num n => simp [hgb] at hg
      | null => simp [hob] at ho
      | bool b => simp [hob] at ho
      | num n => simp [hob] at ho
      | strs l => simp [hob] at ho
      | dict => simp [hob] at ho
  · cases hr : tsSettings fx info with
    | ok s => exact ⟨s, Or.inl rfl⟩
    | error e => exact ⟨⟨[], []⟩, Or.inr ⟨e, rfl, tsSettings_repaired fx hfx info e hr⟩⟩

theorem tsSettings_user (fx : CatFix) (info : Rec) (ht : truthy (info.get .timeseries) = true)
    (hs : (fx.ts || tsShapeOK info) = true) (e : Err) (h : tsSettings fx info = .error e) : IsUserErr e := by
  cases hfx : fx.ts
  · rw [hfx, Bool.false_or] at hs
    obtain ⟨s, h' | ⟨e', h', hu⟩⟩ := tsSettings_live fx info ht hs
    · rw [h] at h'; cases h'
    · rw [h] at h'; cases h'; exact hu
  · exact tsSettings_repaired fx hfx info e h

theorem predictTarget_user (fx : CatFix) (info : Rec) (hs : (fx.target || targetShapeOK info) = true) (e : Err)
    (h : predictTarget fx info = .error e) : False := by
  unfold predictTarget at h
  unfold targetShapeOK at hs
  cases hg : info.get .toPredict with
  | none => simp [hg] at h
  | some v =>
    rw [hg] at hs
    cases hfx : fx.target
    · rw [hfx] at hs
      cases v with
      | null => simp [hg] at h
      | str s => simp [hg] at h
      | strs l =>
        cases l with
        | nil => simp at hs
        | cons a t => simp [hg] at h
      | bool b => simp at hs
      | num n => simp at hs
      | dict => simp at hs
    · cases v with
      | null => simp [hg] at h
      | str s => simp [hg] at h
      | strs l =>
        cases l with
        | nil => simp [hg, hfx] at h
        | cons a t => simp [hg] at h
      | bool b => simp [hg, hfx] at h
      | num n => simp [hg, hfx] at h
      | dict => simp [hg, hfx] at h

/-! ### C09 for the catalog-sensitive statements -/

theorem good_pFail_user (n : Nat) (e : Err) (h : IsUserErr e) : Good n (pFail e) := pFail_good n e h

theorem planTSJoin_good (fx : CatFix) (proj : Name) (info : Rec) (q : JoinQ)
    (hns : ∃ s, info.get .integrationName = some (.str s) ∧ lowerName s = lowerName proj)
    (hs : ∀ e, tsSettings fx info = .error e → IsUserErr e) : Good 0 (planTSJoin fx proj info q) := by
  obtain ⟨s, hg, hl⟩ := hns
  unfold planTSJoin
  simp only [nsOf, hg, relookupOK, hl, beq_self_eq_true, Bool.not_true, Bool.false_eq_true, ↓reduceIte]
  cases hr : tsSettings fx info with
  | error e => exact pFail_good 0 e (hs e hr)
  | ok st =>
    simp only
    split
    · exact pFail_good 0 _ trivial
    · split
      · exact pFail_good 0 _ trivial
      · exact planTS_good 0 _ _ _ _ _ [] rfl

theorem planModelJoin_good (fx : CatFix) (proj : Name) (info : Rec) (q : JoinQ)
    (hns : ∃ s, info.get .integrationName = some (.str s) ∧ lowerName s = lowerName proj)
    (hts : truthy (info.get .timeseries) = true → ∀ e, tsSettings fx info = .error e → IsUserErr e)
    (htg : truthy (info.get .timeseries) = false → ∀ e, predictTarget fx info = .error e → False) :
    Good 0 (planModelJoin fx proj info q) := by
  unfold planModelJoin
  cases ht : truthy (info.get .timeseries)
  · simp only [Bool.false_eq_true, ↓reduceIte]
    cases hp : predictTarget fx info with
    | error e => exact (htg ht e hp).elim
    | ok t => exact (den_good (joinSel q) [] 0 rfl).1
  · simp only [↓reduceIte]
    exact planTSJoin_good fx proj info q hns (hts ht)

theorem planJoin3_good (fx : CatFix) (info : Rec)
    (htg : truthy (info.get .timeseries) = false → ∀ e, predictTarget fx info = .error e → False) :
    Good 0 (planJoin3 fx info) := by
  unfold planJoin3
  cases ht : truthy (info.get .timeseries)
  · simp only [Bool.false_eq_true, ↓reduceIte]
    cases hp : predictTarget fx info with
    | error e => exact (htg ht e hp).elim
    | ok t => exact (den_good _ [] 0 rfl).1
  · simp only [↓reduceIte]
    exact (den_good _ [] 0 rfl).1

theorem planModelSelect_good (info : Rec) (co star : Bool)
    (hns : ∃ s, info.get .integrationName = some (.str s)) : Good 0 (planModelSelect info co star) := by
  obtain ⟨s, hg⟩ := hns
  unfold planModelSelect
  simp only [nsOf, hg]
  have : (Val.str s == Val.null) = false := by simp
  simp only [this, Bool.and_false, Bool.false_eq_true, ↓reduceIte]
  exact (den_good _ [] 0 rfl).1

/-- **the catalog look-ups are total on the documented domain**: for every record `r` whose `integration_name` is absent,
`None` or the project's name, given in any of the three metadata forms, every catalog-sensitive statement, and every
variant `fx` of the code whose remaining restrictions `r` meets (`ShapeOK`; none for `CatFix.live`, the code as it is), registration
followed by planning satisfies C09 (a well-formed plan or a user-level error) -/
theorem planCat_good (fx : CatFix) (form : Form) (proj pns : Name) (r : Rec) (q : CQ)
    (hp : lowerName pns = lowerName proj) (hns : NsOK proj r = true) (hs : ShapeOK fx form r = true) :
    Good 0 (planCat fx form proj pns r q) := by
  unfold ShapeOK at hs
  simp only [Bool.and_eq_true] at hs
  obtain ⟨⟨hs1, hs2⟩, hs3⟩ := hs
  obtain ⟨info, hreg, ⟨s, hg, hl⟩, hsame⟩ := register_ok fx form proj pns r hp hns hs1
  unfold planCat
  rw [hreg]
  have hts : info.get .timeseries = r.get .timeseries := hsame _ (by decide)
  have hob : info.get .orderBy = r.get .orderBy := hsame _ (by decide)
  have hgb : info.get .groupBy = r.get .groupBy := hsame _ (by decide)
  have hw : info.get .window = r.get .window := hsame _ (by decide)
  have htp : info.get .toPredict = r.get .toPredict := hsame _ (by decide)
  have hs2' : (fx.ts || tsShapeOK info) = true := by
    unfold tsShapeOK at hs2 ⊢; rw [hts, hob, hgb, hw]; exact hs2
  have hs3' : (fx.target || targetShapeOK info) = true := by
    unfold targetShapeOK at hs3 ⊢; rw [htp]; exact hs3
  cases q with
  | modelJoin q =>
    exact planModelJoin_good fx proj info q ⟨s, hg, hl⟩
      (fun ht e he => tsSettings_user fx info ht hs2' e he)
      (fun _ e he => predictTarget_user fx info hs3' e he)
  | join3 => exact planJoin3_good fx info (fun _ e he => predictTarget_user fx info hs3' e he)
  | modelSelect co star => exact planModelSelect_good info co star ⟨s, hg⟩

theorem planIntegration_good (fx : CatFix) (r : IRec) (h : (fx.itype || (r.get .type).isSome) = true) :
    Good 0 (planIntegration fx r) := by
  unfold planIntegration integrationIsProject
  cases hg : r.get .type with
  | none =>
    cases hfx : fx.itype
    · simp [hg, hfx] at h
    · simp only [↓reduceIte]; exact (den_good .whole [] 0 rfl).1
  | some v =>
    cases v <;> exact (den_good .whole [] 0 rfl).1

end MindsVerif.Plan
