import MindsVerif.Lemmas.DecodeMain
import MindsVerif.Lemmas.Encode
import MindsVerif.Model.Codec
/-! full correctness of the proposed codec; round trips of the current code -/
namespace MindsVerif.Codec
open MindsVerif.Py MindsVerif.Lex MindsVerif.Denote MindsVerif.Literal

theorem unescape_plain (q c : Char) (T : List Char) (h1 : c ≠ '\\') (h2 : c ≠ '\'' ∨ q ≠ '\'') :
    unescape q (c :: T) = c :: unescape q T := by
  cases T with
  | nil => simp [unescape]
  | cons d t =>
    have h3 : ¬ (c = '\'' ∧ q = '\'' ∧ d = '\'') := by
      rintro ⟨a, b, _⟩; rcases h2 with h | h
      · exact h a
      · exact h b
    simp [unescape, h1, h3]

/-- the scan computes `denote` on every specification literal (no exception) -/
theorem unescape_src (q : Char) (dbl : Bool) (hq : q ≠ '\\') (hd : dbl = true → q = '\'') :
    ∀ items : List Item, WF q dbl items → unescape q (srcBody q items) = denote q items
  | [], _ => by simp [srcBody, denote, unescape]
  | .ch c :: is, h => by
    have hc := h (.ch c) (by simp)
    simp [Item.wf] at hc
    have ih := unescape_src q dbl hq hd is (wf_tail h)
    simp only [srcBody, Item.src, denote, Item.val, List.cons_append, List.nil_append]
    rw [unescape_plain q c _ hc.1 (by
      by_cases hq' : q = '\''
      · left; rw [← hq']; exact hc.2
      · right; exact hq'), ih]
  | .esc c :: is, h => by
    have ih := unescape_src q dbl hq hd is (wf_tail h)
    simp only [srcBody, Item.src, denote, Item.val, List.cons_append, List.nil_append]
    by_cases hx : c = '\'' ∨ c = '"' ∨ c = '\\'
    · have hx' : c = '\\' ∨ c = '\'' ∨ c = '"' := by rcases hx with h | h | h <;> simp [h]
      simp [unescape, hx, hx', ih]
    · have h1 : c ≠ '\'' := fun e => hx (Or.inl e)
      have h2 : c ≠ '"' := fun e => hx (Or.inr (Or.inl e))
      have h3 : c ≠ '\\' := fun e => hx (Or.inr (Or.inr e))
      have e : unescape q ('\\' :: c :: srcBody q is) = '\\' :: unescape q (c :: srcBody q is) := by
        simp [unescape, h1, h2, h3]
      rw [e, unescape_plain q c _ h3 (Or.inl h1), ih]
      simp [hx]
  | .qq :: is, h => by
    have hc := h .qq (by simp)
    simp [Item.wf] at hc
    have hq' := hd hc
    subst hq'
    have ih := unescape_src '\'' dbl hq hd is (wf_tail h)
    simp [srcBody, Item.src, denote, Item.val, unescape, ih]

/-- spec reading of the repaired printer -/
def encItems : List Char → List Item
  | [] => []
  | c :: t => (if c = '\\' then .esc '\\' else if c = '\'' then .esc '\'' else .ch c) :: encItems t

theorem enc_body : ∀ v : List Char,
    replace ['\''] ['\\', '\''] (replace ['\\'] ['\\', '\\'] v) = srcBody '\'' (encItems v) ∧
      WF '\'' true (encItems v) ∧ denote '\'' (encItems v) = v
  | [] => by simp [replace1_nil, encItems, srcBody, denote, WF]
  | c :: t => by
    obtain ⟨i1, i2, i3⟩ := enc_body t
    by_cases hb : c = '\\'
    · subst hb
      refine ⟨?_, ?_, ?_⟩
      · rw [replace1_cons_eq]
        simp only [List.cons_append, List.nil_append]
        rw [replace1_cons_ne (by decide), replace1_cons_ne (by decide), i1]
        simp [encItems, srcBody, Item.src]
      · intro i hi
        simp only [encItems, if_true, List.mem_cons] at hi
        rcases hi with rfl | hi
        · rfl
        · exact i2 i hi
      · simp [encItems, denote, Item.val, i3]
    · rw [replace1_cons_ne hb]
      by_cases hq : c = '\''
      · subst hq
        refine ⟨?_, ?_, ?_⟩
        · rw [replace1_cons_eq, i1]; simp [encItems, srcBody, Item.src]
        · intro i hi
          simp only [encItems, hb, if_false, if_true, List.mem_cons] at hi
          rcases hi with rfl | hi
          · rfl
          · exact i2 i hi
        · simp [encItems, denote, Item.val, i3]
      · refine ⟨?_, ?_, ?_⟩
        · rw [replace1_cons_ne hq, i1]; simp [encItems, srcBody, Item.src, hb, hq]
        · intro i hi
          simp only [encItems, hb, hq, if_false, List.mem_cons] at hi
          rcases hi with rfl | hi
          · simp [Item.wf, hb, hq]
          · exact i2 i hi
        · simp [encItems, denote, Item.val, hb, hq, i3]

theorem read_src (items : List Item) (rest : List Char) (hw : WF '\'' true items) (hr : rest.head? ≠ some '\'') :
    readString (srcLit '\'' items ++ rest) = some (denote '\'' items, rest) := by
  have hs := mQuote_src rest hr items hw
  have hu := unescape_src '\'' true (by decide) (fun _ => rfl) items hw
  simp [srcLit, readString, hs, hu]

theorem read_src_dquote (items : List Item) (rest : List Char) (hw : WF '"' false items) :
    readString (srcLit '"' items ++ rest) = some (denote '"' items, rest) := by
  have hs := mDQuote_src rest items hw
  have hu := unescape_src '"' false (by decide) (fun h => by cases h) items hw
  simp [srcLit, readString, hs, hu]

theorem roundtrip (v rest : List Char) (hr : rest.head? ≠ some '\'') :
    readString (constantToString v ++ rest) = some (v, rest) := by
  obtain ⟨e1, e2, e3⟩ := enc_body v
  have e : constantToString v = srcLit '\'' (encItems v) := by simp [constantToString, srcLit, e1]
  rw [e, read_src (encItems v) rest e2 hr, e3]

/-! ### round trips of the code as it is -/

theorem replace1_id {a : Char} {rep : List Char} : ∀ s : List Char, (∀ c ∈ s, c ≠ a) → replace [a] rep s = s
  | [], _ => replace1_nil a rep
  | c :: t, h => by
    rw [replace1_cons_ne (h c (by simp)), replace1_id t (fun x hx => h x (by simp [hx]))]

/-- sqlite / mysql as they are: a printed value without a quote is read back (backslashes included) -/
theorem roundtrip_simple (d : Dialect) (hd : d ≠ .mindsdb) (v rest : List Char) (hv : ∀ c ∈ v, c ≠ '\'') :
    Lex.readString d (Lex.constantToString v ++ rest) = some (v, rest) := by
  have h1 := replace1_id (rep := ['\\', '\'']) v hv
  have h2 := mSimple_body '\'' rest v hv
  have h3 : strip ['\''] ('\'' :: (v ++ ['\''])) = v := by
    have := strip_delims '\'' v (by intro c t e; exact hv c (by simp [e])) (by intro c t e; exact hv c (by simp [e]))
    simpa using this
  cases d <;> first | exact absurd rfl hd | simp [Lex.constantToString, Lex.readString, lexQuote, unescQuote, quoteString, h1, h2, h3]

theorem encItems_noBs : ∀ v : List Char, encOK v = true → hasEscBackslash (Denote.encItems v) = false
  | [], _ => rfl
  | [c], h => by
    by_cases hb : c = '\\'
    · subst hb; simp [encOK] at h
    · by_cases hq : c = '\'' <;> simp [Denote.encItems, hasEscBackslash, hb, hq]
  | c :: d :: t, h => by
    by_cases hb : c = '\\'
    · subst hb
      simp only [encOK, if_true, Bool.and_eq_true, bne_iff_ne, ne_eq] at h
      have ih := encItems_noBs t h.2
      simp only [hasEscBackslash, List.contains_eq_mem, decide_eq_false_iff_not] at ih ⊢
      simp only [Denote.encItems, if_true, List.mem_cons, not_or]
      exact ⟨by intro e; injection e with e; exact h.1.1.1 e.symm, ih⟩
    · have h' : encOK (d :: t) = true := by simpa [encOK, hb] using h
      have ih := encItems_noBs (d :: t) h'
      simp only [hasEscBackslash, List.contains_eq_mem, decide_eq_false_iff_not] at ih ⊢
      by_cases hq : c = '\''
      · subst hq
        rw [Denote.encItems]; simp only [hb, if_false, if_true, List.mem_cons, not_or]
        exact ⟨by decide, ih⟩
      · rw [Denote.encItems]; simp only [hb, hq, if_false, List.mem_cons, not_or]
        exact ⟨by simp, ih⟩

/-- mindsdb as it is: `decode (encode v) = v` outside the known-finding classes -/
theorem roundtrip_mindsdb (v rest : List Char) (hv : encOK v = true) (hr : rest.head? ≠ some '\'')
    (h2 : edgeQuote '\'' (Denote.encItems v) = false) (h3 : escQuoteRun '\'' (Denote.encItems v) = false) :
    Lex.readString .mindsdb (Lex.constantToString v ++ rest) = some (v, rest) := by
  obtain ⟨e1, e2, e3⟩ := enc_main v hv
  have e : Lex.constantToString v = srcLit '\'' (Denote.encItems v) := by simp [Lex.constantToString, srcLit, e1]
  have hs := mQuote_src rest hr (Denote.encItems v) e2
  have hd := decodeQuote_mindsdb (Denote.encItems v) e2 (encItems_noBs v hv) h2 h3
  simp only [decodeQuote] at hd
  rw [e]
  have e' : srcLit '\'' (Denote.encItems v) ++ rest = '\'' :: (srcBody '\'' (Denote.encItems v) ++ '\'' :: rest) := by
    simp [srcLit]
  rw [e']
  simp only [Lex.readString, lexQuote, hs, Option.map_some]
  have : ('\'' :: srcBody '\'' (Denote.encItems v) ++ ['\'']) = srcLit '\'' (Denote.encItems v) := by simp [srcLit]
  rw [this, hd, e3]

end MindsVerif.Codec

/-! ### the fallback path of `SqlalchemyRender.get_string` (`with_failback=True`, the default): when the renderer refuses
a tree the caller receives `str(ast)`, i.e. the LIBRARY spelling of a constant (`Codec.constantToString`), whatever the
target dialect is -/
namespace MindsVerif.Codec
open MindsVerif.Py MindsVerif.Lex MindsVerif.LitRender MindsVerif.Literal

/-- body of the library spelling -/
def libBody (v : List Char) : List Char := replace ['\''] ['\\', '\''] (replace ['\\'] ['\\', '\\'] v)

theorem libBody_cons (c : Char) (t : List Char) :
    libBody (c :: t) = (if c = '\\' then ['\\', '\\'] else if c = '\'' then ['\\', '\''] else [c]) ++ libBody t := by
  unfold libBody
  by_cases hb : c = '\\'
  · subst hb
    rw [replace1_cons_eq]
    simp only [List.cons_append, List.nil_append]
    rw [replace1_cons_ne (by decide), replace1_cons_ne (by decide)]; simp
  · rw [replace1_cons_ne hb]
    by_cases hq : c = '\''
    · subst hq; rw [replace1_cons_eq]; simp
    · rw [replace1_cons_ne hq]; simp [hb, hq]

/-- a MySQL-family target reads the library spelling back: all strings -/
theorem mysqlBody_lib (rest : List Char) (hr : rest.head? ≠ some '\'') :
    ∀ v : List Char, mysqlBody (libBody v ++ '\'' :: rest) = some (v, rest)
  | [] => by
    have : libBody [] = [] := by simp [libBody, replace1_nil]
    simpa [this] using mysqlBody_close rest hr
  | c :: t => by
    have ih := mysqlBody_lib rest hr t
    rw [libBody_cons]
    by_cases hb : c = '\\'
    · subst hb; simp [mysqlBody, mysqlEsc, ih]
    · by_cases hq : c = '\''
      · subst hq; simp [mysqlBody, mysqlEsc, ih]
      · obtain ⟨d, T, hX⟩ : ∃ d T, libBody t ++ '\'' :: rest = d :: T := by
          cases libBody t with
          | nil => exact ⟨_, _, rfl⟩
          | cons a b => exact ⟨_, _, rfl⟩
        rw [hX] at ih
        simp only [hb, hq, if_false, List.cons_append, List.nil_append]
        rw [hX]
        simp [mysqlBody, hb, hq, ih]

theorem fallback_mysql (v rest : List Char) (hr : rest.head? ≠ some '\'') :
    mysqlLex (constantToString v ++ rest) = some (v, rest) := by
  have := mysqlBody_lib rest hr v
  simpa [constantToString, mysqlLex, libBody] using this

/-- a standard-SQL target reads the library spelling back exactly for values without quote and backslash -/
theorem fallback_std (v rest : List Char) (hr : rest.head? ≠ some '\'')
    (h1 : ∀ c ∈ v, c ≠ '\'') (h2 : ∀ c ∈ v, c ≠ '\\') :
    stdLex (constantToString v ++ rest) = some (v, rest) := by
  have e1 : replace ['\\'] ['\\', '\\'] v = v := replace1_id v h2
  have e2 : replace ['\''] ['\\', '\''] v = v := replace1_id v h1
  have e3 : replace ['\''] ['\'', '\''] v = v := replace1_id v h1
  have := stdBody_render rest hr v
  rw [e3] at this
  simp [constantToString, stdLex, e1, e2, this]

end MindsVerif.Codec
