import MindsVerif.Lemmas.Codec
import MindsVerif.Model.CodecDq
/-! `json_to_sql` of every string is one double-quoted specification literal denoting it, and is read back. -/
namespace MindsVerif.Codec
open MindsVerif.Py MindsVerif.Lex MindsVerif.Denote MindsVerif.Literal

def encItemsDq : List Char → List Item
  | [] => []
  | c :: t => (if c = '\\' then .esc '\\' else if c = '"' then .esc '"' else .ch c) :: encItemsDq t

theorem enc_body_dq : ∀ v : List Char,
    replace ['"'] ['\\', '"'] (replace ['\\'] ['\\', '\\'] v) = srcBody '"' (encItemsDq v) ∧
      WF '"' false (encItemsDq v) ∧ denote '"' (encItemsDq v) = v
  | [] => by simp [replace1_nil, encItemsDq, srcBody, denote, WF]
  | c :: t => by
    obtain ⟨i1, i2, i3⟩ := enc_body_dq t
    by_cases hb : c = '\\'
    · subst hb
      refine ⟨?_, ?_, ?_⟩
      · rw [replace1_cons_eq]
        simp only [List.cons_append, List.nil_append]
        rw [replace1_cons_ne (by decide), replace1_cons_ne (by decide), i1]
        simp [encItemsDq, srcBody, Item.src]
      · intro i hi
        simp only [encItemsDq, if_true, List.mem_cons] at hi
        rcases hi with rfl | hi
        · rfl
        · exact i2 i hi
      · simp [encItemsDq, denote, Item.val, i3]
    · rw [replace1_cons_ne hb]
      by_cases hq : c = '"'
      · subst hq
        refine ⟨?_, ?_, ?_⟩
        · rw [replace1_cons_eq, i1]; simp [encItemsDq, srcBody, Item.src]
        · intro i hi
          simp only [encItemsDq, hb, if_false, if_true, List.mem_cons] at hi
          rcases hi with rfl | hi
          · rfl
          · exact i2 i hi
        · simp [encItemsDq, denote, Item.val, i3]
      · refine ⟨?_, ?_, ?_⟩
        · rw [replace1_cons_ne hq, i1]; simp [encItemsDq, srcBody, Item.src, hb, hq]
        · intro i hi
          simp only [encItemsDq, hb, hq, if_false, List.mem_cons] at hi
          rcases hi with rfl | hi
          · simp [Item.wf, hb, hq]
          · exact i2 i hi
        · simp [encItemsDq, denote, Item.val, hb, hq, i3]

theorem roundtrip_dq (v rest : List Char) : readString (jsonStrToSql v ++ rest) = some (v, rest) := by
  obtain ⟨e1, e2, e3⟩ := enc_body_dq v
  have e : jsonStrToSql v = srcLit '"' (encItemsDq v) := by simp [jsonStrToSql, srcLit, e1]
  rw [e, read_src_dquote (encItemsDq v) rest e2, e3]

end MindsVerif.Codec
