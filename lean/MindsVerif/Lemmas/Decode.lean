import MindsVerif.Lemmas.Literal
/-! the MindsDB decoder chain (`replace` ×3, `strip`) on a spec literal -/
namespace MindsVerif.Literal
open MindsVerif.Py MindsVerif.Lex MindsVerif.Denote

/-- no item `\\` -/
abbrev NoBs (items : List Item) : Prop := ∀ i ∈ items, i ≠ .esc '\\'

theorem noBs_of (items : List Item) (h : hasEscBackslash items = false) : NoBs items := by
  intro i hi e
  subst e
  simp [hasEscBackslash] at h
  exact h hi

theorem noBs_tail {i} {is : List Item} (h : NoBs (i :: is)) : NoBs is :=
  fun j hj => h j (List.mem_cons_of_mem _ hj)

/-- text of an item after `replace('\\"', '"')` -/
def src1 (q : Char) : Item → List Char
  | .ch c => [c]
  | .esc c => if c = '"' then ['"'] else ['\\', c]
  | .qq => [q, q]

/-- … and after `replace("\\'", "'")` -/
def src2 (q : Char) : Item → List Char
  | .ch c => [c]
  | .esc c => if c = '"' then ['"'] else if c = '\'' then ['\''] else ['\\', c]
  | .qq => [q, q]

def body1 (q : Char) : List Item → List Char
  | [] => []
  | i :: r => src1 q i ++ body1 q r

def body2 (q : Char) : List Item → List Char
  | [] => []
  | i :: r => src2 q i ++ body2 q r

local notation "r1" => replace ['\\', '"'] ['"']
local notation "r2" => replace ['\\', '\''] ['\'']
local notation "r3" => replace ['\'', '\''] ['\'']

theorem r1_body (q : Char) (dbl : Bool) (hq : q ≠ '\\') (tail : List Char) :
    ∀ items : List Item, WF q dbl items → NoBs items →
      r1 (srcBody q items ++ tail) = body1 q items ++ r1 tail
  | [], _, _ => by simp [srcBody, body1]
  | .ch c :: is, h, hb => by
    have hc := h (.ch c) (by simp)
    simp [Item.wf] at hc
    have ih := r1_body q dbl hq tail is (wf_tail h) (noBs_tail hb)
    simp only [srcBody, Item.src, body1, src1, List.cons_append, List.nil_append]
    rw [replace2_cons_ne hc.1, ih]
  | .esc c :: is, h, hb => by
    have hc : c ≠ '\\' := fun e => hb (.esc c) (by simp) (by rw [e])
    have ih := r1_body q dbl hq tail is (wf_tail h) (noBs_tail hb)
    simp only [srcBody, Item.src, body1, src1, List.cons_append, List.nil_append]
    by_cases hx : c = '"'
    · subst hx
      rw [replace2_match, ih]; simp
    · rw [replace2_cons_ne2 hx, replace2_cons_ne hc, ih]; simp [hx]
  | .qq :: is, h, hb => by
    have ih := r1_body q dbl hq tail is (wf_tail h) (noBs_tail hb)
    simp only [srcBody, Item.src, body1, src1, List.cons_append, List.nil_append]
    rw [replace2_cons_ne hq, replace2_cons_ne hq, ih]

theorem r2_body (q : Char) (dbl : Bool) (hq : q ≠ '\\') (tail : List Char) :
    ∀ items : List Item, WF q dbl items → NoBs items →
      r2 (body1 q items ++ tail) = body2 q items ++ r2 tail
  | [], _, _ => by simp [body1, body2]
  | .ch c :: is, h, hb => by
    have hc := h (.ch c) (by simp)
    simp [Item.wf] at hc
    have ih := r2_body q dbl hq tail is (wf_tail h) (noBs_tail hb)
    simp only [body1, src1, body2, src2, List.cons_append, List.nil_append]
    rw [replace2_cons_ne hc.1, ih]
  | .esc c :: is, h, hb => by
    have hc : c ≠ '\\' := fun e => hb (.esc c) (by simp) (by rw [e])
    have ih := r2_body q dbl hq tail is (wf_tail h) (noBs_tail hb)
    simp only [body1, src1, body2, src2]
    by_cases hx : c = '"'
    · subst hx
      simp only [if_true, List.cons_append, List.nil_append]
      rw [replace2_cons_ne (by decide), ih]
    · by_cases hy : c = '\''
      · subst hy
        simp only [hx, if_false, if_true, List.cons_append, List.nil_append]
        rw [replace2_match, ih]; simp
      · simp only [hx, hy, if_false, List.cons_append, List.nil_append]
        rw [replace2_cons_ne2 hy, replace2_cons_ne hc, ih]
  | .qq :: is, h, hb => by
    have ih := r2_body q dbl hq tail is (wf_tail h) (noBs_tail hb)
    simp only [body1, src1, body2, src2, List.cons_append, List.nil_append]
    rw [replace2_cons_ne hq, replace2_cons_ne hq, ih]

theorem body2_cons (q : Char) (i : Item) (r : List Item) : body2 q (i :: r) = src2 q i ++ body2 q r := rfl
theorem denote_cons (q : Char) (i : Item) (r : List Item) : denote q (i :: r) = i.val q ++ denote q r := rfl

/-- alignment condition for the third replace: no escaped quote directly before a quote item, and the
last item is not a quote item -/
def good (q : Char) : List Item → Bool
  | [] => true
  | [i] => !i.isQ q
  | i :: j :: r => (!(i == .esc q) || !j.isQ q) && good q (j :: r)

theorem good_of (q : Char) : ∀ items : List Item, items ≠ [] → lastQ q items = false →
    escQuoteRun q items = false → good q items = true
  | [], h, _, _ => absurd rfl h
  | [i], _, hl, _ => by simpa [good, lastQ] using hl
  | i :: j :: r, _, hl, hr => by
    simp only [escQuoteRun, Bool.or_eq_false_iff] at hr
    have ih := good_of q (j :: r) (by simp) (by simpa [lastQ] using hl) hr.2
    simp only [good, ih, Bool.and_true]
    cases hi : (i == Item.esc q) <;> cases hj : j.isQ q <;> simp_all

/-- the first character of the text of an item that does not denote the quote -/
theorem body2_head {i : Item} {is : List Item} {tail : List Char} (hw : i.wf '\'' true = true)
    (hi : i.isQ '\'' = false) :
    ∃ d T, body2 '\'' (i :: is) ++ tail = d :: T ∧ d ≠ '\'' := by
  cases i with
  | ch c =>
    simp [Item.wf] at hw
    exact ⟨c, body2 '\'' is ++ tail, by simp [body2, src2], hw.2⟩
  | esc c =>
    have hc : c ≠ '\'' := by simpa [Item.isQ] using hi
    by_cases hx : c = '"'
    · exact ⟨'"', body2 '\'' is ++ tail, by simp [body2, src2, hx], by decide⟩
    · exact ⟨'\\', c :: (body2 '\'' is ++ tail), by simp [body2, src2, hx, hc], by decide⟩
  | qq => simp [Item.isQ] at hi

theorem r3_body : ∀ items : List Item, WF '\'' true items → NoBs items → good '\'' items = true →
    r3 (body2 '\'' items ++ ['\'']) = denote '\'' items ++ ['\'']
  | [], _, _, _ => by simp [body2, denote, replace2_single]
  | i :: is, h, hb, hg => by
    have hgt : good '\'' is = true := by
      cases is with
      | nil => rfl
      | cons j r => simp only [good, Bool.and_eq_true] at hg; exact hg.2
    have ih := r3_body is (wf_tail h) (noBs_tail hb) hgt
    cases i with
    | ch c =>
      have hc := h (.ch c) (by simp)
      simp [Item.wf] at hc
      simp only [body2, src2, denote, Item.val, List.cons_append, List.nil_append]
      rw [replace2_cons_ne hc.2, ih]
    | esc c =>
      have hc : c ≠ '\\' := fun e => hb (.esc c) (by simp) (by rw [e])
      by_cases hx : c = '"'
      · subst hx
        simp only [body2, src2, denote, Item.val, if_true, List.cons_append, List.nil_append]
        rw [replace2_cons_ne (by decide), ih]; simp
      · by_cases hy : c = '\''
        · subst hy
          -- an escaped quote: the next item exists and is not a quote item
          cases is with
          | nil => simp [good, Item.isQ] at hg
          | cons j r =>
            simp only [good, Bool.and_eq_true] at hg
            have hj : j.isQ '\'' = false := by simpa using hg.1
            obtain ⟨d, T, hT, hd⟩ := body2_head (is := r) (tail := ['\'']) (h j (by simp)) hj
            have e1 : body2 '\'' (Item.esc '\'' :: j :: r) ++ ['\''] = '\'' :: d :: T := by
              rw [← hT]; simp [body2_cons, src2]
            have e2 : denote '\'' (Item.esc '\'' :: j :: r) = '\'' :: denote '\'' (j :: r) := by
              simp [denote_cons, Item.val]
            rw [e1, e2, replace2_cons_ne2 hd, ← hT, ih]; simp
        · simp only [body2, src2, denote, Item.val, hx, hy, hc, if_false, List.cons_append,
            List.nil_append, false_or, or_false]
          rw [replace2_cons_ne (by decide), replace2_cons_ne hy, ih]
    | qq =>
      simp only [body2, src2, denote, Item.val, List.cons_append, List.nil_append]
      rw [replace2_match, ih]; simp

end MindsVerif.Literal
