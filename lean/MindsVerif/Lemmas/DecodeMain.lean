import MindsVerif.Lemmas.Decode
/-! assembly: decoder = `denote` on the literals outside the known-finding classes -/
namespace MindsVerif.Literal
open MindsVerif.Py MindsVerif.Lex MindsVerif.Denote

theorem val_ne_nil (q : Char) (i : Item) : i.val q ≠ [] := by
  cases i <;> simp [Item.val]
  split <;> simp

theorem denote_ne_nil (q : Char) : ∀ items : List Item, items ≠ [] → denote q items ≠ []
  | [], h => absurd rfl h
  | i :: is, _ => by simp [denote, val_ne_nil]

theorem val_head (q : Char) (hq : q ≠ '\\') (dbl : Bool) (i : Item) (hw : i.wf q dbl = true)
    (hi : i.isQ q = false) : (i.val q).head? ≠ some q := by
  cases i with
  | ch c => simp [Item.wf] at hw; simp [Item.val, hw.2]
  | esc c =>
    have hc : c ≠ q := by simpa [Item.isQ] using hi
    simp only [Item.val]; split <;> simp [hc, Ne.symm hq]
  | qq => simp [Item.isQ] at hi

theorem val_last (q : Char) (dbl : Bool) (i : Item) (hw : i.wf q dbl = true)
    (hi : i.isQ q = false) : (i.val q).getLast? ≠ some q := by
  cases i with
  | ch c => simp [Item.wf] at hw; simp [Item.val, hw.2]
  | esc c =>
    have hc : c ≠ q := by simpa [Item.isQ] using hi
    simp only [Item.val]; split <;> simp [hc]
  | qq => simp [Item.isQ] at hi

theorem denote_head (q : Char) (hq : q ≠ '\\') (dbl : Bool) (items : List Item) (hw : WF q dbl items)
    (hh : headQ q items = false) : (denote q items).head? ≠ some q := by
  cases items with
  | nil => simp [denote]
  | cons i is =>
    have := val_head q hq dbl i (hw i (by simp)) (by simpa [headQ] using hh)
    have hv := val_ne_nil q i
    simp only [denote]
    cases hval : i.val q with
    | nil => exact absurd hval hv
    | cons a b => rw [hval] at this; simpa using this

theorem denote_last (q : Char) (dbl : Bool) : ∀ items : List Item, WF q dbl items →
    lastQ q items = false → (denote q items).getLast? ≠ some q
  | [], _, _ => by simp [denote]
  | [i], hw, hl => by
    have := val_last q dbl i (hw i (by simp)) (by simpa [lastQ] using hl)
    simpa [denote] using this
  | i :: j :: r, hw, hl => by
    have ih := denote_last q dbl (j :: r) (wf_tail hw) (by simpa [lastQ] using hl)
    have hne := denote_ne_nil q (j :: r) (by simp)
    rw [denote_cons, List.getLast?_append]
    cases hg : (denote q (j :: r)).getLast? with
    | none => simp [List.getLast?_eq_none_iff] at hg; exact absurd hg hne
    | some x => rw [hg] at ih; simpa using ih

/-- **MindsDB single-quoted decoder** on a spec literal outside the three known-finding classes -/
theorem decodeQuote_mindsdb (items : List Item) (hw : WF '\'' true items)
    (hb : hasEscBackslash items = false) (he : edgeQuote '\'' items = false)
    (hr : escQuoteRun '\'' items = false) :
    decodeQuote .mindsdb (srcLit '\'' items) = denote '\'' items := by
  have hnb := noBs_of items hb
  simp only [edgeQuote, Bool.or_eq_false_iff] at he
  simp only [decodeQuote, quoteString, unescQuote, srcLit]
  rw [List.cons_append, replace2_cons_ne (by decide), r1_body '\'' true (by decide) _ items hw hnb,
    replace2_single, replace2_cons_ne (by decide), r2_body '\'' true (by decide) _ items hw hnb,
    replace2_single]
  cases items with
  | nil => decide
  | cons i is =>
    obtain ⟨d, T, hT, hd⟩ := body2_head (is := is) (tail := ['\'']) (hw i (by simp))
      (by simpa [headQ] using he.1)
    have hg := good_of '\'' (i :: is) (by simp) he.2 hr
    have h3 := r3_body (i :: is) hw hnb hg
    rw [hT] at h3 ⊢
    rw [replace2_cons_ne2 hd, h3]
    exact strip_delims' '\'' _ (denote_head '\'' (by decide) true _ hw he.1) (denote_last '\'' true _ hw he.2)

theorem body2_eq_denote : ∀ items : List Item, WF '"' false items → NoBs items →
    body2 '"' items = denote '"' items
  | [], _, _ => rfl
  | i :: is, hw, hb => by
    rw [body2_cons, denote_cons, body2_eq_denote is (wf_tail hw) (noBs_tail hb)]
    congr 1
    cases i with
    | ch c => rfl
    | esc c =>
      have hc : c ≠ '\\' := fun e => hb (.esc c) (by simp) (by rw [e])
      simp only [src2, Item.val]
      by_cases hx : c = '"'
      · simp [hx]
      · by_cases hy : c = '\''
        · simp [hy]
        · simp [hx, hy, hc]
    | qq => have := hw .qq (by simp); simp [Item.wf] at this

/-- **MindsDB double-quoted decoder** -/
theorem decodeDQuote_mindsdb (items : List Item) (hw : WF '"' false items)
    (hb : hasEscBackslash items = false) (he : edgeQuote '"' items = false) :
    decodeDQuote .mindsdb (srcLit '"' items) = denote '"' items := by
  have hnb := noBs_of items hb
  simp only [edgeQuote, Bool.or_eq_false_iff] at he
  simp only [decodeDQuote, dquoteString, unescDQuote, srcLit]
  rw [List.cons_append, replace2_cons_ne (by decide), r1_body '"' false (by decide) _ items hw hnb,
    replace2_single, replace2_cons_ne (by decide), r2_body '"' false (by decide) _ items hw hnb,
    replace2_single, body2_eq_denote items hw hnb]
  exact strip_delims' '"' _ (denote_head '"' (by decide) false _ hw he.1) (denote_last '"' false _ hw he.2)

/-! ### escape-less lexers -/
theorem src_eq_denote (q : Char) (dbl : Bool) (hq : q = '\'' ∨ q = '"') : ∀ items : List Item, WF q dbl items → usesEscape items = false →
    srcBody q items = denote q items ∧ ∀ c ∈ srcBody q items, c ≠ q
  | [], _, _ => by simp [srcBody, denote]
  | i :: is, hw, hu => by
    have hu' : usesEscape is = false := by
      simp only [usesEscape, List.any_cons, Bool.or_eq_false_iff] at hu ⊢; exact hu.2
    have ih := src_eq_denote q dbl hq is (wf_tail hw) hu'
    have hi := hw i (by simp)
    cases i with
    | ch c =>
      simp [Item.wf] at hi
      refine ⟨by simp [srcBody, denote, Item.src, Item.val, ih.1], ?_⟩
      intro x hx
      simp only [srcBody, Item.src, List.cons_append, List.nil_append, List.mem_cons] at hx
      rcases hx with rfl | hx
      · exact hi.2
      · exact ih.2 x hx
    | esc c =>
      simp only [usesEscape, List.any_cons, Bool.or_eq_false_iff] at hu
      have h1 := hu.1
      simp at h1
      refine ⟨by simp [srcBody, denote, Item.src, Item.val, ih.1, h1], ?_⟩
      intro x hx
      simp only [srcBody, Item.src, List.cons_append, List.nil_append, List.mem_cons] at hx
      rcases hx with rfl | rfl | hx
      · rcases hq with rfl | rfl <;> decide
      · rcases hq with rfl | rfl
        · exact h1.1.1
        · exact h1.1.2
      · exact ih.2 x hx
    | qq =>
      simp [usesEscape] at hu

end MindsVerif.Literal
