import MindsVerif.Lemmas.Literal
import MindsVerif.Model.LitRender
/-! the encoder `Constant.get_string`, the SQLAlchemy literal renderer against the standard-SQL reader,
integers -/
namespace MindsVerif.Literal
open MindsVerif.Py MindsVerif.Lex MindsVerif.Denote MindsVerif.LitRender

theorem enc_main : ∀ v : List Char, encOK v = true →
    replace ['\''] ['\\', '\''] v = srcBody '\'' (encItems v) ∧ WF '\'' true (encItems v) ∧
      denote '\'' (encItems v) = v
  | [], _ => by simp [replace1_nil, encItems, srcBody, denote, WF]
  | [c], h => by
    by_cases hb : c = '\\'
    · subst hb; simp [encOK] at h
    · by_cases hq : c = '\''
      · subst hq
        simp [replace1_cons_eq, replace1_nil, encItems, srcBody, denote, Item.src, Item.val, Item.wf, WF]
      · simp [replace1_cons_ne hq, replace1_nil, encItems, srcBody, denote, Item.src, Item.val, Item.wf, hb, hq, WF]
  | c :: d :: t, h => by
    by_cases hb : c = '\\'
    · subst hb
      simp only [encOK, if_true, Bool.and_eq_true, bne_iff_ne, ne_eq] at h
      obtain ⟨⟨⟨h1, h2⟩, h3⟩, h4⟩ := h
      obtain ⟨i1, i2, i3⟩ := enc_main t h4
      refine ⟨?_, ?_, ?_⟩
      · rw [replace1_cons_ne (by decide), replace1_cons_ne h2, i1]; simp [encItems, srcBody, Item.src]
      · intro i hi
        simp only [encItems, if_true, List.mem_cons] at hi
        rcases hi with rfl | hi
        · rfl
        · exact i2 i hi
      · simp [encItems, denote, Item.val, h1, h2, h3, i3]
    · have h' : encOK (d :: t) = true := by simpa [encOK, hb] using h
      obtain ⟨i1, i2, i3⟩ := enc_main (d :: t) h'
      by_cases hq : c = '\''
      · subst hq
        refine ⟨?_, ?_, ?_⟩
        · rw [replace1_cons_eq, i1]; simp [encItems, srcBody, Item.src]
        · intro i hi
          simp only [encItems, hb, if_false, if_true, List.mem_cons] at hi
          rcases hi with rfl | hi
          · rfl
          · exact i2 i hi
        · rw [encItems]; simp only [hb, if_false, if_true, denote_cons']; simp [Item.val, i3]
      · refine ⟨?_, ?_, ?_⟩
        · rw [replace1_cons_ne hq, i1]; simp [encItems, srcBody, Item.src, hb, hq]
        · intro i hi
          simp only [encItems, hb, hq, if_false, List.mem_cons] at hi
          rcases hi with rfl | hi
          · simp [Item.wf, hb, hq]
          · exact i2 i hi
        · rw [encItems]; simp only [hb, hq, if_false, denote_cons']; simp [Item.val, i3]
where denote_cons' := @Denote.denote.eq_2

/-! ### standard-SQL reader of the rendered literal -/
theorem stdBody_close (rest : List Char) (hr : rest.head? ≠ some '\'') :
    stdBody ('\'' :: rest) = some ([], rest) := by
  cases rest with
  | nil => simp [stdBody]
  | cons d t =>
    have : d ≠ '\'' := by simpa using hr
    simp [stdBody, this]

theorem stdBody_render (rest : List Char) (hr : rest.head? ≠ some '\'') :
    ∀ v : List Char, stdBody (replace ['\''] ['\'', '\''] v ++ '\'' :: rest) = some (v, rest)
  | [] => by simpa [replace1_nil] using stdBody_close rest hr
  | c :: t => by
    have ih := stdBody_render rest hr t
    by_cases hq : c = '\''
    · subst hq
      rw [replace1_cons_eq]
      simp [stdBody, ih]
    · rw [replace1_cons_ne hq]
      obtain ⟨d, T, hX⟩ : ∃ d T, replace ['\''] ['\'', '\''] t ++ '\'' :: rest = d :: T := by
        cases replace ['\''] ['\'', '\''] t with
        | nil => exact ⟨_, _, rfl⟩
        | cons a b => exact ⟨_, _, rfl⟩
      rw [hX] at ih
      rw [List.cons_append, hX]
      simp [stdBody, hq, ih]

/-! ### MySQL reader of the MySQL rendering -/
def encM (c : Char) : List Char := if c = '\'' then ['\'', '\''] else if c = '\\' then ['\\', '\\'] else [c]

theorem renderBody_mysql_cons (c : Char) (t : List Char) :
    renderBody true (c :: t) = encM c ++ renderBody true t := by
  simp only [renderBody, if_true]
  by_cases hq : c = '\''
  · subst hq
    rw [replace1_cons_eq]
    simp only [List.cons_append, List.nil_append]
    rw [replace1_cons_ne (by decide), replace1_cons_ne (by decide)]
    simp [encM]
  · rw [replace1_cons_ne hq]
    by_cases hb : c = '\\'
    · subst hb
      rw [replace1_cons_eq]; simp [encM]
    · rw [replace1_cons_ne hb]; simp [encM, hq, hb]

theorem mysqlBody_close (rest : List Char) (hr : rest.head? ≠ some '\'') :
    mysqlBody ('\'' :: rest) = some ([], rest) := by
  cases rest with
  | nil => simp [mysqlBody]
  | cons d t =>
    have : d ≠ '\'' := by simpa using hr
    simp [mysqlBody, this]

theorem mysqlBody_render (rest : List Char) (hr : rest.head? ≠ some '\'') :
    ∀ v : List Char, mysqlBody (renderBody true v ++ '\'' :: rest) = some (v, rest)
  | [] => by
    have : renderBody true [] = [] := by simp [renderBody, replace1_nil]
    simpa [this] using mysqlBody_close rest hr
  | c :: t => by
    have ih := mysqlBody_render rest hr t
    rw [renderBody_mysql_cons]
    by_cases hq : c = '\''
    · subst hq
      simp [encM, mysqlBody, ih]
    · by_cases hb : c = '\\'
      · subst hb
        simp [encM, mysqlBody, mysqlEsc, ih]
      · obtain ⟨d, T, hX⟩ : ∃ d T, renderBody true t ++ '\'' :: rest = d :: T := by
          cases renderBody true t with
          | nil => exact ⟨_, _, rfl⟩
          | cons a b => exact ⟨_, _, rfl⟩
        rw [hX] at ih
        simp only [encM, hq, hb, if_false, List.cons_append, List.nil_append]
        rw [hX]
        simp [mysqlBody, hq, hb, ih]

/-! ### integers -/
theorem digitsValue_repr (n : Nat) : digitsValue (Nat.repr n).toList = n := by
  rw [Nat.toList_repr]
  exact Nat.ofDigitChars_ten_toDigits

theorem repr_all_digits (n : Nat) : (Nat.repr n).toList.all Lex.isDigit = true := by
  rw [Nat.toList_repr, List.all_eq_true]
  intro c hc
  exact Nat.isDigit_of_mem_toDigits (by decide) (by decide) hc

end MindsVerif.Literal
