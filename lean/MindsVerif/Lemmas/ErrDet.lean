import MindsVerif.Lemmas.ErrPrefix
/-! T19.2b — prefix determinism of the bad token: before the first error the driver never looks at
input it has not consumed, so two token lists that agree on the first `k+1` tokens are rejected at
the same token `k`, in the same state, after the same reductions. -/
namespace MindsVerif.LR

/-- the same configuration with another unread input -/
def withIn (i : List Nat) (c : Cfg) : Cfg := { c with input := i }

/-- the part of `step` after the lookahead has been fetched -/
def act (T : Tables) (row : Row) (s : Nat) (c : Cfg) (l : LA) : Cfg ⊕ Outcome :=
  match row.action l.term with
  | .shift s' => .inl (doShift c l s')
  | .reduce p => doReduce T c p
  | .accept => .inr (doAccept c)
  | .none => doError .drain false c s l

theorem step_eq (T : Tables) (c : Cfg) :
    step T .drain false c =
      match T.rows.get? (topState c.st) with
      | none => .inr (.stuck 0)
      | some row =>
        match row.dflt with
        | some p => doReduce T c p
        | none =>
          match fetch false c with
          | .inr o => .inr o
          | .inl (c1, l) => act T row (topState c.st) c1 l := by
  unfold step act
  rfl

theorem doReduce_frame {T : Tables} {c : Cfg} {p : Nat} :
    match doReduce T c p with
    | .inl c1 => c1.input = c.input ∧ c1.consumed = c.consumed ∧ c1.err = c.err ∧ c1.la = c.la ∧
        c1.las = c.las ∧ c1.errcount = c.errcount ∧ c1.errok = c.errok
    | .inr _ => True := by
  unfold doReduce
  cases T.prods.get? p with
  | none => simp
  | some pr =>
    simp only
    by_cases hl : c.st.length < pr.rhs.length
    · simp [hl]
    · simp only [hl, if_false]
      cases T.rows.get? (topState (c.st.drop pr.rhs.length)) with
      | none => simp
      | some r => simp only; cases r.goto pr.lhs <;> simp

theorem doReduce_withIn (T : Tables) (c : Cfg) (p : Nat) (i : List Nat) :
    doReduce T (withIn i c) p =
      match doReduce T c p with
      | .inl c1 => .inl (withIn i c1)
      | .inr o => .inr o := by
  unfold doReduce withIn
  cases T.prods.get? p with
  | none => simp
  | some pr =>
    simp only
    by_cases hl : c.st.length < pr.rhs.length
    · simp [hl]
    · simp only [hl, if_false]
      cases T.rows.get? (topState (c.st.drop pr.rhs.length)) with
      | none => simp
      | some r => simp only; cases r.goto pr.lhs <;> simp

/-- how the lookahead is obtained when the lookahead stack is empty -/
theorem fetch_cases {c : Cfg} (hlas : c.las = []) :
    (∃ l, c.la = some l ∧ fetch false c = .inl (c, l)) ∨
    (c.la = none ∧ ∃ t ts, c.input = t :: ts ∧
      fetch false c = .inl ({ c with input := ts, la := some (.tok t), consumed := c.consumed + 1 }, .tok t)) ∨
    (c.la = none ∧ c.input = [] ∧ fetch false c = .inl ({ c with la := some .eof }, .eof)) := by
  unfold fetch
  cases hla : c.la with
  | some l => exact Or.inl ⟨l, rfl, rfl⟩
  | none =>
    simp only [hlas]
    cases hin : c.input with
    | nil => simp
    | cons t ts => simp; exact ⟨t, ts, ⟨rfl, rfl⟩, rfl, rfl⟩

/-- with the error callback armed (`errorcount = 0`) the error branch overwrites the unread input,
so it does not depend on it, and it records an error -/
theorem doError_withIn (c : Cfg) (s : Nat) (l : LA) (i : List Nat) (hcnt : c.errcount = 0) :
    doError .drain false (withIn i c) s l = doError .drain false c s l := by
  unfold doError errCallback withIn
  simp [hcnt]

theorem doError_err (c : Cfg) (s : Nat) (l : LA) (hcnt : c.errcount = 0) :
    match doError .drain false c s l with
    | .inl c2 => c2.err ≠ none
    | .inr _ => True := by
  unfold doError errCallback
  have h : (c.errcount == 0 || c.errok) = true := by simp [hcnt]
  simp only [h, if_true, Bool.false_eq_true, if_false]
  by_cases hle : l = .eof
  · simp [hle]
  · simp only [hle, if_false]
    obtain ⟨cE, hcE⟩ : ∃ cE : Cfg, cE = { c with errcount := 3, errok := false, input := [], err := some ⟨some (c.consumed - 1), s⟩ } := ⟨_, rfl⟩
    rw [← hcE]
    have hrec := recover_err cE l
    cases hq : recover cE l with
    | inl c2 => rw [hq] at hrec; simp only at hrec ⊢; rw [hrec, hcE]; simp
    | inr o => trivial

/-- the post-fetch part of a step does not depend on the unread input -/
theorem act_sim (T : Tables) (row : Row) (s : Nat) (c : Cfg) (l : LA) (i : List Nat)
    (hcnt : c.errcount = 0) :
    match act T row s c l with
    | .inl c2 =>
        (c2.input = c.input ∧ c2.err = c.err ∧ c2.las = c.las ∧ c2.errcount = 0 ∧
          act T row s (withIn i c) l = .inl (withIn i c2)) ∨
        (c2.err ≠ none ∧ act T row s (withIn i c) l = .inl c2)
    | .inr o => act T row s (withIn i c) l = .inr o := by
  unfold act
  cases row.action l.term with
  | shift s' =>
    simp only
    left
    simp [doShift, withIn, hcnt]
  | reduce p =>
    simp only
    rw [doReduce_withIn]
    have hf := @doReduce_frame T c p
    cases hq : doReduce T c p with
    | inl c1 =>
      rw [hq] at hf
      simp only at hf ⊢
      exact Or.inl ⟨hf.1, hf.2.2.1, hf.2.2.2.2.1, by rw [hf.2.2.2.2.2.1, hcnt], trivial⟩
    | inr o => simp
  | accept => simp [doAccept, withIn]
  | none =>
    simp only
    rw [doError_withIn c s l i hcnt]
    have he := doError_err c s l hcnt
    cases hq : doError .drain false c s l with
    | inl c2 => rw [hq] at he; simp only at he ⊢; exact Or.inr ⟨he, trivial⟩
    | inr o => simp

/-- what is left to read, counting a token lookahead -/
def rem (c : Cfg) : Nat := (laToks c.la).length + c.input.length

theorem act_rem (T : Tables) (row : Row) (s : Nat) (c : Cfg) (l : LA) (_hla : c.la = some l)
    (hcnt : c.errcount = 0) :
    match act T row s c l with
    | .inl c2 => rem c2 ≤ rem c ∨ c2.err ≠ none
    | .inr _ => True := by
  unfold act
  cases row.action l.term with
  | shift s' => simp [doShift, rem, laToks]
  | reduce p =>
    simp only
    have hf := @doReduce_frame T c p
    cases hq : doReduce T c p with
    | inl c1 =>
      rw [hq] at hf
      simp only at hf ⊢
      left; simp [rem, hf.1, hf.2.2.2.1]
    | inr o => trivial
  | accept => trivial
  | none =>
    simp only
    have he := doError_err c s l hcnt
    cases hq : doError .drain false c s l with
    | inl c2 => rw [hq] at he; simp only at he ⊢; exact Or.inr he
    | inr o => trivial

/-- a step never gives input back (unless it records an error) -/
theorem step_rem {T : Tables} {c : Cfg} (hlas : c.las = []) (hcnt : c.errcount = 0) :
    match step T .drain false c with
    | .inl c' => rem c' ≤ rem c ∨ c'.err ≠ none
    | .inr _ => True := by
  rw [step_eq]
  cases T.rows.get? (topState c.st) with
  | none => trivial
  | some row =>
    simp only
    cases row.dflt with
    | some p =>
      simp only
      have hf := @doReduce_frame T c p
      cases hq : doReduce T c p with
      | inl c1 =>
        rw [hq] at hf
        simp only at hf ⊢
        left; simp [rem, hf.1, hf.2.2.2.1]
      | inr o => trivial
    | none =>
      simp only
      rcases fetch_cases hlas with ⟨l, hla, hf⟩ | ⟨hla, t, ts, hin, hf⟩ | ⟨hla, hin, hf⟩
      · rw [hf]; exact act_rem T row _ c l hla hcnt
      · rw [hf]
        simp only
        have := act_rem T row (topState c.st)
          { c with input := ts, la := some (.tok t), consumed := c.consumed + 1 } (.tok t) rfl hcnt
        cases hq : act T row (topState c.st)
          { c with input := ts, la := some (.tok t), consumed := c.consumed + 1 } (.tok t) with
        | inl c2 =>
          rw [hq] at this
          simp only at this ⊢
          rcases this with h | h
          · left; simp [rem, laToks, hla, hin] at h ⊢; omega
          · exact Or.inr h
        | inr o => trivial
      · rw [hf]
        simp only
        have := act_rem T row (topState c.st) { c with la := some .eof } .eof rfl hcnt
        cases hq : act T row (topState c.st) { c with la := some .eof } .eof with
        | inl c2 =>
          rw [hq] at this
          simp only at this ⊢
          rcases this with h | h
          · left; simp [rem, laToks, hla, hin] at h ⊢; omega
          · exact Or.inr h
        | inr o => trivial

@[simp] theorem withIn_st (i : List Nat) (c : Cfg) : (withIn i c).st = c.st := rfl
@[simp] theorem withIn_input (i : List Nat) (c : Cfg) : (withIn i c).input = i := rfl

theorem fetch_withIn_some {c : Cfg} {l : LA} (i : List Nat) (hla : c.la = some l) :
    fetch false (withIn i c) = .inl (withIn i c, l) := by
  simp [fetch, withIn, hla]

theorem fetch_withIn_cons {c : Cfg} (t : Nat) (i ts : List Nat) (hla : c.la = none) (hlas : c.las = []) :
    fetch false (withIn (t :: i) c) =
      .inl (withIn i { c with input := ts, la := some (.tok t), consumed := c.consumed + 1 }, .tok t) := by
  simp [fetch, withIn, hla, hlas]

/-- one step of two runs that differ only in the unread input beyond a shared part `p`:
unless the step would read beyond `p`, both do the same -/
theorem step_sim (T : Tables) (c : Cfg) (p r r' : List Nat) (hlas : c.las = []) (hcnt : c.errcount = 0)
    (hin : c.input = p ++ r) (hesc : ¬ (p = [] ∧ c.la = none)) :
    match step T .drain false c with
    | .inl c1 =>
        (∃ p1, c1.input = p1 ++ r ∧ c1.err = c.err ∧ c1.las = [] ∧ c1.errcount = 0 ∧
          step T .drain false (withIn (p ++ r') c) = .inl (withIn (p1 ++ r') c1)) ∨
        (c1.err ≠ none ∧ step T .drain false (withIn (p ++ r') c) = .inl c1)
    | .inr o => step T .drain false (withIn (p ++ r') c) = .inr o := by
  rw [step_eq T c, step_eq T (withIn (p ++ r') c)]
  simp only [withIn_st]
  cases T.rows.get? (topState c.st) with
  | none => simp
  | some row =>
    simp only
    cases row.dflt with
    | some p0 =>
      simp only
      rw [doReduce_withIn]
      have hf := @doReduce_frame T c p0
      cases hq : doReduce T c p0 with
      | inl c1 =>
        rw [hq] at hf
        simp only at hf ⊢
        exact Or.inl ⟨p, by rw [hf.1, hin], hf.2.2.1, by rw [hf.2.2.2.2.1, hlas],
          by rw [hf.2.2.2.2.2.1, hcnt], rfl⟩
      | inr o => simp
    | none =>
      simp only
      rcases fetch_cases hlas with ⟨l, hla, hf⟩ | ⟨hla, t, ts, hin2, hf⟩ | ⟨hla, hin2, hf⟩
      · rw [hf, fetch_withIn_some _ hla]
        simp only
        have := act_sim T row (topState c.st) c l (p ++ r') hcnt
        cases hq : act T row (topState c.st) c l with
        | inl c2 =>
          rw [hq] at this
          simp only at this ⊢
          rcases this with ⟨h1, h2, h3, h4, h5⟩ | ⟨h1, h2⟩
          · exact Or.inl ⟨p, by rw [h1, hin], h2, by rw [h3, hlas], h4, h5⟩
          · exact Or.inr ⟨h1, h2⟩
        | inr o => rw [hq] at this; simpa using this
      · -- the token is read from the shared part
        cases p with
        | nil => exact absurd ⟨rfl, hla⟩ hesc
        | cons t' p2 =>
          rw [hin] at hin2
          simp only [List.cons_append, List.cons.injEq] at hin2
          obtain ⟨rfl, hts⟩ := hin2
          rw [hf]
          simp only [List.cons_append]
          rw [fetch_withIn_cons t' (p2 ++ r') ts hla hlas]
          simp only
          have := act_sim T row (topState c.st)
            { c with input := ts, la := some (.tok t'), consumed := c.consumed + 1 } (.tok t') (p2 ++ r') hcnt
          cases hq : act T row (topState c.st)
            { c with input := ts, la := some (.tok t'), consumed := c.consumed + 1 } (.tok t') with
          | inl c2 =>
            rw [hq] at this
            simp only at this ⊢
            rcases this with ⟨h1, h2, h3, h4, h5⟩ | ⟨h1, h2⟩
            · exact Or.inl ⟨p2, by rw [h1, hts], h2, by rw [h3, hlas], h4, h5⟩
            · exact Or.inr ⟨h1, h2⟩
          | inr o => rw [hq] at this; simpa using this
      · have : p = [] := by
          rw [hin] at hin2
          exact (List.append_eq_nil_iff.1 hin2).1
        exact absurd ⟨this, hla⟩ hesc

theorem clean_yield_rem {T : Tables} {toks : List Nat} {c : Cfg} (hc : Clean T toks false c) :
    (yieldStack c.st).length + rem c = toks.length := by
  have := congrArg List.length hc.yld
  simp only [List.length_append] at this
  unfold rem
  omega

theorem errAtSt_yield {T : Tables} {toks : List Nat} {st : Stack} {k s : Nat}
    (h : ErrAtSt T toks st ⟨some k, s⟩) : (yieldStack st).length = k := by
  obtain ⟨row, _, _, _, _, hb⟩ := h
  simp only at hb
  rw [hb.2.1, List.length_take]
  omega

/-- the number of tokens already on the stack never exceeds the index of the bad token that a
clean run will eventually report -/
theorem run_yield_le (hv : Valid T) (toks : List Nat) : ∀ (fuel : Nat) (c : Cfg), Clean T toks false c →
    ∀ k s log, run T .drain false fuel c = .none_ (some ⟨some k, s⟩) log →
      (yieldStack c.st).length ≤ k := by
  intro fuel
  induction fuel with
  | zero => intro c _ k s log h; simp [run] at h
  | succ n ih =>
    intro c hc k s log h
    have hs1 := step_clean hv .drain hc
    have hs2 := clean_step_err hv hc
    have hs3 := @step_rem T c hc.las hc.cnt
    unfold run at h
    cases hs : step T .drain false c with
    | inl c' =>
      rw [hs] at h hs1 hs2 hs3
      simp only at h hs1 hs2 hs3
      rcases hs1 with hcl | ⟨_, _, hpost⟩
      · have h1 := ih c' hcl k s log h
        have h2 := clean_yield_rem hc
        have h3 := clean_yield_rem hcl
        rcases hs3 with h4 | h4
        · omega
        · exact absurd hcl.noerr h4
      · have := run_post_err hv n c' hpost _ _ h
        rcases hs2 with h0 | ⟨e0, he0, hE⟩
        · rw [h0] at this; cases this
        · rw [he0] at this; cases this
          exact Nat.le_of_eq (errAtSt_yield hE)
    | inr o =>
      rw [hs] at h hs2
      simp only at h hs2
      subst h
      exact Nat.le_of_eq (errAtSt_yield (hs2 _ rfl))

/-- two clean runs whose unread inputs share the part `p` (and then continue differently) report the
same bad token, provided it lies inside the shared part -/
theorem run_sim (hv : Valid T) (pre rest rest' : List Nat) (k s : Nat) (log : List Nat)
    (hk : k < pre.length) : ∀ (fuel : Nat) (c : Cfg) (p : List Nat),
    Clean T (pre ++ rest) false c → Clean T (pre ++ rest') false (withIn (p ++ rest') c) →
    c.input = p ++ rest →
    run T .drain false fuel c = .none_ (some ⟨some k, s⟩) log →
    run T .drain false fuel (withIn (p ++ rest') c) = .none_ (some ⟨some k, s⟩) log := by
  intro fuel
  induction fuel with
  | zero => intro c p _ _ _ h; simp [run] at h
  | succ n ih =>
    intro c p hc hc' hin h
    by_cases hesc : p = [] ∧ c.la = none
    · -- the whole shared prefix is already on the stack: the bad token would lie beyond it
      exfalso
      obtain ⟨hp, hla⟩ := hesc
      have hy := hc.yld
      rw [hla, hin, hp] at hy
      simp only [laToks, List.append_nil, List.nil_append] at hy
      have : yieldStack c.st = pre := List.append_cancel_right hy
      have hle := run_yield_le hv _ (n + 1) c hc k s log h
      rw [this] at hle
      omega
    · have hsim := step_sim T c p rest rest' hc.las hc.cnt hin hesc
      have hs1 := step_clean hv .drain hc
      have hs1' := step_clean hv .drain hc'
      unfold run at h ⊢
      cases hs : step T .drain false c with
      | inl c1 =>
        rw [hs] at h hsim hs1
        simp only at h hsim hs1
        rcases hsim with ⟨p1, hi1, he1, _, _, hstep⟩ | ⟨_, hstep⟩
        · rw [hstep] at hs1' ⊢
          simp only at hs1' ⊢
          have hcl : Clean T (pre ++ rest) false c1 := by
            rcases hs1 with h1 | ⟨_, _, hpost⟩
            · exact h1
            · exact absurd (he1.trans hc.noerr) hpost.err
          have hcl' : Clean T (pre ++ rest') false (withIn (p1 ++ rest') c1) := by
            rcases hs1' with h1 | ⟨_, _, hpost⟩
            · exact h1
            · exact absurd (he1.trans hc.noerr) hpost.err
          exact ih c1 p1 hcl hcl' hi1 h
        · rw [hstep]; exact h
      | inr o =>
        rw [hs] at h hsim
        simp only at h hsim
        rw [hsim]; exact h

theorem run_fuel_mono (T : Tables) (m : Mode) (b : Bool) : ∀ (fuel : Nat) (c : Cfg) (o : Outcome),
    run T m b fuel c = o → o ≠ .fuel → ∀ n, run T m b (fuel + n) c = o := by
  intro fuel
  induction fuel with
  | zero => intro c o h hne; simp [run] at h; exact absurd h.symm hne
  | succ f ih =>
    intro c o h hne n
    have : f + 1 + n = (f + n) + 1 := by omega
    rw [this]
    unfold run at h ⊢
    cases hs : step T m b c with
    | inl c' => rw [hs] at h; simp only at h ⊢; exact ih c' o h hne n
    | inr o' => rw [hs] at h; simpa using h

/-- **T19.2b** for `parse` -/
theorem parse_prefix_det (hv : T.valid = true) (pre rest rest' : List Nat)
    (h0 : ∀ x ∈ pre ++ rest, x ≠ 0) (h0' : ∀ x ∈ pre ++ rest', x ≠ 0)
    (fuel fuel' k s : Nat) (log : List Nat) (hk : k < pre.length)
    (h : parse T .drain false (pre ++ rest) fuel = .none_ (some ⟨some k, s⟩) log) :
    parse T .drain false (pre ++ rest') fuel' = .none_ (some ⟨some k, s⟩) log ∨
    parse T .drain false (pre ++ rest') fuel' = .fuel := by
  have hsame : parse T .drain false (pre ++ rest') fuel = .none_ (some ⟨some k, s⟩) log :=
    run_sim (valid_of_eq hv) pre rest rest' k s log hk fuel (initCfg (pre ++ rest)) pre
      (clean_init _ false h0) (clean_init _ false h0') rfl h
  by_cases hle : fuel ≤ fuel'
  · left
    obtain ⟨n, rfl⟩ := Nat.exists_eq_add_of_le hle
    exact run_fuel_mono T .drain false fuel _ _ hsame (by simp) n
  · by_cases hf : parse T .drain false (pre ++ rest') fuel' = .fuel
    · exact Or.inr hf
    · left
      obtain ⟨n, hn⟩ := Nat.exists_eq_add_of_le (Nat.le_of_lt (Nat.lt_of_not_le hle))
      have := run_fuel_mono T .drain false fuel' _ _ rfl hf n
      rw [← hn] at this
      exact this.symm.trans hsame

end MindsVerif.LR
