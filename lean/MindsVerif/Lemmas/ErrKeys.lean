import MindsVerif.Model.ErrKeys
import MindsVerif.Model.CanTake
import MindsVerif.Lemmas.ErrPrefix
/-! Φ19 — the mask-based key classification agrees with `Row.action`; shift keys extend the
parser's path. -/
namespace MindsVerif.LR

theorem Trie.sumIdx_node {α : Type} {f : α → Nat} {v : Option α} {l r : Trie α} {a b c : Nat}
    (hv : (match v with | none => 0 | some x => f x) = a) (hl : Trie.sumIdx f l = b)
    (hr : Trie.sumIdx f r = c) : Trie.sumIdx f (.node v l r) = a + b + c := by
  rw [← hv, ← hl, ← hr]; rfl

theorem foldl_or_testBit {α : Type} (f : α → Nat) (t : Nat) : ∀ (l : List α) (a : Nat),
    (l.foldl (fun acc e => acc ||| f e) a).testBit t = (a.testBit t || l.any (fun e => (f e).testBit t)) := by
  intro l
  induction l with
  | nil => intro a; simp
  | cons x xs ih => intro a; simp [List.foldl_cons, ih, Nat.testBit_or, Bool.or_assoc]

theorem testBit_one_shl (k t : Nat) : (1 <<< k).testBit t = decide (k = t) := by
  rw [Nat.one_shiftLeft, Nat.testBit_two_pow]

theorem findKey_isSome (t : Nat) : ∀ l : List Nat,
    (findKey t l).isSome = l.any (fun e => decide (e / 4096 = t)) := by
  intro l
  induction l with
  | nil => rfl
  | cons e es ih =>
    unfold findKey
    by_cases h : e / 4096 = t
    · simp [h]
    · have : (e / 4096 == t) = false := by simp [h]
      simp [this, ih, h]

theorem findRed_isSome (t : Nat) : ∀ l : List (Nat × Nat),
    (findRed t l).isSome = l.any (fun e => e.2.testBit t) := by
  intro l
  induction l with
  | nil => rfl
  | cons e es ih =>
    obtain ⟨p, m⟩ := e
    unfold findRed
    cases h : m.testBit t <;> simp [h, ih]

theorem shiftMask_testBit (r : Row) (t : Nat) : r.shiftMask.testBit t = (findKey t r.shifts).isSome := by
  unfold Row.shiftMask
  rw [foldl_or_testBit (fun e => 1 <<< (e / 4096)), findKey_isSome]
  simp only [Nat.zero_testBit, Bool.false_or, testBit_one_shl]

theorem redMask_testBit (r : Row) (t : Nat) : r.redMask.testBit t = (findRed t r.reds).isSome := by
  unfold Row.redMask
  rw [foldl_or_testBit (fun e : Nat × Nat => e.2), findRed_isSome]
  simp

/-- the listed shift keys are exactly the terminals on which `Row.action` shifts -/
theorem mem_shiftKeys (r : Row) (nT t : Nat) :
    t ∈ r.shiftKeys nT ↔ t < nT ∧ ∃ s', r.action t = .shift s' := by
  unfold Row.shiftKeys
  rw [List.mem_filter, List.mem_range, shiftMask_testBit]
  unfold Row.action
  cases h : findKey t r.shifts with
  | some s' => simp
  | none =>
    simp only [Option.isSome_none, Bool.false_eq_true, and_false, false_iff, not_and, not_exists]
    intro _ s'
    cases findRed t r.reds with
    | some p => simp
    | none => simp only; cases (r.acc && t == 0) <;> simp

/-- the listed reduce look-ahead keys are exactly the terminals on which `Row.action` reduces -/
theorem mem_redKeys (r : Row) (nT t : Nat) :
    t ∈ r.redKeys nT ↔ t < nT ∧ ∃ p, r.action t = .reduce p := by
  unfold Row.redKeys
  rw [List.mem_filter, List.mem_range, shiftMask_testBit, redMask_testBit]
  unfold Row.action
  cases h : findKey t r.shifts with
  | some s' => simp
  | none =>
    cases h2 : findRed t r.reds with
    | some p => simp
    | none => simp only; cases (r.acc && t == 0) <;> simp

/-- a shift key of the error state extends the parser's path by that token: the automaton has a
path that spells the tokens before the bad one followed by the key -/
theorem shift_key_extends {T : Tables} {toks : List Nat} {st : Stack} {e : ErrInfo}
    (h : ErrAtSt T toks st e) {row : Row} (hrow : T.rows.get? e.state = some row) {t s' : Nat}
    (hs : row.action t = .shift s') :
    Path T ((s', .leaf t) :: st) ∧ yieldStack ((s', .leaf t) :: st) = yieldStack st ++ [t] := by
  obtain ⟨row', hp, htop, hr', _, _⟩ := h
  refine ⟨?_, by simp [yieldStack_cons, PT.yield]⟩
  refine Path.cons hp (by rw [htop]; exact hrow) ?_
  unfold Row.target
  have h1 : ((PT.leaf t).root % 2 == 0) = true := by simp [PT.root]
  have h2 : (PT.leaf t).root / 2 = t := by simp [PT.root]
  simp only [h1, cond_true, h2]
  exact action_shift hs

/-- a reduction on a valid path gives a valid path with the same frontier -/
theorem reduce_path_yield {T : Tables} (hv : Valid T) {st : Stack} (hp : Path T st) {r : Row}
    (hr : T.rows.get? (topState st) = some r) {p : Nat} (hmem : ∃ e ∈ r.reds, e.1 = p) :
    ∃ c2, doReduce T { initCfg [] with st := st } p = .inl c2 ∧ Path T c2.st ∧
      yieldStack c2.st = yieldStack st := by
  obtain ⟨pr, ru, g, h1, h2, h3, h4, h5, h6⟩ :=
    doReduce_ok hv (c := { initCfg [] with st := st }) hp hr hmem
  refine ⟨_, h6, path_after_reduce hp h4 h5, ?_⟩
  simp only [yieldStack_cons, PT.yield]
  unfold yieldStack
  rw [trees_take_drop st pr.rhs.length, yieldL_append]
  rfl

/-- every token `_can_take` keeps is a shift key of a state the parser reaches from the error stack by
reductions that leave the frontier unchanged (or it is `$end` on the accepting state) -/
theorem canTake_sound {T : Tables} (hv : Valid T) (t : Nat) : ∀ (fuel : Nat) (st : Stack), Path T st →
    canTake T t fuel st = true →
    ∃ st' row, Path T st' ∧ yieldStack st' = yieldStack st ∧
      T.rows.get? (topState st') = some row ∧
      ((∃ s', row.action t = .shift s') ∨ row.action t = .accept) := by
  intro fuel
  induction fuel with
  | zero => intro st _ h; simp [canTake] at h
  | succ n ih =>
    intro st hp h
    obtain ⟨r, hr⟩ := path_top_row hv hp
    unfold canTake at h
    simp only [hr] at h
    have red : ∀ p, (∃ e ∈ r.reds, e.1 = p) →
        (match doReduce T { initCfg [] with st := st } p with
          | .inl c => canTake T t n c.st
          | .inr _ => false) = true →
        ∃ st' row, Path T st' ∧ yieldStack st' = yieldStack st ∧
          T.rows.get? (topState st') = some row ∧
          ((∃ s', row.action t = .shift s') ∨ row.action t = .accept) := by
      intro p hmem hh
      obtain ⟨c2, h6, hp2, hy2⟩ := reduce_path_yield hv hp hr hmem
      rw [h6] at hh
      obtain ⟨st', row, h1, h2, h3, h4⟩ := ih c2.st hp2 hh
      exact ⟨st', row, h1, h2.trans hy2, h3, h4⟩
    cases hd : r.dflt with
    | some p =>
      rw [hd] at h
      exact red p ((rowFacts hv hr).dflt p hd) h
    | none =>
      rw [hd] at h
      simp only at h
      cases hact : r.action t with
      | shift s' => exact ⟨st, r, hp, rfl, hr, Or.inl ⟨s', hact⟩⟩
      | accept => exact ⟨st, r, hp, rfl, hr, Or.inr hact⟩
      | none => rw [hact] at h; simp at h
      | reduce p =>
        rw [hact] at h
        exact red p (action_reduce hact) h

end MindsVerif.LR
