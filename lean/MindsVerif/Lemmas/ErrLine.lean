import MindsVerif.Model.ErrLine
import MindsVerif.Lemmas.ErrLoc
import MindsVerif.Lemmas.ErrSuggest
/-! `text.split('\n')` as a decomposition of the TEXT: the lines before the offending one (each followed by
its `'\n'`), the line itself, the lines after it (each preceded by its `'\n'`); existence for every offset
that does not hold a `'\n'`, and uniqueness (the pieces determine `splitLines`). -/
namespace MindsVerif.Err

/-- the lines `pre`, each terminated by `'\n'` -/
def termLines : List (List Char) → List Char
  | [] => []
  | l :: r => l ++ '\n' :: termLines r

/-- the lines `post`, each preceded by `'\n'` -/
def sepLines : List (List Char) → List Char
  | [] => []
  | l :: r => '\n' :: l ++ sepLines r

theorem termLines_length : ∀ pre : List (List Char), (termLines pre).length = offs pre := by
  intro pre
  induction pre with
  | nil => rfl
  | cons l r ih => simp [termLines, offs, ih]; omega

theorem splitLines_cons_nl (r : List Char) : splitLines ('\n' :: r) = [] :: splitLines r := by
  show (match splitLines r with | [] => [[]] | l :: ls => if '\n' = '\n' then [] :: l :: ls else ('\n' :: l) :: ls) = _
  cases h : splitLines r with
  | nil => exact absurd h (splitLines_ne_nil r)
  | cons l ls => simp

theorem splitLines_cons_ne (c : Char) (r : List Char) (hc : c ≠ '\n') (l : List Char) (ls : List (List Char))
    (h : splitLines r = l :: ls) : splitLines (c :: r) = (c :: l) :: ls := by
  show (match splitLines r with | [] => [[]] | l :: ls => if c = '\n' then [] :: l :: ls else (c :: l) :: ls) = _
  rw [h]; simp [hc]

/-- no piece of `split('\n')` contains a `'\n'` -/
theorem splitLines_mem_no_nl : ∀ (text : List Char), ∀ l ∈ splitLines text, '\n' ∉ l := by
  intro text
  induction text with
  | nil => intro l hl; simp [splitLines] at hl; subst hl; simp
  | cons c r ih =>
    intro l hl
    by_cases hc : c = '\n'
    · subst hc
      rw [splitLines_cons_nl] at hl
      rcases List.mem_cons.1 hl with h | h
      · subst h; simp
      · exact ih l h
    · cases hs : splitLines r with
      | nil => exact absurd hs (splitLines_ne_nil r)
      | cons l0 ls =>
        rw [splitLines_cons_ne c r hc l0 ls hs] at hl
        rcases List.mem_cons.1 hl with h | h
        · subst h
          have := ih l0 (by rw [hs]; simp)
          intro hm
          rcases List.mem_cons.1 hm with h1 | h1
          · exact hc h1.symm
          · exact this h1
        · exact ih l (by rw [hs]; exact List.mem_cons_of_mem _ h)

/-- the text IS its pieces: any way of cutting `splitLines text` at a line gives the text back -/
theorem splitLines_text : ∀ (text : List Char) (pre : List (List Char)) (line : List Char)
    (post : List (List Char)), splitLines text = pre ++ line :: post →
    text = termLines pre ++ line ++ sepLines post := by
  intro text
  induction text with
  | nil =>
    intro pre line post h
    simp only [splitLines] at h
    cases pre with
    | nil =>
      simp only [List.nil_append, List.cons.injEq] at h
      obtain ⟨h1, h2⟩ := h
      subst h1; subst h2; rfl
    | cons p ps =>
      simp only [List.cons_append, List.cons.injEq] at h
      exact absurd h.2 (by cases ps <;> simp)
  | cons c r ih =>
    intro pre line post h
    by_cases hc : c = '\n'
    · subst hc
      rw [splitLines_cons_nl] at h
      cases pre with
      | nil =>
        simp only [List.nil_append, List.cons.injEq] at h
        obtain ⟨h1, h2⟩ := h
        subst h1
        cases post with
        | nil => exact absurd h2 (splitLines_ne_nil r)
        | cons p ps =>
          have := ih [] p ps (by simpa using h2)
          simp only [termLines, List.nil_append] at this
          simp [termLines, sepLines, this]
      | cons p ps =>
        simp only [List.cons_append, List.cons.injEq] at h
        obtain ⟨h1, h2⟩ := h
        subst h1
        have := ih ps line post h2
        simp only [termLines, List.nil_append, List.cons_append]
        rw [this]
    · cases hs : splitLines r with
      | nil => exact absurd hs (splitLines_ne_nil r)
      | cons l0 ls =>
        rw [splitLines_cons_ne c r hc l0 ls hs] at h
        cases pre with
        | nil =>
          simp only [List.nil_append, List.cons.injEq] at h
          obtain ⟨h1, h2⟩ := h
          subst h1; subst h2
          have := ih [] l0 ls (by simpa using hs)
          simp only [termLines, List.nil_append] at this ⊢
          rw [this]; simp
        | cons p ps =>
          simp only [List.cons_append, List.cons.injEq] at h
          obtain ⟨h1, h2⟩ := h
          subst h1
          have := ih (l0 :: ps) line post (by rw [hs, h2]; simp)
          simp only [termLines, List.cons_append, List.append_assoc] at this ⊢
          rw [this]

/-- every offset that does not hold a `'\n'` lies in exactly one piece, at a column inside it -/
theorem splitLines_locate : ∀ (text : List Char) (index : Nat) (c : Char), text[index]? = some c → c ≠ '\n' →
    ∃ (pre : List (List Char)) (line : List Char) (post : List (List Char)) (col : Nat),
      splitLines text = pre ++ line :: post ∧ offs pre + col = index ∧ line[col]? = some c := by
  intro text
  induction text with
  | nil => intro index c h; simp at h
  | cons d r ih =>
    intro index c h hne
    cases hs : splitLines r with
    | nil => exact absurd hs (splitLines_ne_nil r)
    | cons l0 ls =>
      by_cases hd : d = '\n'
      · subst hd
        cases index with
        | zero => simp at h; exact absurd h.symm hne
        | succ j =>
          simp only [List.getElem?_cons_succ] at h
          obtain ⟨pre, line, post, col, h1, h2, h3⟩ := ih j c h hne
          refine ⟨[] :: pre, line, post, col, ?_, ?_, h3⟩
          · rw [splitLines_cons_nl, h1]; rfl
          · simp [offs]; omega
      · rw [splitLines_cons_ne d r hd l0 ls hs]
        cases index with
        | zero =>
          simp only [List.getElem?_cons_zero, Option.some.injEq] at h
          exact ⟨[], d :: l0, ls, 0, rfl, rfl, by simp [h]⟩
        | succ j =>
          simp only [List.getElem?_cons_succ] at h
          obtain ⟨pre, line, post, col, h1, h2, h3⟩ := ih j c h hne
          rw [hs] at h1
          cases pre with
          | nil =>
            simp only [List.nil_append, List.cons.injEq] at h1
            obtain ⟨e1, e2⟩ := h1
            subst e1; subst e2
            refine ⟨[], d :: l0, ls, col + 1, rfl, ?_, by simpa using h3⟩
            simp [offs] at h2 ⊢; omega
          | cons p ps =>
            simp only [List.cons_append, List.cons.injEq] at h1
            obtain ⟨e1, e2⟩ := h1
            subst e1
            refine ⟨(d :: l0) :: ps, line, post, col, by rw [e2]; rfl, ?_, h3⟩
            simp [offs] at h2 ⊢; omega

theorem splitLines_append_nl : ∀ (l r : List Char), '\n' ∉ l → splitLines (l ++ '\n' :: r) = l :: splitLines r := by
  intro l
  induction l with
  | nil => intro r _; exact splitLines_cons_nl r
  | cons c t ih =>
    intro r h
    have hc : c ≠ '\n' := fun e => h (by simp [e])
    have ht : '\n' ∉ t := fun e => h (List.mem_cons_of_mem _ e)
    exact splitLines_cons_ne c _ hc t _ (ih r ht)

theorem splitLines_line_sep : ∀ (post : List (List Char)) (line : List Char), '\n' ∉ line → (∀ l ∈ post, '\n' ∉ l) →
    splitLines (line ++ sepLines post) = line :: post := by
  intro post
  induction post with
  | nil => intro line h _; simp [sepLines, splitLines_no_nl _ h]
  | cons p ps ih =>
    intro line h hp
    simp only [sepLines, List.cons_append]
    rw [splitLines_append_nl _ _ h, ih p (hp p (by simp)) (fun l hl => hp l (List.mem_cons_of_mem _ hl))]

/-- uniqueness: `'\n'`-free pieces put together with `'\n'` are what `split('\n')` returns -/
theorem splitLines_of_pieces : ∀ (pre : List (List Char)) (line : List Char) (post : List (List Char)),
    (∀ l ∈ pre ++ line :: post, '\n' ∉ l) →
    splitLines (termLines pre ++ line ++ sepLines post) = pre ++ line :: post := by
  intro pre
  induction pre with
  | nil =>
    intro line post h
    simp only [termLines, List.nil_append]
    exact splitLines_line_sep post line (h line (by simp)) (fun l hl => h l (by simp [hl]))
  | cons p ps ih =>
    intro line post h
    simp only [termLines, List.cons_append, List.append_assoc]
    rw [splitLines_append_nl _ _ (h p (by simp))]
    have := ih line post (fun l hl => h l (List.mem_cons_of_mem _ hl))
    simp only [List.append_assoc] at this
    rw [this]

/-- an offset lies in one line only: two cuts of the same list of lines that put the same offset inside their
middle line cut at the same place -/
theorem offs_locate_unique : ∀ (pre pre' : List (List Char)) (line line' : List Char) (post post' : List (List Char))
    (col col' : Nat), pre ++ line :: post = pre' ++ line' :: post' → offs pre + col = offs pre' + col' →
    col < line.length → col' < line'.length → pre = pre' := by
  intro pre
  induction pre with
  | nil =>
    intro pre' line line' post post' col col' hs ho hc hc'
    cases pre' with
    | nil => rfl
    | cons b bs =>
      simp only [List.nil_append, List.cons_append, List.cons.injEq] at hs
      have : line.length = b.length := by rw [hs.1]
      simp [offs] at ho; omega
  | cons a as ih =>
    intro pre' line line' post post' col col' hs ho hc hc'
    cases pre' with
    | nil =>
      simp only [List.nil_append, List.cons_append, List.cons.injEq] at hs
      have : a.length = line'.length := by rw [hs.1]
      simp [offs] at ho; omega
    | cons b bs =>
      simp only [List.cons_append, List.cons.injEq] at hs
      obtain ⟨e1, e2⟩ := hs
      subst e1
      simp only [offs] at ho
      rw [ih bs line line' post post' col col' e2 (by omega) hc hc']

end MindsVerif.Err
