import MindsVerif.Model.Err
/-! Caret arithmetic of `ErrorHandling.error_location` (T19.1) for every token layout that
satisfies the lexer position invariants. -/
namespace MindsVerif.Err

/-- lexer position invariants, relative to a lower bound `n` for the line number and `e` for the
offset: line numbers never decrease, and every token starts at or after the end of the
(rewritten) value of its predecessor -/
def chainB : Nat → Nat → List Tok → Bool
  | _, _, [] => true
  | n, e, t :: ts => decide (n ≤ t.lineno) && decide (e ≤ t.index) &&
      chainB t.lineno (t.index + t.value.length) ts

/-- decidable hypothesis of the caret theorem -/
def layoutOK (toks : List Tok) : Bool := chainB 0 0 toks

def keys (d : Dict) : List Nat := d.map (·.1)

/-- length of the last line of `d` (`s` if there is none): the `shift` after looping over `d` -/
def lastLen : Nat → Dict → Nat
  | s, [] => s
  | _, (_, L) :: r => lastLen L.length r

/-- the `shift` in force when the loop reaches key `k` -/
def prevLen : Nat → Dict → Nat → Nat
  | s, [], _ => s
  | s, (k', L) :: r, k => if k' = k then s else prevLen L.length r k

def pos : Dict → Nat → Nat
  | [], _ => 0
  | (k', _) :: r, k => if k' = k then 0 else pos r k + 1

def shifted : Nat → Dict → List (List Char)
  | _, [] => []
  | s, (_, L) :: r => L.drop s :: shifted L.length r

/-- `L` carries `t.value` at offset `t.index` -/
def ValAt (L : List Char) (t : Tok) : Prop := ∃ a b, L = a ++ t.value ++ b ∧ a.length = t.index

theorem ValAt.slice {L : List Char} {t : Tok} (h : ValAt L t) :
    (L.drop t.index).take t.value.length = t.value := by
  obtain ⟨a, b, rfl, ha⟩ := h
  rw [← ha, List.append_assoc, List.drop_left, List.take_left]

theorem ValAt.len {L : List Char} {t : Tok} (h : ValAt L t) : t.index + t.value.length ≤ L.length := by
  obtain ⟨a, b, rfl, ha⟩ := h
  simp; omega

theorem mem_keys_cons {k k' : Nat} {v : List Char} {a : Dict} :
    k ∈ keys ((k', v) :: a) ↔ k = k' ∨ k ∈ keys a := by
  simp [keys]

theorem get_append_present {a b : Dict} {k : Nat} (h : k ∈ keys a) :
    Dict.get (a ++ b) k = Dict.get a k := by
  induction a with
  | nil => simp [keys] at h
  | cons p a ih =>
    obtain ⟨k', v⟩ := p
    simp only [List.cons_append, Dict.get]
    by_cases hk : k' = k
    · simp [hk]
    · simp only [hk, if_false]
      apply ih
      rcases mem_keys_cons.1 h with h | h
      · exact absurd h.symm hk
      · exact h

theorem get_append_absent {a b : Dict} {k : Nat} (h : k ∉ keys a) :
    Dict.get (a ++ b) k = Dict.get b k := by
  induction a with
  | nil => rfl
  | cons p a ih =>
    obtain ⟨k', v⟩ := p
    have h' := mt mem_keys_cons.2 h
    simp only [not_or] at h'
    simp only [List.cons_append, Dict.get]
    have : ¬ k' = k := fun e => h'.1 e.symm
    simp only [this, if_false]
    exact ih h'.2

theorem set_append_absent {a b : Dict} {k : Nat} {v : List Char} (h : k ∉ keys a) :
    Dict.set (a ++ b) k v = a ++ Dict.set b k v := by
  induction a with
  | nil => rfl
  | cons p a ih =>
    obtain ⟨k', v'⟩ := p
    have h' := mt mem_keys_cons.2 h
    simp only [not_or] at h'
    simp only [List.cons_append, Dict.set]
    have : ¬ k' = k := fun e => h'.1 e.symm
    simp only [this, if_false]
    rw [ih h'.2]

theorem prevLen_append_present {a b : Dict} {k : Nat} (h : k ∈ keys a) (s : Nat) :
    prevLen s (a ++ b) k = prevLen s a k := by
  induction a generalizing s with
  | nil => simp [keys] at h
  | cons p a ih =>
    obtain ⟨k', v⟩ := p
    simp only [List.cons_append, prevLen]
    by_cases hk : k' = k
    · simp [hk]
    · simp only [hk, if_false]
      apply ih
      rcases mem_keys_cons.1 h with h | h
      · exact absurd h.symm hk
      · exact h

theorem prevLen_append_absent {a b : Dict} {k : Nat} (h : k ∉ keys a) (s : Nat) :
    prevLen s (a ++ b) k = prevLen (lastLen s a) b k := by
  induction a generalizing s with
  | nil => rfl
  | cons p a ih =>
    obtain ⟨k', v⟩ := p
    have h' := mt mem_keys_cons.2 h
    simp only [not_or] at h'
    simp only [List.cons_append, prevLen, lastLen]
    have : ¬ k' = k := fun e => h'.1 e.symm
    simp only [this, if_false]
    exact ih h'.2 _

theorem lastLen_append_single (s : Nat) (a : Dict) (k : Nat) (L : List Char) :
    lastLen s (a ++ [(k, L)]) = L.length := by
  induction a generalizing s with
  | nil => rfl
  | cons p a ih => obtain ⟨k', v⟩ := p; simp only [List.cons_append, lastLen]; exact ih _

theorem keys_append (a b : Dict) : keys (a ++ b) = keys a ++ keys b := by simp [keys]

/-- what is known of a token `u` already placed into `d` -/
structure Placed (d : Dict) (u : Tok) : Prop where
  mem : u.lineno ∈ keys d
  val : ValAt (Dict.get d u.lineno) u
  shift : prevLen 0 d u.lineno ≤ u.index

/-- invariant of the building loop: keys strictly increasing; the last line is the current one
and ends exactly at `e`; line ends never decrease -/
structure DS (d : Dict) (n e : Nat) : Prop where
  sorted : (keys d).Pairwise (· < ·)
  last : d = [] ∨ ∃ d0 L, d = d0 ++ [(n, L)] ∧ L.length = e ∧ lastLen 0 d0 ≤ e

theorem place_of_le {L : List Char} {t : Tok} (h : L.length ≤ t.index) :
    place L t = L ++ List.replicate (t.index - L.length) ' ' ++ t.value := by
  unfold place
  have : ¬ L.length > t.index := by omega
  simp only [this, if_false]

theorem valAt_place {L : List Char} {t : Tok} (h : L.length ≤ t.index) : ValAt (place L t) t := by
  rw [place_of_le h]
  exact ⟨L ++ List.replicate (t.index - L.length) ' ', [], by simp, by simp; omega⟩

theorem place_length {L : List Char} {t : Tok} (h : L.length ≤ t.index) :
    (place L t).length = t.index + t.value.length := by
  rw [place_of_le h]; simp; omega

theorem ValAt.append_right {L : List Char} {u : Tok} (h : ValAt L u) (x : List Char) :
    ValAt (L ++ x) u := by
  obtain ⟨a, b, rfl, ha⟩ := h
  exact ⟨a, b ++ x, by simp, ha⟩

theorem not_mem_keys_of_lt {d0 : Dict} {n : Nat} (h : ∀ x ∈ keys d0, x < n) : n ∉ keys d0 :=
  fun hm => Nat.lt_irrefl _ (h n hm)

/-- one iteration of the building loop -/
theorem addTok_step {d : Dict} {n e : Nat} {t : Tok} (hd : DS d n e) (hn : n ≤ t.lineno)
    (he : e ≤ t.index) :
    DS (addTok d t) t.lineno (t.index + t.value.length) ∧ Placed (addTok d t) t ∧
      ∀ u, Placed d u → Placed (addTok d t) u := by
  rcases hd.last with rfl | ⟨d0, L, rfl, hL, hprev⟩
  · -- first token
    have h0 : ([] : List Char).length ≤ t.index := Nat.zero_le _
    refine ⟨⟨by simp [addTok, Dict.get, Dict.set, keys], Or.inr ⟨[], _, rfl, ?_, ?_⟩⟩, ?_, ?_⟩
    · simpa [addTok, Dict.get, Dict.set] using place_length h0
    · simp [lastLen]
    · exact ⟨by simp [addTok, Dict.get, Dict.set, keys],
        by simpa [addTok, Dict.get, Dict.set] using valAt_place h0,
        by simp [addTok, Dict.get, Dict.set, prevLen]⟩
    · intro u hu; exact absurd hu.mem (by simp [keys])
  · have hs := hd.sorted
    rw [keys_append, List.pairwise_append] at hs
    obtain ⟨hs0, _, hs1⟩ := hs
    have hlt : ∀ x ∈ keys d0, x < n := fun x hx => hs1 x hx n (by simp [keys])
    have hnot : n ∉ keys d0 := not_mem_keys_of_lt hlt
    by_cases hsame : t.lineno = n
    · -- same line: the last entry is extended
      have hLle : L.length ≤ t.index := by omega
      have hget : Dict.get (d0 ++ [(n, L)]) t.lineno = L := by
        rw [hsame, get_append_absent hnot]; simp [Dict.get]
      have hset : addTok (d0 ++ [(n, L)]) t = d0 ++ [(n, place L t)] := by
        unfold addTok
        rw [hget, hsame, set_append_absent hnot]; simp [Dict.set]
      rw [hset]
      have hk : keys (d0 ++ [(n, place L t)]) = keys (d0 ++ [(n, L)]) := by simp [keys]
      refine ⟨⟨by rw [hk]; exact hd.sorted, Or.inr ⟨d0, _, by rw [hsame], place_length hLle, by omega⟩⟩, ?_, ?_⟩
      · refine ⟨by rw [hsame]; simp [keys], ?_, ?_⟩
        · rw [hsame, get_append_absent hnot]; simpa [Dict.get] using valAt_place hLle
        · rw [hsame, prevLen_append_absent hnot]; simp [prevLen]; omega
      · intro u hu
        by_cases hul : u.lineno = n
        · refine ⟨by rw [hul]; simp [keys], ?_, ?_⟩
          · have hv := hu.val
            rw [hul, get_append_absent hnot] at hv ⊢
            simp only [Dict.get, if_true] at hv ⊢
            rw [place_of_le hLle, List.append_assoc]
            exact hv.append_right _
          · have := hu.shift
            rw [hul, prevLen_append_absent hnot] at this ⊢
            simpa [prevLen] using this
        · have hm : u.lineno ∈ keys d0 := by
            have := hu.mem
            rw [keys_append] at this
            simp [keys] at this
            rcases this with h | h
            · simpa [keys] using h
            · exact absurd h hul
          refine ⟨by rw [keys_append]; exact List.mem_append_left _ hm, ?_, ?_⟩
          · have := hu.val
            rw [get_append_present hm] at this ⊢; exact this
          · have := hu.shift
            rw [prevLen_append_present hm] at this ⊢; exact this
    · -- a new line is opened
      have hgt : n < t.lineno := by omega
      have hnotk : t.lineno ∉ keys (d0 ++ [(n, L)]) := by
        rw [keys_append]
        intro hm
        rcases List.mem_append.1 hm with h | h
        · have := hlt _ h; omega
        · simp [keys] at h; omega
      have h0 : ([] : List Char).length ≤ t.index := Nat.zero_le _
      have hget : Dict.get (d0 ++ [(n, L)]) t.lineno = [] := by
        have := get_append_absent (b := []) hnotk
        simpa [Dict.get] using this
      have hset : addTok (d0 ++ [(n, L)]) t = (d0 ++ [(n, L)]) ++ [(t.lineno, place [] t)] := by
        unfold addTok
        rw [hget]
        have := set_append_absent (b := []) (v := place [] t) hnotk
        simpa [Dict.set] using this
      rw [hset]
      refine ⟨⟨?_, Or.inr ⟨_, _, rfl, place_length h0, ?_⟩⟩, ?_, ?_⟩
      · rw [keys_append, List.pairwise_append]
        refine ⟨hd.sorted, by simp [keys], ?_⟩
        intro x hx y hy
        simp [keys] at hy
        subst hy
        rw [keys_append] at hx
        rcases List.mem_append.1 hx with h | h
        · have := hlt _ h; omega
        · simp [keys] at h; omega
      · rw [lastLen_append_single]; omega
      · refine ⟨by rw [keys_append]; simp [keys], ?_, ?_⟩
        · rw [get_append_absent hnotk]; simpa [Dict.get] using valAt_place h0
        · rw [prevLen_append_absent hnotk, lastLen_append_single]; simp [prevLen]; omega
      · intro u hu
        refine ⟨by rw [keys_append]; exact List.mem_append_left _ hu.mem, ?_, ?_⟩
        · rw [get_append_present hu.mem]; exact hu.val
        · rw [prevLen_append_present hu.mem]; exact hu.shift

/-- line number and end offset of the last token (`n`, `e` if there is none) -/
def endOf : Nat → Nat → List Tok → Nat × Nat
  | n, e, [] => (n, e)
  | _, _, t :: ts => endOf t.lineno (t.index + t.value.length) ts

theorem endOf_getLast : ∀ (toks : List Tok) (n e : Nat) (l : Tok), toks.getLast? = some l →
    endOf n e toks = (l.lineno, l.index + l.value.length) := by
  intro toks
  induction toks with
  | nil => intro n e l h; simp at h
  | cons t ts ih =>
    intro n e l h
    cases ts with
    | nil => simp at h; subst h; rfl
    | cons t2 ts2 =>
      simp only [endOf]
      have h' : (t2 :: ts2).getLast? = some l := by
        rw [List.getLast?_cons_cons] at h; exact h
      have := ih t.lineno (t.index + t.value.length) l h'
      simpa [endOf] using this

/-- the building loop, from any state that satisfies the invariant -/
theorem foldl_addTok_spec : ∀ (toks : List Tok) (d : Dict) (n e : Nat), DS d n e →
    chainB n e toks = true →
    DS (toks.foldl addTok d) (endOf n e toks).1 (endOf n e toks).2 ∧
    (∀ u, Placed d u → Placed (toks.foldl addTok d) u) ∧
    (∀ u ∈ toks, Placed (toks.foldl addTok d) u) := by
  intro toks
  induction toks with
  | nil => intro d n e hd _; exact ⟨hd, fun _ h => h, by simp⟩
  | cons t ts ih =>
    intro d n e hd hc
    simp only [chainB, Bool.and_eq_true, decide_eq_true_eq] at hc
    obtain ⟨⟨hn, he⟩, hc'⟩ := hc
    obtain ⟨hd', ht, hold⟩ := addTok_step hd hn he
    obtain ⟨hfin, hkeep, hnew⟩ := ih _ _ _ hd' hc'
    simp only [List.foldl_cons, endOf]
    refine ⟨hfin, fun u hu => hkeep u (hold u hu), ?_⟩
    intro u hu
    rcases List.mem_cons.1 hu with rfl | hu
    · exact hkeep _ ht
    · exact hnew u hu

/-! ### the shifting loop -/

theorem shiftLoop_absent (k : Nat) : ∀ (d : Dict) (s : Loc), k ∉ keys d →
    shiftLoop k d s = ⟨s.lines ++ shifted s.shift d, lastLen s.shift d, s.errLine, s.errIdx, s.i + d.length⟩ := by
  intro d
  induction d with
  | nil => intro s _; simp [shiftLoop, shifted, lastLen]
  | cons p r ih =>
    intro s h
    obtain ⟨k', L⟩ := p
    have h' := mt mem_keys_cons.2 h
    simp only [not_or] at h'
    have hk : ¬ k' = k := fun e => h'.1 e.symm
    simp only [shiftLoop, hk, if_false]
    rw [ih _ h'.2]
    simp [shifted, lastLen, List.append_assoc]
    omega

theorem shiftLoop_present (k : Nat) : ∀ (d : Dict) (s : Loc), k ∈ keys d → (keys d).Nodup →
    shiftLoop k d s = ⟨s.lines ++ shifted s.shift d, lastLen s.shift d, s.i + pos d k,
      s.errIdx - (prevLen s.shift d k : Nat), s.i + d.length⟩ := by
  intro d
  induction d with
  | nil => intro s h; simp [keys] at h
  | cons p r ih =>
    intro s h hnd
    obtain ⟨k', L⟩ := p
    have hnd' : k' ∉ keys r ∧ (keys r).Nodup := by simpa [keys] using hnd
    by_cases hk : k' = k
    · subst hk
      simp only [shiftLoop, if_true]
      rw [shiftLoop_absent _ _ _ hnd'.1]
      simp [shifted, lastLen, pos, prevLen, List.append_assoc]
      omega
    · have hr : k ∈ keys r := by
        rcases mem_keys_cons.1 h with h | h
        · exact absurd h.symm hk
        · exact h
      simp only [shiftLoop, hk, if_false]
      rw [ih _ hr hnd'.2]
      simp [shifted, lastLen, pos, prevLen, hk, List.append_assoc]
      omega

theorem take_shifted (k : Nat) : ∀ (d : Dict) (s : Nat), k ∈ keys d →
    (shifted s d).take (pos d k + 1) =
        (shifted s d).take (pos d k) ++ [(Dict.get d k).drop (prevLen s d k)] ∧
      ((shifted s d).take (pos d k)).length = pos d k := by
  intro d
  induction d with
  | nil => intro s h; simp [keys] at h
  | cons p r ih =>
    intro s h
    obtain ⟨k', L⟩ := p
    by_cases hk : k' = k
    · subst hk; simp [shifted, pos, Dict.get, prevLen]
    · have hr : k ∈ keys r := by
        rcases mem_keys_cons.1 h with h | h
        · exact absurd h.symm hk
        · exact h
      obtain ⟨h1, h2⟩ := ih L.length hr
      simp only [shifted, pos, hk, if_false, Dict.get, prevLen, List.take_succ_cons, List.cons_append,
        List.length_cons]
      exact ⟨by rw [h1], by rw [h2]⟩

theorem nodup_of_sorted {l : List Nat} (h : l.Pairwise (· < ·)) : l.Nodup :=
  h.imp (fun hab => Nat.ne_of_lt hab)

/-- shape of the message for a line `k` present in the dict -/
theorem location_shape (d : Dict) (k : Nat) (idx : Int) (hk : k ∈ keys d) (hnd : (keys d).Nodup) :
    let s := shiftLoop k d ⟨[], 0, 0, idx, 0⟩
    let first := if s.errLine > 1 then s.errLine - 2 else 0
    s.errIdx = idx - (prevLen 0 d k : Nat) ∧
    ∃ ctx : List (List Char), ctx.length ≤ 2 ∧
      ((s.lines.take (s.errLine + 1)).drop first).map (fun l => '>' :: l) =
        ctx ++ ['>' :: (Dict.get d k).drop (prevLen 0 d k)] := by
  intro s first
  have hs : s = ⟨[] ++ shifted 0 d, lastLen 0 d, 0 + pos d k, idx - (prevLen 0 d k : Nat), 0 + d.length⟩ :=
    shiftLoop_present k d _ hk hnd
  obtain ⟨h1, h2⟩ := take_shifted k d 0 hk
  have hl : s.lines = shifted 0 d := by rw [hs]; simp
  have he : s.errLine = pos d k := by rw [hs]; simp
  refine ⟨by rw [hs], ?_⟩
  have hf : first ≤ ((shifted 0 d).take (pos d k)).length := by
    rw [h2]; show (if s.errLine > 1 then s.errLine - 2 else 0) ≤ _
    rw [he]; split <;> omega
  refine ⟨(((shifted 0 d).take (pos d k)).drop first).map (fun l => '>' :: l), ?_, ?_⟩
  · simp only [List.length_map, List.length_drop, h2]
    show pos d k - (if s.errLine > 1 then s.errLine - 2 else 0) ≤ 2
    rw [he]; split <;> omega
  · rw [hl, he, h1, List.drop_append_of_le_length hf]
    simp

/-! ### the part-by-part variant (live code, repo 2c1674c) when no value contains a newline -/

theorem splitLines_no_nl : ∀ v : List Char, '\n' ∉ v → splitLines v = [v] := by
  intro v
  induction v with
  | nil => intro _; rfl
  | cons c r ih =>
    intro h
    have hc : c ≠ '\n' := fun e => h (by simp [e])
    have hr : '\n' ∉ r := fun e => h (List.mem_cons_of_mem _ e)
    simp [splitLines, ih hr, hc]

theorem addTokV_eq (split : Bool) (d : Dict) (t : Tok) (h : '\n' ∉ t.value) :
    addTokV split d t = addTok d t := by
  unfold addTokV
  cases split with
  | false => rfl
  | true =>
    simp only [if_true, splitLines_no_nl _ h, addParts]
    rfl

theorem foldl_addTokV_eq (split : Bool) : ∀ (toks : List Tok) (d : Dict),
    (∀ t ∈ toks, '\n' ∉ t.value) → toks.foldl (addTokV split) d = toks.foldl addTok d := by
  intro toks
  induction toks with
  | nil => intro d _; rfl
  | cons t ts ih =>
    intro d h
    simp only [List.foldl_cons]
    rw [addTokV_eq split d t (h t (by simp))]
    exact ih _ (fun u hu => h u (List.mem_cons_of_mem _ hu))

theorem errLenV_eq (split : Bool) (b : Tok) (h : '\n' ∉ b.value) : errLenV split b = b.value.length := by
  unfold errLenV
  cases split with
  | false => rfl
  | true => simp [splitLines_no_nl _ h]

/-- with no newline inside any value, both variants of `error_location` print the same message -/
theorem errorLocationV_eq (split : Bool) (toks : List Tok) (bad : Option Tok)
    (h : ∀ t ∈ toks, '\n' ∉ t.value) (hb : ∀ b, bad = some b → '\n' ∉ b.value) :
    errorLocationV split toks bad = errorLocation toks bad := by
  unfold errorLocationV errorLocation
  have hd : buildV split toks = build toks := foldl_addTokV_eq split toks [] h
  rw [hd]
  cases bad with
  | none => rfl
  | some b => simp only [errLenV_eq split b (hb b rfl)]

/-! ### the part-by-part variant in general: it is the one-piece loop over "virtual tokens"
(one per `'\n'`-separated part of a value), so the caret theorem applies with NO hypothesis about
newlines inside values -/

/-- the parts of a value as tokens of their own: part `n` on line `lineno + n`, at the absolute
offset where it starts -/
def partToksAux (ty : Nat) : Nat → Nat → List (List Char) → List Tok
  | _, _, [] => []
  | ln, ix, p :: r => ⟨ty, p, ln, ix⟩ :: partToksAux ty (ln + 1) (ix + p.length + 1) r

def partToks (t : Tok) : List Tok := partToksAux t.type t.lineno t.index (splitLines t.value)

/-- the virtual token list -/
def virt (toks : List Tok) : List Tok := toks.flatMap partToks

/-- what the carets are measured on: the first part of the bad token's value -/
def headPart (b : Tok) : Tok := ⟨b.type, (splitLines b.value).headD [], b.lineno, b.index⟩

theorem addParts_eq (ty : Nat) : ∀ (parts : List (List Char)) (d : Dict) (ln ix : Nat),
    addParts d ln ix parts = (partToksAux ty ln ix parts).foldl addTok d := by
  intro parts
  induction parts with
  | nil => intro d ln ix; rfl
  | cons p r ih => intro d ln ix; simp only [addParts, partToksAux, List.foldl_cons]; rw [ih]; rfl

theorem foldl_addTokV_true : ∀ (toks : List Tok) (d : Dict),
    toks.foldl (addTokV true) d = (virt toks).foldl addTok d := by
  intro toks
  induction toks with
  | nil => intro d; rfl
  | cons t ts ih =>
    intro d
    simp only [List.foldl_cons, virt, List.flatMap_cons, List.foldl_append]
    rw [ih]
    simp only [addTokV, if_true, virt]
    rw [addParts_eq t.type]
    rfl

theorem splitLines_ne_nil : ∀ v : List Char, splitLines v ≠ [] := by
  intro v
  cases v with
  | nil => simp [splitLines]
  | cons c r =>
    unfold splitLines
    cases splitLines r with
    | nil => simp
    | cons l ls => by_cases h : c = '\n' <;> simp [h]

theorem headPart_mem {toks : List Tok} {b : Tok} (hb : b ∈ toks) : headPart b ∈ virt toks := by
  unfold virt
  rw [List.mem_flatMap]
  refine ⟨b, hb, ?_⟩
  unfold partToks headPart
  cases h : splitLines b.value with
  | nil => exact absurd h (splitLines_ne_nil _)
  | cons l ls => simp [partToksAux]

/-- the part-by-part `error_location` IS the one-piece `error_location` of the virtual tokens -/
theorem errorLocationV_true_eq (toks : List Tok) (bad : Option Tok) :
    errorLocationV true toks bad = errorLocation (virt toks) (bad.map headPart) := by
  unfold errorLocationV errorLocation
  have hd : buildV true toks = build (virt toks) := foldl_addTokV_true toks []
  rw [hd]
  cases bad with
  | none => rfl
  | some b => rfl

end MindsVerif.Err
