import MindsVerif.Lemmas.LRSound
/-! T19.2a — what the recorded `error_info` says about the token list (valid tables). -/
namespace MindsVerif.LR

theorem doReduce_err {T : Tables} {c : Cfg} {p : Nat} :
    match doReduce T c p with
    | .inl c' => c'.err = c.err
    | .inr (.none_ _ _) => False
    | .inr _ => True := by
  unfold doReduce
  cases T.prods.get? p with
  | none => simp
  | some pr =>
    simp only
    by_cases hl : c.st.length < pr.rhs.length
    · simp [hl]
    · simp only [hl, if_false]
      cases T.rows.get? (topState (c.st.drop pr.rhs.length)) with
      | none => simp
      | some r => simp only; cases r.goto pr.lhs <;> simp

theorem fetch_err {c : Cfg} :
    match fetch false c with
    | .inl (c', _) => c'.err = c.err ∧ c'.errcount = c.errcount ∧ c'.errok = c.errok
    | .inr (.none_ _ _) => False
    | .inr _ => True := by
  unfold fetch
  cases c.la with
  | some l => simp
  | none =>
    simp only
    cases c.las with
    | cons l ls => simp
    | nil => simp only; cases c.input <;> simp

/-- once the error callback is disarmed (`errorcount ≠ 0`, `errorok` false) a step never
changes the recorded error info, and a `None` result carries it -/
theorem step_keeps_err {T : Tables} {c : Cfg} (h : (c.errcount == 0 || c.errok) = false) :
    match step T .drain false c with
    | .inl c' => c'.err = c.err
    | .inr (.none_ e _) => e = c.err
    | .inr _ => True := by
  unfold step
  simp only
  cases hr : T.rows.get? (topState c.st) with
  | none => simp
  | some row =>
    simp only
    cases hd : row.dflt with
    | some p =>
      simp only
      have := @doReduce_err T c p
      cases hq : doReduce T c p with
      | inl c' => rw [hq] at this; simpa using this
      | inr o => rw [hq] at this; cases o <;> simp_all
    | none =>
      simp only
      have hf := @fetch_err c
      cases hq : fetch false c with
      | inr o => rw [hq] at hf; cases o <;> simp_all
      | inl pr =>
        obtain ⟨c1, l⟩ := pr
        rw [hq] at hf
        simp only at hf ⊢
        obtain ⟨he, h1, h2⟩ := hf
        have h' : (c1.errcount == 0 || c1.errok) = false := by rw [h1, h2]; exact h
        cases ha : row.action l.term with
        | shift s' => simp [doShift, he]
        | reduce p =>
          simp only
          have := @doReduce_err T c1 p
          cases hq2 : doReduce T c1 p with
          | inl c' => rw [hq2] at this; simp only at this ⊢; rw [this, he]
          | inr o => rw [hq2] at this; cases o <;> simp_all
        | accept =>
          simp only [doAccept]
          cases c1.st with
          | nil => simp [he]
          | cons e r => simp
        | none =>
          simp only [doError, errCallback, h', Bool.false_eq_true, if_false]
          unfold recover
          simp only
          by_cases g1 : (c1.st.isEmpty && l != .eof) = true
          · simp [g1, he]
          · simp only [g1]
            by_cases g2 : l = .eof
            · simp [g2, he]
            · simp only [g2, if_false]
              by_cases g3 : (l != .err) = true
              · simp only [g3, if_true]
                by_cases g4 : topIsErr c1.st = true
                · simp [g4, he]
                · simp [g4, he]
              · simp [g3, he]

theorem recover_err (c : Cfg) (l : LA) :
    match recover c l with
    | .inl c' => c'.err = c.err
    | .inr (.none_ e _) => e = c.err
    | .inr _ => True := by
  unfold recover
  by_cases g1 : (c.st.isEmpty && l != .eof) = true
  · simp [g1]
  · simp only [g1]
    by_cases g2 : l = .eof
    · simp [g2]
    · simp only [g2, if_false]
      by_cases g3 : (l != .err) = true
      · simp only [g3, if_true]
        by_cases g4 : topIsErr c.st = true
        · simp [g4]
        · simp [g4]
      · simp [g3]

/-- what the recorded error info says about the token list: at the moment of the error the parse
stack was a valid path of the automaton whose frontier is exactly the tokens before the bad one,
in the reported state, which has no default reduction and no action on the bad token -/
def ErrAtSt (T : Tables) (toks : List Nat) (st : Stack) (e : ErrInfo) : Prop :=
  ∃ row, Path T st ∧ topState st = e.state ∧ T.rows.get? e.state = some row ∧ row.dflt = none ∧
    match e.bad with
    | some k => k < toks.length ∧ yieldStack st = toks.take k ∧
        ∀ t, toks[k]? = some t → row.action t = .none
    | none => yieldStack st = toks ∧ row.action 0 = .none

def ErrAt (T : Tables) (toks : List Nat) (e : ErrInfo) : Prop := ∃ st, ErrAtSt T toks st e

/-- a step from a clean configuration either records no error or records one that satisfies `ErrAt` -/
theorem clean_step_err (hv : Valid T) {toks : List Nat} {c : Cfg} (hc : Clean T toks false c) :
    match step T .drain false c with
    | .inl c' => c'.err = none ∨ ∃ e, c'.err = some e ∧ ErrAtSt T toks c.st e
    | .inr (.none_ e _) => ∀ e', e = some e' → ErrAtSt T toks c.st e'
    | .inr _ => True := by
  obtain ⟨r, hr⟩ := path_top_row hv hc.path
  unfold step
  simp only [hr]
  cases hd : r.dflt with
  | some p =>
    simp only
    obtain ⟨c', h1, h2⟩ := clean_reduce hv hc hr ((rowFacts hv hr).dflt p hd)
    rw [h1]; exact Or.inl h2.noerr
  | none =>
    simp only
    rcases clean_fetch hc with ⟨lg, hf⟩ | ⟨c1, l, hf, hc1, hla1, hst1⟩
    · rw [hf]; simp
    · rw [hf]
      simp only
      have hr1 : T.rows.get? (topState c1.st) = some r := by rw [hst1]; exact hr
      cases hact : r.action l.term with
      | shift s' => simp [doShift, hc1.noerr]
      | reduce p =>
        simp only
        obtain ⟨c', h1, h2⟩ := clean_reduce hv hc1 hr1 (action_reduce hact)
        rw [h1]; exact Or.inl h2.noerr
      | accept =>
        simp only [doAccept]
        cases c1.st with
        | nil => simp [hc1.noerr]
        | cons e rest => simp
      | none =>
        simp only
        have hcnt : (c1.errcount == 0 || c1.errok) = true := by simp [hc1.cnt]
        unfold doError errCallback
        simp only [hcnt, if_true, Bool.false_eq_true, if_false]
        by_cases hle : l = .eof
        · subst hle
          simp only [if_true]
          intro e' he'
          cases he'
          obtain ⟨hin, _⟩ := hc1.eof hla1
          rw [← hst1]
          refine ⟨r, hc1.path, rfl, hr1, hd, ?_⟩
          have hy := hc1.yld
          rw [hla1, hin] at hy
          simp only [LA.term] at hact
          exact ⟨by simpa [laToks] using hy, hact⟩
        · simp only [hle, if_false]
          -- the recorded info
          have hE : ErrAtSt T toks c.st ⟨some (c1.consumed - 1), topState c.st⟩ := by
            rw [← hst1]
            cases l with
            | eof => exact absurd rfl hle
            | err => exact absurd hla1 hc1.la
            | tok t =>
              have hy := hc1.yld
              rw [hla1] at hy
              simp only [laToks] at hy
              have hlen := congrArg List.length hy
              simp at hlen
              have hcons := hc1.cons
              have hk : c1.consumed - 1 = (yieldStack c1.st).length := by omega
              have htoks : toks = yieldStack c1.st ++ ([t] ++ c1.input) := by
                rw [← hy]; simp
              refine ⟨r, hc1.path, rfl, hr1, hd, ?_⟩
              simp only [LA.term] at hact
              refine ⟨by omega, ?_, ?_⟩
              · rw [hk, htoks, List.take_left]
              · intro t' ht'
                rw [hk, htoks] at ht'
                simp at ht'
                rw [← ht']; exact hact
          obtain ⟨cE, hcE⟩ : ∃ cE : Cfg, cE = { c1 with errcount := 3, errok := false, input := [], err := some ⟨some (c1.consumed - 1), topState c.st⟩ } := ⟨_, rfl⟩
          have hcE' : cE.err = some ⟨some (c1.consumed - 1), topState c.st⟩ := by rw [hcE]
          rw [← hcE]
          have hrec := recover_err cE l
          cases hq : recover cE l with
          | inl c' =>
            rw [hq] at hrec
            simp only at hrec ⊢
            exact Or.inr ⟨_, hrec.trans hcE', hE⟩
          | inr o =>
            rw [hq] at hrec
            cases o with
            | none_ e lg =>
              simp only at hrec ⊢
              intro e' he'
              rw [hrec, hcE'] at he'
              cases he'; exact hE
            | _ => trivial

theorem run_post_err (hv : Valid T) : ∀ (fuel : Nat) (c : Cfg), PostErr T c →
    ∀ e log, run T .drain false fuel c = .none_ e log → e = c.err := by
  intro fuel
  induction fuel with
  | zero => intro c _ e log h; simp [run] at h
  | succ n ih =>
    intro c hc e log h
    have hk := @step_keeps_err T c (by simp [hc.cnt, hc.ok])
    have hp := step_post hv hc
    unfold run at h
    cases hs : step T .drain false c with
    | inl c' =>
      rw [hs] at h hk hp
      simp only at h hk hp
      rw [← hk]; exact ih c' hp e log h
    | inr o =>
      rw [hs] at h hk
      simp only at h hk
      subst h
      exact hk

theorem run_errAt (hv : Valid T) (toks : List Nat) : ∀ (fuel : Nat) (c : Cfg), Clean T toks false c →
    ∀ e log, run T .drain false fuel c = .none_ (some e) log → ErrAt T toks e := by
  intro fuel
  induction fuel with
  | zero => intro c _ e log h; simp [run] at h
  | succ n ih =>
    intro c hc e log h
    have hs1 := step_clean hv .drain hc
    have hs2 := clean_step_err hv hc
    unfold run at h
    cases hs : step T .drain false c with
    | inl c' =>
      rw [hs] at h hs1 hs2
      simp only at h hs1 hs2
      rcases hs1 with hcl | ⟨_, _, hpost⟩
      · exact ih c' hcl e log h
      · have := run_post_err hv n c' hpost _ _ h
        rcases hs2 with h0 | ⟨e0, he0, hE⟩
        · rw [h0] at this; cases this
        · rw [he0] at this; cases this; exact ⟨_, hE⟩
    | inr o =>
      rw [hs] at h hs2
      simp only at h hs2
      subst h
      exact ⟨_, hs2 e rfl⟩

/-- T19.2a for `parse` -/
theorem parse_errAt (hv : T.valid = true) (toks : List Nat) (h0 : ∀ t ∈ toks, t ≠ 0) (fuel : Nat)
    (e : ErrInfo) (log : List Nat) (h : parse T .drain false toks fuel = .none_ (some e) log) :
    ErrAt T toks e :=
  run_errAt (valid_of_eq hv) toks fuel _ (clean_init toks false h0) e log h

end MindsVerif.LR
