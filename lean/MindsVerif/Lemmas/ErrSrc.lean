import MindsVerif.Lemmas.ErrLoc
/-! The uniform lexer semantics of repo bd184d7 (a token's value is its source slice, its `lineno` is
`1 +` the number of newlines before its `index`, tokens do not overlap) implies the position
hypothesis of the caret theorem for the part-by-part variant: `layoutOK (virt toks)`. -/
namespace MindsVerif.Err

def nlCount (s : List Char) : Nat := s.count '\n'

/-- one token as the (repaired) lexer produces it from the text `src` -/
structure SrcTok (src : List Char) (t : Tok) : Prop where
  slice : (src.drop t.index).take t.value.length = t.value
  line : t.lineno = 1 + nlCount (src.take t.index)

/-- tokens in text order, none starting before offset `e`, none overlapping -/
def SrcChain (src : List Char) : Nat → List Tok → Prop
  | _, [] => True
  | e, t :: ts => e ≤ t.index ∧ SrcTok src t ∧ SrcChain src (t.index + t.value.length) ts

/-- length of `'\n'.join(parts)` -/
def joinedLen : List (List Char) → Nat
  | [] => 0
  | [p] => p.length
  | p :: q :: r => p.length + 1 + joinedLen (q :: r)

theorem joinedLen_cons_cons (c : Char) (l : List Char) (ls : List (List Char)) :
    joinedLen ((c :: l) :: ls) = joinedLen (l :: ls) + 1 := by
  cases ls with
  | nil => simp [joinedLen]
  | cons q r => simp [joinedLen]; omega

theorem splitLines_facts : ∀ v : List Char,
    (splitLines v).length = nlCount v + 1 ∧ joinedLen (splitLines v) = v.length := by
  intro v
  induction v with
  | nil => simp [splitLines, nlCount, joinedLen]
  | cons c r ih =>
    obtain ⟨h1, h2⟩ := ih
    unfold splitLines
    cases hs : splitLines r with
    | nil => exact absurd hs (splitLines_ne_nil r)
    | cons l ls =>
      rw [hs] at h1 h2
      by_cases hc : c = '\n'
      · subst hc
        simp only [if_true]
        refine ⟨by simp [nlCount] at h1 ⊢; omega, ?_⟩
        simp only [joinedLen, List.length_nil, List.length_cons]
        omega
      · simp only [hc, if_false]
        refine ⟨?_, ?_⟩
        · have : nlCount (c :: r) = nlCount r := by
            simp [nlCount, hc]
          rw [this]; simpa using h1
        · rw [joinedLen_cons_cons, h2]; simp

theorem nlCount_take_add (src : List Char) (a l : Nat) :
    nlCount (src.take (a + l)) = nlCount (src.take a) + nlCount ((src.drop a).take l) := by
  unfold nlCount
  rw [List.take_add, List.count_append]

theorem nlCount_take_mono (src : List Char) {a b : Nat} (h : a ≤ b) :
    nlCount (src.take a) ≤ nlCount (src.take b) := by
  obtain ⟨l, rfl⟩ := Nat.exists_eq_add_of_le h
  rw [nlCount_take_add]; omega

/-- the parts of one value form a chain and leave the bounds at (last line, end of the value) -/
theorem chainB_parts (ty : Nat) : ∀ (parts : List (List Char)) (ln ix n e : Nat) (rest : List Tok),
    parts ≠ [] → n ≤ ln → e ≤ ix →
    chainB n e (partToksAux ty ln ix parts ++ rest) =
      chainB (ln + parts.length - 1) (ix + joinedLen parts) rest := by
  intro parts
  induction parts with
  | nil => intro _ _ _ _ _ h; exact absurd rfl h
  | cons p r ih =>
    intro ln ix n e rest _ hn he
    cases r with
    | nil =>
      simp [partToksAux, chainB, hn, he, joinedLen]
    | cons q r' =>
      have := ih (ln + 1) (ix + p.length + 1) ln (ix + p.length) rest (by simp) (by omega) (by omega)
      simp only [partToksAux, List.cons_append, chainB, hn, he, decide_true, Bool.true_and] at this ⊢
      rw [this]
      simp only [List.length_cons, joinedLen]
      congr 1 <;> omega

/-- **uniform lexer semantics ⇒ the position hypothesis of the caret theorem** -/
theorem layout_of_src (src : List Char) : ∀ (toks : List Tok) (n e : Nat),
    SrcChain src e toks → n ≤ 1 + nlCount (src.take e) → chainB n e (virt toks) = true := by
  intro toks
  induction toks with
  | nil => intro n e _ _; rfl
  | cons t ts ih =>
    intro n e h hn
    obtain ⟨he, ht, hrest⟩ := h
    obtain ⟨hlen, hjoin⟩ := splitLines_facts t.value
    have hln : n ≤ t.lineno := by
      rw [ht.line]
      have := nlCount_take_mono src he
      omega
    simp only [virt, List.flatMap_cons]
    unfold partToks
    rw [chainB_parts t.type _ _ _ _ _ _ (splitLines_ne_nil _) hln he, hlen, hjoin]
    apply ih
    · exact hrest
    · have := nlCount_take_add src t.index t.value.length
      rw [ht.slice] at this
      rw [this, ht.line]
      omega

theorem splitLines_head_prefix : ∀ v : List Char, ∃ rest, v = (splitLines v).headD [] ++ rest := by
  intro v
  induction v with
  | nil => exact ⟨[], by simp [splitLines]⟩
  | cons c r ih =>
    obtain ⟨rest, hr⟩ := ih
    unfold splitLines
    cases hs : splitLines r with
    | nil => exact absurd hs (splitLines_ne_nil r)
    | cons l ls =>
      rw [hs] at hr
      simp only [List.headD_cons] at hr
      by_cases hc : c = '\n'
      · exact ⟨c :: r, by simp [hc]⟩
      · refine ⟨rest, ?_⟩
        simp only [hc, if_false, List.headD_cons, List.cons_append]
        rw [← hr]

/-- the first part of a value that is a source slice is the source slice of its own length -/
theorem headPart_slice {src : List Char} {b : Tok} (h : SrcTok src b) :
    (headPart b).value = (src.drop b.index).take (headPart b).value.length := by
  obtain ⟨rest, hr⟩ := splitLines_head_prefix b.value
  show (splitLines b.value).headD [] = (src.drop b.index).take ((splitLines b.value).headD []).length
  generalize (splitLines b.value).headD [] = fp at hr ⊢
  have h1 := h.slice
  generalize src.drop b.index = tail at h1 ⊢
  rw [hr] at h1
  have h2 : tail.take fp.length = (tail.take (fp ++ rest).length).take fp.length := by
    rw [List.take_take, Nat.min_eq_left (by simp)]
  rw [h2, h1]
  simp

theorem srcTok_of_chain {src : List Char} : ∀ {toks : List Tok} {e : Nat} {b : Tok},
    SrcChain src e toks → b ∈ toks → SrcTok src b := by
  intro toks
  induction toks with
  | nil => intro e b _ hb; simp at hb
  | cons t ts ih =>
    intro e b h hb
    obtain ⟨_, ht, hrest⟩ := h
    rcases List.mem_cons.1 hb with rfl | hb
    · exact ht
    · exact ih hrest hb

end MindsVerif.Err
