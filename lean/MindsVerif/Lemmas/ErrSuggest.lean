import MindsVerif.Model.Err
/-! `make_suggestion` (T19.3) and `MindsDBLexer.error` (T19.4) helper lemmas -/
namespace MindsVerif.Err

theorem trySuggest_mem (valid : List Nat → Bool) (types : List Nat) (k : Nat) :
    ∀ (e : Expected) (s : List Char), s ∈ trySuggest valid types k e →
      ∃ ty, (s, ty) ∈ e ∧ (valid (insList types k ty) = true ∨ valid (repList types k ty) = true) := by
  intro e
  induction e with
  | nil => intro s h; simp [trySuggest] at h
  | cons p r ih =>
    intro s h
    obtain ⟨v, ty⟩ := p
    by_cases h1 : valid (insList types k ty) = true
    · have h' : s = v ∨ s ∈ trySuggest valid types k r := by simpa [trySuggest, h1] using h
      rcases h' with h' | h'
      · subst h'; exact ⟨ty, by simp, Or.inl h1⟩
      · obtain ⟨ty', hm, hv⟩ := ih s h'; exact ⟨ty', List.mem_cons_of_mem _ hm, hv⟩
    · by_cases h2 : valid (repList types k ty) = true
      · have h' : s = v ∨ s ∈ trySuggest valid types k r := by simpa [trySuggest, h1, h2] using h
        rcases h' with h' | h'
        · subst h'; exact ⟨ty, by simp, Or.inr h2⟩
        · obtain ⟨ty', hm, hv⟩ := ih s h'; exact ⟨ty', List.mem_cons_of_mem _ hm, hv⟩
      · have h' : s ∈ trySuggest valid types k r := by simpa [trySuggest, h1, h2] using h
        obtain ⟨ty', hm, hv⟩ := ih s h'; exact ⟨ty', List.mem_cons_of_mem _ hm, hv⟩

theorem mem_pyTake {α} {l : List α} {i : Int} {x : α} (h : x ∈ pyTake l i) : x ∈ l := by
  unfold pyTake at h
  split at h <;> exact List.mem_of_mem_take h

/-! ### the lexer's line/column loop -/

def offs : List (List Char) → Nat
  | [] => 0
  | l :: r => l.length + 1 + offs r

theorem lexLoop_after (index : Nat) : ∀ (post : List (List Char)) (s : LexLoc), index < s.shift →
    (lexLoop index post s).errLine = s.errLine ∧ (lexLoop index post s).errIdx = s.errIdx := by
  intro post
  induction post with
  | nil => intro s _; simp [lexLoop]
  | cons l r ih =>
    intro s h
    have hno : ¬ (s.shift ≤ index ∧ index - s.shift < l.length) := by omega
    simp only [lexLoop, hno, if_false]
    have := ih { s with shift := s.shift + l.length + 1, i := s.i + 1 } (by simp; omega)
    simpa using this

theorem lexLoop_spec (index col : Nat) (line : List Char) (post : List (List Char)) :
    ∀ (pre : List (List Char)) (s : LexLoc), s.shift + offs pre + col = index → col < line.length →
      (lexLoop index (pre ++ line :: post) s).errLine = s.i + pre.length ∧
      (lexLoop index (pre ++ line :: post) s).errIdx = col := by
  intro pre
  induction pre with
  | nil =>
    intro s h hc
    simp only [offs] at h
    have hyes : s.shift ≤ index ∧ index - s.shift < line.length := by omega
    simp only [List.nil_append, lexLoop, hyes, and_self, if_true]
    have := lexLoop_after index post
      { shift := s.shift + line.length + 1, errLine := s.i, errIdx := index - s.shift, i := s.i + 1 }
      (by simp; omega)
    simp only at this
    rw [this.1, this.2]
    simp; omega
  | cons l r ih =>
    intro s h hc
    simp only [offs] at h
    have hno : ¬ (s.shift ≤ index ∧ index - s.shift < l.length) := by omega
    simp only [List.cons_append, lexLoop, hno, if_false]
    have := ih { s with shift := s.shift + l.length + 1, i := s.i + 1 } (by simp; omega) hc
    simp only at this
    rw [this.1, this.2]
    simp; omega

end MindsVerif.Err
