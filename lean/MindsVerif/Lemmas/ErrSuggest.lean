import MindsVerif.Model.Err
/-! `make_suggestion` (T19.3) and `MindsDBLexer.error` (T19.4) helper lemmas -/
namespace MindsVerif.Err

theorem trySuggest_mem (valid : List Nat → Bool) (types : List Nat) (k : Nat) :
    ∀ (e : Expected) (s : List Char), s ∈ trySuggest valid types k e →
      ∃ ty, (s, ty) ∈ e ∧ (valid (insList types k ty) = true ∨ valid (repList types k ty) = true) := by
  intro e
  induction e with
  | nil => intro s h; simp [trySuggest] at h
  | cons p r ih =>
    intro s h
    obtain ⟨v, ty⟩ := p
    by_cases h1 : valid (insList types k ty) = true
    · have h' : s = v ∨ s ∈ trySuggest valid types k r := by simpa [trySuggest, h1] using h
      rcases h' with h' | h'
      · subst h'; exact ⟨ty, by simp, Or.inl h1⟩
      · obtain ⟨ty', hm, hv⟩ := ih s h'; exact ⟨ty', List.mem_cons_of_mem _ hm, hv⟩
    · by_cases h2 : valid (repList types k ty) = true
      · have h' : s = v ∨ s ∈ trySuggest valid types k r := by simpa [trySuggest, h1, h2] using h
        rcases h' with h' | h'
        · subst h'; exact ⟨ty, by simp, Or.inr h2⟩
        · obtain ⟨ty', hm, hv⟩ := ih s h'; exact ⟨ty', List.mem_cons_of_mem _ hm, hv⟩
      · have h' : s ∈ trySuggest valid types k r := by simpa [trySuggest, h1, h2] using h
        obtain ⟨ty', hm, hv⟩ := ih s h'; exact ⟨ty', List.mem_cons_of_mem _ hm, hv⟩

theorem mem_pyTake {α} {l : List α} {i : Int} {x : α} (h : x ∈ pyTake l i) : x ∈ l := by
  unfold pyTake at h
  split at h <;> exact List.mem_of_mem_take h

theorem mem_insertNat {x y : Nat} : ∀ {l : List Nat}, y ∈ insertNat x l → y = x ∨ y ∈ l := by
  intro l
  induction l with
  | nil => intro h; simpa [insertNat] using h
  | cons z r ih =>
    intro h
    unfold insertNat at h
    split at h
    · simpa using h
    · rcases List.mem_cons.1 h with h | h
      · exact Or.inr (by simp [h])
      · rcases ih h with h | h
        · exact Or.inl h
        · exact Or.inr (List.mem_cons_of_mem _ h)

theorem mem_sortIds {y : Nat} : ∀ {l : List Nat}, y ∈ sortIds l → y ∈ l := by
  intro l
  induction l with
  | nil => intro h; simp [sortIds] at h
  | cons x r ih =>
    intro h
    rcases mem_insertNat (show y ∈ insertNat x (sortIds r) from h) with h | h
    · simp [h]
    · exact List.mem_cons_of_mem _ (ih h)

theorem mem_expected_set {v k : List Char} {ty x : Nat} : ∀ {e : Expected},
    (v, ty) ∈ e.set k x → (v, ty) = (k, x) ∨ (v, ty) ∈ e := by
  intro e
  induction e with
  | nil => intro h; simpa [Expected.set] using h
  | cons p r ih =>
    obtain ⟨k', x'⟩ := p
    intro h
    unfold Expected.set at h
    split at h
    · rcases List.mem_cons.1 h with h | h
      · exact Or.inl h
      · exact Or.inr (List.mem_cons_of_mem _ h)
    · rcases List.mem_cons.1 h with h | h
      · exact Or.inr (by rw [h]; simp)
      · rcases ih h with h | h
        · exact Or.inl h
        · exact Or.inr (List.mem_cons_of_mem _ h)

/-- every entry of the `expected` dict carries a token name taken from `expected_tokens` -/
theorem buildExpected_mem (nm : Names) (attr : Nat → Option (List Char)) {v : List Char} {ty : Nat} :
    ∀ (l : List Nat) (e : Expected), (v, ty) ∈ buildExpected nm attr l e → ty ∈ l ∨ (v, ty) ∈ e := by
  intro l
  induction l with
  | nil => intro e h; exact Or.inr (by simpa [buildExpected] using h)
  | cons t ts ih =>
    intro e h
    have key : ∀ k, (v, ty) ∈ buildExpected nm attr ts (e.set k t) → ty ∈ t :: ts ∨ (v, ty) ∈ e := by
      intro k hk
      rcases ih _ hk with h1 | h1
      · exact Or.inl (List.mem_cons_of_mem _ h1)
      · rcases mem_expected_set h1 with h2 | h2
        · cases h2; exact Or.inl (by simp)
        · exact Or.inr h2
    have key0 : (v, ty) ∈ buildExpected nm attr ts e → ty ∈ t :: ts ∨ (v, ty) ∈ e := by
      intro hk
      rcases ih _ hk with h1 | h1
      · exact Or.inl (List.mem_cons_of_mem _ h1)
      · exact Or.inr h1
    unfold buildExpected at h
    split at h
    · simp at h; exact Or.inl (by simp [h.2])
    · split at h
      · exact key _ h
      · split at h
        · exact key _ h
        · split at h
          · split at h
            · exact key _ h
            · exact key0 h
          · exact key0 h

/-- whatever the branch, a suggestion is the display value of a token name of `expected_tokens` -/
theorem makeSuggestion_key (valid : List Nat → Bool) (nm : Names) (attr : Nat → Option (List Char))
    (types : List Nat) (badIdx : Option Nat) (expected : List Nat) :
    ∀ s ∈ makeSuggestion valid nm attr types badIdx expected,
      ∃ ty ∈ expected, (s, ty) ∈ buildExpected nm attr (sortIds expected) [] := by
  intro s hs
  have fin : ∀ ty, (s, ty) ∈ buildExpected nm attr (sortIds expected) [] →
      ∃ ty ∈ expected, (s, ty) ∈ buildExpected nm attr (sortIds expected) [] := by
    intro ty h
    rcases buildExpected_mem nm attr _ _ h with h1 | h1
    · exact ⟨ty, mem_sortIds h1, h⟩
    · simp at h1
  have fromMap : s ∈ (buildExpected nm attr (sortIds expected) []).map (·.1) →
      ∃ ty ∈ expected, (s, ty) ∈ buildExpected nm attr (sortIds expected) [] := by
    intro h
    obtain ⟨⟨v, ty⟩, hm, rfl⟩ := List.mem_map.1 h
    exact fin ty hm
  unfold makeSuggestion at hs
  split at hs
  · simp at hs
  · simp only at hs
    split at hs
    · exact fromMap hs
    · split at hs
      · cases badIdx with
        | none => exact fromMap hs
        | some k =>
          obtain ⟨ty, hm, _⟩ := trySuggest_mem valid types k _ s hs
          exact fin ty hm
      · simp at hs

/-! ### the lexer's line/column loop -/

def offs : List (List Char) → Nat
  | [] => 0
  | l :: r => l.length + 1 + offs r

theorem lexLoop_after (index : Nat) : ∀ (post : List (List Char)) (s : LexLoc), index < s.shift →
    (lexLoop index post s).errLine = s.errLine ∧ (lexLoop index post s).errIdx = s.errIdx := by
  intro post
  induction post with
  | nil => intro s _; simp [lexLoop]
  | cons l r ih =>
    intro s h
    have hno : ¬ (s.shift ≤ index ∧ index - s.shift < l.length) := by omega
    simp only [lexLoop, hno, if_false]
    have := ih { s with shift := s.shift + l.length + 1, i := s.i + 1 } (by simp; omega)
    simpa using this

theorem lexLoop_spec (index col : Nat) (line : List Char) (post : List (List Char)) :
    ∀ (pre : List (List Char)) (s : LexLoc), s.shift + offs pre + col = index → col < line.length →
      (lexLoop index (pre ++ line :: post) s).errLine = s.i + pre.length ∧
      (lexLoop index (pre ++ line :: post) s).errIdx = col := by
  intro pre
  induction pre with
  | nil =>
    intro s h hc
    simp only [offs] at h
    have hyes : s.shift ≤ index ∧ index - s.shift < line.length := by omega
    simp only [List.nil_append, lexLoop, hyes, and_self, if_true]
    have := lexLoop_after index post
      { shift := s.shift + line.length + 1, errLine := s.i, errIdx := index - s.shift, i := s.i + 1 }
      (by simp; omega)
    simp only at this
    rw [this.1, this.2]
    simp; omega
  | cons l r ih =>
    intro s h hc
    simp only [offs] at h
    have hno : ¬ (s.shift ≤ index ∧ index - s.shift < l.length) := by omega
    simp only [List.cons_append, lexLoop, hno, if_false]
    have := ih { s with shift := s.shift + l.length + 1, i := s.i + 1 } (by simp; omega) hc
    simp only at this
    rw [this.1, this.2]
    simp; omega

end MindsVerif.Err
