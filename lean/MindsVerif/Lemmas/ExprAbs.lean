import MindsVerif.Model.ExprAbs
import MindsVerif.Lemmas.ExprSimCert
/-! The tree the simulation builds abstracts to the operator tree it was printed from:
`abs (tree e) = some (eraseAtoms e)`, from the production facts checked by `certOK`. -/
namespace MindsVerif.ExprSim
open MindsVerif.LR MindsVerif.OPM

variable {T : Tables} {P : Table} {F : Fragment} {C : Cert}

theorem prod_eq {p : Nat} {a b : LR.Prod} (h1 : T.prods.get? p = some a)
    (h2 : T.prods.get? p = some b) : a = b := Option.some.inj (h1.symm.trans h2)

theorem chain_concat (G : GlobalFacts T P F C) : ∃ init pl, C.chain = init ++ [pl] := by
  rcases List.eq_nil_or_concat C.chain with h | ⟨init, pl, h⟩
  · exact absurd h G.chainNe
  · exact ⟨init, pl, by rw [h, List.concat_eq_append]⟩

theorem chainTree_concat (init : List (Nat × Nat)) (pl : Nat × Nat) (t : PT) :
    chainTree (init ++ [pl]) t = .node pl.1 pl.2 [chainTree init t] := by
  simp [chainTree, List.foldl_append]

theorem notLast (G : GlobalFacts T P F C) {p : Nat} {pr : LR.Prod}
    (hp : T.prods.get? p = some pr) (hlen : pr.rhs.length ≠ 1) :
    ((C.chain.getLast?.map (·.1)) == some p) = false := by
  obtain ⟨init, pl, hc⟩ := chain_concat G
  have hl : C.chain.getLast? = some pl := by rw [hc]; simp
  rw [hl]
  simp only [Option.map_some, beq_eq_false_iff_ne, ne_eq, Option.some.injEq]
  intro he
  obtain ⟨pr', h1, _, h3⟩ := G.chain pl (by rw [hc]; simp)
  rw [he] at h1
  have := prod_eq hp h1
  subst this
  exact hlen h3

theorem shapeOf_last (_G : GlobalFacts T P F C) {init : List (Nat × Nat)} {pl : Nat × Nat}
    (hc : C.chain = init ++ [pl]) : shapeOf C F pl.1 = some .atom := by
  have hl : C.chain.getLast? = some pl := by rw [hc]; simp
  simp [shapeOf, hl]

theorem shapeOf_bin (G : GlobalFacts T P F C) {o : Nat} (ho : o ∈ F.bins) :
    shapeOf C F (C.binNo o) = some (.bin o) := by
  unfold shapeOf
  rw [notLast G (G.bin o ho).1 (by simp)]
  simp only [cond_false]
  cases hf : F.bins.find? (fun o' => C.binNo o' == C.binNo o) with
  | none =>
    have := List.find?_eq_none.1 hf o ho
    simp at this
  | some o' =>
    have hm := List.mem_of_find?_eq_some hf
    have hp : C.binNo o' = C.binNo o := by simpa using List.find?_some hf
    have h1 := (G.bin o' hm).1
    rw [hp] at h1
    have e := prod_eq h1 (G.bin o ho).1
    simp only [LR.Prod.mk.injEq, List.cons.injEq, true_and] at e
    have : C.opTerm o' = C.opTerm o := by omega
    have hr : C.opRest o' = C.opRest o := by
      have e2 := e.2
      cases h' : C.opRest o' with
      | none =>
        cases h'' : C.opRest o with
        | none => rfl
        | some b =>
          rw [h', h''] at e2
          simp at e2
      | some a =>
        cases h'' : C.opRest o with
        | none =>
          rw [h', h''] at e2
          simp at e2
        | some b =>
          rw [h', h''] at e2
          simp at e2
          have : a = b := by omega
          rw [this]
    rw [G.inj o' (Or.inl hm) o (Or.inl ho) this hr]

theorem bins_find_none (G : GlobalFacts T P F C) {p : Nat} {pr : LR.Prod}
    (hp : T.prods.get? p = some pr)
    (hne : ∀ o, o ∈ F.bins → pr.rhs ≠ (2 * C.exprNt + 1) :: 2 * C.opTerm o ::
      ((C.opRest o).toList.map (2 * ·) ++ [2 * C.exprNt + 1])) :
    F.bins.find? (fun o => C.binNo o == p) = none := by
  rw [List.find?_eq_none]
  intro o ho hb
  have hb' : C.binNo o = p := by simpa using hb
  have h1 := (G.bin o ho).1
  rw [hb'] at h1
  have := prod_eq hp h1
  subst this
  exact hne o ho rfl

theorem pres_find_none (G : GlobalFacts T P F C) {p : Nat} {pr : LR.Prod}
    (hp : T.prods.get? p = some pr) (hlen : pr.rhs.length ≠ 2) :
    F.pres.find? (fun o => C.preNo o == p) = none := by
  rw [List.find?_eq_none]
  intro o ho hb
  have hb' : C.preNo o = p := by simpa using hb
  have h1 := (G.pre o ho).1
  rw [hb'] at h1
  have := prod_eq hp h1
  subst this
  exact hlen rfl

theorem shapeOf_pre (G : GlobalFacts T P F C) {o : Nat} (ho : o ∈ F.pres) :
    shapeOf C F (C.preNo o) = some (.pre o) := by
  unfold shapeOf
  rw [notLast G (G.pre o ho).1 (by simp)]
  simp only [cond_false]
  rw [bins_find_none G (G.pre o ho).1 (by intro o' _ h; have := congrArg List.length h; simp at this)]
  simp only
  cases hf : F.pres.find? (fun o' => C.preNo o' == C.preNo o) with
  | none =>
    have := List.find?_eq_none.1 hf o ho
    simp at this
  | some o' =>
    have hm := List.mem_of_find?_eq_some hf
    have hp : C.preNo o' = C.preNo o := by simpa using List.find?_some hf
    have h1 := (G.pre o' hm).1
    rw [hp] at h1
    have e := prod_eq h1 (G.pre o ho).1
    simp only [LR.Prod.mk.injEq, List.cons.injEq, true_and, and_true] at e
    have : o' = o := by omega
    rw [this]

theorem shapeOf_btw (G : GlobalFacts T P F C) : shapeOf C F C.btwNo = some .btw := by
  unfold shapeOf
  rw [notLast G G.btw (by simp)]
  simp only [cond_false]
  rw [bins_find_none G G.btw (by
    intro o' _ h; have := congrArg List.length h; simp at this
    cases hr : C.opRest o' <;> simp [hr] at this)]
  simp only
  rw [pres_find_none G G.btw (by simp)]
  simp

theorem shapeOf_par (G : GlobalFacts T P F C) : shapeOf C F C.parNo = some .par := by
  unfold shapeOf
  rw [notLast G G.par (by simp)]
  simp only [cond_false]
  rw [bins_find_none G G.par (by
    intro o' _ h
    simp only [List.cons.injEq] at h
    omega)]
  simp only
  rw [pres_find_none G G.par (by simp)]
  have hne : (C.parNo == C.btwNo) = false := by
    simp only [beq_eq_false_iff_ne, ne_eq]
    intro he
    have h1 := G.par
    rw [he] at h1
    have := congrArg (fun pr => pr.rhs.length) (prod_eq h1 G.btw)
    simp at this
  simp [hne]

/-- **abstraction**: the tree built by the simulation stands for the operator tree it was printed from -/
theorem absK_tree (G : GlobalFacts T P F C) (e : Expr) (he : inFragment F e = true) :
    absK C P F (tree C P e) = .ex (eraseAtoms e) := by
  induction e with
  | atom n =>
    obtain ⟨init, pl, hc⟩ := chain_concat G
    simp only [tree, hc, chainTree_concat, absK, shapeOf_last G hc, build, eraseAtoms]
  | paren e ih =>
    simp only [inFragment] at he
    simp [tree, absK, absL, shapeOf_par G, build, ih he, eraseAtoms]
  | pre o e ih =>
    simp only [inFragment, Bool.and_eq_true, List.contains_eq_mem, decide_eq_true_eq] at he
    simp [tree, absK, absL, shapeOf_pre G he.1, build, ih he.2, eraseAtoms]
  | bin o l r ihl ihr =>
    simp only [inFragment, Bool.and_eq_true, List.contains_eq_mem, decide_eq_true_eq] at he
    obtain ⟨⟨ho, hl⟩, hr⟩ := he
    cases hrest : C.opRest o with
    | none => simp [tree, absK, absL, shapeOf_bin G ho, build, ihl hl, ihr hr, eraseAtoms, hrest]
    | some t => simp [tree, absK, absL, shapeOf_bin G ho, build, ihl hl, ihr hr, eraseAtoms, hrest]
  | btw x y z ihx ihy ihz =>
    simp only [inFragment, Bool.and_eq_true] at he
    obtain ⟨⟨hx, hy⟩, hz⟩ := he
    simp [tree, absK, absL, shapeOf_btw G, build, ihx hx, ihy hy, ihz hz, eraseAtoms]

theorem abs_tree (hC : certOK T P F C = true) (e : Expr) (he : inFragment F e = true) :
    abs C P F (tree C P e) = some (eraseAtoms e) := by
  simp [abs, absK_tree (cert_global hC) e he]

end MindsVerif.ExprSim
