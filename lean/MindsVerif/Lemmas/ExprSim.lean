import MindsVerif.Lemmas.ExprSimCert
import MindsVerif.Lemmas.OPMSql
/-!
Level B of C03 — the SIMULATION theorem.

If the certificate of a dialect is accepted by `certOK` (kernel-evaluated on the real tables), then
for every *canonical* tree `e` of the fragment (`OPM.canon`: SLY's resolution regroups none of its
children — in particular every `addParens S e` when `sqlOrder` holds), the real LR driver started in
an expression-start state `u` with the tokens of `print e` followed by a closing lookahead performs
exactly `simSteps e` shifts/reductions and ends with the parse tree `tree e` on top of the untouched
stack, in state `goto(u, expr)`, the closing lookahead pending.
-/
namespace MindsVerif.ExprSim
open MindsVerif.LR MindsVerif.OPM

variable {T : Tables} {mode : Mode} {bad : Bool} {P : Table} {F : Fragment} {C : Cert}

/-! ### tokens -/

theorem toks_atom (n : Nat) : toks C P (.atom n) = [C.atomTok] := by
  simp [toks, print, tokIds]

theorem toks_paren (e : Expr) : toks C P (.paren e) = C.lpar :: (toks C P e ++ [C.rpar]) := by
  simp [toks, print, tokIds]

theorem toks_bin (o : Nat) (l r : Expr) :
    toks C P (.bin o l r) = toks C P l ++ C.opTerm o :: ((C.opRest o).toList ++ toks C P r) := by
  simp [toks, print, tokIds]

theorem toks_pre' (o : Nat) (e : Expr) :
    toks C P (.pre o e) = C.opTerm o :: ((C.opRest o).toList ++ toks C P e) := by
  simp [toks, print, tokIds]

theorem toks_btw' (x y z : Expr) :
    toks C P (.btw x y z) = toks C P x ++ C.opTerm P.btwTok :: ((C.opRest P.btwTok).toList ++
      (toks C P y ++ C.opTerm P.andTok :: ((C.opRest P.andTok).toList ++ toks C P z))) := by
  simp [toks, print, tokIds]

theorem toks_pre (G : GlobalFacts T P F C) {o : Nat} (ho : o ∈ F.pres) (e : Expr) :
    toks C P (.pre o e) = o :: toks C P e := by
  rw [toks_pre', (G.pre o ho).2.1, (G.pre o ho).2.2]; rfl

theorem toks_btw (G : GlobalFacts T P F C) (x y z : Expr) :
    toks C P (.btw x y z) = toks C P x ++ P.btwTok :: (toks C P y ++ P.andTok :: toks C P z) := by
  rw [toks_btw', G.btwTerm.1, G.btwTerm.2, G.andTerm.1, G.andTerm.2]; rfl

/-! ### trees -/

theorem chainTree_cons (pl : Nat × Nat) (ps : List (Nat × Nat)) (t : PT) :
    chainTree (pl :: ps) t = chainTree ps (.node pl.1 pl.2 [t]) := rfl

theorem postorder_chainTree : ∀ (chain : List (Nat × Nat)) (t : PT),
    (chainTree chain t).postorder = t.postorder ++ chain.map (·.1) := by
  intro chain
  induction chain with
  | nil => intro t; simp [chainTree]
  | cons pl ps ih =>
    intro t
    rw [chainTree_cons, ih]
    simp [PT.postorder, postorderL]

theorem postorderL_leaves : ∀ ts : List Nat, postorderL (ts.map PT.leaf) = [] := by
  intro ts
  induction ts with
  | nil => rfl
  | cons t ts ih => simp [postorderL, PT.postorder, ih]

/-! ### lookaheads -/

/-- `l` may follow an expression started in a state with entry `ent`: an operator of the fragment or
one of the entry's closers (a terminal, or the end of the input) -/
def Valid (C : Cert) (P : Table) (F : Fragment) (ent : Entry) : LA → Prop
  | .tok a => (∃ o, IsOp P F o ∧ C.opTerm o = a) ∨ ent.cl.testBit a = true
  | .eof => ent.cl.testBit 0 = true
  | .err => False

/-- an operator lookahead reduces every production of `ps` (closers always do) -/
def Reduces (C : Cert) (P : Table) (F : Fragment) (ps : List Prec) : LA → Prop
  | .tok a => ∀ o, IsOp P F o → C.opTerm o = a → allReduce P ps o = true
  | _ => True

/-- the frame of role `k` lets every operator of `as` be shifted (`OPM.topShifts`) -/
def CtxShifts (P : Table) (k : Kind) (as : List Nat) : Prop :=
  ∀ a, a ∈ as → dec P k a = .shift ∧ (k = .btw → a ≠ P.andTok)

theorem valid_mono {ent e' : Entry} (h : ent.cl &&& e'.cl = ent.cl) {l : LA}
    (hv : Valid C P F ent l) : Valid C P F e' l := by
  cases l with
  | tok a =>
    rcases hv with hv | hv
    · exact Or.inl hv
    · exact Or.inr (testBit_of_and_eq h hv)
  | eof => exact testBit_of_and_eq h hv
  | err => exact hv

theorem valid_mask (G : GlobalFacts T P F C) {ent : Entry} {l : LA} (hv : Valid C P F ent l) :
    (ent.cl ||| C.opsMask).testBit l.term = true := by
  cases l with
  | tok a =>
    rcases hv with ⟨o, ho, rfl⟩ | hv
    · simp [LA.term, Nat.testBit_or, G.opMask ho]
    · simp [LA.term, Nat.testBit_or, hv]
  | eof =>
    have : ent.cl.testBit 0 = true := hv
    show (ent.cl ||| C.opsMask).testBit 0 = true
    rw [Nat.testBit_or, this]
    rfl
  | err => cases hv

theorem not_isOp_of_cl (G : GlobalFacts T P F C) {ent : Entry} (hd : ent.cl &&& C.opsMask = 0)
    {a : Nat} (ha : ent.cl.testBit a = true) : ¬ ∃ o, IsOp P F o ∧ C.opTerm o = a := by
  rintro ⟨o, hop, rfl⟩
  have h1 := G.opMask hop
  have h2 := testBit_false_of_and_zero hd h1
  rw [ha] at h2
  cases h2

section
variable {u : Nat} {ent : Entry} {ru : Row} {v : Nat} {rv : Row}

/-- the completed state reduces its production on every valid lookahead that the machine reduces -/
theorem reduce_at (S : StartFacts T P F C u ent ru v rv) {p : Nat}
    (hp : prodOf C ent.kind = some p) {l : LA} (hv : Valid C P F ent l)
    (hred : ∀ o, IsOp P F o → l = .tok (C.opTerm o) → dec P ent.kind o = .reduce) :
    rv.action l.term = .reduce p := by
  cases l with
  | tok a =>
    by_cases hop : ∃ o, IsOp P F o ∧ C.opTerm o = a
    · obtain ⟨o, hop, rfl⟩ := hop
      obtain ⟨p', hp', ha⟩ := opOK_reduce (S.ops o hop) (hred o hop rfl)
      rw [hp] at hp'
      cases hp'
      exact ha
    · have : ent.cl.testBit a = true := hv.resolve_left hop
      exact action_of_actsReduce (S.closers p hp) this
  | eof => exact action_of_actsReduce (S.closers p hp) hv
  | err => cases hv

end

/-! ### the atom chain -/

theorem chain_run {ru : Row} {v mask : Nat} {l : LA} (hl : mask.testBit l.term = true)
    (inp : List Nat) (ec : Nat) (eo : Bool) (cn : Nat) (er : Option ErrInfo) :
    ∀ (chain : List (Nat × Nat)) (i : Nat) (t : PT) (lg : List Nat),
      (∀ pl, pl ∈ chain → ∃ pr, T.prods.get? pl.1 = some pr ∧ pr.lhs = pl.2 ∧ pr.rhs.length = 1) →
      chainOK T ru mask i chain = some v →
      ∀ st : Stack, T.rows.get? (topState st) = some ru →
        runN T mode bad chain.length ⟨(i, t) :: st, inp, some l, [], ec, eo, cn, er, lg⟩ =
          some ⟨(v, chainTree chain t) :: st, inp, some l, [], ec, eo, cn, er,
            (chain.map (·.1)).reverse ++ lg⟩ := by
  intro chain
  induction chain with
  | nil =>
    intro i t lg _ hc st _
    simp only [chainOK, Option.some.injEq] at hc
    subst hc
    simp [runN, chainTree]
  | cons pl ps ih =>
    intro i t lg hpr hc st hru
    obtain ⟨p, lhs⟩ := pl
    unfold chainOK at hc
    split at hc
    · cases hc
    · rename_i ri hri
      cases hact : actsReduce ri mask p with
      | false => rw [hact] at hc; cases hc
      | true =>
        rw [hact] at hc
        simp only [cond_true] at hc
        split at hc
        · rename_i i' hg
          obtain ⟨pr, hp, hlhs, hlen⟩ := hpr (p, lhs) (by simp)
          simp only at hp hlhs hlen
          have hstep := step_reduce (T := T) (mode := mode) (bad := bad) (st := (i, t) :: st)
            (seg := [(i, t)]) (rest := st) (inp := inp) (l := l) (r := ri) (r' := ru) (p := p)
            (g := i') (pr := pr) ec eo cn er lg (rowND_some hri).1 (rowND_some hri).2
            (action_of_actsReduce hact hl) hp rfl (by simp [hlen]) hru (by rw [hlhs]; exact hg)
          have hrest := ih i' (.node p lhs [t]) (p :: lg)
            (fun pl hm => hpr pl (by simp [hm])) hc st hru
          have := runN_step hstep (by rw [hlhs]; exact hrest)
          rw [List.length_cons, Nat.add_comm, this, chainTree_cons]
          simp
        · cases hc

theorem chain_run_fetch {ru : Row} {v mask : Nat} {l : LA} (hl : mask.testBit l.term = true)
    {tail rest : List Nat} {dc : Nat} (hf : fetchOf bad tail = some (l, rest, dc))
    (ec : Nat) (eo : Bool) (cn : Nat) (er : Option ErrInfo)
    (chain : List (Nat × Nat)) (hne : chain ≠ []) (i : Nat) (t : PT) (lg : List Nat)
    (hpr : ∀ pl, pl ∈ chain → ∃ pr, T.prods.get? pl.1 = some pr ∧ pr.lhs = pl.2 ∧ pr.rhs.length = 1)
    (hc : chainOK T ru mask i chain = some v)
    (st : Stack) (hru : T.rows.get? (topState st) = some ru) :
    runN T mode bad chain.length ⟨(i, t) :: st, tail, none, [], ec, eo, cn, er, lg⟩ =
      some ⟨(v, chainTree chain t) :: st, rest, some l, [], ec, eo, cn + dc, er,
        (chain.map (·.1)).reverse ++ lg⟩ := by
  have hmain := chain_run (T := T) (mode := mode) (bad := bad) hl rest ec eo (cn + dc) er chain i t
    lg hpr hc st hru
  cases chain with
  | nil => exact absurd rfl hne
  | cons pl ps =>
    obtain ⟨p, lhs⟩ := pl
    have hri : ∃ ri, rowND T i = some ri := by
      unfold chainOK at hc
      split at hc
      · cases hc
      · rename_i ri h; exact ⟨ri, h⟩
    obtain ⟨ri, hri⟩ := hri
    rw [List.length_cons] at hmain ⊢
    rw [runN_congr_step (step_prefetch (T := T) (mode := mode) (st := (i, t) :: st) ec eo cn er lg
      (rowND_some hri).1 (rowND_some hri).2 hf)]
    exact hmain

/-! ### shifting an operator -/

theorem opPath_single {rv : Row} {o s' : Nat} (h : C.opRest o = none)
    (hp : OpPath T C rv o s') : rv.action (C.opTerm o) = .shift s' := by
  unfold OpPath at hp
  rw [h] at hp
  exact hp

/-- the driver shifts the token(s) of a binary operator whose first token is the pending lookahead -/
theorem op_shift_run {rv : Row} {o s' : Nat} (hpath : OpPath T C rv o s') (st0 : Stack)
    (hrv : T.rows.get? (topState st0) = some rv) (hdv : rv.dflt = none) :
    ∃ seg : Stack, seg.length = 1 + (C.opRest o).toList.length ∧
      (seg.map (·.2)).reverse = PT.leaf (C.opTerm o) :: (C.opRest o).toList.map PT.leaf ∧
      topState (seg ++ st0) = s' ∧
      ∀ (inp : List Nat) (ec : Nat) (eo : Bool) (cn : Nat) (er : Option ErrInfo) (lg : List Nat),
        runN T mode bad (1 + (C.opRest o).toList.length)
          ⟨st0, (C.opRest o).toList ++ inp, some (.tok (C.opTerm o)), [], ec, eo, cn, er, lg⟩ =
        some ⟨seg ++ st0, inp, none, [], ec - (1 + (C.opRest o).toList.length), eo,
          cn + (C.opRest o).toList.length, er, lg⟩ := by
  unfold OpPath at hpath
  cases hr : C.opRest o with
  | none =>
    rw [hr] at hpath
    refine ⟨[(s', .leaf (C.opTerm o))], by simp, by simp, rfl, ?_⟩
    intro inp ec eo cn er lg
    exact runN_one (step_shift (l := .tok (C.opTerm o)) ec eo cn er lg hrv hdv hpath)
  | some t =>
    rw [hr] at hpath
    obtain ⟨s, rs, h1, h2, h3, h4⟩ := hpath
    refine ⟨[(s', .leaf t), (s, .leaf (C.opTerm o))], by simp, by simp, rfl, ?_⟩
    intro inp ec eo cn er lg
    have a := runN_one (step_shift (T := T) (mode := mode) (bad := bad) (st := st0)
      (inp := t :: inp) (l := .tok (C.opTerm o)) ec eo cn er lg hrv hdv h1)
    have b := runN_shift_tok (T := T) (mode := mode) (bad := bad)
      (st := (s, .leaf (C.opTerm o)) :: st0) (t := t) (ts := inp) (ec - 1) eo cn er lg h2 h3 h4
    have hab := runN_trans a b
    simp only [Option.toList, List.length_cons, List.length_nil, List.cons_append,
      List.nil_append] at hab ⊢
    rw [hab]
    exact cfg_eq rfl (by omega) rfl rfl

/-! ### canonical trees: what `canon` gives to the operands -/

theorem ctxShifts_of_allShift {k : Kind} {p : Prec} {as : List Nat}
    (hk : ∀ a, dec P k a = resolve p (P.tokLevel a)) (hb : k ≠ .btw)
    (h : allShift P p as = true) : CtxShifts P k as := by
  intro a ha
  rw [allShift_iff] at h
  exact ⟨by rw [hk]; exact h a ha, fun e => absurd e hb⟩

theorem ctxShifts_top (as : List Nat) : CtxShifts P .top as :=
  fun _ _ => ⟨rfl, fun e => by cases e⟩

theorem ctxShifts_tail {k : Kind} {a : Nat} {as : List Nat} (h : CtxShifts P k (a :: as)) :
    CtxShifts P k as := fun b hb => h b (List.mem_cons_of_mem _ hb)

theorem reduces_tail {p : Prec} {ps : List Prec} {l : LA} (h : Reduces C P F (p :: ps) l) :
    Reduces C P F ps l := by
  cases l with
  | tok a => exact fun o hop ho => ((allReduce_cons P p ps o).1 (h o hop ho)).2
  | eof => trivial
  | err => trivial

theorem reduces_head {p : Prec} {ps : List Prec} {l : LA} (h : Reduces C P F (p :: ps) l) :
    ∀ o, IsOp P F o → l = .tok (C.opTerm o) → resolve p (P.tokLevel o) = .reduce := by
  intro o hop hl
  subst hl
  exact ((allReduce_cons P p ps o).1 (h o hop rfl)).1

theorem reduces_op (G : GlobalFacts T P F C) {ps : List Prec} {o : Nat} (ho : IsOp P F o)
    (h : allReduce P ps o = true) : Reduces C P F ps (.tok (C.opTerm o)) := by
  intro o' ho' he
  have hl := G.lvl o' ho' o ho he
  unfold allReduce at h ⊢
  rw [hl]
  exact h

theorem reduces_closer (G : GlobalFacts T P F C) {ent : Entry} (hd : ent.cl &&& C.opsMask = 0)
    {a : Nat} (ha : ent.cl.testBit a = true) (ps : List Prec) : Reduces C P F ps (.tok a) :=
  fun o hop ho => absurd ⟨o, hop, ho⟩ (not_isOp_of_cl G hd ha)

theorem kindAfter_opr {k : Kind} {o : Nat} (hb : o ≠ P.btwTok) (ha : k = .btw → o ≠ P.andTok) :
    kindAfter P k o = .opr o := by
  have h1 : (o == P.btwTok) = false := by simpa using hb
  unfold kindAfter
  rw [h1]
  cases k with
  | btw =>
    have h2 : (o == P.andTok) = false := by simpa using ha rfl
    simp [h2]
  | top => rfl
  | opr _ => rfl
  | pre _ => rfl
  | band => rfl

theorem kindAfter_btw (k : Kind) : kindAfter P k P.btwTok = .btw := by
  simp [kindAfter]

theorem kindAfter_band (h : P.andTok ≠ P.btwTok) : kindAfter P .btw P.andTok = .band := by
  have h1 : (P.andTok == P.btwTok) = false := by simpa using h
  simp [kindAfter, h1]

/-- two descriptions of the same start state agree -/
theorem StartFacts.unique {u : Nat} {ent : Entry} {ru ru' : Row} {v v' : Nat} {rv rv' : Row}
    (S : StartFacts T P F C u ent ru v rv) (hru : T.rows.get? u = some ru')
    (hv : ru'.goto C.exprNt = some v') (hrv : T.rows.get? v' = some rv') :
    ru = ru' ∧ v = v' ∧ rv = rv' := by
  have e1 : ru = ru' := by
    have := S.hru; rw [hru] at this; exact (Option.some.inj this).symm
  subst e1
  have e2 : v = v' := by
    have := S.hv; rw [hv] at this; exact (Option.some.inj this).symm
  subst e2
  have e3 : rv = rv' := by
    have := S.hrv; rw [hrv] at this; exact (Option.some.inj this).symm
  exact ⟨rfl, rfl, e3⟩

/-! ### the simulation -/

theorem sim_main (hC : certOK T P F C = true) :
    ∀ (e : Expr), canon P e = true → inFragment F e = true →
    ∀ (u : Nat) (ent : Entry) (ru : Row) (v : Nat) (rv : Row),
      StartFacts T P F C u ent ru v rv → CtxShifts P ent.kind (leftOps P e) →
      preOK C ent.kind e = true →
    ∀ (st : Stack) (tail rest : List Nat) (l : LA) (dc : Nat)
      (ec : Nat) (eo : Bool) (cn : Nat) (er : Option ErrInfo) (lg : List Nat),
      topState st = u → fetchOf bad tail = some (l, rest, dc) → Valid C P F ent l →
      Reduces C P F (rightProds P e) l →
      runN T mode bad (simSteps C e) ⟨st, toks C P e ++ tail, none, [], ec, eo, cn, er, lg⟩ =
        some ⟨(v, tree C P e) :: st, rest, some l, [], ec - (toks C P e).length, eo,
          cn + (toks C P e).length + dc, er, (tree C P e).postorder.reverse ++ lg⟩ := by
  have G := cert_global hC
  intro e
  induction e with
  | atom n =>
    intro _ _ u ent ru v rv S _ _ st tail rest l dc ec eo cn er lg htop hf hval _
    subst htop
    obtain ⟨i, hsh, hchain⟩ := S.atom
    have h1 := runN_shift_tok (T := T) (mode := mode) (bad := bad) (st := st) (t := C.atomTok)
      (ts := tail) ec eo cn er lg S.hru S.hdu hsh
    have h2 := chain_run_fetch (T := T) (mode := mode) (bad := bad) (valid_mask G hval) hf
      (ec - 1) eo (cn + 1) er C.chain G.chainNe i (.leaf C.atomTok) lg G.chain hchain st S.hru
    have h := runN_trans h1 h2
    simp only [toks_atom, simSteps, tree, List.cons_append, List.nil_append, List.length_cons,
      List.length_nil]
    rw [h]
    exact cfg_eq rfl rfl (by omega) (by rw [postorder_chainTree]; simp [PT.postorder])
  | paren e1 ih =>
    intro hcan hfr u ent ru v rv S _ hpo st tail rest l dc ec eo cn er lg htop hf hval _
    subst htop
    rw [preOK] at hpo
    rw [canon] at hcan
    rw [inFragment] at hfr
    obtain ⟨u', e', ru', v', rv', w, rw', PF⟩ := S.paren
    obtain ⟨ru'', v'', rv'', S'⟩ := cert_start hC PF.start
    obtain ⟨rfl, rfl, rfl⟩ := S'.unique PF.hru PF.hv PF.hrv
    have h1 := runN_shift_tok (T := T) (mode := mode) (bad := bad) (st := st) (t := C.lpar)
      (ts := toks C P e1 ++ C.rpar :: tail) ec eo cn er lg S.hru S.hdu PF.shiftL
    have h2 := ih hcan hfr u' e' ru'' v'' rv'' S' (by rw [PF.kind]; exact ctxShifts_top _)
      (by rw [PF.kind]; exact hpo)
      ((u', .leaf C.lpar) :: st) (C.rpar :: tail) tail (.tok C.rpar) 1 (ec - 1) eo (cn + 1) er lg
      rfl rfl (Or.inr PF.clR) (reduces_closer G S'.disj PF.clR _)
    have h3 := runN_one (step_shift (T := T) (mode := mode) (bad := bad)
      (st := (v'', tree C P e1) :: (u', .leaf C.lpar) :: st) (inp := tail) (l := .tok C.rpar)
      (ec - 1 - (toks C P e1).length) eo (cn + 1 + (toks C P e1).length + 1) er
      ((tree C P e1).postorder.reverse ++ lg) PF.hrv PF.hdv PF.shiftR)
    have hred : rw'.action l.term = .reduce C.parNo :=
      action_of_actsReduce PF.red (valid_mask G hval)
    have h4 := runN_one (T := T) (mode := mode) (bad := bad)
      ((step_prefetch (T := T) (mode := mode)
        (st := (w, .leaf C.rpar) :: (v'', tree C P e1) :: (u', .leaf C.lpar) :: st)
        (ec - 1 - (toks C P e1).length - 1) eo (cn + 1 + (toks C P e1).length + 1) er
        ((tree C P e1).postorder.reverse ++ lg) PF.hrw PF.hdw hf).trans
      (step_reduce (T := T) (mode := mode) (bad := bad)
        (seg := [(w, .leaf C.rpar), (v'', tree C P e1), (u', .leaf C.lpar)]) (rest := st)
        (ec - 1 - (toks C P e1).length - 1) eo (cn + 1 + (toks C P e1).length + 1 + dc) er
        ((tree C P e1).postorder.reverse ++ lg) PF.hrw PF.hdw hred G.par rfl rfl S.hru S.hv))
    have h := runN_trans h1 (runN_trans h2 (runN_trans h3 h4))
    have hin : toks C P (.paren e1) ++ tail = C.lpar :: (toks C P e1 ++ C.rpar :: tail) := by
      simp [toks_paren]
    have hn : simSteps C (.paren e1) = 1 + (simSteps C e1 + (1 + 1)) := by
      simp only [simSteps]; omega
    have hk : (toks C P (.paren e1)).length = (toks C P e1).length + 2 := by simp [toks_paren]
    rw [hin, hn, h, hk]
    exact cfg_eq (by simp [tree]) (by omega) (by omega) (by simp [tree, PT.postorder, postorderL])
  | pre o e1 ih =>
    intro hcan hfr u ent ru v rv S _ hpo st tail rest l dc ec eo cn er lg htop hf hval hred
    subst htop
    simp only [preOK, Bool.and_eq_true] at hpo
    simp only [canon, Bool.and_eq_true] at hcan
    obtain ⟨⟨_, hce⟩, hsh⟩ := hcan
    simp only [inFragment, Bool.and_eq_true, List.contains_eq_mem, decide_eq_true_eq] at hfr
    obtain ⟨ho, hfe⟩ := hfr
    obtain ⟨s, e', hshift, hs, hk, hsub⟩ := S.pre o ho hpo.1
    obtain ⟨rs, vs, rvs, S'⟩ := cert_start hC hs
    have h1 := runN_shift_tok (T := T) (mode := mode) (bad := bad) (st := st) (t := o)
      (ts := toks C P e1 ++ tail) ec eo cn er lg S.hru S.hdu hshift
    rw [rightProds] at hred
    have h2 := ih hce hfe s e' rs vs rvs S'
      (by rw [hk]; exact ctxShifts_of_allShift (fun _ => rfl) (by simp) hsh)
      (by rw [hk]; exact hpo.2)
      ((s, .leaf o) :: st) tail rest l dc (ec - 1) eo (cn + 1) er lg
      rfl hf (valid_mono hsub hval) (reduces_tail hred)
    have hact : rvs.action l.term = .reduce (C.preNo o) :=
      reduce_at S' (by rw [hk]; rfl) (valid_mono hsub hval)
        (by rw [hk]; exact reduces_head hred)
    have h3 := runN_one (step_reduce (T := T) (mode := mode) (bad := bad)
      (st := (vs, tree C P e1) :: (s, .leaf o) :: st)
      (seg := [(vs, tree C P e1), (s, .leaf o)]) (rest := st) (inp := rest) (l := l)
      (ec - 1 - (toks C P e1).length) eo (cn + 1 + (toks C P e1).length + dc) er
      ((tree C P e1).postorder.reverse ++ lg) S'.hrv S'.hdv hact (G.pre o ho).1 rfl rfl S.hru S.hv)
    have h := runN_trans h1 (runN_trans h2 h3)
    have hin : toks C P (.pre o e1) ++ tail = o :: (toks C P e1 ++ tail) := by
      simp [toks_pre G ho]
    have hn : simSteps C (.pre o e1) = 1 + (simSteps C e1 + 1) := by simp only [simSteps]; omega
    have hk : (toks C P (.pre o e1)).length = (toks C P e1).length + 1 := by
      simp [toks_pre G ho]
    rw [hin, hn, h, hk]
    exact cfg_eq (by simp [tree]) (by omega) (by omega) (by simp [tree, PT.postorder, postorderL])
  | bin o l1 r1 ihl ihr =>
    intro hcan hfr u ent ru v rv S hctx hpo st tail rest l dc ec eo cn er lg htop hf hval hred
    subst htop
    simp only [preOK, Bool.and_eq_true] at hpo
    simp only [canon, Bool.and_eq_true, bne_iff_ne, ne_eq] at hcan
    obtain ⟨⟨⟨⟨hob, hcl⟩, hcr⟩, hredl⟩, hshr⟩ := hcan
    simp only [inFragment, Bool.and_eq_true, List.contains_eq_mem, decide_eq_true_eq] at hfr
    obtain ⟨⟨ho, hfl⟩, hfrr⟩ := hfr
    rw [leftOps] at hctx
    have hop : IsOp P F o := Or.inl ho
    -- left operand, lookahead = first token of `o`
    have h1 := ihl hcl hfl (topState st) ent ru v rv S (ctxShifts_tail hctx) hpo.1 st
      (C.opTerm o :: ((C.opRest o).toList ++ (toks C P r1 ++ tail)))
      ((C.opRest o).toList ++ (toks C P r1 ++ tail)) (.tok (C.opTerm o)) 1 ec eo cn er lg
      rfl rfl (Or.inl ⟨o, hop, rfl⟩) (reduces_op G hop hredl)
    -- shift the token(s) of `o`
    obtain ⟨hdec, hand⟩ := hctx o (by simp)
    obtain ⟨s, e', hpath, hs, hk, hsub⟩ := opOK_shift (S.ops o hop) hdec
    rw [kindAfter_opr hob hand] at hk
    obtain ⟨rs, vs, rvs, S'⟩ := cert_start hC hs
    obtain ⟨seg, hseglen, hsegkids, hsegtop, hrun⟩ :=
      op_shift_run (mode := mode) (bad := bad) hpath ((v, tree C P l1) :: st) S.hrv S.hdv
    have h2 := hrun (toks C P r1 ++ tail) (ec - (toks C P l1).length) eo
      (cn + (toks C P l1).length + 1) er ((tree C P l1).postorder.reverse ++ lg)
    -- right operand
    rw [rightProds] at hred
    have h3 := ihr hcr hfrr s e' rs vs rvs S'
      (by rw [hk]; exact ctxShifts_of_allShift (fun _ => rfl) (by simp) hshr)
      (by rw [hk]; exact hpo.2)
      (seg ++ (v, tree C P l1) :: st) tail rest l dc
      (ec - (toks C P l1).length - (1 + (C.opRest o).toList.length)) eo
      (cn + (toks C P l1).length + 1 + (C.opRest o).toList.length) er
      ((tree C P l1).postorder.reverse ++ lg)
      hsegtop hf (valid_mono hsub hval) (reduces_tail hred)
    -- reduce `expr o expr`
    have hact : rvs.action l.term = .reduce (C.binNo o) :=
      reduce_at S' (by rw [hk]; rfl) (valid_mono hsub hval)
        (by rw [hk]; exact reduces_head hred)
    have h4 := runN_one (step_reduce (T := T) (mode := mode) (bad := bad)
      (st := (vs, tree C P r1) :: (seg ++ (v, tree C P l1) :: st))
      (seg := (vs, tree C P r1) :: (seg ++ [(v, tree C P l1)])) (rest := st) (inp := rest)
      (l := l)
      (ec - (toks C P l1).length - (1 + (C.opRest o).toList.length) - (toks C P r1).length) eo
      (cn + (toks C P l1).length + 1 + (C.opRest o).toList.length + (toks C P r1).length + dc) er
      ((tree C P r1).postorder.reverse ++ ((tree C P l1).postorder.reverse ++ lg))
      S'.hrv S'.hdv hact (G.bin o ho).1 (by simp) (by simp [hseglen]; omega) S.hru S.hv)
    have hkids : (List.map (·.2) ((vs, tree C P r1) :: (seg ++ [(v, tree C P l1)]))).reverse =
        tree C P l1 :: .leaf (C.opTerm o) :: ((C.opRest o).toList.map .leaf ++ [tree C P r1]) := by
      rw [List.map_cons, List.map_append, List.reverse_cons, List.reverse_append, hsegkids]
      simp
    rw [hkids] at h4
    have h := runN_trans h1 (runN_trans h2 (runN_trans h3 h4))
    have hin : toks C P (.bin o l1 r1) ++ tail =
        toks C P l1 ++ C.opTerm o :: ((C.opRest o).toList ++ (toks C P r1 ++ tail)) := by
      simp [toks_bin]
    have hn : simSteps C (.bin o l1 r1) =
        simSteps C l1 + ((1 + (C.opRest o).toList.length) + (simSteps C r1 + 1)) := by
      simp only [simSteps]; omega
    have hk : (toks C P (.bin o l1 r1)).length =
        (toks C P l1).length + (toks C P r1).length + 1 + (C.opRest o).toList.length := by
      simp [toks_bin]; omega
    rw [hin, hn, h, hk]
    exact cfg_eq (by simp [tree]) (by omega) (by omega)
      (by simp [tree, PT.postorder, postorderL, postorderL_append, postorderL_leaves])
  | btw x y z ihx ihy ihz =>
    intro hcan hfr u ent ru v rv S hctx hpo st tail rest l dc ec eo cn er lg htop hf hval hred
    subst htop
    simp only [preOK, Bool.and_eq_true] at hpo
    simp only [canon, Bool.and_eq_true, Bool.not_eq_true', List.contains_eq_mem,
      decide_eq_false_iff_not, bne_iff_ne, ne_eq] at hcan
    obtain ⟨⟨⟨⟨⟨⟨⟨hcx, hcy⟩, hcz⟩, hrx⟩, hry⟩, hand⟩, hsz⟩, hne⟩ := hcan
    simp only [inFragment, Bool.and_eq_true] at hfr
    obtain ⟨⟨hfx, hfy⟩, hfz⟩ := hfr
    rw [leftOps] at hctx
    have hopB : IsOp P F P.btwTok := Or.inr rfl
    -- x, lookahead BETWEEN
    have h1 := ihx hcx hfx (topState st) ent ru v rv S (ctxShifts_tail hctx) hpo.1.1 st
      (P.btwTok :: (toks C P y ++ P.andTok :: (toks C P z ++ tail)))
      (toks C P y ++ P.andTok :: (toks C P z ++ tail)) (.tok P.btwTok) 1 ec eo cn er lg
      rfl rfl (Or.inl ⟨_, hopB, G.btwTerm.1⟩) (G.btwTerm.1 ▸ reduces_op G hopB hrx)
    -- shift BETWEEN
    obtain ⟨hdec, _⟩ := hctx P.btwTok (by simp)
    obtain ⟨s1, e1, hpath1, hs1, hk1, hsub1⟩ := opOK_shift (S.ops _ hopB) hdec
    have hshift1 := opPath_single G.btwTerm.2 hpath1
    rw [G.btwTerm.1] at hshift1
    rw [kindAfter_btw] at hk1
    obtain ⟨rs1, vs1, rvs1, S1⟩ := cert_start hC hs1
    have h2 := runN_one (step_shift (T := T) (mode := mode) (bad := bad)
      (st := (v, tree C P x) :: st) (inp := toks C P y ++ P.andTok :: (toks C P z ++ tail))
      (l := .tok P.btwTok)
      (ec - (toks C P x).length) eo (cn + (toks C P x).length + 1) er
      ((tree C P x).postorder.reverse ++ lg) S.hrv S.hdv hshift1)
    -- y, lookahead AND
    have hAnd : IsOp P F P.andTok := Or.inl G.andMem
    have h3 := ihy hcy hfy s1 e1 rs1 vs1 rvs1 S1
      (by rw [hk1]; exact fun a ha => ⟨rfl, fun _ he => hand (he ▸ ha)⟩)
      (by rw [hk1]; exact hpo.1.2)
      ((s1, .leaf P.btwTok) :: (v, tree C P x) :: st)
      (P.andTok :: (toks C P z ++ tail)) (toks C P z ++ tail) (.tok P.andTok) 1
      (ec - (toks C P x).length - 1) eo (cn + (toks C P x).length + 1) er
      ((tree C P x).postorder.reverse ++ lg)
      rfl rfl (Or.inl ⟨_, hAnd, G.andTerm.1⟩) (G.andTerm.1 ▸ reduces_op G hAnd hry)
    -- shift AND
    obtain ⟨s2, e2, hpath2, hs2, hk2, hsub2⟩ :=
      opOK_shift (S1.ops _ hAnd) (by rw [hk1]; rfl)
    have hshift2 := opPath_single G.andTerm.2 hpath2
    rw [G.andTerm.1] at hshift2
    rw [hk1, kindAfter_band hne] at hk2
    obtain ⟨rs2, vs2, rvs2, S2⟩ := cert_start hC hs2
    have h4 := runN_one (step_shift (T := T) (mode := mode) (bad := bad)
      (st := (vs1, tree C P y) :: (s1, .leaf P.btwTok) :: (v, tree C P x) :: st)
      (inp := toks C P z ++ tail) (l := .tok P.andTok)
      (ec - (toks C P x).length - 1 - (toks C P y).length) eo
      (cn + (toks C P x).length + 1 + (toks C P y).length + 1) er
      ((tree C P y).postorder.reverse ++ ((tree C P x).postorder.reverse ++ lg))
      S1.hrv S1.hdv hshift2)
    -- z
    rw [rightProds] at hred
    have hval2 : Valid C P F e2 l := valid_mono hsub2 (valid_mono hsub1 hval)
    have h5 := ihz hcz hfz s2 e2 rs2 vs2 rvs2 S2
      (by rw [hk2]; exact ctxShifts_of_allShift (fun _ => rfl) (by simp) hsz)
      (by rw [hk2]; exact hpo.2)
      ((s2, .leaf P.andTok) :: (vs1, tree C P y) :: (s1, .leaf P.btwTok) :: (v, tree C P x) :: st)
      tail rest l dc
      (ec - (toks C P x).length - 1 - (toks C P y).length - 1) eo
      (cn + (toks C P x).length + 1 + (toks C P y).length + 1) er
      ((tree C P y).postorder.reverse ++ ((tree C P x).postorder.reverse ++ lg))
      rfl hf hval2 (reduces_tail hred)
    -- reduce `expr BETWEEN expr AND expr`
    have hact : rvs2.action l.term = .reduce C.btwNo :=
      reduce_at S2 (by rw [hk2]; rfl) hval2 (by rw [hk2]; exact reduces_head hred)
    have h6 := runN_one (step_reduce (T := T) (mode := mode) (bad := bad)
      (st := (vs2, tree C P z) :: (s2, .leaf P.andTok) :: (vs1, tree C P y) ::
        (s1, .leaf P.btwTok) :: (v, tree C P x) :: st)
      (seg := [(vs2, tree C P z), (s2, .leaf P.andTok), (vs1, tree C P y),
        (s1, .leaf P.btwTok), (v, tree C P x)]) (rest := st) (inp := rest) (l := l)
      (ec - (toks C P x).length - 1 - (toks C P y).length - 1 - (toks C P z).length) eo
      (cn + (toks C P x).length + 1 + (toks C P y).length + 1 + (toks C P z).length + dc) er
      ((tree C P z).postorder.reverse ++
        ((tree C P y).postorder.reverse ++ ((tree C P x).postorder.reverse ++ lg)))
      S2.hrv S2.hdv hact G.btw rfl rfl S.hru S.hv)
    have h := runN_trans h1 (runN_trans h2 (runN_trans h3 (runN_trans h4 (runN_trans h5 h6))))
    have hin : toks C P (.btw x y z) ++ tail =
        toks C P x ++ P.btwTok :: (toks C P y ++ P.andTok :: (toks C P z ++ tail)) := by
      simp [toks_btw G]
    have hn : simSteps C (.btw x y z) =
        simSteps C x + (1 + (simSteps C y + (1 + (simSteps C z + 1)))) := by
      simp only [simSteps]; omega
    have hk : (toks C P (.btw x y z)).length =
        (toks C P x).length + (toks C P y).length + (toks C P z).length + 2 := by
      simp [toks_btw G]; omega
    rw [hin, hn, h, hk]
    exact cfg_eq (by simp [tree]) (by omega) (by omega)
      (by simp [tree, PT.postorder, postorderL])

/-! ### packaging -/

/-- `l` is one of the closing (non-operator) lookaheads of the entry: a terminal, or the end of input -/
def Closer (ent : Entry) : LA → Prop
  | .tok a => ent.cl.testBit a = true
  | .eof => ent.cl.testBit 0 = true
  | .err => False

/-- the configuration after the driver has parsed an expression of `k` tokens into the tree `t`
on top of the stack of `c`: new top state `v`, lookahead `l` pending (`dc` = 1 if it was taken from
the input, 0 for the end of input), input `rest`; `log` records the reductions in the order made -/
def afterExpr (c : Cfg) (v : Nat) (t : PT) (l : LA) (rest : List Nat) (k dc : Nat) : Cfg :=
  { c with st := (v, t) :: c.st, input := rest, la := some l, errcount := c.errcount - k,
           consumed := c.consumed + k + dc, log := t.postorder.reverse ++ c.log }

theorem gotoExpr_of_start {u : Nat} {ent : Entry} {ru : Row} {v : Nat} {rv : Row}
    (S : StartFacts T P F C u ent ru v rv) : gotoExpr T C u = some v := by
  simp [gotoExpr, S.hru, S.hv]

/-- **simulation, canonical trees**: any canonical tree of the fragment, any expression-start state
(of any role whose frame shifts the left spine of the tree), any valid lookahead that reduces the
right spine (closers always do). -/
theorem sim_canon (hC : certOK T P F C = true) (e : Expr) (hcan : canon P e = true)
    (hfr : inFragment F e = true) {u : Nat} {ent : Entry} (hs : C.starts.get? u = some ent)
    (hctx : CtxShifts P ent.kind (leftOps P e)) (hpo : preOK C ent.kind e = true)
    (c : Cfg) (htop : topState c.st = u)
    (hla : c.la = none) (hlas : c.las = []) {tail rest : List Nat} {l : LA} {dc : Nat}
    (hf : fetchOf bad tail = some (l, rest, dc)) (hval : Valid C P F ent l)
    (hred : Reduces C P F (rightProds P e) l) (hin : c.input = toks C P e ++ tail) :
    ∃ v, gotoExpr T C u = some v ∧
      runN T mode bad (simSteps C e) c =
        some (afterExpr c v (tree C P e) l rest (toks C P e).length dc) := by
  obtain ⟨ru, v, rv, S⟩ := cert_start hC hs
  refine ⟨v, gotoExpr_of_start S, ?_⟩
  obtain ⟨st, inp, la, las, ec, eo, cn, er, lg⟩ := c
  simp only at htop hla hlas hin
  subst hla hlas hin
  exact sim_main hC e hcan hfr u ent ru v rv S hctx hpo st tail rest l dc ec eo cn er lg htop hf hval hred

theorem closer_valid {ent : Entry} {l : LA} (h : Closer ent l) : Valid C P F ent l := by
  cases l with
  | tok a => exact Or.inr h
  | eof => exact h
  | err => exact h

theorem closer_reduces (G : GlobalFacts T P F C) {ent : Entry} (hd : ent.cl &&& C.opsMask = 0)
    {l : LA} (h : Closer ent l) (ps : List Prec) : Reduces C P F ps l := by
  cases l with
  | tok a => exact reduces_closer G hd h ps
  | eof => trivial
  | err => trivial

theorem inFragment_wrapIf (c : Bool) (e : Expr) : inFragment F (wrapIf c e) = inFragment F e := by
  cases c <;> rfl

theorem inFragment_addParens (S : Strata) (e : Expr) :
    inFragment F (addParens S e) = inFragment F e := by
  induction e with
  | atom n => rfl
  | paren e ih => simp only [addParens, inFragment, ih]
  | pre o e ih => simp only [addParens, inFragment, inFragment_wrapIf, ih]
  | bin o l r ihl ihr => simp only [addParens, inFragment, inFragment_wrapIf, ihl, ihr]
  | btw x y z ihx ihy ihz => simp only [addParens, inFragment, inFragment_wrapIf, ihx, ihy, ihz]

/-! ### prefix operators stand only where the start states open them -/

/-- the roles a position of a fragment tree can have -/
def KindIn (F : Fragment) (k : Kind) : Prop :=
  k = .top ∨ k = .btw ∨ k = .band ∨ (∃ o, o ∈ F.bins ∧ k = .opr o) ∨ (∃ o, o ∈ F.pres ∧ k = .pre o)

theorem preCompat_spec {S : Strata} (h : preCompat C S F = true) {k : Kind} (hk : KindIn F k)
    {o : Nat} (ho : o ∈ F.pres) (hle : kindStratum S k ≤ S.pre o) : preAllowed C k o = true := by
  simp only [preCompat, List.all_eq_true, List.mem_append, List.mem_cons, List.mem_map,
    Bool.or_eq_true, Bool.not_eq_true', List.not_mem_nil, or_false] at h
  have hm : ((k = .top ∨ k = .btw ∨ k = .band) ∨ ∃ a, a ∈ F.bins ∧ Kind.opr a = k) ∨
      ∃ a, a ∈ F.pres ∧ Kind.pre a = k := by
    rcases hk with h1 | h1 | h1 | ⟨a, ha, h1⟩ | ⟨a, ha, h1⟩
    · exact Or.inl (Or.inl (Or.inl h1))
    · exact Or.inl (Or.inl (Or.inr (Or.inl h1)))
    · exact Or.inl (Or.inl (Or.inr (Or.inr h1)))
    · exact Or.inl (Or.inr ⟨a, ha, h1.symm⟩)
    · exact Or.inr ⟨a, ha, h1.symm⟩
  rcases h k hm o ho with h2 | h2
  · have : Nat.ble (kindStratum S k) (S.pre o) = true := Nat.ble_eq_true_of_le hle
    rw [this] at h2
    cases h2
  · exact h2

theorem preOK_wrapIf {k : Kind} {c : Bool} {e : Expr} (h1 : preOK C .top e = true)
    (h2 : c = false → preOK C k e = true) : preOK C k (wrapIf c e) = true := by
  cases c with
  | true => simpa [wrapIf, preOK] using h1
  | false => simpa [wrapIf] using h2 rfl

theorem stratum_addParens (S : Strata) (e : Expr) : stratum S (addParens S e) = stratum S e := by
  cases e <;> rfl

/-- the minimally parenthesised print of a fragment tree uses prefix operators only where they are
allowed -/
theorem preOK_addParens {S : Strata} (h : preCompat C S F = true) (e : Expr)
    (he : inFragment F e = true) :
    ∀ k, KindIn F k → kindStratum S k ≤ stratum S e → preOK C k (addParens S e) = true := by
  induction e with
  | atom n => intro k _ _; rfl
  | paren e ih =>
    intro k _ _
    simp only [inFragment] at he
    simp only [addParens, preOK]
    exact ih he .top (Or.inl rfl) (Nat.zero_le _)
  | pre o e ih =>
    intro k hk hle
    simp only [inFragment, Bool.and_eq_true, List.contains_eq_mem, decide_eq_true_eq] at he
    obtain ⟨ho, hi⟩ := he
    simp only [addParens, preOK, Bool.and_eq_true]
    refine ⟨preCompat_spec h hk ho (by simpa [stratum] using hle), ?_⟩
    apply preOK_wrapIf (ih hi .top (Or.inl rfl) (Nat.zero_le _))
    intro hc
    apply ih hi (.pre o) (Or.inr (Or.inr (Or.inr (Or.inr ⟨o, ho, rfl⟩))))
    simp at hc
    simpa [kindStratum] using hc
  | bin o l r ihl ihr =>
    intro k hk hle
    simp only [inFragment, Bool.and_eq_true, List.contains_eq_mem, decide_eq_true_eq] at he
    obtain ⟨⟨ho, hl⟩, hr⟩ := he
    simp only [stratum] at hle
    simp only [addParens, preOK, Bool.and_eq_true]
    constructor
    · apply preOK_wrapIf (ihl hl .top (Or.inl rfl) (Nat.zero_le _))
      intro hc
      apply ihl hl k hk
      split at hc <;> simp at hc <;> omega
    · apply preOK_wrapIf (ihr hr .top (Or.inl rfl) (Nat.zero_le _))
      intro hc
      apply ihr hr (.opr o) (Or.inr (Or.inr (Or.inr (Or.inl ⟨o, ho, rfl⟩))))
      simp at hc
      simp only [kindStratum]
      omega
  | btw x y z ihx ihy ihz =>
    intro k hk hle
    simp only [inFragment, Bool.and_eq_true] at he
    obtain ⟨⟨hx, hy⟩, hz⟩ := he
    simp only [stratum] at hle
    simp only [addParens, preOK, Bool.and_eq_true]
    refine ⟨⟨?_, ?_⟩, ?_⟩
    · apply preOK_wrapIf (ihx hx .top (Or.inl rfl) (Nat.zero_le _))
      intro hc
      apply ihx hx k hk
      simp at hc
      omega
    · apply preOK_wrapIf (ihy hy .top (Or.inl rfl) (Nat.zero_le _))
      intro hc
      apply ihy hy .btw (Or.inr (Or.inl rfl))
      simp at hc
      simpa [kindStratum] using hc
    · apply preOK_wrapIf (ihz hz .top (Or.inl rfl) (Nat.zero_le _))
      intro hc
      apply ihz hz .band (Or.inr (Or.inr (Or.inl rfl)))
      simp at hc
      simpa [kindStratum] using hc

/-- canonical trees in a context with nothing pending (`Kind.top`), closed by a closer -/
theorem sim_top (hC : certOK T P F C = true) (e : Expr) (hcan : canon P e = true)
    (hfr : inFragment F e = true) {u : Nat} {ent : Entry} (hs : C.starts.get? u = some ent)
    (hk : ent.kind = .top) (hpo : preOK C .top e = true) (c : Cfg) (htop : topState c.st = u)
    (hla : c.la = none) (hlas : c.las = []) {tail rest : List Nat} {l : LA} {dc : Nat}
    (hf : fetchOf bad tail = some (l, rest, dc)) (hcl : Closer ent l)
    (hin : c.input = toks C P e ++ tail) :
    ∃ v, gotoExpr T C u = some v ∧
      runN T mode bad (simSteps C e) c =
        some (afterExpr c v (tree C P e) l rest (toks C P e).length dc) := by
  obtain ⟨ru, v, rv, S⟩ := cert_start hC hs
  exact sim_canon hC e hcan hfr hs (by rw [hk]; exact ctxShifts_top _) (by rw [hk]; exact hpo) c htop
    hla hlas hf
    (closer_valid hcl) (closer_reduces (cert_global hC) S.disj hcl _) hin

/-- **simulation, SQL grouping** (Level B): under Φ3a (`sqlOrder`) and the certificate, the real
driver builds the tree of `addParens S e` from its printed tokens. -/
theorem sim_sql (hC : certOK T P F C = true) (S : Strata) (hO : sqlOrder P S F = true)
    (hPC : preCompat C S F = true) (e : Expr) (hfr : inFragment F e = true) {u : Nat} {ent : Entry}
    (hs : C.starts.get? u = some ent) (hk : ent.kind = .top) (c : Cfg) (htop : topState c.st = u)
    (hla : c.la = none) (hlas : c.las = []) {tail rest : List Nat} {l : LA} {dc : Nat}
    (hf : fetchOf bad tail = some (l, rest, dc)) (hcl : Closer ent l)
    (hin : c.input = toks C P (addParens S e) ++ tail) :
    ∃ v, gotoExpr T C u = some v ∧
      runN T mode bad (simSteps C (addParens S e)) c =
        some (afterExpr c v (tree C P (addParens S e)) l rest
          (toks C P (addParens S e)).length dc) :=
  sim_top hC _ (sql_canon P S F hO e hfr) (by rw [inFragment_addParens]; exact hfr) hs hk
    (preOK_addParens hPC e hfr .top (Or.inl rfl) (Nat.zero_le _)) c htop hla hlas hf hcl hin

/-- Boolean forms of the side conditions, for `decide +kernel` on generated data -/
def shiftsTo (T : Tables) (u0 t0 u : Nat) : Bool :=
  match rowND T u0 with
  | some r => shiftTarget r t0 == some u
  | none => false

def topStartWith (C : Cert) (u a : Nat) : Bool :=
  match C.starts.get? u with
  | some ent => ent.kind == .top && ent.cl.testBit a
  | none => false

/-- **a whole expression context**: a token `t0` shifted from state `u0` into the expression-start
state `u` (e.g. `SELECT` from the initial state), the expression, a closing token `a`. -/
theorem sim_sql_ctx (hC : certOK T P F C = true) (S : Strata) (hO : sqlOrder P S F = true)
    (hPC : preCompat C S F = true)
    {u0 t0 u a : Nat} (hsh : shiftsTo T u0 t0 u = true) (hent : topStartWith C u a = true)
    (e : Expr) (hfr : inFragment F e = true) (c : Cfg) (htop : topState c.st = u0)
    (hla : c.la = none) (hlas : c.las = []) (rest : List Nat)
    (hin : c.input = t0 :: (toks C P (addParens S e) ++ a :: rest)) :
    ∃ v, gotoExpr T C u = some v ∧
      runN T mode bad (1 + simSteps C (addParens S e)) c =
        some ⟨(v, tree C P (addParens S e)) :: (u, .leaf t0) :: c.st, rest, some (.tok a), [],
          c.errcount - 1 - (toks C P (addParens S e)).length, c.errok,
          c.consumed + 1 + (toks C P (addParens S e)).length + 1, c.err,
          (tree C P (addParens S e)).postorder.reverse ++ c.log⟩ := by
  unfold shiftsTo at hsh
  split at hsh
  · rename_i r0 hr0
    have hsh' := shiftTarget_some (by simpa using hsh : shiftTarget r0 t0 = some u)
    unfold topStartWith at hent
    split at hent
    · rename_i ent hs
      simp only [Bool.and_eq_true, beq_iff_eq] at hent
      obtain ⟨st, inp, la, las, ec, eo, cn, er, lg⟩ := c
      simp only at htop hla hlas hin
      subst hla hlas hin htop
      have h1 := runN_shift_tok (T := T) (mode := mode) (bad := bad) (st := st) (t := t0)
        (ts := toks C P (addParens S e) ++ a :: rest) ec eo cn er lg (rowND_some hr0).1
        (rowND_some hr0).2 hsh'
      obtain ⟨v, hv, h2⟩ := sim_sql (T := T) (mode := mode) (bad := bad) hC S hO hPC e hfr hs hent.1
        ⟨(u, .leaf t0) :: st, toks C P (addParens S e) ++ a :: rest, none, [], ec - 1, eo, cn + 1,
          er, lg⟩ rfl rfl rfl (tail := a :: rest) (rest := rest) (l := .tok a) (dc := 1) rfl
        hent.2 rfl
      exact ⟨v, hv, runN_trans h1 h2⟩
    · cases hent
  · cases hsh

end MindsVerif.ExprSim
