import MindsVerif.Lemmas.ExprSimStep
/-! What `certOK = true` says, as propositions. -/
namespace MindsVerif.ExprSim
open MindsVerif.LR MindsVerif.OPM

/-- `o` is an infix operator of the fragment (a binary operator or BETWEEN) -/
def IsOp (P : Table) (F : Fragment) (o : Nat) : Prop := o ∈ F.bins ∨ o = P.btwTok

theorem termCompat_spec {P : Table} {C : Cert} : ∀ {l : List Nat}, termCompat P C l = true →
    ∀ a, a ∈ l → ∀ b, b ∈ l → C.opTerm a = C.opTerm b →
      P.tokLevel a = P.tokLevel b ∧ (C.opRest a = C.opRest b → a = b) := by
  intro l
  induction l with
  | nil => intro _ a ha; cases ha
  | cons x xs ih =>
    intro h a ha b hb hab
    simp only [termCompat, Bool.and_eq_true, List.all_eq_true, Bool.or_eq_true, bne_iff_ne, ne_eq,
      beq_iff_eq] at h
    obtain ⟨hx, hxs⟩ := h
    rcases List.mem_cons.1 ha with rfl | ha'
    · rcases List.mem_cons.1 hb with rfl | hb'
      · exact ⟨rfl, fun _ => rfl⟩
      · rcases hx b hb' with h1 | ⟨h1, h2⟩
        · exact absurd hab.symm h1
        · exact ⟨h1.symm, fun e => absurd e.symm h2⟩
    · rcases List.mem_cons.1 hb with rfl | hb'
      · rcases hx a ha' with h1 | ⟨h1, h2⟩
        · exact absurd hab h1
        · exact ⟨h1, fun e => absurd e h2⟩
      · exact ih hxs a ha' b hb' hab

theorem rowND_some {T : Tables} {s : Nat} {r : Row} (h : rowND T s = some r) :
    T.rows.get? s = some r ∧ r.dflt = none := by
  unfold rowND at h
  split at h
  · rename_i r' hr
    split at h
    · rename_i hd
      simp only [Option.some.injEq] at h
      subst h
      exact ⟨hr, hd⟩
    · cases h
  · cases h

theorem shiftTarget_some {r : Row} {t s : Nat} (h : shiftTarget r t = some s) :
    r.action t = .shift s := by
  unfold shiftTarget at h
  split at h
  · rename_i s' hs
    simp only [Option.some.injEq] at h
    subst h
    exact hs
  · cases h

theorem entryWith_spec {C : Cert} {s : Nat} {k : Kind} {cl : Nat} (h : entryWith C s k cl = true) :
    ∃ e, C.starts.get? s = some e ∧ e.kind = k ∧ cl &&& e.cl = cl := by
  unfold entryWith at h
  split at h
  · rename_i e he
    simp only [Bool.and_eq_true, beq_iff_eq] at h
    exact ⟨e, he, h.1, h.2⟩
  · cases h

theorem prodIs_spec {T : Tables} {p lhs : Nat} {rhs : List Nat} (h : prodIs T p lhs rhs = true) :
    T.prods.get? p = some ⟨lhs, rhs⟩ := by
  unfold prodIs at h
  split at h
  · rename_i pr hp
    simp only [Bool.and_eq_true, beq_iff_eq] at h
    obtain ⟨h1, h2⟩ := h
    cases pr
    simp only at h1 h2
    subst h1 h2
    exact hp
  · cases h

theorem unitProd_spec {T : Tables} {p lhs : Nat} (h : unitProd T p lhs = true) :
    ∃ pr, T.prods.get? p = some pr ∧ pr.lhs = lhs ∧ pr.rhs.length = 1 := by
  unfold unitProd at h
  split at h
  · rename_i pr hp
    simp only [Bool.and_eq_true, beq_iff_eq] at h
    exact ⟨pr, hp, h.1, h.2⟩
  · cases h

/-! ### global facts -/

structure GlobalFacts (T : Tables) (P : Table) (F : Fragment) (C : Cert) : Prop where
  bin : ∀ o, o ∈ F.bins →
    T.prods.get? (C.binNo o) = some ⟨C.exprNt, (2 * C.exprNt + 1) :: 2 * C.opTerm o ::
      ((C.opRest o).toList.map (2 * ·) ++ [2 * C.exprNt + 1])⟩ ∧
      C.opsMask.testBit (C.opTerm o) = true
  pre : ∀ o, o ∈ F.pres → T.prods.get? (C.preNo o) = some ⟨C.exprNt, [2 * o, 2 * C.exprNt + 1]⟩ ∧
    C.opTerm o = o ∧ C.opRest o = none
  btw : T.prods.get? C.btwNo = some ⟨C.exprNt,
    [2 * C.exprNt + 1, 2 * P.btwTok, 2 * C.exprNt + 1, 2 * P.andTok, 2 * C.exprNt + 1]⟩
  btwMask : C.opsMask.testBit P.btwTok = true
  andMem : P.andTok ∈ F.bins
  btwTerm : C.opTerm P.btwTok = P.btwTok ∧ C.opRest P.btwTok = none
  andTerm : C.opTerm P.andTok = P.andTok ∧ C.opRest P.andTok = none
  /-- operators with the same first terminal and the same second terminal are the same operator -/
  inj : ∀ a, IsOp P F a → ∀ b, IsOp P F b → C.opTerm a = C.opTerm b → C.opRest a = C.opRest b → a = b
  /-- operators announced by the same terminal have the same lookahead level -/
  lvl : ∀ a, IsOp P F a → ∀ b, IsOp P F b → C.opTerm a = C.opTerm b → P.tokLevel a = P.tokLevel b
  par : T.prods.get? C.parNo = some ⟨C.exprNt, [2 * C.lpar, 2 * C.exprNt + 1, 2 * C.rpar]⟩
  chain : ∀ pl, pl ∈ C.chain → ∃ pr, T.prods.get? pl.1 = some pr ∧ pr.lhs = pl.2 ∧ pr.rhs.length = 1
  chainNe : C.chain ≠ []

theorem globalFacts {T : Tables} {P : Table} {F : Fragment} {C : Cert}
    (h : globalOK T P F C = true) : GlobalFacts T P F C := by
  simp only [globalOK, Bool.and_eq_true, List.all_eq_true, Bool.not_eq_true',
    List.isEmpty_eq_false_iff, List.contains_eq_mem, decide_eq_true_eq, beq_iff_eq,
    Option.isNone_iff_eq_none] at h
  obtain ⟨⟨⟨⟨⟨⟨⟨⟨⟨⟨⟨⟨⟨⟨h1, h2⟩, h3⟩, h4⟩, h4a⟩, hb1⟩, hb2⟩, ha1⟩, ha2⟩, hinj⟩, h5⟩, h6⟩, h7⟩, _⟩, _⟩ := h
  have hmem : ∀ a, IsOp P F a → a ∈ F.bins ++ [P.btwTok] := by
    intro a ha
    rcases ha with ha | rfl
    · exact List.mem_append_left _ ha
    · simp
  exact
    { bin := fun o ho => ⟨prodIs_spec (h1 o ho).1, (h1 o ho).2⟩
      pre := fun o ho => ⟨prodIs_spec (h2 o ho).1.1, (h2 o ho).1.2, (h2 o ho).2⟩
      btw := prodIs_spec h3
      btwMask := h4
      andMem := h4a
      btwTerm := ⟨hb1, hb2⟩
      andTerm := ⟨ha1, ha2⟩
      inj := fun a ha b hb hab hr => (termCompat_spec hinj a (hmem a ha) b (hmem b hb) hab).2 hr
      lvl := fun a ha b hb hab => (termCompat_spec hinj a (hmem a ha) b (hmem b hb) hab).1
      par := prodIs_spec h5
      chain := fun pl hpl => unitProd_spec (h6 pl hpl)
      chainNe := h7 }

theorem GlobalFacts.opMask {T : Tables} {P : Table} {F : Fragment} {C : Cert}
    (G : GlobalFacts T P F C) {a : Nat} (h : IsOp P F a) :
    C.opsMask.testBit (C.opTerm a) = true := by
  rcases h with h | rfl
  · exact (G.bin a h).2
  · rw [G.btwTerm.1]; exact G.btwMask

/-! ### facts about one expression-start state -/

structure ParenFacts (T : Tables) (C : Cert) (ru : Row) (mask : Nat)
    (u' : Nat) (e' : Entry) (ru' : Row) (v' : Nat) (rv' : Row) (w : Nat) (rw : Row) : Prop where
  shiftL : ru.action C.lpar = .shift u'
  start : C.starts.get? u' = some e'
  kind : e'.kind = .top
  clR : e'.cl.testBit C.rpar = true
  hru : T.rows.get? u' = some ru'
  hdu : ru'.dflt = none
  hv : ru'.goto C.exprNt = some v'
  hrv : T.rows.get? v' = some rv'
  hdv : rv'.dflt = none
  shiftR : rv'.action C.rpar = .shift w
  hrw : T.rows.get? w = some rw
  hdw : rw.dflt = none
  red : actsReduce rw mask C.parNo = true

theorem parenFacts {T : Tables} {C : Cert} {ru : Row} {mask : Nat}
    (h : parenOK T C ru mask = true) :
    ∃ u' e' ru' v' rv' w rw, ParenFacts T C ru mask u' e' ru' v' rv' w rw := by
  unfold parenOK at h
  split at h
  · cases h
  · rename_i u' h1
    split at h
    · cases h
    · rename_i e' h2
      simp only [Bool.and_eq_true, beq_iff_eq] at h
      obtain ⟨⟨h3, h4⟩, h⟩ := h
      split at h
      · cases h
      · rename_i ru' h5
        split at h
        · cases h
        · rename_i v' h6
          split at h
          · cases h
          · rename_i rv' h7
            split at h
            · cases h
            · rename_i w h8
              split at h
              · cases h
              · rename_i rw h9
                exact ⟨u', e', ru', v', rv', w, rw,
                  { shiftL := shiftTarget_some h1, start := h2, kind := h3, clR := h4
                    hru := (rowND_some h5).1, hdu := (rowND_some h5).2, hv := h6
                    hrv := (rowND_some h7).1, hdv := (rowND_some h7).2
                    shiftR := shiftTarget_some h8
                    hrw := (rowND_some h9).1, hdw := (rowND_some h9).2, red := h }⟩

/-- the shifts that consume the token(s) of operator `o` from the row `rv`, ending in state `s'` -/
def OpPath (T : Tables) (C : Cert) (rv : Row) (o s' : Nat) : Prop :=
  match C.opRest o with
  | none => rv.action (C.opTerm o) = .shift s'
  | some t => ∃ s rs, rv.action (C.opTerm o) = .shift s ∧ T.rows.get? s = some rs ∧
      rs.dflt = none ∧ rs.action t = .shift s'

theorem opTarget_some {T : Tables} {C : Cert} {rv : Row} {o s' : Nat}
    (h : opTarget T C rv o = some s') : OpPath T C rv o s' := by
  unfold opTarget at h
  unfold OpPath
  split at h
  · cases h
  · rename_i s hs
    split at h
    · rename_i hr
      rw [hr]
      simp only [Option.some.injEq] at h
      subst h
      exact shiftTarget_some hs
    · rename_i t hr
      rw [hr]
      split at h
      · rename_i rs hrs
        exact ⟨s, rs, shiftTarget_some hs, (rowND_some hrs).1, (rowND_some hrs).2,
          shiftTarget_some h⟩
      · cases h

theorem opOK_shift {T : Tables} {P : Table} {C : Cert} {ent : Entry} {rv : Row} {o : Nat}
    (h : opOK T P C ent rv o = true) (hd : dec P ent.kind o = .shift) :
    ∃ s e', OpPath T C rv o s ∧ C.starts.get? s = some e' ∧
      e'.kind = kindAfter P ent.kind o ∧ ent.cl &&& e'.cl = ent.cl := by
  unfold opOK at h
  rw [hd] at h
  simp only at h
  split at h
  · rename_i s hs
    obtain ⟨e', h1, h2, h3⟩ := entryWith_spec h
    exact ⟨s, e', opTarget_some hs, h1, h2, h3⟩
  · cases h

theorem opOK_reduce {T : Tables} {P : Table} {C : Cert} {ent : Entry} {rv : Row} {o : Nat}
    (h : opOK T P C ent rv o = true) (hd : dec P ent.kind o = .reduce) :
    ∃ p, prodOf C ent.kind = some p ∧ rv.action (C.opTerm o) = .reduce p := by
  unfold opOK at h
  rw [hd] at h
  simp only at h
  split at h
  · rename_i p hp
    exact ⟨p, hp, by simpa using h⟩
  · cases h

structure StartFacts (T : Tables) (P : Table) (F : Fragment) (C : Cert) (u : Nat) (ent : Entry)
    (ru : Row) (v : Nat) (rv : Row) : Prop where
  hru : T.rows.get? u = some ru
  hdu : ru.dflt = none
  hv : ru.goto C.exprNt = some v
  hrv : T.rows.get? v = some rv
  hdv : rv.dflt = none
  disj : ent.cl &&& C.opsMask = 0
  atom : ∃ i, ru.action C.atomTok = .shift i ∧
    chainOK T ru (ent.cl ||| C.opsMask) i C.chain = some v
  paren : ∃ u' e' ru' v' rv' w rw,
    ParenFacts T C ru (ent.cl ||| C.opsMask) u' e' ru' v' rv' w rw
  pre : ∀ o, o ∈ F.pres → preAllowed C ent.kind o = true →
    ∃ s e', ru.action o = .shift s ∧ C.starts.get? s = some e' ∧
      e'.kind = .pre o ∧ ent.cl &&& e'.cl = ent.cl
  ops : ∀ o, IsOp P F o → opOK T P C ent rv o = true
  closers : ∀ p, prodOf C ent.kind = some p → actsReduce rv ent.cl p = true

theorem startFacts {T : Tables} {P : Table} {F : Fragment} {C : Cert} {u : Nat} {ent : Entry}
    (h : startOK T P F C u ent = true) : ∃ ru v rv, StartFacts T P F C u ent ru v rv := by
  unfold startOK at h
  split at h
  · cases h
  · rename_i ru h1
    split at h
    · cases h
    · rename_i v h2
      split at h
      · cases h
      · rename_i rv h3
        simp only [Bool.and_eq_true, beq_iff_eq, List.all_eq_true, List.mem_append,
          List.mem_singleton] at h
        obtain ⟨⟨⟨⟨⟨h4, h5⟩, h6⟩, h7⟩, h8⟩, h9⟩ := h
        refine ⟨ru, v, rv,
          { hru := (rowND_some h1).1, hdu := (rowND_some h1).2, hv := h2
            hrv := (rowND_some h3).1, hdv := (rowND_some h3).2, disj := h4
            atom := ?_, paren := parenFacts h6, pre := ?_, ops := fun o ho => h8 o ho
            closers := ?_ }⟩
        · split at h5
          · rename_i i hi
            exact ⟨i, shiftTarget_some hi, by simpa using h5⟩
          · cases h5
        · intro o ho hal
          have := h7 o ho
          rw [hal] at this
          simp only [Bool.not_true, Bool.false_or] at this
          split at this
          · rename_i s hs
            obtain ⟨e', a, b, c⟩ := entryWith_spec this
            exact ⟨s, e', shiftTarget_some hs, a, b, c⟩
          · cases this
        · intro p hp
          rw [hp] at h9
          exact h9

theorem cert_start {T : Tables} {P : Table} {F : Fragment} {C : Cert}
    (h : certOK T P F C = true) {u : Nat} {ent : Entry} (hs : C.starts.get? u = some ent) :
    ∃ ru v rv, StartFacts T P F C u ent ru v rv := by
  simp only [certOK, Bool.and_eq_true] at h
  exact startFacts (Trie.allIdx_get' _ _ _ _ h.2 hs)

theorem cert_global {T : Tables} {P : Table} {F : Fragment} {C : Cert}
    (h : certOK T P F C = true) : GlobalFacts T P F C := by
  simp only [certOK, Bool.and_eq_true] at h
  exact globalFacts h.1

end MindsVerif.ExprSim
