import MindsVerif.Model.ExprSim
import MindsVerif.Lemmas.LRPath
/-! Single steps of the LR driver on explicit configurations, and composition of `runN`.
These are the LOCALITY facts of the driver: a shift only looks at the top state and the lookahead;
a reduction by a production of length `n` only looks at the top state, the lookahead, the `n` topmost
stack entries and the state below them. -/
namespace MindsVerif.ExprSim
open MindsVerif.LR MindsVerif.OPM

variable {T : Tables} {mode : Mode} {bad : Bool}

/-! ### `runN` -/

theorem runN_add (k1 k2 : Nat) (c : Cfg) :
    runN T mode bad (k1 + k2) c = (runN T mode bad k1 c).bind (runN T mode bad k2) := by
  induction k1 generalizing c with
  | zero => simp [runN]
  | succ k ih =>
    have : k + 1 + k2 = (k + k2) + 1 := by omega
    rw [this]
    simp only [runN]
    cases step T mode bad c with
    | inl c' => simpa using ih c'
    | inr o => simp

theorem runN_trans {k1 k2 : Nat} {c c' c'' : Cfg} (h1 : runN T mode bad k1 c = some c')
    (h2 : runN T mode bad k2 c' = some c'') : runN T mode bad (k1 + k2) c = some c'' := by
  rw [runN_add, h1]; simpa using h2

theorem runN_one {c c' : Cfg} (h : step T mode bad c = .inl c') : runN T mode bad 1 c = some c' := by
  simp [runN, h]

theorem runN_step {n : Nat} {c c' c'' : Cfg} (h : step T mode bad c = .inl c')
    (h2 : runN T mode bad n c' = some c'') : runN T mode bad (1 + n) c = some c'' :=
  runN_trans (runN_one h) h2

theorem runN_congr_step {n : Nat} {c c' : Cfg} (h : step T mode bad c = step T mode bad c') :
    runN T mode bad (n + 1) c = runN T mode bad (n + 1) c' := by
  simp only [runN, h]

/-- the real driver `LR.run` passes through every configuration `runN` reaches -/
theorem run_of_runN {n : Nat} {c c' : Cfg} (h : runN T mode bad n c = some c') (k : Nat) :
    run T mode bad (n + k) c = run T mode bad k c' := by
  induction n generalizing c with
  | zero => simp [runN] at h; subst h; simp
  | succ n ih =>
    have : n + 1 + k = (n + k) + 1 := by omega
    rw [this]
    simp only [runN] at h
    simp only [run]
    cases hs : step T mode bad c with
    | inl c1 => rw [hs] at h; exact ih h
    | inr o => rw [hs] at h; simp at h

theorem cfg_eq {st st' : Stack} {inp : List Nat} {la : Option LA} {ec ec' : Nat} {eo : Bool}
    {cn cn' : Nat} {er : Option ErrInfo} {lg lg' : List Nat}
    (h1 : st = st') (h2 : ec = ec') (h3 : cn = cn') (h4 : lg = lg') :
    some (Cfg.mk st inp la [] ec eo cn er lg) = some (Cfg.mk st' inp la [] ec' eo cn' er lg') := by
  subst h1 h2 h3 h4; rfl

/-! ### single steps -/

/-- with no default reduction in the top state, fetching the lookahead first does not change the
step -/
theorem step_prefetch {st : Stack} {tail rest : List Nat} {l : LA} {dc : Nat} {r : Row}
    (ec : Nat) (eo : Bool) (cn : Nat) (er : Option ErrInfo) (lg : List Nat)
    (hrow : T.rows.get? (topState st) = some r) (hd : r.dflt = none)
    (hf : fetchOf bad tail = some (l, rest, dc)) :
    step T mode bad ⟨st, tail, none, [], ec, eo, cn, er, lg⟩ =
      step T mode bad ⟨st, rest, some l, [], ec, eo, cn + dc, er, lg⟩ := by
  cases tail with
  | cons t ts =>
    simp only [fetchOf, Option.some.injEq, Prod.mk.injEq] at hf
    obtain ⟨rfl, rfl, rfl⟩ := hf
    simp [step, hrow, hd, fetch]
  | nil =>
    cases bad with
    | true => simp [fetchOf] at hf
    | false =>
      simp only [fetchOf, cond_false, Option.some.injEq, Prod.mk.injEq] at hf
      obtain ⟨rfl, rfl, rfl⟩ := hf
      simp [step, hrow, hd, fetch]

theorem step_shift {st : Stack} {inp : List Nat} {l : LA} {r : Row} {s' : Nat}
    (ec : Nat) (eo : Bool) (cn : Nat) (er : Option ErrInfo) (lg : List Nat)
    (hrow : T.rows.get? (topState st) = some r) (hd : r.dflt = none)
    (hact : r.action l.term = .shift s') :
    step T mode bad ⟨st, inp, some l, [], ec, eo, cn, er, lg⟩ =
      .inl ⟨(s', .leaf l.term) :: st, inp, none, [], ec - 1, eo, cn, er, lg⟩ := by
  simp [step, hrow, hd, fetch, hact, doShift]

theorem step_reduce {st seg rest : Stack} {inp : List Nat} {l : LA} {r r' : Row} {p g : Nat}
    {pr : Prod}
    (ec : Nat) (eo : Bool) (cn : Nat) (er : Option ErrInfo) (lg : List Nat)
    (hrow : T.rows.get? (topState st) = some r) (hd : r.dflt = none)
    (hact : r.action l.term = .reduce p)
    (hp : T.prods.get? p = some pr) (hst : st = seg ++ rest) (hlen : seg.length = pr.rhs.length)
    (hr : T.rows.get? (topState rest) = some r') (hg : r'.goto pr.lhs = some g) :
    step T mode bad ⟨st, inp, some l, [], ec, eo, cn, er, lg⟩ =
      .inl ⟨(g, .node p pr.lhs ((seg.map (·.2)).reverse)) :: rest, inp, some l, [], ec, eo, cn, er,
        p :: lg⟩ := by
  subst hst
  have h1 : pr.rhs.length ≤ seg.length + rest.length := by omega
  have h2 : (seg ++ rest).take pr.rhs.length = seg := by rw [← hlen]; simp
  have h3 : (seg ++ rest).drop pr.rhs.length = rest := by rw [← hlen]; simp
  simp [step, hrow, hd, fetch, hact, doReduce, hp, h1, h2, h3, hr, hg]

/-- shift of an input token when no lookahead is pending -/
theorem runN_shift_tok {st : Stack} {t : Nat} {ts : List Nat} {r : Row} {s' : Nat}
    (ec : Nat) (eo : Bool) (cn : Nat) (er : Option ErrInfo) (lg : List Nat)
    (hrow : T.rows.get? (topState st) = some r) (hd : r.dflt = none)
    (hact : r.action t = .shift s') :
    runN T mode bad 1 ⟨st, t :: ts, none, [], ec, eo, cn, er, lg⟩ =
      some ⟨(s', .leaf t) :: st, ts, none, [], ec - 1, eo, cn + 1, er, lg⟩ := by
  apply runN_one
  rw [step_prefetch (l := .tok t) (rest := ts) (dc := 1) ec eo cn er lg hrow hd rfl]
  exact step_shift (l := .tok t) ec eo (cn + 1) er lg hrow hd hact

/-! ### rows: `actsReduce` -/

theorem findKey_none_of_all {t : Nat} : ∀ {l : List Nat},
    (∀ e ∈ l, e / 4096 ≠ t) → findKey t l = none := by
  intro l
  induction l with
  | nil => intro _; rfl
  | cons e es ih =>
    intro h
    have he : (e / 4096 == t) = false := by simpa using h e (by simp)
    simp only [findKey, he, cond_false]
    exact ih (fun e' hm => h e' (by simp [hm]))

theorem testBit_of_and_eq {a b t : Nat} (h : a &&& b = a) (ha : a.testBit t = true) :
    b.testBit t = true := by
  have : (a &&& b).testBit t = true := by rw [h]; exact ha
  simp [Nat.testBit_and] at this
  exact this.2

theorem testBit_false_of_and_zero {a b t : Nat} (h : a &&& b = 0) (hb : b.testBit t = true) :
    a.testBit t = false := by
  have : (a &&& b).testBit t = false := by rw [h]; simp
  simp [Nat.testBit_and, hb] at this
  exact this

theorem findRed_of_redFirst {t mask p : Nat} (ht : mask.testBit t = true) :
    ∀ {l : List (Nat × Nat)}, redFirst l mask p = true → findRed t l = some p := by
  intro l
  induction l with
  | nil => intro h; simp [redFirst] at h
  | cons e es ih =>
    intro h
    obtain ⟨q, m⟩ := e
    simp only [redFirst, Bool.or_eq_true, Bool.and_eq_true, beq_iff_eq] at h
    rcases h with ⟨rfl, hm⟩ | ⟨hz, hrest⟩
    · have : m.testBit t = true := testBit_of_and_eq hm ht
      simp [findRed, this]
    · have : m.testBit t = false := testBit_false_of_and_zero hz ht
      simp only [findRed, this, cond_false]
      exact ih hrest

theorem action_of_actsReduce {r : Row} {mask p t : Nat} (h : actsReduce r mask p = true)
    (ht : mask.testBit t = true) : r.action t = .reduce p := by
  simp only [actsReduce, Bool.and_eq_true, List.all_eq_true, Bool.not_eq_true'] at h
  obtain ⟨hs, hr⟩ := h
  have h1 : findKey t r.shifts = none := by
    apply findKey_none_of_all
    intro e he heq
    have := hs e he
    rw [heq, ht] at this
    cases this
  simp [Row.action, h1, findRed_of_redFirst ht hr]

end MindsVerif.ExprSim
