import MindsVerif.Model.Fallback
/-! Helper lemmas for C17: propagation of "locally clean" through the evaluation order, the
column loop of `prepare_create_table`. -/
namespace MindsVerif.Fallback

theorem okExc_orElse (a b : Option Exc) : okExc (orElse a b) = (match a with | some e => e.caught | none => okExc b) := by
  cases a <;> simp [orElse, okExc]

mutual
/-- if no evaluated node fails a local check with an uncaught class, the first own-code exception of
the whole walk (if any) is one of the caught classes -/
theorem clean_ok (tb : Tables) (w : Bool) :
    ∀ (c : Ctx) (t : T), clean tb w c t = true → okExc (saRaises tb w c t) = true
  | c, .mk tag kids => by
    intro h
    unfold clean at h
    unfold saRaises
    by_cases hs : c = .skip
    · simp [hs, okExc]
    · simp only [hs, if_false] at h ⊢
      cases hp : pre tb c tag kids with
      | some e => simp only [hp] at h ⊢; simpa [okExc] using h
      | none =>
        simp only [hp, Bool.and_eq_true] at h ⊢
        have h1 := clean_okL tb w c tag 0 kids h.1
        cases hk : saRaisesL tb w c tag 0 kids with
        | some e => simpa [hk] using h1
        | none => simpa using h.2
theorem clean_okL (tb : Tables) (w : Bool) :
    ∀ (c : Ctx) (tag : Tag) (i : Nat) (ks : List T),
      cleanL tb w c tag i ks = true → okExc (saRaisesL tb w c tag i ks) = true
  | c, tag, i, [] => by intro _; simp [saRaisesL, okExc]
  | c, tag, i, k :: ks => by
    intro h
    unfold cleanL at h
    unfold saRaisesL
    simp only [Bool.and_eq_true] at h
    have h1 := clean_ok tb w (kidCtx w c tag i) k h.1
    cases hk : saRaises tb w (kidCtx w c tag i) k with
    | some e => simpa [hk] using h1
    | none => exact clean_okL tb w c tag (i + 1) ks h.2
end

/-! ### the column loop -/

/-- the loop never writes to the caller's columns -/
theorem prepareCols_unchanged (tb : Tables) : ∀ cols : List Col, (prepareCols tb cols).1 = cols
  | [] => rfl
  | c :: cs => by
    have ih := prepareCols_unchanged tb cs
    unfold prepareCols
    cases ht : (stepCol c).type with
    | none => simp [ih]
    | some ty =>
      cases hg : getType tb ty with
      | some e => simp [hg]
      | none => simp [hg, ih]

/-- `colsRaise` (used by `saRaises` for CreateTable) is the outcome of the loop -/
theorem colsRaise_eq (tb : Tables) : ∀ cols : List Col, colsRaise tb cols = (prepareCols tb cols).2
  | [] => rfl
  | c :: cs => by
    have ih := colsRaise_eq tb cs
    unfold colsRaise prepareCols stepCol
    cases ht : c.type with
    | none => simp [ht, ih]
    | some ty =>
      by_cases hs : lower ty == "serial"
      · simp only [hs, if_true]
        cases hg : getType tb "INT" with
        | some e => simp [ht, hs, hg]
        | none => simp [ht, hs, hg, ih]
      · simp only [hs]
        cases hg : getType tb ty with
        | some e => simp [ht, hs, hg]
        | none => simp [ht, hs, hg, ih]

/-- the column loop raises nothing but NotImplementedError -/
theorem colsRaise_ok (tb : Tables) : ∀ cols : List Col, colsRaise tb cols = none ∨ colsRaise tb cols = some .notImpl
  | [] => by simp [colsRaise]
  | c :: cs => by
    have ih := colsRaise_ok tb cs
    unfold colsRaise
    cases c.type with
    | none => simpa using ih
    | some ty =>
      simp only []
      cases hg : getType tb (if lower ty == "serial" then "INT" else ty) with
      | none => simpa using ih
      | some e =>
        unfold getType at hg
        split at hg <;> simp_all

end MindsVerif.Fallback
