import MindsVerif.Model.Fallback
/-! Helper lemmas for C17: propagation of "locally clean" through the evaluation order, the
column loop of `prepare_create_table`. -/
namespace MindsVerif.Fallback

theorem okExc_orElse (a b : Option Exc) : okExc (orElse a b) = (match a with | some e => e.caught | none => okExc b) := by
  cases a <;> simp [orElse, okExc]

mutual
/-- if no evaluated node fails a local check with an uncaught class, the first own-code exception of
the whole walk (if any) is one of the caught classes -/
theorem clean_ok (tb : Tables) (w : Bool) :
    ∀ (c : Ctx) (t : T), clean tb w c t = true → okExc (saRaises tb w c t) = true
  | c, .mk tag kids => by
    intro h
    unfold clean at h
    unfold saRaises
    by_cases hs : c = .skip
    · simp [hs, okExc]
    · simp only [hs, if_false] at h ⊢
      cases hp : pre tb c tag kids with
      | some e => simp only [hp] at h ⊢; simpa [okExc] using h
      | none =>
        simp only [hp, Bool.and_eq_true] at h ⊢
        have h1 := clean_okL tb w c tag 0 kids h.1
        cases hk : saRaisesL tb w c tag 0 kids with
        | some e => simpa [hk] using h1
        | none => simpa using h.2
theorem clean_okL (tb : Tables) (w : Bool) :
    ∀ (c : Ctx) (tag : Tag) (i : Nat) (ks : List T),
      cleanL tb w c tag i ks = true → okExc (saRaisesL tb w c tag i ks) = true
  | c, tag, i, [] => by intro _; simp [saRaisesL, okExc]
  | c, tag, i, k :: ks => by
    intro h
    unfold cleanL at h
    unfold saRaisesL
    simp only [Bool.and_eq_true] at h
    have h1 := clean_ok tb w (kidCtx w c tag i) k h.1
    cases hk : saRaises tb w (kidCtx w c tag i) k with
    | some e => simpa [hk] using h1
    | none => exact clean_okL tb w c tag (i + 1) ks h.2
end

/-! ### the column loop -/

/-- the loop never writes to the caller's columns -/
theorem prepareCols_unchanged (tb : Tables) : ∀ cols : List Col, (prepareCols tb cols).1 = cols
  | [] => rfl
  | c :: cs => by
    have ih := prepareCols_unchanged tb cs
    unfold prepareCols
    cases ht : (stepCol c).type with
    | none => simp [ih]
    | some ty =>
      cases hg : getType tb ty with
      | some e => simp [hg]
      | none => simp [hg, ih]

/-- `colsRaise` (used by `saRaises` for CreateTable) is the outcome of the loop -/
theorem colsRaise_eq (tb : Tables) : ∀ cols : List Col, colsRaise tb cols = (prepareCols tb cols).2
  | [] => rfl
  | c :: cs => by
    have ih := colsRaise_eq tb cs
    unfold colsRaise prepareCols stepCol
    cases ht : c.type with
    | none => simp [ht, ih]
    | some ty =>
      by_cases hs : lower ty == "serial"
      · simp only [hs, if_true]
        cases hg : getType tb "INT" with
        | some e => simp
        | none => simp [ih]
      · simp only [hs]
        cases hg : getType tb ty with
        | some e => simp [ht, hg]
        | none => simp [ht, hg, ih]

/-- the column loop raises nothing but NotImplementedError -/
theorem colsRaise_ok (tb : Tables) : ∀ cols : List Col, colsRaise tb cols = none ∨ colsRaise tb cols = some .notImpl
  | [] => by simp [colsRaise]
  | c :: cs => by
    have ih := colsRaise_ok tb cs
    unfold colsRaise
    cases c.type with
    | none => simpa using ih
    | some ty =>
      simp only []
      cases hg : getType tb (if lower ty == "serial" then "INT" else ty) with
      | none => simpa using ih
      | some e =>
        unfold getType at hg
        split at hg <;> simp_all

/-! ### after the repairs: every parser-shaped tree is clean -/

theorem kindOf_ne_list (tb : Tables) (h : tb.tupleIsList = false) (tag : Tag) : kindOf tb tag ≠ .list := by
  cases tag with
  | tuple => simp [kindOf, h]
  | ident n f al =>
    cases al with
    | none => simp only [kindOf]; split <;> simp
    | some a => simp [kindOf]
  | _ => simp [kindOf]

theorem kindAt_ne_list (tb : Tables) (h : tb.tupleIsList = false) (kids : List T) (i : Nat) :
    kindAt tb kids i ≠ .list := by
  unfold kindAt
  cases kids[i]? with
  | none => simp
  | some k => exact kindOf_ne_list tb h k.tag

theorem callMethod_none (tb : Tables) (k r : Kind) (m : String) (h1 : k ≠ .list) (h2 : k ≠ .text) :
    callMethod tb k r m = none := by
  cases k <;> simp_all [callMethod]

theorem okExc_getAlias (al : Al) : okExc (getAlias al) = true := by
  cases al with
  | none => rfl
  | some n => by_cases hn : n > 1 <;> simp [getAlias, hn, okExc, Exc.caught]

theorem okExc_tableName (t : TblName) : okExc (tableName t) = true := by
  cases t with
  | notIdent => rfl
  | ident n => by_cases hn : n > 2 <;> simp [tableName, hn, okExc, Exc.caught]

theorem okExc_modeRaise (m : Mode) : okExc (modeRaise m) = true := by
  cases m <;> simp [modeRaise, okExc, Exc.caught]

theorem okExc_orElse_of (a b : Option Exc) (ha : okExc a = true) (hb : okExc b = true) : okExc (orElse a b) = true := by
  cases a with
  | none => simpa [orElse] using hb
  | some e => simpa [orElse] using ha

theorem okExc_colsRaise (tb : Tables) (cs : List Col) : okExc (colsRaise tb cs) = true := by
  rcases colsRaise_ok tb cs with h | h <;> simp [h, okExc, Exc.caught]

theorem okExc_joinType (i : Bool) (jt : String) : okExc (joinTypeRaise i jt) = true := by
  unfold joinTypeRaise; split <;> simp [okExc, Exc.caught]

theorem okExc_notImpl : okExc (some .notImpl) = true := rfl
theorem okExc_none : okExc none = true := rfl

/-- closes the goals `okExc (<local check>) = true` that need no case analysis -/
macro "ok_fin" : tactic => `(tactic| (try dsimp only) <;> first
  | rfl
  | exact okExc_tableName _
  | exact okExc_getAlias _
  | exact okExc_modeRaise _
  | exact okExc_joinType _ _
  | exact okExc_colsRaise _ _
  | exact okExc_orElse_of _ _ (okExc_modeRaise _) (okExc_getAlias _)
  | exact okExc_orElse_of _ _ (okExc_colsRaise _ _) (okExc_tableName _)
  | (split <;> first | rfl | exact okExc_tableName _ | exact okExc_getAlias _ | exact okExc_joinType _ _))

/-- the local checks of a parser-shaped node raise only caught classes once Tuples are sqlalchemy tuples and
`RenderError` is a caught class -/
theorem local_ok (tb : Tables) (h1 : tb.tupleIsList = false) (h2 : tb.dupExc.caught = true) (h3 : tb.funcGuard = true)
    (c : Ctx) (tag : Tag) (kids : List T) (hs : shapedNode tb c tag kids = true) :
    okExc (pre tb c tag kids) = true ∧ okExc (post tb c tag kids) = true := by
  have hcm : ∀ r m, kindAt tb kids 0 ≠ .text → callMethod tb (kindAt tb kids 0) r m = none :=
    fun r m ht => callMethod_none tb _ r m (kindAt_ne_list tb h1 kids 0) ht
  constructor
  · unfold pre
    by_cases hst : isStructural tag = true
    · rw [if_pos hst]; rfl
    · rw [if_neg hst]
      cases c with
      | skip => rfl
      | stmt =>
        cases tag with
        | insert tbl cols p h =>
          cases cols with
          | none => exact okExc_orElse_of _ _ (okExc_tableName _) rfl
          | some cs =>
            refine okExc_orElse_of _ _ (okExc_tableName _) ?_
            show okExc (if firstDup [] cs then some tb.dupExc else none) = true
            split
            · simpa [okExc] using h2
            · rfl
        | update tbl hfs => cases hfs <;> first | rfl | exact okExc_tableName _
        | createTable tbl cols => cases cols <;> ok_fin
        | dropTables n tbl => show okExc (if n != 1 then some .notImpl else tableName tbl) = true; ok_fin
        | _ => ok_fin
      | sel => cases tag <;> first | rfl | (exact absurd rfl hst) | (simp [shapedNode] at hs)
      | expr =>
        cases tag with
        | param h => cases h <;> rfl
        | func name d hf al =>
          show okExc (funcNameRaise tb name) = true
          unfold funcNameRaise
          cases funcClass tb name with
          | gen => simp only []; split <;> rfl
          | missing => rfl
          | pyattr => simp [h3, okExc, Exc.caught]
        | _ => ok_fin
      | table => cases tag <;> ok_fin
      | joinL => cases tag <;> ok_fin
      | from_ =>
        cases tag with
        | nativeQuery al =>
          cases al with
          | none => rfl
          | some n => cases n with
            | zero => simp [shapedNode] at hs
            | succ k => rfl
        | _ => ok_fin
      | cte =>
        cases tag with
        | cte h n => cases h <;> rfl
        | _ => rfl
  · unfold post
    cases c with
    | skip => rfl
    | stmt => cases tag <;> ok_fin
    | sel => cases tag <;> ok_fin
    | table => cases tag <;> ok_fin
    | joinL => cases tag <;> ok_fin
    | from_ => cases tag <;> ok_fin
    | cte => cases tag <;> ok_fin
    | expr =>
      cases tag with
      | func name d hf al =>
        refine okExc_orElse_of _ _ ?_ (okExc_getAlias _)
        simp [h3, okExc]
      | binop op al =>
        have ht : kindAt tb kids 0 ≠ .text := by simpa [shapedNode] using hs
        refine okExc_orElse_of _ _ ?_ (okExc_orElse_of _ _ ?_ (okExc_getAlias _))
        · split <;> rfl
        · cases tb.methods.lookup (lower op) with
          | some m => simp [hcm _ _ ht, okExc]
          | none => simp only []; split
                    · rfl
                    · simp [hcm _ _ ht, okExc]
      | unop op al =>
        have ht : kindAt tb kids 0 ≠ .text := by simpa [shapedNode] using hs
        show okExc (match tb.opmap.lookup (upper op) with
          | none => some .notImpl
          | some m => orElse (callMethod tb (kindAt tb kids 0) .col m) (getAlias al)) = true
        cases tb.opmap.lookup (upper op) with
        | none => rfl
        | some m => simp only [hcm _ _ ht]; exact okExc_orElse_of _ _ rfl (okExc_getAlias _)
      | cast ty al =>
        refine okExc_orElse_of _ _ ?_ (okExc_getAlias _)
        unfold getType; split <;> rfl
      | _ => ok_fin

mutual
/-- with Tuples rendered as sqlalchemy tuples and `RenderError` a caught class, EVERY parser-shaped tree is clean -/
theorem shaped_clean (tb : Tables) (w : Bool) (h1 : tb.tupleIsList = false) (h2 : tb.dupExc.caught = true)
    (h3 : tb.funcGuard = true) :
    ∀ (c : Ctx) (t : T), shaped tb w c t = true → clean tb w c t = true
  | c, .mk tag kids => by
    intro h
    unfold shaped at h
    unfold clean
    by_cases hs : c = .skip
    · simp [hs]
    · simp only [hs, if_false, Bool.and_eq_true] at h ⊢
      have hl := local_ok tb h1 h2 h3 c tag kids h.1
      cases hp : pre tb c tag kids with
      | some e => simpa [hp, okExc] using hl.1
      | none =>
        simp only [Bool.and_eq_true]
        exact ⟨shaped_cleanL tb w h1 h2 h3 c tag 0 kids h.2, hl.2⟩
theorem shaped_cleanL (tb : Tables) (w : Bool) (h1 : tb.tupleIsList = false) (h2 : tb.dupExc.caught = true)
    (h3 : tb.funcGuard = true) :
    ∀ (c : Ctx) (tag : Tag) (i : Nat) (ks : List T), shapedL tb w c tag i ks = true → cleanL tb w c tag i ks = true
  | c, tag, i, [] => by intro _; rfl
  | c, tag, i, k :: ks => by
    intro h
    unfold shapedL at h
    unfold cleanL
    simp only [Bool.and_eq_true] at h ⊢
    exact ⟨shaped_clean tb w h1 h2 h3 _ k h.1, shaped_cleanL tb w h1 h2 h3 c tag (i + 1) ks h.2⟩
end

/-! ### the repaired postgres scanner -/

theorem stripOutsideAux_no_backtick :
    ∀ (l : List Char) (a b e : Bool), (∀ c ∈ l, c ≠ '`') → stripOutsideAux a b e l = l
  | [], a, b, e, _ => by cases a <;> cases e <;> rfl
  | c :: rest, a, b, e, h => by
    have hc : (c == '`') = false := by simpa using h c (by simp)
    have ih := fun a b e => stripOutsideAux_no_backtick rest a b e (fun x hx => h x (by simp [hx]))
    cases a <;> cases e <;> simp [stripOutsideAux, hc, ih]

end MindsVerif.Fallback
