import MindsVerif.Lemmas.FloatPos
import MindsVerif.Lemmas.Ident
/-! The text `float_to_str` prints is ONE `FLOAT` token of the scanner model `Lex.lexNumber` (all three dialects),
with exactly the printed digit strings. -/
namespace MindsVerif.FloatPos
open MindsVerif.Lex

theorem digit_not_idLetter (c : Char) (hd : c.isDigit = true) : isIdLetter c = false := by
  have h1 : c.isAlpha = false := by
    cases ha : c.isAlpha with
    | false => rfl
    | true => have := Ident.alpha_not_digit c ha; rw [hd] at this; cases this
  have h2 : c ≠ '_' := by intro e; subst e; revert hd; decide
  have h3 : c ≠ '$' := by intro e; subst e; revert hd; decide
  have h4 : icExtra c = false := by
    unfold icExtra
    have a1 : c ≠ 'İ' := by intro e; subst e; revert hd; decide
    have a2 : c ≠ 'ı' := by intro e; subst e; revert hd; decide
    have a3 : c ≠ 'ſ' := by intro e; subst e; revert hd; decide
    have a4 : c ≠ '\u212a' := by intro e; subst e; revert hd; decide
    simp [a1, a2, a3, a4]
  simp [isIdLetter, h1, h2, h3, h4]

/-- `digits . digits` is one FLOAT token, nothing left over (`ID` does not take it: no letter in the run) -/
theorem lexNumber_dec (d : Dialect) (I F : List Char) (hI : I ≠ []) (hF : F ≠ [])
    (hdI : ∀ c ∈ I, c.isDigit = true) (hdF : ∀ c ∈ F, c.isDigit = true) :
    lexNumber d (I ++ '.' :: F) = some (.dec I F, []) := by
  have t1 := Ident.takeWhile_all Lex.isDigit I ('.' :: F) hdI (by intro y t e; cases e; decide)
  have t2 := Ident.takeWhile_all isIdChar I ('.' :: F)
    (by intro c hc; simp [isIdChar, hdI c hc]) (by intro y t e; cases e; decide)
  have t3 := Ident.takeWhile_all Lex.isDigit F [] hdF (by intro y t e; cases e)
  simp only [List.append_nil] at t3
  have hany : I.any isIdLetter = false := by
    rw [List.any_eq_false]
    intro c hc; simp [digit_not_idLetter c (hdI c hc)]
  simp [lexNumber, t1.1, t1.2, t2.1, hI, hany, t3.1, t3.2, hF]

end MindsVerif.FloatPos
