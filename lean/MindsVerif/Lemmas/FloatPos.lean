import MindsVerif.Model.FloatPos
/-! `float_to_str` on a repr with an exponent: the result is `digits . digits` and denotes the same rational. -/
namespace MindsVerif.FloatPos
open MindsVerif.Lex

theorem dv_eq (l : List Char) : digitsValue l = Nat.ofDigitChars 10 l 0 := rfl

theorem dv_append_zeros (l : List Char) (n : Nat) : digitsValue (l ++ zeros n) = 10 ^ n * digitsValue l := by
  simp [dv_eq, zeros, Nat.ofDigitChars_append]

theorem dv_zeros_append (l : List Char) (n : Nat) : digitsValue (zeros n ++ l) = digitsValue l := by
  simp [dv_eq, zeros, Nat.ofDigitChars_append]

theorem dv_zero_cons (l : List Char) : digitsValue ('0' :: l) = digitsValue l := by
  simp [dv_eq, Nat.ofDigitChars_cons]

theorem dv_dropZeros (l : List Char) : digitsValue (l.dropWhile (· == '0')) = digitsValue l := by
  induction l with
  | nil => rfl
  | cons c t ih =>
    by_cases h : c = '0'
    · subst h; simp [ih, dv_zero_cons]
    · simp [h]

theorem dv_stripZeros (l : List Char) : digitsValue (stripZeros l) = digitsValue l := by
  unfold stripZeros
  have h := dv_dropZeros l
  split
  · next e => rw [e] at h; rw [← h]; rfl
  · exact h

theorem dv_append (a b : List Char) : digitsValue (a ++ b) = 10 ^ b.length * digitsValue a + digitsValue b := by
  rw [dv_eq, Nat.ofDigitChars_append, Nat.ofDigitChars_eq_ofDigitChars_zero]; rfl

theorem stripZeros_ne_nil (l : List Char) : stripZeros l ≠ [] := by
  unfold stripZeros
  split
  · simp
  · next h => exact fun e => h e

theorem all_dropWhile {p q : Char → Bool} (l : List Char) (h : l.all p = true) : (l.dropWhile q).all p = true := by
  induction l with
  | nil => rfl
  | cons c t ih =>
    simp only [List.all_cons, Bool.and_eq_true] at h
    simp only [List.dropWhile]
    split
    · exact ih h.2
    · simp [h.1, h.2]

theorem stripZeros_digits (l : List Char) (h : l.all isDig = true) : (stripZeros l).all isDig = true := by
  unfold stripZeros
  have := all_dropWhile (q := (· == '0')) l h
  split
  · decide
  · exact this

theorem zeros_digits (n : Nat) : (zeros n).all isDig = true := by
  rw [List.all_eq_true]
  intro c hc
  have := List.eq_of_mem_replicate hc
  subst this; decide

theorem all_take {p : Char → Bool} (l : List Char) (n : Nat) (h : l.all p = true) : (l.take n).all p = true := by
  rw [List.all_eq_true] at h ⊢
  exact fun c hc => h c (List.mem_of_mem_take hc)

theorem all_drop {p : Char → Bool} (l : List Char) (n : Nat) (h : l.all p = true) : (l.drop n).all p = true := by
  rw [List.all_eq_true] at h ⊢
  exact fun c hc => h c (List.mem_of_mem_drop hc)

theorem expNonNeg_pos (x : Sci) (h : x.expNeg = false) : expNonNeg x = true ↔ x.fp.length ≤ x.exp := by
  simp only [expNonNeg, h, Bool.not_false, Bool.true_and, Bool.false_and, Bool.or_false, decide_eq_true_eq]

theorem expNonNeg_neg (x : Sci) (h : x.expNeg = true) : expNonNeg x = true ↔ x.exp + x.fp.length = 0 := by
  simp only [expNonNeg, h, Bool.not_true, Bool.false_and, Bool.true_and, Bool.false_or, beq_iff_eq]

/-- the Decimal exponent is `-k` with `k > 0` -/
theorem k_pos (x : Sci) (h : ¬ expNonNeg x = true) :
    0 < (if x.expNeg then x.fp.length + x.exp else x.fp.length - x.exp) := by
  cases hx : x.expNeg with
  | false =>
    have : ¬ x.fp.length ≤ x.exp := fun h' => h ((expNonNeg_pos x hx).mpr h')
    simp only [Bool.false_eq_true, if_false]; omega
  | true =>
    have : ¬ x.exp + x.fp.length = 0 := fun h' => h ((expNonNeg_neg x hx).mpr h')
    simp only [if_true]; omega

/-- **shape**: integer part and fraction part are non-empty digit strings (the text is one `\d+\.\d+` token) -/
theorem positional_shape (x : Sci) (hip : x.ip.all isDig = true) (hfp : x.fp.all isDig = true) :
    (positionalParts x).1 ≠ [] ∧ (positionalParts x).2 ≠ [] ∧
    (positionalParts x).1.all isDig = true ∧ (positionalParts x).2.all isDig = true := by
  have hd : (stripZeros (x.ip ++ x.fp)).all isDig = true := stripZeros_digits _ (by simp [hip, hfp])
  have hn := stripZeros_ne_nil (x.ip ++ x.fp)
  generalize hD : stripZeros (x.ip ++ x.fp) = d at hd hn
  unfold positionalParts
  simp only [hD]
  by_cases hnn : expNonNeg x = true
  · simp only [hnn, if_true]
    refine ⟨?_, by simp, ?_, by decide⟩
    · intro e; exact hn (List.append_eq_nil_iff.mp e).1
    · rw [List.all_append, hd, zeros_digits]; rfl
  · have hnn' : expNonNeg x = false := by simpa using hnn
    simp only [hnn', Bool.false_eq_true, if_false]
    have hkpos := k_pos x hnn
    generalize (if x.expNeg = true then x.fp.length + x.exp else x.fp.length - x.exp) = k at hkpos ⊢
    by_cases hl : d.length ≤ k
    · simp only [hl, if_true]
      refine ⟨by simp, ?_, by decide, ?_⟩
      · intro e; exact hn (List.append_eq_nil_iff.mp e).2
      · rw [List.all_append, hd, zeros_digits]; rfl
    · simp only [hl, if_false]
      refine ⟨?_, ?_, all_take _ _ hd, all_drop _ _ hd⟩
      · intro e
        have := congrArg List.length e
        simp only [List.length_take, List.length_nil] at this
        omega
      · intro e
        have := congrArg List.length e
        simp only [List.length_drop, List.length_nil] at this
        omega

/-- **value**: `I.F` denotes the same rational as the repr `ip.fp e±exp`
(`m / 10^s` with `m = dv (I ++ F)`, `s = len F`; cross-multiplied) -/
theorem positional_value (x : Sci) :
    (x.expNeg = false →
      digitsValue ((positionalParts x).1 ++ (positionalParts x).2) * 10 ^ x.fp.length =
        digitsValue (x.ip ++ x.fp) * 10 ^ x.exp * 10 ^ (positionalParts x).2.length) ∧
    (x.expNeg = true →
      digitsValue ((positionalParts x).1 ++ (positionalParts x).2) * 10 ^ (x.fp.length + x.exp) =
        digitsValue (x.ip ++ x.fp) * 10 ^ (positionalParts x).2.length) := by
  have hv := dv_stripZeros (x.ip ++ x.fp)
  generalize hD : stripZeros (x.ip ++ x.fp) = d at hv
  generalize digitsValue (x.ip ++ x.fp) = V at hv
  have hd0 : d = ['0'] → V = 0 := by intro e; rw [e] at hv; rw [← hv]; rfl
  unfold positionalParts
  simp only [hD]
  by_cases hnn : expNonNeg x = true
  · simp only [hnn, if_true]
    by_cases hz : d = ['0']
    · have hV := hd0 hz
      subst hz
      simp [zeros, hV, digitsValue]
    · simp only [hz, if_false]
      have e1 : digitsValue (d ++ zeros (x.exp - x.fp.length) ++ ['0']) = 10 ^ (x.exp - x.fp.length + 1) * V := by
        have : d ++ zeros (x.exp - x.fp.length) ++ ['0'] = d ++ zeros (x.exp - x.fp.length + 1) := by
          simp [zeros, List.replicate_succ']
        rw [this, dv_append_zeros, hv]
      rw [e1]
      constructor
      · intro hx
        have hle := (expNonNeg_pos x hx).mp hnn
        have : x.exp = (x.exp - x.fp.length) + x.fp.length := by omega
        generalize x.exp - x.fp.length = a at this ⊢
        rw [this]
        simp only [List.length_cons, List.length_nil, Nat.pow_add, Nat.pow_succ, Nat.pow_zero, Nat.one_mul, Nat.zero_add]
        ac_rfl
      · intro hx
        have h0 := (expNonNeg_neg x hx).mp hnn
        have h1 : x.exp = 0 := by omega
        have h2 : x.fp.length = 0 := by omega
        simp only [h1, h2, List.length_cons, List.length_nil, Nat.pow_succ, Nat.pow_zero, Nat.one_mul,
          Nat.zero_add, Nat.mul_one, Nat.sub_self]
        ac_rfl
  · have hnn' : expNonNeg x = false := by simpa using hnn
    simp only [hnn', Bool.false_eq_true, if_false]
    have hkpos := k_pos x hnn
    have key : ∀ k : Nat, 0 < k →
        digitsValue ((if d.length ≤ k then (['0'], zeros (k - d.length) ++ d) else (d.take (d.length - k), d.drop (d.length - k))).1 ++
          (if d.length ≤ k then (['0'], zeros (k - d.length) ++ d) else (d.take (d.length - k), d.drop (d.length - k))).2) = V ∧
        (if d.length ≤ k then (['0'], zeros (k - d.length) ++ d) else (d.take (d.length - k), d.drop (d.length - k))).2.length = k := by
      intro k hk
      by_cases hl : d.length ≤ k
      · simp only [hl, if_true]
        refine ⟨?_, ?_⟩
        · show digitsValue ('0' :: (zeros (k - d.length) ++ d)) = V
          rw [dv_zero_cons, dv_zeros_append, hv]
        · simp only [zeros, List.length_append, List.length_replicate]; omega
      · simp only [hl, if_false]
        refine ⟨by rw [List.take_append_drop, hv], ?_⟩
        simp only [List.length_drop]; omega
    constructor
    · intro hx
      simp only [hx, Bool.false_eq_true, if_false] at hkpos ⊢
      obtain ⟨k1, k2⟩ := key (x.fp.length - x.exp) hkpos
      rw [k1, k2]
      have : x.fp.length = x.exp + (x.fp.length - x.exp) := by omega
      generalize x.fp.length - x.exp = a at this ⊢
      rw [this, Nat.pow_add, Nat.mul_assoc]
    · intro hx
      simp only [hx, if_true] at hkpos ⊢
      obtain ⟨k1, k2⟩ := key (x.fp.length + x.exp) hkpos
      rw [k1, k2]

end MindsVerif.FloatPos
