import MindsVerif.Lemmas.HeapSep
import MindsVerif.Lemmas.HeapIso
/-! `deepcopy` produces a structural copy — for all heaps (sharing, cycles), for the generic copier and for
the `Identifier` hooks (under `identShapeB`): the original and the copy have equal unfoldings at every depth.

Proof idea.  A relation `P` between original and new addresses is threaded through the run (it contains
the identity on the original cells, every memo entry, and every pair `(a, a')` "a' was allocated as the copy
of a", also those made under the fresh memos of the hook).  A pair is *complete* when the new cell has the
kind of the old one and slot-wise related values.  `dc` never writes below the length of the heap it was
called with, so pairs completed earlier stay complete; the cell under construction is completed by the loop
`dcSlots`.  At the end of a top-level call every pair of `P` is complete, i.e. `P` is a simulation. -/
namespace MindsVerif.Heap

abbrev Rel := Addr → Addr → Prop

inductive ValRel (P : Rel) : Val → Val → Prop where
  | atom (s : String) : ValRel P (.atom s) (.atom s)
  | ref {a a' : Addr} : P a a' → ValRel P (.ref a) (.ref a')

inductive SlotsRel (P : Rel) : List (String × Val) → List (String × Val) → Prop where
  | nil : SlotsRel P [] []
  | cons {k : String} {v v' : Val} {r r' : List (String × Val)} :
      ValRel P v v' → SlotsRel P r r' → SlotsRel P ((k, v) :: r) ((k, v') :: r')

/-- the new cell `a'` is a finished copy of the original cell `a` -/
def Complete (P : Rel) (h0 h : Heap) (a a' : Addr) : Prop :=
  ∃ c c', h0[a]? = some c ∧ h[a']? = some c' ∧ c.kind = c'.kind ∧ SlotsRel P c.slots c'.slots

theorem ValRel.mono {P Q : Rel} (hpq : ∀ b b', P b b' → Q b b') {v v' : Val} (h : ValRel P v v') : ValRel Q v v' := by
  cases h with
  | atom s => exact .atom s
  | ref hp => exact .ref (hpq _ _ hp)

theorem SlotsRel.mono {P Q : Rel} (hpq : ∀ b b', P b b' → Q b b') {l l' : List (String × Val)}
    (h : SlotsRel P l l') : SlotsRel Q l l' := by
  induction h with
  | nil => exact .nil
  | cons hv _ ih => exact .cons (hv.mono hpq) ih

theorem SlotsRel.snoc {P : Rel} {l l' : List (String × Val)} (h : SlotsRel P l l') {k : String} {v v' : Val}
    (hv : ValRel P v v') : SlotsRel P (l ++ [(k, v)]) (l' ++ [(k, v')]) := by
  induction h with
  | nil => exact .cons hv .nil
  | cons hv' _ ih => exact .cons hv' ih

theorem Complete.transport {P Q : Rel} {h0 h h2 : Heap} {b b' : Addr} (hc : Complete P h0 h b b')
    (hpq : ∀ x y, P x y → Q x y) (hh : h2[b']? = h[b']?) : Complete Q h0 h2 b b' := by
  obtain ⟨c, c', h1, h2', hk, hs⟩ := hc
  exact ⟨c, c', h1, by rw [hh]; exact h2', hk, hs.mono hpq⟩

theorem Complete.lt {P : Rel} {h0 h : Heap} {b b' : Addr} (hc : Complete P h0 h b b') : b' < h.length := by
  obtain ⟨c, c', _, h2, _, _⟩ := hc
  rcases Nat.lt_or_ge b' h.length with hlt | hge
  · exact hlt
  · rw [List.getElem?_eq_none hge] at h2; cases h2

/-- state invariant -/
structure Pre (h0 h : Heap) (P : Rel) (m : Memo) : Prop where
  len : h0.length ≤ h.length
  old : ∀ a, a < h0.length → h[a]? = h0[a]?
  pval : ∀ b b', P b b' → b' < h.length
  sub : ∀ b b', m.lookup b = some b' → P b b'
  idp : ∀ x, x < h0.length → P x x

/-- one (composite) step of the copy: nothing below the old length is written, the relation grows, and
every new pair is complete -/
structure Step (h0 h : Heap) (P : Rel) (h' : Heap) (P' : Rel) : Prop where
  len : h.length ≤ h'.length
  frame : ∀ b, b < h.length → h'[b]? = h[b]?
  sub : ∀ b b', P b b' → P' b b'
  pval : ∀ b b', P' b b' → b' < h'.length
  new : ∀ b b', P' b b' → P b b' ∨ (h.length ≤ b' ∧ Complete P' h0 h' b b')

theorem Step.rfl' {h0 h : Heap} {P : Rel} (hp : ∀ b b', P b b' → b' < h.length) : Step h0 h P h P :=
  ⟨Nat.le_refl _, fun _ _ => rfl, fun _ _ h => h, hp, fun _ _ h => Or.inl h⟩

theorem Step.trans {h0 h h1 h2 : Heap} {P P1 P2 : Rel} (s1 : Step h0 h P h1 P1) (s2 : Step h0 h1 P1 h2 P2) :
    Step h0 h P h2 P2 := by
  refine ⟨Nat.le_trans s1.len s2.len, ?_, fun b b' hp => s2.sub _ _ (s1.sub _ _ hp), s2.pval, ?_⟩
  · intro b hb
    rw [s2.frame b (Nat.lt_of_lt_of_le hb s1.len), s1.frame b hb]
  · intro b b' hp
    rcases s2.new b b' hp with h1' | ⟨hge, hc⟩
    · rcases s1.new b b' h1' with hP | ⟨hge, hc⟩
      · exact Or.inl hP
      · exact Or.inr ⟨hge, hc.transport s2.sub (s2.frame b' hc.lt)⟩
    · exact Or.inr ⟨Nat.le_trans s1.len hge, hc⟩

theorem Pre.step {h0 h h' : Heap} {P P' : Rel} {m m' : Memo} (pre : Pre h0 h P m) (s : Step h0 h P h' P')
    (hm : ∀ b b', m'.lookup b = some b' → P' b b') : Pre h0 h' P' m' :=
  ⟨Nat.le_trans pre.len s.len,
   fun a ha => by rw [s.frame a (Nat.lt_of_lt_of_le ha pre.len)]; exact pre.old a ha,
   s.pval, hm, fun x hx => s.sub _ _ (pre.idp x hx)⟩

/-- allocate one finished cell -/
theorem Step.alloc {h0 h : Heap} {P : Rel} (hp : ∀ b b', P b b' → b' < h.length) (a : Addr) (c c' : Cell)
    (hc : h0[a]? = some c) (hk : c.kind = c'.kind)
    (hs : SlotsRel (fun b b' => P b b' ∨ (b = a ∧ b' = h.length)) c.slots c'.slots) :
    Step h0 h P (h ++ [c']) (fun b b' => P b b' ∨ (b = a ∧ b' = h.length)) := by
  refine ⟨by simp, fun b hb => List.getElem?_append_left hb, fun _ _ h => Or.inl h, ?_, ?_⟩
  · intro b b' hp'
    simp only [List.length_append, List.length_singleton]
    rcases hp' with h1 | ⟨_, h2⟩
    · exact Nat.lt_succ_of_lt (hp _ _ h1)
    · rw [h2]; exact Nat.lt_succ_self _
  · intro b b' hp'
    rcases hp' with h1 | ⟨h1, h2⟩
    · exact Or.inl h1
    · subst h1; subst h2
      exact Or.inr ⟨Nat.le_refl _, c, c', hc, by simp, hk, hs⟩

def ISpec (h0 : Heap) (f : Heap → Memo → Val → Option (Heap × Memo × Val)) : Prop :=
  ∀ h P m v h' m' v', Pre h0 h P m → OkV h0.length v → f h m v = some (h', m', v') →
    ∃ P' : Rel, Step h0 h P h' P' ∧ (∀ b b', m'.lookup b = some b' → P' b b') ∧ ValRel P' v v'

theorem pushSlot_eq {h : Heap} {a' : Addr} {c' : Cell} (hc : h[a']? = some c') (kv : String × Val) :
    pushSlot h a' kv = h.set a' { c' with slots := c'.slots ++ [kv] } := by
  simp [pushSlot, hc]

theorem getElem?_lt {h : Heap} {a : Addr} {c : Cell} (hc : h[a]? = some c) : a < h.length := by
  rcases Nat.lt_or_ge a h.length with hlt | hge
  · exact hlt
  · rw [List.getElem?_eq_none hge] at hc; cases hc

/-- the loop that fills the cell `a'` (copy of the original cell `a = c`) -/
theorem dcSlots_iso {h0 : Heap} {f : Heap → Memo → Val → Option (Heap × Memo × Val)} (hf : ISpec h0 f)
    {a' : Addr} (c : Cell) (ha' : h0.length ≤ a') :
    ∀ (rest done : List (String × Val)) (h : Heap) (P : Rel) (m : Memo) (h' : Heap) (m' : Memo),
      c.slots = done ++ rest → Pre h0 h P m →
      (∃ c', h[a']? = some c' ∧ c.kind = c'.kind ∧ SlotsRel P done c'.slots) →
      (∀ kv ∈ rest, OkV h0.length kv.2) → dcSlots f a' h m rest = some (h', m') →
      ∃ P' : Rel, h.length ≤ h'.length ∧ (∀ b, b < h.length → b ≠ a' → h'[b]? = h[b]?) ∧
        (∀ b b', P b b' → P' b b') ∧ (∀ b b', P' b b' → b' < h'.length) ∧
        (∀ b b', m'.lookup b = some b' → P' b b') ∧
        (∃ c', h'[a']? = some c' ∧ c.kind = c'.kind ∧ SlotsRel P' c.slots c'.slots) ∧
        (∀ b b', P' b b' → P b b' ∨ (h.length ≤ b' ∧ Complete P' h0 h' b b')) := by
  intro rest
  induction rest with
  | nil =>
    intro done h P m h' m' hsl pre hcell _ he
    simp [dcSlots] at he
    obtain ⟨rfl, rfl⟩ := he
    simp at hsl
    subst hsl
    exact ⟨P, Nat.le_refl _, fun _ _ _ => rfl, fun _ _ h => h, pre.pval, pre.sub, hcell, fun _ _ h => Or.inl h⟩
  | cons kv rest ih =>
    intro done h P m h' m' hsl pre hcell hok he
    obtain ⟨k, v⟩ := kv
    simp only [dcSlots] at he
    split at he
    · cases he
    · rename_i h1 m1 v' hfv
      obtain ⟨P1, s1, hm1, hv⟩ := hf h P m v h1 m1 v' pre (hok (k, v) List.mem_cons_self) hfv
      obtain ⟨c', hc', hk, hs⟩ := hcell
      have ha'lt : a' < h.length := getElem?_lt hc'
      have hc1 : h1[a']? = some c' := by rw [s1.frame a' ha'lt]; exact hc'
      have hpush := pushSlot_eq hc1 (k, v')
      have ha'lt1 : a' < h1.length := getElem?_lt hc1
      -- facts about the heap after the push
      have hlen : (pushSlot h1 a' (k, v')).length = h1.length := by rw [hpush]; simp
      have hne : ∀ b, b ≠ a' → (pushSlot h1 a' (k, v'))[b]? = h1[b]? := by
        intro b hb; rw [hpush]; exact List.getElem?_set_ne (Ne.symm hb)
      have hat : (pushSlot h1 a' (k, v'))[a']? = some { c' with slots := c'.slots ++ [(k, v')] } := by
        rw [hpush]; exact List.getElem?_set_self ha'lt1
      have pre1 : Pre h0 (pushSlot h1 a' (k, v')) P1 m1 := by
        have p := pre.step s1 hm1
        refine ⟨by rw [hlen]; exact p.len, ?_, by intro b b' hp; rw [hlen]; exact p.pval b b' hp, p.sub, p.idp⟩
        intro x hx
        rw [hne x (by intro hxa; subst hxa; exact Nat.lt_irrefl _ (Nat.lt_of_lt_of_le hx ha'))]
        exact p.old x hx
      have hsl' : c.slots = (done ++ [(k, v)]) ++ rest := by rw [hsl]; simp
      obtain ⟨P', hl, hfr, hsub, hpv, hm', hcell', hnew⟩ :=
        ih (done ++ [(k, v)]) _ P1 m1 h' m' hsl' pre1
          ⟨_, hat, hk, (hs.mono s1.sub).snoc hv⟩ (fun kv hkv => hok kv (List.mem_cons_of_mem _ hkv)) he
      refine ⟨P', ?_, ?_, fun b b' hp => hsub _ _ (s1.sub _ _ hp), hpv, hm', hcell', ?_⟩
      · rw [hlen] at hl; exact Nat.le_trans s1.len hl
      · intro b hb hba
        rw [hfr b (by rw [hlen]; exact Nat.lt_of_lt_of_le hb s1.len) hba, hne b hba, s1.frame b hb]
      · intro b b' hp
        rcases hnew b b' hp with hp1 | ⟨hge, hcpl⟩
        · rcases s1.new b b' hp1 with hP | ⟨hge, hcpl⟩
          · exact Or.inl hP
          · refine Or.inr ⟨hge, hcpl.transport hsub ?_⟩
            have hb'ne : b' ≠ a' := by
              intro h'; subst h'; exact Nat.lt_irrefl _ (Nat.lt_of_lt_of_le ha'lt hge)
            rw [hfr b' (by rw [hlen]; exact hcpl.lt) hb'ne, hne b' hb'ne]
        · rw [hlen] at hge
          exact Or.inr ⟨Nat.le_trans s1.len hge, hcpl⟩

/-! ### the shape of `Identifier` cells -/

theorem identShape_slots {h0 : Heap} (hs : identShapeB h0 = true) {a : Addr} {c : Cell} (hc : h0[a]? = some c)
    (hk : c.kind = "Identifier") {ps al pa : Val} (hps : c.slot? "parts" = some ps)
    (hal : c.slot? "alias" = some al) (hpa : c.slot? "parentheses" = some pa) :
    c.slots = (identCell al pa ps (c.slot? "sub_select")).slots := by
  have hmem : c ∈ h0 := List.mem_of_getElem? hc
  simp only [identShapeB, List.all_eq_true] at hs
  have := hs c hmem
  simp [hk] at this
  obtain ⟨kind, slots⟩ := c
  simp only [Cell.slot?] at hps hal hpa ⊢
  rcases this with h3 | h4
  · match slots, h3 with
    | [(k1, x), (k2, y), (k3, z)], h3 =>
      simp at h3
      obtain ⟨rfl, rfl, rfl⟩ := h3
      simp [List.lookup] at hps hal hpa
      subst hps; subst hal; subst hpa
      simp [identCell, List.lookup]
  · match slots, h4 with
    | [(k1, x), (k2, y), (k3, z), (k4, w)], h4 =>
      simp at h4
      obtain ⟨rfl, rfl, rfl, rfl⟩ := h4
      simp [List.lookup] at hps hal hpa
      subst hps; subst hal; subst hpa
      simp [identCell, List.lookup]

theorem identCell_rel {P : Rel} {al pa ps al' ps' : Val} {ss ss' : Option Val} (h1 : ValRel P al al')
    (h2 : ValRel P pa pa) (h3 : ValRel P ps ps')
    (h4 : (ss = none ∧ ss' = none) ∨ ∃ s s', ss = some s ∧ ss' = some s' ∧ ValRel P s s') :
    SlotsRel P (identCell al pa ps ss).slots (identCell al' pa ps' ss').slots := by
  rcases h4 with ⟨rfl, rfl⟩ | ⟨s, s', rfl, rfl, hs⟩
  · exact .cons h1 (.cons h2 (.cons h3 .nil))
  · exact .cons h1 (.cons h2 (.cons h3 (.cons hs .nil)))

theorem valRel_self {h0 : Heap} {P : Rel} (idp : ∀ x, x < h0.length → P x x) {v : Val} (hv : OkV h0.length v) :
    ValRel P v v := by
  cases v with
  | atom s => exact .atom s
  | ref a => exact .ref (idp a hv)

theorem slotsRel_self {h0 : Heap} {P : Rel} (idp : ∀ x, x < h0.length → P x x) :
    ∀ (l : List (String × Val)), (∀ kv ∈ l, OkV h0.length kv.2) → SlotsRel P l l := by
  intro l
  induction l with
  | nil => intro _; exact .nil
  | cons kv r ih =>
    intro h
    obtain ⟨k, v⟩ := kv
    exact .cons (valRel_self idp (h (k, v) List.mem_cons_self)) (ih (fun x hx => h x (List.mem_cons_of_mem _ hx)))

/-- hypotheses of the isomorphism theorem -/
structure ISide (hook : Hook) (h0 : Heap) : Prop where
  wf : wfB h0 = true
  shape : hook ≠ .off → identShapeB h0 = true

theorem dc_iso {hook : Hook} {h0 : Heap} (sd : ISide hook h0) : ∀ fuel, ISpec h0 (dc hook fuel) := by
  intro fuel
  induction fuel with
  | zero =>
    intro h P m v h' m' v' pre hv he
    cases v with
    | atom s =>
      simp [dc] at he; obtain ⟨rfl, rfl, rfl⟩ := he
      exact ⟨P, Step.rfl' pre.pval, pre.sub, .atom s⟩
    | ref a =>
      simp only [dc] at he
      split at he
      · rename_i a' hl; cases he
        exact ⟨P, Step.rfl' pre.pval, pre.sub, .ref (pre.sub _ _ hl)⟩
      · cases he
  | succ fuel ih =>
    intro h P m v h' m' v' pre hv he
    cases v with
    | atom s =>
      simp [dc] at he; obtain ⟨rfl, rfl, rfl⟩ := he
      exact ⟨P, Step.rfl' pre.pval, pre.sub, .atom s⟩
    | ref a =>
      have halt : a < h0.length := hv
      simp only [dc] at he
      split at he
      · rename_i a' hl; cases he
        exact ⟨P, Step.rfl' pre.pval, pre.sub, .ref (pre.sub _ _ hl)⟩
      · split at he
        · cases he
        · rename_i c hc
          have hc0 : h0[a]? = some c := by rw [← pre.old a halt]; exact hc
          have hslots := wf_slots sd.wf hc0
          split at he
          · cases he
          · split at he
            · -- Identifier.__deepcopy__
              rename_i hunk hid
              obtain ⟨hoff, hkind⟩ := hid
              split at he
              · rename_i ps al pa hps hal hpa
                have okps : OkV h0.length ps := hslots _ (slot?_mem hps)
                have okal : OkV h0.length al := hslots _ (slot?_mem hal)
                have okpa : OkV h0.length pa := hslots _ (slot?_mem hpa)
                have hshape := identShape_slots (sd.shape hoff) hc0 hkind hps hal hpa
                -- the parts step
                have hparts : ∀ h1 m1 ps',
                    (if hook = .fixed then dc hook fuel h m ps
                      else (let (h1, ps') := shallowCopy h ps; some (h1, m, ps'))) = some (h1, m1, ps') →
                    ∃ P1 : Rel, Step h0 h P h1 P1 ∧ (∀ b b', m1.lookup b = some b' → P1 b b') ∧ ValRel P1 ps ps' := by
                  intro h1 m1 ps' hr
                  by_cases hfx : hook = .fixed
                  · rw [if_pos hfx] at hr
                    exact ih h P m ps h1 m1 ps' pre okps hr
                  · rw [if_neg hfx] at hr
                    cases ps with
                    | atom s =>
                      simp [shallowCopy] at hr; obtain ⟨rfl, rfl, rfl⟩ := hr
                      exact ⟨P, Step.rfl' pre.pval, pre.sub, .atom s⟩
                    | ref p =>
                      have hplt : p < h0.length := okps
                      have hp0 : h[p]? = h0[p]? := pre.old p hplt
                      obtain ⟨cp, hcp⟩ : ∃ cp, h0[p]? = some cp := ⟨h0[p], List.getElem?_eq_getElem hplt⟩
                      simp only [shallowCopy, hp0, hcp] at hr
                      simp at hr
                      obtain ⟨rfl, rfl, rfl⟩ := hr
                      refine ⟨_, Step.alloc pre.pval p cp cp hcp rfl ?_, ?_, .ref (Or.inr ⟨rfl, rfl⟩)⟩
                      · exact slotsRel_self (h0 := h0) (fun x hx => Or.inl (pre.idp x hx)) cp.slots (wf_slots sd.wf hcp)
                      · intro b b' hb; exact Or.inl (pre.sub _ _ hb)
                split at he
                · cases he
                · rename_i h1 m1 ps' hr1
                  obtain ⟨P1, s1, hm1, rps⟩ := hparts h1 m1 ps' hr1
                  have pre1 : Pre h0 h1 P1 [] := pre.step s1 (by intro b b' hb; simp [List.lookup] at hb)
                  split at he
                  · cases he
                  · rename_i h2 mx al' hr2
                    obtain ⟨P2, s2, _, ral⟩ := ih h1 P1 [] al h2 mx al' pre1 okal hr2
                    have pre2 : Pre h0 h2 P2 [] := pre1.step s2 (by intro b b' hb; simp [List.lookup] at hb)
                    have s12 := s1.trans s2
                    split at he
                    · -- no sub_select
                      rename_i hss
                      simp at he
                      obtain ⟨rfl, rfl, rfl⟩ := he
                      rw [hss] at hshape
                      let P3 : Rel := fun b b' => P2 b b' ∨ (b = a ∧ b' = h2.length)
                      have hP23 : ∀ b b', P2 b b' → P3 b b' := fun _ _ h => Or.inl h
                      have s3 : Step h0 h2 P2 (h2 ++ [identCell al' pa ps' none]) P3 := by
                        refine Step.alloc pre2.pval a c _ hc0 (by rw [hkind]; rfl) ?_
                        rw [hshape]
                        exact identCell_rel (ral.mono hP23) (valRel_self (fun x hx => hP23 _ _ (pre2.idp x hx)) okpa)
                          ((rps.mono s2.sub).mono hP23) (Or.inl ⟨rfl, rfl⟩)
                      refine ⟨P3, s12.trans s3, ?_, .ref (Or.inr ⟨rfl, rfl⟩)⟩
                      intro b b' hb
                      simp only [List.lookup_cons] at hb
                      split at hb
                      · rename_i heq
                        cases hb
                        have : b = a := by simpa using heq
                        exact Or.inr ⟨this, rfl⟩
                      · exact Or.inl (s2.sub _ _ (hm1 _ _ hb))
                    · rename_i ss hss
                      have okss : OkV h0.length ss := hslots _ (slot?_mem hss)
                      split at he
                      · cases he
                      · rename_i h3 my ss' hr3
                        obtain ⟨P3, s3, _, rss⟩ := ih h2 P2 [] ss h3 my ss' pre2 okss hr3
                        have pre3 : Pre h0 h3 P3 [] := pre2.step s3 (by intro b b' hb; simp [List.lookup] at hb)
                        simp at he
                        obtain ⟨rfl, rfl, rfl⟩ := he
                        rw [hss] at hshape
                        let P4 : Rel := fun b b' => P3 b b' ∨ (b = a ∧ b' = h3.length)
                        have hP34 : ∀ b b', P3 b b' → P4 b b' := fun _ _ h => Or.inl h
                        have s4 : Step h0 h3 P3 (h3 ++ [identCell al' pa ps' (some ss')]) P4 := by
                          refine Step.alloc pre3.pval a c _ hc0 (by rw [hkind]; rfl) ?_
                          rw [hshape]
                          exact identCell_rel ((ral.mono s3.sub).mono hP34)
                            (valRel_self (fun x hx => hP34 _ _ (pre3.idp x hx)) okpa)
                            (((rps.mono s2.sub).mono s3.sub).mono hP34)
                            (Or.inr ⟨ss, ss', rfl, rfl, rss.mono hP34⟩)
                        refine ⟨P4, (s12.trans s3).trans s4, ?_, .ref (Or.inr ⟨rfl, rfl⟩)⟩
                        intro b b' hb
                        simp only [List.lookup_cons] at hb
                        split at hb
                        · rename_i heq
                          cases hb
                          have : b = a := by simpa using heq
                          exact Or.inr ⟨this, rfl⟩
                        · exact Or.inl (s3.sub _ _ (s2.sub _ _ (hm1 _ _ hb)))
              · cases he
            · -- generic reconstruction
              split at he
              · cases he
              · rename_i hh mm hr
                simp at he
                obtain ⟨rfl, rfl, rfl⟩ := he
                let P1 : Rel := fun b b' => P b b' ∨ (b = a ∧ b' = h.length)
                have hPP1 : ∀ b b', P b b' → P1 b b' := fun _ _ h => Or.inl h
                have pre1 : Pre h0 (h ++ [⟨c.kind, []⟩]) P1 ((a, h.length) :: m) := by
                  refine ⟨by simp; have := pre.len; omega, ?_, ?_, ?_, fun x hx => hPP1 _ _ (pre.idp x hx)⟩
                  · intro x hx
                    rw [List.getElem?_append_left (Nat.lt_of_lt_of_le hx pre.len)]
                    exact pre.old x hx
                  · intro b b' hp
                    simp only [List.length_append, List.length_singleton]
                    rcases hp with h1 | ⟨_, h2⟩
                    · exact Nat.lt_succ_of_lt (pre.pval _ _ h1)
                    · rw [h2]; exact Nat.lt_succ_self _
                  · intro b b' hb
                    simp only [List.lookup_cons] at hb
                    split at hb
                    · rename_i heq
                      cases hb
                      have : b = a := by simpa using heq
                      exact Or.inr ⟨this, rfl⟩
                    · exact Or.inl (pre.sub _ _ hb)
                have hcell : ∃ c', (h ++ [⟨c.kind, []⟩])[h.length]? = some c' ∧ c.kind = c'.kind ∧
                    SlotsRel P1 [] c'.slots := ⟨⟨c.kind, []⟩, by simp, rfl, .nil⟩
                obtain ⟨P', hl, hfr, hsub, hpv, hm', ⟨c', hc', hk', hs'⟩, hnew⟩ :=
                  dcSlots_iso ih c pre.len c.slots [] _ P1 _ hh mm (by simp) pre1 hcell hslots hr
                simp only [List.length_append, List.length_singleton] at hl hfr hnew
                refine ⟨P', ⟨by omega, ?_, fun b b' hp => hsub _ _ (hPP1 _ _ hp), hpv, ?_⟩, hm',
                  .ref (hsub _ _ (Or.inr ⟨rfl, rfl⟩))⟩
                · intro b hb
                  rw [hfr b (by omega) (by intro h'; subst h'; exact Nat.lt_irrefl _ hb),
                    List.getElem?_append_left hb]
                · intro b b' hp
                  rcases hnew b b' hp with h1 | ⟨hge, hcpl⟩
                  · rcases h1 with hP | ⟨rfl, rfl⟩
                    · exact Or.inl hP
                    · exact Or.inr ⟨Nat.le_refl _, c, c', hc0, hc', hk', hs'⟩
                  · exact Or.inr ⟨by omega, hcpl⟩

/-! ### a complete relation makes all unfoldings equal -/

theorem slotsRel_map_eq {P : Rel} {f f' : Val → UTree} {l l' : List (String × Val)} (hs : SlotsRel P l l')
    (hf : ∀ v v', ValRel P v v' → f v = f' v') :
    l.map (fun kv => (kv.1, f kv.2)) = l'.map (fun kv => (kv.1, f' kv.2)) := by
  induction hs with
  | nil => rfl
  | cons hv _ ih => simp only [List.map_cons, hf _ _ hv, ih]

theorem unfold_eq_of_complete {h0 h' : Heap} {P : Rel} (hall : ∀ b b', P b b' → Complete P h0 h' b b') :
    ∀ n v v', ValRel P v v' → unfold n h0 v = unfold n h' v' := by
  intro n
  induction n with
  | zero =>
    intro v v' hr
    cases hr <;> simp [unfold]
  | succ n ih =>
    intro v v' hr
    cases hr with
    | atom s => simp [unfold]
    | ref hp =>
      obtain ⟨c, c', h1, h2, hk, hs⟩ := hall _ _ hp
      simp only [unfold, h1, h2, hk]
      congr 1
      exact slotsRel_map_eq hs (ih)

/-- **the copy is a structural copy**: equal unfoldings at every depth, for all heaps -/
theorem deepcopy_unfold {hook : Hook} {h0 : Heap} (sd : ISide hook h0) {v : Val} (hv : OkV h0.length v)
    {fuel : Nat} {h' : Heap} {v' : Val} (he : deepcopy hook fuel h0 v = some (h', v')) :
    ∀ n, unfold n h0 v = unfold n h' v' := by
  unfold deepcopy at he
  cases hr : dc hook fuel h0 [] v with
  | none => rw [hr] at he; cases he
  | some r =>
    obtain ⟨h1, m1, v1⟩ := r
    rw [hr] at he
    simp at he
    obtain ⟨rfl, rfl⟩ := he
    let P0 : Rel := fun a a' => a = a' ∧ a < h0.length
    have pre0 : Pre h0 h0 P0 [] :=
      ⟨Nat.le_refl _, fun _ _ => rfl, fun b b' hp => by obtain ⟨rfl, h⟩ := hp; exact h,
       fun b b' hb => by simp [List.lookup] at hb, fun x hx => ⟨rfl, hx⟩⟩
    obtain ⟨P', s, _, rv⟩ := dc_iso sd fuel h0 P0 [] v h1 m1 v1 pre0 hv hr
    have hall : ∀ b b', P' b b' → Complete P' h0 h1 b b' := by
      intro b b' hp
      rcases s.new b b' hp with ⟨rfl, hlt⟩ | ⟨_, hc⟩
      · obtain ⟨c, hc⟩ : ∃ c, h0[b]? = some c := ⟨h0[b], List.getElem?_eq_getElem hlt⟩
        exact ⟨c, c, hc, by rw [s.frame b hlt]; exact hc, rfl,
          slotsRel_self (h0 := h0) (fun x hx => s.sub _ _ ⟨rfl, hx⟩) c.slots (wf_slots sd.wf hc)⟩
      · exact hc
    exact fun n => unfold_eq_of_complete hall n v v1 rv

end MindsVerif.Heap
