import MindsVerif.Model.HeapIso
/-! A checked simulation makes all unfoldings — hence all structural observations — equal. -/
namespace MindsVerif.Heap

theorem slotsRel_map {R : Memo} {f f' : Val → UTree}
    (hf : ∀ v v', relB R v v' = true → f v = f' v') :
    ∀ (l l' : List (String × Val)), slotsRel R l l' = true →
      l.map (fun kv => (kv.1, f kv.2)) = l'.map (fun kv => (kv.1, f' kv.2)) := by
  intro l
  induction l with
  | nil => intro l' h; cases l' with
    | nil => rfl
    | cons _ _ => simp [slotsRel] at h
  | cons x xs ih =>
    intro l' h
    cases l' with
    | nil => obtain ⟨k, v⟩ := x; simp [slotsRel] at h
    | cons y ys =>
      obtain ⟨k, v⟩ := x
      obtain ⟨k', v'⟩ := y
      simp only [slotsRel, Bool.and_eq_true, beq_iff_eq] at h
      obtain ⟨⟨hk, hv⟩, hr⟩ := h
      simp only [List.map_cons, hk, hf v v' hv, ih ys hr]

theorem unfold_eq_of_sim {h h' : Heap} {R : Memo} (hs : simCheck h h' R = true) :
    ∀ n v v', relB R v v' = true → unfold n h v = unfold n h' v' := by
  intro n
  induction n with
  | zero =>
    intro v v' hr
    cases v <;> cases v' <;> simp_all [relB, unfold]
  | succ n ih =>
    intro v v' hr
    cases v with
    | atom s => cases v' <;> simp_all [relB, unfold]
    | ref a =>
      cases v' with
      | atom s => simp [relB] at hr
      | ref a' =>
        simp only [relB, List.contains_iff_mem] at hr
        simp only [simCheck, List.all_eq_true] at hs
        have hp := hs (a, a') hr
        simp only [unfold]
        cases hc : h[a]? with
        | none =>
          cases hc' : h'[a']? with
          | none => rfl
          | some c' => simp [hc, hc'] at hp
        | some c =>
          cases hc' : h'[a']? with
          | none => simp [hc, hc'] at hp
          | some c' =>
            simp only [hc, hc', Bool.and_eq_true, beq_iff_eq] at hp
            simp only [hp.1, slotsRel_map (f := unfold n h) (f' := unfold n h') (ih) c.slots c'.slots hp.2]

/-- an observation that only depends on some finite unfolding of the observed value -/
def Structural {β : Type} (F : Heap → Val → β) : Prop := ∃ (n : Nat) (G : UTree → β), ∀ h v, F h v = G (unfold n h v)

theorem structural_eq_of_sim {β : Type} {F : Heap → Val → β} (hF : Structural F) {h h' : Heap} {R : Memo}
    (hs : simCheck h h' R = true) {v v' : Val} (hr : relB R v v' = true) : F h v = F h' v' := by
  obtain ⟨n, G, hG⟩ := hF
  rw [hG, hG, unfold_eq_of_sim hs n v v' hr]

end MindsVerif.Heap
