import MindsVerif.Model.Heap
/-! Separation invariant of `deepcopy` (for all heaps, cyclic ones included) and the frame lemma. -/
namespace MindsVerif.Heap

/-- allocated by the copy (or immutable) -/
def Fresh (n : Nat) : Val → Prop
  | .atom _ => True
  | .ref a => n ≤ a

/-- belongs to the original heap (or immutable) -/
def OkV (n : Nat) : Val → Prop
  | .atom _ => True
  | .ref a => a < n

/-- heap part of the invariant: the original cells are untouched, the new cells only point to new cells -/
structure HInv (h0 h : Heap) : Prop where
  len : h0.length ≤ h.length
  old : ∀ a, a < h0.length → h[a]? = h0[a]?
  closed : ∀ a c, h0.length ≤ a → h[a]? = some c → ∀ kv ∈ c.slots, Fresh h0.length kv.2

/-- memo part: memoised copies are new cells -/
def MInv (n : Nat) (m : Memo) : Prop := ∀ a a', m.lookup a = some a' → n ≤ a'

def Spec (h0 : Heap) (f : Heap → Memo → Val → Option (Heap × Memo × Val)) : Prop :=
  ∀ h m v h' m' v', HInv h0 h → MInv h0.length m → OkV h0.length v → f h m v = some (h', m', v') →
    HInv h0 h' ∧ MInv h0.length m' ∧ Fresh h0.length v'

theorem HInv.refl (h0 : Heap) : HInv h0 h0 :=
  ⟨Nat.le_refl _, fun _ _ => rfl, fun a c ha hc => by
    have : a < h0.length := by
      rcases Nat.lt_or_ge a h0.length with h | h
      · exact h
      · rw [List.getElem?_eq_none (by omega)] at hc; cases hc
    omega⟩

theorem MInv.nil (n : Nat) : MInv n [] := by
  intro a a' h; simp [List.lookup] at h

theorem MInv.cons {n : Nat} {m : Memo} (hm : MInv n m) (a a' : Addr) (h : n ≤ a') : MInv n ((a, a') :: m) := by
  intro b b' hb
  simp only [List.lookup_cons] at hb
  split at hb
  · cases hb; exact h
  · exact hm _ _ hb

theorem okB_iff {n : Nat} {v : Val} : v.okB n = true ↔ OkV n v := by
  cases v <;> simp [Val.okB, OkV]

theorem wf_slots {h0 : Heap} (hwf : wfB h0 = true) {a : Addr} {c : Cell} (hc : h0[a]? = some c) :
    ∀ kv ∈ c.slots, OkV h0.length kv.2 := by
  intro kv hkv
  have hmem : c ∈ h0 := List.mem_of_getElem? hc
  simp only [wfB, List.all_eq_true] at hwf
  exact okB_iff.mp (hwf c hmem kv hkv)

theorem slot?_mem {c : Cell} {k : String} {v : Val} (h : c.slot? k = some v) : (k, v) ∈ c.slots := by
  unfold Cell.slot? at h
  generalize c.slots = l at h
  induction l with
  | nil => simp [List.lookup] at h
  | cons x xs ih =>
    obtain ⟨k', v'⟩ := x
    simp only [List.lookup_cons] at h
    split at h
    · rename_i heq
      cases h
      have : k = k' := by simpa using heq
      subst this; exact List.mem_cons_self
    · exact List.mem_cons_of_mem _ (ih h)

theorem isAtom_fresh {n : Nat} {v : Val} (h : v.isAtom = true) : Fresh n v := by
  cases v <;> simp_all [Val.isAtom, Fresh]

theorem pushSlot_inv {h0 h : Heap} (hi : HInv h0 h) {a' : Addr} (ha : h0.length ≤ a') {kv : String × Val}
    (hf : Fresh h0.length kv.2) : HInv h0 (pushSlot h a' kv) := by
  unfold pushSlot
  split
  · rename_i c hc
    refine ⟨by simpa using hi.len, ?_, ?_⟩
    · intro a hlt
      rw [List.getElem?_set_ne (by omega)]
      exact hi.old a hlt
    · intro a c' hge hc' kv' hkv'
      by_cases hEq : a' = a
      · subst hEq
        rw [List.getElem?_set_self (by
          rcases Nat.lt_or_ge a' h.length with hlt | hge'
          · exact hlt
          · rw [List.getElem?_eq_none hge'] at hc; cases hc)] at hc'
        cases hc'
        simp only [List.mem_append, List.mem_singleton] at hkv'
        rcases hkv' with h1 | h1
        · exact hi.closed a' c hge hc kv' h1
        · subst h1; exact hf
      · rw [List.getElem?_set_ne hEq] at hc'
        exact hi.closed a c' hge hc' kv' hkv'
  · exact hi

theorem dcSlots_spec {h0 : Heap} {f : Heap → Memo → Val → Option (Heap × Memo × Val)} (hf : Spec h0 f)
    {a' : Addr} (ha : h0.length ≤ a') :
    ∀ (slots : List (String × Val)) (h : Heap) (m : Memo) (h' : Heap) (m' : Memo),
      HInv h0 h → MInv h0.length m → (∀ kv ∈ slots, OkV h0.length kv.2) →
      dcSlots f a' h m slots = some (h', m') → HInv h0 h' ∧ MInv h0.length m' := by
  intro slots
  induction slots with
  | nil => intro h m h' m' hi hm _ he; simp [dcSlots] at he; obtain ⟨rfl, rfl⟩ := he; exact ⟨hi, hm⟩
  | cons kv rest ih =>
    intro h m h' m' hi hm hok he
    obtain ⟨k, v⟩ := kv
    simp only [dcSlots] at he
    split at he
    · cases he
    · rename_i h1 m1 v' hfv
      obtain ⟨hi1, hm1, hv'⟩ := hf h m v h1 m1 v' hi hm (hok (k, v) List.mem_cons_self) hfv
      exact ih _ _ _ _ (pushSlot_inv hi1 ha (kv := (k, v')) hv') hm1
        (fun kv hkv => hok kv (List.mem_cons_of_mem _ hkv)) he

theorem hinv_append {h0 h : Heap} (hi : HInv h0 h) (c : Cell)
    (hc : ∀ kv ∈ c.slots, Fresh h0.length kv.2) : HInv h0 (h ++ [c]) := by
  refine ⟨by simp; have := hi.len; omega, ?_, ?_⟩
  · intro a hlt
    rw [List.getElem?_append_left (by have := hi.len; omega)]
    exact hi.old a hlt
  · intro a c' hge hc' kv hkv
    rcases Nat.lt_or_ge a h.length with hlt | hge'
    · rw [List.getElem?_append_left hlt] at hc'
      exact hi.closed a c' hge hc' kv hkv
    · rw [List.getElem?_append_right hge'] at hc'
      by_cases h0' : a - h.length = 0
      · rw [h0'] at hc'; simp at hc'; subst hc'; exact hc kv hkv
      · have : ([c] : List Cell)[a - h.length]? = none := by
          apply List.getElem?_eq_none; simp; omega
        rw [this] at hc'; cases hc'

theorem parenAtomic_slot {h0 : Heap} (hp : parenAtomicB h0 = true) {a : Addr} {c : Cell}
    (hc : h0[a]? = some c) (hk : c.kind = "Identifier") {pa : Val} (hpa : c.slot? "parentheses" = some pa) :
    pa.isAtom = true := by
  have hmem : c ∈ h0 := List.mem_of_getElem? hc
  simp only [parenAtomicB, List.all_eq_true] at hp
  have := hp c hmem
  simp [hk, hpa] at this
  exact this

theorem partsAtomic_slot {h0 : Heap} (hp : partsAtomicB h0 = true) {a : Addr} {c : Cell}
    (hc : h0[a]? = some c) (hk : c.kind = "Identifier") {p : Addr} (hps : c.slot? "parts" = some (.ref p))
    {cp : Cell} (hcp : h0[p]? = some cp) : ∀ kv ∈ cp.slots, kv.2.isAtom = true := by
  have hmem : c ∈ h0 := List.mem_of_getElem? hc
  simp only [partsAtomicB, List.all_eq_true] at hp
  have := hp c hmem
  simp [hk, hps, hcp] at this
  intro kv hkv
  exact this kv.1 kv.2 hkv

/-- side conditions of the custom hook, as one record -/
structure Side (hook : Hook) (h0 : Heap) : Prop where
  wf : wfB h0 = true
  paren : hook ≠ .off → parenAtomicB h0 = true
  parts : hook = .pinned → partsAtomicB h0 = true

theorem identCell_fresh {n : Nat} {al pa ps : Val} {ss : Option Val} (h1 : Fresh n al) (h2 : Fresh n pa)
    (h3 : Fresh n ps) (h4 : ∀ s, ss = some s → Fresh n s) :
    ∀ kv ∈ (identCell al pa ps ss).slots, Fresh n kv.2 := by
  intro kv hkv
  cases ss with
  | none =>
    simp [identCell] at hkv
    rcases hkv with rfl | rfl | rfl <;> assumption
  | some s =>
    simp [identCell] at hkv
    rcases hkv with rfl | rfl | rfl | rfl
    · exact h1
    · exact h2
    · exact h3
    · exact h4 s rfl

theorem dc_spec {hook : Hook} {h0 : Heap} (sd : Side hook h0) : ∀ fuel, Spec h0 (dc hook fuel) := by
  intro fuel
  induction fuel with
  | zero =>
    intro h m v h' m' v' hi hm hv he
    cases v with
    | atom s => simp [dc] at he; obtain ⟨rfl, rfl, rfl⟩ := he; exact ⟨hi, hm, trivial⟩
    | ref a =>
      simp only [dc] at he
      split at he
      · rename_i a' hl; cases he; exact ⟨hi, hm, hm _ _ hl⟩
      · cases he
  | succ fuel ih =>
    intro h m v h' m' v' hi hm hv he
    cases v with
    | atom s => simp [dc] at he; obtain ⟨rfl, rfl, rfl⟩ := he; exact ⟨hi, hm, trivial⟩
    | ref a =>
      have halt : a < h0.length := hv
      simp only [dc] at he
      split at he
      · rename_i a' hl; cases he; exact ⟨hi, hm, hm _ _ hl⟩
      · split at he
        · cases he
        · rename_i c hc
          have hc0 : h0[a]? = some c := by rw [← hi.old a halt]; exact hc
          have hslots := wf_slots sd.wf hc0
          split at he
          · cases he
          · split at he
            · -- Identifier.__deepcopy__
              rename_i hunk hid
              obtain ⟨hoff, hkind⟩ := hid
              split at he
              · rename_i ps al pa hps hal hpa
                have okps : OkV h0.length ps := hslots _ (slot?_mem hps)
                have okal : OkV h0.length al := hslots _ (slot?_mem hal)
                have frpa : Fresh h0.length pa := isAtom_fresh (parenAtomic_slot (sd.paren hoff) hc0 hkind hpa)
                -- the parts step
                have hparts : ∀ h1 m1 ps',
                    (if hook = .fixed then dc hook fuel h m ps
                      else (let (h1, ps') := shallowCopy h ps; some (h1, m, ps'))) = some (h1, m1, ps') →
                    HInv h0 h1 ∧ MInv h0.length m1 ∧ Fresh h0.length ps' := by
                  intro h1 m1 ps' hr
                  by_cases hfx : hook = .fixed
                  · rw [if_pos hfx] at hr
                    exact ih h m ps h1 m1 ps' hi hm okps hr
                  · rw [if_neg hfx] at hr
                    have hpin : hook = .pinned := by
                      cases hook <;> simp_all
                    cases ps with
                    | atom s =>
                      simp [shallowCopy] at hr; obtain ⟨rfl, rfl, rfl⟩ := hr; exact ⟨hi, hm, trivial⟩
                    | ref p =>
                      have hplt : p < h0.length := okps
                      have hp0 : h[p]? = h0[p]? := hi.old p hplt
                      have hsome : ∃ cp, h0[p]? = some cp := ⟨h0[p], List.getElem?_eq_getElem hplt⟩
                      obtain ⟨cp, hcp⟩ := hsome
                      simp only [shallowCopy, hp0, hcp] at hr
                      simp at hr
                      obtain ⟨rfl, rfl, rfl⟩ := hr
                      refine ⟨hinv_append hi cp ?_, hm, hi.len⟩
                      intro kv hkv
                      exact isAtom_fresh (partsAtomic_slot (sd.parts hpin) hc0 hkind hps hcp kv hkv)
                split at he
                · cases he
                · rename_i h1 m1 ps' hr1
                  obtain ⟨hi1, hm1, frps⟩ := hparts h1 m1 ps' hr1
                  split at he
                  · cases he
                  · rename_i h2 mx al' hr2
                    obtain ⟨hi2, _, fral⟩ := ih h1 [] al h2 mx al' hi1 (MInv.nil _) okal hr2
                    split at he
                    · -- no sub_select
                      simp at he
                      obtain ⟨rfl, rfl, rfl⟩ := he
                      refine ⟨hinv_append hi2 _ (identCell_fresh fral frpa frps (by intro s hs; cases hs)),
                        MInv.cons hm1 _ _ hi2.len, hi2.len⟩
                    · rename_i ss hss
                      have okss : OkV h0.length ss := hslots _ (slot?_mem hss)
                      split at he
                      · cases he
                      · rename_i h3 my ss' hr3
                        obtain ⟨hi3, _, frss⟩ := ih h2 [] ss h3 my ss' hi2 (MInv.nil _) okss hr3
                        simp at he
                        obtain ⟨rfl, rfl, rfl⟩ := he
                        refine ⟨hinv_append hi3 _ (identCell_fresh fral frpa frps
                          (by intro s hs; cases hs; exact frss)), MInv.cons hm1 _ _ hi3.len, hi3.len⟩
              · cases he
            · -- generic reconstruction
              split at he
              · cases he
              · rename_i hh mm hr
                simp at he
                obtain ⟨rfl, rfl, rfl⟩ := he
                have hi1 : HInv h0 (h ++ [⟨c.kind, []⟩]) := hinv_append hi _ (by intro kv hkv; cases hkv)
                have hm1 : MInv h0.length ((a, h.length) :: m) := MInv.cons hm _ _ hi.len
                obtain ⟨hi', hm'⟩ := dcSlots_spec ih hi.len c.slots _ _ _ _ hi1 hm1 hslots hr
                exact ⟨hi', hm', hi.len⟩

/-! ### reachability facts -/

theorem reach_fresh {h0 h : Heap} (hi : HInv h0 h) {v : Val} {b : Addr} (hr : Reach h v b) :
    Fresh h0.length v → h0.length ≤ b := by
  induction hr with
  | here a => intro hf; exact hf
  | step hc hkv _ ih => intro hf; exact ih (hi.closed _ _ hf hc _ hkv)

theorem reach_old {h0 h : Heap} (hwf : wfB h0 = true) (hold : ∀ a, a < h0.length → h[a]? = h0[a]?)
    {v : Val} {b : Addr} (hr : Reach h v b) : OkV h0.length v → b < h0.length := by
  induction hr with
  | here a => intro hf; exact hf
  | step hc hkv _ ih =>
    intro hf
    rw [hold _ hf] at hc
    exact ih (wf_slots hwf hc _ hkv)

theorem reach_congr {h1 h2 : Heap} {v : Val} {b : Addr} (hr : Reach h1 v b)
    (hag : ∀ a, Reach h1 v a → h1[a]? = h2[a]?) : Reach h2 v b := by
  induction hr with
  | here a => exact Reach.here a
  | @step a c kv b hc hkv hr' ih =>
    have h2c : h2[a]? = some c := by rw [← hag a (Reach.here a)]; exact hc
    exact Reach.step h2c hkv (ih (fun x hx => hag x (Reach.step hc hkv hx)))

/-! ### mutation -/

theorem mutate_other (h : Heap) (a : Addr) (f : Cell → Cell) (b : Addr) (hne : a ≠ b) :
    (mutate h a f)[b]? = h[b]? := by
  unfold mutate
  split
  · exact List.getElem?_set_ne hne
  · rfl

theorem mutate_length (h : Heap) (a : Addr) (f : Cell → Cell) : (mutate h a f).length = h.length := by
  unfold mutate; split <;> simp

theorem mutateAll_below (n : Nat) : ∀ (ms : List (Addr × (Cell → Cell))) (h : Heap),
    (∀ p ∈ ms, n ≤ p.1) → ∀ b, b < n → (mutateAll h ms)[b]? = h[b]? := by
  intro ms
  induction ms with
  | nil => intro h _ b _; rfl
  | cons p rest ih =>
    intro h hp b hb
    obtain ⟨a, f⟩ := p
    simp only [mutateAll]
    rw [ih _ (fun q hq => hp q (List.mem_cons_of_mem _ hq)) b hb]
    have hab : a ≠ b := by
      have : n ≤ a := hp (a, f) List.mem_cons_self
      intro heq
      subst heq
      omega
    exact mutate_other h a f b hab

theorem mutateAll_above (n : Nat) : ∀ (ms : List (Addr × (Cell → Cell))) (h : Heap),
    (∀ p ∈ ms, p.1 < n) → ∀ b, n ≤ b → (mutateAll h ms)[b]? = h[b]? := by
  intro ms
  induction ms with
  | nil => intro h _ b _; rfl
  | cons p rest ih =>
    intro h hp b hb
    obtain ⟨a, f⟩ := p
    simp only [mutateAll]
    rw [ih _ (fun q hq => hp q (List.mem_cons_of_mem _ hq)) b hb]
    have hab : a ≠ b := by
      have hlt : Nat.lt a n := hp (a, f) List.mem_cons_self
      intro heq
      subst heq
      exact Nat.lt_irrefl _ (Nat.lt_of_lt_of_le hlt hb)
    exact mutate_other h a f b hab

/-- an observation (`str(x)`, `x.to_tree()`, `x == y` against a fixed `y`, …) that depends only on the
part of the heap reachable from the observed value -/
def Local {β : Type} (F : Heap → Val → β) : Prop :=
  ∀ h1 h2 v, (∀ a, Reach h1 v a → h1[a]? = h2[a]?) → F h1 v = F h2 v

end MindsVerif.Heap
