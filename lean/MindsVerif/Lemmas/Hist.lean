import MindsVerif.Model.Hist
/-! Laws of object histories (`Model/Hist.lean`), for every state type, edit type, printer. -/
namespace MindsVerif.Hist

variable {ω σ τ : Type}

/-- the live machine prints `pr` of the state held at the time of each observation -/
theorem runLive_eq_map (step : ω → σ → σ) (pr : σ → τ) (h : List (Ev ω)) (s : σ) :
    runLive step pr h s = (states step h s).map pr := by
  induction h generalizing s with
  | nil => rfl
  | cons e h ih =>
    cases e with
    | obs => simp [runLive, states, ih]
    | act o => simp [runLive, states, ih]

theorem mem_zip_map {f : σ → τ} (l : List σ) (a : σ) (b : τ) (hm : (a, b) ∈ l.zip (l.map f)) : b = f a := by
  induction l with
  | nil => simp at hm
  | cons x t ih =>
    simp only [List.map_cons, List.zip_cons_cons, List.mem_cons, Prod.mk.injEq] at hm
    rcases hm with ⟨rfl, rfl⟩ | hm
    · rfl
    · exact ih hm

/-- every (state at observation, text observed) pair of a history: the text is the printed form of THAT state -/
theorem live_current (step : ω → σ → σ) (pr : σ → τ) (h : List (Ev ω)) (s : σ) (p : σ × τ)
    (hp : p ∈ (states step h s).zip (runLive step pr h s)) : p.2 = pr p.1 := by
  rw [runLive_eq_map] at hp
  exact mem_zip_map _ p.1 p.2 hp

theorem states_length (step : ω → σ → σ) (pr : σ → τ) (h : List (Ev ω)) (s : σ) :
    (states step h s).length = (runLive step pr h s).length := by
  rw [runLive_eq_map]; simp

theorem final_edits (step : ω → σ → σ) (h : List (Ev ω)) (s : σ) : final step (edits h) s = final step h s := by
  induction h generalizing s with
  | nil => rfl
  | cons e h ih => cases e <;> simp [edits, final, ih]

theorem runLive_snoc (step : ω → σ → σ) (pr : σ → τ) (h : List (Ev ω)) (s : σ) :
    runLive step pr (h ++ [.obs]) s = runLive step pr h s ++ [pr (final step h s)] := by
  induction h generalizing s with
  | nil => rfl
  | cons e h ih => cases e <;> simp [runLive, final, ih]

theorem runLive_edits (step : ω → σ → σ) (pr : σ → τ) (h : List (Ev ω)) (s : σ) : runLive step pr (edits h) s = [] := by
  induction h generalizing s with
  | nil => rfl
  | cons e h ih => cases e <;> simp [edits, runLive, ih]

/-- **observations are pure**: what is printed after a history does not depend on what was observed on the way —
an object that went through the same edits and was never looked at prints the same text -/
theorem live_obs_pure (step : ω → σ → σ) (pr : σ → τ) (h : List (Ev ω)) (s : σ) :
    (runLive step pr (h ++ [.obs]) s).getLast? = (runLive step pr (edits h ++ [.obs]) s).getLast? := by
  rw [runLive_snoc, runLive_snoc, final_edits]; simp

/-- a memoising printer whose unforgotten edits leave the printed form alone is the live machine -/
theorem memo_sound (step : ω → σ → σ) (pr : σ → τ) (inv : ω → Bool)
    (hinv : ∀ o s, inv o = false → pr (step o s) = pr s) (h : List (Ev ω)) (s : σ) (c : Option τ)
    (hc : c = none ∨ c = some (pr s)) : runMemo step pr inv h s c = runLive step pr h s := by
  induction h generalizing s c with
  | nil => cases c <;> rfl
  | cons e h ih =>
    cases e with
    | obs =>
      cases c with
      | none => simp [runMemo, runLive, ih s (some (pr s)) (Or.inr rfl)]
      | some t =>
        have ht : t = pr s := by
          rcases hc with hc | hc
          · cases hc
          · exact Option.some.inj hc
        subst ht
        simp [runMemo, runLive, ih s (some (pr s)) (Or.inr rfl)]
    | act o =>
      simp only [runMemo, runLive]
      apply ih
      cases hi : inv o with
      | true => simp
      | false =>
        simp only [Bool.false_eq_true, if_false]
        rcases hc with hc | hc
        · exact Or.inl hc
        · exact Or.inr (by rw [hc, hinv o s hi])

/-- … and one unforgotten edit that changes the printed form is enough to make it print a stale text -/
theorem memo_unsound (step : ω → σ → σ) (pr : σ → τ) (inv : ω → Bool) (o : ω) (s : σ)
    (hi : inv o = false) (hne : pr (step o s) ≠ pr s) :
    runMemo step pr inv [.obs, .act o, .obs] s none ≠ runLive step pr [.obs, .act o, .obs] s := by
  simp [runMemo, runLive, hi]
  exact fun e => hne e.symm

/-- **characterisation**: a remembering printer is observationally the live one on all histories exactly when every
edit it does not forget on leaves the printed form unchanged -/
theorem memo_iff (step : ω → σ → σ) (pr : σ → τ) (inv : ω → Bool) :
    (∀ h s, runMemo step pr inv h s none = runLive step pr h s) ↔
      (∀ o s, inv o = false → pr (step o s) = pr s) := by
  constructor
  · intro H o s hi
    apply Classical.byContradiction
    intro hne
    exact memo_unsound step pr inv o s hi hne (H _ _)
  · intro H h s
    exact memo_sound step pr inv H h s none (Or.inl rfl)

end MindsVerif.Hist
