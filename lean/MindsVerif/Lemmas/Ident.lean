import MindsVerif.Lemmas.Literal
/-! T4.3: `parts_to_str` is read back by lexer + `id`/`identifier` actions as the same parts -/
namespace MindsVerif.Ident
open MindsVerif.Py MindsVerif.Lex MindsVerif.Literal

/-- characters allowed by `no_wrap_identifier_regex` -/
def plainC (c : Char) : Bool := c.isAlpha || c = '_' || c.isDigit

theorem plain_ne {c x : Char} (h : plainC c = true) (hx : plainC x = false) : c ≠ x := by
  intro e; subst e; rw [h] at hx; cases hx

theorem plain_word {c : Char} (h : plainC c = true) : isWordChar c = true := by
  simp only [plainC, Bool.or_eq_true, decide_eq_true_eq] at h
  simp only [isWordChar, Char.isAlphanum, Bool.or_eq_true, decide_eq_true_eq]
  rcases h with (h | h) | h
  · exact Or.inl (Or.inl h)
  · exact Or.inr h
  · exact Or.inl (Or.inr h)

theorem plain_fold {c : Char} (h : plainC c = true) : foldCI c = c.toUpper := by
  have h1 : c ≠ 'İ' := plain_ne h (by decide)
  have h2 : c ≠ 'ı' := plain_ne h (by decide)
  have h3 : c ≠ 'ſ' := plain_ne h (by decide)
  have h4 : c ≠ '\u212a' := plain_ne h (by decide)
  simp [foldCI, h1, h2, h3, h4]

theorem alpha_not_digit (c : Char) (h : c.isAlpha = true) : c.isDigit = false := by
  simp [Char.isAlpha, Char.isUpper, Char.isLower, Char.isDigit, UInt32.le_iff_toNat_le] at *
  omega

/-- what `noWrap p` says about `p` -/
theorem noWrap_spec {p : List Char} (h : noWrap p = true) :
    ∃ c t, p = c :: t ∧ (c.isAlpha = true ∨ c = '_') ∧ ∀ x ∈ p, plainC x = true := by
  cases p with
  | nil => simp [noWrap] at h
  | cons c t =>
    simp only [noWrap, Bool.and_eq_true, Bool.or_eq_true, decide_eq_true_eq, List.all_eq_true] at h
    refine ⟨c, t, rfl, h.1, ?_⟩
    intro x hx
    rcases List.mem_cons.mp hx with rfl | hx
    · rcases h.1 with h1 | h1 <;> simp [plainC, h1]
    · have := h.2 x hx
      simp only [plainC, Bool.or_eq_true, decide_eq_true_eq]
      exact this

theorem takeWhile_all {α} (p : α → Bool) : ∀ (l rest : List α), (∀ x ∈ l, p x = true) →
    (∀ y t, rest = y :: t → p y = false) →
    (l ++ rest).takeWhile p = l ∧ (l ++ rest).dropWhile p = rest
  | [], rest, _, hr => by
    cases rest with
    | nil => simp
    | cons y t => simp [List.takeWhile, List.dropWhile, hr y t rfl]
  | x :: l, rest, hl, hr => by
    have hx : p x = true := hl x (by simp)
    have ih := takeWhile_all p l rest (fun z hz => hl z (by simp [hz])) hr
    simp [List.takeWhile, List.dropWhile, hx, ih.1, ih.2]

theorem pathGo_nil (n : Nat) : pathGo n [] = [] := by cases n <;> rfl

theorem strip_none (cs s : List Char) (h : ∀ c ∈ s, cs.contains c = false) : strip cs s = s := by
  have hl : ∀ t : List Char, (∀ c ∈ t, cs.contains c = false) → lstrip cs t = t := by
    intro t ht
    cases t with
    | nil => rfl
    | cons a b =>
      have ha : a ∉ cs := by simpa using ht a (by simp)
      simp [lstrip, List.dropWhile, ha]
  unfold strip rstrip
  rw [hl s h, hl s.reverse (fun c hc => h c (by simpa using hc)), List.reverse_reverse]

/-- `path_str_to_parts` of a plain word -/
theorem path_plain {p : List Char} (hne : p ≠ []) (hp : ∀ x ∈ p, plainC x = true) : pathStrToParts p = [p] := by
  cases p with
  | nil => exact absurd rfl hne
  | cons c t =>
    have hc := hp c (by simp)
    have h1 : c ≠ '`' := plain_ne hc (by decide)
    have h2 : c ≠ '.' := plain_ne hc (by decide)
    have hdot : ∀ x ∈ c :: t, (decide (x ≠ '.')) = true := by
      intro x hx; simpa using plain_ne (hp x hx) (by decide : plainC '.' = false)
    have tk := takeWhile_all (fun x => decide (x ≠ '.')) (c :: t) [] hdot (by intro y t e; cases e)
    simp only [List.append_nil] at tk
    have hs : strip ['`'] (c :: t) = c :: t := by
      apply strip_none
      intro x hx
      have : x ≠ '`' := plain_ne (hp x hx) (by decide)
      simp [this]
    simp only [pathStrToParts, List.length_cons, pathGo, h1, h2, if_false, tk.1, tk.2, hs, pathGo_nil]

/-- `path_str_to_parts` of a back-quoted part -/
theorem path_quoted {p : List Char} (hne : p ≠ []) (hp : ∀ x ∈ p, x ≠ '`') :
    pathStrToParts ('`' :: p ++ ['`']) = [p] := by
  have hm := mSimple_body '`' [] p hp
  have hs : strip ['`'] ('`' :: p ++ ['`']) = p := by
    apply strip_delims
    · intro c t e; exact hp c (by simp [e])
    · intro c t e; exact hp c (by simp [e])
  simp only [List.cons_append] at hs
  simp [pathStrToParts, pathGo, hm, hne, hs, pathGo_nil]

/-- Φ4 as a hypothesis: every keyword word is reserved, reducible to `id`, or a listed known-finding word -/
def phi4 (K : KwTable) (reserved kf : List (List Char)) : Bool :=
  K.idAlts.contains "ID" &&
    K.keywords.all fun kw => reserved.contains kw.2 || K.idAlts.contains kw.1 || kf.contains kw.2

theorem classify_plain (K : KwTable) (reserved kf : List (List Char)) (h : phi4 K reserved kf = true)
    {p : List Char} (hp : ∀ x ∈ p, plainC x = true) (hr : reserved.contains (upper p) = false)
    (hk : kf.contains (upper p) = false) : classifyWord K p = some p := by
  simp only [phi4, Bool.and_eq_true, List.all_eq_true] at h
  have hmap : p.map foldCI = upper p := by
    unfold upper
    apply List.map_congr_left
    intro x hx; exact plain_fold (hp x hx)
  unfold classifyWord
  cases hf : K.keywords.find? (fun kw => ciEq p kw.2) with
  | none =>
    have hid : "ID" ∈ K.idAlts := by simpa using h.1
    simp [hid]
  | some kw =>
    have hmem := List.mem_of_find?_eq_some hf
    have hci := List.find?_some hf
    simp only [ciEq, beq_iff_eq] at hci
    rw [hmap] at hci
    have := h.2 kw hmem
    rw [← hci, hr, hk] at this
    simp at this
    simp [this]

/-- one path segment of the printed form is read back as that segment -/
theorem seg_ok (K : KwTable) (reserved kf : List (List Char)) (h : phi4 K reserved kf = true)
    (p rest : List Char) (hne : p ≠ []) (hbq : ∀ x ∈ p, x ≠ '`') (hk : kf.contains (upper p) = false)
    (hrest : ∀ y t, rest = y :: t → y = '.') :
    identSeg K (partToStr reserved p ++ rest) = some (partToStr reserved p, rest) ∧
      pathStrToParts (partToStr reserved p) = [p] := by
  unfold partToStr
  by_cases hq : (!noWrap p || reserved.contains (upper p)) = true
  · rw [if_pos hq]
    have hm := mSimple_body '`' rest p hbq
    refine ⟨?_, path_quoted hne hbq⟩
    simp [identSeg, hm, hne]
  · rw [if_neg hq]
    simp only [Bool.or_eq_true, Bool.not_eq_true', not_or, Bool.not_eq_false, Bool.not_eq_true] at hq
    obtain ⟨c, t, rfl, hc, hall⟩ := noWrap_spec hq.1
    have h1 : c ≠ '`' := plain_ne (hall c (by simp)) (by decide)
    have tk := takeWhile_all isWordChar (c :: t) rest (fun x hx => plain_word (hall x hx))
      (by intro y t' e; rw [hrest y t' e]; decide)
    have hnd : (c :: t).all Char.isDigit = false := by
      have : c.isDigit = false := by
        rcases hc with hc | hc
        · exact alpha_not_digit c hc
        · subst hc; decide
      simp [this]
    have hcl := classify_plain K reserved kf h hall hq.2 hk
    refine ⟨?_, path_plain (by simp) hall⟩
    have e : (c :: t) ++ rest = c :: (t ++ rest) := rfl
    rw [e] at tk ⊢
    simp only [identSeg, h1, if_false, tk.1, tk.2, hnd, hcl]
    simp

theorem partToStr_ne_nil (reserved : List (List Char)) (p : List Char) (hne : p ≠ []) :
    partToStr reserved p ≠ [] := by
  unfold partToStr; split <;> simp [hne]

abbrev PartOK (kf : List (List Char)) (p : List Char) : Prop :=
  p ≠ [] ∧ (∀ x ∈ p, x ≠ '`') ∧ kf.contains (upper p) = false

theorem identGo_ok (K : KwTable) (reserved kf : List (List Char)) (h : phi4 K reserved kf = true) :
    ∀ (parts : List (List Char)) (n : Nat), parts ≠ [] → parts.length ≤ n → (∀ p ∈ parts, PartOK kf p) →
      identGo K n (partsToStr reserved parts) = some parts
  | [], _, hne, _, _ => absurd rfl hne
  | [p], n, _, hn, hp => by
    obtain ⟨m, rfl⟩ : ∃ m, n = m + 1 := ⟨n - 1, by simp at hn; omega⟩
    obtain ⟨h1, h2, h3⟩ := hp p (by simp)
    obtain ⟨s1, s2⟩ := seg_ok K reserved kf h p [] h1 h2 h3 (by intro y t e; cases e)
    simp only [List.append_nil] at s1
    simp [partsToStr, join, identGo, s1, s2]
  | p :: q :: r, n, _, hn, hp => by
    obtain ⟨m, rfl⟩ : ∃ m, n = m + 1 := ⟨n - 1, by simp at hn; omega⟩
    obtain ⟨h1, h2, h3⟩ := hp p (by simp)
    have ih := identGo_ok K reserved kf h (q :: r) m (by simp) (by simp at hn ⊢; omega)
      (fun x hx => hp x (by simp [hx]))
    obtain ⟨s1, s2⟩ := seg_ok K reserved kf h p ('.' :: partsToStr reserved (q :: r)) h1 h2 h3
      (by intro y t e; cases e; rfl)
    have e : partsToStr reserved (p :: q :: r) =
        partToStr reserved p ++ '.' :: partsToStr reserved (q :: r) := by
      simp [partsToStr, join]
    rw [e]
    simp [identGo, s1, s2, ih]

theorem length_le (reserved : List (List Char)) : ∀ parts : List (List Char), (∀ p ∈ parts, p ≠ []) →
    parts.length ≤ (partsToStr reserved parts).length + 1
  | [], _ => by simp
  | [p], _ => by simp [partsToStr, join]
  | p :: q :: r, h => by
    have ih := length_le reserved (q :: r) (fun x hx => h x (by simp [hx]))
    have e : partsToStr reserved (p :: q :: r) =
        partToStr reserved p ++ '.' :: partsToStr reserved (q :: r) := by
      simp [partsToStr, join]
    rw [e]
    simp only [List.length_cons, List.length_append] at ih ⊢
    omega

theorem ident_roundtrip (K : KwTable) (reserved kf : List (List Char)) (h : phi4 K reserved kf = true)
    (parts : List (List Char)) (hne : parts ≠ []) (hp : ∀ p ∈ parts, PartOK kf p) :
    lexIdentPath K (partsToStr reserved parts) = some parts :=
  identGo_ok K reserved kf h parts _ hne (length_le reserved parts (fun p hp' => (hp p hp').1)) hp

end MindsVerif.Ident
