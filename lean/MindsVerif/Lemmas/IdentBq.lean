import MindsVerif.Lemmas.Ident
import MindsVerif.Model.LexBq
/-! T4.3 for the identifier codec with doubled back-quotes: every non-empty part round-trips -/
namespace MindsVerif.IdentBq
open MindsVerif.Py MindsVerif.Lex MindsVerif.Literal MindsVerif.Ident MindsVerif.LexBq

local notation "dbl" => replace ['`'] ['`', '`']

theorem mBq_dbl (rest : List Char) (hr : rest.head? ≠ some '`') :
    ∀ p : List Char, mBq (dbl p ++ '`' :: rest) = some (dbl p, rest)
  | [] => by
    rw [replace1_nil]
    cases rest with
    | nil => rw [mBq.eq_def]; simp
    | cons d t =>
      have : d ≠ '`' := by simpa using hr
      rw [mBq.eq_def]; simp [this]
  | c :: t => by
    have ih := mBq_dbl rest hr t
    by_cases hc : c = '`'
    · subst hc
      rw [replace1_cons_eq]
      rw [mBq.eq_def]; simp [ih]
    · rw [replace1_cons_ne hc]
      rw [mBq.eq_def]; simp [hc, ih]

theorem undbl_dbl : ∀ p : List Char, replace ['`', '`'] ['`'] (dbl p) = p
  | [] => by rw [replace1_nil, replace2_nil]
  | c :: t => by
    by_cases hc : c = '`'
    · subst hc
      rw [replace1_cons_eq]
      simp only [List.cons_append, List.nil_append]
      rw [replace2_match, undbl_dbl t]; rfl
    · rw [replace1_cons_ne hc, replace2_cons_ne hc, undbl_dbl t]

theorem dbl_ne_nil {p : List Char} (h : p ≠ []) : dbl p ≠ [] := by
  cases p with
  | nil => exact absurd rfl h
  | cons c t =>
    by_cases hc : c = '`'
    · subst hc; rw [replace1_cons_eq]; simp
    · rw [replace1_cons_ne hc]; simp

theorem pathGo_nil (n : Nat) : LexBq.pathGo n [] = [] := by cases n <;> rfl

theorem path_quoted {p : List Char} (hne : p ≠ []) :
    LexBq.pathStrToParts ('`' :: dbl p ++ ['`']) = [p] := by
  have hm := mBq_dbl [] (by simp) p
  simp [LexBq.pathStrToParts, LexBq.pathGo, hm, dbl_ne_nil hne, undbl_dbl, pathGo_nil]

theorem path_plain {p : List Char} (hne : p ≠ []) (hp : ∀ x ∈ p, plainC x = true) :
    LexBq.pathStrToParts p = [p] := by
  cases p with
  | nil => exact absurd rfl hne
  | cons c t =>
    have hc := hp c (by simp)
    have h1 : c ≠ '`' := plain_ne hc (by decide)
    have h2 : c ≠ '.' := plain_ne hc (by decide)
    have hdot : ∀ x ∈ c :: t, (decide (x ≠ '.')) = true := by
      intro x hx; simpa using plain_ne (hp x hx) (by decide : plainC '.' = false)
    have tk := takeWhile_all (fun x => decide (x ≠ '.')) (c :: t) [] hdot (by intro y t e; cases e)
    simp only [List.append_nil] at tk
    have hs : strip ['`'] (c :: t) = c :: t := by
      apply strip_none
      intro x hx
      have : x ≠ '`' := plain_ne (hp x hx) (by decide)
      simp [this]
    simp only [LexBq.pathStrToParts, List.length_cons, LexBq.pathGo, h1, h2, if_false, tk.1, tk.2, hs, pathGo_nil]

theorem seg_ok (K : KwTable) (reserved kf : List (List Char)) (h : phi4 K reserved kf = true)
    (p rest : List Char) (hne : p ≠ []) (hk : kf.contains (upper p) = false)
    (hrest : ∀ y t, rest = y :: t → y = '.') :
    LexBq.identSeg K (LexBq.partToStr reserved p ++ rest) = some (LexBq.partToStr reserved p, rest) ∧
      LexBq.pathStrToParts (LexBq.partToStr reserved p) = [p] := by
  unfold LexBq.partToStr
  by_cases hq : (!noWrap p || reserved.contains (upper p)) = true
  · rw [if_pos hq]
    have hr : rest.head? ≠ some '`' := by
      cases rest with
      | nil => simp
      | cons y t => rw [hrest y t rfl]; simp
    have hm := mBq_dbl rest hr p
    refine ⟨?_, path_quoted hne⟩
    simp [LexBq.identSeg, hm, dbl_ne_nil hne]
  · rw [if_neg hq]
    simp only [Bool.or_eq_true, Bool.not_eq_true', not_or, Bool.not_eq_false, Bool.not_eq_true] at hq
    obtain ⟨c, t, rfl, hc, hall⟩ := noWrap_spec hq.1
    have h1 : c ≠ '`' := plain_ne (hall c (by simp)) (by decide)
    have tk := takeWhile_all isWordChar (c :: t) rest (fun x hx => plain_word (hall x hx))
      (by intro y t' e; rw [hrest y t' e]; decide)
    have hnd : (c :: t).all Char.isDigit = false := by
      have : c.isDigit = false := by
        rcases hc with hc | hc
        · exact alpha_not_digit c hc
        · subst hc; decide
      simp [this]
    have hcl := classify_plain K reserved kf h hall hq.2 hk
    refine ⟨?_, path_plain (by simp) hall⟩
    have e : (c :: t) ++ rest = c :: (t ++ rest) := rfl
    rw [e] at tk ⊢
    simp only [LexBq.identSeg, h1, if_false, tk.1, tk.2, hnd, hcl]
    simp

abbrev PartOK (kf : List (List Char)) (p : List Char) : Prop := p ≠ [] ∧ kf.contains (upper p) = false

theorem identGo_ok (K : KwTable) (reserved kf : List (List Char)) (h : phi4 K reserved kf = true) :
    ∀ (parts : List (List Char)) (n : Nat), parts ≠ [] → parts.length ≤ n → (∀ p ∈ parts, PartOK kf p) →
      LexBq.identGo K n (LexBq.partsToStr reserved parts) = some parts
  | [], _, hne, _, _ => absurd rfl hne
  | [p], n, _, hn, hp => by
    obtain ⟨m, rfl⟩ : ∃ m, n = m + 1 := ⟨n - 1, by simp at hn; omega⟩
    obtain ⟨h1, h3⟩ := hp p (by simp)
    obtain ⟨s1, s2⟩ := seg_ok K reserved kf h p [] h1 h3 (by intro y t e; cases e)
    simp only [List.append_nil] at s1
    simp [LexBq.partsToStr, join, LexBq.identGo, s1, s2]
  | p :: q :: r, n, _, hn, hp => by
    obtain ⟨m, rfl⟩ : ∃ m, n = m + 1 := ⟨n - 1, by simp at hn; omega⟩
    obtain ⟨h1, h3⟩ := hp p (by simp)
    have ih := identGo_ok K reserved kf h (q :: r) m (by simp) (by simp at hn ⊢; omega)
      (fun x hx => hp x (by simp [hx]))
    obtain ⟨s1, s2⟩ := seg_ok K reserved kf h p ('.' :: LexBq.partsToStr reserved (q :: r)) h1 h3
      (by intro y t e; cases e; rfl)
    have e : LexBq.partsToStr reserved (p :: q :: r) =
        LexBq.partToStr reserved p ++ '.' :: LexBq.partsToStr reserved (q :: r) := by
      simp [LexBq.partsToStr, join]
    rw [e]
    simp [LexBq.identGo, s1, s2, ih]

theorem length_le (reserved : List (List Char)) : ∀ parts : List (List Char),
    parts.length ≤ (LexBq.partsToStr reserved parts).length + 1
  | [] => by simp
  | [p] => by simp [LexBq.partsToStr, join]
  | p :: q :: r => by
    have ih := length_le reserved (q :: r)
    have e : LexBq.partsToStr reserved (p :: q :: r) =
        LexBq.partToStr reserved p ++ '.' :: LexBq.partsToStr reserved (q :: r) := by
      simp [LexBq.partsToStr, join]
    rw [e]
    simp only [List.length_cons, List.length_append] at ih ⊢
    omega

theorem ident_roundtrip (K : KwTable) (reserved kf : List (List Char)) (h : phi4 K reserved kf = true)
    (parts : List (List Char)) (hne : parts ≠ []) (hp : ∀ p ∈ parts, PartOK kf p) :
    LexBq.lexIdentPath K (LexBq.partsToStr reserved parts) = some parts :=
  identGo_ok K reserved kf h parts _ hne (length_le reserved parts) hp

end MindsVerif.IdentBq
