import MindsVerif.Model.Iso
namespace MindsVerif.Iso

theorem stepAt_other {Sh σ ρ : Type} (f : Sh → σ → Cell σ ρ) (sh : Sh) (i j : Nat)
    (st : List (Cell σ ρ)) (h : i ≠ j) : (stepAt f sh j st)[i]? = st[i]? := by
  unfold stepAt
  rw [List.getElem?_modify]
  simp [Ne.symm h]

theorem stepAt_self {Sh σ ρ : Type} (f : Sh → σ → Cell σ ρ) (sh : Sh) (i : Nat)
    (st : List (Cell σ ρ)) : (stepAt f sh i st)[i]? = (st[i]?).map (stepCell f sh) := by
  unfold stepAt
  rw [List.getElem?_modify]
  simp

theorem iter_succ' {α : Type} (g : α → α) (n : Nat) (a : α) : iter g (n + 1) a = g (iter g n a) := by
  induction n generalizing a with
  | zero => rfl
  | succ n ih => simp only [iter] at *; rw [ih]

/-- a finished call stays finished with the same result -/
theorem iter_done {Sh σ ρ : Type} (f : Sh → σ → Cell σ ρ) (sh : Sh) (r : ρ) (n : Nat) :
    iter (stepCell f sh) n (.inr r : Cell σ ρ) = .inr r := by
  induction n with
  | zero => rfl
  | succ n ih => simpa [iter, stepCell] using ih

theorem iter_add {α : Type} (g : α → α) (m n : Nat) (a : α) : iter g (m + n) a = iter g n (iter g m a) := by
  induction m generalizing a with
  | zero => simp [iter]
  | succ m ih => rw [Nat.succ_add]; simp only [iter]; exact ih (g a)

end MindsVerif.Iso
