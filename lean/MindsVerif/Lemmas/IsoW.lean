import MindsVerif.Lemmas.Iso
import MindsVerif.Model.IsoW
namespace MindsVerif.Iso

theorem modify_eq_set_of_some {α : Type} (g : α → α) (l : List α) (i : Nat) (c : α) (h : l[i]? = some c) :
    l.modify i g = l.set i (g c) := by
  apply List.ext_getElem?
  intro j
  rw [List.getElem?_modify, List.getElem?_set]
  by_cases hij : i = j
  · subst hij
    have hlt : i < l.length := by
      rcases Nat.lt_or_ge i l.length with h' | h'
      · exact h'
      · rw [List.getElem?_eq_none h'] at h; cases h
    have hc : l[i] = c := by
      have := List.getElem?_eq_getElem hlt
      rw [h] at this; exact (Option.some.inj this).symm
    simp [hlt, hc]
  · simp [hij]

theorem modify_eq_self_of_none {α : Type} (g : α → α) (l : List α) (i : Nat) (h : l[i]? = none) :
    l.modify i g = l := by
  apply List.ext_getElem?
  intro j
  rw [List.getElem?_modify]
  by_cases hij : i = j
  · subst hij; simp [h]
  · simp [hij]

theorem stepAtW_quiet {Sh σ ρ : Type} (f : Sh → σ → Cell σ ρ × Sh) (hq : ∀ sh s, (f sh s).2 = sh)
    (i : Nat) (sh : Sh) (st : List (Cell σ ρ)) :
    stepAtW f i (sh, st) = (sh, stepAt (fun sh s => (f sh s).1) sh i st) := by
  unfold stepAtW stepAt
  cases h : st[i]? with
  | none => simp only [modify_eq_self_of_none _ _ _ h]
  | some c =>
    simp only []
    rw [modify_eq_set_of_some _ _ _ c h]
    cases c with
    | inl s => simp [stepCellW, hq, stepCell]
    | inr r => simp [stepCellW, stepCell]

theorem runSchedW_quiet {Sh σ ρ : Type} (f : Sh → σ → Cell σ ρ × Sh) (hq : ∀ sh s, (f sh s).2 = sh)
    (sh : Sh) : ∀ (sched : List Nat) (st : List (Cell σ ρ)),
    runSchedW f sched (sh, st) = (sh, runSched (fun sh s => (f sh s).1) sh sched st) := by
  intro sched
  induction sched with
  | nil => intro st; rfl
  | cons i is ih =>
    intro st
    have h1 : runSchedW f (i :: is) (sh, st) = runSchedW f is (stepAtW f i (sh, st)) := rfl
    have h2 : runSched (fun sh s => (f sh s).1) sh (i :: is) st
        = runSched (fun sh s => (f sh s).1) sh is (stepAt (fun sh s => (f sh s).1) sh i st) := rfl
    rw [h1, h2, stepAtW_quiet f hq, ih]

end MindsVerif.Iso
