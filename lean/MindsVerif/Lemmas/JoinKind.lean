import MindsVerif.Model.JoinKind
/-!
# Lemmas about the join-type classification of `ModelJoin` (property C14, round 6)

* closed forms of `codeFlags` (the decisions are functions of `joinKind` = the lower-cased FIRST word, resp. of the
  whole lower-cased string for LIMIT),
* `mark_nullable_tables` on an arbitrary left-deep join: an operand joined by a LEFT / FULL kind, and every operand in
  front of a RIGHT / FULL kind, is marked (`isNullable_right`, `isNullable_left`).
-/
namespace MindsVerif.ModelJoin

/-- the operands of an item list, in order -/
def itemOps : List Item → List Nat
  | [] => []
  | .operand i :: r => i :: itemOps r
  | .join _ :: r => itemOps r

theorem itemOps_append (a b : List Item) : itemOps (a ++ b) = itemOps a ++ itemOps b := by
  induction a with
  | nil => rfl
  | cons x xs ih => cases x <;> simp [itemOps, ih]

/-- the three literal tuples of the code: the first words for which `mark_nullable_tables` marks the right operand
(`('LEFT', 'FULL')`), the operands joined before (`('RIGHT', 'FULL')`), and for which
`get_filters_from_join_conditions` returns early (`('RIGHT', 'FULL')`) -/
abbrev PadsRKind (k : String) : Prop := k = "left" ∨ k = "full"
abbrev PadsLKind (k : String) : Prop := k = "right" ∨ k = "full"
abbrev keepsKinds : List String := ["right", "full"]

/-- the kind `mark_nullable_tables` computes for the Join whose right operand is `k` -/
def kindAt (ops : List Operand) (k : Nat) : String := joinKind (ops.getD k default).jtype

theorem mem_step {acc : List Nat} {j : Nat} (p q : Prop) [Decidable p] [Decidable q] (x y : List Nat) (h : j ∈ acc) :
    j ∈ (if q then (if p then acc ++ x else acc) ++ y else (if p then acc ++ x else acc)) := by
  by_cases hp : p <;> by_cases hq : q <;> simp [hp, hq, h]

theorem markNullable_join (ops : List Operand) (k : Nat) (rest : List Item) (seen acc : List Nat) :
    markNullable ops (.join k :: rest) seen acc =
      markNullable ops rest seen
        (if PadsLKind (kindAt ops k) then
          (if PadsRKind (kindAt ops k) then acc ++ seen.getLast?.toList else acc) ++ seen.dropLast
        else (if PadsRKind (kindAt ops k) then acc ++ seen.getLast?.toList else acc)) := rfl

/-- what is marked stays marked -/
theorem mem_markNullable_of_acc (ops : List Operand) : ∀ (items : List Item) (seen acc : List Nat) (j : Nat),
    j ∈ acc → j ∈ markNullable ops items seen acc
  | [], _, _, _, h => h
  | .operand _ :: rest, _, _, j, h => by
    simp only [markNullable]
    exact mem_markNullable_of_acc ops rest _ _ j h
  | .join k :: rest, seen, acc, j, h => by
    rw [markNullable_join]
    exact mem_markNullable_of_acc ops rest _ _ j (mem_step _ _ _ _ h)

/-- LEFT / FULL kind: the last operand met before the Join item (its right operand) is marked -/
theorem markNullable_right (ops : List Operand) (k : Nat) (post : List Item) :
    ∀ (pre : List Item) (seen acc : List Nat) (j : Nat),
      (PadsRKind (kindAt ops k)) → (seen ++ itemOps pre).getLast? = some j →
      j ∈ markNullable ops (pre ++ .join k :: post) seen acc
  | [], seen, acc, j, hk, hj => by
    simp only [itemOps, List.append_nil] at hj
    rw [List.nil_append, markNullable_join]
    apply mem_markNullable_of_acc
    have h1 : j ∈ (if PadsRKind (kindAt ops k) then acc ++ seen.getLast?.toList else acc) := by
      simp [hk, hj]
    by_cases hq : PadsLKind (kindAt ops k)
    · rw [if_pos hq]; exact List.mem_append_left _ h1
    · rw [if_neg hq]; exact h1
  | .operand i :: pre, seen, acc, j, hk, hj => by
    simp only [List.cons_append, markNullable]
    apply markNullable_right ops k post pre (seen ++ [i]) acc j hk
    simpa [itemOps, List.append_assoc] using hj
  | .join k' :: pre, seen, acc, j, hk, hj => by
    rw [List.cons_append, markNullable_join]
    exact markNullable_right ops k post pre seen _ j hk (by simpa [itemOps] using hj)

/-- RIGHT / FULL kind: every operand met before the last one (everything joined before) is marked -/
theorem markNullable_left (ops : List Operand) (k : Nat) (post : List Item) :
    ∀ (pre : List Item) (seen acc : List Nat) (j : Nat),
      (PadsLKind (kindAt ops k)) → j ∈ (seen ++ itemOps pre).dropLast →
      j ∈ markNullable ops (pre ++ .join k :: post) seen acc
  | [], seen, acc, j, hk, hj => by
    simp only [itemOps, List.append_nil] at hj
    rw [List.nil_append, markNullable_join]
    apply mem_markNullable_of_acc
    rw [if_pos hk]
    exact List.mem_append_right _ hj
  | .operand i :: pre, seen, acc, j, hk, hj => by
    simp only [List.cons_append, markNullable]
    apply markNullable_left ops k post pre (seen ++ [i]) acc j hk
    simpa [itemOps, List.append_assoc] using hj
  | .join k' :: pre, seen, acc, j, hk, hj => by
    rw [List.cons_append, markNullable_join]
    exact markNullable_left ops k post pre seen _ j hk (by simpa [itemOps] using hj)

/-! ### the join sequence of a left-deep join -/

theorem joinSeqFrom_succ (n s : Nat) :
    joinSeqFrom (n + 1) s = .operand s :: .join s :: joinSeqFrom n (s + 1) := rfl

theorem joinSeqFrom_split : ∀ (a b s : Nat),
    joinSeqFrom (a + b + 1) s = joinSeqFrom a s ++ (.operand (s + a) :: .join (s + a) :: joinSeqFrom b (s + a + 1))
  | 0, b, s => by
    rw [Nat.zero_add, joinSeqFrom_succ]
    rfl
  | a + 1, b, s => by
    have e : a + 1 + b + 1 = (a + b + 1) + 1 := by omega
    rw [e, joinSeqFrom_succ, joinSeqFrom_split a b (s + 1), joinSeqFrom_succ]
    have e1 : s + 1 + a = s + (a + 1) := by omega
    rw [e1]
    rfl

theorem itemOps_joinSeqFrom : ∀ (a s : Nat), itemOps (joinSeqFrom a s) = List.range' s a
  | 0, _ => rfl
  | a + 1, s => by
    simp [joinSeqFrom, itemOps, itemOps_joinSeqFrom a (s + 1), List.range'_succ]

/-- the shape in which operand 0 comes first and every further operand is followed by its Join item
(everything except the two-operand `model JOIN table`, where the operands are swapped) -/
def standard (ops : List Operand) : Prop :=
  3 ≤ ops.length ∨ (ops.length = 2 ∧ (ops.getD 0 default).kind ≠ .mod)

theorem joinSeq_standard (ops : List Operand) (h : standard ops) :
    joinSeq ops = .operand 0 :: joinSeqFrom (ops.length - 1) 1 := by
  match ops, h with
  | [], h => simp [standard] at h
  | [_], h => simp [standard] at h
  | [a, b], h =>
    have hk : a.kind ≠ .mod := by
      rcases h with h | h
      · simp at h
      · simpa using h.2
    simp [joinSeq, hk, joinSeqFrom]
  | a :: b :: c :: r, _ => simp [joinSeq]

/-- in a standard join sequence the Join item of operand `k` is preceded exactly by the operands `0 … k` -/
theorem joinSeq_split (ops : List Operand) (h : standard ops) (k : Nat) (h1 : 1 ≤ k) (h2 : k < ops.length) :
    ∃ pre post, joinSeq ops = pre ++ .join k :: post ∧ itemOps pre = List.range' 0 k ++ [k] := by
  obtain ⟨a, rfl⟩ : ∃ a, k = a + 1 := ⟨k - 1, by omega⟩
  obtain ⟨b, hb⟩ : ∃ b, ops.length - 1 = a + b + 1 := ⟨ops.length - 1 - a - 1, by omega⟩
  refine ⟨.operand 0 :: (joinSeqFrom a 1 ++ [.operand (a + 1)]), joinSeqFrom b (1 + a + 1), ?_, ?_⟩
  · rw [joinSeq_standard ops h, hb, joinSeqFrom_split a b 1]
    have e : 1 + a = a + 1 := by omega
    simp [e, List.append_assoc]
  · simp only [itemOps, itemOps_append, itemOps_joinSeqFrom]
    rw [show List.range' 0 (a + 1) = 0 :: List.range' 1 a from by simp [List.range'_succ]]
    simp

/-- **right operand of a LEFT / FULL kind is nullable**, in every standard operand list -/
theorem isNullable_right (ops : List Operand) (h : standard ops) (k : Nat) (h1 : 1 ≤ k) (h2 : k < ops.length)
    (hk : PadsRKind (kindAt ops k)) : isNullable ops k = true := by
  obtain ⟨pre, post, hs, hp⟩ := joinSeq_split ops h k h1 h2
  unfold isNullable
  rw [hs]
  apply List.contains_iff_mem.mpr
  apply markNullable_right ops k post pre [] [] k hk
  simp [hp]

/-- **everything joined before a RIGHT / FULL kind is nullable**, in every standard operand list -/
theorem isNullable_left (ops : List Operand) (h : standard ops) (k : Nat) (h1 : 1 ≤ k) (h2 : k < ops.length)
    (hk : PadsLKind (kindAt ops k)) (j : Nat) (hj : j < k) : isNullable ops j = true := by
  obtain ⟨pre, post, hs, hp⟩ := joinSeq_split ops h k h1 h2
  unfold isNullable
  rw [hs]
  apply List.contains_iff_mem.mpr
  apply markNullable_left ops k post pre [] [] j hk
  simp [hp, List.mem_range'_1, hj]

/-! ### closed forms of the code side -/

theorem codeFlags_keepsRight (jt : String) :
    (codeFlags jt).keepsRight = keepsKinds.contains (joinKind jt) := by
  simp only [codeFlags, rightOrFull, joinKind]

theorem probePair_length (jt : String) : (probePair jt).length = 2 := rfl
theorem probePair_kind0 (jt : String) : ((probePair jt).getD 0 default).kind = .tab := rfl
theorem probePair_jtype (jt : String) : ((probePair jt).getD 1 default).jtype = jt := rfl
theorem probePair_kindAt (jt : String) : kindAt (probePair jt) 1 = joinKind jt := by
  unfold kindAt; rw [probePair_jtype]

theorem probePair_standard (jt : String) : standard (probePair jt) := by
  right
  refine ⟨probePair_length jt, ?_⟩
  rw [probePair_kind0]; exact fun h => nomatch h

theorem codeFlags_padsRight_of (jt : String) (h : PadsRKind (joinKind jt)) :
    (codeFlags jt).padsRight = true := by
  have h' := isNullable_right (probePair jt) (probePair_standard jt) 1 (Nat.le_refl 1)
    (by rw [probePair_length]; omega) (by rw [probePair_kindAt]; exact h)
  simpa only [codeFlags] using h'

theorem codeFlags_padsLeft_of (jt : String) (h : PadsLKind (joinKind jt)) :
    (codeFlags jt).padsLeft = true := by
  have h' := isNullable_left (probePair jt) (probePair_standard jt) 1 (Nat.le_refl 1)
    (by rw [probePair_length]; omega) (by rw [probePair_kindAt]; exact h) 0 (by omega)
  simpa only [codeFlags] using h'

theorem probePair_joinSeq (jt : String) : joinSeq (probePair jt) = [.operand 0, .operand 1, .join 1] := rfl

/-- the two-table probe reads the kind back: the nullable decisions are exactly the membership tests of the code -/
theorem codeFlags_pads (jt : String) :
    (codeFlags jt).padsRight = decide (PadsRKind (joinKind jt)) ∧
    (codeFlags jt).padsLeft = decide (PadsLKind (joinKind jt)) := by
  have e : markNullable (probePair jt) (joinSeq (probePair jt)) [] [] =
      (if PadsLKind (joinKind jt) then
          (if PadsRKind (joinKind jt) then [1] else []) ++ [0]
        else (if PadsRKind (joinKind jt) then [1] else [])) := by
    rw [probePair_joinSeq]
    simp only [markNullable, probePair_jtype, joinKind]
    rfl
  simp only [codeFlags, isNullable, e]
  by_cases h1 : PadsRKind (joinKind jt) <;>
    by_cases h2 : PadsLKind (joinKind jt) <;> simp [h1, h2]

/-- the first two classification sites look at the first word only -/
theorem codeFlags_first_word (a b : String) (h : joinKind a = joinKind b) :
    (codeFlags a).keepsRight = (codeFlags b).keepsRight ∧ (codeFlags a).padsRight = (codeFlags b).padsRight ∧
    (codeFlags a).padsLeft = (codeFlags b).padsLeft := by
  refine ⟨?_, ?_, ?_⟩
  · rw [codeFlags_keepsRight, codeFlags_keepsRight, h]
  · rw [(codeFlags_pads a).1, (codeFlags_pads b).1, h]
  · rw [(codeFlags_pads a).2, (codeFlags_pads b).2, h]

end MindsVerif.ModelJoin
