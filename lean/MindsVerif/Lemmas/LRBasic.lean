import MindsVerif.Model.LR
/-! Helper lemmas about the LR model: trie lookup, list helpers, extraction of per-row facts
from `Tables.valid`. -/
namespace MindsVerif.LR

/-! ### Trie -/

theorem Trie.allIdx_get {α} (f : Nat → α → Bool) :
    ∀ (t : Trie α) (a b j : Nat) (x : α),
      Trie.allIdx f a b t = true → t.get? j = some x → f (a * j + b) x = true := by
  intro t
  induction t with
  | nil => intro a b j x _ h; simp [Trie.get?] at h
  | node v l r ihl ihr =>
    intro a b j x hall hget
    simp only [Trie.allIdx, Bool.and_eq_true] at hall
    obtain ⟨⟨hv, hl⟩, hr⟩ := hall
    unfold Trie.get? at hget
    by_cases hj : j = 0
    · subst hj
      simp at hget
      subst hget
      simpa using hv
    · have hj' : (j == 0) = false := by simpa using hj
      simp only [hj', cond_false] at hget
      by_cases hp : (j - 1) % 2 = 0
      · have : ((j - 1) % 2 == 0) = true := by simpa using hp
        simp only [this, cond_true] at hget
        have := ihl (2 * a) (a + b) ((j - 1) / 2) x hl hget
        have e : 2 * a * ((j - 1) / 2) + (a + b) = a * j + b := by
          have h2 : 2 * ((j - 1) / 2) = j - 1 := by omega
          have : 2 * a * ((j - 1) / 2) = a * (2 * ((j - 1) / 2)) := by
            rw [Nat.mul_comm 2 a, Nat.mul_assoc]
          rw [this, h2]
          have : j = (j - 1) + 1 := by omega
          conv => rhs; rw [this, Nat.mul_add, Nat.mul_one]
          omega
        rwa [e] at this
      · have : ((j - 1) % 2 == 0) = false := by simpa using hp
        simp only [this, cond_false] at hget
        have := ihr (2 * a) (2 * a + b) ((j - 1) / 2) x hr hget
        have e : 2 * a * ((j - 1) / 2) + (2 * a + b) = a * j + b := by
          have h2 : 2 * ((j - 1) / 2) + 2 = j := by omega
          have h3 : 2 * a * ((j - 1) / 2) + 2 * a = a * (2 * ((j - 1) / 2) + 2) := by
            rw [Nat.mul_add, Nat.mul_comm 2 a, Nat.mul_assoc]
          rw [← Nat.add_assoc, h3, h2]
        rwa [e] at this

theorem Trie.allIdx_get' {α} (f : Nat → α → Bool) (t : Trie α) (j : Nat) (x : α)
    (h : Trie.allIdx f 1 0 t = true) (hg : t.get? j = some x) : f j x = true := by
  simpa using Trie.allIdx_get f t 1 0 j x h hg

theorem Trie.allIdx_node {α} {f : Nat → α → Bool} {a b : Nat} {v : Option α} {l r : Trie α}
    (hv : (match v with | none => true | some x => f b x) = true)
    (hl : Trie.allIdx f (2 * a) (a + b) l = true)
    (hr : Trie.allIdx f (2 * a) (2 * a + b) r = true) :
    Trie.allIdx f a b (Trie.node v l r) = true := by
  simp only [Trie.allIdx, Bool.and_eq_true]
  exact ⟨⟨hv, hl⟩, hr⟩

/-! ### list helpers -/

theorem isPrefix_iff : ∀ (as bs : List Nat), isPrefix as bs = true ↔ ∃ cs, bs = as ++ cs := by
  intro as
  induction as with
  | nil => intro bs; simp [isPrefix]
  | cons a as ih =>
    intro bs
    cases bs with
    | nil => simp [isPrefix]
    | cons b bs =>
      simp only [isPrefix, Bool.and_eq_true, beq_iff_eq, ih, List.cons_append, List.cons.injEq]
      constructor
      · rintro ⟨rfl, cs, rfl⟩; exact ⟨cs, rfl, rfl⟩
      · rintro ⟨cs, rfl, rfl⟩; exact ⟨rfl, cs, rfl⟩

theorem findKey_mem {k v : Nat} : ∀ {l : List Nat}, findKey k l = some v →
    ∃ e ∈ l, e / 4096 = k ∧ e % 4096 = v := by
  intro l
  induction l with
  | nil => intro h; simp [findKey] at h
  | cons e es ih =>
    intro h
    unfold findKey at h
    by_cases he : e / 4096 = k
    · have : (e / 4096 == k) = true := by simpa using he
      simp only [this, cond_true, Option.some.injEq] at h
      exact ⟨e, by simp, he, h⟩
    · have : (e / 4096 == k) = false := by simpa using he
      simp only [this, cond_false] at h
      obtain ⟨e', hm, h1, h2⟩ := ih h
      exact ⟨e', by simp [hm], h1, h2⟩

theorem findRed_mem {t p : Nat} : ∀ {l : List (Nat × Nat)}, findRed t l = some p →
    ∃ e ∈ l, e.1 = p := by
  intro l
  induction l with
  | nil => intro h; simp [findRed] at h
  | cons e es ih =>
    intro h
    obtain ⟨q, m⟩ := e
    unfold findRed at h
    by_cases hb : m.testBit t = true
    · simp only [hb, cond_true, Option.some.injEq] at h
      exact ⟨(q, m), by simp, h⟩
    · have : m.testBit t = false := by simpa using hb
      simp only [this, cond_false] at h
      obtain ⟨e', hm, h1⟩ := ih h
      exact ⟨e', by simp [hm], h1⟩

theorem nthD_eq_getElem : ∀ (l : List Nat) (n : Nat) (h : n < l.length), nthD l n = l[n] := by
  intro l
  induction l with
  | nil => intro n h; simp at h
  | cons a as ih =>
    intro n h
    cases n with
    | zero => simp [nthD]
    | succ n => simp [nthD]; exact ih n (by simpa using h)

/-- bitwise subset -/
def SubMask (a b : Nat) : Prop := ∀ i, a.testBit i = true → b.testBit i = true

theorem subMask_of_and_eq {a b : Nat} (h : a &&& b = a) : SubMask a b := by
  intro i hi
  have : (a &&& b).testBit i = true := by rw [h]; exact hi
  simp [Nat.testBit_and] at this
  exact this.2

theorem subsetAll_spec : ∀ (as bs : List Nat), subsetAll as bs = true →
    bs.length ≤ as.length ∧ ∀ i, i < bs.length → SubMask (nthD as i) (nthD bs i) := by
  intro as
  induction as with
  | nil =>
    intro bs h
    cases bs with
    | nil => simp
    | cons b bs => simp [subsetAll] at h
  | cons a as ih =>
    intro bs h
    cases bs with
    | nil => simp
    | cons b bs =>
      simp only [subsetAll, Bool.and_eq_true, beq_iff_eq] at h
      obtain ⟨hab, hrest⟩ := h
      obtain ⟨hl, hi⟩ := ih bs hrest
      refine ⟨by simpa using hl, ?_⟩
      intro i h1
      cases i with
      | zero => simpa [nthD] using subMask_of_and_eq hab
      | succ i => simpa [nthD] using hi i (by simpa using h1)

end MindsVerif.LR
