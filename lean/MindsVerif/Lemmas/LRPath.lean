import MindsVerif.Lemmas.LRBasic
/-! The stack-is-a-path invariant of the LR driver and what `Tables.valid` gives for it. -/
namespace MindsVerif.LR

mutual
def PT.yield : PT → List Nat
  | .leaf t => [t]
  | .node _ _ ks => yieldL ks
def yieldL : List PT → List Nat
  | [] => []
  | k :: ks => k.yield ++ yieldL ks
end

mutual
/-- productions in the order a bottom-up parser reduces them -/
def PT.postorder : PT → List Nat
  | .leaf _ => []
  | .node p _ ks => postorderL ks ++ [p]
def postorderL : List PT → List Nat
  | [] => []
  | k :: ks => k.postorder ++ postorderL ks
end

theorem yieldL_append : ∀ (a b : List PT), yieldL (a ++ b) = yieldL a ++ yieldL b := by
  intro a; induction a with
  | nil => intro b; simp [yieldL]
  | cons k ks ih => intro b; simp [yieldL, ih]

theorem postorderL_append : ∀ (a b : List PT), postorderL (a ++ b) = postorderL a ++ postorderL b := by
  intro a; induction a with
  | nil => intro b; simp [postorderL]
  | cons k ks ih => intro b; simp [postorderL, ih]

/-- a tree all of whose nodes are instances of productions of `T` -/
inductive PT.WF (T : Tables) : PT → Prop
  | leaf (t : Nat) : PT.WF T (.leaf t)
  | node {p lhs : Nat} {kids : List PT} {pr : Prod} :
      T.prods.get? p = some pr → pr.lhs = lhs → kids.map PT.root = pr.rhs →
      (∀ k ∈ kids, PT.WF T k) → PT.WF T (.node p lhs kids)

def Row.target (r : Row) (X : Nat) : Option Nat :=
  bif X % 2 == 0 then findKey (X / 2) r.shifts else findKey (X / 2) r.gotos

/-- the state stack spells a path of the automaton from state 0 -/
inductive Path (T : Tables) : Stack → Prop
  | nil : Path T []
  | cons {st : Stack} {s' : Nat} {t : PT} {r : Row} :
      Path T st → T.rows.get? (topState st) = some r → r.target t.root = some s' →
      Path T ((s', t) :: st)

def roots (st : Stack) : List Nat := st.map (fun e => e.2.root)
def trees (st : Stack) : List PT := st.map (fun e => e.2)
def yieldStack (st : Stack) : List Nat := yieldL (trees st).reverse
def stateAt (st : Stack) (k : Nat) : Nat := topState (st.drop k)

/-- facts unpacked from `T.valid = true` -/
structure Valid (T : Tables) : Prop where
  row : ∀ s r, T.rows.get? s = some r → rowOK T s r = true
  row0 : ∃ r0, T.rows.get? 0 = some r0 ∧ r0.past = [] ∧ r0.dflt = none ∧ r0.action 0 = .none

theorem valid_of_eq {T : Tables} (h : T.valid = true) : Valid T := by
  unfold Tables.valid at h
  simp only [Bool.and_eq_true] at h
  obtain ⟨h1, h2⟩ := h
  constructor
  · intro s r hg; exact Trie.allIdx_get' _ _ _ _ h1 hg
  · cases h0 : T.rows.get? 0 with
    | none => simp [h0] at h2
    | some r0 =>
      simp only [h0, Bool.and_eq_true, List.isEmpty_iff, Option.isNone_iff_eq_none, beq_iff_eq] at h2
      exact ⟨r0, rfl, h2.1.1, h2.1.2, h2.2⟩

section
variable {T : Tables}

structure RowFacts (T : Tables) (s : Nat) (r : Row) : Prop where
  shifts : ∀ e ∈ r.shifts, edgeOK T s r (2 * (e / 4096)) (e % 4096) = true
  gotos : ∀ e ∈ r.gotos, edgeOK T s r (2 * (e / 4096) + 1) (e % 4096) = true
  reds : ∀ e ∈ r.reds, redOK T r e.1 = true
  dflt : ∀ p, r.dflt = some p → ∃ e ∈ r.reds, e.1 = p
  acc : r.acc = true → r.past = [2 * T.start + 1] ∧ r.pst.head? = some 1
  noErr : r.action 1 = .none
  noEofShift : findKey 0 r.shifts = none
  gdom : rowOK.goDom s r T.gdom 0 = true

theorem rowFacts (hv : Valid T) {s : Nat} {r : Row} (hg : T.rows.get? s = some r) : RowFacts T s r := by
  have h := hv.row s r hg
  unfold rowOK at h
  simp only [Bool.and_eq_true, List.all_eq_true] at h
  obtain ⟨⟨⟨⟨⟨⟨⟨h1, h2⟩, h3⟩, h4⟩, h5⟩, h6⟩, h7⟩, h8⟩ := h
  refine ⟨h1, h2, h3, ?_, ?_, by simpa using h6, by simpa using h7, h8⟩
  · intro p hp
    rw [hp] at h4
    simp only [List.any_eq_true, beq_iff_eq] at h4
    exact h4
  · intro ha
    simp only [ha, Bool.not_true, Bool.false_or, Bool.and_eq_true, beq_iff_eq] at h5
    exact h5

theorem target_edge (hv : Valid T) {s : Nat} {r : Row} (hg : T.rows.get? s = some r)
    {X s' : Nat} (ht : r.target X = some s') : edgeOK T s r X s' = true := by
  have rf := rowFacts hv hg
  unfold Row.target at ht
  by_cases hp : X % 2 = 0
  · have : (X % 2 == 0) = true := by simpa using hp
    simp only [this, cond_true] at ht
    obtain ⟨e, hm, h1, h2⟩ := findKey_mem ht
    have := rf.shifts e hm
    rw [h1, h2] at this
    have hx : 2 * (X / 2) = X := by omega
    rwa [hx] at this
  · have : (X % 2 == 0) = false := by simpa using hp
    simp only [this, cond_false] at ht
    obtain ⟨e, hm, h1, h2⟩ := findKey_mem ht
    have := rf.gotos e hm
    rw [h1, h2] at this
    have hx : 2 * (X / 2) + 1 = X := by omega
    rwa [hx] at this

structure EdgeFacts (T : Tables) (s : Nat) (r : Row) (X s' : Nat) : Prop where
  ne0 : s' ≠ 0
  row : ∃ r', T.rows.get? s' = some r' ∧ (∃ cs, X :: r.past = r'.past ++ cs) ∧
    (∀ m0 rest, r'.pst = m0 :: rest → m0.testBit s = true ∧ subsetAll r.pst rest = true)

theorem edgeFacts {s : Nat} {r : Row} {X s' : Nat} (h : edgeOK T s r X s' = true) :
    EdgeFacts T s r X s' := by
  unfold edgeOK at h
  simp only [Bool.and_eq_true, bne_iff_ne, ne_eq] at h
  obtain ⟨h0, h1⟩ := h
  refine ⟨h0, ?_⟩
  cases hr : T.rows.get? s' with
  | none => simp [hr] at h1
  | some r' =>
    simp only [hr, Bool.and_eq_true] at h1
    obtain ⟨hp, hq⟩ := h1
    refine ⟨r', rfl, (isPrefix_iff _ _).1 hp, ?_⟩
    intro m0 rest hpst
    rw [hpst] at hq
    simpa using hq

theorem path_top_row (hv : Valid T) {st : Stack} (hp : Path T st) :
    ∃ r, T.rows.get? (topState st) = some r := by
  cases hp with
  | nil => obtain ⟨r0, h, _⟩ := hv.row0; exact ⟨r0, h⟩
  | cons hp hr ht =>
    obtain ⟨_, r', h, _⟩ := edgeFacts (target_edge hv hr ht)
    exact ⟨r', h⟩

theorem path_top_ne0 (hv : Valid T) {st : Stack} (hp : Path T st) (hne : st ≠ []) :
    topState st ≠ 0 := by
  cases hp with
  | nil => exact absurd rfl hne
  | cons hp hr ht => exact (edgeFacts (target_edge hv hr ht)).ne0

theorem path_drop {st : Stack} (hp : Path T st) : ∀ k, Path T (st.drop k) := by
  induction hp with
  | nil => intro k; simp; exact Path.nil
  | cons hp hr ht ih =>
    intro k
    cases k with
    | zero => exact Path.cons hp hr ht
    | succ k => simpa using ih k

theorem path_past (hv : Valid T) {st : Stack} (hp : Path T st) :
    ∀ r, T.rows.get? (topState st) = some r → ∃ cs, roots st = r.past ++ cs := by
  induction hp with
  | nil =>
    intro r hr
    obtain ⟨r0, h0, hpast, _⟩ := hv.row0
    simp only [topState] at hr
    rw [h0] at hr
    cases hr
    exact ⟨[], by simp [roots, hpast]⟩
  | @cons st s' t r0 hp hr ht ih =>
    intro r' hr'
    obtain ⟨_, r'', h'', ⟨cs, hcs⟩, _⟩ := edgeFacts (target_edge hv hr ht)
    simp only [topState] at hr'
    rw [h''] at hr'
    cases hr'
    obtain ⟨ds, hds⟩ := ih r0 hr
    refine ⟨cs ++ ds, ?_⟩
    have : roots ((s', t) :: st) = t.root :: roots st := by simp [roots]
    rw [this, hds, ← List.cons_append, hcs, List.append_assoc]

theorem stateAt_cons_succ (e : Nat × PT) (st : Stack) (k : Nat) :
    stateAt (e :: st) (k + 1) = stateAt st k := by
  simp [stateAt]

theorem path_depth (hv : Valid T) {st : Stack} (hp : Path T st) :
    ∀ r, T.rows.get? (topState st) = some r →
      ∀ k, k < r.pst.length → k + 1 ≤ st.length →
        (nthD r.pst k).testBit (stateAt st (k + 1)) = true := by
  induction hp with
  | nil => intro r _ k _ hl; simp at hl
  | @cons st s' t r0 hp hr ht ih =>
    intro r' hr' k hk hl
    obtain ⟨_, r'', h'', _, hpst⟩ := edgeFacts (target_edge hv hr ht)
    simp only [topState] at hr'
    rw [h''] at hr'
    cases hr'
    rw [stateAt_cons_succ]
    cases hq : r'.pst with
    | nil => rw [hq] at hk; simp at hk
    | cons m0 rest =>
      obtain ⟨hb, hsub⟩ := hpst m0 rest hq
      obtain ⟨hlen, hmask⟩ := subsetAll_spec _ _ hsub
      cases k with
      | zero =>
        simp only [nthD]
        simpa [stateAt] using hb
      | succ j =>
        have hj : j < rest.length := by
          have := hk; rw [hq] at this; simpa using this
        have hj0 : j < r0.pst.length := by omega
        have hl0 : j + 1 ≤ st.length := by simpa using hl
        have := ih r0 hr j hj0 hl0
        have hm := hmask j hj _ this
        simpa [nthD] using hm

theorem goDom_spec {s : Nat} {r : Row} : ∀ (ms : List Nat) (a : Nat),
    rowOK.goDom s r ms a = true →
    ∀ i (h : i < ms.length), (ms[i]).testBit s = true → (r.goto (a + i)).isSome = true := by
  intro ms
  induction ms with
  | nil => intro a _ i h; simp at h
  | cons m ms ih =>
    intro a h i hi hb
    simp only [rowOK.goDom, Bool.and_eq_true, Bool.or_eq_true, Bool.not_eq_true'] at h
    cases i with
    | zero =>
      simp only [List.getElem_cons_zero] at hb
      rcases h.1 with h1 | h1
      · rw [hb] at h1; cases h1
      · simpa using h1
    | succ i =>
      have := ih (a + 1) h.2 i (by simpa using hi) (by simpa using hb)
      have e : a + 1 + i = a + (i + 1) := by omega
      rwa [e] at this

theorem nthD_testBit {l : List Nat} {n i : Nat} (h : (nthD l n).testBit i = true) :
    ∃ hn : n < l.length, (l[n]).testBit i = true := by
  by_cases hn : n < l.length
  · exact ⟨hn, by rw [← nthD_eq_getElem l n hn]; exact h⟩
  · exfalso
    have : nthD l n = 0 := by
      clear h
      induction l generalizing n with
      | nil => simp [nthD]
      | cons a as ih =>
        cases n with
        | zero => simp at hn
        | succ n => simp only [nthD]; exact ih (by simpa using hn)
    rw [this] at h
    simp at h

/-- What `valid` guarantees when the driver reduces by a production listed in the current row. -/
theorem reduce_ok (hv : Valid T) {st : Stack} (hp : Path T st) {r : Row}
    (hr : T.rows.get? (topState st) = some r) {p : Nat} (hmem : ∃ e ∈ r.reds, e.1 = p) :
    ∃ pr ru g, T.prods.get? p = some pr ∧ pr.rhs.length ≤ st.length ∧
      roots (st.take pr.rhs.length) = pr.rhs.reverse ∧
      T.rows.get? (topState (st.drop pr.rhs.length)) = some ru ∧ ru.goto pr.lhs = some g := by
  obtain ⟨e, he, rfl⟩ := hmem
  have rf := rowFacts hv hr
  have hred := rf.reds e he
  unfold redOK at hred
  cases hpr : T.prods.get? e.1 with
  | none => simp [hpr] at hred
  | some pr =>
    simp only [hpr, Bool.and_eq_true] at hred
    obtain ⟨hpre, hgo⟩ := hred
    obtain ⟨cs, hcs⟩ := (isPrefix_iff _ _).1 hpre
    obtain ⟨ds, hds⟩ := path_past hv hp r hr
    have hroots : roots st = pr.rhs.reverse ++ (cs ++ ds) := by
      rw [hds, hcs, List.append_assoc]
    have hlen : pr.rhs.length ≤ st.length := by
      have := congrArg List.length hroots
      simp [roots] at this
      omega
    have htake : roots (st.take pr.rhs.length) = pr.rhs.reverse := by
      have : roots (st.take pr.rhs.length) = (roots st).take pr.rhs.length := by
        simp [roots, List.map_take]
      rw [this, hroots]
      have : pr.rhs.length = pr.rhs.reverse.length := by simp
      rw [this, List.take_left']
      rfl
    obtain ⟨ru, hru⟩ := path_top_row hv (path_drop hp pr.rhs.length)
    refine ⟨pr, ru, ?_⟩
    cases hn : pr.rhs.length with
    | zero =>
      rw [hn] at hgo hru
      simp only [List.drop_zero] at hru
      rw [hr] at hru
      cases hru
      simp only at hgo
      obtain ⟨g, hg⟩ := Option.isSome_iff_exists.1 hgo
      exact ⟨g, rfl, by omega, by rw [← hn]; exact htake, by simpa using hr, hg⟩
    | succ n =>
      rw [hn] at hgo
      simp only [Bool.and_eq_true, decide_eq_true_eq, beq_iff_eq] at hgo
      obtain ⟨hnl, hsub⟩ := hgo
      have hsm := subMask_of_and_eq hsub
      have hbit := path_depth hv hp r hr n hnl (by omega)
      have hb2 := hsm _ hbit
      obtain ⟨hA, hb3⟩ := nthD_testBit hb2
      have hu : T.rows.get? (stateAt st (n + 1)) = some ru := by
        simpa [stateAt, hn] using hru
      have rfu := rowFacts hv hu
      have := goDom_spec T.gdom 0 rfu.gdom pr.lhs hA hb3
      simp only [Nat.zero_add] at this
      obtain ⟨g, hg⟩ := Option.isSome_iff_exists.1 this
      exact ⟨g, rfl, by omega, by rw [← hn]; exact htake, by simpa [stateAt, hn] using hu, hg⟩

end
end MindsVerif.LR
