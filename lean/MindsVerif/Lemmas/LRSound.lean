import MindsVerif.Lemmas.LRPath
/-! Soundness of the SLY driver over valid tables:
* an accepted run yields a derivation tree whose frontier is the whole token list;
* once the error branch has been entered (mindsdb `error()` callback) the run never accepts;
* the driver never performs an out-of-range stack or table access (`stuck`). -/
namespace MindsVerif.LR

/-- close a structure-field goal from a hypothesis, up to `simp` normalisation -/
macro "fld " t:term : tactic =>
  `(tactic| first | exact $t | simpa using $t | (simp only []; exact $t) | (simp at *; exact $t))

def laToks : Option LA → List Nat
  | some (.tok t) => [t]
  | _ => []

/-- invariant of a run in which no syntax error has occurred so far -/
structure Clean (T : Tables) (toks : List Nat) (bad : Bool) (c : Cfg) : Prop where
  path : Path T c.st
  wf : ∀ e ∈ c.st, e.2.WF T
  noErrLeaf : ∀ e ∈ c.st, e.2 ≠ .leaf 1
  yld : yieldStack c.st ++ laToks c.la ++ c.input = toks
  log : postorderL (trees c.st).reverse = c.log.reverse
  cnt : c.errcount = 0
  las : c.las = []
  la : c.la ≠ some .err
  eof : c.la = some .eof → c.input = [] ∧ bad = false
  tok0 : ∀ t, c.la = some (.tok t) → t ≠ 0
  inp0 : ∀ t ∈ c.input, t ≠ 0
  cons : c.consumed + c.input.length = toks.length
  noerr : c.err = none

/-- invariant after the (draining) error callback has run -/
structure PostErr (T : Tables) (c : Cfg) : Prop where
  path : Path T c.st
  noErrLeaf : ∀ e ∈ c.st, e.2 ≠ .leaf 1
  input : c.input = []
  cnt : c.errcount ≠ 0
  ok : c.errok = false
  la : c.la = some .err ∨ (c.la = none ∧ c.st = [] ∧ c.las = [])
  err : c.err ≠ none

/-- what we prove about the outcome of a run that started clean -/
def Good (T : Tables) (toks : List Nat) (bad : Bool) : Outcome → Prop
  | .accept t log =>
      t.WF T ∧ t.root = 2 * T.start + 1 ∧ t.yield = toks ∧ bad = false ∧ t.postorder = log.reverse
  | .stuck _ => False
  | .synErr e _ => (∀ i, e.bad = some i → i < toks.length) ∧ (e.bad = none → bad = false)
  | .none_ e _ => e ≠ none
  | _ => True

def GoodPost : Outcome → Prop
  | .accept _ _ => False
  | .stuck _ => False
  | .none_ e _ => e ≠ none
  | .synErr _ _ => False
  | _ => True

theorem action_shift {r : Row} {t s' : Nat} (h : r.action t = .shift s') :
    findKey t r.shifts = some s' := by
  unfold Row.action at h
  cases hk : findKey t r.shifts with
  | some s => simp [hk] at h; rw [h]
  | none =>
    simp only [hk] at h
    cases hr : findRed t r.reds with
    | some p => simp [hr] at h
    | none =>
      simp only [hr] at h
      by_cases hc : (r.acc && t == 0) = true <;> simp [hc] at h

theorem action_reduce {r : Row} {t p : Nat} (h : r.action t = .reduce p) :
    ∃ e ∈ r.reds, e.1 = p := by
  unfold Row.action at h
  cases hk : findKey t r.shifts with
  | some s => simp [hk] at h
  | none =>
    simp only [hk] at h
    cases hr : findRed t r.reds with
    | some q =>
      simp [hr] at h
      subst h
      exact findRed_mem hr
    | none =>
      simp only [hr] at h
      by_cases hc : (r.acc && t == 0) = true <;> simp [hc] at h

theorem action_accept {r : Row} {t : Nat} (h : r.action t = .accept) : r.acc = true ∧ t = 0 := by
  unfold Row.action at h
  cases hk : findKey t r.shifts with
  | some s => simp [hk] at h
  | none =>
    simp only [hk] at h
    cases hr : findRed t r.reds with
    | some q => simp [hr] at h
    | none =>
      simp only [hr] at h
      by_cases hc : (r.acc && t == 0) = true
      · simpa using hc
      · simp [hc] at h

theorem yieldStack_cons (s : Nat) (t : PT) (st : Stack) :
    yieldStack ((s, t) :: st) = yieldStack st ++ t.yield := by
  simp [yieldStack, trees, yieldL_append, yieldL]

theorem trees_take_drop (st : Stack) (n : Nat) :
    (trees st).reverse = (trees (st.drop n)).reverse ++ (trees (st.take n)).reverse := by
  have : st = st.take n ++ st.drop n := (List.take_append_drop n st).symm
  conv => lhs; rw [this]
  simp [trees]

variable {T : Tables}

/-- effect of a reduction on a configuration whose stack is a path -/
theorem doReduce_ok (hv : Valid T) {c : Cfg} (hp : Path T c.st) {r : Row}
    (hr : T.rows.get? (topState c.st) = some r) {p : Nat} (hmem : ∃ e ∈ r.reds, e.1 = p) :
    ∃ pr ru g, T.prods.get? p = some pr ∧ pr.rhs.length ≤ c.st.length ∧
      roots (c.st.take pr.rhs.length) = pr.rhs.reverse ∧
      T.rows.get? (topState (c.st.drop pr.rhs.length)) = some ru ∧ ru.goto pr.lhs = some g ∧
      doReduce T c p = .inl { c with
        st := (g, .node p pr.lhs ((c.st.take pr.rhs.length).map (·.2)).reverse) :: c.st.drop pr.rhs.length,
        log := p :: c.log } := by
  obtain ⟨pr, ru, g, h1, h2, h3, h4, h5⟩ := reduce_ok hv hp hr hmem
  refine ⟨pr, ru, g, h1, h2, h3, h4, h5, ?_⟩
  unfold doReduce
  simp only [h1]
  have : ¬ c.st.length < pr.rhs.length := by omega
  simp only [this, if_false, h4, h5]

theorem path_after_reduce {st : Stack} (hp : Path T st) {n : Nat} {ru : Row} {g lhs p : Nat}
    {kids : List PT} (h4 : T.rows.get? (topState (st.drop n)) = some ru)
    (h5 : ru.goto lhs = some g) : Path T ((g, .node p lhs kids) :: st.drop n) := by
  refine Path.cons (path_drop hp n) h4 ?_
  unfold Row.target
  have h1 : ((PT.node p lhs kids).root % 2 == 0) = false := by
    simp only [PT.root]; have : (2 * lhs + 1) % 2 = 1 := by omega
    simp [this]
  have h2 : (PT.node p lhs kids).root / 2 = lhs := by simp only [PT.root]; omega
  simp only [h1, cond_false, h2]
  exact h5

theorem clean_reduce (hv : Valid T) {toks : List Nat} {bad : Bool} {c : Cfg}
    (hc : Clean T toks bad c) {r : Row}
    (hr : T.rows.get? (topState c.st) = some r) {p : Nat} (hmem : ∃ e ∈ r.reds, e.1 = p) :
    ∃ c', doReduce T c p = .inl c' ∧ Clean T toks bad c' := by
  obtain ⟨pr, ru, g, h1, h2, h3, h4, h5, h6⟩ := doReduce_ok hv hc.path hr hmem
  refine ⟨_, h6, ?_⟩
  have hkids : (((c.st.take pr.rhs.length).map (·.2)).reverse).map PT.root = pr.rhs := by
    have : roots (c.st.take pr.rhs.length) = ((c.st.take pr.rhs.length).map (·.2)).map PT.root := by
      simp [roots, List.map_map, Function.comp_def]
    rw [List.map_reverse, ← this, h3, List.reverse_reverse]
  exact {
    path := path_after_reduce hc.path h4 h5
    wf := by
      intro e he
      simp only [List.mem_cons] at he
      rcases he with rfl | he
      · refine PT.WF.node h1 rfl hkids ?_
        intro k hk
        simp only [List.mem_reverse, List.mem_map] at hk
        obtain ⟨e, he, rfl⟩ := hk
        exact hc.wf e (List.mem_of_mem_take he)
      · exact hc.wf e (List.mem_of_mem_drop he)
    noErrLeaf := by
      intro e he
      simp only [List.mem_cons] at he
      rcases he with rfl | he
      · simp
      · exact hc.noErrLeaf e (List.mem_of_mem_drop he)
    yld := by
      have := hc.yld
      simp only [yieldStack_cons, PT.yield]
      have e1 : yieldStack c.st = yieldStack (c.st.drop pr.rhs.length) ++
          yieldL ((c.st.take pr.rhs.length).map (·.2)).reverse := by
        unfold yieldStack
        rw [trees_take_drop c.st pr.rhs.length, yieldL_append]
        rfl
      rw [e1] at this
      exact this
    log := by
      have := hc.log
      rw [trees_take_drop c.st pr.rhs.length, postorderL_append] at this
      simp only [trees, List.map_cons, List.reverse_cons, postorderL_append, postorderL,
        PT.postorder, List.append_nil]
      simp only [trees] at this
      rw [← List.append_assoc, this]
    cnt := hc.cnt
    las := hc.las
    la := hc.la
    eof := hc.eof
    tok0 := hc.tok0
    inp0 := hc.inp0
    cons := hc.cons
    noerr := hc.noerr }

theorem post_reduce (hv : Valid T) {c : Cfg} (hc : PostErr T c) (hla : c.la = some .err) {r : Row}
    (hr : T.rows.get? (topState c.st) = some r) {p : Nat} (hmem : ∃ e ∈ r.reds, e.1 = p) :
    ∃ c', doReduce T c p = .inl c' ∧ PostErr T c' := by
  obtain ⟨pr, ru, g, h1, h2, h3, h4, h5, h6⟩ := doReduce_ok hv hc.path hr hmem
  refine ⟨_, h6, ?_⟩
  exact {
    path := path_after_reduce hc.path h4 h5
    noErrLeaf := by
      intro e he
      simp only [List.mem_cons] at he
      rcases he with rfl | he
      · simp
      · exact hc.noErrLeaf e (List.mem_of_mem_drop he)
    input := hc.input
    cnt := hc.cnt
    ok := hc.ok
    la := Or.inl hla
    err := hc.err }

/-- the lookahead fetch from a clean configuration -/
theorem clean_fetch {toks : List Nat} {bad : Bool} {c : Cfg} (hc : Clean T toks bad c) :
    (∃ lg, fetch bad c = .inr (.lexErr lg)) ∨
    ∃ c' l, fetch bad c = .inl (c', l) ∧ Clean T toks bad c' ∧ c'.la = some l ∧ c'.st = c.st := by
  unfold fetch
  cases hla : c.la with
  | some l => exact Or.inr ⟨c, l, rfl, hc, hla, rfl⟩
  | none =>
    cases hlas : c.las with
    | cons l ls => exact absurd hc.las (by rw [hlas]; simp)
    | nil =>
    simp only
    cases hin : c.input with
    | nil =>
      cases bad with
      | true => exact Or.inl ⟨_, rfl⟩
      | false =>
        refine Or.inr ⟨_, _, rfl, ?_, rfl, rfl⟩
        exact {
          path := hc.path
          wf := hc.wf
          noErrLeaf := hc.noErrLeaf
          yld := by have := hc.yld; rw [hla, hin] at this; simpa [laToks] using this
          log := hc.log
          cnt := hc.cnt
          las := by simp
          la := by simp
          eof := by intro _; simp
          tok0 := by intro t h; cases h
          inp0 := by simp
          cons := by have := hc.cons; rw [hin] at this; simpa using this
          noerr := hc.noerr }
    | cons t ts =>
      refine Or.inr ⟨_, _, rfl, ?_, rfl, rfl⟩
      exact {
        path := hc.path
        wf := hc.wf
        noErrLeaf := hc.noErrLeaf
        yld := by have := hc.yld; rw [hla, hin] at this; simpa [laToks] using this
        log := hc.log
        cnt := hc.cnt
        las := by simp
        la := by simp
        eof := by intro h; cases h
        tok0 := by
          intro t' h
          simp only [Option.some.injEq, LA.tok.injEq] at h
          subst h
          exact hc.inp0 t (by rw [hin]; simp)
        inp0 := by intro t' h; exact hc.inp0 t' (by rw [hin]; simp [h])
        cons := by have := hc.cons; rw [hin] at this; simp at this; simp; omega
        noerr := hc.noerr }

theorem testBit_one {i : Nat} (h : (1 : Nat).testBit i = true) : i = 0 := by
  cases i with
  | zero => rfl
  | succ i => simp [Nat.testBit_succ] at h

/-- acceptance from a clean configuration -/
theorem clean_accept (hv : Valid T) {toks : List Nat} {bad : Bool} {c : Cfg}
    (hc : Clean T toks bad c) {r : Row} (hr : T.rows.get? (topState c.st) = some r)
    (hacc : r.acc = true) (hla : c.la = some .eof) : Good T toks bad (doAccept c) := by
  obtain ⟨hpast, hpst⟩ := (rowFacts hv hr).acc hacc
  obtain ⟨cs, hcs⟩ := path_past hv hc.path r hr
  rw [hpast] at hcs
  obtain ⟨hin, hbad⟩ := hc.eof hla
  cases hst : c.st with
  | nil => rw [hst] at hcs; simp [roots] at hcs
  | cons e rest =>
    obtain ⟨s, t⟩ := e
    have hroot : t.root = 2 * T.start + 1 := by
      rw [hst] at hcs; simp [roots] at hcs; exact hcs.1
    -- the state below the top is 0, hence the stack has exactly one entry
    have hrest : rest = [] := by
      cases hq : r.pst with
      | nil => rw [hq] at hpst; simp at hpst
      | cons m0 ms =>
        rw [hq] at hpst
        simp at hpst
        subst hpst
        have hd := path_depth hv hc.path r hr 0 (by rw [hq]; simp) (by rw [hst]; simp)
        rw [hq] at hd
        simp only [nthD] at hd
        have h0 := testBit_one hd
        rw [hst] at h0
        simp only [stateAt, List.drop_succ_cons, List.drop_zero] at h0
        have hp' : Path T rest := by
          have := path_drop hc.path 1; rw [hst] at this; simpa using this
        cases hrs : rest with
        | nil => rfl
        | cons e' rest' =>
          exfalso
          rw [hrs] at hp' h0
          exact path_top_ne0 hv hp' (by simp) h0
    subst hrest
    unfold doAccept
    simp only [hst, Good]
    refine ⟨hc.wf (s, t) (by rw [hst]; simp), hroot, ?_, hbad, ?_⟩
    · have := hc.yld
      rw [hst, hla, hin] at this
      simpa [yieldStack, trees, yieldL, laToks] using this
    · have := hc.log
      rw [hst] at this
      simpa [trees, postorderL] using this

theorem topIsErr_false {st : Stack} (h : ∀ e ∈ st, e.2 ≠ PT.leaf 1) : topIsErr st = false := by
  cases st with
  | nil => rfl
  | cons e rest =>
    obtain ⟨s, t⟩ := e
    have := h (s, t) (by simp)
    cases t with
    | node p lhs ks => rfl
    | leaf k =>
      have hk : k ≠ 1 := by intro h; subst h; exact this rfl
      match k, hk with
      | 0, _ => rfl
      | 1, h => exact absurd rfl h
      | k + 2, _ => rfl

/-- the error branch entered from a clean configuration -/
theorem clean_error (hv : Valid T) (mode : Mode) {toks : List Nat} {bad : Bool} {c1 : Cfg}
    (hc1 : Clean T toks bad c1) {l : LA} (hla1 : c1.la = some l) (hlerr : l ≠ .err) {s : Nat} :
    match doError mode bad c1 s l with
    | .inl c' => Clean T toks bad c' ∨ (mode = .drain ∧ bad = false ∧ PostErr T c')
    | .inr o => Good T toks bad o := by
  unfold doError errCallback
  have hcnt : (c1.errcount == 0 || c1.errok) = true := by simp [hc1.cnt]
  simp only [hcnt, if_true]
  cases mode with
  | raise =>
    simp only [Good]
    constructor
    · intro i hi
      by_cases hle : l = .eof
      · simp [hle] at hi
      · cases l with
        | eof => exact absurd rfl hle
        | err => exact absurd rfl hlerr
        | tok t =>
          have hy := congrArg List.length hc1.yld
          rw [hla1] at hy
          simp [laToks] at hy
          have := hc1.cons
          simp at hi
          omega
    · intro hnone
      by_cases hle : l = .eof
      · subst hle; exact (hc1.eof hla1).2
      · simp [hle] at hnone
  | drain =>
    simp only
    cases bad with
    | true => simp [Good]
    | false =>
      simp only [Bool.false_eq_true, if_false]
      by_cases hle : l = .eof
      · simp [hle, Good]
      · simp only [hle, if_false]
        unfold recover
        simp only
        by_cases hemp : c1.st = []
        · have : (c1.st.isEmpty && l != .eof) = true := by simp [hemp, hle]
          simp only [this, if_true]
          right
          refine ⟨by simp, by simp, ?_⟩
          exact {
            path := hc1.path
            noErrLeaf := hc1.noErrLeaf
            input := rfl
            cnt := by simp
            ok := rfl
            la := Or.inr ⟨rfl, hemp, rfl⟩
            err := by simp }
        · have : (c1.st.isEmpty && l != .eof) = false := by simp [hemp]
          simp only [this, Bool.false_eq_true, if_false]
          have hne : (l != .err) = true := by simpa using hlerr
          simp only [hne, if_true, topIsErr_false hc1.noErrLeaf, Bool.false_eq_true, if_false, hle]
          right
          refine ⟨by simp, by simp, ?_⟩
          exact {
            path := hc1.path
            noErrLeaf := hc1.noErrLeaf
            input := rfl
            cnt := by simp
            ok := rfl
            la := Or.inl rfl
            err := by simp }

/-- one step from a clean configuration -/
theorem step_clean (hv : Valid T) (mode : Mode) {toks : List Nat} {bad : Bool} {c : Cfg}
    (hc : Clean T toks bad c) :
    match step T mode bad c with
    | .inl c' => Clean T toks bad c' ∨ (mode = .drain ∧ bad = false ∧ PostErr T c')
    | .inr o => Good T toks bad o := by
  obtain ⟨r, hr⟩ := path_top_row hv hc.path
  unfold step
  simp only [hr]
  cases hd : r.dflt with
  | some p =>
    simp only
    obtain ⟨c', h1, h2⟩ := clean_reduce hv hc hr ((rowFacts hv hr).dflt p hd)
    rw [h1]; exact Or.inl h2
  | none =>
    simp only
    rcases clean_fetch hc with ⟨lg, hf⟩ | ⟨c1, l, hf, hc1, hla1, hst1⟩
    · rw [hf]; simp [Good]
    · rw [hf]
      simp only
      have hr1 : T.rows.get? (topState c1.st) = some r := by rw [hst1]; exact hr
      cases hact : r.action l.term with
      | shift s' =>
        simp only
        left
        have hk := action_shift hact
        have hl : ∃ t, l = .tok t ∧ t ≠ 1 := by
          cases l with
          | tok t =>
            refine ⟨t, rfl, ?_⟩
            intro h1; subst h1
            have := (rowFacts hv hr).noErr
            simp only [LA.term] at hact
            rw [this] at hact; cases hact
          | eof =>
            have := (rowFacts hv hr).noEofShift
            simp only [LA.term] at hk
            rw [this] at hk; cases hk
          | err => exact absurd hla1 hc1.la
        obtain ⟨t, rfl, ht1⟩ := hl
        unfold doShift
        exact {
          path := by
            refine Path.cons hc1.path hr1 ?_
            unfold Row.target
            have h1 : ((PT.leaf (LA.tok t).term).root % 2 == 0) = true := by
              simp [PT.root, LA.term]
            have h2 : (PT.leaf (LA.tok t).term).root / 2 = t := by simp [PT.root, LA.term]
            simp only [h1, cond_true, h2]
            exact hk
          wf := by
            intro e he
            simp only [List.mem_cons] at he
            rcases he with rfl | he
            · exact PT.WF.leaf _
            · exact hc1.wf e he
          noErrLeaf := by
            intro e he
            simp only [List.mem_cons] at he
            rcases he with rfl | he
            · simp [LA.term, ht1]
            · exact hc1.noErrLeaf e he
          yld := by
            have := hc1.yld
            rw [hla1] at this
            simpa [yieldStack_cons, PT.yield, LA.term, laToks] using this
          log := by
            have := hc1.log
            simpa [trees, postorderL_append, postorderL, PT.postorder] using this
          cnt := by simp [hc1.cnt]
          las := hc1.las
          la := by simp
          eof := by intro h; cases h
          tok0 := by intro t h; cases h
          inp0 := hc1.inp0
          cons := hc1.cons
          noerr := hc1.noerr }
      | reduce p =>
        simp only
        obtain ⟨c', h1, h2⟩ := clean_reduce hv hc1 hr1 (action_reduce hact)
        rw [h1]; exact Or.inl h2
      | accept =>
        simp only
        obtain ⟨hacc, ht0⟩ := action_accept hact
        have hl : l = .eof := by
          cases l with
          | tok t => simp only [LA.term] at ht0; exact absurd ht0 (hc1.tok0 t hla1)
          | eof => rfl
          | err => exact absurd hla1 hc1.la
        subst hl
        exact clean_accept hv hc1 hr1 hacc hla1
      | none =>
        simp only
        have hlerr : l ≠ .err := by intro h; subst h; exact absurd hla1 hc1.la
        exact clean_error hv mode hc1 hla1 hlerr

/-- one step after the error callback -/
theorem step_post (hv : Valid T) {c : Cfg} (hc : PostErr T c) :
    match step T .drain false c with
    | .inl c' => PostErr T c'
    | .inr o => GoodPost o := by
  obtain ⟨r, hr⟩ := path_top_row hv hc.path
  unfold step
  simp only [hr]
  rcases hc.la with hla | ⟨hla, hst, hlas⟩
  · -- lookahead is the `error` pseudo token
    cases hd : r.dflt with
    | some p =>
      simp only
      obtain ⟨c', h1, h2⟩ := post_reduce hv hc hla hr ((rowFacts hv hr).dflt p hd)
      rw [h1]; exact h2
    | none =>
      simp only [fetch, hla, LA.term, (rowFacts hv hr).noErr]
      unfold doError errCallback
      have hcnt : (c.errcount == 0 || c.errok) = false := by
        simp [hc.cnt, hc.ok]
      simp only [hcnt, Bool.false_eq_true, if_false]
      unfold recover
      by_cases hemp : c.st = []
      · simp only [hemp, List.isEmpty_nil, Bool.true_and]
        have : (LA.err != LA.eof) = true := by decide
        simp only [this, if_true]
        exact {
          path := by simpa using Path.nil
          noErrLeaf := by simp
          input := hc.input
          cnt := by simp
          ok := hc.ok
          la := Or.inr ⟨rfl, rfl, rfl⟩
          err := hc.err }
      · have h1 : (c.st.isEmpty && LA.err != LA.eof) = false := by simp [hemp]
        have h2 : ¬ (LA.err = LA.eof) := by decide
        have h3 : (LA.err != LA.err) = false := by decide
        simp only [h1, Bool.false_eq_true, if_false, h2, h3]
        exact {
          path := by have := path_drop hc.path 1; simpa using this
          noErrLeaf := by intro e he; exact hc.noErrLeaf e (List.mem_of_mem_tail he)
          input := hc.input
          cnt := by simp
          ok := hc.ok
          la := Or.inl hla
          err := hc.err }
  · -- stack unwound completely: state 0, nothing left to read
    obtain ⟨r0, h0, _, hd0, ha0⟩ := hv.row0
    have : r = r0 := by
      rw [hst] at hr; simp only [topState] at hr; rw [h0] at hr; cases hr; rfl
    subst this
    simp only [hd0, fetch, hla, hlas, hc.input, Bool.false_eq_true, if_false, LA.term, ha0]
    unfold doError errCallback
    have hcnt : (c.errcount == 0 || c.errok) = false := by
      simp [hc.cnt, hc.ok]
    simp only [hcnt, Bool.false_eq_true, if_false]
    unfold recover
    have h1 : (LA.eof != LA.eof) = false := by decide
    simp only [h1, Bool.and_false, Bool.false_eq_true, if_false, if_true, GoodPost]
    exact hc.err

theorem run_post (hv : Valid T) : ∀ (fuel : Nat) (c : Cfg), PostErr T c →
    GoodPost (run T .drain false fuel c) := by
  intro fuel
  induction fuel with
  | zero => intro c _; simp [run, GoodPost]
  | succ n ih =>
    intro c hc
    have := step_post hv hc
    unfold run
    cases hs : step T .drain false c with
    | inl c' => rw [hs] at this; simp only; exact ih c' this
    | inr o => rw [hs] at this; simpa using this

theorem goodPost_good {toks : List Nat} {bad : Bool} {o : Outcome} (h : GoodPost o) :
    Good T toks bad o := by
  cases o <;> simp_all [GoodPost, Good]

theorem run_clean (hv : Valid T) (mode : Mode) (toks : List Nat) (bad : Bool) :
    ∀ (fuel : Nat) (c : Cfg), Clean T toks bad c → Good T toks bad (run T mode bad fuel c) := by
  intro fuel
  induction fuel with
  | zero => intro c _; simp [run, Good]
  | succ n ih =>
    intro c hc
    have := step_clean hv mode hc
    unfold run
    cases hs : step T mode bad c with
    | inl c' =>
      rw [hs] at this
      simp only
      rcases this with h | ⟨rfl, rfl, h⟩
      · exact ih c' h
      · exact goodPost_good (run_post hv n c' h)
    | inr o => rw [hs] at this; simpa using this

theorem clean_init (toks : List Nat) (bad : Bool) (h0 : ∀ t ∈ toks, t ≠ 0) :
    Clean T toks bad (initCfg toks) := by
  constructor <;> simp [initCfg, yieldStack, trees, yieldL, postorderL, laToks]
  · exact Path.nil
  · exact h0

/-- **Main theorem.**  For valid tables and any token list (ids of real terminals),
the outcome of the SLY driver satisfies `Good`. -/
theorem parse_good (hv : T.valid = true) (mode : Mode) (bad : Bool) (toks : List Nat)
    (h0 : ∀ t ∈ toks, t ≠ 0) (fuel : Nat) : Good T toks bad (parse T mode bad toks fuel) :=
  run_clean (valid_of_eq hv) mode toks bad fuel _ (clean_init toks bad h0)

end MindsVerif.LR
