import MindsVerif.Model.LitSeq
import MindsVerif.Lemmas.Codec
/-! Every sequence of string constants, whatever their values (trailing backslashes, quotes, …), printed with any
separators that do not begin with a quote, is read back as exactly those values with exactly those boundaries. -/
namespace MindsVerif.LitSeq
open MindsVerif.Codec

theorem dropPrefix_append : ∀ (p s : List Char), dropPrefix p (p ++ s) = some s
  | [], s => by cases s <;> rfl
  | a :: p, s => by simp [dropPrefix, dropPrefix_append p s]

/-- what follows a literal does not begin with a quote: non-empty separators not starting with `'`, or the end -/
def sepsOK : List (List Char × List Char) → Bool
  | [] => true
  | [(_, sep)] => sep.head? != some '\''
  | (_, sep) :: rest => sep.head? != some '\'' && !sep.isEmpty && sepsOK rest

theorem head_printSeq_cons (v sep : List Char) (rest : List (List Char × List Char)) :
    (printSeq ((v, sep) :: rest)).head? = some '\'' := by
  simp [printSeq, constantToString]

theorem read_step (v sep tail : List Char) (seps : List (List Char))
    (hne : (sep ++ tail).head? ≠ some '\'') :
    readSeq (sep :: seps) (constantToString v ++ (sep ++ tail)) = (readSeq seps tail).map (v :: ·) := by
  simp only [readSeq]
  rw [roundtrip v (sep ++ tail) hne]
  simp only [dropPrefix_append]

theorem read_print : ∀ (items : List (List Char × List Char)), sepsOK items = true →
    readSeq (items.map (·.2)) (printSeq items) = some (items.map (·.1))
  | [], _ => rfl
  | [(v, sep)], h => by
    simp only [sepsOK, bne_iff_ne, ne_eq] at h
    have hne : (sep ++ ([] : List Char)).head? ≠ some '\'' := by simpa using h
    have := read_step v sep [] [] hne
    simpa [printSeq, readSeq] using this
  | (v, sep) :: (v2, sep2) :: rest, h => by
    simp only [sepsOK, Bool.and_eq_true, bne_iff_ne, ne_eq, Bool.not_eq_true', List.isEmpty_eq_false_iff] at h
    obtain ⟨⟨h1, h2⟩, h3⟩ := h
    have ih := read_print ((v2, sep2) :: rest) h3
    have hne : (sep ++ printSeq ((v2, sep2) :: rest)).head? ≠ some '\'' := by
      cases sep with
      | nil => exact absurd rfl h2
      | cons c t => simpa using h1
    have hs := read_step v sep (printSeq ((v2, sep2) :: rest)) (((v2, sep2) :: rest).map (·.2)) hne
    have hp : printSeq ((v, sep) :: (v2, sep2) :: rest) =
        constantToString v ++ (sep ++ printSeq ((v2, sep2) :: rest)) := rfl
    rw [hp]
    simp only [List.map_cons] at hs ih ⊢
    rw [hs, ih]
    rfl

end MindsVerif.LitSeq
