import MindsVerif.Model.Lex
import MindsVerif.Model.Denote
import MindsVerif.Lemmas.PyLemmas
/-! lemmas for C04: the spec reader and the regex matchers on spec literals; the decoder chain -/
namespace MindsVerif.Literal
open MindsVerif.Py MindsVerif.Lex MindsVerif.Denote

abbrev WF (q : Char) (dbl : Bool) (items : List Item) : Prop := ∀ i ∈ items, i.wf q dbl = true

theorem wf_tail {q dbl i} {is : List Item} (h : WF q dbl (i :: is)) : WF q dbl is :=
  fun j hj => h j (List.mem_cons_of_mem _ hj)

/-! ### the spec reader reads a spec literal -/
theorem scanGo_src (q : Char) (dbl : Bool) (hq : q ≠ '\\') (rest : List Char) (hr : rest.head? ≠ some q) :
    ∀ items : List Item, WF q dbl items →
      scanGo q dbl .normal (srcBody q items ++ q :: rest) = some (items, rest)
  | [], _ => by
    cases dbl with
    | false => simp [srcBody, scanGo, hq]
    | true =>
      cases rest with
      | nil => simp [srcBody, scanGo, hq]
      | cons c t =>
        have : c ≠ q := by simpa using hr
        simp [srcBody, scanGo, hq, this]
  | .ch c :: is, h => by
    have hc := h (.ch c) (by simp)
    simp [Item.wf] at hc
    simp [srcBody, Item.src, scanGo, hc.1, hc.2, scanGo_src q dbl hq rest hr is (wf_tail h)]
  | .esc c :: is, h => by
    simp [srcBody, Item.src, scanGo, scanGo_src q dbl hq rest hr is (wf_tail h)]
  | .qq :: is, h => by
    have hc := h .qq (by simp)
    simp [Item.wf] at hc
    subst hc
    simp [srcBody, Item.src, scanGo, hq, scanGo_src q true hq rest hr is (wf_tail h)]

/-! ### the backtracking matchers on a spec literal -/
theorem mQuote_close (rest : List Char) (hr : rest.head? ≠ some '\'') :
    mQuote ('\'' :: rest) = some ([], rest) := by
  cases rest with
  | nil => rw [mQuote.eq_def]; simp
  | cons c t =>
    have : c ≠ '\'' := by simpa using hr
    rw [mQuote.eq_def]; simp [this]

theorem mQuote_ch {c : Char} {t b r : List Char} (h1 : c ≠ '\\') (h2 : c ≠ '\'')
    (h : mQuote t = some (b, r)) : mQuote (c :: t) = some (c :: b, r) := by
  rw [mQuote.eq_def]; simp [h1, h2, h]

theorem mQuote_esc {d : Char} {t b r : List Char} (h : mQuote t = some (b, r)) :
    mQuote ('\\' :: d :: t) = some ('\\' :: d :: b, r) := by
  by_cases hd : d = '\n'
  · subst hd
    have : mQuote ('\n' :: t) = some ('\n' :: b, r) := mQuote_ch (by decide) (by decide) h
    rw [mQuote.eq_def]; simp [this]
  · rw [mQuote.eq_def]; simp [hd, h]

theorem mQuote_qq {t b r : List Char} (h : mQuote t = some (b, r)) :
    mQuote ('\'' :: '\'' :: t) = some ('\'' :: '\'' :: b, r) := by
  rw [mQuote.eq_def]; simp [h]

theorem mQuote_src (rest : List Char) (hr : rest.head? ≠ some '\'') :
    ∀ items : List Item, WF '\'' true items →
      mQuote (srcBody '\'' items ++ '\'' :: rest) = some (srcBody '\'' items, rest)
  | [], _ => by simpa [srcBody] using mQuote_close rest hr
  | .ch c :: is, h => by
    have hc := h (.ch c) (by simp)
    simp [Item.wf] at hc
    simpa [srcBody, Item.src] using mQuote_ch hc.1 hc.2 (mQuote_src rest hr is (wf_tail h))
  | .esc c :: is, h => by
    simpa [srcBody, Item.src] using mQuote_esc (d := c) (mQuote_src rest hr is (wf_tail h))
  | .qq :: is, h => by
    simpa [srcBody, Item.src] using mQuote_qq (mQuote_src rest hr is (wf_tail h))

theorem mDQuote_ch {c : Char} {t b r : List Char} (h1 : c ≠ '\\') (h2 : c ≠ '"')
    (h : mDQuote t = some (b, r)) : mDQuote (c :: t) = some (c :: b, r) := by
  rw [mDQuote.eq_def]; simp [h1, h2, h]

theorem mDQuote_esc {d : Char} {t b r : List Char} (h : mDQuote t = some (b, r)) :
    mDQuote ('\\' :: d :: t) = some ('\\' :: d :: b, r) := by
  by_cases hd : d = '\n'
  · subst hd
    have : mDQuote ('\n' :: t) = some ('\n' :: b, r) := mDQuote_ch (by decide) (by decide) h
    rw [mDQuote.eq_def]; simp [this]
  · rw [mDQuote.eq_def]; simp [hd, h]

theorem mDQuote_src (rest : List Char) :
    ∀ items : List Item, WF '"' false items →
      mDQuote (srcBody '"' items ++ '"' :: rest) = some (srcBody '"' items, rest)
  | [], _ => by rw [mDQuote.eq_def]; simp [srcBody]
  | .ch c :: is, h => by
    have hc := h (.ch c) (by simp)
    simp [Item.wf] at hc
    simpa [srcBody, Item.src] using mDQuote_ch hc.1 hc.2 (mDQuote_src rest is (wf_tail h))
  | .esc c :: is, h => by
    simpa [srcBody, Item.src] using mDQuote_esc (d := c) (mDQuote_src rest is (wf_tail h))
  | .qq :: is, h => by
    have hc := h .qq (by simp)
    simp [Item.wf] at hc

theorem mSimple_body (q : Char) (rest : List Char) :
    ∀ body : List Char, (∀ c ∈ body, c ≠ q) → mSimple q (body ++ q :: rest) = some (body, rest)
  | [], _ => by simp [mSimple]
  | c :: t, h => by
    have hc : c ≠ q := h c (by simp)
    simp [mSimple, hc, mSimple_body q rest t (fun x hx => h x (by simp [hx]))]

end MindsVerif.Literal
