import MindsVerif.Model.ModelJoin
/-! Helper lemmas for C14 (model of `PlanJoinTablesQuery`). Core Lean only. -/
namespace MindsVerif.ModelJoin

/-! ### dictionaries -/

theorem mem_dictSet {α} {d : List (String × α)} {k : String} {v : α} {a : String} {b : α} :
    (a, b) ∈ dictSet d k v → (a, b) ∈ d ∨ (a = k ∧ b = v) := by
  induction d with
  | nil => simp [dictSet]
  | cons x xs ih =>
    obtain ⟨k', v'⟩ := x
    simp only [dictSet]
    split
    · rename_i h
      intro hm
      rcases List.mem_cons.mp hm with h1 | h1
      · injection h1 with h2 h3; right; exact ⟨h2.trans h, h3⟩
      · left; exact List.mem_cons_of_mem _ h1
    · intro hm
      rcases List.mem_cons.mp hm with h1 | h1
      · left; rw [h1]; exact List.mem_cons_self
      · rcases ih h1 with h2 | h2
        · left; exact List.mem_cons_of_mem _ h2
        · right; exact h2

theorem keys_dictSet {α} {d : List (String × α)} {k : String} {v : α} {a : String} :
    a ∈ keys (dictSet d k v) ↔ a ∈ keys d ∨ a = k := by
  induction d with
  | nil => simp [dictSet, keys]
  | cons x xs ih =>
    obtain ⟨k', v'⟩ := x
    simp only [dictSet]
    split
    · rename_i h
      simp only [keys, List.map_cons, List.mem_cons] at *
      constructor
      · intro h1; left; exact h1
      · rintro (h1 | h1)
        · exact h1
        · left; rw [h1, h]
    · simp only [keys, List.map_cons, List.mem_cons] at *
      rw [ih]
      constructor
      · rintro (h1 | h1 | h1)
        · left; left; exact h1
        · left; right; exact h1
        · right; exact h1
      · rintro ((h1 | h1) | h1)
        · left; exact h1
        · right; left; exact h1
        · right; right; exact h1

/-- `d[k] = v` makes `k` map to `v` -/
theorem dictGet_dictSet_self {α} (d : List (String × α)) (k : String) (v : α) :
    dictGet (dictSet d k v) k = some v := by
  induction d with
  | nil => simp [dictSet, dictGet]
  | cons x xs ih =>
    obtain ⟨k', v'⟩ := x
    simp only [dictSet]
    split
    · rename_i h; simp [dictGet, h]
    · rename_i h
      simp only [dictGet, List.find?_cons] at *
      simp [h, ih]

/-- `d[k] = v` leaves other keys alone -/
theorem dictGet_dictSet_other {α} (d : List (String × α)) (k k2 : String) (v : α) (h : k2 ≠ k) :
    dictGet (dictSet d k v) k2 = dictGet d k2 := by
  induction d with
  | nil => simp [dictSet, dictGet, Ne.symm h]
  | cons x xs ih =>
    obtain ⟨k', v'⟩ := x
    simp only [dictSet]
    split
    · rename_i h1
      simp only [dictGet, List.find?_cons]
      have : ¬ (k' = k2) := by rw [h1]; exact Ne.symm h
      simp [this]
    · simp only [dictGet, List.find?_cons] at *
      by_cases h2 : k' = k2
      · simp [h2]
      · simp [h2, ih]

theorem not_mem_keys_dictPop {α} (d : List (String × α)) (k : String) : k ∉ keys (dictPop d k) := by
  simp [keys, dictPop, List.mem_map, List.mem_filter]

theorem mem_dictPop {α} {d : List (String × α)} {k : String} {x : String × α} :
    x ∈ dictPop d k → x ∈ d := by
  simp only [dictPop, List.mem_filter]; exact fun h => h.1

/-! ### the walker -/

theorem nodes_eq_self_or_below (e : E) : ∀ n ∈ nodes e, n = e ∨ n ∈ below e := by
  intro n hn
  cases e <;> simp_all [nodes, below]

/-- `flatP P w`: every visited node satisfying `P` is a top-level conjunct -/
theorem flatP_top (P : E → Bool) : ∀ (w : E), flatP P w = true → ∀ n ∈ nodes w, P n = true → n ∈ topConjuncts w := by
  intro w
  induction w with
  | bin op l r ihl ihr =>
    intro hf n hn hp
    simp only [flatP] at hf
    simp only [topConjuncts]
    split at hf
    · rename_i hop
      subst hop
      simp only [Bool.and_eq_true, Bool.not_eq_true'] at hf
      simp only [if_true, List.mem_append]
      simp only [nodes, List.mem_cons, List.mem_append] at hn
      rcases hn with h | h | h
      · rw [h] at hp; rw [hf.1.1] at hp; cases hp
      · left; exact ihl hf.1.2 n h hp
      · right; exact ihr hf.2 n h hp
    · rename_i hop
      simp only [hop, if_false, List.mem_singleton]
      simp only [nodes, List.mem_cons] at hn
      rcases hn with h | h
      · exact h
      · have := List.all_eq_true.mp hf n h
        simp [hp] at this
  | btw a b c _ _ _ =>
    intro hf n hn hp
    rcases nodes_eq_self_or_below _ n hn with h | h
    · simp [topConjuncts, h]
    · have := List.all_eq_true.mp (by simpa [flatP] using hf : (below (E.btw a b c)).all (fun n => !P n) = true) n h
      simp [hp] at this
  | un op e _ =>
    intro hf n hn hp
    rcases nodes_eq_self_or_below _ n hn with h | h
    · simp [topConjuncts, h]
    · have := List.all_eq_true.mp (by simpa [flatP] using hf : (below (E.un op e)).all (fun n => !P n) = true) n h
      simp [hp] at this
  | fn nm a _ =>
    intro hf n hn hp
    rcases nodes_eq_self_or_below _ n hn with h | h
    · simp [topConjuncts, h]
    · have := List.all_eq_true.mp (by simpa [flatP] using hf : (below (E.fn nm a)).all (fun n => !P n) = true) n h
      simp [hp] at this
  | acons h t _ _ =>
    intro hf n hn hp
    rcases nodes_eq_self_or_below _ n hn with h1 | h1
    · simp [topConjuncts, h1]
    · have := List.all_eq_true.mp (by simpa [flatP] using hf : (below (E.acons h t)).all (fun n => !P n) = true) n h1
      simp [hp] at this
  | col q nm => intro _ n hn _; simp_all [nodes, topConjuncts]
  | const v => intro _ n hn _; simp_all [nodes, topConjuncts]
  | param v => intro _ n hn _; simp_all [nodes, topConjuncts]
  | anil => intro _ n hn _; simp_all [nodes]
  | opq t => intro _ n hn _; simp_all [nodes, topConjuncts]
  | sel _ => intro _ n hn _; simp_all [nodes, topConjuncts]

/-! ### neutralisation -/

theorem neut_id (p : E → Bool) : ∀ w : E, (∀ n ∈ nodes w, p n = false) → neut p w = w := by
  intro w
  induction w with
  | bin op l r ihl ihr =>
    intro h
    have hs : p (.bin op l r) = false := h _ (by simp [nodes])
    simp only [neut, hs]
    rw [ihl (fun n hn => h n (by simp [nodes, hn])), ihr (fun n hn => h n (by simp [nodes, hn]))]
    simp
  | btw a b c iha ihb ihc =>
    intro h
    simp only [neut]
    rw [iha (fun n hn => h n (by simp [nodes, hn])), ihb (fun n hn => h n (by simp [nodes, hn])),
      ihc (fun n hn => h n (by simp [nodes, hn]))]
  | un op e ih => intro h; simp only [neut]; rw [ih (fun n hn => h n (by simp [nodes, hn]))]
  | fn nm a ih => intro h; simp only [neut]; rw [ih (fun n hn => h n (by simp [nodes, hn]))]
  | acons h t ihh iht =>
    intro hh
    simp only [neut]
    rw [ihh (fun n hn => hh n (by simp [nodes, hn])), iht (fun n hn => hh n (by simp [nodes, hn]))]
  | col q nm => intro _; rfl
  | const v => intro _; rfl
  | param v => intro _; rfl
  | anil => intro _; rfl
  | opq t => intro _; rfl
  | sel _ => intro _; rfl

theorem neut_leaf (p : E → Bool) (x : E) (h : isLeaf (neut p x) = true) : neut p x = x := by
  cases x with
  | bin op l r => simp only [neut] at h; split at h <;> simp [zeroEq, isLeaf] at h
  | _ => first | rfl | simp [neut, isLeaf] at h

/-- predicates that only look at `BinaryOperation`s with leaf arguments and reject `0 op 0` -/
structure LeafPred (p : E → Bool) : Prop where
  bin : ∀ n, p n = true → ∃ op l r, n = .bin op l r ∧ isLeaf l = true ∧ isLeaf r = true
  zero : ∀ op, p (zeroEq op) = false

/-- after neutralisation no node satisfying the predicate is left -/
theorem neut_clean (p : E → Bool) (hp : LeafPred p) : ∀ w : E, ∀ n ∈ nodes (neut p w), p n = false := by
  have notbin : ∀ n, (∀ op l r, n ≠ E.bin op l r) → p n = false := by
    intro n hn
    cases h : p n with
    | false => rfl
    | true => obtain ⟨op, l, r, e, _⟩ := hp.bin n h; exact absurd e (hn op l r)
  intro w
  induction w with
  | bin op l r ihl ihr =>
    intro n hn
    simp only [neut] at hn
    split at hn
    · simp only [zeroEq, nodes, List.mem_cons, List.cons_append, List.nil_append] at hn
      rcases hn with h | h | h
      · rw [h]; exact hp.zero op
      · rw [h]; exact notbin _ (by intros; simp)
      · rcases h with h | h
        · rw [h]; exact notbin _ (by intros; simp)
        · cases h
    · rename_i hs
      simp only [nodes, List.mem_cons, List.mem_append] at hn
      rcases hn with h | h | h
      · rw [h]
        cases hq : p (.bin op (neut p l) (neut p r)) with
        | false => rfl
        | true =>
          obtain ⟨op', l', r', e, hl, hr⟩ := hp.bin _ hq
          injection e with e1 e2 e3
          rw [← e2] at hl; rw [← e3] at hr
          rw [neut_leaf p l hl, neut_leaf p r hr] at hq
          rw [hq] at hs; exact absurd rfl hs
      · exact ihl n h
      · exact ihr n h
  | btw a b c iha ihb ihc =>
    intro n hn
    simp only [neut, nodes, List.mem_cons, List.mem_append] at hn
    rcases hn with h | (h | h) | h
    · rw [h]; exact notbin _ (by intros; simp)
    · exact iha n h
    · exact ihb n h
    · exact ihc n h
  | un op e ih =>
    intro n hn
    simp only [neut, nodes, List.mem_cons] at hn
    rcases hn with h | h
    · rw [h]; exact notbin _ (by intros; simp)
    · exact ih n h
  | fn nm a ih =>
    intro n hn
    simp only [neut, nodes, List.mem_cons] at hn
    rcases hn with h | h
    · rw [h]; exact notbin _ (by intros; simp)
    · exact ih n h
  | acons h t ihh iht =>
    intro n hn
    simp only [neut, nodes, List.mem_append] at hn
    rcases hn with h1 | h1
    · exact ihh n h1
    · exact iht n h1
  | col q nm => intro n hn; simp only [neut, nodes, List.mem_singleton] at hn; rw [hn]; exact notbin _ (by intros; simp)
  | const v => intro n hn; simp only [neut, nodes, List.mem_singleton] at hn; rw [hn]; exact notbin _ (by intros; simp)
  | param v => intro n hn; simp only [neut, nodes, List.mem_singleton] at hn; rw [hn]; exact notbin _ (by intros; simp)
  | anil => intro n hn; simp [neut, nodes] at hn
  | opq t => intro n hn; simp only [neut, nodes, List.mem_singleton] at hn; rw [hn]; exact notbin _ (by intros; simp)
  | sel _ => intro n hn; simp only [neut, nodes, List.mem_singleton] at hn; rw [hn]; exact notbin _ (by intros; simp)

/-- neutralisation acts conjunct by conjunct -/
theorem topConjuncts_neut (p : E → Bool) (hp : ∀ l r, p (.bin "and" l r) = false) :
    ∀ w : E, topConjuncts (neut p w) = (topConjuncts w).map (neut p) := by
  intro w
  induction w with
  | bin op l r ihl ihr =>
    by_cases hop : op = "and"
    · subst hop
      simp [neut, hp, topConjuncts, ihl, ihr]
    · simp only [neut, topConjuncts, hop, if_false, List.map_cons, List.map_nil]
      split
      · simp [zeroEq, topConjuncts, hop]
      · simp [topConjuncts, hop]
  | btw a b c _ _ _ => simp [neut, topConjuncts]
  | un op e _ => simp [neut, topConjuncts]
  | fn nm a _ => simp [neut, topConjuncts]
  | acons h t _ _ => simp [neut, topConjuncts]
  | col q nm => simp [neut, topConjuncts]
  | const v => simp [neut, topConjuncts]
  | param v => simp [neut, topConjuncts]
  | anil => simp [neut, topConjuncts]
  | opq t => simp [neut, topConjuncts]
  | sel _ => simp [neut, topConjuncts]

theorem ev_le_two (val : E → Nat) (hv : ∀ e, val e ≤ 2) : ∀ w, ev val w ≤ 2 := by
  intro w
  induction w with
  | bin op l r ihl ihr =>
    simp only [ev]
    split
    · exact Nat.le_trans (Nat.min_le_left _ _) ihl
    · split
      · exact Nat.max_le.mpr ⟨ihl, ihr⟩
      · exact hv _
  | un op e ih =>
    simp only [ev]
    split
    · exact Nat.sub_le _ _
    · exact hv _
  | _ => simp only [ev]; exact hv _

/-! ### neutralisation of top-level conjuncts (WHERE) -/

theorem topConjuncts_neutTop (p : E → Bool) : ∀ w : E, topConjuncts (neutTop p w) = (topConjuncts w).map (neut1 p) := by
  intro w
  induction w with
  | bin op l r ihl ihr =>
    by_cases hop : op = "and"
    · subst hop
      simp [neutTop, topConjuncts, ihl, ihr]
    · simp only [neutTop, topConjuncts, hop, if_false, List.map_cons, List.map_nil, neut1]
      split
      · simp [zeroEq, topConjuncts, hop]
      · simp [topConjuncts, hop]
  | _ => simp [neutTop, topConjuncts, neut1]

theorem neutTop_id (p : E → Bool) : ∀ w : E, (∀ c ∈ topConjuncts w, p c = false) → neutTop p w = w := by
  intro w
  induction w with
  | bin op l r ihl ihr =>
    intro h
    by_cases hop : op = "and"
    · subst hop
      simp only [topConjuncts, if_true, List.mem_append] at h
      simp only [neutTop, if_true]
      rw [ihl (fun c hc => h c (Or.inl hc)), ihr (fun c hc => h c (Or.inr hc))]
    · simp only [topConjuncts, hop, if_false, List.mem_singleton] at h
      simp [neutTop, hop, h _ rfl]
  | _ => intro _; rfl

/-- **neutralising top-level conjuncts only relaxes the filter**: every row accepted by `w` is accepted by
the neutralised condition (three-valued, any valuation in which `0 = 0` is true) -/
theorem neutTop_relaxes (p : E → Bool) (val : E → Nat)
    (hp : ∀ n, p n = true → ∃ l r, n = .bin "=" l r)
    (hv : ∀ e, val e ≤ 2) (hz : val (zeroEq "=") = 2) :
    ∀ w : E, ev val w ≤ ev val (neutTop p w) := by
  intro w
  induction w with
  | bin op l r ihl ihr =>
    by_cases hand : op = "and"
    · subst hand
      simp only [neutTop, ev, if_true]
      omega
    · simp only [neutTop, hand, if_false]
      split
      · rename_i hs
        obtain ⟨l', r', e⟩ := hp _ hs
        injection e with e1 _ _
        subst e1
        have hz' : ev val (zeroEq "=") = 2 := by simp [zeroEq, ev]; exact hz
        rw [hz']
        exact ev_le_two val hv _
      · exact Nat.le_refl _
  | _ => exact Nat.le_refl _

end MindsVerif.ModelJoin
