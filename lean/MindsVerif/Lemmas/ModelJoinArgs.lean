import MindsVerif.Lemmas.ModelJoin
/-! Lemmas about attribution, row_dict, USING params, columns_map and ON filters (C14). -/
namespace MindsVerif.ModelJoin

/-! ### attribution -/

theorem mem_conditionsOf {ops : List Operand} {i : Nat} {w c : E} :
    c ∈ conditionsOf ops i w ↔ ∃ n ∈ topConjuncts w, attributed ops n = some (i, c) := by
  simp only [conditionsOf, List.mem_filterMap]
  constructor
  · rintro ⟨n, hn, h⟩
    refine ⟨n, hn, ?_⟩
    split at h
    · rename_i j c' heq
      split at h
      · rename_i hj; injection h with h; rw [heq, hj, h]
      · cases h
    · cases h
  · rintro ⟨n, hn, h⟩
    exact ⟨n, hn, by simp [h]⟩

theorem argValue_of_constOrParam {r : E} (h : isConstOrParam r = true) : ∃ v, argValue r = some v := by
  cases r <;> simp_all [isConstOrParam, argValue]

/-- a consumed node is an equality (either orientation) -/
theorem consumed_shape {ops : List Operand} {i : Nat} {tgt : Option String} {n : E}
    (h : consumed ops i tgt n = true) : ∃ l r, n = .bin "=" l r := by
  cases n with
  | bin op l r => cases l <;> cases r <;> simp_all [consumed]
  | _ => simp [consumed] at h

/-- a node consumed by model `i` is stored for operand `i`; its stored copy is an equality on the column
`eqKey n` (not the predict target) whose other side has the value `eqVal n` -/
theorem consumed_attributed {ops : List Operand} {i : Nat} {tgt : Option String} {n : E}
    (h : consumed ops i tgt n = true) :
    ∃ c r v, attributed ops n = some (i, c) ∧ eqParts c = some (eqKey n, r) ∧ argValue r = some v ∧
      eqVal n = some v ∧ some (lower (eqKey n)) ≠ tgt.map lower := by
  cases n with
  | bin op l r =>
    cases l <;> cases r <;>
      simp_all [consumed, attributed, eqParts, eqKey, eqVal, isConstOrParam, argValue]
  | _ => simp [consumed] at h

/-- conversely, a stored equality of operand `i` whose column is not the target comes from a consumed node -/
theorem attributed_consumed {ops : List Operand} {i : Nat} {tgt : Option String} {n c : E} {k : String} {r : E}
    (ha : attributed ops n = some (i, c)) (he : eqParts c = some (k, r))
    (ht : some (lower k) ≠ tgt.map lower) :
    consumed ops i tgt n = true ∧ eqKey n = k ∧ eqVal n = argValue r := by
  cases n with
  | bin op l r' =>
    cases l <;> cases r' <;> simp_all [attributed, isConstOrParam] <;>
      (obtain ⟨h0, a, h1, h2, h3⟩ := ha
       subst h3 h2
       simp_all [eqParts, consumed, eqKey, eqVal, isConstOrParam])
  | btw a b c' =>
    cases a <;> cases b <;> cases c' <;> simp_all [attributed, isConstOrParam] <;>
      (obtain ⟨_, a, _, _, h3⟩ := ha; subst h3; simp [eqParts] at he)
  | _ => simp [attributed] at ha

/-- an attributed node mentions exactly one identifier and its qualifier resolves to that operand -/
theorem attributed_quals {ops : List Operand} {n : E} {i : Nat} {c : E} (h : attributed ops n = some (i, c)) :
    ∀ q ∈ qualsOf n, tableFor ops q = some i := by
  intro q' hq'
  cases n with
  | bin op l r =>
    cases l <;> cases r <;> simp_all [attributed, qualsOf, isConstOrParam] <;>
      (obtain ⟨_, a, h1, h2, _⟩ := h; rw [h1, h2])
  | btw a b c =>
    cases a <;> cases b <;> cases c <;> simp_all [attributed, qualsOf, isConstOrParam] <;>
      (obtain ⟨_, a, h1, h2, _⟩ := h; rw [h1, h2])
  | _ => simp [attributed] at h

/-! ### row_dict -/

theorem keys_mono_rowDictLoop (tgt : Option String) : ∀ (cs : List E) (d : List (String × String)) (k : String),
    k ∈ keys d → k ∈ keys (rowDictLoop tgt cs d) := by
  intro cs
  induction cs with
  | nil => intro d k h; simpa [rowDictLoop] using h
  | cons c rest ih =>
    intro d k h
    simp only [rowDictLoop]
    split
    · split
      · split
        · exact ih _ k (keys_dictSet.mpr (Or.inl h))
        · exact ih _ k h
      · exact ih _ k h
    · exact ih _ k h

theorem mem_rowDictLoop (tgt : Option String) : ∀ (cs : List E) (d : List (String × String)) (k v : String),
    (k, v) ∈ rowDictLoop tgt cs d →
      (k, v) ∈ d ∨ ∃ c r, c ∈ cs ∧ eqParts c = some (k, r) ∧ some (lower k) ≠ tgt.map lower ∧ argValue r = some v := by
  intro cs
  induction cs with
  | nil => intro d k v h; left; simpa [rowDictLoop] using h
  | cons c rest ih =>
    intro d k v h
    have lift : ((k, v) ∈ d ∨ ∃ c' r, c' ∈ rest ∧ eqParts c' = some (k, r) ∧ some (lower k) ≠ tgt.map lower ∧ argValue r = some v) →
        ((k, v) ∈ d ∨ ∃ c' r, c' ∈ c :: rest ∧ eqParts c' = some (k, r) ∧ some (lower k) ≠ tgt.map lower ∧ argValue r = some v) := by
      rintro (h1 | ⟨c', r, h1, h2⟩)
      · left; exact h1
      · right; exact ⟨c', r, List.mem_cons_of_mem _ h1, h2⟩
    simp only [rowDictLoop] at h
    split at h
    · rename_i n r hp
      split at h
      · rename_i ht
        split at h
        · rename_i v' hv
          rcases ih _ k v h with h1 | h1
          · rcases mem_dictSet h1 with h2 | ⟨h2, h3⟩
            · left; exact h2
            · right
              refine ⟨c, r, List.mem_cons_self, ?_, ?_, ?_⟩
              · rw [h2]; exact hp
              · rw [h2]; exact ht
              · rw [h3]; exact hv
          · exact lift (Or.inr h1)
        · exact lift (ih _ k v h)
      · exact lift (ih _ k v h)
    · exact lift (ih _ k v h)

theorem keys_rowDictLoop_complete (tgt : Option String) : ∀ (cs : List E) (d : List (String × String))
    (c : E) (k : String) (r : E) (v : String),
    c ∈ cs → eqParts c = some (k, r) → some (lower k) ≠ tgt.map lower → argValue r = some v →
    k ∈ keys (rowDictLoop tgt cs d) := by
  intro cs
  induction cs with
  | nil => intro d c k r v h; cases h
  | cons c0 rest ih =>
    intro d c k r v h hp ht hv
    rcases List.mem_cons.mp h with h1 | h1
    · subst h1
      simp only [rowDictLoop, hp, ht, hv, ne_eq, not_false_eq_true, if_true]
      exact keys_mono_rowDictLoop tgt rest _ k (keys_dictSet.mpr (Or.inr rfl))
    · simp only [rowDictLoop]
      split
      · split
        · split
          · exact ih _ c k r v h1 hp ht hv
          · exact ih _ c k r v h1 hp ht hv
        · exact ih _ c k r v h1 hp ht hv
      · exact ih _ c k r v h1 hp ht hv

/-! ### USING -/

theorem paramsLoop_append (als : List (List String)) : ∀ (u1 u2 : List (String × String)) (d : List (String × String)),
    paramsLoop als (u1 ++ u2) d = paramsLoop als u2 (paramsLoop als u1 d) := by
  intro u1
  induction u1 with
  | nil => intro u2 d; rfl
  | cons x xs ih =>
    intro u2 d
    obtain ⟨k, v⟩ := x
    simp only [List.cons_append, paramsLoop]
    split <;> exact ih _ _

theorem mem_paramsLoop (als : List (List String)) : ∀ (u d : List (String × String)) (k' v : String),
    (k', v) ∈ paramsLoop als u d → (k', v) ∈ d ∨ ∃ k, (k, v) ∈ u ∧ routeKey als k = some k' := by
  intro u
  induction u with
  | nil => intro d k' v h; left; simpa [paramsLoop] using h
  | cons x xs ih =>
    intro d k' v h
    obtain ⟨k, v0⟩ := x
    simp only [paramsLoop] at h
    split at h
    · rename_i kk hk
      rcases ih _ k' v h with h1 | ⟨k2, h1, h2⟩
      · rcases mem_dictSet h1 with h2 | ⟨h2, h3⟩
        · left; exact h2
        · right; exact ⟨k, by rw [h3]; exact List.mem_cons_self, by rw [hk, h2]⟩
      · right; exact ⟨k2, List.mem_cons_of_mem _ h1, h2⟩
    · rcases ih _ k' v h with h1 | ⟨k2, h1, h2⟩
      · left; exact h1
      · right; exact ⟨k2, List.mem_cons_of_mem _ h1, h2⟩

theorem dictGet_paramsLoop_untouched (als : List (List String)) (k' : String) :
    ∀ (u d : List (String × String)), (∀ x ∈ u, routeKey als x.1 ≠ some k') →
      dictGet (paramsLoop als u d) k' = dictGet d k' := by
  intro u
  induction u with
  | nil => intro d _; rfl
  | cons x xs ih =>
    intro d h
    obtain ⟨k, v⟩ := x
    simp only [paramsLoop]
    have hx := h (k, v) List.mem_cons_self
    have hr := fun y hy => h y (List.mem_cons_of_mem _ hy)
    split
    · rename_i kk hk
      rw [ih _ hr]
      apply dictGet_dictSet_other
      intro e
      apply hx
      simp only
      rw [hk, e]
    · exact ih _ hr

/-- the value the model receives for a key is the value of the LAST USING entry routed to that key -/
theorem paramsLoop_last (als : List (List String)) (u1 u2 : List (String × String)) (k v k' : String)
    (d : List (String × String)) (hk : routeKey als k = some k')
    (h2 : ∀ x ∈ u2, routeKey als x.1 ≠ some k') :
    dictGet (paramsLoop als (u1 ++ (k, v) :: u2) d) k' = some v := by
  rw [paramsLoop_append]
  simp only [paramsLoop, hk]
  rw [dictGet_paramsLoop_untouched als k' u2 _ h2]
  exact dictGet_dictSet_self _ _ _

/-! ### columns_map -/

theorem mem_colMapLoop (ops : List Operand) (i : Nat) : ∀ (ns : List E) (d : List (String × E)) (k : String) (c : E),
    (k, c) ∈ colMapLoop ops i ns d →
      (k, c) ∈ d ∨ ∃ op q1 n1 q2 n2, E.bin op (.col q1 n1) (.col q2 n2) ∈ ns ∧
        ((tableFor ops q1 = some i ∧ k = n1 ∧ c = .col q2 n2) ∨
         (tableFor ops q1 ≠ some i ∧ tableFor ops q2 = some i ∧ k = n2 ∧ c = .col q1 n1)) := by
  intro ns
  induction ns with
  | nil => intro d k c h; left; simpa [colMapLoop] using h
  | cons n rest ih =>
    intro d k c h
    have lift : ((k, c) ∈ d ∨ ∃ op q1 n1 q2 n2, E.bin op (.col q1 n1) (.col q2 n2) ∈ rest ∧
        ((tableFor ops q1 = some i ∧ k = n1 ∧ c = .col q2 n2) ∨
         (tableFor ops q1 ≠ some i ∧ tableFor ops q2 = some i ∧ k = n2 ∧ c = .col q1 n1))) →
        ((k, c) ∈ d ∨ ∃ op q1 n1 q2 n2, E.bin op (.col q1 n1) (.col q2 n2) ∈ n :: rest ∧
        ((tableFor ops q1 = some i ∧ k = n1 ∧ c = .col q2 n2) ∨
         (tableFor ops q1 ≠ some i ∧ tableFor ops q2 = some i ∧ k = n2 ∧ c = .col q1 n1))) := by
      rintro (h1 | ⟨op, q1, n1, q2, n2, h1, h2⟩)
      · left; exact h1
      · right; exact ⟨op, q1, n1, q2, n2, List.mem_cons_of_mem _ h1, h2⟩
    cases n with
    | bin op l r =>
      cases l with
      | col q1 n1 =>
        cases r with
        | col q2 n2 =>
          simp only [colMapLoop] at h
          split at h
          · rename_i ht
            rcases ih _ k c h with h1 | h1
            · rcases mem_dictSet h1 with h2 | ⟨h2, h3⟩
              · left; exact h2
              · right; exact ⟨op, q1, n1, q2, n2, List.mem_cons_self, Or.inl ⟨ht, h2, h3⟩⟩
            · exact lift (Or.inr h1)
          · rename_i ht
            split at h
            · rename_i ht2
              rcases ih _ k c h with h1 | h1
              · rcases mem_dictSet h1 with h2 | ⟨h2, h3⟩
                · left; exact h2
                · right; exact ⟨op, q1, n1, q2, n2, List.mem_cons_self, Or.inr ⟨ht, ht2, h2, h3⟩⟩
              · exact lift (Or.inr h1)
            · exact lift (ih _ k c h)
        | _ => simp only [colMapLoop] at h; exact lift (ih _ k c h)
      | _ => simp only [colMapLoop] at h; exact lift (ih _ k c h)
    | _ => simp only [colMapLoop] at h; exact lift (ih _ k c h)

theorem keys_mono_colMapLoop (ops : List Operand) (i : Nat) : ∀ (ns : List E) (d : List (String × E)) (k : String),
    k ∈ keys d → k ∈ keys (colMapLoop ops i ns d) := by
  intro ns
  induction ns with
  | nil => intro d k h; simpa [colMapLoop] using h
  | cons n rest ih =>
    intro d k h
    cases n with
    | bin op l r =>
      cases l with
      | col q1 n1 =>
        cases r with
        | col q2 n2 =>
          simp only [colMapLoop]
          split
          · exact ih _ k (keys_dictSet.mpr (Or.inl h))
          · split
            · exact ih _ k (keys_dictSet.mpr (Or.inl h))
            · exact ih _ k h
        | _ => simp only [colMapLoop]; exact ih _ k h
      | _ => simp only [colMapLoop]; exact ih _ k h
    | _ => simp only [colMapLoop]; exact ih _ k h

/-- every visited comparison between a column of model `i` and another column yields a mapping key -/
theorem keys_colMapLoop_complete (ops : List Operand) (i : Nat) : ∀ (ns : List E) (d : List (String × E))
    (op : String) (q1 : List String) (n1 : String) (q2 : List String) (n2 : String),
    E.bin op (.col q1 n1) (.col q2 n2) ∈ ns →
    (tableFor ops q1 = some i → n1 ∈ keys (colMapLoop ops i ns d)) ∧
    (tableFor ops q1 ≠ some i → tableFor ops q2 = some i → n2 ∈ keys (colMapLoop ops i ns d)) := by
  intro ns
  induction ns with
  | nil => intro d op q1 n1 q2 n2 h; cases h
  | cons n rest ih =>
    intro d op q1 n1 q2 n2 h
    rcases List.mem_cons.mp h with h1 | h1
    · subst h1
      constructor
      · intro ht
        simp only [colMapLoop, ht, if_true]
        exact keys_mono_colMapLoop ops i rest _ n1 (keys_dictSet.mpr (Or.inr rfl))
      · intro ht ht2
        simp only [colMapLoop, ht, ht2, if_true, if_false]
        exact keys_mono_colMapLoop ops i rest _ n2 (keys_dictSet.mpr (Or.inr rfl))
    · cases n with
      | bin op' l r =>
        cases l with
        | col q1' n1' =>
          cases r with
          | col q2' n2' =>
            simp only [colMapLoop]
            split
            · exact ih _ op q1 n1 q2 n2 h1
            · split
              · exact ih _ op q1 n1 q2 n2 h1
              · exact ih _ op q1 n1 q2 n2 h1
          | _ => simp only [colMapLoop]; exact ih _ op q1 n1 q2 n2 h1
        | _ => simp only [colMapLoop]; exact ih _ op q1 n1 q2 n2 h1
      | _ => simp only [colMapLoop]; exact ih _ op q1 n1 q2 n2 h1

/-! ### the neutralisation predicates look only at leaves -/

theorem consumed_eq (ops : List Operand) (i : Nat) (tgt : Option String) (n : E)
    (h : consumed ops i tgt n = true) : ∃ l r, n = .bin "=" l r := consumed_shape h

theorem consumedAny_exists (ops : List Operand) : ∀ (all : List Operand) (i : Nat) (n : E),
    consumedAny ops all i n = true → ∃ j tgt, consumed ops j tgt n = true := by
  intro all
  induction all with
  | nil => intro i n h; simp [consumedAny] at h
  | cons o rest ih =>
    intro i n h
    simp only [consumedAny, Bool.or_eq_true, Bool.and_eq_true] at h
    rcases h with h | h
    · exact ⟨i, o.target, h.2⟩
    · exact ih _ n h

theorem consumedAny_eq (ops all : List Operand) (i : Nat) (n : E) (h : consumedAny ops all i n = true) :
    ∃ l r, n = .bin "=" l r := by
  obtain ⟨j, tgt, hc⟩ := consumedAny_exists ops all i n h
  exact consumed_shape hc

theorem consumedAny_zero (ops all : List Operand) (i : Nat) (op : String) : consumedAny ops all i (zeroEq op) = false := by
  cases h : consumedAny ops all i (zeroEq op) with
  | false => rfl
  | true =>
    obtain ⟨j, tgt, hc⟩ := consumedAny_exists ops all i _ h
    simp [zeroEq, consumed] at hc

theorem mapped_leafPred (ops : List Operand) (i : Nat) : LeafPred (mapped ops i) where
  bin := by
    intro n h
    cases n with
    | bin op l r =>
      cases l with
      | col q1 n1 =>
        cases r with
        | col q2 n2 => exact ⟨op, _, _, rfl, rfl, rfl⟩
        | _ => simp [mapped] at h
      | _ => simp [mapped] at h
    | _ => simp [mapped] at h
  zero := by intro op; simp [zeroEq, mapped]

/-! ### ON filters -/

theorem onConstP_shape {ops : List Operand} {j : Nat} {c : E} (h : onConstP ops j c = true) :
    ∃ l r, c = .bin "=" l r ∧
      ((tableOfE ops l = some j ∧ isConst r = true) ∨ (tableOfE ops r = some j ∧ isConst l = true)) := by
  cases c with
  | bin op l r =>
    simp only [onConstP, Bool.and_eq_true, decide_eq_true_eq] at h
    obtain ⟨h1, h2⟩ := h
    subst h1
    refine ⟨l, r, rfl, ?_⟩
    split at h2
    · rename_i ht; left; exact ⟨ht, h2⟩
    · simp only [Bool.and_eq_true, decide_eq_true_eq] at h2; right; exact h2
  | _ => simp [onConstP] at h

theorem tableOfE_some {ops : List Operand} {e : E} {j : Nat} (h : tableOfE ops e = some j) :
    ∃ q n, e = .col q n ∧ tableFor ops q = some j := by
  cases e <;> simp_all [tableOfE]

theorem isConst_quals {e : E} (h : isConst e = true) : qualsOf e = [] := by
  cases e <;> simp_all [isConst, qualsOf]

/-- an ON filter mentions only the fetched table -/
theorem onConstP_quals {ops : List Operand} {j : Nat} {c : E} (h : onConstP ops j c = true) :
    ∀ q ∈ qualsOf c, tableFor ops q = some j := by
  obtain ⟨l, r, e, hc⟩ := onConstP_shape h
  subst e
  intro q hq
  rcases hc with ⟨h1, h2⟩ | ⟨h1, h2⟩
  · obtain ⟨q', n, e, ht⟩ := tableOfE_some h1
    subst e
    simp only [qualsOf, isConst_quals h2, List.append_nil, List.mem_singleton] at hq
    rw [hq]; exact ht
  · obtain ⟨q', n, e, ht⟩ := tableOfE_some h1
    subst e
    simp only [qualsOf, isConst_quals h2, List.nil_append, List.mem_singleton] at hq
    rw [hq]; exact ht

/-- the data-condition loop only produces semi-join filters `col IN :Result` -/
theorem dataFilters_shape (ops : List Operand) : ∀ (dc : List (E × E)) (st : St),
    ∀ f ∈ (dataFilters ops dc st).2, isInFilter f = true := by
  intro dc
  induction dc with
  | nil => intro st f hf; simp [dataFilters] at hf
  | cons x xs ih =>
    intro st f hf
    obtain ⟨a1, a2⟩ := x
    simp only [dataFilters] at hf
    split at hf
    · exact ih _ f hf
    · simp only [List.mem_cons] at hf
      rcases hf with h | h
      · rw [h]; simp [isInFilter]
      · exact ih _ f h

/-- what `get_filters_from_join_conditions` returns: nothing for the right operand of a RIGHT / FULL join;
otherwise top-level conjuncts of ON of the form `own column = Constant`, and semi-join filters -/
theorem onFilters_shape (ops : List Operand) (j : Nat) (on : E) (st : St) (f : E)
    (hf : f ∈ (onFilters ops j (some on) st).2) :
    rightOrFull (ops.getD j default).jtype = false ∧
    ((f ∈ topConjuncts on ∧ onConstP ops j f = true) ∨ isInFilter f = true) := by
  simp only [onFilters] at hf
  split at hf
  · simp at hf
  · rename_i hr
    refine ⟨by simpa using hr, ?_⟩
    generalize hs : onScan ops j (topConjuncts on) = t at hf
    obtain ⟨bo, cf, dc⟩ := t
    have hcf : cf = List.filter (onConstP ops j) (topConjuncts on) := by
      simp only [onScan, Prod.mk.injEq] at hs
      exact hs.2.1.symm
    simp only at hf
    split at hf
    · simp only [List.mem_append] at hf
      rcases hf with h | h
      · left; rw [hcf, List.mem_filter] at h; exact h
      · right; exact dataFilters_shape ops _ st f h
    · simp at hf

/-! ### identifier rewriting -/

theorem lookupFrom_spec : ∀ (ops : List Operand) (q : List String) (k j : Nat), lookupFrom ops q k = some j →
    k ≤ j ∧ ∃ o, ops[j - k]? = some o ∧ (aliasesOf o).contains q = true := by
  intro ops
  induction ops with
  | nil => intro q k j h; simp [lookupFrom] at h
  | cons o rest ih =>
    intro q k j h
    simp only [lookupFrom] at h
    split at h
    · rename_i j' hj
      injection h with h; subst h
      obtain ⟨h1, o', h2, h3⟩ := ih q (k + 1) j' hj
      refine ⟨by omega, o', ?_, h3⟩
      have : j' - k = (j' - (k + 1)) + 1 := by omega
      rw [this, List.getElem?_cons_succ]; exact h2
    · split at h
      · rename_i hc
        injection h with h; subst h
        exact ⟨Nat.le_refl _, o, by simp, hc⟩
      · cases h

/-- the qualifier an identifier is rewritten to still denotes the same operand in `tables_idx` -/
theorem shortName_resolves (ops : List Operand) (q : List String) (i : Nat) (h : lookupFrom ops q 0 = some i) :
    lookupFrom ops (shortName ops i) 0 = some i := by
  obtain ⟨_, o, ho, hq⟩ := lookupFrom_spec ops q 0 i h
  have hgd : ops.getD i default = o := by simp [List.getD] at *; rw [ho]; rfl
  simp only [shortName, hgd]
  cases hf : (aliasesOf o).reverse.find? (fun a => lookupFrom ops a 0 = some i) with
  | some a =>
    have := List.find?_some hf
    simpa using this
  | none =>
    have := List.find?_eq_none.mp hf q (by simpa using hq)
    simp [h] at this

end MindsVerif.ModelJoin
