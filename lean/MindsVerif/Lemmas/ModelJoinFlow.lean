import MindsVerif.Model.ModelJoin
/-! Dataflow lemmas for T14.1 (C14): the bookkeeping of `PlanJoinTablesQuery` (step stack, MapReduce partition)
emits exactly one apply step per model operand, fed by the join of everything to its left. Core Lean only. -/
set_option linter.unusedSimpArgs false
namespace MindsVerif.ModelJoin

def isMr : Step → Bool
  | .mr .. => true
  | _ => false

/-- `steps'` extends `steps`: every step stays where it is, except that the MapReduceStep at the open index
`x` may get more sub-steps -/
structure Ext (x : Option Nat) (steps steps' : List Step) : Prop where
  keep : ∀ n s, steps[n]? = some s → (isMr s = false ∨ some n ≠ x) → steps'[n]? = some s
  grow : ∀ p v sz subs, x = some p → steps[p]? = some (.mr v sz subs) →
    ∃ subs2, steps'[p]? = some (.mr v sz (subs ++ subs2))

theorem Ext.refl (x : Option Nat) (steps : List Step) : Ext x steps steps :=
  ⟨fun _ _ h _ => h, fun _ _ _ subs _ h => ⟨[], by simpa using h⟩⟩

theorem Ext.trans {x : Option Nat} {a b c : List Step} (h1 : Ext x a b) (h2 : Ext x b c) : Ext x a c := by
  refine ⟨fun n s h hc => h2.keep n s (h1.keep n s h hc) hc, ?_⟩
  intro p v sz subs hx h
  obtain ⟨s2, hb⟩ := h1.grow p v sz subs hx h
  obtain ⟨s3, hc⟩ := h2.grow p v sz _ hx hb
  exact ⟨s2 ++ s3, by simpa [List.append_assoc] using hc⟩

theorem Ext_append (x : Option Nat) (steps l : List Step) : Ext x steps (steps ++ l) := by
  refine ⟨?_, ?_⟩
  · intro n s h _
    have hn : n < steps.length := by
      rcases Nat.lt_or_ge n steps.length with h1 | h1
      · exact h1
      · rw [List.getElem?_eq_none h1] at h; cases h
    rw [List.getElem?_append_left hn]; exact h
  · intro p v sz subs _ h
    have hn : p < steps.length := by
      rcases Nat.lt_or_ge p steps.length with h1 | h1
      · exact h1
      · rw [List.getElem?_eq_none h1] at h; cases h
    exact ⟨[], by rw [List.getElem?_append_left hn]; simpa using h⟩

theorem Ext_set (steps : List Step) (p : Nat) (v : Ref) (sz : String) (subs : List Step) (s : Step)
    (h : steps[p]? = some (.mr v sz subs)) :
    Ext (some p) steps (steps.set p (.mr v sz (subs ++ [s]))) := by
  have hp : p < steps.length := by
    rcases Nat.lt_or_ge p steps.length with h1 | h1
    · exact h1
    · rw [List.getElem?_eq_none h1] at h; cases h
  refine ⟨?_, ?_⟩
  · intro n s' hn hc
    by_cases hnp : p = n
    · subst hnp
      rw [h] at hn; injection hn with hn; subst hn
      rcases hc with hc | hc
      · simp [isMr] at hc
      · exact absurd rfl hc
    · rw [List.getElem?_set_ne hnp]; exact hn
  · intro p' v' sz' subs' hx h'
    injection hx with hx; subst hx
    rw [h] at h'; injection h' with h'; injection h' with h1 h2 h3; subst h1 h2 h3
    exact ⟨[s], by simp [List.getElem?_set_self hp]⟩

theorem stepAt_ext {x : Option Nat} {steps steps' : List Step} (he : Ext x steps steps') {r : Ref} {s : Step}
    (h : stepAt steps r = some s) (hs : isMr s = false) : stepAt steps' r = some s := by
  cases r with
  | top n => simp only [stepAt] at *; exact he.keep n s h (Or.inl hs)
  | sub p k =>
    simp only [stepAt] at h
    split at h
    · rename_i v sz subs hp
      by_cases hx : x = some p
      · obtain ⟨s2, hp'⟩ := he.grow p v sz subs hx hp
        simp only [stepAt, hp']
        have hk : k < subs.length := by
          rcases Nat.lt_or_ge k subs.length with h1 | h1
          · exact h1
          · rw [List.getElem?_eq_none h1] at h; cases h
        rw [List.getElem?_append_left hk]; exact h
      · have := he.keep p _ hp (Or.inr (fun e => hx e.symm))
        simp only [stepAt, this]; exact h
    · cases h
  | bad => simp [stepAt] at h

theorem HoldsX_ext {x : Option Nat} {steps steps' : List Step} (he : Ext x steps steps') {r : Ref} {S : List Nat}
    (h : HoldsX steps x r S) : HoldsX steps' x r S := by
  induction h with
  | fetch h => exact .fetch (stepAt_ext he h rfl)
  | subsel h => exact .subsel (stepAt_ext he h rfl)
  | apply h => exact .apply (stepAt_ext he h rfl)
  | join h _ _ ih1 ih2 => exact .join (stepAt_ext he h rfl) ih1 ih2
  | mr h hx hne _ ih => exact .mr (he.keep _ _ h (Or.inr hx)) hx hne ih

/-- closing the partition only allows more -/
theorem HoldsX_open {x : Option Nat} {steps : List Step} {r : Ref} {S : List Nat} (h : HoldsX steps x r S) :
    HoldsX steps none r S := by
  induction h with
  | fetch h => exact .fetch h
  | subsel h => exact .subsel h
  | apply h => exact .apply h
  | join h _ _ ih1 ih2 => exact .join h ih1 ih2
  | mr h _ hne _ ih => exact .mr h (by simp) hne ih

/-- opening a partition at a fresh index forbids nothing that was derivable -/
theorem HoldsX_restrict {steps : List Step} {r : Ref} {S : List Nat} (h : HoldsX steps none r S) (p : Nat)
    (hp : steps.length ≤ p) : HoldsX steps (some p) r S := by
  induction h with
  | fetch h => exact .fetch h
  | subsel h => exact .subsel h
  | apply h => exact .apply h
  | join h _ _ ih1 ih2 => exact .join h ih1 ih2
  | @mr q v sz subs S h _ hne _ ih =>
    refine .mr h ?_ hne ih
    intro e; injection e with e; subst e
    rw [List.getElem?_eq_none hp] at h; cases h

/-! ### apply steps of a plan -/

theorem appliesOf_append (a b : List Step) : appliesOf (a ++ b) = appliesOf a ++ appliesOf b := by
  simp [appliesOf, List.flatMap_append]

theorem appliesOf_set_perm : ∀ (steps : List Step) (p : Nat) (v : Ref) (sz : String) (subs : List Step) (s : Step),
    steps[p]? = some (.mr v sz subs) →
    (appliesOf (steps.set p (.mr v sz (subs ++ [s])))).Perm (appliesOf steps ++ (applyOf1 s).toList) := by
  intro steps
  induction steps with
  | nil => intro p v sz subs s h; simp at h
  | cons y ys ih =>
    intro p v sz subs s h
    cases p with
    | zero =>
      simp only [List.getElem?_cons_zero] at h
      injection h with h; subst h
      simp only [List.set_cons_zero, appliesOf, List.flatMap_cons, appliesOfStep, List.filterMap_append]
      have : List.filterMap applyOf1 [s] = (applyOf1 s).toList := by
        cases h : applyOf1 s <;> simp [List.filterMap, h]
      rw [this, List.append_assoc, List.append_assoc]
      exact List.Perm.append_left _ List.perm_append_comm
    | succ p =>
      simp only [List.getElem?_cons_succ] at h
      simp only [List.set_cons_succ, appliesOf, List.flatMap_cons, List.append_assoc]
      exact List.Perm.append_left _ (ih p v sz subs s h)

theorem appliesOf_snoc (steps : List Step) (s : Step) : appliesOf (steps ++ [s]) = appliesOf steps ++ appliesOfStep s := by
  simp [appliesOf]

/-! ### the invariant -/

def StackDen (P : Ref → List Nat → Prop) : List Ref → List (List Nat) → Prop
  | [], [] => True
  | r :: rs, S :: Ss => P r S ∧ StackDen P rs Ss
  | _, _ => False

theorem StackDen.mono {P Q : Ref → List Nat → Prop} (h : ∀ r S, P r S → Q r S) :
    ∀ (rs : List Ref) (Ss : List (List Nat)), StackDen P rs Ss → StackDen Q rs Ss := by
  intro rs
  induction rs with
  | nil => intro Ss hs; cases Ss <;> simp_all [StackDen]
  | cons r rs ih =>
    intro Ss hs
    cases Ss with
    | nil => simp [StackDen] at hs
    | cons S Ss => exact ⟨h _ _ hs.1, ih Ss hs.2⟩

def PartOK (st : St) : Prop := ∀ p, st.part = some p → ∃ v sz subs, st.steps[p]? = some (.mr v sz subs)

/-- while a partition is open the stack top is its last sub-step -/
def TopOK (st : St) : Prop :=
  ∀ p, st.part = some p → ∃ v sz subs rest, st.steps[p]? = some (.mr v sz subs) ∧ subs ≠ [] ∧
    st.stack = .sub p (subs.length - 1) :: rest

structure Inv0 (st : St) (a : Abs) : Prop where
  partOK : PartOK st
  stack : StackDen (HoldsX st.steps st.part) st.stack a.stk
  apps : ∀ ir ∈ appliesOf st.steps, ∃ S, (ir.1, S) ∈ a.log ∧ HoldsX st.steps st.part ir.2 S
  count : ((appliesOf st.steps).map (·.1)).Perm (a.log.map (·.1))

theorem close_inv {st : St} {a : Abs} (hi : Inv0 st a) (ht : TopOK st) :
    Inv0 (closePartition st) a ∧ (closePartition st).part = none := by
  cases hp : st.part with
  | none =>
    have : closePartition st = st := by simp [closePartition, hp]
    rw [this]; exact ⟨hi, hp⟩
  | some p =>
    obtain ⟨v, sz, subs, rest, hs, hne, hst⟩ := ht p hp
    have hc : closePartition st = { st with stack := .top p :: rest, part := none } := by
      simp [closePartition, hp, hst]
    rw [hc]
    refine ⟨⟨?_, ?_, ?_, hi.count⟩, rfl⟩
    · intro q hq; cases hq
    · have hs0 := hi.stack
      rw [hst] at hs0
      cases hk : a.stk with
      | nil => rw [hk] at hs0; simp [StackDen] at hs0
      | cons S Ss =>
        rw [hk] at hs0
        refine ⟨?_, StackDen.mono (fun r S h => HoldsX_open h) _ _ hs0.2⟩
        exact .mr hs (by simp) hne (HoldsX_open hs0.1)
    · intro ir hir
      obtain ⟨S, h1, h2⟩ := hi.apps ir hir
      exact ⟨S, h1, HoldsX_open h2⟩

theorem append_inv {st : St} {a : Abs} (hi : Inv0 st a) (s : Step) (ha : appliesOfStep s = []) :
    Inv0 { st with steps := st.steps ++ [s] } a := by
  have he : Ext st.part st.steps (st.steps ++ [s]) := Ext_append _ _ _
  refine ⟨?_, StackDen.mono (fun r S h => HoldsX_ext he h) _ _ hi.stack, ?_, ?_⟩
  · intro p hp
    obtain ⟨v, sz, subs, h⟩ := hi.partOK p hp
    obtain ⟨s2, h2⟩ := he.grow p v sz subs hp h
    exact ⟨v, sz, _, h2⟩
  · intro ir hir
    rw [appliesOf_snoc, ha, List.append_nil] at hir
    obtain ⟨S, h1, h2⟩ := hi.apps ir hir
    exact ⟨S, h1, HoldsX_ext he h2⟩
  · show ((appliesOf (st.steps ++ [s])).map (·.1)).Perm _
    rw [appliesOf_snoc, ha, List.append_nil]; exact hi.count

theorem stepAt_append_new (steps : List Step) (s : Step) : stepAt (steps ++ [s]) (.top steps.length) = some s := by
  simp [stepAt]

/-- a step that cannot be partitioned (fetch, sub-select, distinct): an open partition is closed first -/
theorem addPlanStep_plain {st : St} {a : Abs} (hi : Inv0 st a) (ht : TopOK st) (s : Step)
    (hs : isJoinOrApply s = false) (ha : appliesOfStep s = []) :
    Inv0 (addPlanStep st s none).1 a ∧ (addPlanStep st s none).1.part = none ∧
      stepAt (addPlanStep st s none).1.steps (addPlanStep st s none).2 = some s := by
  obtain ⟨hc, hn⟩ := close_inv hi ht
  cases hp : st.part with
  | none =>
    have e : addPlanStep st s none = ({ st with steps := st.steps ++ [s] }, .top st.steps.length) := by
      simp only [addPlanStep, hp]
    rw [e]; exact ⟨append_inv hi s ha, hp, stepAt_append_new _ _⟩
  | some p =>
    have e : addPlanStep st s none = ({ closePartition st with steps := (closePartition st).steps ++ [s] },
        .top (closePartition st).steps.length) := by
      simp only [addPlanStep, hp, hs, Bool.false_eq_true, if_false]
    rw [e]; exact ⟨append_inv hc s ha, hn, stepAt_append_new _ _⟩

/-- what adding a partitionable step (apply / join) does -/
structure Flow (st st' : St) (s : Step) (r : Ref) : Prop where
  partOK : PartOK st'
  mono : ∀ r0 S, HoldsX st.steps st.part r0 S → HoldsX st'.steps st'.part r0 S
  here : stepAt st'.steps r = some s
  apps : (appliesOf st'.steps).Perm (appliesOf st.steps ++ (applyOf1 s).toList)
  stack : st'.stack = st.stack
  top : ∀ p, st'.part = some p → ∃ v sz subs, st'.steps[p]? = some (.mr v sz subs) ∧ subs ≠ [] ∧
    r = .sub p (subs.length - 1)

theorem getD_of_getElem? {l : List Step} {p : Nat} {s : Step} (h : l[p]? = some s) : l.getD p default = s := by
  simp [List.getD, h]

theorem addToPart_flow {st : St} {p : Nat} (hp : st.part = some p) {v : Ref} {sz : String} {subs : List Step}
    (hs : st.steps[p]? = some (.mr v sz subs)) (s : Step) :
    Flow st (addToPart st p s).1 s (addToPart st p s).2 := by
  have e : addToPart st p s = ({ st with steps := st.steps.set p (.mr v sz (subs ++ [s])) }, .sub p subs.length) := by
    simp only [addToPart, getD_of_getElem? hs]
  have hlt : p < st.steps.length := by
    rcases Nat.lt_or_ge p st.steps.length with h1 | h1
    · exact h1
    · rw [List.getElem?_eq_none h1] at hs; cases hs
  have hnew : (st.steps.set p (.mr v sz (subs ++ [s])))[p]? = some (.mr v sz (subs ++ [s])) :=
    List.getElem?_set_self hlt
  have he := Ext_set st.steps p v sz subs s hs
  rw [e]
  refine ⟨?_, ?_, ?_, ?_, rfl, ?_⟩
  · intro q hq
    have : q = p := by simpa [hp] using hq.symm
    subst this
    exact ⟨v, sz, _, hnew⟩
  · intro r0 S h
    show HoldsX _ st.part r0 S
    rw [hp] at h ⊢
    exact HoldsX_ext he h
  · simp only [stepAt, hnew]
    simp
  · exact appliesOf_set_perm st.steps p v sz subs s hs
  · intro q hq
    have : q = p := by simpa [hp] using hq.symm
    subst this
    exact ⟨v, sz, _, hnew, by simp, by simp⟩

theorem applyOf1_toList (s : Step) (hm : isMr s = false) : (applyOf1 s).toList = appliesOfStep s := by
  cases s <;> simp_all [applyOf1, appliesOfStep, isMr]

/-- a partitionable step (apply / join) is added to the open partition, opens one (`partition_size`), or is a
plain plan step -/
theorem addPlanStep_flow {st : St} (hok : PartOK st) (s : Step) (hj : isJoinOrApply s = true) (hm : isMr s = false)
    (psz : Option String) : Flow st (addPlanStep st s psz).1 s (addPlanStep st s psz).2 := by
  cases hp : st.part with
  | some p =>
    obtain ⟨v, sz, subs, hs⟩ := hok p hp
    have e : addPlanStep st s psz = addToPart st p s := by simp only [addPlanStep, hp, hj, if_true]
    rw [e]; exact addToPart_flow hp hs s
  | none =>
    cases psz with
    | none =>
      have e : addPlanStep st s none = ({ st with steps := st.steps ++ [s] }, .top st.steps.length) := by
        simp only [addPlanStep, hp]
      rw [e]
      have he : Ext st.part st.steps (st.steps ++ [s]) := Ext_append _ _ _
      refine ⟨?_, fun r0 S h => HoldsX_ext he h, stepAt_append_new _ _, ?_, rfl, ?_⟩
      · intro q hq; rw [hp] at hq; cases hq
      · show (appliesOf (st.steps ++ [s])).Perm _
        rw [appliesOf_snoc, applyOf1_toList s hm]
      · intro q hq; rw [hp] at hq; cases hq
    | some sz =>
      let st1 : St := { st with steps := st.steps ++ [.mr (stepInput s) sz []], part := some st.steps.length }
      have e : addPlanStep st s (some sz) = addToPart st1 st.steps.length s := by
        simp only [addPlanStep, hp]; rfl
      have hs1 : st1.steps[st.steps.length]? = some (.mr (stepInput s) sz []) := by simp [st1]
      have hf := addToPart_flow (st := st1) rfl hs1 s
      rw [e]
      refine ⟨hf.partOK, ?_, hf.here, ?_, hf.stack, hf.top⟩
      · intro r0 S h
        apply hf.mono
        rw [hp] at h
        have h1 : HoldsX st.steps (some st.steps.length) r0 S := HoldsX_restrict h _ (Nat.le_refl _)
        exact HoldsX_ext (Ext_append _ _ _) h1
      · refine hf.apps.trans ?_
        show (appliesOf (st.steps ++ [Step.mr (stepInput s) sz []]) ++ _).Perm _
        rw [appliesOf_snoc]
        simp [appliesOfStep]

/-! ### items -/

theorem topOK_of_none {st : St} (h : st.part = none) : TopOK st := by
  intro p hp; rw [h] at hp; cases hp

theorem dataFilters_inv (ops : List Operand) : ∀ (dc : List (E × E)) (st : St) (a : Abs), Inv0 st a → TopOK st →
    Inv0 (dataFilters ops dc st).1 a ∧ TopOK (dataFilters ops dc st).1 := by
  intro dc
  induction dc with
  | nil => intro st a hi ht; exact ⟨hi, ht⟩
  | cons x xs ih =>
    intro st a hi ht
    obtain ⟨a1, a2⟩ := x
    simp only [dataFilters]
    split
    · exact ih st a hi ht
    · rename_i fr _
      obtain ⟨h1, h2, _⟩ := addPlanStep_plain hi ht (.distinct fr (colName a2)) rfl rfl
      exact ih _ a h1 (topOK_of_none h2)

theorem onFilters_inv (ops : List Operand) (j : Nat) (on : Option E) (st : St) (a : Abs) (hi : Inv0 st a) (ht : TopOK st) :
    Inv0 (onFilters ops j on st).1 a ∧ TopOK (onFilters ops j on st).1 := by
  cases on with
  | none => exact ⟨hi, ht⟩
  | some on =>
    simp only [onFilters]
    split
    · exact ⟨hi, ht⟩
    · generalize onScan ops j (topConjuncts on) = t
      obtain ⟨bo, cf, dc⟩ := t
      simp only
      split
      · exact dataFilters_inv ops dc st a hi ht
      · exact ⟨hi, ht⟩

/-- the invariants only look at the step list, the open partition and the stack -/
theorem Inv0_congr {st st' : St} {a : Abs} (hi : Inv0 st a) (h1 : st'.steps = st.steps) (h2 : st'.part = st.part)
    (h3 : st'.stack = st.stack) : Inv0 st' a := by
  refine ⟨?_, ?_, ?_, ?_⟩
  · intro p hp; rw [h2] at hp; rw [h1]; exact hi.partOK p hp
  · rw [h1, h2, h3]; exact hi.stack
  · rw [h1, h2]; exact hi.apps
  · rw [h1]; exact hi.count

theorem TopOK_congr {st st' : St} (ht : TopOK st) (h1 : st'.steps = st.steps) (h2 : st'.part = st.part)
    (h3 : st'.stack = st.stack) : TopOK st' := by
  intro p hp; rw [h2] at hp; rw [h1, h3]; exact ht p hp

/-- pushing the reference of a freshly added plain step that denotes `[j]` -/
theorem push_plain {st : St} {a : Abs} {s : Step} {j : Nat} (hi : Inv0 st a) (ht : TopOK st)
    (hs : isJoinOrApply s = false) (ha : appliesOfStep s = [])
    (hden : ∀ steps x r, stepAt steps r = some s → HoldsX steps x r [j]) (fetched : List (Nat × Ref)) :
    let r := addPlanStep st s none
    Inv0 { r.1 with stack := r.2 :: r.1.stack, fetched := fetched } { a with stk := [j] :: a.stk } ∧
    TopOK { r.1 with stack := r.2 :: r.1.stack, fetched := fetched } := by
  obtain ⟨h1, h2, h3⟩ := addPlanStep_plain hi ht s hs ha
  refine ⟨⟨h1.partOK, ⟨hden _ _ _ h3, h1.stack⟩, h1.apps, h1.count⟩, ?_⟩
  intro p hp
  have : (addPlanStep st s none).1.part = some p := hp
  rw [h2] at this; cases this

theorem addInner_inv (j : Nat) : ∀ (n : Nat) (st : St) (a : Abs), Inv0 st a → TopOK st →
    Inv0 (addInner st j n) a ∧ TopOK (addInner st j n) := by
  intro n
  induction n with
  | zero => intro st a hi ht; exact ⟨hi, ht⟩
  | succ n ih =>
    intro st a hi ht
    simp only [addInner]
    have hi1 : Inv0 { st with steps := st.steps ++ [.inner j] } a := append_inv hi _ rfl
    have ht1 : TopOK { st with steps := st.steps ++ [.inner j] } := by
      intro p hp
      obtain ⟨v, sz, subs, rest, h1, h2, h3⟩ := ht p hp
      have hlt : p < st.steps.length := by
        rcases Nat.lt_or_ge p st.steps.length with h5 | h5
        · exact h5
        · rw [List.getElem?_eq_none h5] at h1; cases h1
      refine ⟨v, sz, subs, rest, ?_, h2, h3⟩
      show (st.steps ++ [Step.inner j])[p]? = _
      rw [List.getElem?_append_left hlt]; exact h1
    exact ih _ a hi1 ht1

theorem push_plain' {st : St} {a : Abs} {s : Step} {j : Nat} (st' : St)
    (e1 : st'.steps = (addPlanStep st s none).1.steps) (e2 : st'.part = (addPlanStep st s none).1.part)
    (e3 : st'.stack = (addPlanStep st s none).2 :: (addPlanStep st s none).1.stack)
    (hi : Inv0 st a) (ht : TopOK st)
    (hs : isJoinOrApply s = false) (ha : appliesOfStep s = [])
    (hden : ∀ steps x r, stepAt steps r = some s → HoldsX steps x r [j]) :
    Inv0 st' { a with stk := [j] :: a.stk } ∧ TopOK st' := by
  have hp := push_plain hi ht hs ha hden []
  exact ⟨Inv0_congr hp.1 e1 e2 e3, TopOK_congr hp.2 e1 e2 e3⟩

theorem processItem_inv (ops : List Operand) (w : Option E) (u : Option (List (String × String)))
    (st st' : St) (a : Abs) (it : Item) (hi : Inv0 st a) (ht : TopOK st)
    (h : processItem ops w u st it = .ok st') :
    ∃ a', absItem ops a it = some a' ∧ Inv0 st' a' ∧ TopOK st' := by
  cases it with
  | operand i =>
    simp only [processItem] at h
    cases hk : (ops.getD i default).kind with
    | tab =>
      rw [hk] at h
      simp only [processTable] at h
      injection h with h
      subst h
      obtain ⟨h1, h2⟩ := onFilters_inv ops i (ops.getD i default).on st a hi ht
      refine ⟨{ a with stk := [i] :: a.stk }, by simp only [absItem, hk], ?_⟩
      exact push_plain' _ rfl rfl rfl h1 h2 rfl rfl (fun _ _ _ h => .fetch h)
    | sub =>
      rw [hk] at h
      simp only [processSubselect] at h
      split at h
      · cases h
      · injection h with h
        subst h
        refine ⟨{ a with stk := [i] :: a.stk }, by simp only [absItem, hk], ?_⟩
        obtain ⟨hi1, ht1⟩ := addInner_inv i (ops.getD i default).inner { st with useLimit := false } a
          (Inv0_congr hi rfl rfl rfl) (TopOK_congr ht rfl rfl rfl)
        exact push_plain' _ rfl rfl rfl hi1 ht1 rfl rfl (fun _ _ _ h => .subsel h)
    | mod =>
      rw [hk] at h
      simp only [processPredictor] at h
      split at h
      · cases h
      · rename_i top rest hst
        injection h with h
        subst h
        have hstk := hi.stack
        rw [hst] at hstk
        cases hks : a.stk with
        | nil => rw [hks] at hstk; simp [StackDen] at hstk
        | cons T Ts =>
          rw [hks] at hstk
          refine ⟨{ stk := [i] :: T :: Ts, log := a.log ++ [(i, T)] }, by simp only [absItem, hk, hks], ?_⟩
          generalize predictorArgs ops i w u = pa
          obtain ⟨row, ps, sz, cm⟩ := pa
          have hf := addPlanStep_flow hi.partOK (.apply i top row ps cm) rfl rfl sz
          simp only
          refine ⟨⟨hf.partOK, ⟨.apply hf.here, ?_⟩, ?_, ?_⟩, ?_⟩
          · rw [hf.stack, hst]
            exact ⟨hf.mono _ _ hstk.1, StackDen.mono hf.mono _ _ hstk.2⟩
          · intro ir hir
            have := (hf.apps.mem_iff).mp hir
            simp only [applyOf1, Option.toList, List.mem_append, List.mem_singleton] at this
            rcases this with h1 | h1
            · obtain ⟨S, h2, h3⟩ := hi.apps ir h1
              exact ⟨S, List.mem_append_left _ h2, hf.mono _ _ h3⟩
            · subst h1
              exact ⟨T, by simp, hf.mono _ _ hstk.1⟩
          · have := (hf.apps.map (·.1)).trans (by
              simp only [applyOf1, Option.toList, List.map_append, List.map_cons, List.map_nil]
              exact List.Perm.append_right _ hi.count)
            simpa using this
          · intro p hp
            obtain ⟨v, sz', subs, h1, h2, h3⟩ := hf.top p hp
            exact ⟨v, sz', subs, _, h1, h2, by rw [h3]⟩
  | join k =>
    simp only [processItem] at h
    split at h
    · rename_i r l rest hst
      injection h with h
      subst h
      have hstk := hi.stack
      rw [hst] at hstk
      cases hks : a.stk with
      | nil => rw [hks] at hstk; simp [StackDen] at hstk
      | cons B Ts =>
        rw [hks] at hstk
        cases Ts with
        | nil => simp [StackDen] at hstk
        | cons A Ts =>
          refine ⟨{ a with stk := (A ++ B) :: Ts }, by simp only [absItem, hks], ?_⟩
          have hok0 : PartOK { st with stack := rest } := hi.partOK
          have hf := addPlanStep_flow hok0 (.join l r (ops.getD k default).jtype (onAfter ops k)) rfl rfl none
          refine ⟨⟨hf.partOK, ⟨.join hf.here (hf.mono _ _ hstk.2.1) (hf.mono _ _ hstk.1), ?_⟩, ?_, ?_⟩, ?_⟩
          · rw [hf.stack]
            exact StackDen.mono hf.mono _ _ hstk.2.2
          · intro ir hir
            have := (hf.apps.mem_iff).mp hir
            simp only [applyOf1, Option.toList, List.append_nil] at this
            obtain ⟨S, h2, h3⟩ := hi.apps ir this
            exact ⟨S, h2, hf.mono _ _ h3⟩
          · have := hf.apps.map (·.1)
            simp only [applyOf1, Option.toList, List.append_nil] at this
            exact this.trans hi.count
          · intro p hp
            obtain ⟨v, sz', subs, h1, h2, h3⟩ := hf.top p hp
            exact ⟨v, sz', subs, _, h1, h2, by rw [h3]⟩
    · cases h

theorem runItems_inv (ops : List Operand) (w : Option E) (u : Option (List (String × String))) :
    ∀ (items : List Item) (st st' : St) (a : Abs), Inv0 st a → TopOK st → runItems ops w u items st = .ok st' →
    ∃ a', absRun ops items a = some a' ∧ Inv0 st' a' ∧ TopOK st' := by
  intro items
  induction items with
  | nil =>
    intro st st' a hi ht h
    simp only [runItems] at h
    injection h with h; subst h
    exact ⟨a, rfl, hi, ht⟩
  | cons it rest ih =>
    intro st st' a hi ht h
    simp only [runItems] at h
    cases h1 : processItem ops w u st it with
    | error e => rw [h1] at h; cases h
    | ok st1 =>
      rw [h1] at h
      obtain ⟨a1, ha1, hi1, ht1⟩ := processItem_inv ops w u st st1 a it hi ht h1
      obtain ⟨a', ha', hi', ht'⟩ := ih st1 st' a1 hi1 ht1 h
      exact ⟨a', by simp [absRun, ha1, ha'], hi', ht'⟩

/-! ### the abstract run of a join sequence -/

def modLog (ops : List Operand) (k n : Nat) : List (Nat × List Nat) :=
  ((List.range' k n).filter (isModAt ops)).map fun j => (j, List.range j)

theorem absRun_from (ops : List Operand) : ∀ (n k : Nat) (log : List (Nat × List Nat)),
    absRun ops (joinSeqFrom n k) ⟨[List.range k], log⟩ = some ⟨[List.range (k + n)], log ++ modLog ops k n⟩ := by
  intro n
  induction n with
  | zero => intro k log; simp [joinSeqFrom, absRun, modLog]
  | succ n ih =>
    intro k log
    simp only [joinSeqFrom, List.cons_append, List.nil_append, absRun, absItem]
    cases hk : (ops.getD k default).kind with
    | mod =>
      simp only [Option.bind_some]
      have : List.range k ++ [k] = List.range (k + 1) := by rw [List.range_succ]
      rw [this, ih (k + 1)]
      have hm : isModAt ops k = true := by unfold isModAt; rw [hk]; rfl
      simp [modLog, List.range'_succ, hm, Nat.add_assoc, Nat.add_comm 1 n]
    | tab =>
      simp only [Option.bind_some]
      have : List.range k ++ [k] = List.range (k + 1) := by rw [List.range_succ]
      rw [this, ih (k + 1)]
      have hm : isModAt ops k = false := by unfold isModAt; rw [hk]; rfl
      simp [modLog, List.range'_succ, hm, Nat.add_assoc, Nat.add_comm 1 n]
    | sub =>
      simp only [Option.bind_some]
      have : List.range k ++ [k] = List.range (k + 1) := by rw [List.range_succ]
      rw [this, ih (k + 1)]
      have hm : isModAt ops k = false := by unfold isModAt; rw [hk]; rfl
      simp [modLog, List.range'_succ, hm, Nat.add_assoc, Nat.add_comm 1 n]

theorem leftOf_pos (ops : List Operand) (j : Nat) (h : 0 < j) : leftOf ops j = List.range j := by
  simp only [leftOf]
  split
  · rename_i hc; omega
  · rfl

theorem modLog_left (ops : List Operand) (k n : Nat) (hk : 0 < k) :
    modLog ops k n = ((List.range' k n).filter (isModAt ops)).map fun j => (j, leftOf ops j) := by
  simp only [modLog]
  apply List.map_congr_left
  intro j hj
  have : k ≤ j := by
    have := (List.mem_filter.mp hj).1
    simp [List.mem_range'] at this
    omega
  rw [leftOf_pos ops j (by omega)]

/-- what the abstract run of the join sequence of `ops` produces: one log entry per model operand, with
everything to its left, and one stack entry -/
theorem absRun_joinSeq (ops : List Operand) (a : Abs) (h : absRun ops (joinSeq ops) {} = some a) :
    a.log = (modelIdx ops).map (fun i => (i, leftOf ops i)) ∧ (ops ≠ [] → ∃ S, a.stk = [S]) := by
  match ops, h with
  | [], h =>
    simp only [joinSeq, absRun] at h
    injection h with h; subst h
    exact ⟨by simp [modelIdx], fun h => absurd rfl h⟩
  | [x], h =>
    simp only [joinSeq, joinSeqFrom, List.length_singleton, Nat.sub_self, absRun, absItem] at h
    cases hk : ([x].getD 0 default).kind <;> rw [hk] at h <;> simp at h
    all_goals (
      subst h
      have hk' : x.kind = _ := hk
      refine ⟨?_, fun _ => ⟨_, rfl⟩⟩
      simp [modelIdx, isModAt, hk'])
  | [x, y], h =>
    have k0 : ([x, y].getD 0 default).kind = x.kind := rfl
    have k1 : ([x, y].getD 1 default).kind = y.kind := rfl
    simp only [joinSeq] at h
    cases hx : x.kind <;> cases hy : y.kind <;>
      simp [hx, absRun, absItem, k0, k1, hy] at h <;>
      (subst h; refine ⟨?_, fun _ => ⟨_, rfl⟩⟩;
       simp [modelIdx, isModAt, k0, k1, hx, hy, List.range'_succ, leftOf])
  | x :: y :: z :: rest, h =>
    simp only [joinSeq, absRun, absItem] at h
    have k0 : ((x :: y :: z :: rest).getD 0 default).kind = x.kind := rfl
    rw [k0] at h
    have hx : x.kind ≠ .mod := by
      intro hx; rw [hx] at h; simp at h
    have hstep : absItem (x :: y :: z :: rest) {} (.operand 0) = some ⟨[List.range 1], []⟩ := by
      simp only [absItem, k0]
      cases hxx : x.kind <;> simp_all [List.range_succ]
    have h' : absRun (x :: y :: z :: rest) (joinSeqFrom ((x :: y :: z :: rest).length - 1) 1) ⟨[List.range 1], []⟩ = some a := by
      have : absItem (x :: y :: z :: rest) {} (.operand 0) = some ⟨[List.range 1], []⟩ := hstep
      simp only [absItem, k0] at this
      rw [this] at h
      simpa using h
    rw [absRun_from] at h'
    injection h' with h'
    subst h'
    refine ⟨?_, fun _ => ⟨_, rfl⟩⟩
    simp only [List.nil_append]
    rw [modLog_left _ _ _ (by omega)]
    have hm0 : isModAt (x :: y :: z :: rest) 0 = false := by
      simp only [isModAt, k0]; simpa using hx
    have : modelIdx (x :: y :: z :: rest) =
        (List.range' 1 ((x :: y :: z :: rest).length - 1)).filter (isModAt (x :: y :: z :: rest)) := by
      simp only [modelIdx, List.length_cons]
      rw [show rest.length + 1 + 1 + 1 = (rest.length + 1 + 1) + 1 from rfl, List.range'_succ]
      simp [hm0]
    rw [this]

/-! ### the plan -/

theorem appliesOf_nested (l : List Nat) : appliesOf (l.map Step.nested) = [] := by
  induction l with
  | nil => rfl
  | cons x xs ih =>
    simp only [List.map_cons, appliesOf, List.flatMap_cons, appliesOfStep, List.nil_append]
    exact ih

theorem inv_init (st : St) (hp : st.part = none) (hs : st.stack = []) (h : appliesOf st.steps = []) :
    Inv0 st {} ∧ TopOK st := by
  refine ⟨⟨?_, ?_, ?_, ?_⟩, ?_⟩
  · intro p hp'; rw [hp] at hp'; cases hp'
  · rw [hs]; trivial
  · intro ir hir; rw [h] at hir; cases hir
  · rw [h]; exact List.Perm.refl _
  · intro p hp'; rw [hp] at hp'; cases hp'

/-- **global T14.1** for the modelled planner: in every plan produced, the apply steps (also those inside
MapReduceSteps) are — up to order — exactly the model operands, one each, and the input of the apply step of
operand `i` is built from exactly the operands to its left (`leftOf`), joined in order. -/
theorem planWith_flow (ops : List Operand) (w : Option E) (u : Option (List (String × String))) (k : Nat)
    (info : QInfo) (steps : List Step) (h : planWith ops w u k info = .ok steps) :
    ((appliesOf steps).map (·.1)).Perm (modelIdx ops) ∧
    ∀ ir ∈ appliesOf steps, isModAt ops ir.1 = true ∧ Holds steps ir.2 (leftOf ops ir.1) := by
  simp only [planWith] at h
  by_cases hcond : whereFails ops w = true
  · rw [if_pos hcond] at h; cases h
  · rw [if_neg hcond] at h
    cases hr : runItems ops w u (joinSeq ops)
        { steps := (List.range k).map .nested, q := info, useLimit := checkUseLimit ops info } with
    | error e => rw [hr] at h; cases h
    | ok st =>
      rw [hr] at h
      obtain ⟨hi0, ht0⟩ := inv_init { steps := (List.range k).map .nested, q := info, useLimit := checkUseLimit ops info }
        rfl rfl (appliesOf_nested (List.range k))
      obtain ⟨a, ha, hi, ht⟩ := runItems_inv ops w u _ _ st {} hi0 ht0 hr
      obtain ⟨hlog, _⟩ := absRun_joinSeq ops a ha
      obtain ⟨hc, hn⟩ := close_inv hi ht
      have key : ∀ extra : List Step, appliesOf extra = [] →
          ((appliesOf ((closePartition st).steps ++ extra)).map (·.1)).Perm (modelIdx ops) ∧
          ∀ ir ∈ appliesOf ((closePartition st).steps ++ extra),
            isModAt ops ir.1 = true ∧ Holds ((closePartition st).steps ++ extra) ir.2 (leftOf ops ir.1) := by
        intro extra hex
        rw [appliesOf_append, hex, List.append_nil]
        refine ⟨?_, ?_⟩
        · have := hc.count
          rw [hlog, List.map_map] at this
          simpa [Function.comp_def] using this
        · intro ir hir
          obtain ⟨S, h1, h2⟩ := hc.apps ir hir
          rw [hlog, List.mem_map] at h1
          obtain ⟨i, hi1, hi2⟩ := h1
          injection hi2 with e1 e2
          subst e1
          refine ⟨(List.mem_filter.mp hi1).2, ?_⟩
          rw [e2]
          rw [hn] at h2
          exact HoldsX_ext (Ext_append none _ extra) h2
      simp only at h
      cases hs : (closePartition st).stack with
      | nil => rw [hs] at h; cases h
      | cons top rest =>
        rw [hs] at h
        simp only at h
        injection h with h; subst h
        apply key
        simp only [finalSteps]
        split <;> (split <;> rfl)

theorem modelIdx_nodup (ops : List Operand) : (modelIdx ops).Nodup :=
  List.Nodup.sublist List.filter_sublist (List.nodup_range' 1)

/-- `_check_identifiers` only rewrites the ON conditions: kinds, names, aliases, join types stay -/
theorem rewriteOn_kinds (all : List Operand) : ∀ (l l' : List Operand), rewriteOn all l = some l' →
    l'.map (·.kind) = l.map (·.kind) := by
  intro l
  induction l with
  | nil => intro l' h; simp [rewriteOn] at h; subst h; rfl
  | cons o rest ih =>
    intro l' h
    simp only [rewriteOn] at h
    split at h
    · rename_i on' rest' _ hr
      injection h with h; subst h
      simp [ih _ hr]
    · cases h

theorem plan_planWith (q : Query) (steps : List Step) (h : plan q = .ok steps) :
    ∃ ops w, rewriteOn q.ops q.ops = some ops ∧ planWith ops w q.using? (numberWhere q.wh).2 q.info = .ok steps := by
  simp only [plan] at h
  split at h
  · rename_i ops w h1 _
    split at h
    · exact ⟨ops, w, h1, h⟩
    · cases h
  · cases h

end MindsVerif.ModelJoin
