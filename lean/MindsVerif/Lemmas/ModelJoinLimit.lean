import MindsVerif.Lemmas.ModelJoinFlow
/-! LIMIT / OFFSET / ORDER BY pushdown in table–model joins (C14): a fetch carries them only when the query is a
plain row query (`plainRow`: no HAVING, no GROUP BY, no DISTINCT, no aggregate anywhere in the select list). -/
namespace MindsVerif.ModelJoin

/-- a step is fine w.r.t. `P`: a fetch with LIMIT / OFFSET / ORDER BY needs `P`; a MapReduceStep holds only
join / apply steps -/
def okStep (P : Prop) : Step → Prop
  | .fetch _ _ l => l.any = true → P
  | .mr _ _ subs => ∀ x ∈ subs, isJoinOrApply x = true
  | _ => True

structure LInv (P : Prop) (st : St) : Prop where
  use : st.useLimit = true → P
  steps : ∀ s ∈ st.steps, okStep P s

theorem linv_append {P : Prop} {st : St} (h : LInv P st) (s : Step) (hs : okStep P s) :
    LInv P { st with steps := st.steps ++ [s] } := by
  refine ⟨h.use, ?_⟩
  intro x hx
  rcases List.mem_append.mp hx with h1 | h1
  · exact h.steps x h1
  · simp only [List.mem_singleton] at h1; rw [h1]; exact hs

theorem closePartition_steps (st : St) : (closePartition st).steps = st.steps ∧
    (closePartition st).useLimit = st.useLimit := by
  simp only [closePartition]
  split
  · split <;> exact ⟨rfl, rfl⟩
  · exact ⟨rfl, rfl⟩

theorem linv_close {P : Prop} {st : St} (h : LInv P st) : LInv P (closePartition st) := by
  obtain ⟨h1, h2⟩ := closePartition_steps st
  exact ⟨by rw [h2]; exact h.use, by rw [h1]; exact h.steps⟩

theorem linv_addToPart {P : Prop} {st : St} (h : LInv P st) (p : Nat) (s : Step) (hs : isJoinOrApply s = true) :
    LInv P (addToPart st p s).1 := by
  simp only [ModelJoin.addToPart]
  split
  · rename_i v sz subs hg
    refine ⟨h.use, ?_⟩
    intro x hx
    rcases List.mem_or_eq_of_mem_set hx with h1 | h1
    · exact h.steps x h1
    · rw [h1]
      intro y hy
      rcases List.mem_append.mp hy with h2 | h2
      · have hm : Step.mr v sz subs ∈ st.steps := by
          by_cases hp : p < st.steps.length
          · have : st.steps.getD p default = st.steps[p] := by simp [List.getD, hp]
            rw [this] at hg; rw [← hg]; exact List.getElem_mem hp
          · have : st.steps.getD p default = default := by
              simp [List.getD, List.getElem?_eq_none (Nat.le_of_not_lt hp)]
            rw [this] at hg; cases hg
        exact h.steps _ hm y h2
      · simp only [List.mem_singleton] at h2; rw [h2]; exact hs
  · exact h

theorem okStep_joinOrApply {P : Prop} {s : Step} (hs : isJoinOrApply s = true) : okStep P s := by
  cases s <;> simp_all [isJoinOrApply, okStep]

/-- `add_plan_step` keeps the invariant and never touches `use_limit` -/
theorem linv_addPlanStep {P : Prop} {st : St} (h : LInv P st) (s : Step) (psz : Option String)
    (hs : okStep P s) (hp : psz.isSome = true → isJoinOrApply s = true) :
    LInv P (addPlanStep st s psz).1 ∧ (addPlanStep st s psz).1.useLimit = st.useLimit := by
  simp only [ModelJoin.addPlanStep]
  split
  · split
    · rename_i hj
      refine ⟨linv_addToPart h _ s hj, ?_⟩
      simp only [ModelJoin.addToPart]; split <;> rfl
    · exact ⟨linv_append (linv_close h) s hs, (closePartition_steps st).2⟩
  · split
    · rename_i sz
      have hj := hp rfl
      have h1 : LInv P { st with steps := st.steps ++ [.mr (stepInput s) sz []], part := some st.steps.length } :=
        ⟨h.use, (linv_append h (.mr (stepInput s) sz []) (by intro x hx; cases hx)).steps⟩
      refine ⟨linv_addToPart h1 _ s hj, ?_⟩
      simp only [ModelJoin.addToPart]; split <;> rfl
    · exact ⟨linv_append h s hs, rfl⟩

theorem linv_dataFilters {P : Prop} (ops : List Operand) : ∀ (dc : List (E × E)) (st : St), LInv P st →
    LInv P (dataFilters ops dc st).1 ∧ (dataFilters ops dc st).1.useLimit = st.useLimit := by
  intro dc
  induction dc with
  | nil => intro st h; exact ⟨h, rfl⟩
  | cons x xs ih =>
    intro st h
    obtain ⟨a1, a2⟩ := x
    simp only [ModelJoin.dataFilters]
    split
    · exact ih st h
    · rename_i fr _
      obtain ⟨h1, h2⟩ := linv_addPlanStep h (.distinct fr (colName a2)) none trivial (by intro h; cases h)
      obtain ⟨h3, h4⟩ := ih _ h1
      exact ⟨h3, h4.trans h2⟩

theorem linv_onFilters {P : Prop} (ops : List Operand) (j : Nat) (on : Option E) (st : St) (h : LInv P st) :
    LInv P (onFilters ops j on st).1 ∧ (onFilters ops j on st).1.useLimit = st.useLimit := by
  cases on with
  | none => exact ⟨h, rfl⟩
  | some on =>
    simp only [ModelJoin.onFilters]
    split
    · exact ⟨h, rfl⟩
    · generalize onScan ops j (topConjuncts on) = t
      obtain ⟨bo, cf, dc⟩ := t
      simp only
      split
      · exact linv_dataFilters ops dc st h
      · exact ⟨h, rfl⟩

theorem fetchLim_any (ops : List Operand) (j : Nat) (w : Option E) (st : St) (h : (fetchLim ops j w st).any = true) :
    st.useLimit = true := by
  simp only [fetchLim] at h
  split at h
  · rename_i hc
    simp only [Bool.and_eq_true] at hc
    exact hc.1
  · simp [FetchLim.any] at h

theorem linv_addInner {P : Prop} (j : Nat) : ∀ (n : Nat) (st : St), LInv P st → LInv P (addInner st j n) := by
  intro n
  induction n with
  | zero => intro st h; exact h
  | succ n ih => intro st h; exact ih _ (linv_append h (.inner j) trivial)

theorem linv_processItem {P : Prop} (ops : List Operand) (w : Option E) (u : Option (List (String × String)))
    (st st' : St) (it : Item) (h : LInv P st) (hr : processItem ops w u st it = .ok st') : LInv P st' := by
  cases it with
  | operand i =>
    simp only [ModelJoin.processItem] at hr
    cases hk : (ops.getD i default).kind with
    | tab =>
      rw [hk] at hr
      simp only [processTable] at hr
      injection hr with hr
      subst hr
      obtain ⟨h1, h2⟩ := linv_onFilters ops i (ops.getD i default).on st h
      have hok : okStep P (.fetch i
          ((andAll (whereFilters ops i w ++ (onFilters ops i (ops.getD i default).on st).2)).map
            (cutDb (ops.getD i default).integ (match (ops.getD i default).alias with
              | some a => [lower (a.getLast?.getD "")]
              | none => [lower ((ops.getD i default).parts.getLast?.getD "")])))
          (fetchLim ops i w (onFilters ops i (ops.getD i default).on st).1)) :=
        fun ha => h1.use (fetchLim_any ops i w _ ha)
      obtain ⟨h3, _⟩ := linv_addPlanStep h1 _ none hok (by intro h; cases h)
      exact ⟨(by intro hc; cases hc), h3.steps⟩
    | sub =>
      rw [hk] at hr
      simp only [processSubselect] at hr
      split at hr
      · cases hr
      · injection hr with hr
        subst hr
        have h0 : LInv P { st with useLimit := false } := ⟨(by intro hc; cases hc), h.steps⟩
        have h1 := linv_addInner (P := P) i (ops.getD i default).inner _ h0
        obtain ⟨h3, h4⟩ := linv_addPlanStep h1 (.subsel i (.top ((addInner { st with useLimit := false } i
          (ops.getD i default).inner).steps.length - 1)) (andAll (whereFilters ops i w))) none trivial (by intro h; cases h)
        exact ⟨fun hc => h3.use hc, h3.steps⟩
    | mod =>
      rw [hk] at hr
      simp only [processPredictor] at hr
      split at hr
      · cases hr
      · rename_i top rest hst
        injection hr with hr
        subst hr
        generalize predictorArgs ops i w u = pa
        obtain ⟨row, ps, sz, cm⟩ := pa
        obtain ⟨h3, h4⟩ := linv_addPlanStep h (.apply i top row ps cm) sz (okStep_joinOrApply rfl) (fun _ => rfl)
        exact ⟨fun hc => h3.use hc, h3.steps⟩
  | join k =>
    simp only [ModelJoin.processItem] at hr
    split at hr
    · rename_i r l rest hst
      injection hr with hr
      subst hr
      have h0 : LInv P { st with stack := rest } := ⟨h.use, h.steps⟩
      obtain ⟨h3, h4⟩ := linv_addPlanStep h0 (.join l r (ops.getD k default).jtype (onAfter ops k)) none
        (okStep_joinOrApply rfl) (by intro h; cases h)
      exact ⟨fun hc => h3.use hc, h3.steps⟩
    · cases hr

theorem linv_runItems {P : Prop} (ops : List Operand) (w : Option E) (u : Option (List (String × String))) :
    ∀ (items : List Item) (st st' : St), LInv P st → runItems ops w u items st = .ok st' → LInv P st' := by
  intro items
  induction items with
  | nil => intro st st' h hr; simp only [ModelJoin.runItems] at hr; injection hr with hr; subst hr; exact h
  | cons it rest ih =>
    intro st st' h hr
    simp only [ModelJoin.runItems] at hr
    cases h1 : ModelJoin.processItem ops w u st it with
    | error e => rw [h1] at hr; cases hr
    | ok st1 => rw [h1] at hr; exact ih st1 st' (linv_processItem ops w u st st1 it h h1) hr

theorem checkUseLimit_plain (ops : List Operand) (info : QInfo) (h : checkUseLimit ops info = true) :
    plainRow info = true := by
  simp only [checkUseLimit] at h
  split at h
  · assumption
  · cases h

/-- **a fetch carries LIMIT / OFFSET / ORDER BY only in a plain row query** -/
theorem planWith_limit (ops : List Operand) (w : Option E) (u : Option (List (String × String))) (k : Nat)
    (info : QInfo) (steps : List Step) (h : planWith ops w u k info = .ok steps) :
    ∀ j wh l, Step.fetch j wh l ∈ steps → l.any = true → plainRow info = true := by
  simp only [planWith] at h
  by_cases hcond : whereFails ops w = true
  · rw [if_pos hcond] at h; cases h
  · rw [if_neg hcond] at h
    cases hr : ModelJoin.runItems ops w u (joinSeq ops)
        { steps := (List.range k).map .nested, q := info, useLimit := checkUseLimit ops info } with
    | error e => rw [hr] at h; cases h
    | ok st =>
      rw [hr] at h
      have h0 : LInv (plainRow info = true)
          { steps := (List.range k).map .nested, q := info, useLimit := checkUseLimit ops info } := by
        refine ⟨checkUseLimit_plain ops info, ?_⟩
        intro s hs
        simp only [List.mem_map] at hs
        obtain ⟨n, _, e⟩ := hs
        rw [← e]; trivial
      have h1 := linv_close (linv_runItems ops w u _ _ st h0 hr)
      simp only at h
      cases hs : (closePartition st).stack with
      | nil => rw [hs] at h; cases h
      | cons top rest =>
        rw [hs] at h
        simp only at h
        injection h with h; subst h
        intro j wh l hm hl
        rcases List.mem_append.mp hm with h2 | h2
        · exact h1.steps _ h2 hl
        · simp only [finalSteps] at h2
          split at h2 <;> split at h2 <;> simp at h2

end MindsVerif.ModelJoin
