import MindsVerif.Lemmas.OPMRoundTrip
/-! Whatever the operator-precedence machine returns is canonical, hence printing a parsed
expression and parsing it again gives the same tree (print ∘ parse round trip, for ALL token lists). -/
namespace MindsVerif.OPM

/-- side conditions on the table under which the machine's output is canonical -/
def tableOK (P : Table) : Bool := P.andTok != P.btwTok

/-! ### the machine invariant -/

/-- left-spine operators of the value that reducing the frame `f` builds (whatever its last
operand is) -/
def frameLops (P : Table) : Frame → List Nat
  | .opr a l => a :: leftOps P l
  | .pre _ => []
  | .lpar => []
  | .btw x => P.btwTok :: leftOps P x
  | .band x _ => P.btwTok :: leftOps P x

/-- the operands stored in a frame are canonical and were reduced by the frame's operator(s) -/
def frameOK (P : Table) : Frame → Prop
  | .opr o l => o ≠ P.btwTok ∧ canon P l = true ∧ allReduce P (rightProds P l) o = true
  | .pre o => P.isPre o = true
  | .lpar => True
  | .btw x => canon P x = true ∧ allReduce P (rightProds P x) P.btwTok = true
  | .band x y =>
    canon P x = true ∧ canon P y = true ∧ allReduce P (rightProds P x) P.btwTok = true ∧
      allReduce P (rightProds P y) P.andTok = true ∧ P.andTok ∉ leftOps P y

/-- `as` = left-spine operators of the operand being built on top of the stack: every frame is
well formed and has shifted every left-spine operator of the operand built on top of it -/
def framesOK (P : Table) : List Frame → List Nat → Prop
  | [], _ => True
  | f :: fs, as => topShifts P (f :: fs) as ∧ frameOK P f ∧ framesOK P fs (frameLops P f)

/-- the top frame shifts the lookahead `a` (this is where `reduceWhile` stops) -/
def shiftsTop (P : Table) : List Frame → Nat → Prop
  | [], _ => True
  | .lpar :: _, _ => True
  | .btw _ :: _, _ => True
  | .opr o _ :: _, a => resolve (P.binProd o) (P.tokLevel a) = .shift
  | .pre o :: _, a => resolve (P.preProd o) (P.tokLevel a) = .shift
  | .band _ _ :: _, a => resolve P.btwProd (P.tokLevel a) = .shift

/-- invariant of the machine state -/
def Inv (P : Table) (fs : List Frame) : Option Expr → Prop
  | none => framesOK P fs []
  | some r => framesOK P fs (leftOps P r) ∧ canon P r = true ∧ rightProds P r = []

theorem allShift_nil (P : Table) (p : Prec) : allShift P p [] = true := rfl

theorem allReduce_nil (P : Table) (a : Nat) : allReduce P [] a = true := rfl

/-! ### single reductions preserve the invariant -/

theorem opr_step (P : Table) (o : Nat) (l r : Expr) (fs : List Frame)
    (h : framesOK P (.opr o l :: fs) (leftOps P r)) (hr : canon P r = true) :
    canon P (.bin o l r) = true ∧ framesOK P fs (leftOps P (.bin o l r)) := by
  obtain ⟨hs, ⟨hob, hcl, hred⟩, hfs⟩ := h
  refine ⟨?_, hfs⟩
  simp only [canon, Bool.and_eq_true, bne_iff_ne, ne_eq]
  exact ⟨⟨⟨⟨hob, hcl⟩, hr⟩, hred⟩, hs⟩

theorem pre_step (P : Table) (o : Nat) (r : Expr) (fs : List Frame)
    (h : framesOK P (.pre o :: fs) (leftOps P r)) (hr : canon P r = true) :
    canon P (.pre o r) = true ∧ framesOK P fs (leftOps P (.pre o r)) := by
  obtain ⟨hs, hp, hfs⟩ := h
  refine ⟨?_, hfs⟩
  simp only [canon, Bool.and_eq_true]
  exact ⟨⟨hp, hr⟩, hs⟩

theorem band_step (P : Table) (hP : tableOK P = true) (x y r : Expr) (fs : List Frame)
    (h : framesOK P (.band x y :: fs) (leftOps P r)) (hr : canon P r = true) :
    canon P (.btw x y r) = true ∧ framesOK P fs (leftOps P (.btw x y r)) := by
  obtain ⟨hs, ⟨hcx, hcy, hrx, hry, hand⟩, hfs⟩ := h
  refine ⟨?_, hfs⟩
  simp only [canon, Bool.and_eq_true, Bool.not_eq_true', List.contains_eq_mem,
    decide_eq_false_iff_not]
  exact ⟨⟨⟨⟨⟨⟨⟨hcx, hcy⟩, hr⟩, hrx⟩, hry⟩, hand⟩, hs⟩, hP⟩

/-! ### `finish`, `closeParen`, `reduceWhile`, `shiftOp` -/

theorem finish_canon (P : Table) (hP : tableOK P = true) :
    ∀ (fs : List Frame) (r e : Expr), framesOK P fs (leftOps P r) → canon P r = true →
      finish fs r = some e → canon P e = true := by
  intro fs
  induction fs with
  | nil =>
    intro r e _ hr h
    simp only [finish, Option.some.injEq] at h
    exact h ▸ hr
  | cons f fs ih =>
    intro r e hf hr h
    cases f with
    | opr o l =>
      rw [finish] at h
      have := opr_step P o l r fs hf hr
      exact ih _ _ this.2 this.1 h
    | pre o =>
      rw [finish] at h
      have := pre_step P o r fs hf hr
      exact ih _ _ this.2 this.1 h
    | band x y =>
      rw [finish] at h
      have := band_step P hP x y r fs hf hr
      exact ih _ _ this.2 this.1 h
    | btw x => simp [finish] at h
    | lpar => simp [finish] at h

theorem closeParen_inv (P : Table) (hP : tableOK P = true) :
    ∀ (fs : List Frame) (r : Expr) (fs' : List Frame) (r' : Expr),
      framesOK P fs (leftOps P r) → canon P r = true →
      closeParen fs r = some (fs', r') → Inv P fs' (some r') := by
  intro fs
  induction fs with
  | nil => intro r fs' r' _ _ h; simp [closeParen] at h
  | cons f fs ih =>
    intro r fs' r' hf hr h
    cases f with
    | opr o l =>
      rw [closeParen] at h
      have := opr_step P o l r fs hf hr
      exact ih _ _ _ this.2 this.1 h
    | pre o =>
      rw [closeParen] at h
      have := pre_step P o r fs hf hr
      exact ih _ _ _ this.2 this.1 h
    | band x y =>
      rw [closeParen] at h
      have := band_step P hP x y r fs hf hr
      exact ih _ _ _ this.2 this.1 h
    | btw x => simp [closeParen] at h
    | lpar =>
      simp only [closeParen, Option.some.injEq, Prod.mk.injEq] at h
      obtain ⟨rfl, rfl⟩ := h
      exact ⟨hf.2.2, by simpa [canon] using hr, rfl⟩

theorem reduceWhile_inv (P : Table) (hP : tableOK P = true) (a : Nat) :
    ∀ (fs : List Frame) (r : Expr) (fs' : List Frame) (r' : Expr),
      framesOK P fs (leftOps P r) → canon P r = true → allReduce P (rightProds P r) a = true →
      reduceWhile P a fs r = some (fs', r') →
        framesOK P fs' (leftOps P r') ∧ canon P r' = true ∧
          allReduce P (rightProds P r') a = true ∧ shiftsTop P fs' a := by
  intro fs
  induction fs with
  | nil =>
    intro r fs' r' hf hr ha h
    simp only [reduceWhile, Option.some.injEq, Prod.mk.injEq] at h
    obtain ⟨rfl, rfl⟩ := h
    exact ⟨hf, hr, ha, trivial⟩
  | cons f fs ih =>
    intro r fs' r' hf hr ha h
    cases f with
    | opr o l =>
      rw [reduceWhile] at h
      cases hres : resolve (P.binProd o) (P.tokLevel a) with
      | reduce =>
        rw [hres] at h
        have := opr_step P o l r fs hf hr
        refine ih _ _ _ this.2 this.1 ?_ h
        rw [rightProds, allReduce_cons]
        exact ⟨hres, ha⟩
      | shift =>
        rw [hres] at h
        simp only [Option.some.injEq, Prod.mk.injEq] at h
        obtain ⟨rfl, rfl⟩ := h
        exact ⟨hf, hr, ha, hres⟩
      | error => rw [hres] at h; simp at h
    | pre o =>
      rw [reduceWhile] at h
      cases hres : resolve (P.preProd o) (P.tokLevel a) with
      | reduce =>
        rw [hres] at h
        have := pre_step P o r fs hf hr
        refine ih _ _ _ this.2 this.1 ?_ h
        rw [rightProds, allReduce_cons]
        exact ⟨hres, ha⟩
      | shift =>
        rw [hres] at h
        simp only [Option.some.injEq, Prod.mk.injEq] at h
        obtain ⟨rfl, rfl⟩ := h
        exact ⟨hf, hr, ha, hres⟩
      | error => rw [hres] at h; simp at h
    | band x y =>
      rw [reduceWhile] at h
      cases hres : resolve P.btwProd (P.tokLevel a) with
      | reduce =>
        rw [hres] at h
        have := band_step P hP x y r fs hf hr
        refine ih _ _ _ this.2 this.1 ?_ h
        rw [rightProds, allReduce_cons]
        exact ⟨hres, ha⟩
      | shift =>
        rw [hres] at h
        simp only [Option.some.injEq, Prod.mk.injEq] at h
        obtain ⟨rfl, rfl⟩ := h
        exact ⟨hf, hr, ha, hres⟩
      | error => rw [hres] at h; simp at h
    | btw x =>
      simp only [reduceWhile, Option.some.injEq, Prod.mk.injEq] at h
      obtain ⟨rfl, rfl⟩ := h
      exact ⟨hf, hr, ha, trivial⟩
    | lpar =>
      simp only [reduceWhile, Option.some.injEq, Prod.mk.injEq] at h
      obtain ⟨rfl, rfl⟩ := h
      exact ⟨hf, hr, ha, trivial⟩

/-- a lookahead shifted by the top frame may be added to the pending left-spine operators -/
theorem framesOK_cons (P : Table) (fs : List Frame) (a : Nat) (as : List Nat)
    (hf : framesOK P fs as) (hs : shiftsTop P fs a)
    (hand : ∀ x fs', fs = .btw x :: fs' → a ≠ P.andTok) : framesOK P fs (a :: as) := by
  cases fs with
  | nil => trivial
  | cons f fs =>
    obtain ⟨ht, hok, hrest⟩ := hf
    refine ⟨?_, hok, hrest⟩
    cases f with
    | lpar => trivial
    | btw x =>
      intro hm
      rcases List.mem_cons.1 hm with h | h
      · exact hand x fs rfl h.symm
      · exact ht h
    | opr o l => exact (allShift_cons ..).2 ⟨hs, ht⟩
    | pre o => exact (allShift_cons ..).2 ⟨hs, ht⟩
    | band x y => exact (allShift_cons ..).2 ⟨hs, ht⟩

theorem shiftOp_inv (P : Table) (hP : tableOK P = true) (a : Nat) (fs : List Frame) (r : Expr)
    (hf : framesOK P fs (leftOps P r)) (hr : canon P r = true)
    (ha : allReduce P (rightProds P r) a = true) (hs : shiftsTop P fs a) :
    framesOK P (shiftOp P a fs r) [] := by
  have hne : P.andTok ≠ P.btwTok := by simpa [tableOK] using hP
  unfold shiftOp
  split
  · -- BETWEEN
    rename_i hab
    subst hab
    show topShifts P (.btw r :: fs) [] ∧ frameOK P (.btw r) ∧ framesOK P fs (frameLops P (.btw r))
    refine ⟨List.not_mem_nil, ⟨hr, ha⟩, ?_⟩
    exact framesOK_cons P fs _ _ hf hs (fun _ _ _ h => hne h.symm)
  · rename_i hab
    have hopr : (∀ x fs', fs = .btw x :: fs' → a ≠ P.andTok) →
        framesOK P (.opr a r :: fs) [] := fun hand =>
      ⟨allShift_nil .., ⟨hab, hr, ha⟩, framesOK_cons P fs _ _ hf hs hand⟩
    split
    · rename_i x fs'
      split
      · -- AND closing the middle operand of BETWEEN
        rename_i haa
        subst haa
        obtain ⟨ht, ⟨hcx, hrx⟩, hrest⟩ := hf
        exact ⟨allShift_nil .., ⟨hcx, hr, hrx, ha, ht⟩, hrest⟩
      · rename_i haa
        exact hopr (fun _ _ _ => haa)
    · rename_i hnb
      exact hopr (fun x fs' h => absurd h (hnb x fs'))

/-! ### the main induction -/

theorem parse_inv (P : Table) (hP : tableOK P = true) :
    ∀ (toks : List Tok) (fs : List Frame) (cur : Option Expr) (e : Expr),
      Inv P fs cur → parse P toks fs cur = some e → canon P e = true := by
  intro toks
  induction toks with
  | nil =>
    intro fs cur e hi h
    cases cur with
    | none => simp [parse] at h
    | some r =>
      rw [parse] at h
      exact finish_canon P hP fs r e hi.1 hi.2.1 h
  | cons t ts ih =>
    intro fs cur e hi h
    cases t with
    | atom n =>
      cases cur with
      | none =>
        rw [parse] at h
        exact ih fs (some (.atom n)) e ⟨hi, rfl, rfl⟩ h
      | some r => simp [parse] at h
    | lpar =>
      cases cur with
      | none =>
        rw [parse] at h
        exact ih (.lpar :: fs) none e (show framesOK P (.lpar :: fs) [] from ⟨trivial, trivial, hi⟩) h
      | some r => simp [parse] at h
    | rpar =>
      cases cur with
      | none => simp [parse] at h
      | some r =>
        rw [parse] at h
        cases hc : closeParen fs r with
        | none => rw [hc] at h; simp at h
        | some p =>
          obtain ⟨fs', r'⟩ := p
          rw [hc] at h
          exact ih _ _ e (closeParen_inv P hP fs r fs' r' hi.1 hi.2.1 hc) h
    | op a =>
      cases cur with
      | none =>
        rw [parse] at h
        cases hp : P.isPre a with
        | false => rw [hp] at h; simp at h
        | true =>
          rw [hp] at h
          simp only [if_true] at h
          exact ih (.pre a :: fs) none e (show framesOK P (.pre a :: fs) [] from ⟨allShift_nil .., hp, hi⟩) h
      | some r =>
        rw [parse] at h
        cases hc : reduceWhile P a fs r with
        | none => rw [hc] at h; simp at h
        | some p =>
          obtain ⟨fs', r'⟩ := p
          rw [hc] at h
          have hra : allReduce P (rightProds P r) a = true := by rw [hi.2.2]; rfl
          obtain ⟨h1, h2, h3, h4⟩ := reduceWhile_inv P hP a fs r fs' r' hi.1 hi.2.1 hra hc
          exact ih _ none e (shiftOp_inv P hP a fs' r' h1 h2 h3 h4) h

/-- every tree the machine returns is canonical -/
theorem parse_canon (P : Table) (hP : tableOK P = true) (toks : List Tok) (e : Expr)
    (h : parse P toks [] none = some e) : canon P e = true :=
  parse_inv P hP toks [] none e (show framesOK P [] [] from trivial) h

/-- **print ∘ parse round trip**: for every token list the machine accepts, printing the result and
parsing it again returns the same tree, and printing that again returns the same tokens. -/
theorem print_parse_roundtrip (P : Table) (hP : tableOK P = true) (toks : List Tok) (e : Expr)
    (h : parse P toks [] none = some e) :
    parse P (print P e) [] none = some e :=
  roundtrip P e (parse_canon P hP toks e h)

end MindsVerif.OPM
