import MindsVerif.Model.OPM
/-! Round trip of the operator-precedence machine: a canonical tree is reproduced by parsing its print. -/
namespace MindsVerif.OPM

/-! ### the machine state after the tokens of an operand -/

/-- machine state after the tokens of `e` have been consumed starting from frames `fs` in operand
position, the right spine of `e` being left unreduced -/
def rspine : Expr → List Frame → List Frame × Expr
  | .atom n, fs => (fs, .atom n)
  | .paren e, fs => (fs, .paren e)
  | .pre o e, fs => rspine e (.pre o :: fs)
  | .bin o l r, fs => rspine r (.opr o l :: fs)
  | .btw x y z, fs => rspine z (.band x y :: fs)

theorem allReduce_cons (P : Table) (p : Prec) (ps : List Prec) (a : Nat) :
    allReduce P (p :: ps) a = true ↔
      resolve p (P.tokLevel a) = .reduce ∧ allReduce P ps a = true := by
  simp [allReduce]

theorem allShift_cons (P : Table) (p : Prec) (a : Nat) (as : List Nat) :
    allShift P p (a :: as) = true ↔
      resolve p (P.tokLevel a) = .shift ∧ allShift P p as = true := by
  simp [allShift]

/-- Lemma B: a lookahead that reduces every production pending on the right spine of `e` reduces
the whole spine. -/
theorem reduceWhile_rspine (P : Table) (a : Nat) (e : Expr) :
    ∀ fs, allReduce P (rightProds P e) a = true →
      reduceWhile P a (rspine e fs).1 (rspine e fs).2 = reduceWhile P a fs e := by
  induction e with
  | atom n => intro fs _; rfl
  | paren e _ => intro fs _; rfl
  | pre o e ih =>
    intro fs h
    rw [rightProds, allReduce_cons] at h
    rw [rspine, ih _ h.2, reduceWhile, h.1]
  | bin o l r _ ih =>
    intro fs h
    rw [rightProds, allReduce_cons] at h
    rw [rspine, ih _ h.2, reduceWhile, h.1]
  | btw x y z _ _ ih =>
    intro fs h
    rw [rightProds, allReduce_cons] at h
    rw [rspine, ih _ h.2, reduceWhile, h.1]

theorem closeParen_rspine (e : Expr) :
    ∀ fs, closeParen (rspine e fs).1 (rspine e fs).2 = closeParen fs e := by
  induction e with
  | atom n => intro fs; rfl
  | paren e _ => intro fs; rfl
  | pre o e ih => intro fs; rw [rspine, ih, closeParen]
  | bin o l r _ ih => intro fs; rw [rspine, ih, closeParen]
  | btw x y z _ _ ih => intro fs; rw [rspine, ih, closeParen]

theorem finish_rspine (e : Expr) :
    ∀ fs, finish (rspine e fs).1 (rspine e fs).2 = finish fs e := by
  induction e with
  | atom n => intro fs; rfl
  | paren e _ => intro fs; rfl
  | pre o e ih => intro fs; rw [rspine, ih, finish]
  | bin o l r _ ih => intro fs; rw [rspine, ih, finish]
  | btw x y z _ _ ih => intro fs; rw [rspine, ih, finish]

/-! ### frames that shift -/

/-- the top frame of `fs` lets every operator of `as` be shifted (as an ordinary binary operator or
as BETWEEN) -/
def topShifts (P : Table) : List Frame → List Nat → Prop
  | [], _ => True
  | .lpar :: _, _ => True
  | .btw _ :: _, as => P.andTok ∉ as
  | .opr o _ :: _, as => allShift P (P.binProd o) as = true
  | .pre o :: _, as => allShift P (P.preProd o) as = true
  | .band _ _ :: _, as => allShift P P.btwProd as = true

theorem topShifts_tail (P : Table) (fs : List Frame) (a : Nat) (as : List Nat)
    (h : topShifts P fs (a :: as)) : topShifts P fs as := by
  cases fs with
  | nil => trivial
  | cons f fs =>
    cases f with
    | lpar => trivial
    | btw x => exact fun hm => h (List.mem_cons_of_mem _ hm)
    | opr o l => exact ((allShift_cons ..).1 h).2
    | pre o => exact ((allShift_cons ..).1 h).2
    | band x y => exact ((allShift_cons ..).1 h).2

/-- `reduceWhile` stops at a frame that shifts the lookahead -/
theorem reduceWhile_topShifts (P : Table) (fs : List Frame) (a : Nat) (as : List Nat) (r : Expr)
    (h : topShifts P fs (a :: as)) : reduceWhile P a fs r = some (fs, r) := by
  cases fs with
  | nil => rfl
  | cons f fs =>
    cases f with
    | lpar => rfl
    | btw x => rfl
    | opr o l => rw [reduceWhile, ((allShift_cons ..).1 h).1]
    | pre o => rw [reduceWhile, ((allShift_cons ..).1 h).1]
    | band x y => rw [reduceWhile, ((allShift_cons ..).1 h).1]

/-- an ordinary binary operator shifted by the top frame opens an `.opr` frame -/
theorem shiftOp_topShifts (P : Table) (fs : List Frame) (a : Nat) (as : List Nat) (r : Expr)
    (h : topShifts P fs (a :: as)) (hb : a ≠ P.btwTok) : shiftOp P a fs r = .opr a r :: fs := by
  unfold shiftOp
  rw [if_neg hb]
  cases fs with
  | nil => rfl
  | cons f fs =>
    cases f with
    | btw x =>
      have : a ≠ P.andTok := fun he => h (he ▸ List.mem_cons_self)
      simp only [if_neg this]
    | lpar => rfl
    | opr o l => rfl
    | pre o => rfl
    | band x y => rfl

theorem shiftOp_btw (P : Table) (fs : List Frame) (r : Expr) :
    shiftOp P P.btwTok fs r = .btw r :: fs := by
  simp [shiftOp]

theorem shiftOp_and (P : Table) (fs : List Frame) (x r : Expr) (hne : P.andTok ≠ P.btwTok) :
    shiftOp P P.andTok (.btw x :: fs) r = .band x r :: fs := by
  simp [shiftOp, hne]

/-! ### the main induction -/

/-- Lemma A: parsing the print of a canonical tree in operand position leaves its right spine on the
frame stack. -/
theorem parse_print (P : Table) (e : Expr) :
    ∀ (fs : List Frame) (ts : List Tok), canon P e = true →
      topShifts P fs (leftOps P e) →
      parse P (print P e ++ ts) fs none = parse P ts (rspine e fs).1 (some (rspine e fs).2) := by
  induction e with
  | atom n => intro fs ts _ _; rfl
  | paren e ih =>
    intro fs ts hc _
    rw [canon] at hc
    have := ih (.lpar :: fs) (.rpar :: ts) hc trivial
    simp only [print, List.cons_append, List.append_assoc, List.nil_append, parse]
    rw [this, parse, closeParen_rspine, closeParen]
    rfl
  | pre o e ih =>
    intro fs ts hc _
    simp only [canon, Bool.and_eq_true] at hc
    obtain ⟨⟨hp, hce⟩, hs⟩ := hc
    have := ih (.pre o :: fs) ts hce hs
    simp only [print, List.cons_append, parse, hp, if_true]
    rw [this, rspine]
  | bin o l r ihl ihr =>
    intro fs ts hc ht
    simp only [canon, Bool.and_eq_true, bne_iff_ne, ne_eq] at hc
    obtain ⟨⟨⟨⟨hob, hcl⟩, hcr⟩, hred⟩, hsh⟩ := hc
    rw [leftOps] at ht
    have h1 := ihl fs (.op o :: (print P r ++ ts)) hcl (topShifts_tail _ _ _ _ ht)
    have h2 := ihr (.opr o l :: fs) ts hcr hsh
    simp only [print, List.append_assoc, List.cons_append]
    rw [h1, parse, reduceWhile_rspine _ _ _ _ hred, reduceWhile_topShifts _ _ _ _ _ ht]
    simp only []
    rw [shiftOp_topShifts _ _ _ _ _ ht hob, h2, rspine]
  | btw x y z ihx ihy ihz =>
    intro fs ts hc ht
    simp only [canon, Bool.and_eq_true, Bool.not_eq_true', List.contains_eq_mem,
      decide_eq_false_iff_not, bne_iff_ne, ne_eq] at hc
    obtain ⟨⟨⟨⟨⟨⟨⟨hcx, hcy⟩, hcz⟩, hrx⟩, hry⟩, hand⟩, hsz⟩, hne⟩ := hc
    rw [leftOps] at ht
    have h1 := ihx fs (.op P.btwTok :: (print P y ++ .op P.andTok :: (print P z ++ ts))) hcx
      (topShifts_tail _ _ _ _ ht)
    have h2 := ihy (.btw x :: fs) (.op P.andTok :: (print P z ++ ts)) hcy hand
    have h3 := ihz (.band x y :: fs) ts hcz hsz
    simp only [print, List.append_assoc, List.cons_append]
    rw [h1, parse, reduceWhile_rspine _ _ _ _ hrx, reduceWhile_topShifts _ _ _ _ _ ht]
    simp only []
    rw [shiftOp_btw, h2, parse, reduceWhile_rspine _ _ _ _ hry]
    simp only [reduceWhile]
    rw [shiftOp_and _ _ _ _ hne, h3, rspine]

/-- **T3.1** -/
theorem roundtrip (P : Table) (e : Expr) (h : canon P e = true) :
    parse P (print P e) [] none = some e := by
  have := parse_print P e [] [] h trivial
  rw [List.append_nil] at this
  rw [this, parse, finish_rspine, finish]

end MindsVerif.OPM
