import MindsVerif.Lemmas.OPMRoundTrip
/-! If a dialect's precedence table orders the fragment's operators as SQL does (`sqlOrder`, a finite
check), then every fragment expression with exactly the parentheses the stratified SQL grammar
requires is canonical, hence parsed back to itself. -/
namespace MindsVerif.OPM

/-! ### `wrapIf` -/

theorem strip_wrapIf (c : Bool) (e : Expr) : strip (wrapIf c e) = strip e := by
  cases c <;> rfl

theorem canon_wrapIf (P : Table) (c : Bool) (e : Expr) : canon P (wrapIf c e) = canon P e := by
  cases c <;> rfl

theorem mem_leftOps_wrapIf {P : Table} {c : Bool} {e : Expr} {a : Nat}
    (h : a ∈ leftOps P (wrapIf c e)) : c = false ∧ a ∈ leftOps P e := by
  cases c
  · exact ⟨rfl, h⟩
  · simp [wrapIf, leftOps] at h

theorem mem_rightProds_wrapIf {P : Table} {c : Bool} {e : Expr} {p : Prec}
    (h : p ∈ rightProds P (wrapIf c e)) : c = false ∧ p ∈ rightProds P e := by
  cases c
  · exact ⟨rfl, h⟩
  · simp [wrapIf, rightProds] at h

theorem strip_addParens (S : Strata) (e : Expr) : strip (addParens S e) = strip e := by
  induction e with
  | atom n => rfl
  | paren e ih => simp only [addParens, strip, ih]
  | pre o e ih => simp only [addParens, strip, strip_wrapIf, ih]
  | bin o l r ihl ihr => simp only [addParens, strip, strip_wrapIf, ihl, ihr]
  | btw x y z ihx ihy ihz => simp only [addParens, strip, strip_wrapIf, ihx, ihy, ihz]

/-! ### `sqlOrder` as a bundle of ∀-facts -/

/-- `a` is a lookahead operator of the fragment, of stratum `sa` -/
def La (P : Table) (S : Strata) (F : Fragment) (a sa : Nat) : Prop :=
  (a ∈ F.bins ∧ sa = S.bin a) ∨ (a = P.btwTok ∧ sa = 3)

/-- `p` is the precedence of a production of the fragment, of stratum `sp` -/
def Pr (P : Table) (S : Strata) (F : Fragment) (p : Prec) (sp : Nat) : Prop :=
  (∃ o, o ∈ F.bins ∧ p = P.binProd o ∧ sp = S.bin o) ∨
  (∃ o, o ∈ F.pres ∧ p = P.preProd o ∧ sp = S.pre o) ∨
  (p = P.btwProd ∧ sp = 3)

structure SqlOrd (P : Table) (S : Strata) (F : Fragment) : Prop where
  binLa : ∀ o, o ∈ F.bins → ∀ a sa, La P S F a sa →
    agrees (resolve (P.binProd o) (P.tokLevel a)) (expected (S.bin o) sa) = true
  preLa : ∀ o, o ∈ F.pres → ∀ a sa, La P S F a sa →
    agrees (resolve (P.preProd o) (P.tokLevel a))
      (if sa = S.pre o then none else expected (S.pre o) sa) = true
  btwLa : ∀ a sa, La P S F a sa →
    agrees (resolve P.btwProd (P.tokLevel a))
      (if sa ≤ 1 then some .reduce else if sa ≥ 4 then some .shift else none) = true
  isPre : ∀ o, o ∈ F.pres → P.isPre o = true
  notBtw : ∀ o, o ∈ F.bins → o ≠ P.btwTok
  binStr : ∀ o, o ∈ F.bins → S.bin o ≤ 5 ∧ S.bin o ≠ 2
  preStr : ∀ o, o ∈ F.pres → S.pre o = 2 ∨ S.pre o = 6
  andStr : S.bin P.andTok = 1
  andMem : P.andTok ∈ F.bins

theorem SqlOrd.of_sqlOrder {P : Table} {S : Strata} {F : Fragment} (h : sqlOrder P S F = true) :
    SqlOrd P S F := by
  simp only [sqlOrder, Bool.and_eq_true, List.all_eq_true, List.mem_append, List.mem_map,
    List.mem_singleton, bne_iff_ne, ne_eq, decide_eq_true_eq, Bool.or_eq_true, beq_iff_eq,
    List.contains_eq_mem] at h
  obtain ⟨⟨⟨⟨⟨⟨⟨⟨h1, h2⟩, h3⟩, h4⟩, h5⟩, h6⟩, h7⟩, h8⟩, h9⟩ := h
  have conv : ∀ a sa, La P S F a sa →
      (∃ b, b ∈ F.bins ∧ (b, S.bin b) = (a, sa)) ∨ (a, sa) = (P.btwTok, 3) := by
    intro a sa hla
    rcases hla with ⟨hm, rfl⟩ | ⟨rfl, rfl⟩
    · exact Or.inl ⟨a, hm, rfl⟩
    · exact Or.inr rfl
  exact
    { binLa := fun o ho a sa hla => h1 o ho (a, sa) (conv a sa hla)
      preLa := fun o ho a sa hla => h2 o ho (a, sa) (conv a sa hla)
      btwLa := fun a sa hla => h3 (a, sa) (conv a sa hla)
      isPre := h4
      notBtw := h5
      binStr := h6
      preStr := h7
      andStr := h8
      andMem := h9 }

theorem agrees_some {d d' : Decision} (h : agrees d (some d') = true) : d = d' := by
  simpa [agrees] using h

/-- a fragment lookahead never has a prefix stratum -/
theorem SqlOrd.la_str {P : Table} {S : Strata} {F : Fragment} (H : SqlOrd P S F) {a sa : Nat}
    (hla : La P S F a sa) : sa ≤ 5 ∧ sa ≠ 2 := by
  rcases hla with ⟨hm, rfl⟩ | ⟨_, rfl⟩
  · exact H.binStr a hm
  · omega

/-- a completed production of stratum `sp` is reduced by a lookahead of stratum `sa ≤ sp`
(except inside the non-associative stratum 3) -/
theorem SqlOrd.reduce_of_le {P : Table} {S : Strata} {F : Fragment} (H : SqlOrd P S F)
    {p : Prec} {sp a sa : Nat} (hp : Pr P S F p sp) (hla : La P S F a sa)
    (hle : sa ≤ sp) (h3 : ¬(sa = 3 ∧ sp = 3)) : resolve p (P.tokLevel a) = .reduce := by
  have hs := H.la_str hla
  rcases hp with ⟨o, ho, rfl, rfl⟩ | ⟨o, ho, rfl, rfl⟩ | ⟨rfl, rfl⟩
  · have := H.binLa o ho a sa hla
    apply agrees_some
    have e : expected (S.bin o) sa = some .reduce := by
      unfold expected
      by_cases h : sa < S.bin o
      · simp [h]
      · have : sa = S.bin o := by omega
        have : ¬ S.bin o = 3 := by omega
        simp [*]
    rwa [e] at this
  · have := H.preLa o ho a sa hla
    apply agrees_some
    have hps := H.preStr o ho
    have hne : ¬ sa = S.pre o := by omega
    have hlt : sa < S.pre o := by omega
    rw [if_neg hne] at this
    have e : expected (S.pre o) sa = some .reduce := by
      unfold expected
      simp [hlt]
    rwa [e] at this
  · apply agrees_some
    have : sa ≤ 1 := by omega
    simpa [this] using H.btwLa a sa hla

/-- a completed production of stratum `sp` lets a lookahead of stratum `sa > sp` be shifted -/
theorem SqlOrd.shift_of_lt {P : Table} {S : Strata} {F : Fragment} (H : SqlOrd P S F)
    {p : Prec} {sp a sa : Nat} (hp : Pr P S F p sp) (hla : La P S F a sa)
    (hlt : sp < sa) : resolve p (P.tokLevel a) = .shift := by
  rcases hp with ⟨o, ho, rfl, rfl⟩ | ⟨o, ho, rfl, rfl⟩ | ⟨rfl, rfl⟩
  · have := H.binLa o ho a sa hla
    apply agrees_some
    have e : expected (S.bin o) sa = some .shift := by
      unfold expected
      have h1 : ¬ sa < S.bin o := by omega
      have h2 : ¬ sa = S.bin o := by omega
      simp [h1, h2]
    rwa [e] at this
  · have := H.preLa o ho a sa hla
    apply agrees_some
    have hne : ¬ sa = S.pre o := by omega
    rw [if_neg hne] at this
    have e : expected (S.pre o) sa = some .shift := by
      unfold expected
      have h1 : ¬ sa < S.pre o := by omega
      simp [h1, hne]
    rwa [e] at this
  · apply agrees_some
    have h1 : ¬ sa ≤ 1 := by omega
    have h2 : sa ≥ 4 := by omega
    simpa [h1, h2] using H.btwLa a sa hla

/-! ### operators and productions on the spines of `addParens S e` -/

/-- the operators on the left spine of a minimally parenthesised fragment tree are fragment
lookaheads of stratum at least that of the tree -/
theorem leftOps_addParens {P : Table} {S : Strata} {F : Fragment} (e : Expr)
    (he : inFragment F e = true) :
    ∀ a, a ∈ leftOps P (addParens S e) → ∃ sa, La P S F a sa ∧ stratum S e ≤ sa := by
  induction e with
  | atom n => intro a h; simp [addParens, leftOps] at h
  | paren e _ => intro a h; simp [addParens, leftOps] at h
  | pre o e _ => intro a h; simp [addParens, leftOps] at h
  | bin o l r ihl _ =>
    intro a h
    simp only [inFragment, Bool.and_eq_true, List.contains_eq_mem, decide_eq_true_eq] at he
    obtain ⟨⟨ho, hl⟩, _⟩ := he
    simp only [addParens, leftOps, List.mem_cons] at h
    rcases h with rfl | h
    · exact ⟨S.bin a, Or.inl ⟨ho, rfl⟩, Nat.le_refl _⟩
    · obtain ⟨hc, hm⟩ := mem_leftOps_wrapIf h
      obtain ⟨sa, hla, hle⟩ := ihl hl a hm
      refine ⟨sa, hla, ?_⟩
      simp only [stratum]
      split at hc <;> simp at hc <;> omega
  | btw x y z ihx _ _ =>
    intro a h
    simp only [inFragment, Bool.and_eq_true] at he
    obtain ⟨⟨hx, _⟩, _⟩ := he
    simp only [addParens, leftOps, List.mem_cons] at h
    rcases h with rfl | h
    · exact ⟨3, Or.inr ⟨rfl, rfl⟩, Nat.le_refl _⟩
    · obtain ⟨hc, hm⟩ := mem_leftOps_wrapIf h
      obtain ⟨sa, hla, hle⟩ := ihx hx a hm
      refine ⟨sa, hla, ?_⟩
      simp only [stratum]
      simp at hc
      omega

/-- the productions pending on the right spine of a minimally parenthesised fragment tree are
fragment productions of stratum at least that of the tree -/
theorem rightProds_addParens {P : Table} {S : Strata} {F : Fragment} (e : Expr)
    (he : inFragment F e = true) :
    ∀ p, p ∈ rightProds P (addParens S e) → ∃ sp, Pr P S F p sp ∧ stratum S e ≤ sp := by
  induction e with
  | atom n => intro p h; simp [addParens, rightProds] at h
  | paren e _ => intro p h; simp [addParens, rightProds] at h
  | pre o e ih =>
    intro p h
    simp only [inFragment, Bool.and_eq_true, List.contains_eq_mem, decide_eq_true_eq] at he
    obtain ⟨ho, hi⟩ := he
    simp only [addParens, rightProds, List.mem_cons] at h
    rcases h with rfl | h
    · exact ⟨S.pre o, Or.inr (Or.inl ⟨o, ho, rfl, rfl⟩), Nat.le_refl _⟩
    · obtain ⟨hc, hm⟩ := mem_rightProds_wrapIf h
      obtain ⟨sp, hp, hle⟩ := ih hi p hm
      refine ⟨sp, hp, ?_⟩
      simp only [stratum]
      simp at hc
      omega
  | bin o l r _ ihr =>
    intro p h
    simp only [inFragment, Bool.and_eq_true, List.contains_eq_mem, decide_eq_true_eq] at he
    obtain ⟨⟨ho, _⟩, hr⟩ := he
    simp only [addParens, rightProds, List.mem_cons] at h
    rcases h with rfl | h
    · exact ⟨S.bin o, Or.inl ⟨o, ho, rfl, rfl⟩, Nat.le_refl _⟩
    · obtain ⟨hc, hm⟩ := mem_rightProds_wrapIf h
      obtain ⟨sp, hp, hle⟩ := ihr hr p hm
      refine ⟨sp, hp, ?_⟩
      simp only [stratum]
      simp at hc
      omega
  | btw x y z _ _ ihz =>
    intro p h
    simp only [inFragment, Bool.and_eq_true] at he
    obtain ⟨⟨_, _⟩, hz⟩ := he
    simp only [addParens, rightProds, List.mem_cons] at h
    rcases h with rfl | h
    · exact ⟨3, Or.inr (Or.inr ⟨rfl, rfl⟩), Nat.le_refl _⟩
    · obtain ⟨hc, hm⟩ := mem_rightProds_wrapIf h
      obtain ⟨sp, hp, hle⟩ := ihz hz p hm
      refine ⟨sp, hp, ?_⟩
      simp only [stratum]
      simp at hc
      omega

theorem allReduce_iff (P : Table) (ps : List Prec) (a : Nat) :
    allReduce P ps a = true ↔ ∀ p, p ∈ ps → resolve p (P.tokLevel a) = .reduce := by
  simp [allReduce]

theorem allShift_iff (P : Table) (p : Prec) (as : List Nat) :
    allShift P p as = true ↔ ∀ a, a ∈ as → resolve p (P.tokLevel a) = .shift := by
  simp [allShift]

theorem sql_canon (P : Table) (S : Strata) (F : Fragment) (h : sqlOrder P S F = true)
    (e : Expr) (he : inFragment F e = true) : canon P (addParens S e) = true := by
  have H := SqlOrd.of_sqlOrder h
  induction e with
  | atom n => rfl
  | paren e ih =>
    simp only [inFragment] at he
    simpa only [addParens, canon] using ih he
  | pre o e ih =>
    simp only [inFragment, Bool.and_eq_true, List.contains_eq_mem, decide_eq_true_eq] at he
    obtain ⟨ho, hi⟩ := he
    simp only [addParens, canon, canon_wrapIf, Bool.and_eq_true]
    refine ⟨⟨H.isPre o ho, ih hi⟩, ?_⟩
    rw [allShift_iff]
    intro a ha
    obtain ⟨hc, hm⟩ := mem_leftOps_wrapIf ha
    obtain ⟨sa, hla, hle⟩ := leftOps_addParens e hi a hm
    have hs := H.la_str hla
    have hps := H.preStr o ho
    simp at hc
    exact H.shift_of_lt (Or.inr (Or.inl ⟨o, ho, rfl, rfl⟩)) hla (by omega)
  | bin o l r ihl ihr =>
    simp only [inFragment, Bool.and_eq_true, List.contains_eq_mem, decide_eq_true_eq] at he
    obtain ⟨⟨ho, hl⟩, hr⟩ := he
    simp only [addParens, canon, canon_wrapIf, Bool.and_eq_true, bne_iff_ne, ne_eq]
    refine ⟨⟨⟨⟨H.notBtw o ho, ihl hl⟩, ihr hr⟩, ?_⟩, ?_⟩
    · rw [allReduce_iff]
      intro p hp
      obtain ⟨hc, hm⟩ := mem_rightProds_wrapIf hp
      obtain ⟨sp, hpr, hle⟩ := rightProds_addParens l hl p hm
      have hla : La P S F o (S.bin o) := Or.inl ⟨ho, rfl⟩
      have : S.bin o ≤ stratum S l ∧ (S.bin o = 3 → S.bin o < stratum S l) := by
        split at hc <;> simp at hc <;> omega
      exact H.reduce_of_le hpr hla (by omega) (by omega)
    · rw [allShift_iff]
      intro a ha
      obtain ⟨hc, hm⟩ := mem_leftOps_wrapIf ha
      obtain ⟨sa, hla, hle⟩ := leftOps_addParens r hr a hm
      simp at hc
      exact H.shift_of_lt (Or.inl ⟨o, ho, rfl, rfl⟩) hla (by omega)
  | btw x y z ihx ihy ihz =>
    simp only [inFragment, Bool.and_eq_true] at he
    obtain ⟨⟨hx, hy⟩, hz⟩ := he
    have hand : La P S F P.andTok 1 := Or.inl ⟨H.andMem, H.andStr.symm⟩
    simp only [addParens, canon, canon_wrapIf, Bool.and_eq_true, bne_iff_ne, ne_eq,
      Bool.not_eq_true', List.contains_eq_mem, decide_eq_false_iff_not]
    refine ⟨⟨⟨⟨⟨⟨⟨ihx hx, ihy hy⟩, ihz hz⟩, ?_⟩, ?_⟩, ?_⟩, ?_⟩, H.notBtw _ H.andMem⟩
    · rw [allReduce_iff]
      intro p hp
      obtain ⟨hc, hm⟩ := mem_rightProds_wrapIf hp
      obtain ⟨sp, hpr, hle⟩ := rightProds_addParens x hx p hm
      simp at hc
      exact H.reduce_of_le hpr (Or.inr ⟨rfl, rfl⟩) (by omega) (by omega)
    · rw [allReduce_iff]
      intro p hp
      obtain ⟨hc, hm⟩ := mem_rightProds_wrapIf hp
      obtain ⟨sp, hpr, hle⟩ := rightProds_addParens y hy p hm
      simp at hc
      exact H.reduce_of_le hpr hand (by omega) (by omega)
    · intro ha
      obtain ⟨hc, hm⟩ := mem_leftOps_wrapIf ha
      obtain ⟨sa, hla, hle⟩ := leftOps_addParens y hy _ hm
      simp at hc
      rcases hla with ⟨_, rfl⟩ | ⟨_, rfl⟩
      · have := H.andStr
        omega
      · omega
    · rw [allShift_iff]
      intro a ha
      obtain ⟨hc, hm⟩ := mem_leftOps_wrapIf ha
      obtain ⟨sa, hla, hle⟩ := leftOps_addParens z hz a hm
      simp at hc
      exact H.shift_of_lt (Or.inr (Or.inr ⟨rfl, rfl⟩)) hla (by omega)

/-- **T3.2** -/
theorem sql_roundtrip (P : Table) (S : Strata) (F : Fragment) (h : sqlOrder P S F = true)
    (e : Expr) (he : inFragment F e = true) :
    parse P (print P (addParens S e)) [] none = some (addParens S e) :=
  roundtrip P _ (sql_canon P S F h e he)

/-! ### sanity: a concrete yacc-like table (non-vacuity of `sqlOrder`, `canon`, `sql_roundtrip`) -/
section Sanity

/-- operators: 0 OR, 1 AND, 2 NOT, 3 `=`, 4 `<`, 5 `+`, 6 `-`, 7 `*`, 8 `/`, 9 BETWEEN.
yacc levels: OR(1) < AND(2) < NOT(3) < `=`(4) < {`<`, BETWEEN}(5) < {`+`,`-`}(6) < {`*`,`/`}(7)
< UMINUS(8) -/
private def exP : Table where
  tokLevel
    | 0 => 1 | 1 => 2 | 2 => 3 | 3 => 4 | 4 => 5 | 5 => 6 | 6 => 6 | 7 => 7 | 8 => 7 | 9 => 5
    | _ => 0
  binProd
    | 0 => ⟨.left, 1⟩ | 1 => ⟨.left, 2⟩ | 3 => ⟨.nonassoc, 4⟩ | 4 => ⟨.nonassoc, 5⟩
    | 5 => ⟨.left, 6⟩ | 6 => ⟨.left, 6⟩ | 7 => ⟨.left, 7⟩ | 8 => ⟨.left, 7⟩
    | _ => ⟨.right, 0⟩
  preProd
    | 2 => ⟨.right, 3⟩ | 6 => ⟨.right, 8⟩
    | _ => ⟨.right, 0⟩
  isPre o := o == 2 || o == 6
  btwTok := 9
  andTok := 1
  btwProd := ⟨.left, 2⟩

private def exS : Strata where
  bin
    | 0 => 0 | 1 => 1 | 3 => 3 | 4 => 3 | 5 => 4 | 6 => 4 | 7 => 5 | 8 => 5
    | _ => 7
  pre
    | 2 => 2 | 6 => 6
    | _ => 7

private def exF : Fragment := ⟨[0, 1, 3, 4, 5, 6, 7, 8], [2, 6]⟩

example : sqlOrder exP exS exF = true := by decide

/-- `a + b * c - d` -/
private def ex1 : Expr := .bin 6 (.bin 5 (.atom 0) (.bin 7 (.atom 1) (.atom 2))) (.atom 3)

/-- `(a OR b) AND NOT c BETWEEN (d = e) AND - f * (g + h)` (as a tree, without the parentheses) -/
private def ex2 : Expr :=
  .bin 1 (.bin 0 (.atom 0) (.atom 1))
    (.pre 2 (.btw (.atom 2) (.bin 3 (.atom 3) (.atom 4))
      (.bin 7 (.pre 6 (.atom 5)) (.bin 5 (.atom 6) (.atom 7)))))

example : inFragment exF ex1 = true ∧ inFragment exF ex2 = true := by decide
example : addParens exS ex1 = ex1 := by decide
example : addParens exS ex2 =
    .bin 1 (.paren (.bin 0 (.atom 0) (.atom 1)))
      (.pre 2 (.btw (.atom 2) (.paren (.bin 3 (.atom 3) (.atom 4)))
        (.bin 7 (.pre 6 (.atom 5)) (.paren (.bin 5 (.atom 6) (.atom 7)))))) := by decide
example : parse exP (print exP (addParens exS ex1)) [] none = some (addParens exS ex1) := by decide
example : parse exP (print exP (addParens exS ex2)) [] none = some (addParens exS ex2) := by decide
/-- without the parentheses the machine regroups `ex2`: the hypothesis `canon` is not vacuous -/
example : canon exP ex2 = false ∧ parse exP (print exP ex2) [] none ≠ some ex2 := by decide
/-- the general theorem instantiated -/
example : parse exP (print exP (addParens exS ex2)) [] none = some (addParens exS ex2) :=
  sql_roundtrip exP exS exF (by decide) ex2 (by decide)

end Sanity

end MindsVerif.OPM
