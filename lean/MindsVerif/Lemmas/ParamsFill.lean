import MindsVerif.Model.Params
import MindsVerif.Lemmas.WalkTrace
import MindsVerif.Lemmas.WalkSame
/-! List-level facts about the two visitors of `get_query_params` / `fill_query_params`, read off a
faithful trace. -/
namespace MindsVerif.Params
open MindsVerif.Walk

/-- the call is a visit of a `Parameter` node -/
def isP (P : Nat) (v : Visit) : Bool := match v.node with | some m => m.cls == P | none => false
def nP (P : Nat) (log : List Visit) : Nat := (log.filter (isP P)).length

theorem find_trace (P : Nat) : ∀ (log : List Visit) (s s' : List Node), Trace (cbFind P) s log s' →
    s'.map some = s.map some ++ (log.filter (isP P)).map Visit.node := by
  intro log s s' h
  induction h with
  | nil s => simp
  | @cons s s1 s2 v l hc _ ih =>
    cases hv : v.node with
    | none =>
      rw [hv] at hc
      simp only [cbFind, Prod.mk.injEq] at hc
      have hp : isP P v = false := by simp [isP, hv]
      rw [← hc.2] at ih
      simp [hp, ih]
    | some m =>
      rw [hv] at hc
      by_cases hm : m.cls = P
      · have hp : isP P v = true := by simp [isP, hv, hm]
        simp only [cbFind, hm, if_true, Prod.mk.injEq] at hc
        rw [← hc.2] at ih
        simp [hp, ih, hv]
      · have hp : isP P v = false := by simp [isP, hv, hm]
        simp only [cbFind, hm, if_false, Prod.mk.injEq] at hc
        rw [← hc.2] at ih
        simp [hp, ih]

/-- `isP` only looks at the call, not at the answer -/
def isPw (P : Nat) (w : Option Node × Bool × Bool × Nat) : Bool := match w.1 with | some m => m.cls == P | none => false

theorem filter_isP_what (P : Nat) (l : List Visit) :
    (l.filter (isP P)).map Visit.node = ((l.map Visit.what).filter (isPw P)).map (·.1) := by
  induction l with
  | nil => rfl
  | cons v l ih =>
    have h1 : isPw P v.what = isP P v := rfl
    simp only [List.map_cons, List.filter_cons, h1]
    cases hp : isP P v
    · simpa using ih
    · simp only [if_true, List.map_cons, ih]; rfl

theorem nP_what (P : Nat) (l : List Visit) : nP P l = ((l.map Visit.what).filter (isPw P)).length := by
  have := congrArg List.length (filter_isP_what P l)
  simpa [nP] using this

theorem agree_find_fill (P C : Nat) (values : List (Nat × Nat)) : Agree (cbFind P) (cbFillMap P C values) := by
  intro s s' n a b pq
  cases n with
  | none => simp [cbFind, cbFillMap]
  | some m =>
    by_cases hm : m.cls = P
    · cases hv : values.lookup m.tag <;> simp [cbFind, cbFillMap, hm, hv]
    · simp [cbFind, cbFillMap, hm]

/-! ### the stable sort -/

theorem ins_perm {α : Type} (le : α → α → Bool) (a : α) : ∀ l, (ins le a l).Perm (a :: l)
  | [] => .refl _
  | b :: l => by
    simp only [ins]
    split
    · exact .refl _
    · exact ((ins_perm le a l).cons b).trans (.swap a b l)

theorem isort_perm {α : Type} (le : α → α → Bool) : ∀ l, (isort le l).Perm l
  | [] => .refl _
  | a :: l => (ins_perm le a _).trans ((isort_perm le l).cons a)

theorem ins_sorted {α : Type} (le : α → α → Bool) (htr : ∀ a b c, le a b = true → le b c = true → le a c = true)
    (htot : ∀ a b, le a b = false → le b a = true) (a : α) :
    ∀ l, l.Pairwise (fun x y => le x y = true) → (ins le a l).Pairwise (fun x y => le x y = true)
  | [], _ => by simp [ins]
  | b :: l, h => by
    have hb := List.pairwise_cons.mp h
    simp only [ins]
    cases hab : le a b with
    | true =>
      simp only [if_true]
      refine List.pairwise_cons.mpr ⟨?_, h⟩
      intro y hy
      cases hy with
      | head => exact hab
      | tail _ hm => exact htr a b y hab (hb.1 y hm)
    | false =>
      simp only [Bool.false_eq_true, if_false]
      refine List.pairwise_cons.mpr ⟨?_, ins_sorted le htr htot a l hb.2⟩
      intro y hy
      have := (ins_perm le a l).mem_iff.mp hy
      cases this with
      | head => exact htot a b hab
      | tail _ hm => exact hb.1 y hm

theorem isort_sorted {α : Type} (le : α → α → Bool) (htr : ∀ a b c, le a b = true → le b c = true → le a c = true)
    (htot : ∀ a b, le a b = false → le b a = true) : ∀ l, (isort le l).Pairwise (fun x y => le x y = true)
  | [] => by simp [isort]
  | a :: l => ins_sorted le htr htot a _ (isort_sorted le htr htot l)

theorem sortByText_perm (σ : Schema) (q : Node) (ps : List Node) : (sortByText σ q ps).Perm ps := by
  simp only [sortByText]
  split
  · exact .refl _
  · split
    · exact isort_perm _ _
    · exact .refl _

/-- when every found placeholder is rendered, the result is ordered by rendered position -/
theorem sortByText_sorted (σ : Schema) (q : Node) (ps : List Node)
    (h : ps.all (fun p => (textOrder σ q).contains p.tag) = true) :
    (sortByText σ q ps).Pairwise (fun a b => rank (textOrder σ q) a.tag ≤ rank (textOrder σ q) b.tag) := by
  have key := isort_sorted (fun (a b : Node) => decide (rank (textOrder σ q) a.tag ≤ rank (textOrder σ q) b.tag))
    (by intro a b c h1 h2; simp only [decide_eq_true_eq] at *; omega)
    (by intro a b h1; simp only [decide_eq_false_iff_not, decide_eq_true_eq] at *; omega) ps
  simp only [sortByText, h, if_true]
  split
  · -- fewer than two elements
    rename_i hl
    match ps, hl with
    | [], _ => exact .nil
    | [a], _ => exact List.pairwise_cons.mpr ⟨by simp, .nil⟩
    | _ :: _ :: _, hl => simp at hl; omega
  · exact key.imp (by intro a b hab; simpa using hab)

/-- in a faithful trace of a stateless visitor every answer is the visitor's answer to that call -/
theorem trace_unit_mem (cb : Cb Unit) : ∀ (log : List Visit) (s s' : Unit), Trace cb s log s' →
    ∀ v ∈ log, (cb () v.node v.isTable v.isTarget v.pq).1 = v.ans := by
  intro log s s' h
  induction h with
  | nil => intro v hv; cases hv
  | @cons s s1 s2 v l hc _ ih =>
    intro w hw
    cases hw with
    | head => rw [hc]
    | tail _ hm => exact ih w hm

/-- looking up the i-th key of a duplicate-free key list in the zip gives the i-th value -/
theorem lookup_zip : ∀ (keys vs : List Nat), keys.Nodup → keys.length ≤ vs.length →
    keys.map (fun k => (k, (keys.zip vs).lookup k)) = (keys.zip vs).map (fun kv => (kv.1, some kv.2))
  | [], _, _, _ => by simp
  | k :: keys, [], _, h => by simp at h
  | k :: keys, v :: vs, hnd, h => by
    have hk : k ∉ keys := (List.nodup_cons.mp hnd).1
    have ih := lookup_zip keys vs (List.nodup_cons.mp hnd).2 (by simpa using h)
    simp only [List.map_cons, List.zip_cons_cons, List.lookup_cons, beq_self_eq_true]
    congr 1
    rw [← ih]
    apply List.map_congr_left
    intro k' hk'
    have : (k' == k) = false := by
      simp only [beq_eq_false_iff_ne, ne_eq]
      intro e; exact hk (e ▸ hk')
    simp [this]

end MindsVerif.Params
