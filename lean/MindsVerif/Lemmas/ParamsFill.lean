import MindsVerif.Model.Params
import MindsVerif.Lemmas.WalkTrace
import MindsVerif.Lemmas.WalkSame
/-! List-level facts about the two visitors of `get_query_params` / `fill_query_params`, read off a
faithful trace. -/
namespace MindsVerif.Params
open MindsVerif.Walk

/-- the call is a visit of a `Parameter` node -/
def isP (P : Nat) (v : Visit) : Bool := match v.node with | some m => m.cls == P | none => false
def nP (P : Nat) (log : List Visit) : Nat := (log.filter (isP P)).length

theorem fill_trace (P C : Nat) : ∀ (log : List Visit) (s s' : FillSt), Trace (cbFill P C) s log s' →
    nP P log ≤ s.vals.length →
    s'.vals = s.vals.drop (nP P log) ∧ s'.failed = s.failed ∧
    (log.filter (isP P)).map (fun v => v.ans.map Node.tag) = (s.vals.take (nP P log)).map some ∧
    (∀ v ∈ log, isP P v = false → v.ans = none) ∧
    (∀ v ∈ log, isP P v = true → ∃ m x, v.node = some m ∧ v.ans = some (.mk C m.slot x m.kids)) := by
  intro log s s' h
  induction h with
  | nil s => intro _; simp [nP]
  | @cons s s1 s2 v l hc _ ih =>
    intro hle
    cases hv : v.node with
    | none =>
      rw [hv] at hc
      simp only [cbFill, Prod.mk.injEq] at hc
      have hp : isP P v = false := by simp [isP, hv]
      have hn : nP P (v :: l) = nP P l := by simp [nP, hp]
      rw [hn] at hle ⊢
      rw [← hc.2] at ih
      obtain ⟨i1, i2, i3, i4, i5⟩ := ih hle
      refine ⟨i1, i2, ?_, ?_, ?_⟩
      · simp [hp, i3]
      · intro w hw hpw
        cases hw with
        | head => exact hc.1.symm
        | tail _ hm => exact i4 w hm hpw
      · intro w hw hpw
        cases hw with
        | head => simp [hp] at hpw
        | tail _ hm => exact i5 w hm hpw
    | some m =>
      rw [hv] at hc
      by_cases hm : m.cls = P
      · have hp : isP P v = true := by simp [isP, hv, hm]
        have hn : nP P (v :: l) = nP P l + 1 := by simp [nP, hp]
        rw [hn] at hle ⊢
        cases hvals : s.vals with
        | nil => rw [hvals] at hle; simp at hle
        | cons v0 vs =>
          simp only [cbFill, hm, if_true, hvals, Prod.mk.injEq] at hc
          rw [hvals] at hle
          have hle' : nP P l ≤ s1.vals.length := by rw [← hc.2]; simpa using hle
          obtain ⟨i1, i2, i3, i4, i5⟩ := ih hle'
          rw [← hc.2] at i1 i2 i3
          refine ⟨by simpa using i1, i2, ?_, ?_, ?_⟩
          · have i3' : List.map (fun v => v.ans.map Node.tag) (List.filter (isP P) l)
                = List.map some (List.take (nP P l) vs) := by simpa using i3
            rw [List.filter_cons, if_pos hp, List.map_cons, List.take_succ_cons, List.map_cons, i3', ← hc.1]
            rfl
          · intro w hw hpw
            cases hw with
            | head => simp [hp] at hpw
            | tail _ hm' => exact i4 w hm' hpw
          · intro w hw hpw
            cases hw with
            | head => exact ⟨m, v0, hv, hc.1.symm⟩
            | tail _ hm' => exact i5 w hm' hpw
      · have hp : isP P v = false := by simp [isP, hv, hm]
        have hn : nP P (v :: l) = nP P l := by simp [nP, hp]
        simp only [cbFill, hm, if_false, Prod.mk.injEq] at hc
        rw [hn] at hle ⊢
        rw [← hc.2] at ih
        obtain ⟨i1, i2, i3, i4, i5⟩ := ih hle
        refine ⟨i1, i2, ?_, ?_, ?_⟩
        · simp [hp, i3]
        · intro w hw hpw
          cases hw with
          | head => exact hc.1.symm
          | tail _ hm' => exact i4 w hm' hpw
        · intro w hw hpw
          cases hw with
          | head => simp [hp] at hpw
          | tail _ hm' => exact i5 w hm' hpw

theorem find_trace (P : Nat) : ∀ (log : List Visit) (s s' : List Node), Trace (cbFind P) s log s' →
    s'.map some = s.map some ++ (log.filter (isP P)).map Visit.node := by
  intro log s s' h
  induction h with
  | nil s => simp
  | @cons s s1 s2 v l hc _ ih =>
    cases hv : v.node with
    | none =>
      rw [hv] at hc
      simp only [cbFind, Prod.mk.injEq] at hc
      have hp : isP P v = false := by simp [isP, hv]
      rw [← hc.2] at ih
      simp [hp, ih]
    | some m =>
      rw [hv] at hc
      by_cases hm : m.cls = P
      · have hp : isP P v = true := by simp [isP, hv, hm]
        simp only [cbFind, hm, if_true, Prod.mk.injEq] at hc
        rw [← hc.2] at ih
        simp [hp, ih, hv]
      · have hp : isP P v = false := by simp [isP, hv, hm]
        simp only [cbFind, hm, if_false, Prod.mk.injEq] at hc
        rw [← hc.2] at ih
        simp [hp, ih]

/-- `isP` only looks at the call, not at the answer -/
def isPw (P : Nat) (w : Option Node × Bool × Bool × Nat) : Bool := match w.1 with | some m => m.cls == P | none => false

theorem filter_isP_what (P : Nat) (l : List Visit) :
    (l.filter (isP P)).map Visit.node = ((l.map Visit.what).filter (isPw P)).map (·.1) := by
  induction l with
  | nil => rfl
  | cons v l ih =>
    have h1 : isPw P v.what = isP P v := rfl
    simp only [List.map_cons, List.filter_cons, h1]
    cases hp : isP P v
    · simpa using ih
    · simp only [if_true, List.map_cons, ih]; rfl

theorem nP_what (P : Nat) (l : List Visit) : nP P l = ((l.map Visit.what).filter (isPw P)).length := by
  have := congrArg List.length (filter_isP_what P l)
  simpa [nP] using this

theorem agree_find_fill (P C : Nat) : Agree (cbFind P) (cbFill P C) := by
  intro s s' n a b pq
  cases n with
  | none => simp [cbFind, cbFill]
  | some m =>
    by_cases hm : m.cls = P
    · cases hv : s'.vals <;> simp [cbFind, cbFill, hm, hv]
    · simp [cbFind, cbFill, hm]

end MindsVerif.Params
