import MindsVerif.Model.Plan
/-! Basic facts about `stepsOK`, `addStep`, blocks and the partition primitives. -/
namespace MindsVerif.Plan

/-- `PlanningException` / `NotImplementedError` -/
def IsUserErr : Err → Prop
  | .planning _ => True
  | .notImpl _ => True
  | .internal _ => False

/-- the planner never ends with an internal error (whatever plan it is started from) -/
def NoInternal (f : Planner) : Prop :=
  ∀ plan, match f plan with
    | .ok _ => True
    | .error e => IsUserErr e

/-- C09 for one planner call: started from any well-formed plan of length ≥ `n` (`n` bounds the results the
planner refers to from outside) it raises a user-level error or returns a well-formed plan that extends the
old one by at least one step and whose returned step is the last one -/
def Good (n : Nat) (f : Planner) : Prop :=
  ∀ plan, n ≤ plan.length → stepsOK 0 plan = true →
    match f plan with
    | .ok (plan', x) =>
      stepsOK 0 plan' = true ∧ plan <+: plan' ∧ plan.length < plan'.length ∧ x = .top (plan'.length - 1)
    | .error e => IsUserErr e

theorem Good.mono {n m : Nat} {f : Planner} (h : Good n f) (hnm : n ≤ m) : Good m f :=
  fun plan hl hok => h plan (Nat.le_trans hnm hl) hok

theorem stepsOK_append (a b : List Step) (i : Nat) :
    stepsOK i (a ++ b) = (stepsOK i a && stepsOK (i + a.length) b) := by
  induction a generalizing i with
  | nil => simp [stepsOK]
  | cons x xs ih =>
    simp [stepsOK, ih, Bool.and_assoc, Nat.add_assoc, Nat.add_comm 1]

theorem subsOK_append (a b : List Sub) (i j : Nat) :
    subsOK i j (a ++ b) = (subsOK i j a && subsOK i (j + a.length) b) := by
  induction a generalizing j with
  | nil => simp [subsOK]
  | cons x xs ih =>
    simp [subsOK, ih, Bool.and_assoc, Nat.add_assoc, Nat.add_comm 1]

/-- **T9.1** `QueryPlan.add_step` preserves the numbering / forward-only part of the invariant for
every step whose `step_num` is unset, `0`, or already equal to its position, whose references are
below the current length and whose sub-steps are well-formed for that position. -/
theorem addStep_ok (plan : List Step) (s : Step) (h : stepsOK 0 plan = true)
    (hn : falsy s.num = true ∨ s.num = some (.top plan.length))
    (hr : s.refs.all (refOKTop plan.length) = true)
    (hs : subsOK plan.length 0 s.subs = true) :
    stepsOK 0 (addStep plan s) = true := by
  unfold addStep
  rw [stepsOK_append]
  simp only [h, Bool.true_and, Nat.zero_add, stepsOK, Bool.and_true]
  by_cases hf : falsy s.num = true
  · simp [hf, stepOK, hr, hs]
  · have hn' : s.num = some (.top plan.length) := by
      cases hn with
      | inl h1 => exact absurd h1 hf
      | inr h2 => exact h2
    rw [if_neg hf]
    simp [stepOK, hr, hs, hn']

theorem addStep_fresh (plan : List Step) (k : Kind) (refs : List SNum) :
    addStep plan ⟨k, none, refs, []⟩ = plan ++ [⟨k, some (.top plan.length), refs, []⟩] := by
  simp [addStep, falsy]

theorem stepsOK_snoc_fresh (plan : List Step) (k : Kind) (refs : List SNum)
    (h : stepsOK 0 plan = true) (hr : refs.all (refOKTop plan.length) = true) :
    stepsOK 0 (plan ++ [⟨k, some (.top plan.length), refs, []⟩]) = true := by
  rw [stepsOK_append]
  simp [h, stepsOK, stepOK, hr, subsOK]

/-! ### re-basing blocks -/

theorem refOKTop_shift (n i : Nat) (r : SNum) : refOKTop (i + n) (shiftNum n r) = refOKTop i r := by
  cases r <;> simp [refOKTop, shiftNum]

theorem beq_shift (n : Nat) (a b : SNum) : (shiftNum n a == shiftNum n b) = (a == b) := by
  rw [Bool.eq_iff_iff]
  cases a <;> cases b <;> simp [shiftNum]

theorem refOKSub_shift (n i j : Nat) (r : SNum) : refOKSub (i + n) j (shiftNum n r) = refOKSub i j r := by
  cases r with
  | top k => simp [refOKSub, shiftNum]
  | sub p j' =>
    have : (p + n == i + n) = (p == i) := by rw [Bool.eq_iff_iff]; simp
    simp [refOKSub, shiftNum, this]

theorem subOK_shift (n i j : Nat) (s : Sub) : subOK (i + n) j (shiftSub n s) = subOK i j s := by
  obtain ⟨k, num, refs⟩ := s
  have h1 : (refs.map (shiftNum n)).all (refOKSub (i + n) j) = refs.all (refOKSub i j) := by
    induction refs with
    | nil => rfl
    | cons r rs ih => simp only [List.map, List.all_cons, refOKSub_shift, ih]
  have h2 : (num.map (shiftNum n) == none || num.map (shiftNum n) == some (.sub (i + n) j))
      = (num == none || num == some (.sub i j)) := by
    cases num with
    | none => simp
    | some x =>
      have h' : (shiftNum n x == SNum.sub (i + n) j) = (x == SNum.sub i j) := beq_shift n x (.sub i j)
      simp [h']
  simp only [subOK, shiftSub, h1, h2]

theorem subsOK_shift (n i j : Nat) (ss : List Sub) :
    subsOK (i + n) j (ss.map (shiftSub n)) = subsOK i j ss := by
  induction ss generalizing j with
  | nil => rfl
  | cons s rest ih => simp only [List.map, subsOK, subOK_shift, ih]

theorem stepOK_shift (n i : Nat) (s : Step) : stepOK (i + n) (shiftStep n s) = stepOK i s := by
  obtain ⟨k, num, refs, subs⟩ := s
  have h1 : (refs.map (shiftNum n)).all (refOKTop (i + n)) = refs.all (refOKTop i) := by
    induction refs with
    | nil => rfl
    | cons r rs ih => simp only [List.map, List.all_cons, refOKTop_shift, ih]
  have h2 : (num.map (shiftNum n) == some (.top (i + n))) = (num == some (.top i)) := by
    cases num with
    | none => simp
    | some x =>
      have h' : (shiftNum n x == SNum.top (i + n)) = (x == SNum.top i) := beq_shift n x (.top i)
      simp [h']
  simp only [stepOK, shiftStep, h1, h2, subsOK_shift]

theorem stepsOK_shift (n i : Nat) (b : List Step) :
    stepsOK (i + n) (b.map (shiftStep n)) = stepsOK i b := by
  induction b generalizing i with
  | nil => rfl
  | cons s rest ih =>
    have : i + n + 1 = (i + 1) + n := by omega
    simp only [List.map, stepsOK, stepOK_shift, this, ih]

theorem stepsOK_appendBlock (plan block : List Step) (h : stepsOK 0 plan = true)
    (hb : stepsOK 0 block = true) : stepsOK 0 (appendBlock plan block) = true := by
  unfold appendBlock
  rw [stepsOK_append, h]
  have := stepsOK_shift plan.length 0 block
  simp only [Nat.zero_add] at this ⊢
  simp [this, hb]

theorem appendBlock_length (plan block : List Step) :
    (appendBlock plan block).length = plan.length + block.length := by
  simp [appendBlock]

/-! ### partition primitives -/

theorem modifyAt_last (f : Step → Step) (a : List Step) (x : Step) :
    modifyAt f (a ++ [x]) a.length = a ++ [f x] := by
  induction a with
  | nil => rfl
  | cons y ys ih => simp [modifyAt, ih]

theorem planAdd_eq (st : St) (k : Kind) (refs : List SNum) :
    planAdd st k refs =
      ({ st with plan := st.plan ++ [⟨k, some (.top st.plan.length), refs, []⟩] }, .top st.plan.length) := by
  simp [planAdd, addStep_fresh]

theorem addToPartition_last (st : St) (init : List Step) (mr : Step) (k : Kind) (refs : List SNum)
    (hp : st.plan = init ++ [mr]) :
    addToPartition st init.length k refs =
      ({ st with plan := init ++ [{ mr with subs := mr.subs ++ [⟨k, some (.sub init.length mr.subs.length), refs⟩] }] },
       .sub init.length mr.subs.length) := by
  unfold addToPartition
  have h1 : (init ++ [mr])[init.length]? = some mr := by simp
  simp only [hp, h1, modifyAt_last]

theorem closePartition_none (st : St) (h : st.partition = none) : closePartition st = st := by
  unfold closePartition; simp [h]

theorem addPlanStep_none (fixed : Bool) (st : St) (k : Kind) (refs : List SNum) (d : SNum)
    (h : st.partition = none) : addPlanStep fixed st k refs d false = planAdd st k refs := by
  unfold addPlanStep; simp [h, closePartition_none]

theorem addPlanStep_part (fixed : Bool) (st : St) (k : Kind) (refs : List SNum) (d : SNum) (ps : Bool)
    (p : Nat) (h : st.partition = some p) (hk : partitionable k = true) :
    addPlanStep fixed st k refs d ps = addToPartition st p k refs := by
  unfold addPlanStep; simp [h, hk]

theorem addPlanStep_fixed_close (st : St) (k : Kind) (refs : List SNum) (d : SNum)
    (hk : partitionable k = false) :
    addPlanStep true st k refs d false = planAdd (closePartition st) k refs := by
  unfold addPlanStep
  cases h : st.partition with
  | none => simp
  | some p => simp [hk]

end MindsVerif.Plan
