import MindsVerif.Lemmas.PlanStack
/-! The plan invariant is preserved by the join planner (T9.2). -/
namespace MindsVerif.Plan

/-! ### input well-formedness and the excluded class -/

/-- what the model's inputs must satisfy: `pre` references exist already when join planning starts
(`base` = length of the plan at that moment); sub-select planners satisfy C09 themselves -/
def OperandOK (base : Nat) : Operand → Prop
  | .table _ _ pre => pre.all (refOKTop base) = true
  | .predictor _ _ => True
  | .subselect _ f => Good base f

def TreeOK (base : Nat) (t : JT) : Prop := leavesAll (OperandOK base) t

/-- the open-partition fall-through cannot happen: no table / sub-select operand after a model that
carries `partition_size` (`opened` = a partition may already be open) -/
def noFallThrough : Bool → List Item → Bool
  | _, [] => true
  | opened, .jn :: r => noFallThrough opened r
  | opened, .op _ (.predictor _ ps) :: r => noFallThrough (opened || ps) r
  | opened, .op _ (.table _ _ _) :: r => !opened && noFallThrough opened r
  | opened, .op _ (.subselect _ _) :: r => !opened && noFallThrough opened r

/-- the join sequence the loop of `plan_join_tables` iterates over (`[]` when `get_join_sequence` raises) -/
def seqOf (t : JT) : List Item :=
  match getJoinSequence t 0 with
  | .ok (s, _) => swapModelFirst s
  | .error _ => []

theorem seqOf_all (P : Operand → Prop) (t : JT) (ht : leavesAll P t) : ∀ i o, Item.op i o ∈ seqOf t → P o := by
  unfold seqOf
  cases h : getJoinSequence t 0 with
  | error e => intro i o hm; cases hm
  | ok p =>
    obtain ⟨s, m⟩ := p
    intro i o hm
    exact getJoinSequence_all P t 0 s m h ht i o (swapModelFirst_mem _ _ hm)

/-! ### the state invariant between (operand, join) pairs -/

def FetchedOK (st : St) : Prop :=
  ∀ t r, lookupFetched t st.fetched = some r → refOKTop st.plan.length r = true

theorem refOKTop_mono {a b : Nat} (h : a ≤ b) (r : SNum) (hr : refOKTop a r = true) : refOKTop b r = true := by
  cases r with
  | top k => simp [refOKTop] at hr ⊢; omega
  | sub p i => simp [refOKTop] at hr

theorem FetchedOK_mono (st st' : St) (hf : st'.fetched = st.fetched) (hl : st.plan.length ≤ st'.plan.length)
    (h : FetchedOK st) : FetchedOK st' := by
  intro t r hr
  rw [hf] at hr
  exact refOKTop_mono hl r (h t r hr)

/-- invariant of the loop of `plan_join_tables` after the first operand and after every
(operand, join) pair; `base` is the plan the join planner started from -/
structure Mid (base : List Step) (st : St) : Prop where
  ok : stepsOK 0 st.plan = true
  fetched : FetchedOK st
  pre : base <+: st.plan
  closed : st.partition = none → ∃ k, st.stack = [.top k] ∧ k + 1 = st.plan.length ∧ base.length ≤ k
  opened : ∀ p, st.partition = some p → ∃ init mr j, st.plan = init ++ [mr] ∧ init.length = p ∧
    st.stack = [.sub p j] ∧ j + 1 = mr.subs.length ∧ base.length ≤ p

/-! ### steps while no partition is open -/

theorem addFilterSteps_closed (fixed : Bool) (dc : List Nat) (st : St) (acc : List SNum)
    (hp : st.partition = none) (hok : stepsOK 0 st.plan = true) (hf : FetchedOK st)
    (hacc : acc.all (refOKTop st.plan.length) = true) :
    ∃ ext, (addFilterSteps fixed dc st acc).1 = { st with plan := st.plan ++ ext } ∧
      stepsOK 0 (st.plan ++ ext) = true ∧
      (addFilterSteps fixed dc st acc).2.all (refOKTop (st.plan ++ ext).length) = true := by
  induction dc generalizing st acc with
  | nil => exact ⟨[], by simp [addFilterSteps], by simpa using hok, by simpa [addFilterSteps] using hacc⟩
  | cons t rest ih =>
    unfold addFilterSteps
    cases hl : lookupFetched t st.fetched with
    | none => exact ih st acc hp hok hf hacc
    | some r =>
      simp only [addPlanStep_none fixed st _ _ _ hp, planAdd_eq]
      have hr := hf t r hl
      let st1 : St := { st with plan := st.plan ++ [⟨.subselect, some (.top st.plan.length), [r], []⟩] }
      have hok1 : stepsOK 0 st1.plan = true := stepsOK_snoc_fresh _ _ _ hok (by simp [hr])
      have hf1 : FetchedOK st1 := FetchedOK_mono st st1 rfl (by simp [st1]) hf
      have hacc1 : (acc ++ [SNum.top st.plan.length]).all (refOKTop st1.plan.length) = true := by
        simp only [List.all_append, Bool.and_eq_true]
        constructor
        · rw [List.all_eq_true] at hacc ⊢
          intro x hx
          exact refOKTop_mono (by simp [st1]) x (hacc x hx)
        · simp [st1, refOKTop]
      obtain ⟨ext, e1, e2, e3⟩ := ih st1 (acc ++ [SNum.top st.plan.length]) hp hok1 hf1 hacc1
      refine ⟨⟨.subselect, some (.top st.plan.length), [r], []⟩ :: ext, ?_, ?_, ?_⟩
      · rw [e1]; simp [st1]
      · simpa [st1] using e2
      · simpa [st1] using e3

/-- what an operand does to a state without open partition (both variants of `add_plan_step`
coincide there): table and sub-select -/
theorem op_closed (fixed : Bool) (base : Nat) (st : St) (i : Nat) (o : Operand)
    (hp : st.partition = none) (hok : stepsOK 0 st.plan = true) (hf : FetchedOK st)
    (hb : base ≤ st.plan.length) (ho : OperandOK base o)
    (hnp : ∀ ts ps, o ≠ .predictor ts ps) (st' : St) (h : stepItem fixed st (.op i o) = .ok st') :
    ∃ ext n, st'.plan = st.plan ++ ext ∧ st'.stack = .top n :: st.stack ∧ n + 1 = st'.plan.length ∧
      st.plan.length ≤ n ∧ st'.partition = none ∧ stepsOK 0 st'.plan = true ∧ FetchedOK st' := by
  cases o with
  | predictor ts ps => exact absurd rfl (hnp ts ps)
  | table cte dc pre =>
    simp only [stepItem, processTable, Except.ok.injEq] at h
    obtain ⟨ext, e1, e2, e3⟩ := addFilterSteps_closed fixed dc st [] hp hok hf (by simp)
    have hp1 : (addFilterSteps fixed dc st []).1.partition = none := by rw [e1]; exact hp
    rw [addPlanStep_none fixed _ _ _ _ hp1, planAdd_eq] at h
    simp only [e1] at h
    subst h
    have hrefs : (pre ++ (addFilterSteps fixed dc st []).2).all
        (refOKTop (st.plan ++ ext).length) = true := by
      simp only [List.all_append, e3, Bool.and_true]
      simp only [OperandOK] at ho
      rw [List.all_eq_true] at ho ⊢
      intro x hx
      exact refOKTop_mono (by simp; omega) x (ho x hx)
    refine ⟨ext ++ [⟨if cte then .subselect else .fetch, some (.top (st.plan ++ ext).length),
        pre ++ (addFilterSteps fixed dc st []).2, []⟩], (st.plan ++ ext).length, by simp, rfl,
      by simp [Nat.add_assoc], by simp, hp, ?_, ?_⟩
    · exact stepsOK_snoc_fresh _ _ _ e2 hrefs
    · intro t r hr
      simp only [lookupFetched] at hr
      split at hr
      · simp at hr; subst hr; simp [refOKTop]
      · exact refOKTop_mono (by simp) r (hf t r hr)
  | subselect al f =>
    simp only [stepItem, processSubselect] at h
    have hg := ho st.plan hb hok
    cases hs : f st.plan with
    | error e => simp [hs] at h
    | ok r =>
      obtain ⟨plan1, x⟩ := r
      rw [hs] at hg
      obtain ⟨g1, g2, g3, g4⟩ := hg
      simp only [hs] at h
      cases al with
      | false => simp at h
      | true =>
        simp only [if_true, Except.ok.injEq] at h
        rw [addPlanStep_none fixed _ _ _ _ (by exact hp), planAdd_eq] at h
        simp only at h
        subst h
        obtain ⟨t, rfl⟩ := g2
        refine ⟨t ++ [⟨.subselect, some (.top (st.plan ++ t).length), [x], []⟩],
          (st.plan ++ t).length, by simp, rfl, by simp [Nat.add_assoc], by simp, hp, ?_, ?_⟩
        · exact stepsOK_snoc_fresh _ _ _ g1 (by subst g4; simp [refOKTop] at g3 ⊢; omega)
        · exact FetchedOK_mono st _ rfl (by simp) hf

/-- a top-level join of two stacked top-level results -/
theorem jn_closed (fixed : Bool) (st : St) (r l : SNum) (rest : List SNum)
    (hp : st.partition = none) (hs : st.stack = r :: l :: rest) :
    stepItem fixed st .jn = .ok { st with plan := st.plan ++ [⟨.join, some (.top st.plan.length), [l, r], []⟩],
                                           stack := .top st.plan.length :: rest } := by
  simp only [stepItem, processJoin, hs]
  rw [addPlanStep_none fixed _ _ _ _ (by exact hp), planAdd_eq]

theorem pred_closed_nops (fixed : Bool) (st : St) (i : Nat) (d : SNum) (rest : List SNum)
    (hp : st.partition = none) (hs : st.stack = d :: rest) :
    stepItem fixed st (.op i (.predictor false false)) =
      .ok { st with plan := st.plan ++ [⟨.apply, some (.top st.plan.length), [d], []⟩],
                    stack := .top st.plan.length :: d :: rest } := by
  simp only [stepItem, processPredictor, hs]
  rw [addPlanStep_none fixed _ _ _ _ hp, planAdd_eq]
  simp [hs]

theorem pred_closed_ps (fixed : Bool) (st : St) (i : Nat) (d : SNum) (rest : List SNum)
    (hp : st.partition = none) (hs : st.stack = d :: rest) :
    stepItem fixed st (.op i (.predictor false true)) =
      .ok { st with plan := st.plan ++ [⟨.mapreduce, some (.top st.plan.length), [d],
                                         [⟨.apply, some (.sub st.plan.length 0), [d]⟩]⟩],
                    stack := .sub st.plan.length 0 :: d :: rest,
                    partition := some st.plan.length } := by
  simp only [stepItem, processPredictor, hs]
  unfold addPlanStep
  simp only [hp, planAdd_eq, if_true]
  rw [addToPartition_last _ st.plan ⟨.mapreduce, some (.top st.plan.length), [d], []⟩ _ _ rfl]
  simp [hs]

/-! ### steps while a partition is open -/

theorem part_add (fixed : Bool) (st : St) (init : List Step) (mr : Step) (k : Kind) (refs : List SNum)
    (d : SNum) (ps : Bool) (hpl : st.plan = init ++ [mr]) (hp : st.partition = some init.length)
    (hk : partitionable k = true) :
    addPlanStep fixed st k refs d ps =
      ({ st with plan := init ++ [{ mr with subs := mr.subs ++ [⟨k, some (.sub init.length mr.subs.length), refs⟩] }] },
       .sub init.length mr.subs.length) := by
  rw [addPlanStep_part fixed st k refs d ps _ hp hk, addToPartition_last st init mr k refs hpl]

theorem stepOK_add_sub (p : Nat) (mr : Step) (k : Kind) (refs : List SNum) (h : stepOK p mr = true)
    (hr : refs.all (refOKSub p mr.subs.length) = true) :
    stepOK p { mr with subs := mr.subs ++ [⟨k, some (.sub p mr.subs.length), refs⟩] } = true := by
  simp only [stepOK, Bool.and_eq_true] at h ⊢
  refine ⟨h.1, ?_⟩
  rw [subsOK_append, h.2]
  simp [subsOK, subOK, hr]

end MindsVerif.Plan
