import MindsVerif.Lemmas.PlanInv
/-! T9.2: `plan_join_tables` / `PlanJoinTablesQuery.plan` preserve the plan invariant. -/
namespace MindsVerif.Plan

theorem prefix_length_le {a b : List Step} (h : a <+: b) : a.length ≤ b.length := by
  obtain ⟨t, rfl⟩ := h; simp

theorem prefix_init {base init : List Step} {x : Step} (h : base <+: init ++ [x])
    (hl : base.length ≤ init.length) : base <+: init :=
  List.prefix_of_prefix_length_le h (List.prefix_append init [x]) hl

/-- (operand, join) from a state without open partition -/
theorem pair_closed (fixed : Bool) (base : List Step) (st : St) (i : Nat) (o : Operand) (opened : Bool)
    (rest : List Item) (hm : Mid base st) (hp : st.partition = none)
    (ho : operandOK base.length o = true)
    (hnf : fixed = true ∨ noFallThrough opened (.op i o :: .jn :: rest) = true)
    (st1 : St) (h1 : stepItem fixed st (.op i o) = .ok st1) :
    ∃ st2, stepItem fixed st1 .jn = .ok st2 ∧ Mid base st2 ∧
      ∃ opened', (st2.partition.isSome = true → opened' = true) ∧
        (fixed = true ∨ noFallThrough opened' rest = true) := by
  obtain ⟨k, hs, hk, hbk⟩ := hm.closed hp
  have hbl : base.length ≤ st.plan.length := prefix_length_le hm.pre
  cases o with
  | predictor ts ps =>
    have hts : ts = false := by
      cases ts with
      | false => rfl
      | true => simp [stepItem, processPredictor, hs] at h1
    subst hts
    cases ps with
    | false =>
      rw [pred_closed_nops fixed st i _ _ hp hs] at h1
      simp only [Except.ok.injEq] at h1
      subst h1
      refine ⟨_, jn_closed fixed _ _ _ _ hp rfl, ?_, opened, ?_, ?_⟩
      · refine ⟨?_, ?_, ?_, ?_, ?_⟩
        · apply stepsOK_snoc_fresh
          · exact stepsOK_snoc_fresh _ _ _ hm.ok (by simp [refOKTop]; omega)
          · simp [refOKTop]; omega
        · exact FetchedOK_mono st _ rfl (by simp) hm.fetched
        · exact List.IsPrefix.trans hm.pre (by simp [List.append_assoc])
        · intro _; exact ⟨st.plan.length + 1, by simp, by simp, by omega⟩
        · intro p hp'; simp [hp] at hp'
      · simp [hp]
      · cases hnf with
        | inl h => exact Or.inl h
        | inr h => right; simpa [noFallThrough] using h
    | true =>
      rw [pred_closed_ps fixed st i _ _ hp hs] at h1
      simp only [Except.ok.injEq] at h1
      subst h1
      simp only [stepItem, processJoin]
      rw [part_add fixed _ st.plan _ .join _ _ _ rfl rfl rfl]
      refine ⟨_, rfl, ?_, true, fun _ => rfl, ?_⟩
      · refine ⟨?_, ?_, ?_, ?_, ?_⟩
        · simp only [stepsOK_append, hm.ok, Bool.true_and, Nat.zero_add, stepsOK, Bool.and_true]
          simp [stepOK, subsOK, subOK, refOKSub, refOKTop]
          omega
        · exact FetchedOK_mono st _ rfl (by simp) hm.fetched
        · exact List.IsPrefix.trans hm.pre (List.prefix_append _ _)
        · intro h; simp at h
        · intro p hp'
          simp only [Option.some.injEq] at hp'
          subst hp'
          exact ⟨st.plan, _, 1, rfl, rfl, rfl, by simp, hbl⟩
      · cases hnf with
        | inl h => exact Or.inl h
        | inr h => right; simpa [noFallThrough] using h
  | table cte dc pre =>
    obtain ⟨ext, n, e1, e2, e3, e4, e5, e6, e7⟩ :=
      op_closed fixed base.length st i _ hp hm.ok hm.fetched hbl ho (by intro ts ps h; cases h) st1 h1
    rw [hs] at e2
    refine ⟨_, jn_closed fixed st1 _ _ _ e5 e2, ?_, opened, ?_, ?_⟩
    · refine ⟨?_, ?_, ?_, ?_, ?_⟩
      · exact stepsOK_snoc_fresh _ _ _ e6 (by simp [refOKTop]; omega)
      · exact FetchedOK_mono st1 _ rfl (by simp) e7
      · exact List.IsPrefix.trans hm.pre (by rw [e1, List.append_assoc]; exact List.prefix_append _ _)
      · intro _; exact ⟨st1.plan.length, by simp, by simp, by omega⟩
      · intro p hp'; simp [e5] at hp'
    · simp [e5]
    · cases hnf with
      | inl h => exact Or.inl h
      | inr h => right; simp [noFallThrough] at h; exact h.2
  | subselect al b r =>
    obtain ⟨ext, n, e1, e2, e3, e4, e5, e6, e7⟩ :=
      op_closed fixed base.length st i _ hp hm.ok hm.fetched hbl ho (by intro ts ps h; cases h) st1 h1
    rw [hs] at e2
    refine ⟨_, jn_closed fixed st1 _ _ _ e5 e2, ?_, opened, ?_, ?_⟩
    · refine ⟨?_, ?_, ?_, ?_, ?_⟩
      · exact stepsOK_snoc_fresh _ _ _ e6 (by simp [refOKTop]; omega)
      · exact FetchedOK_mono st1 _ rfl (by simp) e7
      · exact List.IsPrefix.trans hm.pre (by rw [e1, List.append_assoc]; exact List.prefix_append _ _)
      · intro _; exact ⟨st1.plan.length, by simp, by simp, by omega⟩
      · intro p hp'; simp [e5] at hp'
    · simp [e5]
    · cases hnf with
      | inl h => exact Or.inl h
      | inr h => right; simp [noFallThrough] at h; exact h.2

/-! ### the repaired `add_plan_step` closes an open partition before a table / sub-select -/

theorem closePartition_idem (st : St) : closePartition (closePartition st) = closePartition st := by
  unfold closePartition
  cases h : st.partition <;> simp [h]

theorem closePartition_fetched (st : St) : (closePartition st).fetched = st.fetched := by
  unfold closePartition; cases st.partition <;> rfl

theorem closePartition_plan (st : St) : (closePartition st).plan = st.plan := by
  unfold closePartition; cases st.partition <;> rfl

theorem closePartition_partition (st : St) : (closePartition st).partition = none := by
  unfold closePartition; cases h : st.partition <;> simp [h]

theorem addFilterSteps_fixed_close (dc : List Nat) (st : St) (acc : List SNum) :
    addFilterSteps true dc (closePartition st) acc =
      (closePartition (addFilterSteps true dc st acc).1, (addFilterSteps true dc st acc).2) := by
  induction dc generalizing st acc with
  | nil => simp [addFilterSteps]
  | cons t rest ih =>
    unfold addFilterSteps
    rw [closePartition_fetched]
    cases hl : lookupFetched t st.fetched with
    | none => exact ih st acc
    | some r =>
      simp only [addPlanStep_fixed_close _ _ _ _ (show partitionable .subselect = false from rfl),
        closePartition_idem]
      -- both sides continue from the same closed state
      generalize hst1 : planAdd (closePartition st) Kind.subselect [r] = pr
      obtain ⟨st1, n⟩ := pr
      simp only
      have hc : closePartition st1 = st1 := by
        apply closePartition_none
        have : st1 = (planAdd (closePartition st) Kind.subselect [r]).1 := by rw [hst1]
        rw [this]; simp [planAdd, closePartition_partition]
      have := ih st1 (acc ++ [n])
      rw [hc] at this
      rw [← this]

theorem op_fixed_close (st : St) (i : Nat) (o : Operand) (hnp : ∀ ts ps, o ≠ .predictor ts ps) :
    stepItem true st (.op i o) = stepItem true (closePartition st) (.op i o) := by
  cases o with
  | predictor ts ps => exact absurd rfl (hnp ts ps)
  | table cte dc pre =>
    simp only [stepItem, processTable, addFilterSteps_fixed_close]
    have hk : partitionable (if cte = true then Kind.subselect else Kind.fetch) = false := by
      cases cte <;> rfl
    simp only [addPlanStep_fixed_close _ _ _ _ hk, closePartition_idem]
  | subselect al b r =>
    simp only [stepItem, processSubselect, closePartition_plan]
    cases al with
    | false => rfl
    | true =>
      simp only [if_true, addPlanStep_fixed_close _ _ _ _ (show partitionable .subselect = false from rfl)]
      have : closePartition { closePartition st with plan := appendBlock st.plan b } =
          closePartition { st with plan := appendBlock st.plan b } := by
        unfold closePartition
        cases h : st.partition <;> simp [h]
      rw [this]

theorem Mid_close (base : List Step) (st : St) (hm : Mid base st) : Mid base (closePartition st) := by
  cases hp : st.partition with
  | none => rw [closePartition_none st hp]; exact hm
  | some p =>
    obtain ⟨init, mr, j, e1, e2, e3, e4, e5⟩ := hm.opened p hp
    refine ⟨by rw [closePartition_plan]; exact hm.ok, ?_, by rw [closePartition_plan]; exact hm.pre, ?_, ?_⟩
    · intro t r hr
      rw [closePartition_fetched] at hr
      rw [closePartition_plan]
      exact hm.fetched t r hr
    · intro _
      refine ⟨p, ?_, ?_, e5⟩
      · unfold closePartition; simp [hp, e3]
      · rw [closePartition_plan, e1]; simp [e2]
    · intro q hq
      rw [closePartition_partition] at hq
      cases hq

/-- (operand, join) from any state satisfying the invariant -/
theorem pair_step (fixed : Bool) (base : List Step) (st : St) (i : Nat) (o : Operand) (opened : Bool)
    (rest : List Item) (hm : Mid base st) (ho : operandOK base.length o = true)
    (hopen : st.partition.isSome = true → opened = true)
    (hnf : fixed = true ∨ noFallThrough opened (.op i o :: .jn :: rest) = true)
    (st1 : St) (h1 : stepItem fixed st (.op i o) = .ok st1) :
    ∃ st2, stepItem fixed st1 .jn = .ok st2 ∧ Mid base st2 ∧
      ∃ opened', (st2.partition.isSome = true → opened' = true) ∧
        (fixed = true ∨ noFallThrough opened' rest = true) := by
  cases hp : st.partition with
  | none => exact pair_closed fixed base st i o opened rest hm hp ho hnf st1 h1
  | some p =>
    have hop : opened = true := hopen (by simp [hp])
    subst hop
    obtain ⟨init, mr, j, e1, e2, e3, e4, e5⟩ := hm.opened p hp
    subst e2
    have hmr : stepsOK 0 init = true ∧ stepOK init.length mr = true := by
      have := hm.ok
      rw [e1, stepsOK_append] at this
      simpa [stepsOK] using this
    cases o with
    | predictor ts ps =>
      have hts : ts = false := by
        cases ts with
        | false => rfl
        | true => simp [stepItem, processPredictor, e3] at h1
      subst hts
      simp only [stepItem, processPredictor, e3] at h1
      rw [part_add fixed st init mr .apply _ _ _ e1 hp rfl] at h1
      simp only [Bool.false_eq_true, if_false, Except.ok.injEq] at h1
      subst h1
      simp only [stepItem, processJoin, e3, hp]
      rw [part_add fixed _ init _ .join _ _ _ rfl rfl rfl]
      refine ⟨_, rfl, ?_, true, fun _ => rfl, ?_⟩
      · refine ⟨?_, ?_, ?_, ?_, ?_⟩
        · simp only [stepsOK_append, hmr.1, Bool.true_and, Nat.zero_add, stepsOK, Bool.and_true]
          have s1 := stepOK_add_sub init.length mr .apply [.sub init.length j] hmr.2
            (by simp [refOKSub]; omega)
          have s2 := stepOK_add_sub init.length _ .join
            [.sub init.length j, .sub init.length mr.subs.length] s1
            (by simp [refOKSub]; omega)
          simpa using s2
        · intro t r hr
          have := hm.fetched t r hr
          rw [e1] at this
          simpa using this
        · exact List.IsPrefix.trans (prefix_init (by rw [← e1]; exact hm.pre) e5) (List.prefix_append _ _)
        · intro h; simp at h
        · intro q hq
          simp only [Option.some.injEq] at hq
          subst hq
          exact ⟨init, _, mr.subs.length + 1, rfl, rfl, by simp, by simp, e5⟩
      · cases hnf with
        | inl h => exact Or.inl h
        | inr h => right; simpa [noFallThrough] using h
    | table cte dc pre =>
      cases hnf with
      | inr h => simp [noFallThrough] at h
      | inl hfx =>
        subst hfx
        rw [op_fixed_close st i _ (by intro ts ps h; cases h)] at h1
        exact pair_closed true base _ i _ true rest (Mid_close base st hm) (closePartition_partition st) ho
          (Or.inl rfl) st1 h1
    | subselect al b r =>
      cases hnf with
      | inr h => simp [noFallThrough] at h
      | inl hfx =>
        subst hfx
        rw [op_fixed_close st i _ (by intro ts ps h; cases h)] at h1
        exact pair_closed true base _ i _ true rest (Mid_close base st hm) (closePartition_partition st) ho
          (Or.inl rfl) st1 h1

theorem pairs_itemOK (base : Nat) (rest : List (Nat × Operand)) (h : (pairs rest).all (itemOK base) = true) :
    ∀ x ∈ rest, operandOK base x.2 = true := by
  induction rest with
  | nil => intro x hx; cases hx
  | cons y ys ih =>
    obtain ⟨i, o⟩ := y
    simp only [pairs, List.all_cons, itemOK, Bool.true_and, Bool.and_eq_true] at h
    intro x hx
    cases hx with
    | head => exact h.1
    | tail _ hx' => exact ih h.2 x hx'

theorem run_pairs_inv (fixed : Bool) (base : List Step) (rest : List (Nat × Operand)) (st : St) (opened : Bool)
    (hm : Mid base st) (ho : ∀ x ∈ rest, operandOK base.length x.2 = true)
    (hopen : st.partition.isSome = true → opened = true)
    (hnf : fixed = true ∨ noFallThrough opened (pairs rest) = true)
    (st' : St) (h : run fixed (pairs rest) st = .ok st') : Mid base st' := by
  induction rest generalizing st opened with
  | nil => simp [pairs, run] at h; subst h; exact hm
  | cons x xs ih =>
    obtain ⟨i, o⟩ := x
    simp only [pairs, run] at h
    cases h1 : stepItem fixed st (.op i o) with
    | error e => simp [h1] at h
    | ok st1 =>
      obtain ⟨st2, h2, hm2, opened', ho2, hnf2⟩ :=
        pair_step fixed base st i o opened (pairs xs) hm (ho (i, o) (List.mem_cons_self ..)) hopen hnf st1 h1
      simp only [h1, h2] at h
      exact ih st2 opened' hm2 (fun y hy => ho y (List.mem_cons_of_mem _ hy)) ho2 hnf2 h

/-- the first operand of the sequence -/
theorem first_op (fixed : Bool) (plan : List Step) (i : Nat) (o : Operand) (rest : List Item)
    (hok : stepsOK 0 plan = true) (ho : operandOK plan.length o = true)
    (hnf : fixed = true ∨ noFallThrough false (.op i o :: rest) = true)
    (st1 : St) (h1 : stepItem fixed ⟨plan, [], none, []⟩ (.op i o) = .ok st1) :
    Mid plan st1 ∧ st1.partition = none ∧ (fixed = true ∨ noFallThrough false rest = true) := by
  cases o with
  | predictor ts ps => simp [stepItem, processPredictor] at h1
  | table cte dc pre =>
    obtain ⟨ext, n, e1, e2, e3, e4, e5, e6, e7⟩ :=
      op_closed fixed plan.length ⟨plan, [], none, []⟩ i _ rfl hok (by intro t r hr; simp [lookupFetched] at hr)
        (Nat.le_refl _) ho (by intro ts ps h; cases h) st1 h1
    refine ⟨⟨e6, e7, by rw [e1]; exact List.prefix_append _ _, ?_, ?_⟩, e5, ?_⟩
    · intro _; exact ⟨n, e2, e3, e4⟩
    · intro p hp; simp [e5] at hp
    · cases hnf with
      | inl h => exact Or.inl h
      | inr h => right; simpa [noFallThrough] using h
  | subselect al b r =>
    obtain ⟨ext, n, e1, e2, e3, e4, e5, e6, e7⟩ :=
      op_closed fixed plan.length ⟨plan, [], none, []⟩ i _ rfl hok (by intro t r hr; simp [lookupFetched] at hr)
        (Nat.le_refl _) ho (by intro ts ps h; cases h) st1 h1
    refine ⟨⟨e6, e7, by rw [e1]; exact List.prefix_append _ _, ?_, ?_⟩, e5, ?_⟩
    · intro _; exact ⟨n, e2, e3, e4⟩
    · intro p hp; simp [e5] at hp
    · cases hnf with
      | inl h => exact Or.inl h
      | inr h => right; simpa [noFallThrough] using h

/-- **T9.2 (join tables)** -/
theorem planJoinTables_inv (fixed : Bool) (t : JT) (plan : List Step)
    (hok : stepsOK 0 plan = true) (ht : treeOK plan.length t = true)
    (hnf : fixed = true ∨ noFallThrough false (seqOf t) = true)
    (plan' : List Step) (x : SNum) (h : planJoinTables fixed t plan = .ok (plan', x)) :
    stepsOK 0 plan' = true ∧ plan <+: plan' ∧ plan.length < plan'.length ∧ x = .top (plan'.length - 1) := by
  have hitems := seqOf_itemOK plan.length t ht
  unfold planJoinTables at h
  unfold seqOf at hnf hitems
  cases hs : getJoinSequence t 0 with
  | error e => simp [hs] at h
  | ok p =>
    obtain ⟨s, m⟩ := p
    simp only [hs] at h hnf hitems
    obtain ⟨i, o, rest, e⟩ := getJoinSequence_shape t 0 s m hs
    subst e
    obtain ⟨i', o', rest', e'⟩ := swapModelFirst_shape i o rest
    rw [e'] at h hnf hitems
    simp only [run] at h
    simp only [List.all_cons, itemOK, Bool.and_eq_true] at hitems
    cases h1 : stepItem fixed ⟨plan, [], none, []⟩ (.op i' o') with
    | error e => simp [h1] at h
    | ok st1 =>
      obtain ⟨hm1, hp1, hnf1⟩ := first_op fixed plan i' o' (pairs rest') hok hitems.1 hnf st1 h1
      simp only [h1] at h
      cases h2 : run fixed (pairs rest') st1 with
      | error e => simp [h2] at h
      | ok st2 =>
        have hm2 := run_pairs_inv fixed plan rest' st1 false hm1
          (pairs_itemOK plan.length rest' hitems.2) (by simp [hp1]) hnf1 st2 h2
        have hm3 := Mid_close plan st2 hm2
        obtain ⟨k, e1, e2, e3⟩ := hm3.closed (closePartition_partition st2)
        simp only [h2, e1, Except.ok.injEq, Prod.mk.injEq] at h
        obtain ⟨rfl, rfl⟩ := h
        exact ⟨hm3.ok, hm3.pre, by omega, by congr 1; omega⟩

/-! ### the wrapper: blocks planned first, `QueryStep` last -/

def preOK : List (List Step × Nat × Bool) → Bool
  | [] => true
  | (b, r, _) :: rest => stepsOK 0 b && decide (r < b.length) && preOK rest

theorem planPre_inv (pre : List (List Step × Nat × Bool)) (plan : List Step) (acc : List SNum)
    (hok : stepsOK 0 plan = true) (hpre : preOK pre = true) (hacc : acc.all (refOKTop plan.length) = true) :
    stepsOK 0 (planPre pre plan acc).1 = true ∧ plan <+: (planPre pre plan acc).1 ∧
      (planPre pre plan acc).2.all (refOKTop (planPre pre plan acc).1.length) = true := by
  induction pre generalizing plan acc with
  | nil => exact ⟨hok, List.prefix_refl _, hacc⟩
  | cons x xs ih =>
    obtain ⟨b, r, keep⟩ := x
    simp only [preOK, Bool.and_eq_true, decide_eq_true_eq] at hpre
    simp only [planPre]
    have hok1 := stepsOK_appendBlock plan b hok hpre.1.1
    have hl : plan.length ≤ (appendBlock plan b).length := by simp [appendBlock_length]
    have hacc1 : (if keep = true then acc ++ [SNum.top (plan.length + r)] else acc).all
        (refOKTop (appendBlock plan b).length) = true := by
      have hmono : acc.all (refOKTop (appendBlock plan b).length) = true := by
        rw [List.all_eq_true] at hacc ⊢
        intro y hy; exact refOKTop_mono hl y (hacc y hy)
      cases keep with
      | false => simpa using hmono
      | true =>
        simp only [if_true, List.all_append, hmono, Bool.true_and]
        simp [refOKTop, appendBlock_length]; omega
    obtain ⟨a1, a2, a3⟩ := ih (appendBlock plan b) _ hok1 hpre.2 hacc1
    exact ⟨a1, List.IsPrefix.trans (List.prefix_append _ _) a2, a3⟩

/-- **T9.2** `PlanJoinTablesQuery.plan` (blocks for CTEs / nested selects, the join sequence, the optional
`QueryStep`) preserves the invariant and returns the last step, for the repaired `add_plan_step`
unconditionally and for the pinned one whenever the open-partition fall-through cannot occur. -/
theorem planJoin_inv (fixed : Bool) (q : JQ) (plan : List Step)
    (hok : stepsOK 0 plan = true) (hpre : preOK q.pre = true)
    (ht : treeOK (planPre q.pre plan []).1.length q.tree = true)
    (hnf : fixed = true ∨ noFallThrough false (seqOf q.tree) = true)
    (plan' : List Step) (x : SNum) (h : planJoin fixed q plan = .ok (plan', x)) :
    stepsOK 0 plan' = true ∧ plan <+: plan' ∧ plan.length < plan'.length ∧ x = .top (plan'.length - 1) := by
  obtain ⟨p1, p2, p3⟩ := planPre_inv q.pre plan [] hok hpre (by simp)
  unfold planJoin at h
  cases hj : planJoinTables fixed q.tree (planPre q.pre plan []).1 with
  | error e => simp [hj] at h
  | ok r =>
    obtain ⟨plan1, j⟩ := r
    obtain ⟨j1, j2, j3, j4⟩ := planJoinTables_inv fixed q.tree _ p1 ht hnf plan1 j hj
    have hl := prefix_length_le p2
    simp only [hj] at h
    cases hw : q.wrap with
    | false =>
      simp only [hw, Bool.false_eq_true, if_false, Except.ok.injEq, Prod.mk.injEq] at h
      obtain ⟨rfl, rfl⟩ := h
      exact ⟨j1, List.IsPrefix.trans p2 j2, by omega, j4⟩
    | true =>
      simp only [hw, if_true, Except.ok.injEq, Prod.mk.injEq] at h
      obtain ⟨rfl, rfl⟩ := h
      refine ⟨?_, ?_, ?_, ?_⟩
      · apply addStep_ok _ _ j1 (Or.inl rfl)
        · simp only [List.all_cons, Bool.and_eq_true]
          constructor
          · subst j4; simp [refOKTop]; omega
          · rw [List.all_eq_true] at p3 ⊢
            intro y hy; exact refOKTop_mono (by omega) y (p3 y hy)
        · rfl
      · exact List.IsPrefix.trans p2 (List.IsPrefix.trans j2 (by simp [addStep]))
      · simp [addStep]; omega
      · simp [addStep]

end MindsVerif.Plan
