import MindsVerif.Lemmas.PlanInv
/-! T9.2: `plan_join_tables` / `PlanJoinTablesQuery.plan` preserve the plan invariant. -/
namespace MindsVerif.Plan

theorem prefix_length_le {a b : List Step} (h : a <+: b) : a.length ≤ b.length := by
  obtain ⟨t, rfl⟩ := h; simp

theorem prefix_init {base init : List Step} {x : Step} (h : base <+: init ++ [x])
    (hl : base.length ≤ init.length) : base <+: init :=
  List.prefix_of_prefix_length_le h (List.prefix_append init [x]) hl

/-- (operand, join) from a state without open partition -/
theorem pair_closed (fixed : Bool) (base : List Step) (st : St) (i : Nat) (o : Operand) (opened : Bool)
    (rest : List Item) (hm : Mid base st) (hp : st.partition = none)
    (ho : OperandOK base.length o)
    (hnf : fixed = true ∨ noFallThrough opened (.op i o :: .jn :: rest) = true)
    (st1 : St) (h1 : stepItem fixed st (.op i o) = .ok st1) :
    ∃ st2, stepItem fixed st1 .jn = .ok st2 ∧ Mid base st2 ∧
      ∃ opened', (st2.partition.isSome = true → opened' = true) ∧
        (fixed = true ∨ noFallThrough opened' rest = true) := by
  obtain ⟨k, hs, hk, hbk⟩ := hm.closed hp
  have hbl : base.length ≤ st.plan.length := prefix_length_le hm.pre
  cases o with
  | predictor ts ps =>
    have hts : ts = false := by
      cases ts with
      | false => rfl
      | true => simp [stepItem, processPredictor, hs] at h1
    subst hts
    cases ps with
    | false =>
      rw [pred_closed_nops fixed st i _ _ hp hs] at h1
      simp only [Except.ok.injEq] at h1
      subst h1
      refine ⟨_, jn_closed fixed _ _ _ _ hp rfl, ?_, opened, ?_, ?_⟩
      · refine ⟨?_, ?_, ?_, ?_, ?_⟩
        · apply stepsOK_snoc_fresh
          · exact stepsOK_snoc_fresh _ _ _ hm.ok (by simp [refOKTop]; omega)
          · simp [refOKTop]; omega
        · exact FetchedOK_mono st _ rfl (by simp) hm.fetched
        · exact List.IsPrefix.trans hm.pre (by simp [List.append_assoc])
        · intro _; exact ⟨st.plan.length + 1, by simp, by simp, by omega⟩
        · intro p hp'; simp [hp] at hp'
      · simp [hp]
      · cases hnf with
        | inl h => exact Or.inl h
        | inr h => right; simpa [noFallThrough] using h
    | true =>
      rw [pred_closed_ps fixed st i _ _ hp hs] at h1
      simp only [Except.ok.injEq] at h1
      subst h1
      simp only [stepItem, processJoin]
      rw [part_add fixed _ st.plan _ .join _ _ _ rfl rfl rfl]
      refine ⟨_, rfl, ?_, true, fun _ => rfl, ?_⟩
      · refine ⟨?_, ?_, ?_, ?_, ?_⟩
        · simp only [stepsOK_append, hm.ok, Bool.true_and, Nat.zero_add, stepsOK, Bool.and_true]
          simp [stepOK, subsOK, subOK, refOKSub, refOKTop]
          omega
        · exact FetchedOK_mono st _ rfl (by simp) hm.fetched
        · exact List.IsPrefix.trans hm.pre (List.prefix_append _ _)
        · intro h; simp at h
        · intro p hp'
          simp only [Option.some.injEq] at hp'
          subst hp'
          exact ⟨st.plan, _, 1, rfl, rfl, rfl, by simp, hbl⟩
      · cases hnf with
        | inl h => exact Or.inl h
        | inr h => right; simpa [noFallThrough] using h
  | table cte dc pre =>
    obtain ⟨ext, n, e1, e2, e3, e4, e5, e6, e7⟩ :=
      op_closed fixed base.length st i _ hp hm.ok hm.fetched hbl ho (by intro ts ps h; cases h) st1 h1
    rw [hs] at e2
    refine ⟨_, jn_closed fixed st1 _ _ _ e5 e2, ?_, opened, ?_, ?_⟩
    · refine ⟨?_, ?_, ?_, ?_, ?_⟩
      · exact stepsOK_snoc_fresh _ _ _ e6 (by simp [refOKTop]; omega)
      · exact FetchedOK_mono st1 _ rfl (by simp) e7
      · exact List.IsPrefix.trans hm.pre (by rw [e1, List.append_assoc]; exact List.prefix_append _ _)
      · intro _; exact ⟨st1.plan.length, by simp, by simp, by omega⟩
      · intro p hp'; simp [e5] at hp'
    · simp [e5]
    · cases hnf with
      | inl h => exact Or.inl h
      | inr h => right; simp [noFallThrough] at h; exact h.2
  | subselect al f =>
    obtain ⟨ext, n, e1, e2, e3, e4, e5, e6, e7⟩ :=
      op_closed fixed base.length st i _ hp hm.ok hm.fetched hbl ho (by intro ts ps h; cases h) st1 h1
    rw [hs] at e2
    refine ⟨_, jn_closed fixed st1 _ _ _ e5 e2, ?_, opened, ?_, ?_⟩
    · refine ⟨?_, ?_, ?_, ?_, ?_⟩
      · exact stepsOK_snoc_fresh _ _ _ e6 (by simp [refOKTop]; omega)
      · exact FetchedOK_mono st1 _ rfl (by simp) e7
      · exact List.IsPrefix.trans hm.pre (by rw [e1, List.append_assoc]; exact List.prefix_append _ _)
      · intro _; exact ⟨st1.plan.length, by simp, by simp, by omega⟩
      · intro p hp'; simp [e5] at hp'
    · simp [e5]
    · cases hnf with
      | inl h => exact Or.inl h
      | inr h => right; simp [noFallThrough] at h; exact h.2

/-! ### the repaired `add_plan_step` closes an open partition before a table / sub-select -/

theorem closePartition_idem (st : St) : closePartition (closePartition st) = closePartition st := by
  unfold closePartition
  cases h : st.partition <;> simp [h]

theorem closePartition_fetched (st : St) : (closePartition st).fetched = st.fetched := by
  unfold closePartition; cases st.partition <;> rfl

theorem closePartition_plan (st : St) : (closePartition st).plan = st.plan := by
  unfold closePartition; cases st.partition <;> rfl

theorem closePartition_partition (st : St) : (closePartition st).partition = none := by
  unfold closePartition; cases h : st.partition <;> simp [h]

theorem addFilterSteps_fixed_close (dc : List Nat) (st : St) (acc : List SNum) :
    addFilterSteps true dc (closePartition st) acc =
      (closePartition (addFilterSteps true dc st acc).1, (addFilterSteps true dc st acc).2) := by
  induction dc generalizing st acc with
  | nil => simp [addFilterSteps]
  | cons t rest ih =>
    unfold addFilterSteps
    rw [closePartition_fetched]
    cases hl : lookupFetched t st.fetched with
    | none => exact ih st acc
    | some r =>
      simp only [addPlanStep_fixed_close _ _ _ _ (show partitionable .subselect = false from rfl),
        closePartition_idem]
      -- both sides continue from the same closed state
      generalize hst1 : planAdd (closePartition st) Kind.subselect [r] = pr
      obtain ⟨st1, n⟩ := pr
      simp only
      have hc : closePartition st1 = st1 := by
        apply closePartition_none
        have : st1 = (planAdd (closePartition st) Kind.subselect [r]).1 := by rw [hst1]
        rw [this]; simp [planAdd, closePartition_partition]
      have := ih st1 (acc ++ [n])
      rw [hc] at this
      rw [← this]

theorem op_fixed_close (st : St) (i : Nat) (o : Operand) (hnp : ∀ ts ps, o ≠ .predictor ts ps) :
    stepItem true st (.op i o) = stepItem true (closePartition st) (.op i o) := by
  cases o with
  | predictor ts ps => exact absurd rfl (hnp ts ps)
  | table cte dc pre =>
    simp only [stepItem, processTable, addFilterSteps_fixed_close]
    have hk : partitionable (if cte = true then Kind.subselect else Kind.fetch) = false := by
      cases cte <;> rfl
    simp only [addPlanStep_fixed_close _ _ _ _ hk, closePartition_idem]
  | subselect al f =>
    simp only [stepItem, processSubselect, closePartition_plan]
    cases hs : f st.plan with
    | error e => rfl
    | ok r =>
      obtain ⟨plan1, x⟩ := r
      cases al with
      | false => rfl
      | true =>
        simp only [if_true, addPlanStep_fixed_close _ _ _ _ (show partitionable .subselect = false from rfl)]
        have : closePartition { closePartition st with plan := plan1 } =
            closePartition { st with plan := plan1 } := by
          unfold closePartition
          cases h : st.partition <;> simp [h]
        rw [this]

theorem Mid_close (base : List Step) (st : St) (hm : Mid base st) : Mid base (closePartition st) := by
  cases hp : st.partition with
  | none => rw [closePartition_none st hp]; exact hm
  | some p =>
    obtain ⟨init, mr, j, e1, e2, e3, e4, e5⟩ := hm.opened p hp
    refine ⟨by rw [closePartition_plan]; exact hm.ok, ?_, by rw [closePartition_plan]; exact hm.pre, ?_, ?_⟩
    · intro t r hr
      rw [closePartition_fetched] at hr
      rw [closePartition_plan]
      exact hm.fetched t r hr
    · intro _
      refine ⟨p, ?_, ?_, e5⟩
      · unfold closePartition; simp [hp, e3]
      · rw [closePartition_plan, e1]; simp [e2]
    · intro q hq
      rw [closePartition_partition] at hq
      cases hq

/-- (operand, join) from any state satisfying the invariant -/
theorem pair_step (fixed : Bool) (base : List Step) (st : St) (i : Nat) (o : Operand) (opened : Bool)
    (rest : List Item) (hm : Mid base st) (ho : OperandOK base.length o)
    (hopen : st.partition.isSome = true → opened = true)
    (hnf : fixed = true ∨ noFallThrough opened (.op i o :: .jn :: rest) = true)
    (st1 : St) (h1 : stepItem fixed st (.op i o) = .ok st1) :
    ∃ st2, stepItem fixed st1 .jn = .ok st2 ∧ Mid base st2 ∧
      ∃ opened', (st2.partition.isSome = true → opened' = true) ∧
        (fixed = true ∨ noFallThrough opened' rest = true) := by
  cases hp : st.partition with
  | none => exact pair_closed fixed base st i o opened rest hm hp ho hnf st1 h1
  | some p =>
    have hop : opened = true := hopen (by simp [hp])
    subst hop
    obtain ⟨init, mr, j, e1, e2, e3, e4, e5⟩ := hm.opened p hp
    subst e2
    have hmr : stepsOK 0 init = true ∧ stepOK init.length mr = true := by
      have := hm.ok
      rw [e1, stepsOK_append] at this
      simpa [stepsOK] using this
    cases o with
    | predictor ts ps =>
      have hts : ts = false := by
        cases ts with
        | false => rfl
        | true => simp [stepItem, processPredictor, e3] at h1
      subst hts
      simp only [stepItem, processPredictor, e3] at h1
      rw [part_add fixed st init mr .apply _ _ _ e1 hp rfl] at h1
      simp only [Bool.false_eq_true, if_false, Except.ok.injEq] at h1
      subst h1
      simp only [stepItem, processJoin, e3, hp]
      rw [part_add fixed _ init _ .join _ _ _ rfl rfl rfl]
      refine ⟨_, rfl, ?_, true, fun _ => rfl, ?_⟩
      · refine ⟨?_, ?_, ?_, ?_, ?_⟩
        · simp only [stepsOK_append, hmr.1, Bool.true_and, Nat.zero_add, stepsOK, Bool.and_true]
          have s1 := stepOK_add_sub init.length mr .apply [.sub init.length j] hmr.2
            (by simp [refOKSub]; omega)
          have s2 := stepOK_add_sub init.length _ .join
            [.sub init.length j, .sub init.length mr.subs.length] s1
            (by simp [refOKSub]; omega)
          simpa using s2
        · intro t r hr
          have := hm.fetched t r hr
          rw [e1] at this
          simpa using this
        · exact List.IsPrefix.trans (prefix_init (by rw [← e1]; exact hm.pre) e5) (List.prefix_append _ _)
        · intro h; simp at h
        · intro q hq
          simp only [Option.some.injEq] at hq
          subst hq
          exact ⟨init, _, mr.subs.length + 1, rfl, rfl, by simp, by simp, e5⟩
      · cases hnf with
        | inl h => exact Or.inl h
        | inr h => right; simpa [noFallThrough] using h
    | table cte dc pre =>
      cases hnf with
      | inr h => simp [noFallThrough] at h
      | inl hfx =>
        subst hfx
        rw [op_fixed_close st i _ (by intro ts ps h; cases h)] at h1
        exact pair_closed true base _ i _ true rest (Mid_close base st hm) (closePartition_partition st) ho
          (Or.inl rfl) st1 h1
    | subselect al f =>
      cases hnf with
      | inr h => simp [noFallThrough] at h
      | inl hfx =>
        subst hfx
        rw [op_fixed_close st i _ (by intro ts ps h; cases h)] at h1
        exact pair_closed true base _ i _ true rest (Mid_close base st hm) (closePartition_partition st) ho
          (Or.inl rfl) st1 h1

theorem run_pairs_inv (fixed : Bool) (base : List Step) (rest : List (Nat × Operand)) (st : St) (opened : Bool)
    (hm : Mid base st) (ho : ∀ x ∈ rest, OperandOK base.length x.2)
    (hopen : st.partition.isSome = true → opened = true)
    (hnf : fixed = true ∨ noFallThrough opened (pairs rest) = true)
    (st' : St) (h : run fixed (pairs rest) st = .ok st') : Mid base st' := by
  induction rest generalizing st opened with
  | nil => simp [pairs, run] at h; subst h; exact hm
  | cons x xs ih =>
    obtain ⟨i, o⟩ := x
    simp only [pairs, run] at h
    cases h1 : stepItem fixed st (.op i o) with
    | error e => simp [h1] at h
    | ok st1 =>
      obtain ⟨st2, h2, hm2, opened', ho2, hnf2⟩ :=
        pair_step fixed base st i o opened (pairs xs) hm (ho (i, o) (List.mem_cons_self ..)) hopen hnf st1 h1
      simp only [h1, h2] at h
      exact ih st2 opened' hm2 (fun y hy => ho y (List.mem_cons_of_mem _ hy)) ho2 hnf2 h

/-- the first operand of the sequence -/
theorem first_op (fixed : Bool) (plan : List Step) (i : Nat) (o : Operand) (rest : List Item)
    (hok : stepsOK 0 plan = true) (ho : OperandOK plan.length o)
    (hnf : fixed = true ∨ noFallThrough false (.op i o :: rest) = true)
    (st1 : St) (h1 : stepItem fixed ⟨plan, [], none, []⟩ (.op i o) = .ok st1) :
    Mid plan st1 ∧ st1.partition = none ∧ (fixed = true ∨ noFallThrough false rest = true) := by
  cases o with
  | predictor ts ps => simp [stepItem, processPredictor] at h1
  | table cte dc pre =>
    obtain ⟨ext, n, e1, e2, e3, e4, e5, e6, e7⟩ :=
      op_closed fixed plan.length ⟨plan, [], none, []⟩ i _ rfl hok (by intro t r hr; simp [lookupFetched] at hr)
        (Nat.le_refl _) ho (by intro ts ps h; cases h) st1 h1
    refine ⟨⟨e6, e7, by rw [e1]; exact List.prefix_append _ _, ?_, ?_⟩, e5, ?_⟩
    · intro _; exact ⟨n, e2, e3, e4⟩
    · intro p hp; simp [e5] at hp
    · cases hnf with
      | inl h => exact Or.inl h
      | inr h => right; simpa [noFallThrough] using h
  | subselect al f =>
    obtain ⟨ext, n, e1, e2, e3, e4, e5, e6, e7⟩ :=
      op_closed fixed plan.length ⟨plan, [], none, []⟩ i _ rfl hok (by intro t r hr; simp [lookupFetched] at hr)
        (Nat.le_refl _) ho (by intro ts ps h; cases h) st1 h1
    refine ⟨⟨e6, e7, by rw [e1]; exact List.prefix_append _ _, ?_, ?_⟩, e5, ?_⟩
    · intro _; exact ⟨n, e2, e3, e4⟩
    · intro p hp; simp [e5] at hp
    · cases hnf with
      | inl h => exact Or.inl h
      | inr h => right; simpa [noFallThrough] using h

/-- **T9.2 (join tables)** -/
theorem planJoinTables_inv (fixed : Bool) (t : JT) (plan : List Step)
    (hok : stepsOK 0 plan = true) (ht : TreeOK plan.length t)
    (hnf : fixed = true ∨ noFallThrough false (seqOf t) = true)
    (plan' : List Step) (x : SNum) (h : planJoinTables fixed t plan = .ok (plan', x)) :
    stepsOK 0 plan' = true ∧ plan <+: plan' ∧ plan.length < plan'.length ∧ x = .top (plan'.length - 1) := by
  have hitems := seqOf_all (OperandOK plan.length) t ht
  unfold planJoinTables at h
  unfold seqOf at hnf hitems
  cases hs : getJoinSequence t 0 with
  | error e => simp [hs] at h
  | ok p =>
    obtain ⟨s, m⟩ := p
    simp only [hs] at h hnf hitems
    obtain ⟨i, o, rest, e⟩ := getJoinSequence_shape t 0 s m hs
    subst e
    obtain ⟨i', o', rest', e'⟩ := swapModelFirst_shape i o rest
    rw [e'] at h hnf hitems
    simp only [run] at h
    cases h1 : stepItem fixed ⟨plan, [], none, []⟩ (.op i' o') with
    | error e => simp [h1] at h
    | ok st1 =>
      obtain ⟨hm1, hp1, hnf1⟩ := first_op fixed plan i' o' (pairs rest') hok
        (hitems i' o' (List.mem_cons_self ..)) hnf st1 h1
      simp only [h1] at h
      cases h2 : run fixed (pairs rest') st1 with
      | error e => simp [h2] at h
      | ok st2 =>
        have hm2 := run_pairs_inv fixed plan rest' st1 false hm1
          (fun x hx => hitems x.1 x.2 (List.mem_cons_of_mem _ (pairs_mem rest' x.1 x.2 hx)))
          (by simp [hp1]) hnf1 st2 h2
        have hm3 := Mid_close plan st2 hm2
        obtain ⟨k, e1, e2, e3⟩ := hm3.closed (closePartition_partition st2)
        simp only [h2, e1, Except.ok.injEq, Prod.mk.injEq] at h
        obtain ⟨rfl, rfl⟩ := h
        exact ⟨hm3.ok, hm3.pre, by omega, by congr 1; omega⟩

/-- an operand that fails from a well-formed plan fails with a user-level error -/
theorem op_err_user (fixed : Bool) (base : Nat) (st : St) (i : Nat) (o : Operand)
    (hok : stepsOK 0 st.plan = true) (hb : base ≤ st.plan.length) (ho : OperandOK base o)
    (e : Err) (h : stepItem fixed st (.op i o) = .error e) : IsUserErr e := by
  cases o with
  | table c dc pre => simp [stepItem] at h
  | predictor ts ps =>
    simp only [stepItem, processPredictor] at h
    cases hs : st.stack with
    | nil => simp [hs] at h; subst h; trivial
    | cons d rest =>
      cases ts with
      | true => simp [hs] at h; subst h; trivial
      | false => simp [hs] at h
  | subselect al f =>
    simp only [stepItem, processSubselect] at h
    have hg := ho st.plan hb hok
    cases hs : f st.plan with
    | error e' => rw [hs] at hg; simp [hs] at h; subst h; exact hg
    | ok r =>
      obtain ⟨plan1, x⟩ := r
      cases al with
      | false => simp [hs] at h; subst h; trivial
      | true => simp [hs] at h

theorem run_pairs_err (fixed : Bool) (base : List Step) (rest : List (Nat × Operand)) (st : St) (opened : Bool)
    (hm : Mid base st) (ho : ∀ x ∈ rest, OperandOK base.length x.2)
    (hopen : st.partition.isSome = true → opened = true)
    (hnf : fixed = true ∨ noFallThrough opened (pairs rest) = true)
    (e : Err) (h : run fixed (pairs rest) st = .error e) : IsUserErr e := by
  induction rest generalizing st opened with
  | nil => simp [pairs, run] at h
  | cons x xs ih =>
    obtain ⟨i, o⟩ := x
    simp only [pairs, run] at h
    cases h1 : stepItem fixed st (.op i o) with
    | error e1 =>
      simp [h1] at h; subst h
      exact op_err_user fixed base.length st i o hm.ok (prefix_length_le hm.pre)
        (ho (i, o) (List.mem_cons_self ..)) e1 h1
    | ok st1 =>
      obtain ⟨st2, h2, hm2, opened', ho2, hnf2⟩ :=
        pair_step fixed base st i o opened (pairs xs) hm (ho (i, o) (List.mem_cons_self ..)) hopen hnf st1 h1
      simp only [h1, h2] at h
      exact ih st2 opened' hm2 (fun y hy => ho y (List.mem_cons_of_mem _ hy)) ho2 hnf2 h

/-- from a well-formed plan the join planner fails only with user-level errors -/
theorem planJoinTables_err (fixed : Bool) (t : JT) (plan : List Step)
    (hok : stepsOK 0 plan = true) (ht : TreeOK plan.length t)
    (hnf : fixed = true ∨ noFallThrough false (seqOf t) = true)
    (e : Err) (h : planJoinTables fixed t plan = .error e) : IsUserErr e := by
  have hitems := seqOf_all (OperandOK plan.length) t ht
  unfold planJoinTables at h
  unfold seqOf at hnf hitems
  cases hs : getJoinSequence t 0 with
  | error e1 => simp [hs] at h; subst h; exact getJoinSequence_error_user t 0 e1 hs
  | ok p =>
    obtain ⟨s, m⟩ := p
    simp only [hs] at h hnf hitems
    obtain ⟨i, o, rest, e0⟩ := getJoinSequence_shape t 0 s m hs
    subst e0
    obtain ⟨i', o', rest', e'⟩ := swapModelFirst_shape i o rest
    rw [e'] at h hnf hitems
    simp only [run] at h
    cases h1 : stepItem fixed ⟨plan, [], none, []⟩ (.op i' o') with
    | error e1 =>
      simp [h1] at h; subst h
      exact op_err_user fixed plan.length ⟨plan, [], none, []⟩ i' o' hok (Nat.le_refl _)
        (hitems i' o' (List.mem_cons_self ..)) e1 h1
    | ok st1 =>
      obtain ⟨hm1, hp1, hnf1⟩ := first_op fixed plan i' o' (pairs rest') hok
        (hitems i' o' (List.mem_cons_self ..)) hnf st1 h1
      simp only [h1] at h
      have hrest : ∀ x ∈ rest', OperandOK plan.length x.2 :=
        fun x hx => hitems x.1 x.2 (List.mem_cons_of_mem _ (pairs_mem rest' x.1 x.2 hx))
      cases h2 : run fixed (pairs rest') st1 with
      | error e2 =>
        simp [h2] at h; subst h
        exact run_pairs_err fixed plan rest' st1 false hm1 hrest (by simp [hp1]) hnf1 e2 h2
      | ok st2 =>
        have hm2 := run_pairs_inv fixed plan rest' st1 false hm1 hrest (by simp [hp1]) hnf1 st2 h2
        have hm3 := Mid_close plan st2 hm2
        obtain ⟨k, e1, e2, e3⟩ := hm3.closed (closePartition_partition st2)
        simp [h2, e1] at h

theorem TreeOK.mono {n m : Nat} {t : JT} (h : TreeOK n t) (hnm : n ≤ m) : TreeOK m t := by
  induction t with
  | leaf o =>
    cases o with
    | table c d pre =>
      simp only [TreeOK, leavesAll, OperandOK] at h ⊢
      rw [List.all_eq_true] at h ⊢
      intro x hx; exact refOKTop_mono hnm x (h x hx)
    | predictor ts ps => trivial
    | subselect al f => exact Good.mono h hnm
  | join l r ihl ihr => exact ⟨ihl h.1, ihr h.2⟩
  | bad => trivial

/-- **T9.2** `PlanJoinTablesQuery.plan` (the join sequence and the optional `QueryStep`) satisfies C09: for the
repaired `add_plan_step` unconditionally, for the one without `close_partition` on the fall-through path whenever
the fall-through cannot occur. -/
theorem planJoin_good (fixed : Bool) (n : Nat) (t : JT) (wrap : Bool) (params : List SNum)
    (ht : TreeOK n t) (hp : params.all (refOKTop n) = true)
    (hnf : fixed = true ∨ noFallThrough false (seqOf t) = true) : Good n (planJoin fixed t wrap params) := by
  intro plan hl hok
  unfold planJoin
  cases hj : planJoinTables fixed t plan with
  | error e => exact planJoinTables_err fixed t plan hok (ht.mono hl) hnf e hj
  | ok r =>
    obtain ⟨plan1, j⟩ := r
    obtain ⟨j1, j2, j3, j4⟩ := planJoinTables_inv fixed t plan hok (ht.mono hl) hnf plan1 j hj
    cases wrap with
    | false => exact ⟨j1, j2, j3, j4⟩
    | true =>
      simp only [if_true]
      refine ⟨?_, ?_, ?_, ?_⟩
      · apply addStep_ok _ _ j1 (Or.inl rfl)
        · simp only [List.all_cons, Bool.and_eq_true]
          constructor
          · subst j4; simp [refOKTop]; omega
          · rw [List.all_eq_true] at hp ⊢
            intro y hy; exact refOKTop_mono (by omega) y (hp y hy)
        · rfl
      · exact List.IsPrefix.trans j2 (by simp [addStep])
      · simp [addStep]; omega
      · simp [addStep]

end MindsVerif.Plan
