import MindsVerif.Model.PlanQ
import MindsVerif.Lemmas.PlanJoin
/-! C09 for the planners around the join planner, and for the whole skeleton language (`den`, `fromQuery`). -/
namespace MindsVerif.Plan

/-- continuation after a step was planned: run on a well-formed plan whose last step is `top k` (k ≥ n), it
fails with a user error or returns a well-formed extension (possibly the same plan) and its last step -/
def ContGood (n : Nat) (body : SNum → Planner) : Prop :=
  ∀ plan k, plan.length = k + 1 → n ≤ k → stepsOK 0 plan = true →
    match body (.top k) plan with
    | .ok (plan', x) => stepsOK 0 plan' = true ∧ plan <+: plan' ∧ x = .top (plan'.length - 1)
    | .error e => IsUserErr e

/-- sub-steps of a container built outside the join planner: un-numbered, referencing earlier results -/
def subsLoose (n : Nat) (subs : List Sub) : Bool :=
  subs.all (fun s => s.num == none && s.refs.all (refOKTop n))

theorem refOKSub_of_top {n i j : Nat} (h : n ≤ i) (r : SNum) (hr : refOKTop n r = true) : refOKSub i j r = true := by
  cases r with
  | top k => simp [refOKTop, refOKSub] at hr ⊢; omega
  | sub p q => simp [refOKTop] at hr

theorem subsOK_of_loose (n i j : Nat) (subs : List Sub) (h : subsLoose n subs = true) (hn : n ≤ i) :
    subsOK i j subs = true := by
  induction subs generalizing j with
  | nil => rfl
  | cons s ss ih =>
    simp only [subsLoose, List.all_cons, Bool.and_eq_true] at h
    simp only [subsOK, subOK, Bool.and_eq_true]
    refine ⟨⟨by simp [h.1.1], ?_⟩, ih (j + 1) (by simpa [subsLoose] using h.2)⟩
    rw [List.all_eq_true]
    intro r hr
    exact refOKSub_of_top hn r (List.all_eq_true.mp h.1.2 r hr)

theorem pStep_good (n : Nat) (k : Kind) (refs : List SNum) (subs : List Sub)
    (hr : refs.all (refOKTop n) = true) (hs : subsLoose n subs = true) : Good n (pStep k refs subs) := by
  intro plan hl hok
  simp only [pStep]
  refine ⟨?_, by simp [addStep], by simp [addStep], by simp [addStep]⟩
  apply addStep_ok plan _ hok (Or.inl rfl)
  · rw [List.all_eq_true] at hr ⊢
    intro x hx; exact refOKTop_mono hl x (hr x hx)
  · exact subsOK_of_loose n _ _ subs hs hl

theorem pFail_good (n : Nat) (e : Err) (h : IsUserErr e) : Good n (pFail e) := fun _ _ _ => h

theorem pLet_cont (n : Nat) (c : Planner) (body : SNum → Planner) (hc : Good n c) (hb : ContGood n body) :
    Good n (pLet c body) := by
  intro plan hl hok
  have h1 := hc plan hl hok
  simp only [pLet]
  cases hcp : c plan with
  | error e => rw [hcp] at h1; exact h1
  | ok r =>
    obtain ⟨plan1, x⟩ := r
    rw [hcp] at h1
    obtain ⟨a1, a2, a3, a4⟩ := h1
    subst a4
    have h2 := hb plan1 (plan1.length - 1) (by omega) (by omega) a1
    simp only
    cases hbp : body (SNum.top (plan1.length - 1)) plan1 with
    | error e => rw [hbp] at h2; exact h2
    | ok r2 =>
      obtain ⟨plan2, y⟩ := r2
      rw [hbp] at h2
      obtain ⟨b1, b2, b3⟩ := h2
      exact ⟨b1, List.IsPrefix.trans a2 b2, by have := prefix_length_le b2; omega, b3⟩

theorem cont_of_good (n : Nat) (body : SNum → Planner) (h : ∀ k, n ≤ k → Good (k + 1) (body (.top k))) :
    ContGood n body := by
  intro plan k hlen hk hok
  have := h k hk plan (by omega) hok
  cases hb : body (.top k) plan with
  | error e => rw [hb] at this; exact this
  | ok r =>
    obtain ⟨plan', x⟩ := r
    rw [hb] at this
    exact ⟨this.1, this.2.1, this.2.2.2⟩

theorem pLet_good (n : Nat) (c : Planner) (body : SNum → Planner) (hc : Good n c)
    (hb : ∀ k, n ≤ k → Good (k + 1) (body (.top k))) : Good n (pLet c body) :=
  pLet_cont n c body hc (cont_of_good n body hb)

theorem lastNum_ok (plan : List Step) (i : Nat) (h : stepsOK i plan = true) (hne : plan ≠ []) :
    lastNum plan = .ok (.top (i + plan.length - 1)) := by
  induction plan generalizing i with
  | nil => exact absurd rfl hne
  | cons s ss ih =>
    simp only [stepsOK, Bool.and_eq_true] at h
    cases ss with
    | nil =>
      have hn : s.num = some (.top i) := by
        have := h.1; simp only [stepOK, Bool.and_eq_true] at this; simpa using this.1.1
      simp [lastNum, hn]
    | cons t ts =>
      have := ih (i + 1) h.2 (by simp)
      simp only [lastNum, List.getLast?_cons_cons] at this ⊢
      rw [this]
      congr 2
      simp; omega

theorem planSubSelect_cont (n : Nat) (wrap : Bool) (extra : List SNum) (he : extra.all (refOKTop n) = true) :
    ContGood n (planSubSelect wrap extra) := by
  intro plan k hlen hk hok
  simp only [planSubSelect]
  cases wrap with
  | false => simp only [Bool.false_eq_true, if_false]; exact ⟨hok, List.prefix_refl _, by rw [hlen]; rfl⟩
  | true =>
    simp only [if_true, pStep]
    refine ⟨?_, by simp [addStep], by simp [addStep]⟩
    apply addStep_ok plan _ hok (Or.inl rfl)
    · simp only [List.all_cons, Bool.and_eq_true]
      refine ⟨by simp [refOKTop]; omega, ?_⟩
      rw [List.all_eq_true] at he ⊢
      intro x hx; exact refOKTop_mono (by omega) x (he x hx)
    · rfl

theorem planProject_cont (n : Nat) (star : Bool) (extra : List SNum) (he : extra.all (refOKTop n) = true) :
    ContGood n (planProject star extra) := by
  intro plan k hlen hk hok
  simp only [planProject]
  cases star with
  | true =>
    have hne : plan ≠ [] := by intro h; rw [h] at hlen; simp at hlen
    have := lastNum_ok plan 0 hok hne
    simp only [if_true, this]
    exact ⟨hok, List.prefix_refl _, by simp⟩
  | false =>
    simp only [Bool.false_eq_true, if_false, pStep]
    refine ⟨?_, by simp [addStep], by simp [addStep]⟩
    apply addStep_ok plan _ hok (Or.inl rfl)
    · simp only [List.all_cons, Bool.and_eq_true]
      refine ⟨by simp [refOKTop]; omega, ?_⟩
      rw [List.all_eq_true] at he ⊢
      intro x hx; exact refOKTop_mono (by omega) x (he x hx)
    · rfl

theorem planIntegrationSelect_good (n : Nat) (cte : Bool) (refs : List SNum) (hr : refs.all (refOKTop n) = true) :
    Good n (planIntegrationSelect cte refs) := pStep_good n _ refs [] hr rfl

theorem planApiDbSelect_good (n : Nat) (refs : List SNum) (wrap : Bool) (extra : List SNum)
    (hr : refs.all (refOKTop n) = true) (he : extra.all (refOKTop n) = true) :
    Good n (planApiDbSelect refs wrap extra) :=
  pLet_cont n _ _ (planIntegrationSelect_good n false refs hr) (planSubSelect_cont n wrap extra he)

theorem planWithFunctions_good (n : Nat) (refs : List SNum) (wrap : Bool) (extra : List SNum)
    (hr : refs.all (refOKTop n) = true) (he : extra.all (refOKTop n) = true) :
    Good n (planWithFunctions refs wrap extra) :=
  pLet_cont n _ _ (planIntegrationSelect_good n false refs hr) (planSubSelect_cont n wrap extra he)

theorem planSelectFromPredictor_good (n : Nat) (co : Bool) (refs : List SNum) (star : Bool) (extra : List SNum)
    (hr : refs.all (refOKTop n) = true) (he : extra.all (refOKTop n) = true) :
    Good n (planSelectFromPredictor co refs star extra) := by
  apply pLet_cont n _ _ _ (planProject_cont n star extra he)
  cases co with
  | true => exact pStep_good n _ [] [] rfl rfl
  | false => exact pStep_good n _ refs [] hr rfl

theorem planNative_good (n : Nat) (wrap : Bool) (extra : List SNum) (he : extra.all (refOKTop n) = true) :
    Good n (planNative wrap extra) :=
  pLet_cont n _ _ (pStep_good n _ [] [] rfl rfl) (planSubSelect_cont n wrap extra he)

theorem planData_good (n : Nat) (wrap : Bool) (extra : List SNum) (he : extra.all (refOKTop n) = true) :
    Good n (planData wrap extra) :=
  pLet_cont n _ _ (pStep_good n _ [] [] rfl rfl) (planSubSelect_cont n wrap extra he)

theorem planNestedSelect_good (n : Nat) (inner : Planner) (wrap : Bool) (hi : Good n inner) :
    Good n (planNestedSelect inner wrap) := by
  intro plan hl hok
  have h1 := hi plan hl hok
  simp only [planNestedSelect]
  cases hip : inner plan with
  | error e => rw [hip] at h1; exact h1
  | ok r =>
    obtain ⟨plan1, x⟩ := r
    rw [hip] at h1
    obtain ⟨a1, a2, a3, a4⟩ := h1
    have hne : plan1 ≠ [] := by intro h; rw [h] at a3; simp at a3
    have hl1 := lastNum_ok plan1 0 a1 hne
    simp only [hl1, Nat.zero_add]
    have h2 := planSubSelect_cont n wrap [] rfl plan1 (plan1.length - 1) (by omega) (by omega) a1
    cases hb : planSubSelect wrap [] (SNum.top (plan1.length - 1)) plan1 with
    | error e => rw [hb] at h2; exact h2
    | ok r2 =>
      obtain ⟨plan2, y⟩ := r2
      rw [hb] at h2
      exact ⟨h2.1, List.IsPrefix.trans a2 h2.2.1, by have := prefix_length_le h2.2.1; omega, h2.2.2⟩

theorem refOKTop_self (k : Nat) : refOKTop (k + 1) (.top k) = true := by simp [refOKTop]

theorem planUnion_good (n : Nat) (l r : Planner) (hl : Good n l) (hr : Good n r) : Good n (planUnion l r) := by
  apply pLet_good n _ _ hl
  intro a ha
  apply pLet_good _ _ _ (hr.mono (by omega))
  intro b hb
  apply pStep_good _ _ _ [] _ rfl
  simp [refOKTop]; omega

theorem all_mono {n m : Nat} (h : n ≤ m) (refs : List SNum) (hr : refs.all (refOKTop n) = true) :
    refs.all (refOKTop m) = true := by
  rw [List.all_eq_true] at hr ⊢
  intro x hx; exact refOKTop_mono h x (hr x hx)

theorem planTS_good (n : Nat) (grouped two cte limit star : Bool) (refs : List SNum)
    (hr : refs.all (refOKTop n) = true) : Good n (planTS grouped two cte limit star refs) := by
  unfold planTS
  have hone : ∀ m, n ≤ m → subsLoose m [⟨if cte = true then Kind.subselect else Kind.fetch, none, refs⟩] = true := by
    intro m hm; simp [subsLoose, all_mono hm refs hr]
  have hdata : Good n (if grouped = true then
        pLet (planIntegrationSelect cte refs) (fun p => pStep .mapreduce [p]
          (if two = true then [⟨Kind.multipleSteps, none, []⟩, ⟨if cte = true then Kind.subselect else Kind.fetch, none, refs⟩,
            ⟨if cte = true then Kind.subselect else Kind.fetch, none, refs⟩]
           else [⟨if cte = true then Kind.subselect else Kind.fetch, none, refs⟩]))
      else if two = true then pStep Kind.multipleSteps []
          [⟨if cte = true then Kind.subselect else Kind.fetch, none, refs⟩,
           ⟨if cte = true then Kind.subselect else Kind.fetch, none, refs⟩]
      else pStep (if cte = true then Kind.subselect else Kind.fetch) refs) := by
    cases grouped with
    | true =>
      simp only [if_true]
      apply pLet_good n _ _ (planIntegrationSelect_good n cte refs hr)
      intro p hp
      apply pStep_good
      · simp [refOKTop]
      · have := all_mono (show n ≤ p + 1 by omega) refs hr
        cases two <;> simp [subsLoose, this]
    | false =>
      cases two with
      | true =>
        simp only [Bool.false_eq_true, if_false, if_true]
        exact pStep_good n _ [] _ rfl (by simp [subsLoose, hr])
      | false =>
        simp only [Bool.false_eq_true, if_false]
        exact pStep_good n _ refs [] hr rfl
  apply pLet_good n _ _ hdata
  intro d hd
  apply pLet_good _ _ _ (pStep_good _ _ _ [] (by simp [refOKTop]) rfl)
  intro p hp
  apply pLet_cont _ _ _ (pStep_good _ _ _ [] (by simp [refOKTop]; omega) rfl)
  cases limit with
  | true =>
    simp only [if_true]
    apply cont_of_good
    intro j hj
    exact pLet_cont _ _ _ (pStep_good _ _ _ [] (by simp [refOKTop]) rfl) (planProject_cont _ star [] rfl)
  | false =>
    simp only [Bool.false_eq_true, if_false]
    exact planProject_cont _ star [] rfl

/-! ### the skeleton language -/

theorem refsOf_ok (n : Nat) (env : List SNum) (uses : List Nat) (he : env.all (refOKTop n) = true) :
    (refsOf env uses).all (refOKTop n) = true := by
  rw [List.all_eq_true] at he ⊢
  intro x hx
  simp only [refsOf, List.mem_filterMap] at hx
  obtain ⟨i, _, hi⟩ := hx
  exact he x (List.mem_of_getElem? hi)

theorem env_cons (n k : Nat) (env : List SNum) (hk : n ≤ k) (he : env.all (refOKTop n) = true) :
    (SNum.top k :: env).all (refOKTop (k + 1)) = true := by
  simp only [List.all_cons, refOKTop_self, Bool.true_and]
  exact all_mono (by omega) env he

/-- **C09 for `plan_select`** (repaired = current `add_plan_step`): every skeleton denotes a planner call that
satisfies C09, and a join-tree node whose operands do -/
theorem den_good (s : Sel) : ∀ (env : List SNum) (n : Nat), env.all (refOKTop n) = true →
    Good n (den true s env).1 ∧ TreeOK n (den true s env).2 := by
  induction s with
  | union l r ihl ihr =>
    intro env n he
    exact ⟨planUnion_good n _ _ (ihl env n he).1 (ihr env n he).1, trivial⟩
  | bind c rest ihc ihr =>
    intro env n he
    refine ⟨?_, trivial⟩
    apply pLet_good n _ _ (ihc env n he).1
    intro k hk
    exact (ihr (.top k :: env) (k + 1) (env_cons n k env hk he)).1
  | fail ni =>
    intro env n he
    exact ⟨pFail_good n _ (by cases ni <;> trivial), trivial⟩
  | whole => intro env n he; exact ⟨pStep_good n _ [] [] rfl rfl, trivial⟩
  | table cte uses =>
    intro env n he
    exact ⟨planIntegrationSelect_good n cte _ (refsOf_ok n env uses he), trivial⟩
  | apiDb uses wrap uses2 =>
    intro env n he
    exact ⟨planApiDbSelect_good n _ wrap _ (refsOf_ok n env uses he) (refsOf_ok n env uses2 he), trivial⟩
  | withFunctions uses wrap uses2 =>
    intro env n he
    exact ⟨planWithFunctions_good n _ wrap _ (refsOf_ok n env uses he) (refsOf_ok n env uses2 he), trivial⟩
  | predictor co uses star uses2 =>
    intro env n he
    exact ⟨planSelectFromPredictor_good n co _ star _ (refsOf_ok n env uses he) (refsOf_ok n env uses2 he), trivial⟩
  | fromSelect inner wrap ih =>
    intro env n he
    exact ⟨planNestedSelect_good n _ wrap (ih env n he).1, trivial⟩
  | native wrap uses2 => intro env n he; exact ⟨planNative_good n wrap _ (refsOf_ok n env uses2 he), trivial⟩
  | data wrap uses2 => intro env n he; exact ⟨planData_good n wrap _ (refsOf_ok n env uses2 he), trivial⟩
  | ts g two cte lim star uses =>
    intro env n he
    exact ⟨planTS_good n g two cte lim star _ (refsOf_ok n env uses he), trivial⟩
  | joinTables t wrap uses ih =>
    intro env n he
    exact ⟨planJoin_good true n _ wrap _ (ih env n he).2 (refsOf_ok n env uses he) (Or.inl rfl), trivial⟩
  | dml k uses => intro env n he; exact ⟨pStep_good n _ _ [] (refsOf_ok n env uses he) rfl, trivial⟩
  | jTable cte dc uses =>
    intro env n he
    exact ⟨pFail_good n _ trivial, refsOf_ok n env uses he⟩
  | jModel ts ps => intro env n he; exact ⟨pFail_good n _ trivial, trivial⟩
  | jSub al s ih => intro env n he; exact ⟨pFail_good n _ trivial, (ih env n he).1⟩
  | jJoin l r ihl ihr => intro env n he; exact ⟨pFail_good n _ trivial, (ihl env n he).2, (ihr env n he).2⟩

/-- **C09 for `from_query`** on the skeleton language -/
theorem fromQuery_good (q : Stmt) : Good 0 (fromQuery true q) := by
  have hd : ∀ s, Good 0 (den true s []).1 := fun s => (den_good s [] 0 rfl).1
  cases q with
  | select s => exact hd s
  | createTableAs s =>
    exact pLet_good 0 _ _ (hd s) (fun k _ => pStep_good _ _ _ [] (by simp [refOKTop]) rfl)
  | createTable cols =>
    cases cols with
    | true => exact pStep_good 0 _ [] [] rfl rfl
    | false => exact pFail_good 0 _ trivial
  | insertSelect s =>
    exact pLet_good 0 _ _ (hd s) (fun k _ => pStep_good _ _ _ [] (by simp [refOKTop]) rfl)
  | insertValues => exact pStep_good 0 _ [] [] rfl rfl
  | update s =>
    cases s with
    | none => exact pStep_good 0 _ [] [] rfl rfl
    | some s => exact pLet_good 0 _ _ (hd s) (fun k _ => pStep_good _ _ _ [] (by simp [refOKTop]) rfl)
  | delete s => exact hd s
  | other => exact pFail_good 0 _ trivial

/-! ### the CTE dictionary -/

theorem dictGet_mem (dict : List (Name × SNum)) (key : Name) (r : SNum) (h : dictGet dict key = some r) :
    ∃ k, (k, r) ∈ dict := by
  induction dict with
  | nil => simp [dictGet] at h
  | cons x xs ih =>
    obtain ⟨k, v⟩ := x
    simp only [dictGet] at h
    split at h
    · simp at h; subst h; exact ⟨k, List.mem_cons_self ..⟩
    · obtain ⟨k', hk⟩ := ih h; exact ⟨k', List.mem_cons_of_mem _ hk⟩

/-- when the membership test and the dictionary access use the same key, resolving a table name never raises -/
theorem cteRef_total (k : CteKeys) (hk : ∀ n, k.test n = k.fetch n) (dict : List (Name × SNum)) (name : Name) :
    ∃ o, cteRef k dict name = .ok o := by
  unfold cteRef
  rw [hk]
  cases h : dictGet dict (k.fetch name) with
  | none => exact ⟨none, by simp⟩
  | some r => exact ⟨some r, by simp⟩

/-- a CTE is found under the name it was stored with when all three keys agree -/
theorem cteRef_stored (k : CteKeys) (hs : ∀ n, k.store n = k.test n) (hk : ∀ n, k.test n = k.fetch n)
    (dict : List (Name × SNum)) (name : Name) (r : SNum) :
    cteRef k (cteStore k dict name r) name = .ok (some r) := by
  simp [cteRef, cteStore, dictGet, ← hk, ← hs]

/-- **C09 for a table reference under a default namespace**: with consistent keys and a dictionary of earlier
results, `plan_integration_select` of a bare name satisfies C09 (fetch, or sub-select on the CTE result) -/
theorem planTableRef_good (n : Nat) (k : CteKeys) (hk : ∀ m, k.test m = k.fetch m) (dict : List (Name × SNum))
    (hd : ∀ key r, (key, r) ∈ dict → refOKTop n r = true) (name : Name) (params : List SNum)
    (hp : params.all (refOKTop n) = true) : Good n (planTableRef k dict name params) := by
  unfold planTableRef
  obtain ⟨o, ho⟩ := cteRef_total k hk dict name
  rw [ho]
  cases o with
  | none => exact planIntegrationSelect_good n false params hp
  | some r =>
    apply planIntegrationSelect_good n true
    simp only [List.all_cons, hp, Bool.and_true]
    have : dictGet dict (k.fetch name) = some r := by
      unfold cteRef at ho
      rw [hk] at ho
      cases h : dictGet dict (k.fetch name) with
      | none => simp [h] at ho
      | some r' => simp [h] at ho; rw [ho]
    obtain ⟨key, hm⟩ := dictGet_mem dict _ r this
    exact hd key r hm

end MindsVerif.Plan
