import MindsVerif.Model.PlanSizes
/-! The live policy (`joinOpen`) of `Model/PlanSizes.lean` never consults the sizes: the sized join planner IS the join
planner of `Model/Plan.lean`, for every size assignment. -/
namespace MindsVerif.Plan

theorem processPredictorZ_joinOpen (sizes : Nat → Nat) (idx : Nat) (ts ps : Bool) (z : StZ) :
    (processPredictorZ .joinOpen sizes idx ts ps z).map (·.st) = processPredictor true ts ps z.st := by
  unfold processPredictorZ processPredictor
  cases hs : z.st.stack with
  | nil => rfl
  | cons d rest =>
    cases ts
    · cases ps
      · simp [Except.map]
      · cases hp : z.st.partition <;> simp [Except.map]
    · rfl

theorem stepItemZ_joinOpen (sizes : Nat → Nat) (z : StZ) (it : Item) :
    (stepItemZ .joinOpen sizes z it).map (·.st) = stepItem true z.st it := by
  cases it with
  | jn =>
    simp only [stepItemZ]
    cases h : stepItem true z.st .jn <;> simp [Except.map]
  | op idx o =>
    cases o with
    | predictor ts ps => simpa [stepItemZ, stepItem] using processPredictorZ_joinOpen sizes idx ts ps z
    | table c d p =>
      simp only [stepItemZ]
      cases h : stepItem true z.st (.op idx (.table c d p)) <;> simp [Except.map]
    | subselect a f =>
      simp only [stepItemZ]
      cases h : stepItem true z.st (.op idx (.subselect a f)) <;> simp [Except.map]

theorem runZ_joinOpen (sizes : Nat → Nat) (items : List Item) : ∀ z : StZ,
    (runZ .joinOpen sizes items z).map (·.st) = run true items z.st := by
  induction items with
  | nil => intro z; rfl
  | cons it rest ih =>
    intro z
    have h := stepItemZ_joinOpen sizes z it
    unfold runZ run
    cases hz : stepItemZ .joinOpen sizes z it with
    | error e =>
      rw [hz] at h
      simp only [Except.map] at h
      rw [← h]; rfl
    | ok z' =>
      rw [hz] at h
      simp only [Except.map] at h
      rw [← h]
      exact ih z'

theorem planJoinTablesZ_joinOpen (sizes : Nat → Nat) (t : JT) (plan : List Step) :
    planJoinTablesZ .joinOpen sizes t plan = planJoinTables true t plan := by
  unfold planJoinTablesZ planJoinTables
  cases hg : getJoinSequence t 0 with
  | error e => rfl
  | ok r =>
    obtain ⟨s, n⟩ := r
    simp only
    have h := runZ_joinOpen sizes (swapModelFirst s) ⟨⟨plan, [], none, []⟩, 0⟩
    cases hz : runZ .joinOpen sizes (swapModelFirst s) ⟨⟨plan, [], none, []⟩, 0⟩ with
    | error e => rw [hz] at h; simp only [Except.map] at h; rw [← h]
    | ok z => rw [hz] at h; simp only [Except.map] at h; rw [← h]; rfl

/-- **the sizes are not consulted**: for every size assignment the live planner is the planner of `Model/Plan.lean` -/
theorem planJoinZ_joinOpen (sizes : Nat → Nat) (t : JT) (wrap : Bool) (params : List SNum) :
    planJoinZ .joinOpen sizes t wrap params = planJoin true t wrap params := by
  funext plan
  unfold planJoinZ planJoin
  rw [planJoinTablesZ_joinOpen]; rfl

end MindsVerif.Plan
