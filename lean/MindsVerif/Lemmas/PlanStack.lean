import MindsVerif.Lemmas.PlanBasic
/-! Shape of join sequences and the stack-depth discipline of `plan_join_tables` (no `IndexError`). -/
namespace MindsVerif.Plan

/-- `[o₁, jn, o₂, jn, …]` -/
def pairs : List (Nat × Operand) → List Item
  | [] => []
  | (i, o) :: rest => .op i o :: .jn :: pairs rest

theorem pairs_append (a b : List (Nat × Operand)) : pairs (a ++ b) = pairs a ++ pairs b := by
  induction a with
  | nil => rfl
  | cons x xs ih => obtain ⟨i, o⟩ := x; simp [pairs, ih]

theorem pairs_length (a : List (Nat × Operand)) : (pairs a).length = 2 * a.length := by
  induction a with
  | nil => rfl
  | cons x xs ih => obtain ⟨i, o⟩ := x; simp [pairs, ih]; omega

/-- every join sequence is one operand followed by (operand, join) pairs -/
theorem getJoinSequence_shape (t : JT) (n : Nat) (s : List Item) (m : Nat)
    (h : getJoinSequence t n = .ok (s, m)) :
    ∃ i o rest, s = .op i o :: pairs rest := by
  induction t generalizing n s m with
  | leaf o =>
    simp [getJoinSequence] at h
    exact ⟨n, o, [], by simp [pairs, h.1.symm]⟩
  | bad => simp [getJoinSequence] at h
  | join l r ihl ihr =>
    unfold getJoinSequence at h
    cases hl : getJoinSequence l n with
    | error e => simp [hl] at h
    | ok p1 =>
      obtain ⟨s1, n1⟩ := p1
      cases hr : getJoinSequence r n1 with
      | error e => simp [hl, hr] at h
      | ok p2 =>
        obtain ⟨s2, n2⟩ := p2
        obtain ⟨i1, o1, rest1, e1⟩ := ihl n s1 n1 hl
        obtain ⟨i2, o2, rest2, e2⟩ := ihr n1 s2 n2 hr
        simp only [hl, hr] at h
        cases rest2 with
        | nil =>
          subst e2
          simp [pairs] at h
          refine ⟨i1, o1, rest1 ++ [(i2, o2)], ?_⟩
          rw [← h.1, e1, pairs_append]
          simp [pairs]
        | cons x xs =>
          obtain ⟨i3, o3⟩ := x
          subst e2
          simp [pairs] at h

/-- every leaf operand satisfies `P` -/
def leavesAll (P : Operand → Prop) : JT → Prop
  | .leaf o => P o
  | .join l r => leavesAll P l ∧ leavesAll P r
  | .bad => True

theorem getJoinSequence_all (P : Operand → Prop) (t : JT) (n : Nat) (s : List Item) (m : Nat)
    (h : getJoinSequence t n = .ok (s, m)) (ht : leavesAll P t) :
    ∀ i o, Item.op i o ∈ s → P o := by
  induction t generalizing n s m with
  | leaf o =>
    simp [getJoinSequence] at h
    intro i o' hm
    rw [← h.1] at hm
    simp at hm
    rw [hm.2]; exact ht
  | bad => simp [getJoinSequence] at h
  | join l r ihl ihr =>
    unfold getJoinSequence at h
    cases hl : getJoinSequence l n with
    | error e => simp [hl] at h
    | ok p1 =>
      obtain ⟨s1, n1⟩ := p1
      cases hr : getJoinSequence r n1 with
      | error e => simp [hl, hr] at h
      | ok p2 =>
        obtain ⟨s2, n2⟩ := p2
        simp only [hl, hr] at h
        split at h
        · rename_i x
          simp at h
          intro i o hm
          rw [← h.1] at hm
          simp only [List.mem_append, List.mem_cons, List.mem_nil_iff, or_false] at hm
          rcases hm with hm | hm | hm
          · exact ihl n s1 n1 hl ht.1 i o hm
          · exact ihr n1 [x] n2 hr ht.2 i o (by simp [hm])
          · cases hm
        · simp at h

theorem swapModelFirst_mem (s : List Item) (x : Item) (h : x ∈ swapModelFirst s) : x ∈ s := by
  unfold swapModelFirst at h
  split at h
  · simp only [List.mem_cons, List.mem_nil_iff, or_false] at h ⊢
    rcases h with h | h | h
    · exact Or.inr (Or.inl h)
    · exact Or.inl h
    · exact Or.inr (Or.inr h)
  · exact h

theorem swapModelFirst_shape (i : Nat) (o : Operand) (rest : List (Nat × Operand)) :
    ∃ i' o' rest', swapModelFirst (.op i o :: pairs rest) = .op i' o' :: pairs rest' := by
  cases o with
  | table c d p => exact ⟨i, .table c d p, rest, by cases rest <;> simp [swapModelFirst]⟩
  | subselect a f => exact ⟨i, .subselect a f, rest, by cases rest <;> simp [swapModelFirst]⟩
  | predictor ts ps =>
    cases rest with
    | nil => exact ⟨i, .predictor ts ps, [], by simp [swapModelFirst, pairs]⟩
    | cons x xs =>
      obtain ⟨i2, o2⟩ := x
      cases xs with
      | nil => exact ⟨i2, o2, [(i, .predictor ts ps)], by simp [swapModelFirst, pairs]⟩
      | cons y ys =>
        obtain ⟨i3, o3⟩ := y
        exact ⟨i, .predictor ts ps, (i2, o2) :: (i3, o3) :: ys, by simp [swapModelFirst, pairs]⟩

/-! ### stack depth -/

theorem closePartition_stack_length (st : St) : (closePartition st).stack.length = st.stack.length := by
  unfold closePartition
  cases st.partition with
  | none => rfl
  | some p => cases st.stack <;> simp

theorem addPlanStep_stack_length (fixed : Bool) (st : St) (k : Kind) (refs : List SNum) (d : SNum)
    (ps : Bool) : (addPlanStep fixed st k refs d ps).1.stack.length = st.stack.length := by
  unfold addPlanStep
  cases st.partition with
  | none =>
    cases ps <;> simp [planAdd, addToPartition, closePartition_stack_length]
  | some p =>
    by_cases hk : partitionable k = true
    · simp [hk, addToPartition]
    · cases fixed <;> simp [hk, planAdd, closePartition_stack_length]

theorem addFilterSteps_stack_length (fixed : Bool) (dc : List Nat) (st : St) (acc : List SNum) :
    (addFilterSteps fixed dc st acc).1.stack.length = st.stack.length := by
  induction dc generalizing st acc with
  | nil => rfl
  | cons t rest ih =>
    unfold addFilterSteps
    cases lookupFetched t st.fetched with
    | none => exact ih st acc
    | some r =>
      simp only
      rw [ih]
      exact addPlanStep_stack_length ..

/-- sub-select planners of the operand never end with an internal error -/
def OperandNoInt : Operand → Prop
  | .subselect _ f => NoInternal f
  | _ => True

/-- an operand either raises a user-level error or pushes exactly one stack entry -/
theorem stepItem_op_stack (fixed : Bool) (st : St) (i : Nat) (o : Operand) (ho : OperandNoInt o) :
    (∃ st', stepItem fixed st (.op i o) = .ok st' ∧ st'.stack.length = st.stack.length + 1) ∨
    (∃ e, stepItem fixed st (.op i o) = .error e ∧ IsUserErr e) := by
  cases o with
  | table c dc pre =>
    left
    refine ⟨_, rfl, ?_⟩
    simp only [processTable, List.length_cons]
    rw [addPlanStep_stack_length, addFilterSteps_stack_length]
  | subselect al f =>
    simp only [stepItem, processSubselect]
    have hf := ho st.plan
    cases hs : f st.plan with
    | error e => right; rw [hs] at hf; exact ⟨e, rfl, hf⟩
    | ok r =>
      obtain ⟨plan1, x⟩ := r
      cases al with
      | false => right; exact ⟨_, rfl, trivial⟩
      | true =>
        left
        simp only [if_true]
        refine ⟨_, rfl, ?_⟩
        simp only [List.length_cons]
        rw [addPlanStep_stack_length]
  | predictor ts ps =>
    simp only [stepItem, processPredictor]
    cases hs : st.stack with
    | nil => right; exact ⟨_, rfl, trivial⟩
    | cons d rest =>
      cases ts with
      | true => right; exact ⟨_, rfl, trivial⟩
      | false =>
        left
        refine ⟨_, rfl, ?_⟩
        simp only [List.length_cons]
        rw [addPlanStep_stack_length, hs]
        rfl

/-- a join with at least two stacked steps succeeds and leaves one entry less -/
theorem stepItem_jn_stack (fixed : Bool) (st : St) (h : 2 ≤ st.stack.length) :
    ∃ st', stepItem fixed st .jn = .ok st' ∧ st'.stack.length + 1 = st.stack.length := by
  simp only [stepItem, processJoin]
  cases hs : st.stack with
  | nil => simp [hs] at h
  | cons r rest =>
    cases rest with
    | nil => simp [hs] at h
    | cons l rest' =>
      refine ⟨_, rfl, ?_⟩
      simp only [List.length_cons]
      rw [addPlanStep_stack_length]

theorem run_pairs_stack (fixed : Bool) (rest : List (Nat × Operand)) (st : St)
    (hno : ∀ x ∈ rest, OperandNoInt x.2) (h : st.stack.length = 1) :
    (∃ st', run fixed (pairs rest) st = .ok st' ∧ st'.stack.length = 1) ∨
    (∃ e, run fixed (pairs rest) st = .error e ∧ IsUserErr e) := by
  induction rest generalizing st with
  | nil => left; exact ⟨st, rfl, h⟩
  | cons x xs ih =>
    obtain ⟨i, o⟩ := x
    simp only [pairs, run]
    rcases stepItem_op_stack fixed st i o (hno (i, o) (List.mem_cons_self ..)) with ⟨st1, h1, hl1⟩ | ⟨e, h1, hu⟩
    · obtain ⟨st2, h2, hl2⟩ := stepItem_jn_stack fixed st1 (by omega)
      simp only [h1, h2]
      exact ih st2 (fun y hy => hno y (List.mem_cons_of_mem _ hy)) (by omega)
    · right; exact ⟨e, by simp [h1], hu⟩

theorem pairs_mem (rest : List (Nat × Operand)) (i : Nat) (o : Operand) (h : (i, o) ∈ rest) :
    Item.op i o ∈ pairs rest := by
  induction rest with
  | nil => cases h
  | cons y ys ih =>
    obtain ⟨j, o'⟩ := y
    simp only [pairs, List.mem_cons]
    cases h with
    | head => exact Or.inl rfl
    | tail _ h' => exact Or.inr (Or.inr (ih h'))

theorem getJoinSequence_error_user (t : JT) (n : Nat) (e : Err) (hs : getJoinSequence t n = .error e) :
    IsUserErr e := by
  induction t generalizing n e with
  | leaf o => simp [getJoinSequence] at hs
  | bad => simp [getJoinSequence] at hs; subst hs; trivial
  | join l r ihl ihr =>
    unfold getJoinSequence at hs
    cases hl : getJoinSequence l n with
    | error e1 => simp [hl] at hs; subst hs; exact ihl _ _ hl
    | ok p1 =>
      obtain ⟨s1, n1⟩ := p1
      cases hr : getJoinSequence r n1 with
      | error e2 => simp [hl, hr] at hs; subst hs; exact ihr _ _ hr
      | ok p2 =>
        obtain ⟨s2, n2⟩ := p2
        simp only [hl, hr] at hs
        split at hs
        · simp at hs
        · simp at hs; subst hs; trivial

/-- **T9.3** the modelled join planner ends with a plan or with `PlanningException` /
`NotImplementedError` (given that the planners of its sub-select operands do); in particular the
stack pops of the `Join` branch and the final `step_stack.pop()` never fail.  Holds for both variants
of `add_plan_step` and for every input (including the open-partition fall-through). -/
theorem planJoinTables_error_class (fixed : Bool) (t : JT) (plan : List Step)
    (hno : leavesAll OperandNoInt t) :
    (∃ r, planJoinTables fixed t plan = .ok r) ∨
    (∃ e, planJoinTables fixed t plan = .error e ∧ IsUserErr e) := by
  unfold planJoinTables
  cases hs : getJoinSequence t 0 with
  | error e => right; exact ⟨e, rfl, getJoinSequence_error_user t 0 e hs⟩
  | ok p =>
    obtain ⟨s, m⟩ := p
    have hall := getJoinSequence_all OperandNoInt t 0 s m hs hno
    obtain ⟨i, o, rest, e⟩ := getJoinSequence_shape t 0 s m hs
    subst e
    obtain ⟨i', o', rest', e'⟩ := swapModelFirst_shape i o rest
    have hall' : ∀ j q, Item.op j q ∈ Item.op i' o' :: pairs rest' → OperandNoInt q := by
      intro j q hm
      rw [← e'] at hm
      exact hall j q (swapModelFirst_mem _ _ hm)
    simp only [e', run]
    rcases stepItem_op_stack fixed ⟨plan, [], none, []⟩ i' o' (hall' i' o' (List.mem_cons_self ..))
      with ⟨st1, h1, hl1⟩ | ⟨e1, h1, hu⟩
    · simp only [h1]
      rcases run_pairs_stack fixed rest' st1
          (fun x hx => hall' x.1 x.2 (List.mem_cons_of_mem _ (pairs_mem rest' x.1 x.2 hx)))
          (by simpa using hl1) with ⟨st2, h2, hl2⟩ | ⟨e2, h2, hu⟩
      · simp only [h2]
        have := closePartition_stack_length st2
        cases hc : (closePartition st2).stack with
        | nil => rw [hc] at this; simp at this; omega
        | cons x xs => left; exact ⟨_, rfl⟩
      · right; exact ⟨e2, by simp [h2], hu⟩
    · right; exact ⟨e1, by simp [h1], hu⟩

end MindsVerif.Plan
