import MindsVerif.Model.PreLex
/-! `preLex` cuts a trailing run only: whatever ends in a character outside `[\s;]` is kept code point by code point. -/
namespace MindsVerif.PreLex

theorem dropWhile_all {p : Char → Bool} (a b : List Char) (h : ∀ x ∈ a, p x = true) :
    (a ++ b).dropWhile p = b.dropWhile p := by
  induction a with
  | nil => rfl
  | cons x t ih =>
    have hx : p x = true := h x (by simp)
    simp only [List.cons_append, List.dropWhile, hx]
    exact ih (fun y hy => h y (by simp [hy]))

/-- a text ending in a character that is neither white space nor `;`, followed by any run of white space / `;`,
reaches the lexer as exactly that text -/
theorem preLex_keep (init trail : List Char) (c : Char) (hc : isTrail c = false)
    (ht : ∀ x ∈ trail, isTrail x = true) : preLex (init ++ [c] ++ trail) = init ++ [c] := by
  unfold preLex
  have e : (init ++ [c] ++ trail).reverse = trail.reverse ++ (c :: init.reverse) := by simp
  rw [e, dropWhile_all _ _ (by intro x hx; exact ht x (List.mem_reverse.mp hx))]
  simp [List.dropWhile, hc]

/-- the lexer's input is a prefix of the statement text: no code point is changed, inserted, or removed before the
cut -/
theorem preLex_prefix (s : List Char) : preLex s <+: s := by
  unfold preLex
  have h : s.reverse.dropWhile isTrail <:+ s.reverse := List.dropWhile_suffix _
  have := List.reverse_prefix.mpr h
  simpa using this

theorem preLex_idem (s : List Char) : preLex (preLex s) = preLex s := by
  unfold preLex
  simp only [List.reverse_reverse]
  congr 1
  generalize s.reverse = r
  induction r with
  | nil => rfl
  | cons x t ih =>
    by_cases hx : isTrail x = true
    · simp only [List.dropWhile, hx]; exact ih
    · have hx' : isTrail x = false := by simpa using hx
      simp [List.dropWhile, hx']

end MindsVerif.PreLex
