import MindsVerif.Model.PrintHist
/-! History independence of printers: pure printers have it; a remembered decision has it iff its key determines the
decision; `parts_to_str` over a remembered back-quote decision prints `LexBq.partsToStr` iff the key determines
`needsWrap`. -/
namespace MindsVerif.PrintHist
open MindsVerif.Py

section pure
variable {Tree Text : Type}

theorem pure_run (print : Tree → Text) (h : List Tree) : (pure print).run () h = () := rfl

theorem pure_after (print : Tree → Text) (h : List Tree) (t : Tree) : (pure print).after h t = print t := rfl

theorem pure_histIndep (print : Tree → Text) : HistIndep (pure print) := fun _ _ => rfl

theorem pure_textsFrom (print : Tree → Text) : ∀ (h : List Tree), (pure print).textsFrom () h = h.map print
  | [] => rfl
  | t :: h => by
    show print t :: (pure print).textsFrom () h = print t :: h.map print
    rw [pure_textsFrom print h]

theorem pure_texts (print : Tree → Text) (h : List Tree) : (pure print).texts h = h.map print :=
  pure_textsFrom print h
end pure

section general
variable {σ Tree Text : Type}

theorem run_append (P : SPrinter σ Tree Text) : ∀ (s : σ) (h k : List Tree), P.run s (h ++ k) = P.run (P.run s h) k
  | _, [], _ => rfl
  | s, t :: h, k => by
    show P.run (P.step s t).2 (h ++ k) = P.run (P.run (P.step s t).2 h) k
    exact run_append P _ h k

/-- a printer whose text never looks at the state is history independent -/
theorem histIndep_of_stateless (P : SPrinter σ Tree Text) (h : ∀ s s' t, (P.step s t).1 = (P.step s' t).1) :
    HistIndep P := fun _ _ => h _ _ _

/-- for a history-independent printer a run prints every tree as a fresh process would -/
theorem texts_of_histIndep (P : SPrinter σ Tree Text) (hi : HistIndep P) : ∀ (pre h : List Tree),
    P.textsFrom (P.run P.init pre) h = h.map (P.after [])
  | _, [] => rfl
  | pre, t :: h => by
    have e : P.run P.init (pre ++ [t]) = (P.step (P.run P.init pre) t).2 := by
      rw [run_append]; rfl
    show (P.step (P.run P.init pre) t).1 :: P.textsFrom (P.step (P.run P.init pre) t).2 h = P.after [] t :: h.map (P.after [])
    rw [← e, texts_of_histIndep P hi (pre ++ [t]) h]
    have := hi pre t
    unfold SPrinter.after at this
    rw [this]
    rfl

end general

/-! ## remembered decisions -/
section memo
variable {A K V : Type} [DecidableEq K]

/-- every entry of the table was computed for some argument with that key -/
def Sound (key : A → K) (f : A → V) (c : List (K × V)) : Prop := ∀ k v, lookup k c = some v → ∃ b, key b = k ∧ f b = v

theorem sound_nil (key : A → K) (f : A → V) : Sound key f [] := by
  intro k v h
  simp [lookup] at h

theorem memoStep_sound (key : A → K) (f : A → V) (c : List (K × V)) (a : A) (hc : Sound key f c) :
    Sound key f (memoStep key f c a).2 := by
  unfold memoStep
  cases hl : lookup (key a) c with
  | some v => exact hc
  | none =>
    intro k v h
    simp only [lookup] at h
    by_cases hk : k = key a
    · rw [if_pos hk] at h
      cases h
      exact ⟨a, hk.symm, rfl⟩
    · rw [if_neg hk] at h
      exact hc k v h

theorem memoStep_val (key : A → K) (f : A → V) (hdet : ∀ a b, key a = key b → f a = f b) (c : List (K × V)) (a : A)
    (hc : Sound key f c) : (memoStep key f c a).1 = f a := by
  unfold memoStep
  cases hl : lookup (key a) c with
  | some v =>
    obtain ⟨b, hb, hv⟩ := hc _ _ hl
    show v = f a
    rw [← hv]
    exact hdet b a hb
  | none => rfl

theorem memo_run_sound (key : A → K) (f : A → V) : ∀ (h : List A) (c : List (K × V)), Sound key f c →
    Sound key f ((memo key f).run c h)
  | [], _, hc => hc
  | a :: h, c, hc => memo_run_sound key f h _ (memoStep_sound key f c a hc)

/-- a remembered decision is always the decision itself when the key determines it -/
theorem memo_after (key : A → K) (f : A → V) (hdet : ∀ a b, key a = key b → f a = f b) (h : List A) (a : A) :
    (memo key f).after h a = f a :=
  memoStep_val key f hdet _ a (memo_run_sound key f h [] (sound_nil key f))

/-- **a remembered decision is history independent iff the key determines the decision.**
(⇐ : a table keyed by the argument itself, or by anything the decision factors through, is a harmless refactoring;
⇒ : if two arguments share a key and differ in the decision, printing one after the other gives the other's decision) -/
theorem memo_histIndep_iff (key : A → K) (f : A → V) :
    HistIndep (memo key f) ↔ ∀ a b, key a = key b → f a = f b := by
  constructor
  · intro hi a b hk
    have h1 := hi [b] a
    have e0 : (memo key f).after [] a = f a := rfl
    have e1 : (memo key f).after [b] a = f b := by
      show (memoStep key f (memoStep key f [] b).2 a).1 = f b
      have : (memoStep key f [] b).2 = [(key b, f b)] := rfl
      rw [this]
      unfold memoStep
      simp [lookup, hk]
    rw [e0, e1] at h1
    exact h1.symm
  · intro hdet h a
    rw [memo_after key f hdet h a, memo_after key f hdet [] a]

end memo

/-! ## `parts_to_str` over a remembered back-quote decision -/
section ident
variable {K : Type} [DecidableEq K]

theorem partToStr_eq (reserved : List (List Char)) (p : List Char) :
    LexBq.partToStr reserved p = partText (needsWrap reserved p) p := rfl

theorem quote_ne (p : List Char) : quote p ≠ p := by
  intro h
  have := congrArg List.length h
  have hl : p.length ≤ (replace ['`'] ['`', '`'] p).length := by
    unfold replace
    simp only [List.cons_ne_self, ↓reduceIte]
    suffices ∀ (s : List Char), s.length ≤ (replaceGo ['`'] ['`', '`'] 0 s).length from this p
    intro s
    induction s with
    | nil => simp [replaceGo]
    | cons c t ih =>
      simp only [replaceGo, List.length_cons, List.length_nil, Nat.sub_self]
      split
      · simp only [List.length_append, List.length_cons, List.length_nil]; omega
      · simp only [List.length_cons]; omega
  simp only [quote, List.length_cons, List.length_append, List.length_nil] at this
  omega

theorem identStep_sound (key : List Char → K) (reserved : List (List Char))
    (hdet : ∀ p q, key p = key q → needsWrap reserved p = needsWrap reserved q) :
    ∀ (ps : List (List Char)) (c : List (K × Bool)), Sound key (needsWrap reserved) c →
      (identStep key reserved c ps).1 = ps.map (LexBq.partToStr reserved) ∧
      Sound key (needsWrap reserved) (identStep key reserved c ps).2
  | [], _, hc => ⟨rfl, hc⟩
  | p :: ps, c, hc => by
    have hv := memoStep_val key (needsWrap reserved) hdet c p hc
    have hs := memoStep_sound key (needsWrap reserved) c p hc
    have ih := identStep_sound key reserved hdet ps _ hs
    refine ⟨?_, ih.2⟩
    show partText (memoStep key (needsWrap reserved) c p).1 p :: (identStep key reserved _ ps).1 = _
    rw [hv, ih.1, List.map_cons, partToStr_eq]

theorem identMemo_run_sound (key : List Char → K) (reserved : List (List Char))
    (hdet : ∀ p q, key p = key q → needsWrap reserved p = needsWrap reserved q) :
    ∀ (h : List (List (List Char))) (c : List (K × Bool)), Sound key (needsWrap reserved) c →
      Sound key (needsWrap reserved) ((identMemo key reserved).run c h)
  | [], _, hc => hc
  | ps :: h, c, hc => identMemo_run_sound key reserved hdet h _ (identStep_sound key reserved hdet ps c hc).2

/-- when the key determines the back-quote decision, the remembering printer prints — after ANY history —
exactly what `Identifier.parts_to_str` prints (the harmless refactoring) -/
theorem identMemo_after (key : List Char → K) (reserved : List (List Char))
    (hdet : ∀ p q, key p = key q → needsWrap reserved p = needsWrap reserved q)
    (h : List (List (List Char))) (ps : List (List Char)) :
    (identMemo key reserved).after h ps = LexBq.partsToStr reserved ps := by
  have hs : Sound key (needsWrap reserved) ((identMemo key reserved).run (identMemo key reserved).init h) :=
    identMemo_run_sound key reserved hdet h [] (sound_nil key _)
  show join ['.'] (identStep key reserved _ ps).1 = _
  rw [(identStep_sound key reserved hdet ps _ hs).1]
  rfl

/-- when it does not, a one-statement history changes the printed text of a one-part identifier -/
theorem identMemo_dep (key : List Char → K) (reserved : List (List Char)) (p q : List Char) (hk : key p = key q)
    (hd : needsWrap reserved p ≠ needsWrap reserved q) :
    (identMemo key reserved).after [[q]] [p] ≠ (identMemo key reserved).after [] [p] := by
  have e0 : (identMemo key reserved).after [] [p] = partText (needsWrap reserved p) p := rfl
  have e1 : (identMemo key reserved).after [[q]] [p] = partText (needsWrap reserved q) p := by
    show join ['.'] (identStep key reserved (identStep key reserved [] [q]).2 [p]).1 = _
    have : (identStep key reserved [] [q]).2 = [(key q, needsWrap reserved q)] := rfl
    rw [this]
    simp [identStep, memoStep, lookup, hk, join]
  rw [e0, e1]
  cases hp : needsWrap reserved p <;> cases hq : needsWrap reserved q
  · exact absurd (hp.trans hq.symm) hd
  · exact fun h => quote_ne p h
  · exact fun h => quote_ne p h.symm
  · exact absurd (hp.trans hq.symm) hd

/-- **`parts_to_str` over a remembered decision is history independent iff the key determines the decision** -/
theorem identMemo_histIndep_iff (key : List Char → K) (reserved : List (List Char)) :
    HistIndep (identMemo key reserved) ↔ ∀ p q, key p = key q → needsWrap reserved p = needsWrap reserved q := by
  constructor
  · intro hi p q hk
    by_cases hd : needsWrap reserved p = needsWrap reserved q
    · exact hd
    · exact absurd (hi [[q]] [p]) (identMemo_dep key reserved p q hk hd)
  · intro hdet h ps
    rw [identMemo_after key reserved hdet h ps, identMemo_after key reserved hdet [] ps]

end ident

end MindsVerif.PrintHist
