import MindsVerif.Model.PyEq
/-! Laws of the transcribed `__eq__` methods. -/
namespace MindsVerif.PyEq

/-! ### ASTNode -/
section ast
variable {N T S : Type} [DecidableEq T] [DecidableEq S] (isNode : N → Bool) (tree : N → T) (line : N → S)

theorem astEq_refl (a : N) (ha : isNode a = true) : astEq isNode tree line a a = true := by
  simp [astEq, ha]

theorem astEq_iff (a b : N) (hb : isNode b = true) :
    astEq isNode tree line a b = true ↔ tree a = tree b ∧ line a = line b := by
  simp [astEq, hb]

theorem astEq_symm (a b : N) (ha : isNode a = true) (hb : isNode b = true) :
    astEq isNode tree line a b = astEq isNode tree line b a := by
  simp only [astEq, ha, hb, if_true]
  rw [Bool.eq_iff_iff]
  simp only [Bool.and_eq_true, decide_eq_true_eq]
  constructor <;> (intro h; exact ⟨h.1.symm, h.2.symm⟩)

theorem astEq_trans (a b c : N) (hb : isNode b = true) (hc : isNode c = true)
    (h1 : astEq isNode tree line a b = true) (h2 : astEq isNode tree line b c = true) :
    astEq isNode tree line a c = true := by
  rw [astEq_iff _ _ _ _ _ hb] at h1
  rw [astEq_iff _ _ _ _ _ hc] at h2
  rw [astEq_iff _ _ _ _ _ hc]
  exact ⟨h1.1.trans h2.1, h1.2.trans h2.2⟩

theorem astEq_same_print (a b : N) (h : astEq isNode tree line a b = true) : line a = line b := by
  unfold astEq at h
  split at h
  · simp at h; exact h.2
  · cases h

theorem astEq_nonNode (a b : N) (hb : isNode b = false) : astEq isNode tree line a b = false := by
  simp [astEq, hb]
end ast

/-! ### PlanStep -/
section step
variable {V : Type} (veq : V → V → Bool)

theorem lookup_of_mem : ∀ {l : List (String × V)} {k : String} {x : V},
    (l.map (·.1)).Nodup → (k, x) ∈ l → l.lookup k = some x := by
  intro l
  induction l with
  | nil => intro k x _ h; cases h
  | cons p rest ih =>
    intro k x hnd hmem
    obtain ⟨k', x'⟩ := p
    simp only [List.map_cons, List.nodup_cons] at hnd
    simp only [List.lookup_cons]
    rcases List.mem_cons.mp hmem with heq | hin
    · cases heq; simp
    · have hne : k ≠ k' := by
        intro h; subst h
        exact hnd.1 (List.mem_map.mpr ⟨(k, x), hin, rfl⟩)
      have : (k == k') = false := by simpa using hne
      rw [this]
      exact ih hnd.2 hin

theorem mem_of_lookup : ∀ {l : List (String × V)} {k : String} {x : V},
    l.lookup k = some x → (k, x) ∈ l := by
  intro l
  induction l with
  | nil => intro k x h; simp [List.lookup] at h
  | cons p rest ih =>
    intro k x h
    obtain ⟨k', x'⟩ := p
    simp only [List.lookup_cons] at h
    split at h
    · rename_i heq
      cases h
      have : k = k' := by simpa using heq
      subst this; exact List.mem_cons_self
    · exact List.mem_cons_of_mem _ (ih h)

/-- the loop returns `True` iff every compared attribute exists in `other` and is equal there -/
theorem stepLoop_true_iff (other : List (String × V)) : ∀ (l : List (String × V)),
    stepLoop veq other l = .true ↔
      ∀ k x, (k, x) ∈ l → k ≠ "result_data" → ∃ y, other.lookup k = some y ∧ veq x y = true := by
  intro l
  induction l with
  | nil => simp [stepLoop]
  | cons p rest ih =>
    obtain ⟨k, x⟩ := p
    simp only [stepLoop]
    by_cases hk : k = "result_data"
    · rw [if_pos hk, ih]
      constructor
      · intro h k' x' hmem hne
        rcases List.mem_cons.mp hmem with heq | hin
        · cases heq; exact absurd hk hne
        · exact h k' x' hin hne
      · intro h k' x' hmem hne
        exact h k' x' (List.mem_cons_of_mem _ hmem) hne
    · rw [if_neg hk]
      cases hl : other.lookup k with
      | none =>
        simp only
        constructor
        · intro h; cases h
        · intro h
          obtain ⟨y, hy, _⟩ := h k x List.mem_cons_self hk
          rw [hl] at hy; cases hy
      | some y =>
        simp only
        by_cases hv : veq x y = true
        · rw [if_pos hv, ih]
          constructor
          · intro h k' x' hmem hne
            rcases List.mem_cons.mp hmem with heq | hin
            · cases heq; exact ⟨y, hl, hv⟩
            · exact h k' x' hin hne
          · intro h k' x' hmem hne
            exact h k' x' (List.mem_cons_of_mem _ hmem) hne
        · rw [if_neg hv]
          constructor
          · intro h; cases h
          · intro h
            obtain ⟨y', hy', hv'⟩ := h k x List.mem_cons_self hk
            rw [hl] at hy'; cases hy'; exact absurd hv' hv

theorem stepEq_true_iff (a b : Step V) :
    stepEq veq a b = .true ↔ a.ty = b.ty ∧
      ∀ k x, (k, x) ∈ a.attrs → k ≠ "result_data" → ∃ y, b.attrs.lookup k = some y ∧ veq x y = true := by
  unfold stepEq
  by_cases ht : a.ty = b.ty
  · simp only [ht, ne_eq, not_true_eq_false, if_false, true_and]
    exact stepLoop_true_iff veq b.attrs a.attrs
  · simp only [ne_eq, ht, not_false_eq_true, if_true, false_and, iff_false]
    intro h; cases h

/-- reflexive: attribute names are the keys of a `dict` (distinct) and `==` on the values is reflexive -/
theorem stepEq_refl (a : Step V) (hnd : (a.attrs.map (·.1)).Nodup)
    (hv : ∀ k x, (k, x) ∈ a.attrs → veq x x = true) : stepEq veq a a = .true := by
  rw [stepEq_true_iff]
  exact ⟨rfl, fun k x hm _ => ⟨x, lookup_of_mem hnd hm, hv k x hm⟩⟩

/-- symmetric when both objects carry the same attribute names (apart from `result_data`) -/
theorem stepEq_symm (a b : Step V) (hb : (b.attrs.map (·.1)).Nodup)
    (hkeys : ∀ k, k ∈ b.keys → k ∈ a.keys)
    (hsym : ∀ x y, veq x y = true → veq y x = true)
    (h : stepEq veq a b = .true) : stepEq veq b a = .true := by
  rw [stepEq_true_iff] at h ⊢
  refine ⟨h.1.symm, ?_⟩
  intro k y hmem hne
  have hkb : k ∈ b.keys := by
    simp only [Step.keys, List.mem_filter, List.mem_map]
    exact ⟨⟨(k, y), hmem, rfl⟩, by simpa using hne⟩
  have hka := hkeys k hkb
  simp only [Step.keys, List.mem_filter, List.mem_map] at hka
  obtain ⟨⟨⟨k', x⟩, hxmem, hk'⟩, _⟩ := hka
  simp only at hk'
  subst hk'
  obtain ⟨y', hy', hv⟩ := h.2 k' x hxmem hne
  have : b.attrs.lookup k' = some y := lookup_of_mem hb hmem
  rw [this] at hy'; cases hy'
  -- the first binding of k' in a.attrs
  cases hla : a.attrs.lookup k' with
  | none =>
    exfalso
    have : ∀ {l : List (String × V)}, (k', x) ∈ l → l.lookup k' ≠ none := by
      intro l
      induction l with
      | nil => intro h; cases h
      | cons p rest ih =>
        intro hm
        obtain ⟨k2, x2⟩ := p
        simp only [List.lookup_cons]
        split
        · simp
        · rename_i hne2
          rcases List.mem_cons.mp hm with heq | hin
          · cases heq; simp at hne2
          · exact ih hin
    exact this hxmem hla
  | some x0 =>
    obtain ⟨y0, hy0, hv0⟩ := h.2 k' x0 (mem_of_lookup hla) hne
    have : b.attrs.lookup k' = some y := lookup_of_mem hb hmem
    rw [this] at hy0; cases hy0
    exact ⟨x0, rfl, hsym _ _ hv0⟩
end step

/-! ### QueryPlan -/
section plan
variable {St : Type} (seq : St → St → R)

/-- as written, the method never returns `True` -/
theorem planLoop_unfixed_ne_true : ∀ (a b : List St), planLoop seq false a b ≠ .true := by
  intro a
  induction a with
  | nil => intro b; simp [planLoop]
  | cons x xs ih =>
    intro b
    cases b with
    | nil => simp [planLoop]
    | cons y ys =>
      simp only [planLoop]
      split
      · simp
      · simp
      · exact ih ys

theorem planEq_unfixed_ne_true (st : Bool) (a b : List St) : planEq seq false st a b ≠ .true := by
  unfold planEq
  split
  · simp
  · split
    · simp
    · exact planLoop_unfixed_ne_true seq a b

/-- pairwise-equal step lists of the same length -/
def AllEq : List St → List St → Prop
  | [], [] => True
  | a :: as, b :: bs => seq a b = .true ∧ AllEq as bs
  | _, _ => False

theorem allEq_length : ∀ {a b : List St}, AllEq seq a b → a.length = b.length := by
  intro a
  induction a with
  | nil => intro b h; cases b <;> simp_all [AllEq]
  | cons x xs ih => intro b h; cases b with
    | nil => simp [AllEq] at h
    | cons y ys => simp [AllEq] at h; simp [ih h.2]

theorem planLoop_allEq (fixed : Bool) : ∀ {a b : List St}, AllEq seq a b →
    planLoop seq fixed a b = (if fixed then .true else .none) := by
  intro a
  induction a with
  | nil => intro b h; cases b <;> simp_all [AllEq, planLoop]
  | cons x xs ih => intro b h; cases b with
    | nil => simp [AllEq] at h
    | cons y ys =>
      simp [AllEq] at h
      simp only [planLoop, h.1, R.ne]
      exact ih h.2

/-- two plans built from equal steps: the pinned method answers `None`, the repaired one `True` -/
theorem planEq_allEq (fixed : Bool) {a b : List St} (h : AllEq seq a b) :
    planEq seq fixed true a b = (if fixed then .true else .none) := by
  unfold planEq
  simp [allEq_length seq h]
  exact planLoop_allEq seq fixed h

theorem planLoop_fixed_true_iff : ∀ (a b : List St), a.length = b.length →
    (planLoop seq true a b = .true ↔ AllEq seq a b) := by
  intro a
  induction a with
  | nil => intro b h; cases b <;> simp_all [AllEq, planLoop]
  | cons x xs ih => intro b h; cases b with
    | nil => simp at h
    | cons y ys =>
      simp at h
      simp only [planLoop, AllEq]
      cases hs : seq x y <;> simp [R.ne, ih ys h]

theorem allEq_refl (hr : ∀ s, seq s s = .true) : ∀ a : List St, AllEq seq a a := by
  intro a; induction a with
  | nil => trivial
  | cons x xs ih => exact ⟨hr x, ih⟩

theorem allEq_symm (hs : ∀ s t, seq s t = .true → seq t s = .true) :
    ∀ {a b : List St}, AllEq seq a b → AllEq seq b a := by
  intro a
  induction a with
  | nil => intro b h; cases b <;> simp_all [AllEq]
  | cons x xs ih => intro b h; cases b with
    | nil => simp [AllEq] at h
    | cons y ys => simp [AllEq] at h ⊢; exact ⟨hs _ _ h.1, ih h.2⟩
end plan

/-! ### Result -/

theorem resultHash_raises (intHash : Int → Int) (n : Int) : resultHash intHash n = .error "TypeError" := rfl

theorem resultEq_equiv : (∀ a, resultEq a a = true) ∧ (∀ a b, resultEq a b = resultEq b a) ∧
    (∀ a b c, resultEq a b = true → resultEq b c = true → resultEq a c = true) := by
  refine ⟨by simp [resultEq], ?_, ?_⟩
  · intro a b; simp only [resultEq]; rw [Bool.eq_iff_iff]; simp [eq_comm]
  · intro a b c; simp only [resultEq, decide_eq_true_eq]; exact Eq.trans

theorem resultHashFixed_congr (tupHash : String → Int → Int) (a b : Int) (h : resultEq a b = true) :
    resultHashFixed tupHash a = resultHashFixed tupHash b := by
  simp [resultEq] at h; rw [h]

/-! ### TableColumn -/
section col
variable {A : Type} [DecidableEq A]

theorem colEq_iff (a b : TableColumn A) : colEq a b = true ↔
    a.name = b.name ∧ a.is_primary_key = b.is_primary_key ∧ a.type = b.type ∧ a.default = b.default ∧
      a.length = b.length := by
  simp [colEq, and_assoc]

theorem colEq_refl (a : TableColumn A) : colEq a a = true := by simp [colEq]

theorem colEq_symm (a b : TableColumn A) : colEq a b = colEq b a := by
  rw [Bool.eq_iff_iff, colEq_iff, colEq_iff]
  constructor <;> (intro h; exact ⟨h.1.symm, h.2.1.symm, h.2.2.1.symm, h.2.2.2.1.symm, h.2.2.2.2.symm⟩)

theorem colEq_trans (a b c : TableColumn A) (h1 : colEq a b = true) (h2 : colEq b c = true) :
    colEq a c = true := by
  rw [colEq_iff] at *
  exact ⟨h1.1.trans h2.1, h1.2.1.trans h2.2.1, h1.2.2.1.trans h2.2.2.1, h1.2.2.2.1.trans h2.2.2.2.1,
    h1.2.2.2.2.trans h2.2.2.2.2⟩
end col

/-! ### list-lifted equality -/
section list
variable {α : Type} (eq : α → α → Bool)

theorem eqList_length : ∀ {a b : List α}, eqList eq a b = true → a.length = b.length := by
  intro a
  induction a with
  | nil => intro b h; cases b <;> simp_all [eqList]
  | cons x xs ih =>
    intro b h
    cases b with
    | nil => simp [eqList] at h
    | cons y ys => simp [eqList] at h; simp [ih h.2]

/-- a list is never equal to a proper extension of itself (nor the other way round) -/
theorem eqList_prefix_ne (a ext : List α) (h : ext ≠ []) :
    eqList eq a (a ++ ext) = false ∧ eqList eq (a ++ ext) a = false := by
  constructor
  · cases hq : eqList eq a (a ++ ext) with
    | false => rfl
    | true =>
      have := eqList_length eq hq
      simp at this
      exact absurd this h
  · cases hq : eqList eq (a ++ ext) a with
    | false => rfl
    | true =>
      have := eqList_length eq hq
      simp at this
      exact absurd this h

theorem eqList_refl_iff : (∀ l : List α, eqList eq l l = true) ↔ (∀ x, eq x x = true) := by
  constructor
  · intro h x; have := h [x]; simpa [eqList] using this
  · intro h l
    induction l with
    | nil => rfl
    | cons x xs ih => simp [eqList, h x, ih]

theorem eqList_symm_iff : (∀ a b : List α, eqList eq a b = true → eqList eq b a = true) ↔
    (∀ x y, eq x y = true → eq y x = true) := by
  constructor
  · intro h x y hxy
    have := h [x] [y] (by simpa [eqList] using hxy)
    simpa [eqList] using this
  · intro h a
    induction a with
    | nil => intro b hb; cases b <;> simp_all [eqList]
    | cons x xs ih =>
      intro b hb
      cases b with
      | nil => simp [eqList] at hb
      | cons y ys =>
        simp [eqList] at hb ⊢
        exact ⟨h _ _ hb.1, ih ys hb.2⟩

theorem eqList_trans_iff :
    (∀ a b c : List α, eqList eq a b = true → eqList eq b c = true → eqList eq a c = true) ↔
    (∀ x y z, eq x y = true → eq y z = true → eq x z = true) := by
  constructor
  · intro h x y z hxy hyz
    have := h [x] [y] [z] (by simpa [eqList] using hxy) (by simpa [eqList] using hyz)
    simpa [eqList] using this
  · intro h a
    induction a with
    | nil => intro b c hab hbc; cases b <;> cases c <;> simp_all [eqList]
    | cons x xs ih =>
      intro b c hab hbc
      cases b with
      | nil => simp [eqList] at hab
      | cons y ys =>
        cases c with
        | nil => simp [eqList] at hbc
        | cons z zs =>
          simp [eqList] at hab hbc ⊢
          exact ⟨h _ _ _ hab.1 hbc.1, ih ys zs hab.2 hbc.2⟩

/-- without the length check the empty list "equals" every list, so the relation is not transitive
as soon as two elements differ -/
theorem eqZip_not_trans (x y : α) (hxy : eq x y = false) :
    eqZip eq [x] [] = true ∧ eqZip eq [] [y] = true ∧ eqZip eq [x] [y] = false := by
  simp [eqZip, hxy]
end list

/-- the repaired `QueryPlan.__eq__` is list-lifted step equality: `True` exactly when the plans have the
same type, the same number of steps and pairwise equal steps; never `True` for a plan and a proper
extension of it (in particular the empty plan equals only the empty plan) -/
theorem planEq_fixed_iff {St : Type} (seq : St → St → Bool) (st : Bool) (a b : List St) :
    planEq (fun x y => if seq x y then R.true else R.false) true st a b = .true ↔
      st = true ∧ eqList seq a b = true := by
  unfold planEq
  cases st with
  | false => simp
  | true =>
    simp only [Bool.not_true, Bool.false_eq_true, if_false, true_and]
    induction a generalizing b with
    | nil => cases b <;> simp [planLoop, eqList]
    | cons x xs ih =>
      cases b with
      | nil => simp [eqList]
      | cons y ys =>
        have := ih ys
        by_cases hl : xs.length = ys.length
        · simp only [List.length_cons, hl, ne_eq, not_true_eq_false, if_false] at this ⊢
          cases hs : seq x y <;> simp [planLoop, eqList, hs, R.ne, this]
        · have hne : eqList seq xs ys = false := by
            cases hq : eqList seq xs ys with
            | false => rfl
            | true => exact absurd (eqList_length seq hq) hl
          simp [hl, eqList, hne]

/-! ### `Result`: equivalence and the eq / hash contract over int and string step numbers -/

theorem resultEqSN_equiv : (∀ a, resultEqSN a a = true) ∧ (∀ a b, resultEqSN a b = resultEqSN b a) ∧
    (∀ a b c, resultEqSN a b = true → resultEqSN b c = true → resultEqSN a c = true) := by
  refine ⟨by simp [resultEqSN, snEq], ?_, ?_⟩
  · intro a b; simp only [resultEqSN, snEq]; rw [Bool.eq_iff_iff]; simp [eq_comm]
  · intro a b c; simp only [resultEqSN, snEq, decide_eq_true_eq]; exact Eq.trans

/-- equal `Result`s hash the same key, hence have the same hash whatever the tuple hash is -/
theorem resultEqSN_hash (tupHash : String × StepNum → Int) (a b : StepNum) (h : resultEqSN a b = true) :
    resultHashKey a = resultHashKey b ∧ resultHashSN tupHash a = resultHashSN tupHash b := by
  simp [resultEqSN, snEq] at h
  subst h
  exact ⟨rfl, rfl⟩

/-- an int and a string step number are never equal -/
theorem resultEqSN_int_str (i : Int) (s : String) : resultEqSN (.int i) (.str s) = false := by
  simp [resultEqSN, snEq]

end MindsVerif.PyEq
