import MindsVerif.Model.Py
/-! lemmas about `Py.replace` for one- and two-character patterns, and `Py.strip` -/
namespace MindsVerif.Py

theorem replace2_nil (a b : Char) (rep : List Char) : replace [a, b] rep [] = [] := by
  simp [replace, replaceGo]

theorem replace2_single (a b c : Char) (rep : List Char) : replace [a, b] rep [c] = [c] := by
  simp [replace, replaceGo, List.isPrefixOf]

theorem replace2_cons_ne {a b c : Char} {rep T : List Char} (h : c ≠ a) :
    replace [a, b] rep (c :: T) = c :: replace [a, b] rep T := by
  have h' : (a == c) = false := by simp [Ne.symm h]
  simp [replace, replaceGo, List.isPrefixOf, h']

theorem replace2_cons_ne2 {a b c d : Char} {rep T : List Char} (h : d ≠ b) :
    replace [a, b] rep (c :: d :: T) = c :: replace [a, b] rep (d :: T) := by
  have h' : (b == d) = false := by simp [Ne.symm h]
  simp [replace, replaceGo, List.isPrefixOf, h']

theorem replace2_match {a b : Char} {rep T : List Char} :
    replace [a, b] rep (a :: b :: T) = rep ++ replace [a, b] rep T := by
  simp [replace, replaceGo, List.isPrefixOf]

theorem replace1_nil (a : Char) (rep : List Char) : replace [a] rep [] = [] := by
  simp [replace, replaceGo]

theorem replace1_cons_eq {a : Char} {rep T : List Char} :
    replace [a] rep (a :: T) = rep ++ replace [a] rep T := by
  simp [replace, replaceGo, List.isPrefixOf]

theorem replace1_cons_ne {a c : Char} {rep T : List Char} (h : c ≠ a) :
    replace [a] rep (c :: T) = c :: replace [a] rep T := by
  have h' : (a == c) = false := by simp [Ne.symm h]
  simp [replace, replaceGo, List.isPrefixOf, h']

/-- a two-character pattern whose first character does not occur leaves the text alone -/
theorem replace2_id {a b : Char} {rep : List Char} : ∀ s : List Char, (∀ c ∈ s, c ≠ a) → replace [a, b] rep s = s
  | [], _ => replace2_nil a b rep
  | c :: t, h => by
    rw [replace2_cons_ne (h c (by simp)), replace2_id t (fun x hx => h x (by simp [hx]))]

/-! ### strip -/

theorem lstrip_cons_mem {cs : List Char} {c : Char} {s : List Char} (h : c ∈ cs) :
    lstrip cs (c :: s) = lstrip cs s := by
  simp [lstrip, List.dropWhile, h]

theorem lstrip_cons_not_mem {cs : List Char} {c : Char} {s : List Char} (h : c ∉ cs) :
    lstrip cs (c :: s) = c :: s := by
  simp [lstrip, List.dropWhile, h]

theorem lstrip_nil (cs : List Char) : lstrip cs [] = [] := rfl

/-- `strip [q]` of `q ++ s ++ q` where `s` is empty or neither starts nor ends with `q` -/
theorem strip_delims (q : Char) (s : List Char)
    (h1 : ∀ c t, s = c :: t → c ≠ q) (h2 : ∀ c t, s = t ++ [c] → c ≠ q) :
    strip [q] (q :: s ++ [q]) = s := by
  unfold strip rstrip
  rw [List.cons_append, lstrip_cons_mem (by simp)]
  cases s with
  | nil => simp [lstrip, List.dropWhile]
  | cons c t =>
    have hc : c ≠ q := h1 c t rfl
    rw [List.cons_append, lstrip_cons_not_mem (by simpa using hc)]
    have : (c :: (t ++ [q])).reverse = q :: (c :: t).reverse := by simp
    rw [this, lstrip_cons_mem (by simp)]
    -- the reversed body starts with its last character, which is not `q`
    cases hr : (c :: t).reverse with
    | nil => simp at hr
    | cons d u =>
      have hd : d ≠ q := by
        apply h2 d u.reverse
        have := congrArg List.reverse hr
        simpa using this
      rw [lstrip_cons_not_mem (by simpa using hd), ← hr, List.reverse_reverse]

end MindsVerif.Py

namespace MindsVerif.Py
/-- `strip_delims` with `head?` / `getLast?` side conditions -/
theorem strip_delims' (q : Char) (s : List Char) (h1 : s.head? ≠ some q) (h2 : s.getLast? ≠ some q) :
    strip [q] (q :: s ++ [q]) = s := by
  apply strip_delims
  · intro c t e; subst e; simpa using h1
  · intro c t e; subst e; simpa using h2
end MindsVerif.Py
