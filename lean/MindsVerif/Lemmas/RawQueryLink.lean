import MindsVerif.Lemmas.LRSound
import MindsVerif.Lemmas.TokStr
import MindsVerif.Model.RawQueryGram
/-!
C16, the link between the layers: in every derivation tree that is well formed over productions satisfying Φ16
(`RawQueryGram.phi16`), a `raw_query` child of an embedding production spans exactly the tokens between the
production's `LPAREN` and the `RPAREN` that matches it, and running the four modelled `raw_query` actions along
that subtree (`toRQ`) returns exactly those tokens.
-/
namespace MindsVerif.RawQueryLink
open MindsVerif.LR MindsVerif.TokStr MindsVerif.RawQueryGram

/-! ## parentheses -/

/-- parenthesis depth after reading `w` at depth `d`; `none` if it would drop below zero -/
def depthAfter (I : Ids) : Nat → List Nat → Option Nat
  | d, [] => some d
  | d, x :: w =>
    if x = I.lparen then depthAfter I (d + 1) w
    else if x = I.rparen then (match d with | 0 => none | d' + 1 => depthAfter I d' w)
    else depthAfter I d w

/-- `closeIdx I d w`: position in `w` of the `RPAREN` that closes the parenthesis we are inside of
(`d` further ones are open) -/
def closeIdx (I : Ids) : Nat → List Nat → Option Nat
  | _, [] => none
  | d, x :: w =>
    if x = I.lparen then (closeIdx I (d + 1) w).map (· + 1)
    else if x = I.rparen then (match d with | 0 => some 0 | d' + 1 => (closeIdx I d' w).map (· + 1))
    else (closeIdx I d w).map (· + 1)

theorem depthAfter_append (I : Ids) : ∀ (a b : List Nat) (d : Nat),
    depthAfter I d (a ++ b) = (depthAfter I d a).bind (fun e => depthAfter I e b) := by
  intro a
  induction a with
  | nil => intro b d; simp [depthAfter]
  | cons x a ih =>
    intro b d
    simp only [List.cons_append, depthAfter]
    split
    · exact ih b (d + 1)
    · split
      · cases d with
        | zero => simp
        | succ d' => exact ih b d'
      · exact ih b d

theorem depthAfter_succ (I : Ids) : ∀ (w : List Nat) (d e : Nat),
    depthAfter I d w = some e → depthAfter I (d + 1) w = some (e + 1) := by
  intro w
  induction w with
  | nil => intro d e h; simp [depthAfter] at h ⊢; exact h
  | cons x w ih =>
    intro d e h
    simp only [depthAfter] at h ⊢
    split
    · rename_i hx; rw [if_pos hx] at h; exact ih (d + 1) e h
    · rename_i hx
      rw [if_neg hx] at h
      split
      · rename_i hy
        rw [if_pos hy] at h
        cases d with
        | zero => simp at h
        | succ d' => exact ih d' e h
      · rename_i hy; rw [if_neg hy] at h; exact ih d e h

theorem closeIdx_append (I : Ids) : ∀ (w rest : List Nat) (d e : Nat),
    depthAfter I d w = some e →
    closeIdx I d (w ++ rest) = (closeIdx I e rest).map (· + w.length) := by
  intro w
  induction w with
  | nil => intro rest d e h; simp [depthAfter] at h; subst h; simp
  | cons x w ih =>
    intro rest d e h
    simp only [depthAfter] at h
    simp only [List.cons_append, closeIdx, List.length_cons]
    split
    · rename_i hx
      rw [if_pos hx] at h
      rw [ih rest (d + 1) e h]; simp [Option.map_map, Function.comp_def, Nat.add_assoc]
    · rename_i hx
      rw [if_neg hx] at h
      split
      · rename_i hy
        rw [if_pos hy] at h
        cases d with
        | zero => simp at h
        | succ d' =>
          simp only
          rw [ih rest d' e h]; simp [Option.map_map, Function.comp_def, Nat.add_assoc]
      · rename_i hy
        rw [if_neg hy] at h
        rw [ih rest d e h]; simp [Option.map_map, Function.comp_def, Nat.add_assoc]

/-- a balanced word followed by `RPAREN`: that `RPAREN` is the matching one -/
theorem closeIdx_balanced (I : Ids) (hne : I.lparen ≠ I.rparen) (w rest : List Nat)
    (h : depthAfter I 0 w = some 0) :
    closeIdx I 0 (w ++ I.rparen :: rest) = some w.length := by
  rw [closeIdx_append I w _ 0 0 h]
  have hx : ¬ I.rparen = I.lparen := fun e => hne e.symm
  simp [closeIdx, hx]

/-! ## shape of `raw_query` nodes under Φ16 -/

mutual
def size : PT → Nat
  | .leaf _ => 1
  | .node _ _ ks => 1 + sizeL ks
def sizeL : List PT → Nat
  | [] => 0
  | k :: ks => size k + sizeL ks
end

/-- the part of Φ16 used here -/
structure Phi (I : Ids) (T : Tables) : Prop where
  prods : Trie.allIdx (fun _ p => prodOK I p) 1 0 T.prods = true
  all : I.allTokens = I.lexTokens.filter (fun t => t != I.lparen && t != I.rparen)
  ne : I.lparen ≠ I.rparen

theorem phi_of_phi16 {I : Ids} {T : Tables} (h : phi16 I T.prods = true) (hne : I.lparen ≠ I.rparen) : Phi I T := by
  unfold phi16 at h
  simp only [Bool.and_eq_true, beq_iff_eq] at h
  exact ⟨h.1.1.1.1.2, h.1.1.1.1.1.1.1.1, hne⟩

theorem root_even {k : PT} {t : Nat} (h : k.root = 2 * t) : k = .leaf t := by
  cases k with
  | leaf t' => simp [PT.root] at h; have : t' = t := by omega
               rw [this]
  | node p l ks => simp [PT.root] at h; omega

theorem leaf_root_ne_rqc (I : Ids) (t : Nat) : (PT.leaf t).root ≠ I.rqc := by
  simp [PT.root, Ids.rqc]; omega

theorem map_eq_one {f : PT → Nat} {ks : List PT} {a : Nat} (h : ks.map f = [a]) :
    ∃ k, ks = [k] ∧ f k = a := by
  match ks, h with
  | [k], h => simp at h; exact ⟨k, rfl, h⟩

theorem map_eq_two {f : PT → Nat} {ks : List PT} {a b : Nat} (h : ks.map f = [a, b]) :
    ∃ k1 k2, ks = [k1, k2] ∧ f k1 = a ∧ f k2 = b := by
  match ks, h with
  | [k1, k2], h => simp at h; exact ⟨k1, k2, rfl, h.1, h.2⟩

theorem map_eq_three {f : PT → Nat} {ks : List PT} {a b c : Nat} (h : ks.map f = [a, b, c]) :
    ∃ k1 k2 k3, ks = [k1, k2, k3] ∧ f k1 = a ∧ f k2 = b ∧ f k3 = c := by
  match ks, h with
  | [k1, k2, k3], h => simp at h; exact ⟨k1, k2, k3, rfl, h.1, h.2.1, h.2.2⟩

theorem rq_cases {I : Ids} {T : Tables} (hΦ : Phi I T) {p : Nat} {kids : List PT}
    (hw : PT.WF T (.node p I.rq kids)) :
    (∃ q, kids = [.leaf I.lparen, q, .leaf I.rparen] ∧ q.root = I.rqc) ∨
    (∃ q, kids = [q, .leaf I.lparen, .leaf I.rparen] ∧ q.root = I.rqc) ∨
    (∃ a b, kids = [a, b] ∧ a.root = I.rqc ∧ b.root = I.rqc) ∨
    (∃ t, kids = [.leaf t] ∧ t ≠ I.lparen ∧ t ≠ I.rparen) := by
  cases hw with
  | node hget hlhs hmap hk =>
    rename_i pr
    have hok := Trie.allIdx_get' _ _ _ _ hΦ.prods hget
    simp only [prodOK, hlhs, beq_self_eq_true, if_true] at hok
    unfold rqShape at hok
    simp only [Bool.or_eq_true, beq_iff_eq] at hok
    rcases hok with ((h | h) | h) | h
    · rw [h] at hmap
      obtain ⟨a, q, c, rfl, h1, h2, h3⟩ := map_eq_three hmap
      left
      rw [root_even (t := I.lparen) h1, root_even (t := I.rparen) h3]
      exact ⟨q, rfl, h2⟩
    · rw [h] at hmap
      obtain ⟨q, a, c, rfl, h1, h2, h3⟩ := map_eq_three hmap
      right; left
      rw [root_even (t := I.lparen) h2, root_even (t := I.rparen) h3]
      exact ⟨q, rfl, h1⟩
    · rw [h] at hmap
      obtain ⟨a, b, rfl, h1, h2⟩ := map_eq_two hmap
      right; right; left
      exact ⟨a, b, rfl, h1, h2⟩
    · split at h
      · rename_i x hx
        rw [hx] at hmap
        simp only [Bool.and_eq_true, beq_iff_eq, List.contains_iff_mem] at h
        obtain ⟨k, rfl, hm⟩ := map_eq_one hmap
        have hk2 : k.root = 2 * (x / 2) := by omega
        have hmem := h.2
        rw [hΦ.all, List.mem_filter] at hmem
        simp only [Bool.and_eq_true, bne_iff_ne, ne_eq] at hmem
        right; right; right
        exact ⟨x / 2, by rw [root_even hk2], hmem.2.1, hmem.2.2⟩
      · simp at h

/-- the frontier of a `raw_query` subtree is balanced in parentheses and not empty -/
theorem rq_balanced {I : Ids} {T : Tables} (hΦ : Phi I T) : ∀ (n : Nat) (q : PT), size q ≤ n →
    q.WF T → q.root = I.rqc → depthAfter I 0 q.yield = some 0 ∧ q.yield ≠ [] := by
  intro n
  induction n with
  | zero => intro q hs; cases q <;> simp [size] at hs
  | succ n ih =>
    intro q hs hw hr
    cases q with
    | leaf t => exact absurd hr (leaf_root_ne_rqc I t)
    | node p lhs kids =>
      have hl : lhs = I.rq := by simp [PT.root, Ids.rqc] at hr; omega
      subst hl
      have hwk : ∀ k ∈ kids, PT.WF T k := by cases hw with | node _ _ _ hk => exact hk
      have hne := hΦ.ne
      have hne' : ¬ I.rparen = I.lparen := fun e => hne e.symm
      rcases rq_cases hΦ hw with ⟨q, rfl, hq⟩ | ⟨q, rfl, hq⟩ | ⟨a, b, rfl, ha, hb⟩ | ⟨t, rfl, h1, h2⟩
      · have := ih q (by simp [size, sizeL] at hs; omega) (hwk q (by simp)) hq
        have h1 := depthAfter_succ I _ _ _ this.1
        constructor
        · simp only [PT.yield, yieldL, List.append_nil, List.singleton_append]
          simp only [depthAfter, if_true]
          rw [depthAfter_append, h1]
          simp [depthAfter, hne']
        · simp [PT.yield, yieldL]
      · have := ih q (by simp [size, sizeL] at hs; omega) (hwk q (by simp)) hq
        constructor
        · simp only [PT.yield, yieldL, List.append_nil]
          rw [depthAfter_append, this.1]
          simp [depthAfter, hne']
        · simp [PT.yield, yieldL, this.2]
      · have h1 := ih a (by simp [size, sizeL] at hs; omega) (hwk a (by simp)) ha
        have h2 := ih b (by simp [size, sizeL] at hs; omega) (hwk b (by simp)) hb
        constructor
        · simp only [PT.yield, yieldL, List.append_nil]
          rw [depthAfter_append, h1.1]; simpa using h2.1
        · simp [PT.yield, yieldL, h1.2]
      · constructor
        · simp [PT.yield, yieldL, depthAfter, h1, h2]
        · simp [PT.yield, yieldL]

/-! ## running the four modelled actions along a `raw_query` subtree -/

/-- evaluate the `raw_query` actions bottom-up on a derivation subtree, reading the subtree's tokens from the
front of `ts` (fuel `n`); returns the value as an `RQ` tree (whose `RQ.value` is what the actions return) and the
unread tokens.  The action is chosen by the production's shape, as in the parser class. -/
def toRQ : Nat → PT → List Tok → Option (RQ × List Tok)
  | 0, _, _ => none
  | _ + 1, .leaf _, _ => none
  | n + 1, .node _ _ kids, ts =>
    match kids with
    | [.leaf _] =>
      (match ts with
       | t :: r => some (.tok t, r)
       | [] => none)
    | [.leaf _, q, .leaf _] =>
      (match ts with
       | l :: ts1 =>
         (match toRQ n q ts1 with
          | some (r, rt :: ts2) => some (.paren l r rt, ts2)
          | _ => none)
       | [] => none)
    | [q, .leaf _, .leaf _] =>
      (match toRQ n q ts with
       | some (r, l :: rt :: ts2) => some (.call r l rt, ts2)
       | _ => none)
    | [a, b] =>
      (match toRQ n a ts with
       | some (ra, ts1) =>
         (match toRQ n b ts1 with
          | some (rb, ts2) => some (.cat ra rb, ts2)
          | none => none)
       | none => none)
    | _ => none

theorem toRQ_spec {I : Ids} {T : Tables} (hΦ : Phi I T) (tid : Tok → Nat) : ∀ (n : Nat) (q : PT), size q ≤ n →
    q.WF T → q.root = I.rqc → ∀ (ts rest : List Tok), ts.map tid = q.yield →
    ∃ r, toRQ n q (ts ++ rest) = some (r, rest) ∧ r.yield = ts := by
  intro n
  induction n with
  | zero => intro q hs; cases q <;> simp [size] at hs
  | succ n ih =>
    intro q hs hw hr ts rest hts
    cases q with
    | leaf t => exact absurd hr (leaf_root_ne_rqc I t)
    | node p lhs kids =>
      have hl : lhs = I.rq := by simp [PT.root, Ids.rqc] at hr; omega
      subst hl
      have hwk : ∀ k ∈ kids, PT.WF T k := by cases hw with | node _ _ _ hk => exact hk
      rcases rq_cases hΦ hw with ⟨q, rfl, hq⟩ | ⟨q, rfl, hq⟩ | ⟨a, b, rfl, ha, hb⟩ | ⟨t, rfl, _, _⟩
      · simp only [PT.yield, yieldL, List.append_nil, List.singleton_append] at hts
        obtain ⟨l, ts1, rfl, _, h1⟩ := List.map_eq_cons_iff.1 hts
        obtain ⟨tm, tr, rfl, hm, hr1⟩ := List.map_eq_append_iff.1 h1
        obtain ⟨rt, tr', rfl, _, hnil⟩ := List.map_eq_cons_iff.1 hr1
        have : tr' = [] := by simpa using hnil
        subst this
        obtain ⟨r, hr2, hy⟩ := ih q (by simp [size, sizeL] at hs; omega) (hwk q (by simp)) hq tm (rt :: rest) hm
        refine ⟨.paren l r rt, ?_, by simp [RQ.yield, hy]⟩
        simp [toRQ, hr2]
      · cases q with
        | leaf t => exact absurd hq (leaf_root_ne_rqc I t)
        | node p' l' ks' =>
          simp only [PT.yield, yieldL, List.append_nil] at hts
          obtain ⟨tq, tr, rfl, hm, hr1⟩ := List.map_eq_append_iff.1 hts
          obtain ⟨l, tr1, rfl, _, h1⟩ := List.map_eq_cons_iff.1 hr1
          obtain ⟨rt, tr2, rfl, _, hnil⟩ := List.map_eq_cons_iff.1 h1
          have : tr2 = [] := by simpa using hnil
          subst this
          obtain ⟨r, hr2, hy⟩ := ih (.node p' l' ks') (by simp [size, sizeL] at hs ⊢; omega)
            (hwk _ (by simp)) hq tq (l :: rt :: rest) (by simpa [PT.yield] using hm)
          refine ⟨.call r l rt, ?_, by simp [RQ.yield, hy]⟩
          simp [toRQ, hr2]
      · simp only [PT.yield, yieldL, List.append_nil] at hts
        obtain ⟨ta, tb, rfl, hma, hmb⟩ := List.map_eq_append_iff.1 hts
        obtain ⟨ra, hra, hya⟩ := ih a (by simp [size, sizeL] at hs; omega) (hwk a (by simp)) ha ta (tb ++ rest) hma
        obtain ⟨rb, hrb, hyb⟩ := ih b (by simp [size, sizeL] at hs; omega) (hwk b (by simp)) hb tb rest hmb
        refine ⟨.cat ra rb, ?_, by simp [RQ.yield, hya, hyb]⟩
        cases a with
        | leaf t => exact absurd ha (leaf_root_ne_rqc I t)
        | node pa la ka =>
          cases b with
          | leaf t => exact absurd hb (leaf_root_ne_rqc I t)
          | node pb lb kb =>
            simp only [List.append_assoc] at hra ⊢
            simp [toRQ, hra, hrb]
      · simp only [PT.yield, yieldL, List.append_nil] at hts
        obtain ⟨tk, tr, rfl, _, hnil⟩ := List.map_eq_cons_iff.1 hts
        have : tr = [] := by simpa using hnil
        subst this
        exact ⟨.tok tk, by simp [toRQ], by simp [RQ.yield]⟩

/-! ## occurrences of subtrees and the embedding productions -/

/-- `Occ t pre s post`: `s` is a subtree of `t`; `pre` / `post` are the parts of `t`'s frontier to its left / right -/
inductive Occ : PT → List Nat → PT → List Nat → Prop
  | here (t : PT) : Occ t [] t []
  | kid {p lhs : Nat} {l : List PT} {k : PT} {r : List PT} {pre : List Nat} {s : PT} {post : List Nat} :
      Occ k pre s post → Occ (.node p lhs (l ++ k :: r)) (yieldL l ++ pre) s (post ++ yieldL r)

theorem occ_yield {t s : PT} {pre post : List Nat} (h : Occ t pre s post) :
    t.yield = pre ++ s.yield ++ post := by
  induction h with
  | here t => simp
  | kid _ ih => simp only [PT.yield, yieldL_append, yieldL, ih, List.append_assoc]

theorem occ_wf {T : Tables} {t s : PT} {pre post : List Nat} (h : Occ t pre s post) (hw : t.WF T) : s.WF T := by
  induction h with
  | here t => exact hw
  | kid _ ih =>
    cases hw with
    | node _ _ _ hk => exact ih (hk _ (by simp))

theorem guarded_split (I : Ids) : ∀ (xs ys : List Nat) (prev : Nat),
    guarded I prev (xs ++ I.rqc :: ys) = true →
    ((xs = [] ∧ prev = I.lpc) ∨ ∃ xs', xs = xs' ++ [I.lpc]) ∧ ∃ ys', ys = I.rpc :: ys' := by
  intro xs
  induction xs with
  | nil =>
    intro ys prev h
    simp only [List.nil_append, guarded, beq_self_eq_true, if_true, Bool.and_eq_true, beq_iff_eq] at h
    refine ⟨Or.inl ⟨rfl, h.1.1⟩, ?_⟩
    cases ys with
    | nil => simp at h
    | cons y ys' => simp at h; exact ⟨ys', by rw [h.1.2]⟩
  | cons x xs ih =>
    intro ys prev h
    simp only [List.cons_append, guarded, Bool.and_eq_true] at h
    obtain ⟨h1, h2⟩ := ih ys x h.2
    refine ⟨Or.inr ?_, h2⟩
    rcases h1 with ⟨rfl, hx⟩ | ⟨xs', rfl⟩
    · exact ⟨[], by simp [hx]⟩
    · exact ⟨x :: xs', by simp⟩

/-- **structural lemma**: in a tree well formed over productions satisfying Φ16, a `raw_query` child `q` of a node of
any other nonterminal (an embedding production) stands directly between an `LPAREN` leaf and an `RPAREN` leaf, the
frontier of `q` is not empty, and that `RPAREN` is the one matching the `LPAREN` in the frontier of the whole tree. -/
theorem embed_interval {I : Ids} {T : Tables} (hΦ : Phi I T) {t : PT} (ht : t.WF T)
    {pre post : List Nat} {p lhs : Nat} {l r : List PT} {q : PT}
    (ho : Occ t pre (.node p lhs (l ++ q :: r)) post) (hl : lhs ≠ I.rq) (hq : q.root = I.rqc) :
    ∃ l' r', l = l' ++ [.leaf I.lparen] ∧ r = .leaf I.rparen :: r' ∧
      t.yield = (pre ++ yieldL l') ++ I.lparen :: (q.yield ++ I.rparen :: (yieldL r' ++ post)) ∧
      closeIdx I 0 (q.yield ++ I.rparen :: (yieldL r' ++ post)) = some q.yield.length ∧
      q.yield ≠ [] ∧ q.WF T := by
  have hn := occ_wf ho ht
  have hy := occ_yield ho
  cases hn with
  | node hget hlhs hmap hk =>
    rename_i pr
    have hok := Trie.allIdx_get' _ _ _ _ hΦ.prods hget
    have hne : (pr.lhs == I.rq) = false := by rw [hlhs]; simpa using hl
    simp only [prodOK, hne] at hok
    rw [← hmap, List.map_append, List.map_cons, hq] at hok
    obtain ⟨h1, ys', h2⟩ := guarded_split I _ _ _ (by simpa using hok)
    have hlp : (1 : Nat) ≠ I.lpc := by simp [Ids.lpc]; omega
    rcases h1 with ⟨_, h⟩ | ⟨xs', h⟩
    · exact absurd h hlp
    · obtain ⟨l', lk, rfl, _, hlk⟩ := List.map_eq_append_iff.1 h
      obtain ⟨k, rfl, hkr⟩ := map_eq_one hlk
      obtain ⟨k', r', rfl, hk'r, _⟩ := List.map_eq_cons_iff.1 h2
      have e1 := root_even (t := I.lparen) hkr
      have e2 := root_even (t := I.rparen) hk'r
      subst e1 e2
      have hqw : q.WF T := hk q (by simp)
      have hb := rq_balanced hΦ (size q) q (Nat.le_refl _) hqw hq
      refine ⟨l', r', rfl, rfl, ?_, closeIdx_balanced I hΦ.ne _ _ hb.1, hb.2, hqw⟩
      rw [hy]
      simp [PT.yield, yieldL_append, yieldL, List.append_assoc]

/-- the same on the token list itself: if `tks` are the tokens whose terminal numbers are the tree's frontier, the
tokens strictly between the embedding `LPAREN` and its matching `RPAREN` are exactly what the modelled `raw_query`
actions, run along the subtree, return; `query_str` is `tokens_to_string` of that interval. -/
theorem embed_tokens {I : Ids} {T : Tables} (hΦ : Phi I T) {t : PT} (ht : t.WF T)
    {pre post : List Nat} {p lhs : Nat} {l r : List PT} {q : PT}
    (ho : Occ t pre (.node p lhs (l ++ q :: r)) post) (hl : lhs ≠ I.rq) (hq : q.root = I.rqc)
    (tid : Tok → Nat) (tks : List Tok) (htk : tks.map tid = t.yield) :
    ∃ (tpre : List Tok) (tl : Tok) (tmid : List Tok) (tr : Tok) (tpost : List Tok) (v : RQ),
      tks = tpre ++ tl :: (tmid ++ tr :: tpost) ∧ tid tl = I.lparen ∧ tid tr = I.rparen ∧
      tmid.map tid = q.yield ∧ tmid ≠ [] ∧
      closeIdx I 0 ((tmid ++ tr :: tpost).map tid) = some tmid.length ∧
      toRQ (size q) q (tmid ++ tr :: tpost) = some (v, tr :: tpost) ∧
      v.value = tmid ∧ queryStr v = tokensToString tmid := by
  obtain ⟨l', r', _, _, hy, hc, hne, hqw⟩ := embed_interval hΦ ht ho hl hq
  rw [hy] at htk
  obtain ⟨tpre, rest1, rfl, _, h1⟩ := List.map_eq_append_iff.1 htk
  obtain ⟨tl, rest2, rfl, htl, h2⟩ := List.map_eq_cons_iff.1 h1
  obtain ⟨tmid, rest3, rfl, hm, h3⟩ := List.map_eq_append_iff.1 h2
  obtain ⟨tr, tpost, rfl, htr, h4⟩ := List.map_eq_cons_iff.1 h3
  obtain ⟨v, hv, hvy⟩ := toRQ_spec hΦ tid (size q) q (Nat.le_refl _) hqw hq tmid (tr :: tpost) hm
  refine ⟨tpre, tl, tmid, tr, tpost, v, rfl, htl, htr, hm, ?_, ?_, hv, ?_, ?_⟩
  · intro h; rw [h] at hm; exact hne (by simpa using hm.symm)
  · have : (tmid ++ tr :: tpost).map tid = q.yield ++ I.rparen :: (yieldL r' ++ post) := by
      simp [hm, htr, h4]
    rw [this, hc, ← hm]; simp
  · rw [RQ.value_eq_yield, hvy]
  · rw [queryStr, RQ.value_eq_yield, hvy]

/-! ## executable check used for non-vacuity examples -/
mutual
/-- does the tree contain an embedding node (a node of another nonterminal with a `raw_query` child)? -/
def hasEmbed (I : Ids) : PT → Bool
  | .leaf _ => false
  | .node _ lhs ks => (lhs != I.rq && ks.any (fun k => k.root == I.rqc)) || hasEmbedL I ks
def hasEmbedL (I : Ids) : List PT → Bool
  | [] => false
  | k :: ks => hasEmbed I k || hasEmbedL I ks
end

theorem hasEmbedL_mem (I : Ids) : ∀ ks : List PT, hasEmbedL I ks = true → ∃ k ∈ ks, hasEmbed I k = true := by
  intro ks
  induction ks with
  | nil => intro h; simp [hasEmbedL] at h
  | cons k ks ih =>
    intro h
    simp only [hasEmbedL, Bool.or_eq_true] at h
    rcases h with h | h
    · exact ⟨k, by simp, h⟩
    · obtain ⟨k', hk', h'⟩ := ih h; exact ⟨k', by simp [hk'], h'⟩

theorem size_mem_lt : ∀ (ks : List PT) (k : PT), k ∈ ks → size k ≤ sizeL ks := by
  intro ks
  induction ks with
  | nil => intro k h; simp at h
  | cons a ks ih =>
    intro k h
    simp only [List.mem_cons] at h
    rcases h with rfl | h
    · simp [sizeL]
    · have := ih k h; simp [sizeL]; omega

/-- soundness of the executable search: it finds an occurrence of an embedding node -/
theorem hasEmbed_occ (I : Ids) : ∀ (n : Nat) (t : PT), size t ≤ n → hasEmbed I t = true →
    ∃ pre post p lhs l q r, Occ t pre (.node p lhs (l ++ q :: r)) post ∧ lhs ≠ I.rq ∧ q.root = I.rqc := by
  intro n
  induction n with
  | zero => intro t hs; cases t <;> simp [size] at hs
  | succ n ih =>
    intro t hs h
    cases t with
    | leaf x => simp [hasEmbed] at h
    | node p lhs ks =>
      simp only [hasEmbed, Bool.or_eq_true, Bool.and_eq_true, bne_iff_ne, ne_eq, List.any_eq_true, beq_iff_eq] at h
      rcases h with ⟨hl, q, hq, hr⟩ | h
      · obtain ⟨l, r, rfl⟩ := List.append_of_mem hq
        exact ⟨[], [], p, lhs, l, q, r, Occ.here _, hl, hr⟩
      · obtain ⟨k, hk, hek⟩ := hasEmbedL_mem I ks h
        have hsz := size_mem_lt ks k hk
        obtain ⟨pre, post, p', lhs', l', q, r', ho, h1, h2⟩ := ih k (by simp [size] at hs; omega) hek
        obtain ⟨l, r, rfl⟩ := List.append_of_mem hk
        exact ⟨_, _, p', lhs', l', q, r', Occ.kid ho, h1, h2⟩

end MindsVerif.RawQueryLink
