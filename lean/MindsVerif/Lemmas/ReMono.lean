import MindsVerif.Model.Re
/-!
Monotonicity of the backtracking matcher: whatever `m r` hands to its continuation is a position of the
same text at or behind the start (`Pos.le`), strictly behind it when `nonNull r` (`Pos.lt`).
No hypothesis on the regex: holds for every `Re`, every word set, every text.
-/
namespace MindsVerif.Re

/-- `q` is reached from `p` by consuming a prefix `l` of `p.suf` -/
def Pos.le (p q : Pos) : Prop := ∃ l, q.pre = l.reverse ++ p.pre ∧ p.suf = l ++ q.suf

def Pos.lt (p q : Pos) : Prop := ∃ l, l ≠ [] ∧ q.pre = l.reverse ++ p.pre ∧ p.suf = l ++ q.suf

theorem Pos.le_refl (p : Pos) : p.le p := ⟨[], by simp, by simp⟩

theorem Pos.le_trans {p q r : Pos} (h1 : p.le q) (h2 : q.le r) : p.le r := by
  obtain ⟨l1, a1, b1⟩ := h1
  obtain ⟨l2, a2, b2⟩ := h2
  exact ⟨l1 ++ l2, by simp [a2, a1], by simp [b1, b2]⟩

theorem Pos.le_of_lt {p q : Pos} (h : p.lt q) : p.le q := by
  obtain ⟨l, _, a, b⟩ := h
  exact ⟨l, a, b⟩

theorem Pos.lt_of_lt_of_le {p q r : Pos} (h1 : p.lt q) (h2 : q.le r) : p.lt r := by
  obtain ⟨l1, n1, a1, b1⟩ := h1
  obtain ⟨l2, a2, b2⟩ := h2
  refine ⟨l1 ++ l2, ?_, by simp [a2, a1], by simp [b1, b2]⟩
  intro h
  exact n1 (List.append_eq_nil_iff.mp h).1

theorem Pos.lt_of_le_of_lt {p q r : Pos} (h1 : p.le q) (h2 : q.lt r) : p.lt r := by
  obtain ⟨l1, a1, b1⟩ := h1
  obtain ⟨l2, n2, a2, b2⟩ := h2
  refine ⟨l1 ++ l2, ?_, by simp [a2, a1], by simp [b1, b2]⟩
  intro h
  exact n2 (List.append_eq_nil_iff.mp h).2

theorem Pos.lt_step (pre : List Nat) (c : Nat) (t : List Nat) : (Pos.mk pre (c :: t)).lt ⟨c :: pre, t⟩ :=
  ⟨[c], by simp, by simp, by simp⟩

theorem Pos.le_suf_length {p q : Pos} (h : p.le q) : q.suf.length ≤ p.suf.length := by
  obtain ⟨l, _, b⟩ := h
  simp [b]

theorem Pos.lt_suf_length {p q : Pos} (h : p.lt q) : q.suf.length < p.suf.length := by
  obtain ⟨l, n, _, b⟩ := h
  have : 0 < l.length := List.length_pos_iff.mpr n
  simp [b]; omega

/-- the text of a position -/
def Pos.text (p : Pos) : List Nat := p.pre.reverse ++ p.suf

theorem Pos.le_text {p q : Pos} (h : p.le q) : q.text = p.text := by
  obtain ⟨l, a, b⟩ := h
  simp [Pos.text, a, b]

theorem Pos.le_index {p q : Pos} (h : p.le q) : p.index ≤ q.index := by
  obtain ⟨l, a, _⟩ := h
  simp [Pos.index, a]

theorem orElse_some {α} {x : Option α} {f : Unit → Option α} {a : α} (h : x.orElse f = some a) :
    x = some a ∨ (x = none ∧ f () = some a) := by
  cases x with
  | none => right; exact ⟨rfl, by simpa [Option.orElse] using h⟩
  | some b => left; simpa [Option.orElse] using h

/-- what a step function must satisfy -/
def StepMono (step : Pos → (Pos → Option Pos) → Option Pos) : Prop :=
  ∀ p k a, step p k = some a → ∃ q, p.le q ∧ k q = some a

theorem starLoop_mono {step} (hs : StepMono step) (g : Bool) :
    ∀ n p k a, starLoop step g n p k = some a → ∃ q, p.le q ∧ k q = some a := by
  intro n
  induction n with
  | zero => intro p k a h; exact ⟨p, Pos.le_refl p, by simpa [starLoop] using h⟩
  | succ n ih =>
    intro p k a h
    have key : ∀ a, (step p fun q => if q.suf.length < p.suf.length then starLoop step g n q k else none) = some a →
        ∃ q, p.le q ∧ k q = some a := by
      intro a h1
      obtain ⟨q1, l1, h2⟩ := hs _ _ _ h1
      by_cases hc : q1.suf.length < p.suf.length
      · simp only [hc, if_true] at h2
        obtain ⟨q2, l2, h3⟩ := ih _ _ _ h2
        exact ⟨q2, Pos.le_trans l1 l2, h3⟩
      · simp [hc] at h2
    unfold starLoop at h
    cases g with
    | true =>
      simp only [if_true] at h
      rcases orElse_some h with h1 | ⟨_, h1⟩
      · exact key a h1
      · exact ⟨p, Pos.le_refl p, h1⟩
    | false =>
      simp only [Bool.false_eq_true, if_false] at h
      rcases orElse_some h with h1 | ⟨_, h1⟩
      · exact ⟨p, Pos.le_refl p, h1⟩
      · exact key a h1

theorem m_mono (w : CSet) : ∀ (r : Re) (p : Pos) (k : Pos → Option Pos) (a : Pos),
    m w r p k = some a → ∃ q, p.le q ∧ k q = some a := by
  intro r
  induction r with
  | eps => intro p k a h; exact ⟨p, Pos.le_refl p, by simpa [m] using h⟩
  | set s =>
    intro p k a h
    obtain ⟨pre, suf⟩ := p
    cases suf with
    | nil => simp [m] at h
    | cons c t =>
      simp only [m] at h
      by_cases hc : s.mem c = true
      · simp only [hc, if_true] at h
        exact ⟨⟨c :: pre, t⟩, Pos.le_of_lt (Pos.lt_step pre c t), h⟩
      · simp [hc] at h
  | seq a b iha ihb =>
    intro p k x h
    simp only [m] at h
    obtain ⟨q1, l1, h1⟩ := iha _ _ _ h
    obtain ⟨q2, l2, h2⟩ := ihb _ _ _ h1
    exact ⟨q2, Pos.le_trans l1 l2, h2⟩
  | alt a b iha ihb =>
    intro p k x h
    simp only [m] at h
    rcases orElse_some h with h1 | ⟨_, h1⟩
    · exact iha _ _ _ h1
    · exact ihb _ _ _ h1
  | star g r ih =>
    intro p k x h
    simp only [m] at h
    exact starLoop_mono (fun p k a h => ih p k a h) g _ _ _ _ h
  | look neg r _ =>
    intro p k x h
    simp only [m] at h
    refine ⟨p, Pos.le_refl p, ?_⟩
    cases hm : m w r p some with
    | none => rw [hm] at h; cases neg <;> simp_all
    | some y => rw [hm] at h; cases neg <;> simp_all
  | bound neg =>
    intro p k x h
    simp only [m] at h
    refine ⟨p, Pos.le_refl p, ?_⟩
    split at h
    · exact h
    · cases h
  | fail => intro p k a h; simp [m] at h

theorem m_strict (w : CSet) : ∀ (r : Re), nonNull r = true → ∀ (p : Pos) (k : Pos → Option Pos) (a : Pos),
    m w r p k = some a → ∃ q, p.lt q ∧ k q = some a := by
  intro r
  induction r with
  | eps => intro hn; simp [nonNull] at hn
  | set s =>
    intro _ p k a h
    obtain ⟨pre, suf⟩ := p
    cases suf with
    | nil => simp [m] at h
    | cons c t =>
      simp only [m] at h
      by_cases hc : s.mem c = true
      · simp only [hc, if_true] at h
        exact ⟨⟨c :: pre, t⟩, Pos.lt_step pre c t, h⟩
      · simp [hc] at h
  | seq a b iha ihb =>
    intro hn p k x h
    simp only [m] at h
    simp only [nonNull, Bool.or_eq_true] at hn
    rcases hn with ha | hb
    · obtain ⟨q1, l1, h1⟩ := iha ha _ _ _ h
      obtain ⟨q2, l2, h2⟩ := m_mono w b _ _ _ h1
      exact ⟨q2, Pos.lt_of_lt_of_le l1 l2, h2⟩
    · obtain ⟨q1, l1, h1⟩ := m_mono w a _ _ _ h
      obtain ⟨q2, l2, h2⟩ := ihb hb _ _ _ h1
      exact ⟨q2, Pos.lt_of_le_of_lt l1 l2, h2⟩
  | alt a b iha ihb =>
    intro hn p k x h
    simp only [m] at h
    simp only [nonNull, Bool.and_eq_true] at hn
    rcases orElse_some h with h1 | ⟨_, h1⟩
    · exact iha hn.1 _ _ _ h1
    · exact ihb hn.2 _ _ _ h1
  | star g r _ => intro hn; simp [nonNull] at hn
  | look neg r _ => intro hn; simp [nonNull] at hn
  | bound neg => intro hn; simp [nonNull] at hn
  | fail => intro _ p k a h; simp [m] at h

theorem matchAt_le {w r p q} (h : matchAt w r p = some q) : p.le q := by
  obtain ⟨q', l, h'⟩ := m_mono w r p some q h
  cases h'; exact l

theorem matchAt_lt {w r p q} (hn : nonNull r = true) (h : matchAt w r p = some q) : p.lt q := by
  obtain ⟨q', l, h'⟩ := m_strict w r hn p some q h
  cases h'; exact l

end MindsVerif.Re
