import MindsVerif.Lemmas.ReWordAt
/-!
The string-literal regex of the three lexers (since /repo 73323f7, with look-aheads)

    ' (?: \\ . (?=[^']*') | [^'] )*  (?: '' (?=[^']*') (?: \\ . (?=[^']*') | [^'] )* )*  '

on the text the printers produce for a string value: opening quote, the value with every backslash doubled and every quote
doubled, closing quote.  The value is given as its quote-free chunks `u0, u1, …, uk` (value = `u0 ' u1 ' … ' uk`).
`strRe_match`: the first match in priority order is the whole literal — the greedy path never has to backtrack.
-/
namespace MindsVerif.Re

def strL (Q NQ : CSet) : Re := .seq (.star true (.set NQ)) (.set Q)
def strX (Q NQ BS ANY : CSet) : Re := .alt (.seq (.set BS) (.seq (.set ANY) (.look false (strL Q NQ)))) (.set NQ)
def strG (Q NQ BS ANY : CSet) : Re :=
  .seq (.set Q) (.seq (.set Q) (.seq (.look false (strL Q NQ)) (.star true (strX Q NQ BS ANY))))
def strRe (Q NQ BS ANY : CSet) : Re :=
  .seq (.set Q) (.seq (.star true (strX Q NQ BS ANY)) (.seq (.star true (strG Q NQ BS ANY)) (.set Q)))

/-- the printers' encoding of a quote-free chunk: the backslash doubled -/
def encB (bs : Nat) : List Nat → List Nat
  | [] => []
  | c :: t => if c = bs then bs :: bs :: encB bs t else c :: encB bs t

/-- the text behind the first chunk's stop quote: `tt [] = []` (that quote was the closing one), otherwise the second quote
of a doubled quote, the next chunk and its stop quote -/
def tt (q bs : Nat) : List (List Nat) → List Nat
  | [] => []
  | u :: cs => q :: (encB bs u ++ q :: tt q bs cs)

structure StrOK (Q NQ BS ANY : CSet) (q bs : Nat) : Prop where
  qq : Q.mem q = true
  nq : NQ.mem q = false
  bq : BS.mem q = false
  bb : BS.mem bs = true
  ab : ANY.mem bs = true
  nn : ∀ c, c ≠ q → c ≤ 1114111 → NQ.mem c = true
  nb : ∀ c, c ≠ bs → BS.mem c = false

/-- a chunk: no quote, code points of a Python string -/
def ChunkOK (q : Nat) (u : List Nat) : Prop := ∀ c ∈ u, c ≠ q ∧ c ≤ 1114111

theorem StrOK.bs_ne {Q NQ BS ANY q bs} (h : StrOK Q NQ BS ANY q bs) : bs ≠ q := by
  intro e; have := h.bb; rw [e, h.bq] at this; cases this

theorem encB_mem {Q NQ BS ANY q bs} (h : StrOK Q NQ BS ANY q bs) (hle : bs ≤ 1114111) : ∀ (u : List Nat), ChunkOK q u →
    ∀ c ∈ encB bs u, NQ.mem c = true := by
  intro u
  induction u with
  | nil => intro _ c hc; simp [encB] at hc
  | cons x t ih =>
    intro hu c hc
    have hx := hu x List.mem_cons_self
    have ht : ChunkOK q t := fun y hy => hu y (List.mem_cons_of_mem _ hy)
    unfold encB at hc
    by_cases hb : x = bs
    · simp only [hb, if_true, List.mem_cons] at hc
      rcases hc with h0 | h0 | h0
      · subst h0; exact h.nn _ h.bs_ne hle
      · subst h0; exact h.nn _ h.bs_ne hle
      · exact ih ht c h0
    · simp only [hb, if_false, List.mem_cons] at hc
      rcases hc with h0 | h0
      · subst h0; exact h.nn _ hx.1 hx.2
      · exact ih ht c h0

/-- the look-ahead `(?=[^']*')` succeeds where a quote-free run is followed by a quote -/
theorem look_ok (W : CSet) {Q NQ BS ANY q bs} (h : StrOK Q NQ BS ANY q bs) (pre x rest : List Nat)
    (hx : ∀ c ∈ x, NQ.mem c = true) (k : Pos → Option Pos) :
    m W (.look false (strL Q NQ)) ⟨pre, x ++ q :: rest⟩ k = k ⟨pre, x ++ q :: rest⟩ := by
  have hL : m W (strL Q NQ) ⟨pre, x ++ q :: rest⟩ some = some ⟨q :: (x.reverse ++ pre), rest⟩ := by
    unfold strL
    rw [m_seq, m_star]
    apply star_set_stop (isSetStep_m W NQ) q h.nq rest x pre _ _ _ hx (by simp; omega)
    rw [m_set_cons, if_pos h.qq]
  simp only [m]
  rw [hL]
  simp

/-- greedy `X*` over an encoded chunk runs to the stop quote when the continuation succeeds there -/
theorem strX_star (W : CSet) {Q NQ BS ANY q bs} (h : StrOK Q NQ BS ANY q bs) (hle : bs ≤ 1114111) (rest : List Nat)
    {step : Pos → (Pos → Option Pos) → Option Pos} (hstep : ∀ p k, step p k = m W (strX Q NQ BS ANY) p k) :
    ∀ (u : List Nat) (pre : List Nat) (n : Nat) (K : Pos → Option Pos) (a : Pos), ChunkOK q u →
    (encB bs u).length < n → K ⟨(encB bs u).reverse ++ pre, q :: rest⟩ = some a →
    starLoop step true n ⟨pre, encB bs u ++ q :: rest⟩ K = some a := by
  intro u
  induction u with
  | nil =>
    intro pre n K a _ hn hK
    cases n with
    | zero => omega
    | succ n =>
      simp only [encB, List.nil_append, starLoop, if_true]
      rw [hstep]
      unfold strX
      rw [m_alt, m_seq, m_set_cons, if_neg (by simp [h.bq]), m_set_cons, if_neg (by simp [h.nq])]
      simpa [Option.orElse, encB] using hK
  | cons c t ih =>
    intro pre n K a hu hn hK
    have hc := hu c List.mem_cons_self
    have ht : ChunkOK q t := fun y hy => hu y (List.mem_cons_of_mem _ hy)
    cases n with
    | zero => omega
    | succ n =>
      by_cases hb : c = bs
      · subst hb
        have e : encB c (c :: t) = c :: c :: encB c t := by simp [encB]
        rw [e] at hn hK ⊢
        have := ih (c :: c :: pre) n K a ht (by simp at hn ⊢; omega) (by simpa using hK)
        simp only [List.cons_append, starLoop, if_true]
        rw [hstep]
        unfold strX
        rw [m_alt, m_seq, m_set_cons, if_pos h.bb, m_seq, m_set_cons, if_pos h.ab,
          look_ok W h (c :: c :: pre) (encB c t) rest (encB_mem h hle t ht)]
        have hlt : (encB c t ++ q :: rest).length < (c :: c :: (encB c t ++ q :: rest)).length := by simp <;> omega
        simp only [hlt, if_true, this]
        rfl
      · have e : encB bs (c :: t) = c :: encB bs t := by simp [encB, hb]
        rw [e] at hn hK ⊢
        have := ih (c :: pre) n K a ht (by simp at hn ⊢; omega) (by simpa using hK)
        simp only [List.cons_append, starLoop, if_true]
        rw [hstep]
        unfold strX
        rw [m_alt, m_seq, m_set_cons, if_neg (by simp [h.nb c hb]), m_set_cons, if_pos (h.nn c hc.1 hc.2)]
        have hlt : (encB bs t ++ q :: rest).length < (c :: (encB bs t ++ q :: rest)).length := by simp <;> omega
        simp only [hlt, if_true, this]
        rfl

theorem Pos.fin_adv (pre l rest : List Nat) : (Pos.mk (l.reverse ++ pre) rest).fin = (Pos.mk pre (l ++ rest)).fin := by
  simp [Pos.fin]

/-- greedy `G*` over the doubled quotes and chunks behind a stop quote, closing quote last -/
theorem strG_star (W : CSet) {Q NQ BS ANY q bs} (h : StrOK Q NQ BS ANY q bs) (hle : bs ≤ 1114111)
    {step : Pos → (Pos → Option Pos) → Option Pos} {kq : Pos → Option Pos}
    (hstep : ∀ p k, step p k = m W (strG Q NQ BS ANY) p k) (hk : ∀ p, kq p = m W (.set Q) p some) :
    ∀ (cs : List (List Nat)) (pre : List Nat) (n : Nat), (∀ u ∈ cs, ChunkOK q u) → (tt q bs cs).length + 1 < n →
    starLoop step true n ⟨pre, q :: tt q bs cs⟩ kq = some (Pos.mk pre (q :: tt q bs cs)).fin := by
  intro cs
  induction cs with
  | nil =>
    intro pre n _ hn
    cases n with
    | zero => omega
    | succ n =>
      simp only [tt, starLoop, if_true]
      rw [hstep, hk]
      unfold strG
      rw [m_seq, m_set_cons, if_pos h.qq, m_seq]
      simp [m, h.qq, Option.orElse, Pos.fin]
  | cons u cs ih =>
    intro pre n hall hn
    have hu : ChunkOK q u := hall u List.mem_cons_self
    have hcs : ∀ v ∈ cs, ChunkOK q v := fun v hv => hall v (List.mem_cons_of_mem _ hv)
    cases n with
    | zero => omega
    | succ n =>
      have e : tt q bs (u :: cs) = q :: (encB bs u ++ q :: tt q bs cs) := rfl
      rw [e] at hn ⊢
      have hrec := ih ((encB bs u).reverse ++ q :: q :: pre) n hcs (by simp at hn ⊢; omega)
      simp only [starLoop, if_true]
      rw [hstep]
      unfold strG
      rw [m_seq, m_set_cons, if_pos h.qq, m_seq, m_set_cons, if_pos h.qq, m_seq,
        look_ok W h (q :: q :: pre) (encB bs u) (tt q bs cs) (encB_mem h hle u hu), m_star]
      rw [strX_star W h hle (tt q bs cs) (step := fun p k' => m W (strX Q NQ BS ANY) p k') (fun _ _ => rfl) u (q :: q :: pre) _ _
        (Pos.mk pre (q :: q :: (encB bs u ++ q :: tt q bs cs))).fin hu (by simp; omega)]
      · rfl
      · have hlt : (q :: tt q bs cs).length < (q :: q :: (encB bs u ++ q :: tt q bs cs)).length := by simp; omega
        simp only [hlt, if_true, hrec]
        congr 1
        simp [Pos.fin]

/-- **the literal regex on an encoded literal**: opening quote, first chunk, (doubled quote, chunk)*, closing quote — the first
match in priority order is the whole text -/
theorem strRe_match (W : CSet) {Q NQ BS ANY q bs} (h : StrOK Q NQ BS ANY q bs) (hle : bs ≤ 1114111)
    (u0 : List Nat) (cs : List (List Nat)) (hu0 : ChunkOK q u0) (hcs : ∀ u ∈ cs, ChunkOK q u) (pre : List Nat) :
    matchAt W (strRe Q NQ BS ANY) ⟨pre, q :: (encB bs u0 ++ q :: tt q bs cs)⟩
      = some (Pos.mk pre (q :: (encB bs u0 ++ q :: tt q bs cs))).fin := by
  unfold matchAt strRe
  rw [m_seq, m_set_cons, if_pos h.qq, m_seq, m_star]
  apply strX_star W h hle (tt q bs cs) (step := fun p k' => m W (strX Q NQ BS ANY) p k') (fun _ _ => rfl) u0 (q :: pre) _ _ _ hu0
    (by simp; omega)
  rw [m_seq, m_star]
  rw [strG_star W h hle (step := fun p k' => m W (strG Q NQ BS ANY) p k') (kq := fun p => m W (.set Q) p some)
    (fun _ _ => rfl) (fun _ => rfl) cs ((encB bs u0).reverse ++ q :: pre) _ hcs (by simp)]
  congr 1
  simp [Pos.fin]

end MindsVerif.Re

namespace MindsVerif.Re

/-! ### the double-quoted literal regex `" (?: \\ . (?=[^"]*") | [^"] )* "` on a text made of plain characters and
backslash pairs (what `json.dumps(…, ensure_ascii=False)` writes: `\"`, `\\`, `\n`, `\uXXXX`, everything else as it is) -/

def dqRe (Q NQ BS ANY : CSet) : Re := .seq (.set Q) (.seq (.star true (strX Q NQ BS ANY)) (.set Q))

/-- an item of the body: a plain character (no quote, no backslash) or a backslash followed by a character -/
inductive DqItem where
  | ch (c : Nat)
  | esc (x : Nat)
  deriving Repr

def DqItem.text (bs : Nat) : DqItem → List Nat
  | .ch c => [c]
  | .esc x => [bs, x]

def dqBody (bs : Nat) (items : List DqItem) : List Nat := items.flatMap (DqItem.text bs)

def DqItem.ok (ANY : CSet) (q bs : Nat) : DqItem → Prop
  | .ch c => c ≠ q ∧ c ≠ bs ∧ c ≤ 1114111
  | .esc x => ANY.mem x = true

/-- `[^"]*"` succeeds wherever a quote still follows -/
theorem look_any (W : CSet) {Q NQ BS ANY q bs} (h : StrOK Q NQ BS ANY q bs) :
    ∀ (s : List Nat) (pre : List Nat), q ∈ s → (∀ c ∈ s, c ≤ 1114111) → ∃ a, m W (strL Q NQ) ⟨pre, s⟩ some = some a := by
  intro s
  induction s with
  | nil => intro _ hq; cases hq
  | cons c t ih =>
    intro pre hq hle
    unfold strL
    rw [m_seq, m_star]
    by_cases hc : c = q
    · subst hc
      refine ⟨⟨c :: pre, t⟩, ?_⟩
      simp [starLoop, m, h.nq, h.qq, Option.orElse]
    · have hq' : q ∈ t := by
        rcases List.mem_cons.mp hq with h0 | h0
        · exact absurd h0.symm hc
        · exact h0
      obtain ⟨a, ha⟩ := ih (c :: pre) hq' (fun x hx => hle x (List.mem_cons_of_mem _ hx))
      unfold strL at ha
      rw [m_seq, m_star] at ha
      refine ⟨a, ?_⟩
      have hN : NQ.mem c = true := h.nn c hc (hle c List.mem_cons_self)
      -- one more iteration of the greedy `[^"]*`, then the same run as from `t`
      have hfuel : ∀ n k, t.length < n → starLoop (fun q k' => m W (.set NQ) q k') true (n + 1) ⟨pre, c :: t⟩ k
          = (starLoop (fun q k' => m W (.set NQ) q k') true n ⟨c :: pre, t⟩ k).orElse fun _ => k ⟨pre, c :: t⟩ := by
        intro n k _
        simp [starLoop, m, hN]
      rw [show (Pos.mk pre (c :: t)).suf.length + 1 = (t.length + 1) + 1 from by simp]
      rw [hfuel _ _ (by omega)]
      simp only at ha
      rw [show (Pos.mk (c :: pre) t).suf.length + 1 = t.length + 1 from rfl] at ha
      rw [ha]
      rfl

theorem look_ok_any (W : CSet) {Q NQ BS ANY q bs} (h : StrOK Q NQ BS ANY q bs) (pre s : List Nat)
    (hq : q ∈ s) (hle : ∀ c ∈ s, c ≤ 1114111) (k : Pos → Option Pos) :
    m W (.look false (strL Q NQ)) ⟨pre, s⟩ k = k ⟨pre, s⟩ := by
  obtain ⟨a, ha⟩ := look_any W h s pre hq hle
  simp only [m]
  rw [ha]
  simp

theorem dqX_star (W : CSet) {Q NQ BS ANY q bs} (h : StrOK Q NQ BS ANY q bs) (hle : bs ≤ 1114111) (hqle : q ≤ 1114111)
    {step : Pos → (Pos → Option Pos) → Option Pos} (hstep : ∀ p k, step p k = m W (strX Q NQ BS ANY) p k) :
    ∀ (items : List DqItem) (pre : List Nat) (n : Nat) (K : Pos → Option Pos) (a : Pos),
    (∀ it ∈ items, it.ok ANY q bs) → (∀ c ∈ dqBody bs items, c ≤ 1114111) → (dqBody bs items).length < n →
    K ⟨(dqBody bs items).reverse ++ pre, [q]⟩ = some a →
    starLoop step true n ⟨pre, dqBody bs items ++ [q]⟩ K = some a := by
  intro items
  induction items with
  | nil =>
    intro pre n K a _ _ hn hK
    cases n with
    | zero => omega
    | succ n =>
      simp only [dqBody, List.flatMap_nil, List.nil_append, starLoop, if_true]
      rw [hstep]
      unfold strX
      rw [m_alt, m_seq, m_set_cons, if_neg (by simp [h.bq]), m_set_cons, if_neg (by simp [h.nq])]
      simpa [Option.orElse, dqBody] using hK
  | cons it t ih =>
    intro pre n K a hok hcp hn hK
    have hit := hok it List.mem_cons_self
    have hokt : ∀ x ∈ t, x.ok ANY q bs := fun x hx => hok x (List.mem_cons_of_mem _ hx)
    have e : dqBody bs (it :: t) = it.text bs ++ dqBody bs t := by simp [dqBody]
    have hcpt : ∀ c ∈ dqBody bs t, c ≤ 1114111 := fun c hc => hcp c (by rw [e]; exact List.mem_append_right _ hc)
    cases n with
    | zero => omega
    | succ n =>
      cases it with
      | ch c =>
        have e' : dqBody bs (DqItem.ch c :: t) = c :: dqBody bs t := by simp [dqBody, DqItem.text]
        rw [e'] at hn hK ⊢
        obtain ⟨h1, h2, h3⟩ := hit
        have := ih (c :: pre) n K a hokt hcpt (by simp at hn ⊢; omega) (by simpa using hK)
        simp only [List.cons_append, starLoop, if_true]
        rw [hstep]
        unfold strX
        rw [m_alt, m_seq, m_set_cons, if_neg (by simp [h.nb c h2]), m_set_cons, if_pos (h.nn c h1 h3)]
        have hlt : (dqBody bs t ++ [q]).length < (c :: (dqBody bs t ++ [q])).length := by simp
        simp only [hlt, if_true, this]
        rfl
      | esc x =>
        have e' : dqBody bs (DqItem.esc x :: t) = bs :: x :: dqBody bs t := by simp [dqBody, DqItem.text]
        rw [e'] at hn hK ⊢
        have := ih (x :: bs :: pre) n K a hokt hcpt (by simp at hn ⊢; omega) (by simpa using hK)
        have hx : ANY.mem x = true := hit
        simp only [List.cons_append, starLoop, if_true]
        rw [hstep]
        unfold strX
        rw [m_alt, m_seq, m_set_cons, if_pos h.bb, m_seq, m_set_cons, if_pos hx,
          look_ok_any W h (x :: bs :: pre) (dqBody bs t ++ [q]) (by simp)
            (fun c hc => by
              rcases List.mem_append.mp hc with h0 | h0
              · exact hcpt c h0
              · simp only [List.mem_cons, List.not_mem_nil, or_false] at h0; rw [h0]; exact hqle)]
        have hlt : (dqBody bs t ++ [q]).length < (bs :: x :: (dqBody bs t ++ [q])).length := by simp
        simp only [hlt, if_true, this]
        rfl

/-- **the double-quoted literal regex on quote, items, quote**: matched as a whole -/
theorem dqRe_match (W : CSet) {Q NQ BS ANY q bs} (h : StrOK Q NQ BS ANY q bs) (hle : bs ≤ 1114111) (hqle : q ≤ 1114111)
    (items : List DqItem) (hok : ∀ it ∈ items, it.ok ANY q bs) (hcp : ∀ c ∈ dqBody bs items, c ≤ 1114111) (pre : List Nat) :
    matchAt W (dqRe Q NQ BS ANY) ⟨pre, q :: (dqBody bs items ++ [q])⟩
      = some (Pos.mk pre (q :: (dqBody bs items ++ [q]))).fin := by
  unfold matchAt dqRe
  rw [m_seq, m_set_cons, if_pos h.qq, m_seq, m_star]
  apply dqX_star W h hle hqle (step := fun p k' => m W (strX Q NQ BS ANY) p k') (fun _ _ => rfl) items (q :: pre) _ _ _ hok hcp
    (by simp <;> omega)
  rw [m_set_cons, if_pos h.qq]
  simp [Pos.fin]

end MindsVerif.Re

namespace MindsVerif.Re

/-! ### the single-quoted literal inside a text: the closing quote is followed by something that is not a quote -/

def ttR (q bs : Nat) (rest : List Nat) : List (List Nat) → List Nat
  | [] => rest
  | u :: cs => q :: (encB bs u ++ q :: ttR q bs rest cs)

theorem strG_star_rest (W : CSet) {Q NQ BS ANY q bs} (h : StrOK Q NQ BS ANY q bs) (hle : bs ≤ 1114111)
    (rest : List Nat) (hrest : ∀ c t, rest = c :: t → Q.mem c = false)
    {step : Pos → (Pos → Option Pos) → Option Pos} {kq : Pos → Option Pos}
    (hstep : ∀ p k, step p k = m W (strG Q NQ BS ANY) p k) (hk : ∀ p, kq p = m W (.set Q) p some) :
    ∀ (cs : List (List Nat)) (pre : List Nat) (n : Nat), (∀ u ∈ cs, ChunkOK q u) → (ttR q bs rest cs).length + 1 < n →
    ∃ e, e.suf = rest ∧ (Pos.mk pre (q :: ttR q bs rest cs)).le e ∧
      starLoop step true n ⟨pre, q :: ttR q bs rest cs⟩ kq = some e := by
  intro cs
  induction cs with
  | nil =>
    intro pre n _ hn
    cases n with
    | zero => omega
    | succ n =>
      refine ⟨⟨q :: pre, rest⟩, rfl, Pos.le_of_lt (Pos.lt_step pre q rest), ?_⟩
      simp only [ttR, starLoop, if_true]
      rw [hstep, hk]
      unfold strG
      rw [m_seq, m_set_cons, if_pos h.qq, m_seq]
      cases rest with
      | nil => simp [m, h.qq, Option.orElse]
      | cons c t =>
        have := hrest c t rfl
        simp [m, h.qq, this, Option.orElse]
  | cons u cs ih =>
    intro pre n hall hn
    have hu : ChunkOK q u := hall u List.mem_cons_self
    have hcs : ∀ v ∈ cs, ChunkOK q v := fun v hv => hall v (List.mem_cons_of_mem _ hv)
    cases n with
    | zero => omega
    | succ n =>
      have e : ttR q bs rest (u :: cs) = q :: (encB bs u ++ q :: ttR q bs rest cs) := rfl
      rw [e] at hn ⊢
      obtain ⟨e1, he1, hle1, hrec⟩ := ih ((encB bs u).reverse ++ q :: q :: pre) n hcs (by simp at hn ⊢; omega)
      refine ⟨e1, he1, ?_, ?_⟩
      · refine Pos.le_trans ⟨q :: q :: encB bs u, by simp, by simp⟩ hle1
      · simp only [starLoop, if_true]
        rw [hstep]
        unfold strG
        rw [m_seq, m_set_cons, if_pos h.qq, m_seq, m_set_cons, if_pos h.qq, m_seq,
          look_ok W h (q :: q :: pre) (encB bs u) (ttR q bs rest cs) (encB_mem h hle u hu), m_star]
        rw [strX_star W h hle (ttR q bs rest cs) (step := fun p k' => m W (strX Q NQ BS ANY) p k') (fun _ _ => rfl) u (q :: q :: pre) _ _
          e1 hu (by simp <;> omega)]
        · rfl
        · have hlt : (q :: ttR q bs rest cs).length < (q :: q :: (encB bs u ++ q :: ttR q bs rest cs)).length := by simp <;> omega
          simp only [hlt, if_true, hrec]

/-- the literal regex on an encoded literal followed by `rest` (not starting with a quote): the match ends exactly in front
of `rest` -/
theorem strRe_match_rest (W : CSet) {Q NQ BS ANY q bs} (h : StrOK Q NQ BS ANY q bs) (hle : bs ≤ 1114111)
    (rest : List Nat) (hrest : ∀ c t, rest = c :: t → Q.mem c = false)
    (u0 : List Nat) (cs : List (List Nat)) (hu0 : ChunkOK q u0) (hcs : ∀ u ∈ cs, ChunkOK q u) (pre : List Nat) :
    ∃ e, e.suf = rest ∧ (Pos.mk pre (q :: (encB bs u0 ++ q :: ttR q bs rest cs))).le e ∧
      matchAt W (strRe Q NQ BS ANY) ⟨pre, q :: (encB bs u0 ++ q :: ttR q bs rest cs)⟩ = some e := by
  obtain ⟨e, he, hle', hg⟩ := strG_star_rest W h hle rest hrest (step := fun p k' => m W (strG Q NQ BS ANY) p k')
    (kq := fun p => m W (.set Q) p some) (fun _ _ => rfl) (fun _ => rfl) cs ((encB bs u0).reverse ++ q :: pre)
    ((q :: ttR q bs rest cs).length + 1) hcs (by simp)
  refine ⟨e, he, Pos.le_trans ⟨q :: encB bs u0, by simp, by simp⟩ hle', ?_⟩
  unfold matchAt strRe
  rw [m_seq, m_set_cons, if_pos h.qq, m_seq, m_star]
  apply strX_star W h hle (ttR q bs rest cs) (step := fun p k' => m W (strX Q NQ BS ANY) p k') (fun _ _ => rfl) u0 (q :: pre) _ _ _ hu0
    (by simp <;> omega)
  rw [m_seq, m_star]
  exact hg

end MindsVerif.Re
