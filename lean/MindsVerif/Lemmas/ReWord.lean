import MindsVerif.Lemmas.ReMono
/-!
Facts about the backtracking matcher on *word-only* texts, used to show that every plain, non-keyword word is lexed
as one `ID` token by the live rule lists (`Props/C04Lex.lean`):

* `m_out`       — a regex with a mandatory character class disjoint from `W` consumes a character outside `W`;
* `m_first`     — whatever a regex consumes starts with a character of its first set;
* `kw_match`    — a keyword rule `\b s1 … sn \b` matches at the start of a word-only text only the whole text, class by class;
* `star_set_all`, `id_match` — the identifier regex `A* B+ A*` consumes a whole plain word.
No sortedness of the range lists is assumed: membership facts go through `inSet`.
-/
namespace MindsVerif.Re

/-- `c` lies in one of the ranges -/
def inSet (s : CSet) (c : Nat) : Prop := ∃ r ∈ s, r.1 ≤ c ∧ c ≤ r.2

theorem mem_sound : ∀ {s : CSet} {c : Nat}, s.mem c = true → inSet s c
  | [], _, h => by simp [CSet.mem] at h
  | (lo, hi) :: r, c, h => by
    unfold CSet.mem at h
    by_cases h1 : Nat.blt c lo = true
    · simp [h1] at h
    · simp only [h1, Bool.false_eq_true, if_false] at h
      by_cases h2 : Nat.ble c hi = true
      · refine ⟨(lo, hi), List.mem_cons_self, ?_, Nat.le_of_ble_eq_true h2⟩
        have : ¬ c < lo := fun hlt => h1 (by simpa [Nat.blt_eq] using hlt)
        exact Nat.le_of_not_lt this
      · simp only [h2, Bool.false_eq_true, if_false] at h
        obtain ⟨r0, hr, hh⟩ := mem_sound h
        exact ⟨r0, List.mem_cons_of_mem _ hr, hh⟩

/-- no range of `a` overlaps a range of `b` -/
def disjointR (a b : CSet) : Bool := a.all fun x => b.all fun y => Nat.blt x.2 y.1 || Nat.blt y.2 x.1

theorem disjointR_sound {a b : CSet} (h : disjointR a b = true) {c : Nat} (ha : inSet a c) (hb : inSet b c) : False := by
  obtain ⟨x, hx, x1, x2⟩ := ha
  obtain ⟨y, hy, y1, y2⟩ := hb
  unfold disjointR at h
  have := (List.all_eq_true.mp ((List.all_eq_true.mp h) x hx)) y hy
  simp only [Bool.or_eq_true, Nat.blt_eq] at this
  omega

/-- every range of `b` lies inside one range of `a` -/
def coversR (a b : CSet) : Bool := b.all fun y => a.any fun x => Nat.ble x.1 y.1 && Nat.ble y.2 x.2

theorem coversR_sound {a b : CSet} (h : coversR a b = true) {c : Nat} (hb : inSet b c) : inSet a c := by
  obtain ⟨y, hy, y1, y2⟩ := hb
  unfold coversR at h
  obtain ⟨x, hx, hxy⟩ := List.any_eq_true.mp ((List.all_eq_true.mp h) y hy)
  simp only [Bool.and_eq_true, Nat.ble_eq] at hxy
  exact ⟨x, hx, by omega, by omega⟩

/-! ### a mandatory class outside `W` -/

def needsOut (W : CSet) : Re → Bool
  | .set s => disjointR s W
  | .seq a b => needsOut W a || needsOut W b
  | .alt a b => needsOut W a && needsOut W b
  | _ => false

/-- the consumed text between `p` and `q` holds a character outside `W` -/
def OutBetween (W : CSet) (p q : Pos) : Prop :=
  ∃ l, q.pre = l.reverse ++ p.pre ∧ p.suf = l ++ q.suf ∧ ∃ c ∈ l, ¬ inSet W c

theorem OutBetween.trans_le {W p q r} (h1 : OutBetween W p q) (h2 : q.le r) : OutBetween W p r := by
  obtain ⟨l1, a1, b1, c, hc, hn⟩ := h1
  obtain ⟨l2, a2, b2⟩ := h2
  exact ⟨l1 ++ l2, by simp [a2, a1], by simp [b1, b2], c, List.mem_append_left _ hc, hn⟩

theorem OutBetween.le_trans {W p q r} (h1 : p.le q) (h2 : OutBetween W q r) : OutBetween W p r := by
  obtain ⟨l1, a1, b1⟩ := h1
  obtain ⟨l2, a2, b2, c, hc, hn⟩ := h2
  exact ⟨l1 ++ l2, by simp [a2, a1], by simp [b1, b2], c, List.mem_append_right _ hc, hn⟩

theorem m_out (w W : CSet) : ∀ (r : Re), needsOut W r = true → ∀ (p : Pos) (k : Pos → Option Pos) (a : Pos),
    m w r p k = some a → ∃ q, OutBetween W p q ∧ k q = some a := by
  intro r
  induction r with
  | set s =>
    intro hn p k a h
    obtain ⟨pre, suf⟩ := p
    cases suf with
    | nil => simp [m] at h
    | cons c t =>
      simp only [m] at h
      by_cases hc : s.mem c = true
      · simp only [hc, if_true] at h
        refine ⟨⟨c :: pre, t⟩, ⟨[c], by simp, by simp, c, by simp, ?_⟩, h⟩
        intro hW
        exact disjointR_sound (by simpa [needsOut] using hn) (mem_sound hc) hW
      · simp [hc] at h
  | seq a b iha ihb =>
    intro hn p k x h
    simp only [m] at h
    simp only [needsOut, Bool.or_eq_true] at hn
    rcases hn with ha | hb
    · obtain ⟨q1, l1, h1⟩ := iha ha _ _ _ h
      obtain ⟨q2, l2, h2⟩ := m_mono w b _ _ _ h1
      exact ⟨q2, l1.trans_le l2, h2⟩
    · obtain ⟨q1, l1, h1⟩ := m_mono w a _ _ _ h
      obtain ⟨q2, l2, h2⟩ := ihb hb _ _ _ h1
      exact ⟨q2, OutBetween.le_trans l1 l2, h2⟩
  | alt a b iha ihb =>
    intro hn p k x h
    simp only [m] at h
    simp only [needsOut, Bool.and_eq_true] at hn
    rcases orElse_some h with h1 | ⟨_, h1⟩
    · exact iha hn.1 _ _ _ h1
    · exact ihb hn.2 _ _ _ h1
  | eps => intro hn; simp [needsOut] at hn
  | star g r _ => intro hn; simp [needsOut] at hn
  | look neg r _ => intro hn; simp [needsOut] at hn
  | bound neg => intro hn; simp [needsOut] at hn
  | fail => intro hn; simp [needsOut] at hn

/-- on a text whose rest holds only `W` characters such a regex cannot match -/
theorem matchAt_none_of_needsOut {w W : CSet} {r : Re} (hn : needsOut W r = true) {p : Pos}
    (hall : ∀ c ∈ p.suf, inSet W c) : matchAt w r p = none := by
  cases hm : matchAt w r p with
  | none => rfl
  | some q =>
    obtain ⟨q', ⟨l, _, b, c, hc, hnc⟩, _⟩ := m_out w W r hn p some q hm
    exact absurd (hall c (by rw [b]; exact List.mem_append_left _ hc)) hnc

/-! ### first sets -/

def first : Re → CSet
  | .set s => s
  | .seq a b => if nonNull a then first a else first a ++ first b
  | .alt a b => first a ++ first b
  | .star _ r => first r
  | _ => []

theorem inSet_append_left {a b : CSet} {c : Nat} (h : inSet a c) : inSet (a ++ b) c := by
  obtain ⟨r, hr, hh⟩ := h; exact ⟨r, List.mem_append_left _ hr, hh⟩
theorem inSet_append_right {a b : CSet} {c : Nat} (h : inSet b c) : inSet (a ++ b) c := by
  obtain ⟨r, hr, hh⟩ := h; exact ⟨r, List.mem_append_right _ hr, hh⟩

theorem Pos.eq_or_lt_of_le {p q : Pos} (h : p.le q) : p = q ∨ p.lt q := by
  obtain ⟨l, a, b⟩ := h
  cases l with
  | nil =>
    left
    obtain ⟨pp, ps⟩ := p
    obtain ⟨qp, qs⟩ := q
    simp only [List.reverse_nil, List.nil_append] at a b
    subst a; subst b; rfl
  | cons c t => right; exact ⟨c :: t, by simp, a, b⟩

theorem Pos.lt_of_le_of_length {p q : Pos} (h : p.le q) (hl : q.suf.length < p.suf.length) : p.lt q := by
  rcases Pos.eq_or_lt_of_le h with h1 | h1
  · subst h1; omega
  · exact h1

/-- what was consumed (if anything) starts with a character of `first r` -/
def FirstP (r : Re) (p q : Pos) : Prop := p.lt q → ∃ c t, p.suf = c :: t ∧ inSet (first r) c

theorem starLoop_first {w : CSet} {r : Re}
    (ih : ∀ p k a, m w r p k = some a → ∃ q, p.le q ∧ k q = some a ∧ FirstP r p q) (g : Bool) :
    ∀ n p k a, starLoop (fun q k' => m w r q k') g n p k = some a →
      ∃ q, p.le q ∧ k q = some a ∧ FirstP r p q := by
  intro n
  induction n with
  | zero => intro p k a h; exact ⟨p, Pos.le_refl p, by simpa [starLoop] using h, fun hlt => absurd (Pos.lt_suf_length hlt) (by omega)⟩
  | succ n ihn =>
    intro p k a h
    have stay : k p = some a → ∃ q, p.le q ∧ k q = some a ∧ FirstP r p q :=
      fun hk => ⟨p, Pos.le_refl p, hk, fun hlt => absurd (Pos.lt_suf_length hlt) (by omega)⟩
    have key : ∀ a, (m w r p fun q => if q.suf.length < p.suf.length then starLoop (fun q k' => m w r q k') g n q k else none) = some a →
        ∃ q, p.le q ∧ k q = some a ∧ FirstP r p q := by
      intro a h1
      obtain ⟨q1, l1, hk, hf⟩ := ih _ _ _ h1
      by_cases hc : q1.suf.length < p.suf.length
      · simp only [hc, if_true] at hk
        obtain ⟨q2, l2, h2, _⟩ := ihn _ _ _ hk
        exact ⟨q2, Pos.le_trans l1 l2, h2, fun _ => hf (Pos.lt_of_le_of_length l1 hc)⟩
      · simp [hc] at hk
    unfold starLoop at h
    cases g with
    | true =>
      simp only [if_true] at h
      rcases orElse_some h with h1 | ⟨_, h1⟩
      · exact key a h1
      · exact stay h1
    | false =>
      simp only [Bool.false_eq_true, if_false] at h
      rcases orElse_some h with h1 | ⟨_, h1⟩
      · exact stay h1
      · exact key a h1

theorem m_first (w : CSet) : ∀ (r : Re) (p : Pos) (k : Pos → Option Pos) (a : Pos),
    m w r p k = some a → ∃ q, p.le q ∧ k q = some a ∧ FirstP r p q ∧ (nonNull r = true → p.lt q) := by
  intro r
  induction r with
  | eps =>
    intro p k a h
    exact ⟨p, Pos.le_refl p, by simpa [m] using h, fun hlt => absurd (Pos.lt_suf_length hlt) (by omega),
      fun hn => by simp [nonNull] at hn⟩
  | set s =>
    intro p k a h
    obtain ⟨pre, suf⟩ := p
    cases suf with
    | nil => simp [m] at h
    | cons c t =>
      simp only [m] at h
      by_cases hc : s.mem c = true
      · simp only [hc, if_true] at h
        exact ⟨⟨c :: pre, t⟩, Pos.le_of_lt (Pos.lt_step pre c t), h, fun _ => ⟨c, t, rfl, mem_sound hc⟩,
          fun _ => Pos.lt_step pre c t⟩
      · simp [hc] at h
  | seq a b iha ihb =>
    intro p k x h
    simp only [m] at h
    obtain ⟨q1, l1, hk1, hf1, hs1⟩ := iha _ _ _ h
    obtain ⟨q2, l2, hk2, hf2, hs2⟩ := ihb _ _ _ hk1
    refine ⟨q2, Pos.le_trans l1 l2, hk2, ?_, ?_⟩
    · intro hlt
      rcases Pos.eq_or_lt_of_le l1 with he | hl
      · -- `a` stayed at `p`: it is not `nonNull`, and what was consumed was consumed by `b`
        subst he
        have hnn : nonNull a = false := by
          cases hnn : nonNull a with
          | false => rfl
          | true => exact absurd (Pos.lt_suf_length (hs1 hnn)) (by omega)
        obtain ⟨c, t, hs, hin⟩ := hf2 hlt
        refine ⟨c, t, hs, ?_⟩
        simp only [first, hnn]
        exact inSet_append_right hin
      · obtain ⟨c, t, hs, hin⟩ := hf1 hl
        refine ⟨c, t, hs, ?_⟩
        simp only [first]; split
        · exact hin
        · exact inSet_append_left hin
    · intro hn
      simp only [nonNull, Bool.or_eq_true] at hn
      rcases hn with ha | hb
      · exact Pos.lt_of_lt_of_le (hs1 ha) l2
      · exact Pos.lt_of_le_of_lt l1 (hs2 hb)
  | alt a b iha ihb =>
    intro p k x h
    simp only [m] at h
    rcases orElse_some h with h1 | ⟨_, h1⟩
    · obtain ⟨q, l, hk, hf, hs⟩ := iha _ _ _ h1
      exact ⟨q, l, hk, fun hlt => by obtain ⟨c, t, hs, hin⟩ := hf hlt; exact ⟨c, t, hs, inSet_append_left hin⟩,
        fun hn => hs (by simp only [nonNull, Bool.and_eq_true] at hn; exact hn.1)⟩
    · obtain ⟨q, l, hk, hf, hs⟩ := ihb _ _ _ h1
      exact ⟨q, l, hk, fun hlt => by obtain ⟨c, t, hs, hin⟩ := hf hlt; exact ⟨c, t, hs, inSet_append_right hin⟩,
        fun hn => hs (by simp only [nonNull, Bool.and_eq_true] at hn; exact hn.2)⟩
  | star g r ih =>
    intro p k x h
    simp only [m] at h
    obtain ⟨q, l, hk, hf⟩ := starLoop_first (fun p k a h => by
      obtain ⟨q, l, hk, hf, _⟩ := ih p k a h; exact ⟨q, l, hk, hf⟩) g _ _ _ _ h
    exact ⟨q, l, hk, hf, fun hn => by simp [nonNull] at hn⟩
  | look neg r _ =>
    intro p k x h
    simp only [m] at h
    refine ⟨p, Pos.le_refl p, ?_, fun hlt => absurd (Pos.lt_suf_length hlt) (by omega), fun hn => by simp [nonNull] at hn⟩
    cases hm : m w r p some with
    | none => rw [hm] at h; cases neg <;> simp_all
    | some y => rw [hm] at h; cases neg <;> simp_all
  | bound neg =>
    intro p k x h
    simp only [m] at h
    refine ⟨p, Pos.le_refl p, ?_, fun hlt => absurd (Pos.lt_suf_length hlt) (by omega), fun hn => by simp [nonNull] at hn⟩
    split at h
    · exact h
    · cases h
  | fail => intro p k a h; simp [m] at h

/-- a `nonNull` regex whose first set avoids `L` does not match where the text continues with an `L` character -/
theorem matchAt_none_of_first {w L : CSet} {r : Re} (hn : nonNull r = true) (hd : disjointR (first r) L = true)
    {p : Pos} {c : Nat} {t : List Nat} (hs : p.suf = c :: t) (hc : inSet L c) : matchAt w r p = none := by
  cases hm : matchAt w r p with
  | none => rfl
  | some q =>
    obtain ⟨q', _, _, hf, hlt⟩ := m_first w r p some q hm
    obtain ⟨c', t', hs', hin⟩ := hf (hlt hn)
    rw [hs] at hs'
    cases hs'
    exact (disjointR_sound hd hin hc).elim

/-! ### explicit membership of small classes -/

/-- every code point of the ranges of `P` is a member of `A` (by enumeration: `P` is small) -/
def allMemR (A P : CSet) : Bool := P.all fun r => (List.range' r.1 (r.2 + 1 - r.1)).all fun c => A.mem c

theorem allMemR_sound {A P : CSet} (h : allMemR A P = true) {c : Nat} (hc : inSet P c) : A.mem c = true := by
  obtain ⟨r, hr, h1, h2⟩ := hc
  unfold allMemR at h
  have := (List.all_eq_true.mp h) r hr
  exact (List.all_eq_true.mp this) c (by rw [List.mem_range']; exact ⟨c - r.1, by omega, by omega⟩)

/-! ### keyword rules `\b s1 … sn \b` -/

def kwTail : Re → Option (List CSet)
  | .bound false => some []
  | .seq (.set s) r => (kwTail r).map (s :: ·)
  | _ => none

def kwSets : Re → Option (List CSet)
  | .seq (.bound false) r => kwTail r
  | _ => none

def kwMatch : List CSet → List Nat → Bool
  | [], [] => true
  | s :: ss, c :: cs => s.mem c && kwMatch ss cs
  | _, _ => false

theorem kwTail_match (W : CSet) : ∀ (sets : List CSet) (r : Re), kwTail r = some sets →
    ∀ (p : Pos) (k : Pos → Option Pos) (a : Pos), (∀ c ∈ p.suf, W.mem c = true) →
      (sets = [] → isWordAt W p.pre.head? = true) → m W r p k = some a → kwMatch sets p.suf = true := by
  intro sets
  induction sets with
  | nil =>
    intro r hr p k a hall hprev h
    -- `r` is `\b`
    cases r with
    | bound neg =>
      cases neg with
      | true => simp [kwTail] at hr
      | false =>
        simp only [m] at h
        have hp := hprev rfl
        cases hs : p.suf with
        | nil => simp [kwMatch]
        | cons c t =>
          have hc : W.mem c = true := hall c (by rw [hs]; exact List.mem_cons_self)
          rw [hs] at h
          simp [hp] at h
          have h1 := h.1
          simp [isWordAt, hc] at h1
    | seq x y =>
      cases x with
      | set s => simp only [kwTail, Option.map_eq_some_iff] at hr; obtain ⟨_, _, h0⟩ := hr; cases h0
      | _ => simp [kwTail] at hr
    | _ => simp [kwTail] at hr
  | cons s ss ih =>
    intro r hr p k a hall _ h
    cases r with
    | seq x y =>
      cases x with
      | set s' =>
        simp only [kwTail, Option.map_eq_some_iff] at hr
        obtain ⟨ss', hy, h0⟩ := hr
        simp only [List.cons.injEq] at h0
        obtain ⟨e1, e2⟩ := h0
        subst e1; subst e2
        obtain ⟨pre, suf⟩ := p
        cases suf with
        | nil => simp [m] at h
        | cons c t =>
          simp only [m] at h
          by_cases hc : s'.mem c = true
          · simp only [hc, if_true] at h
            have hW : W.mem c = true := hall c List.mem_cons_self
            have := ih y hy ⟨c :: pre, t⟩ k a (fun d hd => hall d (List.mem_cons_of_mem _ hd))
              (fun _ => by simp [isWordAt, hW]) h
            simp only [kwMatch, hc, Bool.true_and]
            exact this
          · simp [hc] at h
      | _ => simp [kwTail] at hr
    | bound neg => cases neg <;> simp [kwTail] at hr
    | _ => simp [kwTail] at hr

/-- a keyword rule matches at a position whose rest is word-only only if the whole rest is the keyword -/
theorem kw_match {W : CSet} {r : Re} {sets : List CSet} (hk : kwSets r = some sets) (hne : sets ≠ [])
    {p q : Pos} (hall : ∀ c ∈ p.suf, W.mem c = true) (h : matchAt W r p = some q) : kwMatch sets p.suf = true := by
  cases r with
  | seq x y =>
    cases x with
    | bound neg =>
      cases neg with
      | true => simp [kwSets] at hk
      | false =>
        simp only [kwSets] at hk
        unfold matchAt at h
        simp only [m] at h
        split at h
        · exact kwTail_match W sets y hk p some q hall (fun h0 => absurd h0 hne) h
        · cases h
    | _ => simp [kwSets] at hk
  | _ => simp [kwSets] at hk

/-! ### the identifier regex `A* B+ A*` on a word -/

/-- `A* (B B*) A*` as the translator emits it -/
def idCore (A B : CSet) : Re :=
  .seq (.star true (.set A)) (.seq (.seq (.set B) (.star true (.set B))) (.star true (.set A)))

/-- the end position of a text -/
def Pos.fin (p : Pos) : Pos := ⟨p.suf.reverse ++ p.pre, []⟩

theorem Pos.fin_step (pre : List Nat) (c : Nat) (t : List Nat) : (Pos.mk (c :: pre) t).fin = (Pos.mk pre (c :: t)).fin := by
  simp [Pos.fin]

/-- the step function of a repeat over one character class -/
structure IsSetStep (S : CSet) (step : Pos → (Pos → Option Pos) → Option Pos) : Prop where
  nil : ∀ pre k, step ⟨pre, []⟩ k = none
  cons : ∀ pre c t k, step ⟨pre, c :: t⟩ k = if S.mem c = true then k ⟨c :: pre, t⟩ else none

theorem isSetStep_m (W S : CSet) : IsSetStep S (fun q k' => m W (.set S) q k') :=
  ⟨fun _ _ => by simp [m], fun _ _ _ _ => by simp [m]⟩

/-- greedy `S*` whose continuation succeeds at the end of an all-`S` rest returns that -/
theorem star_set_all {S : CSet} {step} (hs : IsSetStep S step) : ∀ (suf : List Nat) (pre : List Nat) (n : Nat)
    (k : Pos → Option Pos) (a : Pos),
    (∀ c ∈ suf, S.mem c = true) → suf.length < n → k (Pos.mk pre suf).fin = some a →
    starLoop step true n ⟨pre, suf⟩ k = some a := by
  intro suf
  induction suf with
  | nil =>
    intro pre n k a _ hn hk
    cases n with
    | zero => omega
    | succ n => simp only [starLoop, if_true, hs.nil]; simpa [Pos.fin, Option.orElse] using hk
  | cons c t ih =>
    intro pre n k a hall hn hk
    cases n with
    | zero => omega
    | succ n =>
      have hc : S.mem c = true := hall c List.mem_cons_self
      have := ih (c :: pre) n k a (fun d hd => hall d (List.mem_cons_of_mem _ hd)) (by simp at hn; omega)
        (by rw [Pos.fin_step]; exact hk)
      simp only [starLoop, if_true, hs.cons, hc, List.length_cons, Nat.lt_succ_self]
      rw [this]
      rfl

/-- greedy `S*` whose continuation returns `e` wherever it is asked returns `e` -/
theorem star_set_const {S : CSet} {step} (hs : IsSetStep S step) (e : Pos) : ∀ (n : Nat) (p : Pos) (k : Pos → Option Pos),
    (∀ q, p.le q → k q = some e) → starLoop step true n p k = some e := by
  intro n
  induction n with
  | zero => intro p k hk; simpa [starLoop] using hk p (Pos.le_refl p)
  | succ n ih =>
    intro p k hk
    simp only [starLoop, if_true]
    obtain ⟨pre, suf⟩ := p
    cases suf with
    | nil => simp only [hs.nil]; simpa [Option.orElse] using hk _ (Pos.le_refl _)
    | cons c t =>
      simp only [hs.cons]
      have hstep : (Pos.mk pre (c :: t)).le ⟨c :: pre, t⟩ := Pos.le_of_lt (Pos.lt_step pre c t)
      by_cases hc : S.mem c = true
      · simp only [hc, if_true, List.length_cons, Nat.lt_succ_self]
        rw [ih _ k (fun q hq => hk q (Pos.le_trans hstep hq))]; rfl
      · simp only [hc, Bool.false_eq_true, if_false]
        simpa [Option.orElse] using hk _ (Pos.le_refl _)

/-- greedy `S*` whose continuation fails everywhere fails -/
theorem star_set_none {S : CSet} {step} (hs : IsSetStep S step) : ∀ (n : Nat) (p : Pos) (k : Pos → Option Pos),
    (∀ q, p.le q → k q = none) → starLoop step true n p k = none := by
  intro n
  induction n with
  | zero => intro p k hk; simpa [starLoop] using hk p (Pos.le_refl p)
  | succ n ih =>
    intro p k hk
    simp only [starLoop, if_true]
    obtain ⟨pre, suf⟩ := p
    cases suf with
    | nil => simp only [hs.nil]; simpa [Option.orElse] using hk _ (Pos.le_refl _)
    | cons c t =>
      simp only [hs.cons]
      have hstep : (Pos.mk pre (c :: t)).le ⟨c :: pre, t⟩ := Pos.le_of_lt (Pos.lt_step pre c t)
      by_cases hc : S.mem c = true
      · simp only [hc, if_true, List.length_cons, Nat.lt_succ_self]
        rw [ih _ k (fun q hq => hk q (Pos.le_trans hstep hq))]
        simpa [Option.orElse] using hk _ (Pos.le_refl _)
      · simp only [hc, Bool.false_eq_true, if_false]
        simpa [Option.orElse] using hk _ (Pos.le_refl _)

theorem Pos.fin_of_le {p q : Pos} (h : p.le q) : q.fin = p.fin := by
  obtain ⟨l, a, b⟩ := h
  simp [Pos.fin, a, b]

theorem Pos.suf_of_le {p q : Pos} (h : p.le q) : ∀ c ∈ q.suf, c ∈ p.suf := by
  obtain ⟨l, _, b⟩ := h
  intro c hc
  rw [b]; exact List.mem_append_right _ hc

/-- `A*` with continuation `some` on an all-`A` rest runs to the end -/
theorem starA_some (W A : CSet) (p : Pos) (hall : ∀ d ∈ p.suf, A.mem d = true) :
    m W (.star true (.set A)) p some = some p.fin := by
  simp only [m]
  obtain ⟨pre, suf⟩ := p
  exact star_set_all (isSetStep_m W A) suf pre _ some _ hall (by simp) rfl

/-- the tail `B B* A*` at a `B` character followed by `A` characters only -/
theorem id_tail (W A B : CSet) (pre : List Nat) (c : Nat) (t : List Nat) (hc : B.mem c = true)
    (hall : ∀ d ∈ t, A.mem d = true) :
    m W (.seq (.seq (.set B) (.star true (.set B))) (.star true (.set A))) ⟨pre, c :: t⟩ some
      = some (Pos.mk pre (c :: t)).fin := by
  have e : (Pos.mk (c :: pre) t).fin = (Pos.mk pre (c :: t)).fin := Pos.fin_step pre c t
  show m W (.seq (.set B) (.star true (.set B))) ⟨pre, c :: t⟩ (fun q => m W (.star true (.set A)) q some) = _
  show m W (.set B) ⟨pre, c :: t⟩ (fun q1 => m W (.star true (.set B)) q1 (fun q => m W (.star true (.set A)) q some)) = _
  simp only [m, hc, if_true]
  rw [← e]
  apply star_set_const (isSetStep_m W B)
  intro q hq
  have := starA_some W A q (fun d hd => hall d (Pos.suf_of_le hq d hd))
  simp only [m] at this
  rw [this, Pos.fin_of_le hq]

/-- the tail fails where no `B` character stands -/
theorem id_tail_none (W A B : CSet) (p : Pos) (hb : ∀ c t, p.suf = c :: t → B.mem c = false) :
    m W (.seq (.seq (.set B) (.star true (.set B))) (.star true (.set A))) p some = none := by
  show m W (.set B) p (fun q1 => m W (.star true (.set B)) q1 (fun q => m W (.star true (.set A)) q some)) = _
  obtain ⟨pre, suf⟩ := p
  cases suf with
  | nil => simp [m]
  | cons c t => simp [m, hb c t rfl]

/-- **the identifier core on a word**: all characters in `A`, at least one in `B`: the first match in priority order is
the whole word -/
theorem idCore_match (W A B : CSet) : ∀ (suf : List Nat) (pre : List Nat),
    (∀ d ∈ suf, A.mem d = true) → (∃ d ∈ suf, B.mem d = true) →
    matchAt W (idCore A B) ⟨pre, suf⟩ = some (Pos.mk pre suf).fin := by
  intro suf pre hall hex
  unfold matchAt idCore
  show m W (.star true (.set A)) ⟨pre, suf⟩ (fun q => m W (.seq (.seq (.set B) (.star true (.set B))) (.star true (.set A))) q some) = _
  simp only [m]
  -- scan: greedy `A*` with the tail as continuation
  have scan : ∀ (suf : List Nat) (pre : List Nat) (n : Nat), (∀ d ∈ suf, A.mem d = true) → (∃ d ∈ suf, B.mem d = true) →
      suf.length < n →
      starLoop (fun q k' => m W (.set A) q k') true n ⟨pre, suf⟩
        (fun q => m W (.seq (.seq (.set B) (.star true (.set B))) (.star true (.set A))) q some) = some (Pos.mk pre suf).fin := by
    intro suf
    induction suf with
    | nil => intro pre n _ hex _; obtain ⟨d, hd, _⟩ := hex; cases hd
    | cons c t ih =>
      intro pre n hall hex hn
      cases n with
      | zero => omega
      | succ n =>
        have hc : A.mem c = true := hall c List.mem_cons_self
        have hallt : ∀ d ∈ t, A.mem d = true := fun d hd => hall d (List.mem_cons_of_mem _ hd)
        simp only [starLoop, if_true, (isSetStep_m W A).cons, hc, List.length_cons, Nat.lt_succ_self]
        by_cases hext : ∃ d ∈ t, B.mem d = true
        · rw [ih (c :: pre) n hallt hext (by simp at hn; omega), Pos.fin_step]; rfl
        · -- no `B` behind `c`: everything further right fails, `c` itself is the `B` character
          have hnone : starLoop (fun q k' => m W (.set A) q k') true n ⟨c :: pre, t⟩
              (fun q => m W (.seq (.seq (.set B) (.star true (.set B))) (.star true (.set A))) q some) = none := by
            apply star_set_none (isSetStep_m W A)
            intro q hq
            apply id_tail_none
            intro c' t' hs
            cases hbc : B.mem c' with
            | false => rfl
            | true =>
              exact absurd ⟨c', Pos.suf_of_le hq c' (by rw [hs]; exact List.mem_cons_self), hbc⟩ hext
          rw [hnone]
          have hcb : B.mem c = true := by
            obtain ⟨d, hd, hb⟩ := hex
            rcases List.mem_cons.mp hd with h0 | h0
            · subst h0; exact hb
            · exact absurd ⟨d, h0, hb⟩ hext
          simp only [Option.orElse]
          exact id_tail W A B pre c t hcb hallt
  exact scan suf pre _ hall hex (by simp)

end MindsVerif.Re

namespace MindsVerif.Re

/-- no code point of the ranges of `P` is a member of `B` (by enumeration) -/
def noneMemR (B P : CSet) : Bool := P.all fun r => (List.range' r.1 (r.2 + 1 - r.1)).all fun c => !B.mem c

theorem noneMemR_sound {B P : CSet} (h : noneMemR B P = true) {c : Nat} (hc : inSet P c) : B.mem c = false := by
  obtain ⟨r, hr, h1, h2⟩ := hc
  unfold noneMemR at h
  have := (List.all_eq_true.mp ((List.all_eq_true.mp h) r hr)) c
    (by rw [List.mem_range']; exact ⟨c - r.1, by omega, by omega⟩)
  simpa using this

/-- the identifier core fails on a text without a `B` character -/
theorem idCore_none (W A B : CSet) (p : Pos) (hb : ∀ c ∈ p.suf, B.mem c = false) : matchAt W (idCore A B) p = none := by
  unfold matchAt idCore
  show m W (.star true (.set A)) p (fun q => m W (.seq (.seq (.set B) (.star true (.set B))) (.star true (.set A))) q some) = _
  simp only [m]
  apply star_set_none (isSetStep_m W A)
  intro q hq
  exact id_tail_none W A B q fun c t hs => hb c (Pos.suf_of_le hq c (by rw [hs]; exact List.mem_cons_self))

/-- `S S*` (that is `S+`) on an all-`S` rest runs to the end -/
theorem plus_set_all (W S : CSet) (pre : List Nat) (c : Nat) (t : List Nat) (hall : ∀ d ∈ c :: t, S.mem d = true) :
    matchAt W (.seq (.set S) (.star true (.set S))) ⟨pre, c :: t⟩ = some (Pos.mk pre (c :: t)).fin := by
  unfold matchAt
  show m W (.set S) ⟨pre, c :: t⟩ (fun q => m W (.star true (.set S)) q some) = _
  have hc : S.mem c = true := hall c List.mem_cons_self
  simp only [m, hc, if_true]
  rw [← Pos.fin_step]
  exact star_set_all (isSetStep_m W S) t (c :: pre) _ some _ (fun d hd => hall d (List.mem_cons_of_mem _ hd)) (by simp) rfl

end MindsVerif.Re

namespace MindsVerif.Re

/-! ### the back-quoted branch of the identifier regex: `` ` ( [^`] | `` )+ ` `` -/

/-- one element of a quoted name: a character that is not the quote, or the doubled quote -/
def bqItem (Q N : CSet) : Re := .alt (.set N) (.seq (.set Q) (.set Q))

/-- `` ` X+ ` `` as the translator emits it -/
def bqRe (Q N : CSet) : Re := .seq (.set Q) (.seq (.seq (bqItem Q N) (.star true (bqItem Q N))) (.set Q))

/-- the printer's encoding of a name body: the quote character doubled -/
def bqBody (q : Nat) : List Nat → List Nat
  | [] => []
  | c :: t => if c = q then q :: q :: bqBody q t else c :: bqBody q t

/-- what the class facts must be: `Q` holds the quote, `N` everything else that occurs -/
structure BqOK (Q N : CSet) (q : Nat) (body : List Nat) : Prop where
  qq : Q.mem q = true
  nq : N.mem q = false
  nn : ∀ c ∈ body, c ≠ q → N.mem c = true

/-- the repeat over the items of an encoded body, closing quote behind it, runs to the end -/
theorem bq_star (W Q N : CSet) (q : Nat) {step : Pos → (Pos → Option Pos) → Option Pos} {kq : Pos → Option Pos}
    (hstep : ∀ p k, step p k = m W (bqItem Q N) p k) (hk : ∀ p, kq p = m W (.set Q) p some) :
    ∀ (body : List Nat) (pre : List Nat) (n : Nat), BqOK Q N q body →
    (bqBody q body).length + 1 < n →
    starLoop step true n ⟨pre, bqBody q body ++ [q]⟩ kq = some (Pos.mk pre (bqBody q body ++ [q])).fin := by
  intro body
  induction body with
  | nil =>
    intro pre n hok hn
    cases n with
    | zero => omega
    | succ n =>
      simp only [bqBody, List.nil_append, starLoop, if_true]
      rw [hstep, hk]
      simp only [bqItem, m, hok.nq, hok.qq, Bool.false_eq_true, if_false, if_true]
      simp [Option.orElse, Pos.fin]
  | cons c t ih =>
    intro pre n hok hn
    have hokt : BqOK Q N q t := ⟨hok.qq, hok.nq, fun d hd hne => hok.nn d (List.mem_cons_of_mem _ hd) hne⟩
    cases n with
    | zero => omega
    | succ n =>
      by_cases hc : c = q
      · subst hc
        have hlen : (bqBody c t).length + 1 < n := by simp [bqBody] at hn; omega
        have := ih (c :: c :: pre) n hokt hlen
        simp only [bqBody, if_true, List.cons_append, starLoop]
        rw [hstep]
        simp only [bqItem, m, hok.nq, hok.qq, Bool.false_eq_true, if_false, if_true]
        have hlt : (bqBody c t ++ [c]).length < (c :: c :: (bqBody c t ++ [c])).length := by simp
        simp only [hlt, if_true, this]
        simp [Option.orElse, Pos.fin]
      · have hN : N.mem c = true := hok.nn c List.mem_cons_self hc
        have hlen : (bqBody q t).length + 1 < n := by simp [bqBody, hc] at hn; omega
        have := ih (c :: pre) n hokt hlen
        simp only [bqBody, hc, if_false, List.cons_append, starLoop, if_true]
        rw [hstep]
        simp only [bqItem, m, hN, if_true]
        have hlt : (bqBody q t ++ [q]).length < (c :: (bqBody q t ++ [q])).length := by simp
        simp only [hlt, if_true, this]
        simp [Option.orElse, Pos.fin]

theorem m_set_cons (W S : CSet) (pre : List Nat) (c : Nat) (t : List Nat) (k : Pos → Option Pos) :
    m W (.set S) ⟨pre, c :: t⟩ k = if S.mem c = true then k ⟨c :: pre, t⟩ else none := by simp [m]
theorem m_alt (W : CSet) (a b : Re) (p : Pos) (k : Pos → Option Pos) :
    m W (.alt a b) p k = (m W a p k).orElse fun _ => m W b p k := by simp [m]
theorem m_seq (W : CSet) (a b : Re) (p : Pos) (k : Pos → Option Pos) :
    m W (.seq a b) p k = m W a p fun q => m W b q k := by simp [m]
theorem m_star (W : CSet) (g : Bool) (r : Re) (p : Pos) (k : Pos → Option Pos) :
    m W (.star g r) p k = starLoop (fun q k' => m W r q k') g (p.suf.length + 1) p k := by simp [m]

/-- **the quoted branch on an encoded name**: quote, encoded non-empty body, quote — matched as a whole -/
theorem bqRe_match (W Q N : CSet) (q : Nat) (body : List Nat) (hne : body ≠ []) (hok : BqOK Q N q body) (pre : List Nat) :
    matchAt W (bqRe Q N) ⟨pre, q :: (bqBody q body ++ [q])⟩ = some (Pos.mk pre (q :: (bqBody q body ++ [q]))).fin := by
  cases body with
  | nil => exact absurd rfl hne
  | cons c t =>
    have hokt : BqOK Q N q t := ⟨hok.qq, hok.nq, fun d hd hne => hok.nn d (List.mem_cons_of_mem _ hd) hne⟩
    unfold matchAt bqRe
    rw [m_seq, m_set_cons, if_pos hok.qq, m_seq, m_seq]
    by_cases hc : c = q
    · subst hc
      have := bq_star W Q N c (step := fun p k' => m W (bqItem Q N) p k') (kq := fun p2 => m W (.set Q) p2 some)
        (fun _ _ => rfl) (fun _ => rfl) t (c :: c :: c :: pre) ((bqBody c t ++ [c]).length + 1) hokt (by simp)
      have e : bqBody c (c :: t) ++ [c] = c :: c :: (bqBody c t ++ [c]) := by simp [bqBody]
      rw [e]
      unfold bqItem
      rw [m_alt, m_set_cons, if_neg (by simp [hok.nq]), m_seq, m_set_cons, if_pos hok.qq, m_set_cons, if_pos hok.qq, m_star]
      unfold bqItem at this
      rw [this]
      simp [Option.orElse, Pos.fin]
    · have hN : N.mem c = true := hok.nn c List.mem_cons_self hc
      have := bq_star W Q N q (step := fun p k' => m W (bqItem Q N) p k') (kq := fun p2 => m W (.set Q) p2 some)
        (fun _ _ => rfl) (fun _ => rfl) t (c :: q :: pre) ((bqBody q t ++ [q]).length + 1) hokt (by simp)
      have e : bqBody q (c :: t) ++ [q] = c :: (bqBody q t ++ [q]) := by simp [bqBody, hc]
      rw [e]
      unfold bqItem
      rw [m_alt, m_set_cons, if_pos hN, m_star]
      unfold bqItem at this
      rw [this]
      simp [Option.orElse, Pos.fin]

/-- the identifier core fails where the text starts with a character of neither class -/
theorem idCore_none_head (W A B : CSet) (pre : List Nat) (c : Nat) (t : List Nat) (ha : A.mem c = false) (hb : B.mem c = false) :
    matchAt W (idCore A B) ⟨pre, c :: t⟩ = none := by
  unfold matchAt idCore
  simp [m, starLoop, ha, hb, Option.orElse]

end MindsVerif.Re
