import MindsVerif.Lemmas.ReWord
/-!
Stop-character versions of the word lemmas: the word `w` stands INSIDE a text, followed by a character `d` that
is no word character, no identifier character and occurs in no class of the keyword-like rules (`.` `,` `(` `)` `;` …).
-/
namespace MindsVerif.Re

/-! ### what a regex can consume -/

/-- no class of the regex holds `d` -/
def noChar (d : Nat) : Re → Bool
  | .eps => true
  | .set s => !s.mem d
  | .seq a b => noChar d a && noChar d b
  | .alt a b => noChar d a && noChar d b
  | .star _ r => noChar d r
  | .look _ _ => true
  | .bound _ => true
  | .fail => true

/-- `q` is reached from `p` by consuming a list that does not hold `d` -/
def LeNo (d : Nat) (p q : Pos) : Prop := ∃ l, q.pre = l.reverse ++ p.pre ∧ p.suf = l ++ q.suf ∧ d ∉ l

theorem LeNo.refl (d : Nat) (p : Pos) : LeNo d p p := ⟨[], by simp, by simp, by simp⟩

theorem LeNo.trans {d : Nat} {p q r : Pos} (h1 : LeNo d p q) (h2 : LeNo d q r) : LeNo d p r := by
  obtain ⟨l1, a1, b1, n1⟩ := h1
  obtain ⟨l2, a2, b2, n2⟩ := h2
  exact ⟨l1 ++ l2, by simp [a2, a1], by simp [b1, b2], by simp [n1, n2]⟩

theorem LeNo.le {d : Nat} {p q : Pos} (h : LeNo d p q) : p.le q := by
  obtain ⟨l, a, b, _⟩ := h; exact ⟨l, a, b⟩

theorem starLoop_nochar {d : Nat} {step} (hs : ∀ p k a, step p k = some a → ∃ q, LeNo d p q ∧ k q = some a) (g : Bool) :
    ∀ n p k a, starLoop step g n p k = some a → ∃ q, LeNo d p q ∧ k q = some a := by
  intro n
  induction n with
  | zero => intro p k a h; exact ⟨p, LeNo.refl d p, by simpa [starLoop] using h⟩
  | succ n ih =>
    intro p k a h
    have key : ∀ a, (step p fun q => if q.suf.length < p.suf.length then starLoop step g n q k else none) = some a →
        ∃ q, LeNo d p q ∧ k q = some a := by
      intro a h1
      obtain ⟨q1, l1, h2⟩ := hs _ _ _ h1
      by_cases hc : q1.suf.length < p.suf.length
      · simp only [hc, if_true] at h2
        obtain ⟨q2, l2, h3⟩ := ih _ _ _ h2
        exact ⟨q2, l1.trans l2, h3⟩
      · simp [hc] at h2
    unfold starLoop at h
    cases g with
    | true =>
      simp only [if_true] at h
      rcases orElse_some h with h1 | ⟨_, h1⟩
      · exact key a h1
      · exact ⟨p, LeNo.refl d p, h1⟩
    | false =>
      simp only [Bool.false_eq_true, if_false] at h
      rcases orElse_some h with h1 | ⟨_, h1⟩
      · exact ⟨p, LeNo.refl d p, h1⟩
      · exact key a h1

theorem m_nochar (w : CSet) (d : Nat) : ∀ (r : Re), noChar d r = true → ∀ (p : Pos) (k : Pos → Option Pos) (a : Pos),
    m w r p k = some a → ∃ q, LeNo d p q ∧ k q = some a := by
  intro r
  induction r with
  | eps => intro _ p k a h; exact ⟨p, LeNo.refl d p, by simpa [m] using h⟩
  | set s =>
    intro hn p k a h
    obtain ⟨pre, suf⟩ := p
    cases suf with
    | nil => simp [m] at h
    | cons c t =>
      simp only [m] at h
      by_cases hc : s.mem c = true
      · simp only [hc, if_true] at h
        refine ⟨⟨c :: pre, t⟩, ⟨[c], by simp, by simp, ?_⟩, h⟩
        intro hd
        simp only [List.mem_cons, List.not_mem_nil, or_false] at hd
        subst hd
        simp [noChar, hc] at hn
      · simp [hc] at h
  | seq a b iha ihb =>
    intro hn p k x h
    simp only [m] at h
    simp only [noChar, Bool.and_eq_true] at hn
    obtain ⟨q1, l1, h1⟩ := iha hn.1 _ _ _ h
    obtain ⟨q2, l2, h2⟩ := ihb hn.2 _ _ _ h1
    exact ⟨q2, l1.trans l2, h2⟩
  | alt a b iha ihb =>
    intro hn p k x h
    simp only [m] at h
    simp only [noChar, Bool.and_eq_true] at hn
    rcases orElse_some h with h1 | ⟨_, h1⟩
    · exact iha hn.1 _ _ _ h1
    · exact ihb hn.2 _ _ _ h1
  | star g r ih =>
    intro hn p k x h
    simp only [m] at h
    exact starLoop_nochar (fun p k a h => ih (by simpa [noChar] using hn) p k a h) g _ _ _ _ h
  | look neg r _ =>
    intro _ p k x h
    simp only [m] at h
    refine ⟨p, LeNo.refl d p, ?_⟩
    cases hm : m w r p some with
    | none => rw [hm] at h; cases neg <;> simp_all
    | some y => rw [hm] at h; cases neg <;> simp_all
  | bound neg =>
    intro _ p k x h
    simp only [m] at h
    refine ⟨p, LeNo.refl d p, ?_⟩
    split at h
    · exact h
    · cases h
  | fail => intro _ p k a h; simp [m] at h

/-- a consumed list without `d` out of `u ++ d :: rest` (with `d ∉ u`) is a prefix of `u` -/
theorem prefix_of_noChar {d : Nat} : ∀ {l u rest s : List Nat}, l ++ s = u ++ d :: rest → d ∉ l → ∃ u2, u = l ++ u2 := by
  intro l
  induction l with
  | nil => intro u _ _ _ _; exact ⟨u, rfl⟩
  | cons c t ih =>
    intro u rest s h hd
    cases u with
    | nil =>
      simp only [List.cons_append, List.nil_append, List.cons.injEq] at h
      exact absurd (by rw [h.1]; exact List.mem_cons_self) hd
    | cons x u' =>
      simp only [List.cons_append, List.cons.injEq] at h
      obtain ⟨hx, ht⟩ := h
      obtain ⟨u2, hu⟩ := ih ht (fun hm => hd (List.mem_cons_of_mem _ hm))
      exact ⟨u2, by rw [hx, hu]; rfl⟩

/-- a regex that needs a character outside `W` and has `d` in no class does not match where a `W`-only word is followed by `d` -/
theorem matchAt_none_of_needsOut_at {w W : CSet} {r : Re} {d : Nat} (hn : needsOut W r = true) (hd : noChar d r = true)
    {pre u rest : List Nat} (hu : ∀ c ∈ u, inSet W c) : matchAt w r ⟨pre, u ++ d :: rest⟩ = none := by
  cases hm : matchAt w r ⟨pre, u ++ d :: rest⟩ with
  | none => rfl
  | some q =>
    obtain ⟨q1, ⟨l1, _, b1, c, hc, hnc⟩, e1⟩ := m_out w W r hn _ some q hm
    obtain ⟨q2, ⟨l2, _, b2, n2⟩, e2⟩ := m_nochar w d r hd _ some q hm
    cases e1; cases e2
    simp only at b1 b2
    have hl : l1 = l2 := List.append_cancel_right (by rw [← b1, ← b2])
    subst hl
    obtain ⟨u2, hu2⟩ := prefix_of_noChar b2.symm n2
    exact absurd (hu c (by rw [hu2]; exact List.mem_append_left _ hc)) hnc

/-! ### keyword rules at a word followed by `d` -/

theorem kwTail_match_at (W : CSet) (d : Nat) (hWd : W.mem d = false) : ∀ (sets : List CSet) (r : Re), kwTail r = some sets →
    noChar d r = true →
    ∀ (pre u rest : List Nat) (k : Pos → Option Pos) (a : Pos), (∀ c ∈ u, W.mem c = true) →
      (sets = [] → isWordAt W pre.head? = true) → m W r ⟨pre, u ++ d :: rest⟩ k = some a → kwMatch sets u = true := by
  intro sets
  induction sets with
  | nil =>
    intro r hr _ pre u rest k a hall hprev h
    cases r with
    | bound neg =>
      cases neg with
      | true => simp [kwTail] at hr
      | false =>
        simp only [m] at h
        have hp := hprev rfl
        cases u with
        | nil => simp [kwMatch]
        | cons c t =>
          have hc : W.mem c = true := hall c List.mem_cons_self
          simp [hp] at h
          have h1 := h.1
          simp [isWordAt, hc] at h1
    | seq x y =>
      cases x with
      | set s => simp only [kwTail, Option.map_eq_some_iff] at hr; obtain ⟨_, _, h0⟩ := hr; cases h0
      | _ => simp [kwTail] at hr
    | _ => simp [kwTail] at hr
  | cons s ss ih =>
    intro r hr hnc pre u rest k a hall _ h
    cases r with
    | seq x y =>
      cases x with
      | set s' =>
        simp only [kwTail, Option.map_eq_some_iff] at hr
        obtain ⟨ss', hy, h0⟩ := hr
        simp only [List.cons.injEq] at h0
        obtain ⟨e1, e2⟩ := h0
        subst e1; subst e2
        simp only [noChar, Bool.and_eq_true, Bool.not_eq_true'] at hnc
        cases u with
        | nil =>
          -- the next character is `d`, which the class does not hold
          simp only [List.nil_append, m, hnc.1, Bool.false_eq_true, if_false] at h
          cases h
        | cons c t =>
          simp only [List.cons_append, m] at h
          by_cases hc : s'.mem c = true
          · simp only [hc, if_true] at h
            have hW : W.mem c = true := hall c List.mem_cons_self
            have := ih y hy hnc.2 (c :: pre) t rest k a (fun x hx => hall x (List.mem_cons_of_mem _ hx))
              (fun _ => by simp [isWordAt, hW]) h
            simp only [kwMatch, hc, Bool.true_and]
            exact this
          · simp [hc] at h
      | _ => simp [kwTail] at hr
    | bound neg => cases neg <;> simp [kwTail] at hr
    | _ => simp [kwTail] at hr

theorem kw_match_at {W : CSet} {r : Re} {sets : List CSet} {d : Nat} (hk : kwSets r = some sets) (hne : sets ≠ [])
    (hWd : W.mem d = false) (hnc : noChar d r = true) {pre u rest : List Nat} {q : Pos}
    (hall : ∀ c ∈ u, W.mem c = true) (h : matchAt W r ⟨pre, u ++ d :: rest⟩ = some q) : kwMatch sets u = true := by
  cases r with
  | seq x y =>
    cases x with
    | bound neg =>
      cases neg with
      | true => simp [kwSets] at hk
      | false =>
        simp only [kwSets] at hk
        unfold matchAt at h
        simp only [m] at h
        simp only [noChar, Bool.true_and] at hnc
        split at h
        · exact kwTail_match_at W d hWd sets y hk hnc pre u rest some q hall (fun h0 => absurd h0 hne) h
        · cases h
    | _ => simp [kwSets] at hk
  | _ => simp [kwSets] at hk

/-! ### the identifier core at a word followed by `d` -/

theorem star_set_stop {S : CSet} {step} (hs : IsSetStep S step) (d : Nat) (hd : S.mem d = false) (rest : List Nat) :
    ∀ (u : List Nat) (pre : List Nat) (n : Nat) (k : Pos → Option Pos) (a : Pos),
    (∀ c ∈ u, S.mem c = true) → u.length < n → k ⟨u.reverse ++ pre, d :: rest⟩ = some a →
    starLoop step true n ⟨pre, u ++ d :: rest⟩ k = some a := by
  intro u
  induction u with
  | nil =>
    intro pre n k a _ hn hk
    cases n with
    | zero => omega
    | succ n =>
      simp only [List.nil_append, starLoop, if_true, hs.cons, hd, Bool.false_eq_true, if_false]
      simpa [Option.orElse] using hk
  | cons c t ih =>
    intro pre n k a hall hn hk
    cases n with
    | zero => omega
    | succ n =>
      have hc : S.mem c = true := hall c List.mem_cons_self
      have := ih (c :: pre) n k a (fun x hx => hall x (List.mem_cons_of_mem _ hx)) (by simp at hn; omega)
        (by simpa using hk)
      simp only [List.cons_append, starLoop, if_true, hs.cons, hc, List.length_cons, Nat.lt_succ_self]
      rw [this]
      rfl

theorem starA_some_stop (W A : CSet) (d : Nat) (hd : A.mem d = false) (pre u rest : List Nat)
    (hall : ∀ c ∈ u, A.mem c = true) :
    m W (.star true (.set A)) ⟨pre, u ++ d :: rest⟩ some = some ⟨u.reverse ++ pre, d :: rest⟩ := by
  rw [m_star]
  exact star_set_stop (isSetStep_m W A) d hd rest u pre _ some _ hall (by simp; omega) rfl

/-- `B*` then `A*` over an `A`-run followed by `d` -/
theorem starB_then_A (W A B : CSet) (d : Nat) (hA : A.mem d = false) (hB : B.mem d = false) (rest : List Nat)
    {step} (hs : IsSetStep B step) :
    ∀ (t : List Nat) (pre : List Nat) (n : Nat), (∀ x ∈ t, A.mem x = true) → t.length < n →
    starLoop step true n ⟨pre, t ++ d :: rest⟩ (fun q => m W (.star true (.set A)) q some)
      = some ⟨t.reverse ++ pre, d :: rest⟩ := by
  intro t
  induction t with
  | nil =>
    intro pre n _ hn
    cases n with
    | zero => omega
    | succ n =>
      simp only [List.nil_append, starLoop, if_true, hs.cons, hB, Bool.false_eq_true, if_false]
      have := starA_some_stop W A d hA pre [] rest (by simp)
      simpa [Option.orElse] using this
  | cons x t ih =>
    intro pre n hall hn
    cases n with
    | zero => omega
    | succ n =>
      simp only [List.cons_append, starLoop, if_true, hs.cons]
      by_cases hx : B.mem x = true
      · have := ih (x :: pre) n (fun y hy => hall y (List.mem_cons_of_mem _ hy)) (by simp at hn; omega)
        simp only [hx, if_true, List.length_cons, Nat.lt_succ_self]
        rw [this]
        simp [Option.orElse]
      · simp only [hx, Bool.false_eq_true, if_false]
        have := starA_some_stop W A d hA pre (x :: t) rest hall
        simpa [Option.orElse] using this

theorem id_tail_stop (W A B : CSet) (d : Nat) (hA : A.mem d = false) (hB : B.mem d = false)
    (pre : List Nat) (c : Nat) (t rest : List Nat) (hc : B.mem c = true) (hall : ∀ x ∈ t, A.mem x = true) :
    m W (.seq (.seq (.set B) (.star true (.set B))) (.star true (.set A))) ⟨pre, c :: (t ++ d :: rest)⟩ some
      = some ⟨(c :: t).reverse ++ pre, d :: rest⟩ := by
  rw [m_seq, m_seq, m_set_cons, if_pos hc, m_star]
  have := starB_then_A W A B d hA hB rest (isSetStep_m W B) t (c :: pre) ((t ++ d :: rest).length + 1) hall (by simp; omega)
  rw [this]
  simp

theorem idCore_match_stop (W A B : CSet) (d : Nat) (hA : A.mem d = false) (hB : B.mem d = false) (rest : List Nat) :
    ∀ (u : List Nat) (pre : List Nat), (∀ x ∈ u, A.mem x = true) → (∃ x ∈ u, B.mem x = true) →
    matchAt W (idCore A B) ⟨pre, u ++ d :: rest⟩ = some ⟨u.reverse ++ pre, d :: rest⟩ := by
  intro u pre hall hex
  unfold matchAt idCore
  rw [m_seq, m_star]
  have scan : ∀ (u : List Nat) (pre : List Nat) (n : Nat), (∀ x ∈ u, A.mem x = true) → (∃ x ∈ u, B.mem x = true) →
      u.length < n →
      starLoop (fun q k' => m W (.set A) q k') true n ⟨pre, u ++ d :: rest⟩
        (fun q => m W (.seq (.seq (.set B) (.star true (.set B))) (.star true (.set A))) q some)
        = some ⟨u.reverse ++ pre, d :: rest⟩ := by
    intro u
    induction u with
    | nil => intro pre n _ hex _; obtain ⟨x, hx, _⟩ := hex; cases hx
    | cons c t ih =>
      intro pre n hall hex hn
      cases n with
      | zero => omega
      | succ n =>
        have hc : A.mem c = true := hall c List.mem_cons_self
        have hallt : ∀ x ∈ t, A.mem x = true := fun x hx => hall x (List.mem_cons_of_mem _ hx)
        simp only [List.cons_append, starLoop, if_true, (isSetStep_m W A).cons, hc, List.length_cons, Nat.lt_succ_self]
        by_cases hext : ∃ x ∈ t, B.mem x = true
        · rw [ih (c :: pre) n hallt hext (by simp at hn; omega)]
          simp [Option.orElse]
        · -- everything further right fails: no `B` behind `c`, and `d` is in neither class
          have hnone : ∀ (t : List Nat) (pre : List Nat) (n : Nat), (∀ x ∈ t, B.mem x = false) →
              starLoop (fun q k' => m W (.set A) q k') true n ⟨pre, t ++ d :: rest⟩
                (fun q => m W (.seq (.seq (.set B) (.star true (.set B))) (.star true (.set A))) q some) = none := by
            intro t
            induction t with
            | nil =>
              intro pre n _
              cases n with
              | zero => simp [starLoop, id_tail_none W A B ⟨pre, d :: rest⟩ (fun c t hs => by cases hs; exact hB)]
              | succ n =>
                simp only [List.nil_append, starLoop, if_true, (isSetStep_m W A).cons, hA, Bool.false_eq_true, if_false]
                simp [Option.orElse, id_tail_none W A B ⟨pre, d :: rest⟩ (fun c t hs => by cases hs; exact hB)]
            | cons x t iht =>
              intro pre n hb
              have hx : B.mem x = false := hb x List.mem_cons_self
              have htail := id_tail_none W A B ⟨pre, x :: (t ++ d :: rest)⟩ (fun c t' hs => by cases hs; exact hx)
              cases n with
              | zero => simp [starLoop, htail]
              | succ n =>
                simp only [List.cons_append, starLoop, if_true, (isSetStep_m W A).cons]
                by_cases hax : A.mem x = true
                · simp only [hax, if_true, List.length_cons, Nat.lt_succ_self]
                  rw [iht (x :: pre) n (fun y hy => hb y (List.mem_cons_of_mem _ hy))]
                  simp [Option.orElse, htail]
                · simp only [hax, Bool.false_eq_true, if_false]
                  simp [Option.orElse, htail]
          have hbt : ∀ x ∈ t, B.mem x = false := by
            intro x hx
            cases hbx : B.mem x with
            | false => rfl
            | true => exact absurd ⟨x, hx, hbx⟩ hext
          rw [hnone t (c :: pre) n hbt]
          have hcb : B.mem c = true := by
            obtain ⟨x, hx, hb⟩ := hex
            rcases List.mem_cons.mp hx with h0 | h0
            · subst h0; exact hb
            · exact absurd ⟨x, h0, hb⟩ hext
          simp only [Option.orElse]
          exact id_tail_stop W A B d hA hB pre c t rest hcb hallt
  exact scan u pre _ hall hex (by simp; omega)

end MindsVerif.Re

namespace MindsVerif.Re

/-! ### a keyword rule DOES match its word -/

theorem kwTail_matches (W : CSet) : ∀ (sets : List CSet) (r : Re), kwTail r = some sets →
    ∀ (pre u : List Nat) (k : Pos → Option Pos), kwMatch sets u = true → (∀ c ∈ u, W.mem c = true) →
      (sets = [] → isWordAt W pre.head? = true) →
      m W r ⟨pre, u⟩ k = k ⟨u.reverse ++ pre, []⟩ := by
  intro sets
  induction sets with
  | nil =>
    intro r hr pre u k hm _ hprev
    cases u with
    | cons c t => simp [kwMatch] at hm
    | nil =>
      cases r with
      | bound neg =>
        cases neg with
        | true => simp [kwTail] at hr
        | false =>
          have hp := hprev rfl
          have hnone : isWordAt W none = false := rfl
          simp only [m, List.head?_nil, hp, hnone]
          simp
      | seq x y =>
        cases x with
        | set s => simp only [kwTail, Option.map_eq_some_iff] at hr; obtain ⟨_, _, h0⟩ := hr; cases h0
        | _ => simp [kwTail] at hr
      | _ => simp [kwTail] at hr
  | cons s ss ih =>
    intro r hr pre u k hm hall _
    cases r with
    | seq x y =>
      cases x with
      | set s' =>
        simp only [kwTail, Option.map_eq_some_iff] at hr
        obtain ⟨ss', hy, h0⟩ := hr
        simp only [List.cons.injEq] at h0
        obtain ⟨e1, e2⟩ := h0
        subst e1; subst e2
        cases u with
        | nil => simp [kwMatch] at hm
        | cons c t =>
          simp only [kwMatch, Bool.and_eq_true] at hm
          have hW : W.mem c = true := hall c List.mem_cons_self
          rw [m_seq, m_set_cons, if_pos hm.1]
          rw [ih y hy (c :: pre) t k hm.2 (fun x hx => hall x (List.mem_cons_of_mem _ hx)) (fun _ => by simp [isWordAt, hW])]
          simp
      | _ => simp [kwTail] at hr
    | bound neg => cases neg <;> simp [kwTail] at hr
    | _ => simp [kwTail] at hr

/-- a keyword rule matches the whole of a word-only text that fits it class by class, when no word character stands in front -/
theorem kw_matches {W : CSet} {r : Re} {sets : List CSet} (hk : kwSets r = some sets) (hne : sets ≠ [])
    {pre u : List Nat} (hprev : isWordAt W pre.head? = false) (hm : kwMatch sets u = true) (hall : ∀ c ∈ u, W.mem c = true) :
    matchAt W r ⟨pre, u⟩ = some ⟨u.reverse ++ pre, []⟩ := by
  cases r with
  | seq x y =>
    cases x with
    | bound neg =>
      cases neg with
      | true => simp [kwSets] at hk
      | false =>
        simp only [kwSets] at hk
        cases u with
        | nil =>
          cases sets with
          | nil => exact absurd rfl hne
          | cons s ss => simp [kwMatch] at hm
        | cons c t =>
          have hW : W.mem c = true := hall c List.mem_cons_self
          unfold matchAt
          rw [m_seq]
          have hb : m W (.bound false) ⟨pre, c :: t⟩ (fun q => m W y q some) = m W y ⟨pre, c :: t⟩ some := by
            have hsome : isWordAt W (some c) = true := by simp [isWordAt, hW]
            simp only [m, List.head?_cons, hprev, hsome]
            simp
          rw [hb, kwTail_matches W sets y hk pre (c :: t) some hm hall (fun h0 => absurd h0 hne)]
    | _ => simp [kwSets] at hk
  | _ => simp [kwSets] at hk

end MindsVerif.Re

namespace MindsVerif.Re

/-! ### the back-quoted branch inside a text: the closing quote is followed by something that is not a quote -/

theorem bq_star_rest (W Q N : CSet) (q : Nat) (rest : List Nat) (hrest : ∀ c t, rest = c :: t → Q.mem c = false)
    {step : Pos → (Pos → Option Pos) → Option Pos} {kq : Pos → Option Pos}
    (hstep : ∀ p k, step p k = m W (bqItem Q N) p k) (hk : ∀ p, kq p = m W (.set Q) p some) :
    ∀ (body : List Nat) (pre : List Nat) (n : Nat), BqOK Q N q body →
    (bqBody q body).length + 1 < n →
    starLoop step true n ⟨pre, bqBody q body ++ q :: rest⟩ kq = some ⟨q :: ((bqBody q body).reverse ++ pre), rest⟩ := by
  intro body
  induction body with
  | nil =>
    intro pre n hok hn
    cases n with
    | zero => omega
    | succ n =>
      simp only [bqBody, List.nil_append, starLoop, if_true]
      rw [hstep, hk]
      unfold bqItem
      rw [m_alt, m_set_cons, if_neg (by simp [hok.nq]), m_seq, m_set_cons, if_pos hok.qq, m_set_cons, if_pos hok.qq]
      cases rest with
      | nil => simp [m, Option.orElse]
      | cons c t =>
        have := hrest c t rfl
        simp [m, this, Option.orElse]
  | cons c t ih =>
    intro pre n hok hn
    have hokt : BqOK Q N q t := ⟨hok.qq, hok.nq, fun d hd hne => hok.nn d (List.mem_cons_of_mem _ hd) hne⟩
    cases n with
    | zero => omega
    | succ n =>
      by_cases hc : c = q
      · subst hc
        have hlen : (bqBody c t).length + 1 < n := by simp [bqBody] at hn; omega
        have := ih (c :: c :: pre) n hokt hlen
        simp only [bqBody, if_true, List.cons_append, starLoop]
        rw [hstep]
        simp only [bqItem, m, hok.nq, hok.qq, Bool.false_eq_true, if_false, if_true]
        have hlt : (bqBody c t ++ c :: rest).length < (c :: c :: (bqBody c t ++ c :: rest)).length := by simp <;> omega
        simp only [hlt, if_true, this]
        simp [Option.orElse]
      · have hN : N.mem c = true := hok.nn c List.mem_cons_self hc
        have hlen : (bqBody q t).length + 1 < n := by simp [bqBody, hc] at hn; omega
        have := ih (c :: pre) n hokt hlen
        simp only [bqBody, hc, if_false, List.cons_append, starLoop, if_true]
        rw [hstep]
        simp only [bqItem, m, hN, if_true]
        have hlt : (bqBody q t ++ q :: rest).length < (c :: (bqBody q t ++ q :: rest)).length := by simp <;> omega
        simp only [hlt, if_true, this]
        simp [Option.orElse]

theorem bqRe_match_rest (W Q N : CSet) (q : Nat) (rest : List Nat) (hrest : ∀ c t, rest = c :: t → Q.mem c = false)
    (body : List Nat) (hne : body ≠ []) (hok : BqOK Q N q body) (pre : List Nat) :
    matchAt W (bqRe Q N) ⟨pre, q :: (bqBody q body ++ q :: rest)⟩
      = some ⟨q :: ((bqBody q body).reverse ++ q :: pre), rest⟩ := by
  cases body with
  | nil => exact absurd rfl hne
  | cons c t =>
    have hokt : BqOK Q N q t := ⟨hok.qq, hok.nq, fun d hd hne => hok.nn d (List.mem_cons_of_mem _ hd) hne⟩
    unfold matchAt bqRe
    rw [m_seq, m_set_cons, if_pos hok.qq, m_seq, m_seq]
    by_cases hc : c = q
    · subst hc
      have := bq_star_rest W Q N c rest hrest (step := fun p k' => m W (bqItem Q N) p k') (kq := fun p2 => m W (.set Q) p2 some)
        (fun _ _ => rfl) (fun _ => rfl) t (c :: c :: c :: pre) ((bqBody c t ++ c :: rest).length + 1) hokt (by simp <;> omega)
      have e : bqBody c (c :: t) ++ c :: rest = c :: c :: (bqBody c t ++ c :: rest) := by simp [bqBody]
      rw [e]
      unfold bqItem
      rw [m_alt, m_set_cons, if_neg (by simp [hok.nq]), m_seq, m_set_cons, if_pos hok.qq, m_set_cons, if_pos hok.qq, m_star]
      unfold bqItem at this
      rw [this]
      simp [Option.orElse, bqBody]
    · have hN : N.mem c = true := hok.nn c List.mem_cons_self hc
      have := bq_star_rest W Q N q rest hrest (step := fun p k' => m W (bqItem Q N) p k') (kq := fun p2 => m W (.set Q) p2 some)
        (fun _ _ => rfl) (fun _ => rfl) t (c :: q :: pre) ((bqBody q t ++ q :: rest).length + 1) hokt (by simp <;> omega)
      have e : bqBody q (c :: t) ++ q :: rest = c :: (bqBody q t ++ q :: rest) := by simp [bqBody, hc]
      rw [e]
      unfold bqItem
      rw [m_alt, m_set_cons, if_pos hN, m_star]
      unfold bqItem at this
      rw [this]
      simp [Option.orElse, bqBody, hc]

end MindsVerif.Re

namespace MindsVerif.Re

/-- the identifier core fails where a run without `B` characters is followed by a character of neither class -/
theorem idCore_none_stop (W A B : CSet) (d : Nat) (hA : A.mem d = false) (hB : B.mem d = false) (rest : List Nat) :
    ∀ (u : List Nat) (pre : List Nat), (∀ x ∈ u, B.mem x = false) →
    matchAt W (idCore A B) ⟨pre, u ++ d :: rest⟩ = none := by
  intro u pre hb
  unfold matchAt idCore
  rw [m_seq, m_star]
  have hnone : ∀ (t : List Nat) (pre : List Nat) (n : Nat), (∀ x ∈ t, B.mem x = false) →
      starLoop (fun q k' => m W (.set A) q k') true n ⟨pre, t ++ d :: rest⟩
        (fun q => m W (.seq (.seq (.set B) (.star true (.set B))) (.star true (.set A))) q some) = none := by
    intro t
    induction t with
    | nil =>
      intro pre n _
      cases n with
      | zero => simp [starLoop, id_tail_none W A B ⟨pre, d :: rest⟩ (fun c t hs => by cases hs; exact hB)]
      | succ n =>
        simp only [List.nil_append, starLoop, if_true, (isSetStep_m W A).cons, hA, Bool.false_eq_true, if_false]
        simp [Option.orElse, id_tail_none W A B ⟨pre, d :: rest⟩ (fun c t hs => by cases hs; exact hB)]
    | cons x t iht =>
      intro pre n hb
      have hx : B.mem x = false := hb x List.mem_cons_self
      have htail := id_tail_none W A B ⟨pre, x :: (t ++ d :: rest)⟩ (fun c t' hs => by cases hs; exact hx)
      cases n with
      | zero => simp [starLoop, htail]
      | succ n =>
        simp only [List.cons_append, starLoop, if_true, (isSetStep_m W A).cons]
        by_cases hax : A.mem x = true
        · simp only [hax, if_true, List.length_cons, Nat.lt_succ_self]
          rw [iht (x :: pre) n (fun y hy => hb y (List.mem_cons_of_mem _ hy))]
          simp [Option.orElse, htail]
        · simp only [hax, Bool.false_eq_true, if_false]
          simp [Option.orElse, htail]
  exact hnone u pre _ hb

/-- `S+` on an all-`S` run followed by a character outside `S` stops in front of it -/
theorem plus_set_stop (W S : CSet) (d : Nat) (hd : S.mem d = false) (pre : List Nat) (c : Nat) (t rest : List Nat)
    (hall : ∀ x ∈ c :: t, S.mem x = true) :
    matchAt W (.seq (.set S) (.star true (.set S))) ⟨pre, c :: (t ++ d :: rest)⟩ = some ⟨(c :: t).reverse ++ pre, d :: rest⟩ := by
  unfold matchAt
  rw [m_seq, m_set_cons, if_pos (hall c List.mem_cons_self), m_star]
  have := star_set_stop (isSetStep_m W S) d hd rest t (c :: pre) ((t ++ d :: rest).length + 1) some
    ⟨t.reverse ++ c :: pre, d :: rest⟩ (fun x hx => hall x (List.mem_cons_of_mem _ hx)) (by simp <;> omega) rfl
  rw [this]
  simp

end MindsVerif.Re

namespace MindsVerif.Re

/-! ### rules that can cross the stop character (multi-word keywords in front of a blank): decided per word -/

/-- the leading run of one-character classes of a regex, and what follows it -/
def leadTail : Re → List CSet × Re
  | .seq (.set s) r => (s :: (leadTail r).1, (leadTail r).2)
  | r => ([], r)

/-- the classes agree with the known text as far as both go -/
def agree : List CSet → List Nat → Bool
  | [], _ => true
  | _ :: _, [] => true
  | s :: ss, c :: cs => s.mem c && agree ss cs

theorem lead_agree (W : CSet) : ∀ (r : Re) (pre u rest : List Nat) (k : Pos → Option Pos) (a : Pos),
    m W r ⟨pre, u ++ rest⟩ k = some a → agree (leadTail r).1 u = true := by
  intro r
  induction r with
  | seq x y _ ihy =>
    intro pre u rest k a h
    cases x with
    | set s =>
      simp only [leadTail]
      cases u with
      | nil => simp [agree]
      | cons c t =>
        rw [m_seq] at h
        simp only [List.cons_append] at h
        rw [m_set_cons] at h
        by_cases hc : s.mem c = true
        · rw [if_pos hc] at h
          simp only [agree, hc, Bool.true_and]
          exact ihy (c :: pre) t rest k a h
        · rw [if_neg hc] at h; cases h
    | _ => simp [leadTail, agree]
  | _ => intro pre u rest k a _; simp [leadTail, agree]

theorem lead_rem (W : CSet) : ∀ (r : Re) (pre u rest : List Nat) (k : Pos → Option Pos) (a : Pos),
    m W r ⟨pre, u ++ rest⟩ k = some a → (leadTail r).1.length ≤ u.length →
    m W (leadTail r).2 ⟨(u.take (leadTail r).1.length).reverse ++ pre, u.drop (leadTail r).1.length ++ rest⟩ k = some a := by
  intro r
  induction r with
  | seq x y _ ihy =>
    intro pre u rest k a h hl
    cases x with
    | set s =>
      simp only [leadTail, List.length_cons] at hl ⊢
      cases u with
      | nil => simp at hl
      | cons c t =>
        rw [m_seq] at h
        simp only [List.cons_append] at h
        rw [m_set_cons] at h
        by_cases hc : s.mem c = true
        · rw [if_pos hc] at h
          have := ihy (c :: pre) t rest k a h (by simpa using hl)
          simpa using this
        · rw [if_neg hc] at h; cases h
    | _ => simpa [leadTail] using h
  | _ => intro pre u rest k a h _; simpa [leadTail] using h

def inSetB (s : CSet) (c : Nat) : Bool := s.any fun r => Nat.ble r.1 c && Nat.ble c r.2

theorem inSetB_of_inSet {s : CSet} {c : Nat} (h : inSet s c) : inSetB s c = true := by
  obtain ⟨r, hr, h1, h2⟩ := h
  unfold inSetB
  exact List.any_eq_true.mpr ⟨r, hr, by simp [Nat.ble_eq, h1, h2]⟩

/-- a rule `\\b r'` is blocked at the word `w` followed by `d`: its leading classes disagree with `w d`, or they end inside `w`
and what follows them cannot start with the next character of `w` -/
def blockedLead (r : Re) (w : List Nat) (d : Nat) : Bool :=
  match r with
  | .seq (.bound false) r' =>
    !(agree (leadTail r').1 (w ++ [d])) ||
    (match w.drop (leadTail r').1.length with
     | c :: _ => nonNull (leadTail r').2 && !(inSetB (first (leadTail r').2) c)
     | [] => false)
  | _ => false

theorem matchAt_none_of_blocked {W : CSet} {r : Re} {w : List Nat} {d : Nat} (hb : blockedLead r w d = true)
    (pre rest : List Nat) : matchAt W r ⟨pre, w ++ d :: rest⟩ = none := by
  cases hm : matchAt W r ⟨pre, w ++ d :: rest⟩ with
  | none => rfl
  | some q =>
    exfalso
    unfold blockedLead at hb
    cases r with
    | seq x r' =>
      cases x with
      | bound neg =>
        cases neg with
        | true => simp at hb
        | false =>
          simp only [Bool.or_eq_true, Bool.not_eq_true'] at hb
          unfold matchAt at hm
          rw [m_seq] at hm
          have hm' : m W r' ⟨pre, w ++ d :: rest⟩ some = some q := by
            simp only [m] at hm
            split at hm
            · exact hm
            · cases hm
          have e : w ++ d :: rest = (w ++ [d]) ++ rest := by simp
          rcases hb with h1 | h2
          · rw [e] at hm'
            have := lead_agree W r' pre (w ++ [d]) rest some q hm'
            rw [this] at h1; cases h1
          · cases hdrop : w.drop (leadTail r').1.length with
            | nil => rw [hdrop] at h2; cases h2
            | cons c t =>
              rw [hdrop] at h2
              simp only [Bool.and_eq_true, Bool.not_eq_true'] at h2
              have hlen : (leadTail r').1.length ≤ w.length := by
                cases Nat.lt_or_ge w.length (leadTail r').1.length with
                | inl hlt =>
                  have : w.drop (leadTail r').1.length = [] := List.drop_eq_nil_of_le (Nat.le_of_lt hlt)
                  rw [this] at hdrop; cases hdrop
                | inr hge => exact hge
              have hm2 := lead_rem W r' pre w (d :: rest) some q hm' hlen
              rw [hdrop] at hm2
              obtain ⟨q', _, _, hf, hlt⟩ := m_first W (leadTail r').2 _ some q hm2
              obtain ⟨c', t', hs', hin⟩ := hf (hlt h2.1)
              simp only [List.cons_append, List.cons.injEq] at hs'
              obtain ⟨hc', _⟩ := hs'
              subst hc'
              rw [inSetB_of_inSet hin] at h2
              cases h2.2
      | _ => simp at hb
    | _ => simp at hb

end MindsVerif.Re

namespace MindsVerif.Re

/-- a keyword rule DOES match its word in front of a character that is no word character -/
theorem kwTail_matches_at (W : CSet) (d : Nat) (hWd : W.mem d = false) (rest : List Nat) : ∀ (sets : List CSet) (r : Re),
    kwTail r = some sets →
    ∀ (pre u : List Nat) (k : Pos → Option Pos), kwMatch sets u = true → (∀ c ∈ u, W.mem c = true) →
      (sets = [] → isWordAt W pre.head? = true) →
      m W r ⟨pre, u ++ d :: rest⟩ k = k ⟨u.reverse ++ pre, d :: rest⟩ := by
  intro sets
  induction sets with
  | nil =>
    intro r hr pre u k hm _ hprev
    cases u with
    | cons c t => simp [kwMatch] at hm
    | nil =>
      cases r with
      | bound neg =>
        cases neg with
        | true => simp [kwTail] at hr
        | false =>
          have hp := hprev rfl
          have hnext : isWordAt W (some d) = false := by simp [isWordAt, hWd]
          simp only [m, List.nil_append, List.head?_cons, hp, hnext]
          simp
      | seq x y =>
        cases x with
        | set s => simp only [kwTail, Option.map_eq_some_iff] at hr; obtain ⟨_, _, h0⟩ := hr; cases h0
        | _ => simp [kwTail] at hr
      | _ => simp [kwTail] at hr
  | cons s ss ih =>
    intro r hr pre u k hm hall _
    cases r with
    | seq x y =>
      cases x with
      | set s' =>
        simp only [kwTail, Option.map_eq_some_iff] at hr
        obtain ⟨ss', hy, h0⟩ := hr
        simp only [List.cons.injEq] at h0
        obtain ⟨e1, e2⟩ := h0
        subst e1; subst e2
        cases u with
        | nil => simp [kwMatch] at hm
        | cons c t =>
          simp only [kwMatch, Bool.and_eq_true] at hm
          have hW : W.mem c = true := hall c List.mem_cons_self
          simp only [List.cons_append]
          rw [m_seq, m_set_cons, if_pos hm.1]
          rw [ih y hy (c :: pre) t k hm.2 (fun x hx => hall x (List.mem_cons_of_mem _ hx)) (fun _ => by simp [isWordAt, hW])]
          simp
      | _ => simp [kwTail] at hr
    | bound neg => cases neg <;> simp [kwTail] at hr
    | _ => simp [kwTail] at hr

theorem kw_matches_at {W : CSet} {r : Re} {sets : List CSet} (hk : kwSets r = some sets) (hne : sets ≠ [])
    {d : Nat} (hWd : W.mem d = false) {pre u rest : List Nat} (hprev : isWordAt W pre.head? = false)
    (hm : kwMatch sets u = true) (hall : ∀ c ∈ u, W.mem c = true) :
    matchAt W r ⟨pre, u ++ d :: rest⟩ = some ⟨u.reverse ++ pre, d :: rest⟩ := by
  cases r with
  | seq x y =>
    cases x with
    | bound neg =>
      cases neg with
      | true => simp [kwSets] at hk
      | false =>
        simp only [kwSets] at hk
        cases u with
        | nil =>
          cases sets with
          | nil => exact absurd rfl hne
          | cons s ss => simp [kwMatch] at hm
        | cons c t =>
          have hW : W.mem c = true := hall c List.mem_cons_self
          unfold matchAt
          rw [m_seq]
          have hb : m W (.bound false) ⟨pre, (c :: t) ++ d :: rest⟩ (fun q => m W y q some)
              = m W y ⟨pre, (c :: t) ++ d :: rest⟩ some := by
            have hsome : isWordAt W (some c) = true := by simp [isWordAt, hW]
            simp only [m, List.cons_append, List.head?_cons, hprev, hsome]
            simp
          rw [hb, kwTail_matches_at W d hWd rest sets y hk pre (c :: t) some hm hall (fun h0 => absurd h0 hne)]
    | _ => simp [kwSets] at hk
  | _ => simp [kwSets] at hk

end MindsVerif.Re
