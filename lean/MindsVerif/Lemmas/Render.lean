import MindsVerif.Model.Render
/-! T6.1 / T6.3: the normal form `saNorm…` (what the rendered text denotes) has the meaning of the
original on the fragment accepted by `ok…`, for all table contents and environments. -/
namespace MindsVerif.Render

/-! ### three-valued logic -/

theorem not3_ofBool (b : Bool) : not3 (ofBool b) = ofBool (!b) := by cases b <;> rfl

theorem not3_not3_ofTruth (t : Option Bool) : not3 (not3 (ofTruth t)) = ofTruth t := by
  rcases t with _ | _ | _ <;> rfl

theorem not3_not3_and3 (a b : Val) : not3 (not3 (and3 a b)) = and3 a b := by
  unfold and3
  generalize truth a = ta
  generalize truth b = tb
  rcases ta with _ | _ | _ <;> rcases tb with _ | _ | _ <;> rfl

theorem not3_lift2 (f g : Int → Int → Bool) (h : ∀ x y, g x y = !f x y) (a b : Val) :
    lift2 g a b = not3 (lift2 f a b) := by
  cases a <;> cases b <;> try rfl
  rename_i x y
  simp only [lift2, h]
  cases f x y <;> rfl

theorem dec_le_not_lt (x y : Int) : decide (y ≤ x) = !decide (x < y) := by
  rw [← decide_not]; apply decide_eq_decide.2; omega

theorem dec_lt_not_le (x y : Int) : decide (y < x) = !decide (x ≤ y) := by
  rw [← decide_not]; apply decide_eq_decide.2; omega

/-- the flip table is sound for every comparison -/
theorem evalCmp_saNeg (env : Env) (o : Cmp) (a b : Val) :
    evalCmp env o.saNeg a b = not3 (evalCmp env o a b) := by
  cases o with
  | eq => exact not3_lift2 _ _ (fun x y => by simp [bne]) a b
  | ne => exact not3_lift2 _ _ (fun x y => by simp [bne]) a b
  | lt => exact not3_lift2 _ _ (fun x y => dec_le_not_lt x y) a b
  | le => exact not3_lift2 _ _ (fun x y => dec_lt_not_le x y) a b
  | gt => exact not3_lift2 _ _ (fun x y => dec_le_not_lt y x) a b
  | ge => exact not3_lift2 _ _ (fun x y => dec_lt_not_le y x) a b
  | is => simp only [Cmp.saNeg, evalCmp, not3_ofBool, bne]
  | isNot => simp only [Cmp.saNeg, evalCmp, not3_ofBool, bne, Bool.not_not]
  | like => rfl
  | notLike => exact (not3_not3_ofTruth _).symm

theorem not3_not3_inSem (x : Val) (vs : List Val) : not3 (not3 (inSem x vs)) = inSem x vs := by
  cases vs with
  | nil => rfl
  | cons v vs => simp only [inSem, List.foldr_cons, or3, not3_not3_ofTruth]

theorem eval_saInvert (env : Env) (ρ : Nat → Val) (e : Expr) :
    eval env ρ (saInvert e) = not3 (eval env ρ e) := by
  cases e with
  | cmp o l r =>
    simp only [saInvert, eval]
    apply evalCmp_saNeg
  | btw n x lo hi =>
    simp only [saInvert, eval]
    cases n
    · simp
    · simp [not3_not3_and3]
  | inl n x items =>
    simp only [saInvert, eval]
    cases n
    · simp
    · simp [not3_not3_inSem]
  | inq n x q =>
    simp only [saInvert, eval]
    cases n
    · simp
    · simp [not3_not3_inSem]
  | exists_ q => simp only [saInvert, eval]
  | scalar q => simp only [saInvert, eval]
  | null => simp only [saInvert, eval]
  | int n => simp only [saInvert, eval]
  | col i => simp only [saInvert, eval]
  | ar o l r => simp only [saInvert, eval]
  | and l r => simp only [saInvert, eval]
  | or l r => simp only [saInvert, eval]
  | not e => simp only [saInvert, eval]
  | neg e => simp only [saInvert, eval]
  | ite c r e => simp only [saInvert, eval]
  | cast e => simp only [saInvert, eval]
  | tnil => simp only [saInvert, eval]
  | tcons e r => simp only [saInvert, eval]

/-- **NOT rewrite** (and CASE / CAST / IN lists): valid in three-valued logic for all values -/
theorem eval_saNormE_both (env : Env) (ρ : Nat → Val) (e : Expr) (h : okE e = true) :
    eval env ρ (saNormE e) = eval env ρ e ∧ evalItems env ρ (saNormE e) = evalItems env ρ e := by
  induction e with
  | null => exact ⟨rfl, rfl⟩
  | int n => exact ⟨rfl, rfl⟩
  | col i => exact ⟨rfl, rfl⟩
  | tnil => exact ⟨rfl, rfl⟩
  | cmp o l r ihl ihr =>
    simp only [okE, Bool.and_eq_true] at h
    simp only [saNormE, eval, evalItems, (ihl h.1).1, (ihr h.2).1, and_self]
  | ar o l r ihl ihr =>
    simp only [okE, Bool.and_eq_true] at h
    simp only [saNormE, eval, evalItems, (ihl h.1).1, (ihr h.2).1, and_self]
  | and l r ihl ihr =>
    simp only [okE, Bool.and_eq_true] at h
    simp only [saNormE, eval, evalItems, (ihl h.1).1, (ihr h.2).1, and_self]
  | or l r ihl ihr =>
    simp only [okE, Bool.and_eq_true] at h
    simp only [saNormE, eval, evalItems, (ihl h.1).1, (ihr h.2).1, and_self]
  | not e ih =>
    simp only [okE, Bool.and_eq_true, Bool.not_eq_true'] at h
    refine ⟨?_, ?_⟩
    · simp only [saNormE, eval, eval_saInvert env ρ _, (ih h.1).1]
    · simp only [saNormE, evalItems]
      cases hs : saNormE e <;> simp only [saInvert, evalItems]
  | neg e ih =>
    simp only [okE] at h
    simp only [saNormE, eval, evalItems, (ih h).1, and_self]
  | btw n x lo hi ihx ihl ihh =>
    simp only [okE, Bool.and_eq_true] at h
    simp only [saNormE, eval, evalItems, (ihx h.1.1).1, (ihl h.1.2).1, (ihh h.2).1, and_self]
  | ite c r e ihc ihr ihe =>
    simp only [okE, Bool.and_eq_true] at h
    simp only [saNormE, eval, evalItems, (ihc h.1.1).1, (ihr h.1.2).1, (ihe h.2).1, and_self]
  | cast e ih =>
    simp only [okE] at h
    simp only [saNormE, eval, evalItems, (ih h).1, and_self]
  | inl n x items ihx ihi =>
    simp only [okE, Bool.and_eq_true] at h
    simp only [saNormE, eval, evalItems, (ihx h.1).1, (ihi h.2).2, and_self]
  | tcons e rest ihe ihr =>
    simp only [okE, Bool.and_eq_true] at h
    simp only [saNormE, eval, evalItems, (ihe h.1).1, (ihr h.2).2, and_self]
  | inq n x q ihx =>
    simp only [okE] at h
    simp only [saNormE, eval, evalItems, (ihx h).1, and_self]
  | exists_ q => exact ⟨rfl, rfl⟩
  | scalar q => exact ⟨rfl, rfl⟩

theorem eval_saNormE (env : Env) (ρ : Nat → Val) (e : Expr) (h : okE e = true) :
    eval env ρ (saNormE e) = eval env ρ e :=
  (eval_saNormE_both env ρ e h).1

theorem holds_saNormE (env : Env) (c : Expr) (h : okE c = true) (r : Row) :
    holds env (saNormE c) r = holds env c r := by
  simp only [holds, eval_saNormE env _ c h]

/-! ### joins -/

theorem evalJoin_congr (env : Env) (k : JoinKind) (c1 c2 : Expr)
    (h : ∀ r, holds env c1 r = holds env c2 r) (wL wR : Nat) (L R : Table) :
    evalJoin env k c1 wL wR L R = evalJoin env k c2 wL wR L R := by
  have hm : ∀ l, matchesOf env c1 l R = matchesOf env c2 l R := by
    intro l; simp only [matchesOf, h]
  cases k <;> simp only [evalJoin, innerJoin, leftJoin, unmatchedR, hm, h]

theorem holds_oneEqOne (env : Env) (r : Row) : holds env oneEqOne r = true := rfl

/-- missing ON: `JOIN … ON 1=1` is the cross product, for all contents -/
theorem innerJoin_oneEqOne (env : Env) (L R : Table) : innerJoin env oneEqOne L R = cross L R := by
  have : ∀ R : Table, R.filter (fun _ => true) = R := fun R => List.filter_eq_self.2 (by simp)
  simp only [innerJoin, cross, matchesOf, holds_oneEqOne, this]

/-- every spelling the renderer accepts is mapped to the kind it has in SQL (all strings) -/
theorem saKind_sound (jt : String) (k : JoinKind) (h : saKind jt = some k) : sqlKind jt = some k := by
  unfold saKind at h
  unfold sqlKind
  split at h
  · rename_i h1
    cases h
    rcases h1 with rfl | rfl <;> decide
  · split at h
    · rename_i h1
      cases h
      rcases h1 with rfl | rfl <;> decide
    · split at h
      · rename_i h1
        cases h
        rcases h1 with rfl | rfl | rfl <;> decide
      · cases h

theorem sqlKind_kindText (k : JoinKind) : sqlKind (kindText k) = some k := by
  cases k <;> decide

theorem fromWidth_saFrom (db : Db) (f : From) : fromWidth db (saFrom f) = fromWidth db f := by
  induction f with
  | table t => rfl
  | sub q w => rfl
  | join l jt imp t on ih =>
    cases imp
    · simp only [saFrom, Bool.false_eq_true, if_false]
      cases saKind jt <;> simp only [fromWidth, ih]
    · simp only [saFrom, fromWidth, ih, if_true]

/-- **T6.1 (join kinds)**: when no join raises, the rendered FROM clause denotes the same relation
for all table contents -/
theorem evalFrom_saFrom (env : Env) (db : Db) (f : From) (h : okFrom f = true)
    (hr : raisesFrom f = false) : evalFrom env db (saFrom f) = evalFrom env db f := by
  induction f with
  | table t => rfl
  | sub q w => rfl
  | join l jt imp t on ih =>
    simp only [okFrom, Bool.and_eq_true, Bool.or_eq_true] at h
    simp only [raisesFrom, Bool.or_eq_false_iff, Bool.and_eq_false_iff] at hr
    obtain ⟨hl, hj⟩ := h
    obtain ⟨hrl, hrj⟩ := hr
    cases imp with
    | true => simp only [saFrom, evalFrom, if_true, ih hl hrl]
    | false =>
      simp only [Bool.false_eq_true, false_or] at hj
      cases hk : saKind jt with
      | none => simp [hk] at hrj
      | some k =>
        have hs := saKind_sound jt k hk
        simp only [saFrom, evalFrom, Bool.false_eq_true, if_false, hk, sqlKind_kindText, hs,
          ih hl hrl, fromWidth_saFrom]
        cases on with
        | none =>
          by_cases hi : k = .inner
          · simp only [hi, if_true, evalJoin, innerJoin_oneEqOne]
          · simp only [hi, if_false]
        | some c =>
          exact evalJoin_congr env _ _ _ (holds_saNormE env c hj) _ _ _ _

/-! ### ORDER BY -/

theorem keyDesc_saKey (k : OrderKey) : keyDesc (saKey k) = keyDesc k := by
  simp only [keyDesc, saKey]
  by_cases h1 : k.dir = "DESC"
  · simp [h1]
  · by_cases h2 : k.dir = "ASC"
    · simp [h2]
    · simp [h1, h2]

theorem keyNullsFirst_saKey (env : Env) (k : OrderKey) :
    keyNullsFirst env (saKey k) = keyNullsFirst env k := by
  have hd := keyDesc_saKey k
  simp only [keyNullsFirst, hd]
  simp only [saKey]
  by_cases h1 : k.nulls = "NULLS FIRST"
  · simp [h1]
  · by_cases h2 : k.nulls = "NULLS LAST"
    · simp [h2]
    · simp [h1, h2]

/-- direction and NULLS position of every ORDER BY key are preserved -/
theorem keyLe_saKey (env : Env) (k : OrderKey) : keyLe env (saKey k) = keyLe env k := by
  funext a b
  simp only [keyLe, keyDesc_saKey, keyNullsFirst_saKey]

theorem rowsLe_saKey (env : Env) (ks : List OrderKey) (h : ks.all (fun k => okE k.e) = true) :
    rowsLe env (ks.map saKey) = rowsLe env ks := by
  induction ks with
  | nil => rfl
  | cons k ks ih =>
    simp only [List.all_cons, Bool.and_eq_true] at h
    funext r1 r2
    have he : ∀ r, eval env (rowEnv r) (saKey k).e = eval env (rowEnv r) k.e :=
      fun r => eval_saNormE env _ k.e h.1
    simp only [List.map_cons, rowsLe, he, keyLe_saKey, ih h.2]

/-! ### SELECT, set operations -/

theorem targets_saTarget (env : Env) (ts : List Target) (h : ts.all (fun t => okE t.e) = true)
    (r : Row) :
    (ts.map saTarget).map (fun t => eval env (rowEnv r) t.e) =
      ts.map (fun t => eval env (rowEnv r) t.e) := by
  induction ts with
  | nil => rfl
  | cons t ts ih =>
    simp only [List.all_cons, Bool.and_eq_true] at h
    simp only [List.map_cons, ih h.2]
    congr 1
    exact eval_saNormE env _ t.e h.1

theorem evalSelect_saSelect (env : Env) (db : Db) (s : Select) (h : okSelect s = true)
    (hr : raisesFrom s.from_ = false) :
    evalSelect env db (saSelect s) = evalSelect env db s := by
  simp only [okSelect, Bool.and_eq_true] at h
  obtain ⟨⟨⟨hf, ht⟩, hw⟩, ho⟩ := h
  have hproj : (fun r : Row => (s.targets.map saTarget).map fun t => eval env (rowEnv r) t.e) =
      fun r => s.targets.map fun t => eval env (rowEnv r) t.e :=
    funext fun r => targets_saTarget env s.targets ht r
  have hwhere : ∀ rows, whereRows env (Option.map saNormE s.where_) rows = whereRows env s.where_ rows := by
    intro rows
    cases hs : s.where_ with
    | none => rfl
    | some c =>
      rw [hs] at hw
      have : holds env (saNormE c) = holds env c := funext (holds_saNormE env c hw)
      simp only [Option.map_some, whereRows, this]
  simp only [evalSelect, saSelect, evalFrom_saFrom env db _ hf hr, rowsLe_saKey env _ ho, hproj,
    hwhere]

theorem evalT_saT (env : Env) (g : Table) (t : TExpr) (h : okT t = true) :
    evalT env g (saT t) = evalT env g t := by
  cases t with
  | plain e =>
    simp only [okT] at h
    cases g with
    | nil => rfl
    | cons r rs => simp only [saT, evalT, eval_saNormE env _ e h]
  | agg f e =>
    simp only [okT] at h
    simp only [saT, evalT, eval_saNormE env _ e h]
  | countStar => rfl

theorem groupKey_saNormE (env : Env) (ks : List Expr) (h : ks.all okE = true) (r : Row) :
    groupKey env (ks.map saNormE) r = groupKey env ks r := by
  induction ks with
  | nil => rfl
  | cons k ks ih =>
    simp only [List.all_cons, Bool.and_eq_true] at h
    simp only [groupKey, List.map_cons, List.cons.injEq] at ih ⊢
    exact ⟨eval_saNormE env _ k h.1, ih h.2⟩

theorem groupsOf_saNormE (env : Env) (ks : List Expr) (h : ks.all okE = true) (rows : Table) :
    groupsOf env (ks.map saNormE) rows = groupsOf env ks rows := by
  have hk : groupKey env (ks.map saNormE) = groupKey env ks := funext (groupKey_saNormE env ks h)
  have he : (ks.map saNormE).isEmpty = ks.isEmpty := by cases ks <;> rfl
  simp only [groupsOf, hk, he]

theorem evalGSelect_saGSelect (env : Env) (db : Db) (g : GSelect) (h : okGSelect g = true)
    (hr : raisesFrom g.from_ = false) : evalGSelect env db (saGSelect g) = evalGSelect env db g := by
  simp only [okGSelect, Bool.and_eq_true] at h
  obtain ⟨⟨⟨⟨⟨hf, ht⟩, hw⟩, hg⟩, hh⟩, ho⟩ := h
  have hwhere : ∀ rows, whereRows env (Option.map saNormE g.where_) rows = whereRows env g.where_ rows := by
    intro rows
    cases hs : g.where_ with
    | none => rfl
    | some c =>
      rw [hs] at hw
      have : holds env (saNormE c) = holds env c := funext (holds_saNormE env c hw)
      simp only [Option.map_some, whereRows, this]
  have htar : ∀ grp : Table, (g.targets.map saT).map (evalT env grp) = g.targets.map (evalT env grp) := by
    intro grp
    rw [List.map_map]
    apply List.map_congr_left
    intro t ht'
    exact evalT_saT env grp t (List.all_eq_true.1 ht t ht')
  have hhav : ∀ gs : List Table,
      havingGroups env (Option.map (fun h => (saT h.1, h.2.1, h.2.2)) g.having) gs =
        havingGroups env g.having gs := by
    intro gs
    cases hs : g.having with
    | none => rfl
    | some hv =>
      rw [hs] at hh
      simp only [Option.map_some, havingGroups, havingOk, evalT_saT env _ hv.1 hh]
  simp only [evalGSelect, saGSelect, evalFrom_saFrom env db _ hf hr, hwhere,
    groupsOf_saNormE env _ hg, hhav, htar, rowsLe_saKey env _ ho]

/-- **T6.1** -/
theorem evalQuery_saNorm (env : Env) (db : Db) (q : Query) (h : okQ q = true)
    (hr : raisesQ q = false) : evalQuery env db (saNorm q) = evalQuery env db q := by
  induction q with
  | select s => exact evalSelect_saSelect env db s h hr
  | gselect g => exact evalGSelect_saGSelect env db g h hr
  | setop op u l r ihl ihr =>
    simp only [okQ, Bool.and_eq_true] at h
    simp only [raisesQ, Bool.or_eq_false_iff] at hr
    simp only [saNorm, evalQuery, ihl h.1 hr.1, ihr h.2 hr.2]

/-- what `get_string` (with its default fallback) returns means the same as the statement -/
theorem evalQuery_saRender (env : Env) (db : Db) (q : Query) (h : okQ q = true) :
    evalQuery env db (saRender q) = evalQuery env db q := by
  unfold saRender
  cases hr : raisesQ q with
  | true => simp
  | false => simpa using evalQuery_saNorm env db q h hr

/-! ### statements with sub-queries -/

theorem evalSubs_saNorm (env : Env) (db : Db) (qs : List Query) (h : qs.all okQ = true)
    (hr : qs.any raisesQ = false) :
    ∀ i acc, evalSubs env db (qs.map saNorm) i acc = evalSubs env db qs i acc := by
  induction qs with
  | nil => intro i acc; rfl
  | cons q qs ih =>
    intro i acc
    simp only [List.all_cons, Bool.and_eq_true] at h
    simp only [List.any_cons, Bool.or_eq_false_iff] at hr
    simp only [List.map_cons, evalSubs, evalQuery_saNorm (withSub env acc) db q h.1 hr.1,
      ih h.2 hr.2]

/-- sub-queries in FROM / IN / EXISTS / as a value: what `get_string` returns for the whole
statement means the same, for all table contents -/
theorem evalNested_saRenderN (env : Env) (db : Db) (n : Nested) (h : okN n = true) :
    evalNested env db (saRenderN n) = evalNested env db n := by
  unfold saRenderN
  cases hr : raisesN n with
  | true => simp
  | false =>
    simp only [raisesN, Bool.or_eq_false_iff] at hr
    simp only [okN, Bool.and_eq_true] at h
    simp only [Bool.false_eq_true, if_false, evalNested, evalSubs_saNorm env db n.subs h.1 hr.1,
      evalQuery_saNorm _ db n.main h.2 hr.2]

/-! ### DML -/

theorem setCols_saNormE (env : Env) (sets : List (Nat × Expr))
    (h : sets.all (fun ce => okE ce.2) = true) (old : Row) :
    setCols env (sets.map fun ce => (ce.1, saNormE ce.2)) old = setCols env sets old := by
  unfold setCols
  generalize hacc : old = acc
  rw [← hacc]
  have : ∀ (acc : Row), List.foldl (fun r (ce : Nat × Expr) => r.set ce.1 (eval env (rowEnv old) ce.2)) acc
        (sets.map fun ce => (ce.1, saNormE ce.2)) =
      List.foldl (fun r (ce : Nat × Expr) => r.set ce.1 (eval env (rowEnv old) ce.2)) acc sets := by
    induction sets with
    | nil => intro acc; rfl
    | cons ce sets ih =>
      intro acc
      simp only [List.all_cons, Bool.and_eq_true] at h
      simp only [List.map_cons, List.foldl_cons, eval_saNormE env _ ce.2 h.1, ih h.2]
  exact this old

theorem mkRow_saNormE (env : Env) (w : Nat) (cols : List Nat) (vals : List Expr)
    (h : vals.all okE = true) : mkRow env w cols (vals.map saNormE) = mkRow env w cols vals := by
  unfold mkRow
  generalize nulls w = acc
  induction vals generalizing cols acc with
  | nil => simp
  | cons v vs ih =>
    simp only [List.all_cons, Bool.and_eq_true] at h
    cases cols with
    | nil => simp
    | cons c cs =>
      simp only [List.map_cons, List.zip_cons_cons, List.foldl_cons, eval_saNormE env _ v h.1]
      exact ih cs h.2 _

/-- **T6.3** INSERT … VALUES / UPDATE / DELETE: same table contents -/
theorem exec_saStmt (env : Env) (db : Db) (s : Stmt) (h : okStmt s = true) :
    exec env db (saStmt s) = exec env db s := by
  cases s with
  | insert t cols rows =>
    simp only [okStmt] at h
    simp only [saStmt, exec, List.map_map]
    congr 1
    apply List.map_congr_left
    intro vals hv
    exact mkRow_saNormE env _ cols vals (List.all_eq_true.1 h vals hv)
  | update t sets w =>
    simp only [okStmt, Bool.and_eq_true] at h
    simp only [saStmt, exec]
    apply List.map_congr_left
    intro r _
    rw [setCols_saNormE env sets h.1 r]
    cases w with
    | none => rfl
    | some c => simp only [Option.map_some, holds_saNormE env c h.2]
  | delete t w =>
    simp only [okStmt] at h
    cases w with
    | none => rfl
    | some c =>
      have : holds env (saNormE c) = holds env c := funext (holds_saNormE env c h)
      simp only [saStmt, Option.map_some, exec, this]

end MindsVerif.Render
