import MindsVerif.Lemmas.Render
/-! The normal form `saNorm…` preserves values on **every** input: the hypotheses `ok…` of
`Lemmas/Render.lean` (which delimit where the model's *printed text* is claimed to coincide with
SQLAlchemy's) are not needed for the meaning.  Only `raises… = false` (no fallback) remains where
the statement is about `saNorm` rather than `saRender`. -/
namespace MindsVerif.Render

theorem eval_saNormE_all (env : Env) (ρ : Nat → Val) (e : Expr) :
    eval env ρ (saNormE e) = eval env ρ e ∧ evalItems env ρ (saNormE e) = evalItems env ρ e := by
  induction e with
  | null => exact ⟨rfl, rfl⟩
  | int n => exact ⟨rfl, rfl⟩
  | col i => exact ⟨rfl, rfl⟩
  | tnil => exact ⟨rfl, rfl⟩
  | exists_ q => exact ⟨rfl, rfl⟩
  | scalar q => exact ⟨rfl, rfl⟩
  | cmp o l r ihl ihr => simp only [saNormE, eval, evalItems, ihl.1, ihr.1, and_self]
  | ar o l r ihl ihr => simp only [saNormE, eval, evalItems, ihl.1, ihr.1, and_self]
  | and l r ihl ihr => simp only [saNormE, eval, evalItems, ihl.1, ihr.1, and_self]
  | or l r ihl ihr => simp only [saNormE, eval, evalItems, ihl.1, ihr.1, and_self]
  | not e ih =>
    refine ⟨?_, ?_⟩
    · simp only [saNormE, eval, eval_saInvert env ρ _, ih.1]
    · simp only [saNormE, evalItems]
      cases hs : saNormE e <;> simp only [saInvert, evalItems]
  | neg e ih => simp only [saNormE, eval, evalItems, ih.1, and_self]
  | btw n x lo hi ihx ihl ihh => simp only [saNormE, eval, evalItems, ihx.1, ihl.1, ihh.1, and_self]
  | ite c r e ihc ihr ihe => simp only [saNormE, eval, evalItems, ihc.1, ihr.1, ihe.1, and_self]
  | cast e ih => simp only [saNormE, eval, evalItems, ih.1, and_self]
  | inl n x items ihx ihi => simp only [saNormE, eval, evalItems, ihx.1, ihi.2, and_self]
  | tcons e rest ihe ihr => simp only [saNormE, eval, evalItems, ihe.1, ihr.2, and_self]
  | inq n x q ihx => simp only [saNormE, eval, evalItems, ihx.1, and_self]

theorem eval_saNormE' (env : Env) (ρ : Nat → Val) (e : Expr) : eval env ρ (saNormE e) = eval env ρ e :=
  (eval_saNormE_all env ρ e).1

theorem holds_saNormE' (env : Env) (c : Expr) : holds env (saNormE c) = holds env c := by
  funext r; simp only [holds, eval_saNormE']

theorem evalFrom_saFrom' (env : Env) (db : Db) (f : From) (hr : raisesFrom f = false) :
    evalFrom env db (saFrom f) = evalFrom env db f := by
  induction f with
  | table t => rfl
  | sub q w => rfl
  | join l jt imp t on ih =>
    simp only [raisesFrom, Bool.or_eq_false_iff, Bool.and_eq_false_iff] at hr
    obtain ⟨hrl, hrj⟩ := hr
    cases imp with
    | true => simp only [saFrom, evalFrom, if_true, ih hrl]
    | false =>
      cases hk : saKind jt with
      | none => simp [hk] at hrj
      | some k =>
        have hs := saKind_sound jt k hk
        simp only [saFrom, evalFrom, Bool.false_eq_true, if_false, hk, sqlKind_kindText, hs, ih hrl,
          fromWidth_saFrom]
        cases on with
        | none =>
          by_cases hi : k = .inner
          · simp only [hi, if_true, evalJoin, innerJoin_oneEqOne]
          · simp only [hi, if_false]
        | some c =>
          exact evalJoin_congr env _ _ _ (fun r => congrFun (holds_saNormE' env c) r) _ _ _ _

theorem rowsLe_saKey' (env : Env) (ks : List OrderKey) : rowsLe env (ks.map saKey) = rowsLe env ks := by
  induction ks with
  | nil => rfl
  | cons k ks ih =>
    funext r1 r2
    have he : ∀ r, eval env (rowEnv r) (saKey k).e = eval env (rowEnv r) k.e :=
      fun r => eval_saNormE' env _ k.e
    simp only [List.map_cons, rowsLe, he, keyLe_saKey, ih]

theorem whereRows_saNormE (env : Env) (w : Option Expr) (rows : Table) :
    whereRows env (w.map saNormE) rows = whereRows env w rows := by
  cases w with
  | none => rfl
  | some c => simp only [Option.map_some, whereRows, holds_saNormE']

theorem evalSelect_saSelect' (env : Env) (db : Db) (s : Select) (hr : raisesFrom s.from_ = false) :
    evalSelect env db (saSelect s) = evalSelect env db s := by
  have hproj : (fun r : Row => (s.targets.map saTarget).map fun t => eval env (rowEnv r) t.e) =
      fun r => s.targets.map fun t => eval env (rowEnv r) t.e := by
    funext r
    rw [List.map_map]
    apply List.map_congr_left
    intro t _
    exact eval_saNormE' env _ t.e
  simp only [evalSelect, saSelect, evalFrom_saFrom' env db _ hr, rowsLe_saKey', hproj, whereRows_saNormE]

theorem evalT_saT' (env : Env) (g : Table) (t : TExpr) : evalT env g (saT t) = evalT env g t := by
  cases t with
  | plain e =>
    cases g with
    | nil => rfl
    | cons r rs => simp only [saT, evalT, eval_saNormE']
  | agg f e => simp only [saT, evalT, eval_saNormE']
  | countStar => rfl

theorem groupsOf_saNormE' (env : Env) (ks : List Expr) (rows : Table) :
    groupsOf env (ks.map saNormE) rows = groupsOf env ks rows := by
  have hk : groupKey env (ks.map saNormE) = groupKey env ks := by
    funext r
    simp only [groupKey, List.map_map]
    apply List.map_congr_left
    intro k _
    exact eval_saNormE' env _ k
  have he : (ks.map saNormE).isEmpty = ks.isEmpty := by cases ks <;> rfl
  simp only [groupsOf, hk, he]

theorem evalGSelect_saGSelect' (env : Env) (db : Db) (g : GSelect) (hr : raisesFrom g.from_ = false) :
    evalGSelect env db (saGSelect g) = evalGSelect env db g := by
  have htar : ∀ grp : Table, (g.targets.map saT).map (evalT env grp) = g.targets.map (evalT env grp) := by
    intro grp
    rw [List.map_map]
    apply List.map_congr_left
    intro t _
    exact evalT_saT' env grp t
  have hhav : ∀ gs : List Table,
      havingGroups env (Option.map (fun h => (saT h.1, h.2.1, h.2.2)) g.having) gs =
        havingGroups env g.having gs := by
    intro gs
    cases g.having with
    | none => rfl
    | some hv => simp only [Option.map_some, havingGroups, havingOk, evalT_saT']
  simp only [evalGSelect, saGSelect, evalFrom_saFrom' env db _ hr, whereRows_saNormE,
    groupsOf_saNormE', hhav, htar, rowsLe_saKey']

theorem evalQuery_saNorm' (env : Env) (db : Db) (q : Query) (hr : raisesQ q = false) :
    evalQuery env db (saNorm q) = evalQuery env db q := by
  induction q with
  | select s => exact evalSelect_saSelect' env db s hr
  | gselect g => exact evalGSelect_saGSelect' env db g hr
  | setop op u l r ihl ihr =>
    simp only [raisesQ, Bool.or_eq_false_iff] at hr
    simp only [saNorm, evalQuery, ihl hr.1, ihr hr.2]

/-- **T6.1, full strength** -/
theorem evalQuery_saRender' (env : Env) (db : Db) (q : Query) :
    evalQuery env db (saRender q) = evalQuery env db q := by
  unfold saRender
  cases hr : raisesQ q with
  | true => simp
  | false => simpa using evalQuery_saNorm' env db q hr

theorem evalSubs_saNorm' (env : Env) (db : Db) (qs : List Query) (hr : qs.any raisesQ = false) :
    ∀ i acc, evalSubs env db (qs.map saNorm) i acc = evalSubs env db qs i acc := by
  induction qs with
  | nil => intro i acc; rfl
  | cons q qs ih =>
    intro i acc
    simp only [List.any_cons, Bool.or_eq_false_iff] at hr
    simp only [List.map_cons, evalSubs, evalQuery_saNorm' (withSub env acc) db q hr.1, ih hr.2]

theorem evalNested_saRenderN' (env : Env) (db : Db) (n : Nested) :
    evalNested env db (saRenderN n) = evalNested env db n := by
  unfold saRenderN
  cases hr : raisesN n with
  | true => simp
  | false =>
    simp only [raisesN, Bool.or_eq_false_iff] at hr
    simp only [Bool.false_eq_true, if_false, evalNested, evalSubs_saNorm' env db n.subs hr.1,
      evalQuery_saNorm' _ db n.main hr.2]

theorem exec_saStmt' (env : Env) (db : Db) (s : Stmt) : exec env db (saStmt s) = exec env db s := by
  cases s with
  | insert t cols rows =>
    simp only [saStmt, exec, List.map_map]
    congr 1
    apply List.map_congr_left
    intro vals hv
    clear hv
    simp only [Function.comp, mkRow]
    generalize nulls (db.width t) = acc
    induction vals generalizing cols acc with
    | nil => simp
    | cons v vs ih =>
      cases cols with
      | nil => simp
      | cons c cs =>
        simp only [List.map_cons, List.zip_cons_cons, List.foldl_cons, eval_saNormE']
        exact ih cs _
  | update t sets w =>
    simp only [saStmt, exec]
    apply List.map_congr_left
    intro r _
    have hset : setCols env (sets.map fun ce => (ce.1, saNormE ce.2)) r = setCols env sets r := by
      unfold setCols
      generalize hacc : r = acc
      have : ∀ (acc : Row), List.foldl (fun r' (ce : Nat × Expr) => r'.set ce.1 (eval env (rowEnv r) ce.2)) acc
            (sets.map fun ce => (ce.1, saNormE ce.2)) =
          List.foldl (fun r' (ce : Nat × Expr) => r'.set ce.1 (eval env (rowEnv r) ce.2)) acc sets := by
        induction sets with
        | nil => intro acc; rfl
        | cons ce sets ih =>
          intro acc
          simp only [List.map_cons, List.foldl_cons, eval_saNormE', ih]
      subst hacc
      exact this r
    rw [hset]
    cases w with
    | none => rfl
    | some c => simp only [Option.map_some, holds_saNormE']
  | delete t w =>
    cases w with
    | none => rfl
    | some c => simp only [saStmt, Option.map_some, exec, holds_saNormE']

end MindsVerif.Render
