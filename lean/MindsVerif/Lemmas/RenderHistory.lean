import MindsVerif.Model.RenderHistory
/-! Proofs about renderer objects (`Model/RenderHistory.lean`). -/
namespace MindsVerif.RenderHistory
open MindsVerif.Render

variable {σ Stmt Out : Type}

theorem runAll_restoring (R : Renderer σ Stmt Out) (s0 : σ) (h : Restoring R s0) (hist : List Stmt) :
    runAll R s0 hist = s0 := by
  induction hist with
  | nil => rfl
  | cons q rest ih => simp only [runAll, h q, ih]

/-- an object that every call leaves as it was answers every statement like a new object, after any history -/
theorem after_restoring (R : Renderer σ Stmt Out) (s0 : σ) (h : Restoring R s0) (hist : List Stmt) (q : Stmt) :
    after R s0 hist q = (R.call s0 q).1 := by
  simp only [after, runAll_restoring R s0 h hist]

theorem actual_restoring : Restoring actual () := fun _ => rfl

/-- with `try/finally` the counter is back where it was, for every nesting of derived tables and every
place an exception may come from -/
theorem runJob_guarded (j : Job) : ∀ d, (runJob true d j).1 = d := by
  induction j with
  | plain r => intro d; rfl
  | derived inner rest ih =>
    intro d
    simp only [runJob]
    split <;> simp [ih (d + 1)]

theorem counter_guarded_restoring : Restoring (counterRenderer true) 0 := by
  intro q
  simp only [counterRenderer, runJob_guarded]

end MindsVerif.RenderHistory
