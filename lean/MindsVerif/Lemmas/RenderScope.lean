import MindsVerif.Model.RenderScope
/-! Proofs about FROM-list display under fresh allocation (`Model/RenderScope.lean`). -/
namespace MindsVerif.RenderScope

/-- every id is `fresh k` with `lo ≤ k < hi` -/
def InRange (lo hi : Nat) (x : ObjId) : Prop := ∃ k, lo ≤ k ∧ k < hi ∧ x = .fresh k

theorem InRange.mono {lo hi lo' hi' : Nat} {x : ObjId} (h : InRange lo hi x) (h1 : lo' ≤ lo) (h2 : hi ≤ hi') :
    InRange lo' hi' x := by
  obtain ⟨k, a, b, c⟩ := h
  exact ⟨k, Nat.le_trans h1 a, Nat.lt_of_lt_of_le b h2, c⟩

theorem freshEntry_spec (n : Nat) (r : FRef) :
    n < (freshEntry n r).2 ∧ (freshEntry n r).1.ref = r ∧
    InRange n (freshEntry n r).2 (freshEntry n r).1.id ∧
    ∀ p ∈ (freshEntry n r).1.parts, InRange n (freshEntry n r).2 p := by
  cases r with
  | table t =>
    refine ⟨Nat.lt_succ_self n, rfl, ⟨n, Nat.le_refl n, Nat.lt_succ_self n, rfl⟩, ?_⟩
    intro p hp
    simp only [freshEntry, List.mem_singleton] at hp
    exact ⟨n, Nat.le_refl n, Nat.lt_succ_self n, hp⟩
  | join a more =>
    refine ⟨by simp only [freshEntry]; omega, rfl, ⟨n, Nat.le_refl n, by simp only [freshEntry]; omega, rfl⟩, ?_⟩
    intro p hp
    simp only [freshEntry, List.mem_cons, List.mem_map, List.mem_range] at hp
    rcases hp with hp | ⟨i, hi, hp⟩
    · exact ⟨n, Nat.le_refl n, by simp only [freshEntry]; omega, hp⟩
    · exact ⟨n + 1 + i, by omega, by simp only [freshEntry]; omega, hp.symm⟩

theorem freshLevel_spec (n : Nat) (rs : List FRef) :
    n ≤ (freshLevel n rs).2 ∧ (freshLevel n rs).1.map (·.ref) = rs ∧
    ∀ o ∈ (freshLevel n rs).1, InRange n (freshLevel n rs).2 o.id ∧
      ∀ p ∈ o.parts, InRange n (freshLevel n rs).2 p := by
  induction rs generalizing n with
  | nil => exact ⟨Nat.le_refl n, rfl, fun o ho => by simp [freshLevel] at ho⟩
  | cons r rs ih =>
    obtain ⟨h1, h2, h3, h4⟩ := freshEntry_spec n r
    obtain ⟨i1, i2, i3⟩ := ih (freshEntry n r).2
    refine ⟨?_, ?_, ?_⟩
    · simp only [freshLevel]; omega
    · simp only [freshLevel, List.map_cons, h2, i2]
    · intro o ho
      simp only [freshLevel, List.mem_cons] at ho
      rcases ho with ho | ho
      · subst ho
        exact ⟨h3.mono (Nat.le_refl n) i1, fun p hp => (h4 p hp).mono (Nat.le_refl n) i1⟩
      · obtain ⟨a, b⟩ := i3 o ho
        exact ⟨a.mono (Nat.le_of_lt h1) (Nat.le_refl _), fun p hp => (b p hp).mono (Nat.le_of_lt h1) (Nat.le_refl _)⟩

theorem display_of_not_mem (imp : List ObjId) (fs : List FromObj) (h : ∀ f ∈ fs, f.id ∉ imp) :
    display imp fs = fs := by
  unfold display
  split
  · apply List.filter_eq_self.mpr
    intro f hf
    simp only [Bool.not_eq_eq_eq_not, Bool.not_true, List.contains_eq_mem, decide_eq_false_iff_not]
    exact h f hf
  · rfl

/-- under fresh allocation nothing is ever left out of a FROM list, whatever the enclosing selects hold -/
theorem displayAll_allocFresh (n : Nat) (imp : List ObjId) (levels : List (List FRef))
    (himp : ∀ x ∈ imp, InRange 0 n x) :
    displayAll imp (allocFresh n levels) = allocFresh n levels := by
  induction levels generalizing n imp with
  | nil => rfl
  | cons l ls ih =>
    obtain ⟨h1, _, h3⟩ := freshLevel_spec n l
    have hd : display imp (freshLevel n l).1 = (freshLevel n l).1 := by
      apply display_of_not_mem
      intro f hf hmem
      obtain ⟨k, _, hk, e⟩ := himp _ hmem
      obtain ⟨k', hk', _, e'⟩ := (h3 f hf).1
      rw [e'] at e
      injection e with e
      omega
    simp only [allocFresh, displayAll, hd]
    congr 1
    apply ih
    intro x hx
    simp only [fromObjects, List.mem_flatMap] at hx
    obtain ⟨o, ho, hp⟩ := hx
    exact ((h3 o ho).2 x hp).mono (Nat.zero_le _) (Nat.le_refl _)

theorem printed_allocFresh (n : Nat) (levels : List (List FRef)) :
    printed (allocFresh n levels) = levels := by
  induction levels generalizing n with
  | nil => rfl
  | cons l ls ih =>
    simp only [allocFresh, printed, List.map_cons, (freshLevel_spec n l).2.1]
    congr 1
    exact ih _

end MindsVerif.RenderScope
