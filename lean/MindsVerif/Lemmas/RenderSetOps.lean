import MindsVerif.Model.RenderSetOps
/-! Proofs about the set-operation text model (`Model/RenderSetOps.lean`). -/
namespace MindsVerif.RenderSetOps
open MindsVerif.Render

/-- `setRows` is the set-operation clause of `Render.evalQuery` -/
theorem evalQuery_setop (env : Env) (db : Db) (op : SetOp) (u : Bool) (l r : Query) :
    evalQuery env db (.setop op u l r) = setRows op u (evalQuery env db l) (evalQuery env db r) := by
  cases op <;> cases u <;> rfl

theorem evalQuery_toQuery (env : Env) (db : Db) (leaves : Nat → Query) (t : STree) :
    evalQuery env db (toQuery leaves t) = evalTree (fun i => evalQuery env db (leaves i)) t := by
  induction t with
  | leaf i => rfl
  | node op u l r ihl ihr => simp only [toQuery, evalTree, evalQuery_setop, ihl, ihr]

theorem saNorm_toQuery (leaves : Nat → Query) (t : STree) :
    saNorm (toQuery leaves t) = toQuery (fun i => saNorm (leaves i)) t := by
  induction t with
  | leaf i => rfl
  | node op u l r ihl ihr => simp only [toQuery, saNorm, ihl, ihr]

theorem raisesQ_toQuery (leaves : Nat → Query) (h : ∀ i, raisesQ (leaves i) = false) (t : STree) :
    raisesQ (toQuery leaves t) = false := by
  induction t with
  | leaf i => exact h i
  | node op u l r ihl ihr => simp only [toQuery, raisesQ, ihl, ihr, Bool.or_self]

/-- both readings of a two-operand chain are the operation itself -/
theorem readChain_pair (d : Dialect) (a b : Table) (op : SetOp) (u : Bool) :
    readChain d (a, [(op, u, b)]) = setRows op u a b := by
  cases d <;> simp only [readChain, readLeft, readPrec, closeRun]
  all_goals (split <;> rfl)

theorem readChain_single (d : Dialect) (a : Table) : readChain d (a, []) = a := by
  cases d <;> rfl

theorem accepts_nestAs (d : Dialect) : accepts d (nestAs d) = true := by
  cases d <;> rfl

theorem operand_chain (d : Dialect) (x y : RText) (op : SetOp) (u : Bool) :
    operand d (.chain x op u y) = .wrap (nestAs d) (.chain x op u y) := rfl

/-- an operand of the rendered text is read as ONE item whose rows are the rows of its sub-tree -/
theorem items_operand_render (d : Dialect) (tabs : Nat → Table) (t : STree) (h : supported d t = true) :
    items d tabs (operand d (render d t)) = some (evalTree tabs t, []) := by
  induction t with
  | leaf i => rfl
  | node op u l r ihl ihr =>
    simp only [supported, Bool.and_eq_true] at h
    obtain ⟨⟨ho, hl⟩, hr⟩ := h
    have hl' := ihl hl
    have hr' := ihr hr
    simp only [render, operand_chain, items, accepts_nestAs, ho, hl', hr', if_true, List.nil_append,
      Option.map_some, readChain_pair, evalTree]

theorem denote_render (d : Dialect) (tabs : Nat → Table) (t : STree) (h : supported d t = true) :
    denote d tabs (render d t) = some (evalTree tabs t) := by
  cases t with
  | leaf i => simp only [denote, render, items, Option.map_some, readChain_single, evalTree]
  | node op u l r =>
    simp only [supported, Bool.and_eq_true] at h
    obtain ⟨⟨ho, hl⟩, hr⟩ := h
    simp only [denote, render, items, ho, items_operand_render d tabs l hl, items_operand_render d tabs r hr,
      if_true, List.nil_append, Option.map_some, readChain_pair, evalTree]

/-- an operator the target does not have makes it reject the text (as it rejects the original) -/
theorem items_render_unsupported (d : Dialect) (tabs : Nat → Table) (t : STree) (h : supported d t = false) :
    items d tabs (render d t) = none ∧ items d tabs (operand d (render d t)) = none := by
  induction t with
  | leaf i => simp [supported] at h
  | node op u l r ihl ihr =>
    have key : items d tabs (render d (.node op u l r)) = none := by
      simp only [render, items]
      cases ho : hasOp d op u with
      | false => simp
      | true =>
        simp only [if_true]
        cases hl : supported d l with
        | false => simp [(ihl hl).2]
        | true =>
          cases hr : supported d r with
          | false =>
            rw [(ihr hr).2]
            cases items d tabs (operand d (render d l)) <;> rfl
          | true => simp [supported, ho, hl, hr] at h
    refine ⟨key, ?_⟩
    have : operand d (render d (.node op u l r)) = .wrap (nestAs d) (render d (.node op u l r)) := rfl
    rw [this]
    simp only [items, accepts_nestAs, if_true, key, Option.map_none]

theorem readLeft_append (acc : Table) (xs ys : List (SetOp × Bool × Table)) :
    readLeft acc (xs ++ ys) = readLeft (readLeft acc xs) ys := by
  induction xs generalizing acc with
  | nil => rfl
  | cons x xs ih => obtain ⟨op, u, t⟩ := x; simp only [List.cons_append, readLeft, ih]

/-- operands of `renderLeftChain` are delimited exactly like those of `render` -/
theorem items_operand_leftChain (tabs : Nat → Table) (t : STree) (h : supported .sqlite t = true) :
    (∃ c, items .sqlite tabs (renderLeftChain .sqlite t) = some c ∧ readLeft c.1 c.2 = evalTree tabs t) ∧
    items .sqlite tabs (operand .sqlite (renderLeftChain .sqlite t)) = some (evalTree tabs t, []) := by
  induction t with
  | leaf i => exact ⟨⟨(tabs i, []), rfl, rfl⟩, rfl⟩
  | node op u l r ihl ihr =>
    simp only [supported, Bool.and_eq_true] at h
    obtain ⟨⟨ho, hl⟩, hr⟩ := h
    obtain ⟨⟨cl, hcl, hvl⟩, _⟩ := ihl hl
    obtain ⟨_, hor⟩ := ihr hr
    obtain ⟨hd, tl⟩ := cl
    have key : items .sqlite tabs (renderLeftChain .sqlite (.node op u l r)) =
        some (hd, tl ++ [(op, u, evalTree tabs r)]) := by
      simp only [renderLeftChain, items, ho, if_true, hcl, hor]
    have val : readLeft hd (tl ++ [(op, u, evalTree tabs r)]) = evalTree tabs (.node op u l r) := by
      simp only at hvl
      rw [readLeft_append, hvl]; rfl
    refine ⟨⟨_, key, val⟩, ?_⟩
    have : operand .sqlite (renderLeftChain .sqlite (.node op u l r)) =
        .wrap .derived (renderLeftChain .sqlite (.node op u l r)) := rfl
    rw [this]
    simp only [items, accepts, if_true, key, Option.map_some, readChain, val]

/-! ### soundness of the checker `accepted` -/

theorem accepted_leaf (d : Dialect) (i : Nat) (x : RText) (h : accepted d (.leaf i) x = true) : x = .sel i := by
  simpa [accepted] using h

theorem unwrap_some (d : Dialect) (x x' : RText) (h : unwrap d x = some x') :
    ∃ w, accepts d w = true ∧ x = .wrap w x' := by
  cases x with
  | sel i => simp [unwrap] at h
  | chain a op u b => simp [unwrap] at h
  | wrap w y =>
    simp only [unwrap] at h
    split at h
    · rename_i hw; injection h with h; exact ⟨w, hw, by rw [h]⟩
    · simp at h

/-- from "every accepted text of `t` reads as `t`" to operands: an operand is ONE item unless it may continue the chain -/
theorem accOperand_items (d : Dialect) (tabs : Nat → Table) (t : STree) (x : RText) (allowBare : Bool)
    (ih : ∀ y, accepted d t y = true → ∃ c, items d tabs y = some c ∧ readChain d c = evalTree tabs t)
    (h : accOperand d (isNode t) x (accepted d t) allowBare = true) :
    ∃ c, items d tabs x = some c ∧ readChain d c = evalTree tabs t ∧ (allowBare = false → c.2 = []) := by
  cases t with
  | leaf i =>
    simp only [accOperand, isNode] at h
    have hx := accepted_leaf d i x (by simpa using h)
    subst hx
    exact ⟨(tabs i, []), rfl, readChain_single d _, fun _ => rfl⟩
  | node op u l r =>
    simp only [accOperand, isNode, if_true] at h
    cases hu : unwrap d x with
    | some x' =>
      rw [hu] at h
      obtain ⟨c, hc, hv⟩ := ih x' h
      obtain ⟨w, hw, hx⟩ := unwrap_some d x x' hu
      subst hx
      refine ⟨(readChain d c, []), ?_, ?_, fun _ => rfl⟩
      · simp only [items, hw, if_true, hc, Option.map_some]
      · rw [readChain_single, hv]
    | none =>
      rw [hu] at h
      simp only [Bool.and_eq_true] at h
      obtain ⟨hb, hacc⟩ := h
      obtain ⟨c, hc, hv⟩ := ih x hacc
      exact ⟨c, hc, hv, fun hf => by rw [hf] at hb; simp at hb⟩

theorem accepted_items (d : Dialect) (tabs : Nat → Table) (t : STree) (hs : supported d t = true) :
    ∀ x, accepted d t x = true → ∃ c, items d tabs x = some c ∧ readChain d c = evalTree tabs t := by
  induction t with
  | leaf i =>
    intro x h
    have hx := accepted_leaf d i x h
    subst hx
    exact ⟨(tabs i, []), rfl, readChain_single d _⟩
  | node op u l r ihl ihr =>
    intro x h
    simp only [supported, Bool.and_eq_true] at hs
    obtain ⟨⟨ho, hl⟩, hr⟩ := hs
    cases x with
    | sel i => simp [accepted] at h
    | wrap w y => simp [accepted] at h
    | chain a op' u' b =>
      simp only [accepted, Bool.and_eq_true, beq_iff_eq] at h
      obtain ⟨⟨⟨hop, hu⟩, ha⟩, hb⟩ := h
      subst hop; subst hu
      obtain ⟨cl, hcl, hvl, hbl⟩ := accOperand_items d tabs l a (d == .sqlite) (ihl hl) ha
      obtain ⟨cr, hcr, hvr, hbr⟩ := accOperand_items d tabs r b false (ihr hr) hb
      obtain ⟨hdl, tll⟩ := cl
      obtain ⟨hdr, tlr⟩ := cr
      have htr : tlr = [] := hbr rfl
      subst htr
      rw [readChain_single] at hvr
      refine ⟨(hdl, tll ++ [(op, u, hdr)]), ?_, ?_⟩
      · simp only [items, ho, if_true, hcl, hcr]
      · cases d with
        | sqlite =>
          simp only [readChain] at hvl ⊢
          rw [readLeft_append, hvl, hvr]; rfl
        | mysql =>
          have : tll = [] := hbl (by decide)
          subst this
          rw [readChain_single] at hvl
          rw [List.nil_append, readChain_pair, hvl, hvr]; rfl
        | postgres =>
          have : tll = [] := hbl (by decide)
          subst this
          rw [readChain_single] at hvl
          rw [List.nil_append, readChain_pair, hvl, hvr]; rfl

/-- **soundness of the checker**: a text `accepted` for the tree is read by the target as the tree -/
theorem accepted_sound (d : Dialect) (tabs : Nat → Table) (t : STree) (x : RText)
    (hs : supported d t = true) (h : accepted d t x = true) : denote d tabs x = some (evalTree tabs t) := by
  obtain ⟨c, hc, hv⟩ := accepted_items d tabs t hs x h
  simp only [denote, hc, Option.map_some, hv]

theorem unwrap_operand_render (d : Dialect) (x y : RText) (op : SetOp) (u : Bool) :
    unwrap d (operand d (.chain x op u y)) = some (.chain x op u y) := by
  simp [operand, unwrap, accepts_nestAs]

/-- what `prepare_union` prints is accepted … -/
theorem accepted_render (d : Dialect) (t : STree) :
    accepted d t (render d t) = true ∧
    accOperand d (isNode t) (operand d (render d t)) (accepted d t) false = true := by
  induction t with
  | leaf i => simp [accepted, render, accOperand, isNode, operand]
  | node op u l r ihl ihr =>
    have key : accepted d (.node op u l r) (render d (.node op u l r)) = true := by
      simp only [render, accepted, beq_self_eq_true, Bool.true_and, Bool.and_eq_true]
      refine ⟨?_, ihr.2⟩
      have := ihl.2
      cases l with
      | leaf i => simpa [accOperand, isNode] using this
      | node op2 u2 l2 r2 =>
        simp only [accOperand, isNode, if_true, render, unwrap_operand_render] at this ⊢
        exact this
    refine ⟨key, ?_⟩
    simp only [accOperand, isNode, if_true]
    have : unwrap d (operand d (render d (.node op u l r))) = some (render d (.node op u l r)) := by
      simp only [render]; exact unwrap_operand_render d _ _ op u
    rw [this]; exact key

/-- … and so is continuing the chain on the left, for sqlite -/
theorem accepted_leftChain (t : STree) :
    accepted .sqlite t (renderLeftChain .sqlite t) = true ∧
    accOperand .sqlite (isNode t) (operand .sqlite (renderLeftChain .sqlite t)) (accepted .sqlite t) false = true := by
  induction t with
  | leaf i => simp [accepted, renderLeftChain, accOperand, isNode, operand]
  | node op u l r ihl ihr =>
    have key : accepted .sqlite (.node op u l r) (renderLeftChain .sqlite (.node op u l r)) = true := by
      simp only [renderLeftChain, accepted, beq_self_eq_true, Bool.true_and, Bool.and_eq_true]
      refine ⟨?_, ihr.2⟩
      cases l with
      | leaf i => simpa [accOperand, isNode, renderLeftChain] using ihl.1
      | node op2 u2 l2 r2 =>
        simp only [accOperand, isNode, if_true, renderLeftChain, unwrap, Bool.true_and]
        exact ihl.1
    refine ⟨key, ?_⟩
    simp only [accOperand, isNode, if_true]
    have : unwrap .sqlite (operand .sqlite (renderLeftChain .sqlite (.node op u l r))) =
        some (renderLeftChain .sqlite (.node op u l r)) := by
      simp only [renderLeftChain]; exact unwrap_operand_render .sqlite _ _ op u
    rw [this]; exact key

end MindsVerif.RenderSetOps
