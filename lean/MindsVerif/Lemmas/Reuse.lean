import MindsVerif.Model.Reuse
namespace MindsVerif.Reuse

theorem runHist_cons {κ V C R : Type} (run : C → Obj κ V → Obj κ V × R) (c : C) (h : List C) (s : Obj κ V) :
    runHist run (c :: h) s = runHist run h (run c s).1 := rfl

theorem runHist_append {κ V C R : Type} (run : C → Obj κ V → Obj κ V × R) (h₁ h₂ : List C) (s : Obj κ V) :
    runHist run (h₁ ++ h₂) s = runHist run h₂ (runHist run h₁ s) := by
  simp [runHist, List.foldl_append]

/-- an attribute no call of the history may write is what it was -/
theorem runHist_untouched {κ V C R : Type} (run : C → Obj κ V → Obj κ V × R) (fp : C → Foot κ)
    (hr : Respects run fp) (k : κ) :
    ∀ (h : List C) (s : Obj κ V), (∀ c', c' ∈ h → k ∉ (fp c').writes) → runHist run h s k = s k := by
  intro h
  induction h with
  | nil => intro s _; rfl
  | cons c h ih =>
    intro s hk
    rw [runHist_cons, ih _ (fun c' hc' => hk c' (List.mem_cons_of_mem _ hc'))]
    exact hr.writes_only c s k (hk c List.mem_cons_self)

theorem frameOkFor_spec {κ C : Type} [BEq κ] [LawfulBEq κ] (fp : C → Foot κ) (h : List C) (c : C)
    (hok : frameOkFor fp h c = true) : ∀ c', c' ∈ h → ∀ k, k ∈ (fp c).reads → k ∉ (fp c').writes := by
  intro c' hc' k hk
  simp only [frameOkFor, List.all_eq_true] at hok
  have := hok c' hc' k hk
  simpa using this

theorem frameOk_spec {κ C : Type} [BEq κ] [LawfulBEq κ] (fp : C → Foot κ) (calls h : List C) (c : C)
    (hok : frameOk fp calls = true) (hc : c ∈ calls) (hh : ∀ c', c' ∈ h → c' ∈ calls) :
    frameOkFor fp h c = true := by
  simp only [frameOk, List.all_eq_true] at hok
  have h1 := hok c hc
  simp only [frameOkFor, List.all_eq_true] at h1 ⊢
  intro c' hc'
  exact h1 c' (hh c' hc')

theorem lookup_consistent {μ W : Type} (g : μ → W) (m : μ → Option W) (hm : Consistent g m) :
    lookup g m = g := by
  funext k
  unfold lookup
  cases hk : m k with
  | none => rfl
  | some w => simp [hm k w hk]

theorem fill_consistent {μ W : Type} [DecidableEq μ] (g : μ → W) (m : μ → Option W) (ks : List μ)
    (hm : Consistent g m) : Consistent g (fill g m ks) := by
  intro k w hw
  unfold fill at hw
  split at hw
  · cases hw; rfl
  · exact hm k w hw

end MindsVerif.Reuse
