import MindsVerif.Model.Route
/-! Lemmas about the routing model: lower-casing, catalog normalisation, resolvers, predictors. -/
namespace MindsVerif.Route

theorem lowerC_idem (c : Nat) : lowerC (lowerC c) = lowerC c := by
  unfold lowerC; split <;> (first | omega | (split <;> omega))

theorem lower_idem (n : Name) : lower (lower n) = lower n := by
  simp [lower, List.map_map, Function.comp_def, lowerC_idem]

theorem foldl_congr_mem {α β} (f g : β → α → β) (l : List α) (h : ∀ b, ∀ a ∈ l, f b a = g b a) (b : β) :
    l.foldl f b = l.foldl g b := by
  induction l generalizing b with
  | nil => rfl
  | cons a l ih =>
    simp only [List.foldl_cons]
    rw [h b a (by simp)]
    exact ih (fun b a ha => h b a (by simp [ha])) _

/-! ### catalog normalisation -/

/-- a plain name is the same as the dict `{'name': n, 'type': 'data'}` -/
def canonSpec : IntegSpec → IntegSpec
  | .nm n => .dict n n!"data" none
  | d => d

/-- lower-case the supplied name -/
def lowerSpec : IntegSpec → IntegSpec
  | .nm n => .nm (lower n)
  | .dict n t c => .dict (lower n) t c

theorem integStep_canon (st) (s : IntegSpec) : integStep st (canonSpec s) = integStep st s := by
  cases s <;> simp [canonSpec, integStep]

theorem integStep_lower (st) (s : IntegSpec) : integStep st (lowerSpec s) = integStep st s := by
  cases s <;> simp [lowerSpec, integStep, lower_idem]

theorem foldl_map_congr {α β} (f : β → α → β) (g : α → α) (h : ∀ b a, f b (g a) = f b a) (l : List α) (b : β) :
    (l.map g).foldl f b = l.foldl f b := by
  induction l generalizing b with
  | nil => rfl
  | cons a l ih => simp [List.foldl_cons, h, ih]

theorem mkCatalog_canon (i : CatalogIn) (l : List IntegSpec) :
    mkCatalog { i with integrations := some (l.map canonSpec) } = mkCatalog { i with integrations := some l } := by
  simp only [mkCatalog, Option.getD_some]
  rw [foldl_map_congr integStep canonSpec integStep_canon]

theorem mkCatalog_lowerSpec (i : CatalogIn) (l : List IntegSpec) :
    mkCatalog { i with integrations := some (l.map lowerSpec) } = mkCatalog { i with integrations := some l } := by
  simp only [mkCatalog, Option.getD_some]
  rw [foldl_map_congr integStep lowerSpec integStep_lower]

theorem mkCatalog_none_nil (i : CatalogIn) :
    mkCatalog { i with integrations := none } = mkCatalog { i with integrations := some [] } := by
  simp [mkCatalog]

theorem predStep_legacy_list (pns : Name) (st) (p : PredSpec) (h : dot ∉ p.name) :
    predStepLegacy pns st p = predStepList pns st p := by
  simp [predStepLegacy, predStepList, h]

theorem mkCatalog_legacy_list (i : CatalogIn) (ps : List PredSpec) (h : ∀ p ∈ ps, dot ∉ p.name) :
    mkCatalog { i with preds := .legacy ps } = mkCatalog { i with preds := .list ps } := by
  simp only [mkCatalog]
  rw [foldl_congr_mem (predStepLegacy _) (predStepList _) ps (fun st p hp => predStep_legacy_list _ st p (h p hp))]

/-- letter case of `default_namespace` does not matter (10d49ed) -/
theorem mkCatalog_default_case (i : CatalogIn) :
    mkCatalog { i with defaultNs := i.defaultNs.map lower } = mkCatalog i := by
  cases h : i.defaultNs <;> simp [mkCatalog, h, lower_idem]

theorem defaultOk_mkCatalog (i : CatalogIn) (h : defaultKnown (mkCatalog i) = true) :
    defaultOk (mkCatalog i) = true := by
  unfold defaultKnown at h
  unfold defaultOk
  cases hd : i.defaultNs with
  | none => simp [mkCatalog, hd]
  | some d =>
    have e : (mkCatalog i).defaultNs = some (lower d) := by simp [mkCatalog, hd]
    rw [e] at h ⊢
    simp only [decide_eq_true_eq] at h
    simp [h, lower_idem]

/-! ### resolvers -/

/-- the part of a resolver's answer that routing depends on: database, and table path up to case -/
def normRes (x : Name × List Name) : Name × List Name := (x.1, x.2.map lower)

theorem resolveSimple_lower (c : Catalog) (a b : List Name) (h : a.map lower = b.map lower) :
    (resolveSimple c a).map normRes = (resolveSimple c b).map normRes := by
  match a, b, h with
  | [], [], _ => rfl
  | [_], [_], h =>
    simp only [List.map_cons, List.map_nil, List.cons.injEq, and_true] at h
    simp [resolveSimple, normRes, h, Option.map_map, Function.comp_def]
  | p :: q :: r, p' :: q' :: r', h =>
    simp only [List.map_cons, List.cons.injEq] at h
    obtain ⟨hp, hq, hr⟩ := h
    simp only [resolveSimple, hp]
    split <;> simp [normRes, hp, hq, hr, Option.map_map, Function.comp_def]
  | [], _ :: _, h => simp at h
  | _ :: _, [], h => simp at h
  | [_], _ :: _ :: _, h => simp at h
  | _ :: _ :: _, [_], h => simp at h


theorem resolveJoinOld_eq_simple (c : Catalog) (parts : List Name) (h : agreeClass c parts = true) :
    resolveJoinOld c parts = resolveSimple c parts := by
  match parts, h with
  | [], _ => rfl
  | [p], h =>
    simp only [agreeClass, decide_eq_true_eq] at h
    simp [resolveJoinOld, resolveSimple, h]
  | p :: q :: r, h =>
    simp only [agreeClass, decide_eq_true_eq] at h
    simp [resolveJoinOld, resolveSimple, h]

/-- the two resolvers, transcribed independently from their own sources, agree on every identifier operand -/
theorem resolveJoin_eq_simple (c : Catalog) (parts : List Name) :
    resolveJoin c parts = resolveSimple c parts := by
  match parts with
  | [] => cases h : c.defaultNs <;> simp [resolveJoin, resolveTable, resolveTableCore, resolveSimple, h]
  | [p] => cases h : c.defaultNs <;> simp [resolveJoin, resolveTable, resolveTableCore, resolveSimple, h]
  | p :: q :: r =>
    by_cases hp : lower p ∈ c.databases
    · simp [resolveJoin, resolveTable, resolveTableCore, resolveSimple, hp]
    · cases h : c.defaultNs <;> simp [resolveJoin, resolveTable, resolveTableCore, resolveSimple, hp, h]

/-- what else `resolve_table` reports: the bare-name flag, and the aliases — for an unaliased table every
suffix of its written name, lower-cased (the last one is the table's own name); for an aliased one the alias only -/
theorem resolveTable_bare (c : Catalog) (parts : List Name) (alias : Option (List Name)) (sub : Bool) (ti : TableInfo)
    (h : resolveTable c parts alias sub = some ti) : ti.bareName = (parts.length == 1) := by
  simp only [resolveTable] at h
  split at h
  · simp at h
  · simp only [Option.some.injEq] at h; subst h; rfl

theorem resolveTable_aliases (c : Catalog) (parts : List Name) (alias : Option (List Name)) (sub : Bool) (ti : TableInfo)
    (h : resolveTable c parts alias sub = some ti) :
    ti.aliases = match alias with
      | some a => [a.map lower]
      | none => (List.range parts.length).map fun i => (parts.drop i).map lower := by
  cases alias <;>
  · simp only [resolveTable] at h
    split at h
    · simp at h
    · simp only [Option.some.injEq] at h; subst h; rfl

/-- a sub-select operand is never refused, even without a default namespace -/
theorem resolveTable_sub (c : Catalog) (parts : List Name) (alias : Option (List Name)) :
    (resolveTable c parts alias true).isSome = true := by
  simp [resolveTable]

theorem resolveSimple_again (c : Catalog) (parts : List Name) (hd : defaultOk c = true) (hne : parts ≠ [])
    (i : Name) (t : List Name) (h : resolveSimple c parts = some (i, t)) :
    ∃ t0 ts, t = t0 :: ts ∧ resolveSimple c (i :: t0 :: ts) = some (i, t0 :: ts) ∧
      stripParts i (i :: t0 :: ts) false = t0 :: ts ∧ stripParts i parts false = t0 :: ts := by
  match parts, hne with
  | [p], _ =>
    simp only [resolveSimple] at h
    cases hdn : c.defaultNs with
    | none => simp [hdn] at h
    | some d =>
      simp only [defaultOk, hdn, Bool.and_eq_true, decide_eq_true_eq] at hd
      simp only [hdn, Option.map_some, Option.some.injEq, Prod.mk.injEq] at h
      refine ⟨p, [], h.2.symm, ?_, ?_, ?_⟩
      · rw [← h.1]; simp [resolveSimple, hd.1, hd.2]
      · rw [← h.1]; simp [stripParts, identLen, hd.2]
      · simp [stripParts, identLen]
  | p :: q :: r, _ =>
    simp only [resolveSimple] at h
    split at h
    · rename_i hp
      simp only [Option.some.injEq, Prod.mk.injEq] at h
      refine ⟨q, r, h.2.symm, ?_, ?_, ?_⟩
      · rw [← h.1]; simp [resolveSimple, lower_idem, hp]
      · rw [← h.1]; simp [stripParts, identLen, lower_idem]
      · rw [← h.1]; simp [stripParts, identLen]
    · rename_i hp
      cases hdn : c.defaultNs with
      | none => simp [hdn] at h
      | some d =>
        simp only [defaultOk, hdn, Bool.and_eq_true, decide_eq_true_eq] at hd
        simp only [hdn, Option.map_some, Option.some.injEq, Prod.mk.injEq] at h
        have hpd : lower p ≠ d := fun e => hp (e ▸ hd.1)
        refine ⟨p, q :: r, h.2.symm, ?_, ?_, ?_⟩
        · rw [← h.1]; simp [resolveSimple, hd.1, hd.2]
        · rw [← h.1]; simp [stripParts, identLen, hd.2]
        · rw [← h.1]; simp [stripParts, identLen, hpd]

theorem route_of_resolver_eq (rj) (c : Catalog) (parts : List Name) (hd : defaultOk c = true)
    (hne : parts ≠ []) (h : rj c parts = resolveSimple c parts) :
    routeJoinOperandWith rj c parts = routeSimple c parts := by
  unfold routeJoinOperandWith routeSimple
  rw [h]
  cases hr : resolveSimple c parts with
  | none => rfl
  | some x =>
    obtain ⟨i, t⟩ := x
    obtain ⟨t0, ts, rfl, h2, h3, h4⟩ := resolveSimple_again c parts hd hne i (t) hr
    simp [h2, h3, h4]

end MindsVerif.Route

namespace MindsVerif.Route
/-! ### predictors -/

theorem getPredictor_version (c : Catalog) (pre : List Name) (name v : Name) (hv : isDigitStr v = true) :
    getPredictor c (pre ++ [name, v]) =
      (lookupModel c (nsOf c pre.reverse) name).map fun info => ⟨info.project, name, some v⟩ := by
  simp [getPredictor, getPredictorR, splitVersion, hv]

theorem getPredictor_noversion (c : Catalog) (pre : List Name) (name : Name) (hn : isDigitStr name = false) :
    getPredictor c (pre ++ [name]) =
      (lookupModel c (nsOf c pre.reverse) name).map fun info => ⟨info.project, name, none⟩ := by
  cases hp : pre.reverse with
  | nil => simp [getPredictor, getPredictorR, splitVersion, hp]
  | cons a r => simp [getPredictor, getPredictorR, splitVersion, hp, hn]

theorem predictorStepSimple_spec (c : Catalog) (parts : List Name) (ns : Name) (ps : List Name)
    (h : predictorStepSimple c parts = some (ns, ps)) :
    ∃ v, getPredictor c parts = some v ∧ v.project = some ns ∧ ps = v.name :: v.version.toList := by
  unfold predictorStepSimple predictorRef at h
  cases hg : getPredictor c parts with
  | none => simp [hg] at h
  | some v =>
    obtain ⟨proj, name, ver⟩ := v
    cases proj with
    | none => simp [hg] at h
    | some pr =>
      simp only [hg, Option.map_some, predictorStepName, Option.some.injEq, Prod.mk.injEq] at h
      exact ⟨_, rfl, by simp [h.1], h.2.symm⟩

theorem isDigitC_lowerC (c : Nat) : isDigitC (lowerC c) = isDigitC c := by
  unfold isDigitC lowerC
  split
  · rename_i h
    have h1 : ¬ (c + 32 ≤ 57) := by omega
    have h2 : ¬ (c ≤ 57) := by omega
    simp [h1, h2]
  · rfl

theorem isDigitStr_lower (n : Name) : isDigitStr (lower n) = isDigitStr n := by
  unfold isDigitStr lower
  congr 1
  · cases n <;> simp
  · induction n with
    | nil => rfl
    | cons a n ih => simp [List.all_cons, isDigitC_lowerC] at ih ⊢; rw [ih]

theorem lowerC_digit (c : Nat) (h : isDigitC c = true) : lowerC c = c := by
  unfold isDigitC at h; unfold lowerC
  simp only [Bool.and_eq_true, decide_eq_true_eq] at h
  split <;> omega

theorem lower_digits (n : Name) (h : n.all isDigitC = true) : lower n = n := by
  induction n with
  | nil => rfl
  | cons a n ih =>
    simp only [List.all_cons, Bool.and_eq_true] at h
    simp only [lower, List.map_cons, List.cons.injEq]
    exact ⟨lowerC_digit a h.1, ih h.2⟩

theorem digits_eq_of_lower_eq (v v' : Name) (hv : isDigitStr v = true) (h : lower v = lower v') : v = v' := by
  have hv' : isDigitStr v' = true := by rw [← isDigitStr_lower, ← h, isDigitStr_lower]; exact hv
  unfold isDigitStr at hv hv'
  simp only [Bool.and_eq_true] at hv hv'
  rw [← lower_digits v hv.2, ← lower_digits v' hv'.2, h]

theorem lower_dotted (a b : Name) : lower (dotted a b) = dotted (lower a) (lower b) := by
  simp [lower, dotted, lowerC, dot]

theorem lookupModel_lower (c : Catalog) (ns ns' : Option Name) (n n' : Name)
    (h1 : ns.map lower = ns'.map lower) (h2 : lower n = lower n') :
    lookupModel c ns n = lookupModel c ns' n' := by
  unfold lookupModel
  cases ns <;> cases ns' <;> simp at h1
  · simp [h2]
  · simp [lower_dotted, h1, h2]

/-- the routing-relevant part of a predictor view: project and version -/
def viewKey (v : PredView) : Option Name × Option Name := (v.project, v.version)

theorem getPredictorR_lower (c : Catalog) (a b : List Name) (h : a.map lower = b.map lower) :
    (getPredictorR c a).map viewKey = (getPredictorR c b).map viewKey := by
  have hns : ∀ r r' : List Name, r.map lower = r'.map lower → (nsOf c r).map lower = (nsOf c r').map lower := by
    intro r r' hr
    cases r <;> cases r' <;> simp [nsOf] at hr ⊢
    exact hr.1
  match a, b, h with
  | [], [], _ => rfl
  | [x], [y], h =>
    simp only [List.map_cons, List.map_nil, List.cons.injEq, and_true] at h
    simp only [getPredictorR, splitVersion, nsOf]
    rw [lookupModel_lower c c.defaultNs c.defaultNs x y rfl h]
    simp [Option.map_map, Function.comp_def, viewKey]
  | v :: n :: r, v' :: n' :: r', h =>
    simp only [List.map_cons, List.cons.injEq] at h
    obtain ⟨hv, hn, hr⟩ := h
    have hd : isDigitStr v' = isDigitStr v := by rw [← isDigitStr_lower v', ← hv, isDigitStr_lower]
    simp only [getPredictorR, splitVersion, hd]
    cases hdv : isDigitStr v with
    | true =>
      have : v = v' := digits_eq_of_lower_eq v v' hdv hv
      subst this
      simp only [if_true]
      rw [lookupModel_lower c _ _ n n' (hns r r' hr) hn]
      simp [Option.map_map, Function.comp_def, viewKey]
    | false =>
      simp only [Bool.false_eq_true, if_false]
      rw [lookupModel_lower c (nsOf c (n :: r)) (nsOf c (n' :: r')) v v' (by simp [nsOf, hn]) hv]
      simp [Option.map_map, Function.comp_def, viewKey]
  | [], _ :: _, h => simp at h
  | _ :: _, [], h => simp at h
  | [_], _ :: _ :: _, h => simp at h
  | _ :: _ :: _, [_], h => simp at h

theorem getPredictor_lower (c : Catalog) (a b : List Name) (h : a.map lower = b.map lower) :
    (getPredictor c a).map viewKey = (getPredictor c b).map viewKey := by
  unfold getPredictor
  apply getPredictorR_lower
  rw [List.map_reverse, List.map_reverse, h]

end MindsVerif.Route
