import MindsVerif.Lemmas.RouteWalk
/-! `get_query_info` / `check_single_integration`: both directions of the decision, for the code before 0e75382
(`skip = false`) and as it is now, with bare CTE names skipped (`skip = true`). -/
namespace MindsVerif.Route

theorem mem_insertSet_self (x : Name) (s : List Name) : x ∈ insertSet x s := by
  unfold insertSet; split <;> simp [*]

theorem mem_insertSet_of_mem (x y : Name) (s : List Name) (h : y ∈ s) : y ∈ insertSet x s := by
  unfold insertSet; split <;> simp [*]

/-- the item is looked at by `find_objects` (not a skipped CTE reference) -/
def counted (skip : Bool) (ctes : List Name) : Item → Bool
  | .table parts => !(skip && isCteRef ctes parts)
  | _ => true

/-- the item is a table that `resolve_database_table` sends to `i`, or a skipped CTE reference -/
def itemFine (skip : Bool) (c : Catalog) (ctes : List Name) (i : Name) (it : Item) : Prop :=
  ∃ parts, it = .table parts ∧
    ((skip = true ∧ isCteRef ctes parts = true) ∨ ∃ rest, resolveSimple c parts = some (i, rest))

/-- every visited item is a table that `resolve_database_table` sends to `i` -/
def allResolveTo (c : Catalog) (i : Name) (items : List Item) : Prop :=
  ∀ it ∈ items, ∃ parts rest, it = .table parts ∧ resolveSimple c parts = some (i, rest)

theorem queryInfoFrom_single (skip : Bool) (c : Catalog) (ctes : List Name) (i : Name) (hi : i ∉ c.projects) :
    ∀ (items : List Item) (qi : QueryInfo), (∀ it ∈ items, itemFine skip c ctes i it) →
      qi.mdbEntities = 0 → qi.userFunctions = 0 → (qi.integrations = [] ∨ qi.integrations = [i]) →
      ∃ p', queryInfoFrom skip c ctes qi items =
        some ⟨0, if items.any (counted skip ctes) = true then [i] else qi.integrations, p', 0⟩ := by
  intro items
  induction items with
  | nil =>
    intro qi _ h1 h2 _
    refine ⟨qi.predictors, ?_⟩
    cases qi; simp_all [queryInfoFrom]
  | cons it r ih =>
    intro qi hall h1 h2 h3
    obtain ⟨parts, rfl, hcase⟩ := hall it (by simp)
    have hr : ∀ x ∈ r, itemFine skip c ctes i x := fun x hx => hall x (by simp [hx])
    by_cases hsk : (skip && isCteRef ctes parts) = true
    · obtain ⟨p', hq⟩ := ih qi hr h1 h2 h3
      refine ⟨p', ?_⟩
      simp only [queryInfoFrom, infoStep, hsk, if_true, hq, List.any_cons, counted, Bool.not_true, Bool.false_or]
    · have hsk' : (skip && isCteRef ctes parts) = false := by simpa using hsk
      obtain ⟨rest, hres⟩ : ∃ rest, resolveSimple c parts = some (i, rest) := by
        rcases hcase with ⟨h1', h2'⟩ | h
        · simp [h1', h2'] at hsk'
        · exact h
      have hins : insertSet i qi.integrations = [i] := by
        rcases h3 with h | h <;> simp [h, insertSet]
      simp only [queryInfoFrom, infoStep, hsk', Bool.false_eq_true, if_false, hres, hi, List.any_cons, counted,
        Bool.not_false, Bool.true_or, if_true]
      by_cases hp : isPredictor c parts = true
      · simp only [hp, if_true]
        obtain ⟨p', hq⟩ := ih { qi with predictors := qi.predictors + 1, integrations := insertSet i qi.integrations }
          hr h1 h2 (Or.inr hins)
        refine ⟨p', ?_⟩
        rw [hq]; simp only [hins]; split <;> simp
      · simp only [hp, Bool.false_eq_true, if_false]
        obtain ⟨p', hq⟩ := ih { qi with integrations := insertSet i qi.integrations } hr h1 h2 (Or.inr hins)
        refine ⟨p', ?_⟩
        rw [hq]; simp only [hins]; split <;> simp

/-- T11.3, decision part: a query whose visited items are all tables of one data integration `i`
(SQL-capable, not files/views) — or, with the repaired `get_query_info`, bare CTE names — is sent to `i` -/
theorem checkSingle_of_fine (skip : Bool) (c : Catalog) (ctes : List Name) (i : Name) (items : List Item)
    (hne : items.any (counted skip ctes) = true) (hall : ∀ it ∈ items, itemFine skip c ctes i it)
    (hi : i ∉ c.projects) (hf : i ≠ n!"files") (hv : i ≠ n!"views") (hapi : c.classType i ≠ some n!"api")
    (hcap : cteCaptures ctes items = false) :
    checkSingle skip c ctes items = some i := by
  obtain ⟨p', hq⟩ := queryInfoFrom_single skip c ctes i hi items ⟨0, [], 0, 0⟩ hall rfl rfl (Or.inl rfl)
  simp only [checkSingle, queryInfo, hq, hne, if_true]
  simp [hf, hv, hapi, hcap]

theorem checkSingle_of_single (c : Catalog) (ctes : List Name) (i : Name) (items : List Item)
    (hne : items ≠ []) (hall : allResolveTo c i items) (hi : i ∉ c.projects)
    (hf : i ≠ n!"files") (hv : i ≠ n!"views") (hapi : c.classType i ≠ some n!"api")
    (hcap : cteCaptures ctes items = false) :
    checkSingle false c ctes items = some i := by
  apply checkSingle_of_fine false c ctes i items ?_ ?_ hi hf hv hapi hcap
  · cases items with
    | nil => exact absurd rfl hne
    | cons a r =>
      obtain ⟨parts, rest, rfl, _⟩ := hall a (by simp)
      simp [counted]
  · intro it hit
    obtain ⟨parts, rest, rfl, hr⟩ := hall it hit
    exact ⟨parts, rfl, Or.inr ⟨rest, hr⟩⟩

/-! converse -/

def itemOk (skip : Bool) (c : Catalog) (ctes : List Name) (qi : QueryInfo) : Item → Prop
  | .udf => qi.userFunctions > 0
  | .native => qi.mdbEntities > 0
  | .table parts => (skip = true ∧ isCteRef ctes parts = true) ∨
      ∃ integ rest, resolveSimple c parts = some (integ, rest) ∧
      ((integ ∈ c.projects ∧ ((skip = false ∧ joinDots parts ∈ ctes) ∨ qi.mdbEntities > 0)) ∨
       (integ ∉ c.projects ∧ integ ∈ qi.integrations))

def infoLe (a b : QueryInfo) : Prop :=
  a.mdbEntities ≤ b.mdbEntities ∧ a.userFunctions ≤ b.userFunctions ∧ ∀ x ∈ a.integrations, x ∈ b.integrations

theorem infoLe_refl (a : QueryInfo) : infoLe a a := ⟨Nat.le_refl _, Nat.le_refl _, fun _ hx => hx⟩

theorem infoLe_trans {a b c : QueryInfo} (h1 : infoLe a b) (h2 : infoLe b c) : infoLe a c :=
  ⟨Nat.le_trans h1.1 h2.1, Nat.le_trans h1.2.1 h2.2.1, fun x hx => h2.2.2 x (h1.2.2 x hx)⟩

theorem itemOk_mono (skip : Bool) (c : Catalog) (ctes : List Name) {a b : QueryInfo} (h : infoLe a b) (it : Item)
    (hok : itemOk skip c ctes a it) : itemOk skip c ctes b it := by
  cases it with
  | udf => exact Nat.lt_of_lt_of_le hok h.2.1
  | native => exact Nat.lt_of_lt_of_le hok h.1
  | table parts =>
    rcases hok with hs | ⟨integ, rest, hr, hcase⟩
    · exact Or.inl hs
    · refine Or.inr ⟨integ, rest, hr, ?_⟩
      rcases hcase with ⟨hp, hc | hm⟩ | ⟨hp, hm⟩
      · exact Or.inl ⟨hp, Or.inl hc⟩
      · exact Or.inl ⟨hp, Or.inr (Nat.lt_of_lt_of_le hm h.1)⟩
      · exact Or.inr ⟨hp, h.2.2 _ hm⟩

theorem infoStep_spec (skip : Bool) (c : Catalog) (ctes : List Name) (qi qi1 : QueryInfo) (it : Item)
    (h : infoStep skip c ctes qi it = some qi1) : infoLe qi qi1 ∧ itemOk skip c ctes qi1 it := by
  cases it with
  | udf =>
    simp only [infoStep, Option.some.injEq] at h; subst h
    exact ⟨⟨Nat.le_refl _, Nat.le_succ _, fun _ hx => hx⟩, Nat.succ_pos _⟩
  | native =>
    simp only [infoStep, Option.some.injEq] at h; subst h
    exact ⟨⟨Nat.le_succ _, Nat.le_refl _, fun _ hx => hx⟩, Nat.succ_pos _⟩
  | table parts =>
    simp only [infoStep] at h
    by_cases hsk : (skip && isCteRef ctes parts) = true
    · simp only [hsk, if_true, Option.some.injEq] at h; subst h
      simp only [Bool.and_eq_true] at hsk
      exact ⟨infoLe_refl _, Or.inl hsk⟩
    · simp only [hsk, Bool.false_eq_true, if_false] at h
      cases hr : resolveSimple c parts with
      | none => simp [hr] at h
      | some x =>
        obtain ⟨integ, rest⟩ := x
        simp only [hr] at h
        by_cases hp : integ ∈ c.projects
        · simp only [hp, if_true, Option.some.injEq] at h
          by_cases hc : (!skip && decide (joinDots parts ∈ ctes)) = true
          · simp only [hc, if_true] at h; subst h
            simp only [Bool.and_eq_true, Bool.not_eq_true', decide_eq_true_eq] at hc
            refine ⟨?_, Or.inr ⟨integ, rest, hr, Or.inl ⟨hp, Or.inl hc⟩⟩⟩
            split <;> exact infoLe_refl _
          · simp only [hc, Bool.false_eq_true, if_false] at h; subst h
            refine ⟨?_, Or.inr ⟨integ, rest, hr, Or.inl ⟨hp, Or.inr (Nat.succ_pos _)⟩⟩⟩
            split <;> exact ⟨Nat.le_succ _, Nat.le_refl _, fun _ hx => hx⟩
        · simp only [hp, if_false, Option.some.injEq] at h; subst h
          refine ⟨?_, Or.inr ⟨integ, rest, hr, Or.inr ⟨hp, mem_insertSet_self _ _⟩⟩⟩
          split <;> exact ⟨Nat.le_refl _, Nat.le_refl _, fun _ hx => mem_insertSet_of_mem _ _ _ hx⟩

theorem queryInfoFrom_spec (skip : Bool) (c : Catalog) (ctes : List Name) :
    ∀ (items : List Item) (qi qi' : QueryInfo), queryInfoFrom skip c ctes qi items = some qi' →
      infoLe qi qi' ∧ ∀ it ∈ items, itemOk skip c ctes qi' it := by
  intro items
  induction items with
  | nil =>
    intro qi qi' h
    simp only [queryInfoFrom, Option.some.injEq] at h; subst h
    exact ⟨infoLe_refl _, by simp⟩
  | cons it r ih =>
    intro qi qi' h
    simp only [queryInfoFrom] at h
    cases hs : infoStep skip c ctes qi it with
    | none => simp [hs] at h
    | some qi1 =>
      simp only [hs] at h
      obtain ⟨hle1, hok1⟩ := infoStep_spec skip c ctes qi qi1 it hs
      obtain ⟨hle2, hok2⟩ := ih qi1 qi' h
      refine ⟨infoLe_trans hle1 hle2, ?_⟩
      intro x hx
      simp only [List.mem_cons] at hx
      rcases hx with rfl | hx
      · exact itemOk_mono skip c ctes hle2 _ hok1
      · exact hok2 x hx

/-- what a positive pushdown decision guarantees about every *visited* item -/
def pushedOk (skip : Bool) (c : Catalog) (ctes : List Name) (i : Name) (it : Item) : Prop :=
  ∃ parts, it = .table parts ∧ ((skip = true ∧ isCteRef ctes parts = true) ∨
    ∃ integ rest, resolveSimple c parts = some (integ, rest) ∧
      ((integ = i ∧ i ∉ c.projects) ∨ (integ ∈ c.projects ∧ skip = false ∧ joinDots parts ∈ ctes)))

theorem checkSingle_sound (skip : Bool) (c : Catalog) (ctes : List Name) (items : List Item) (i : Name)
    (h : checkSingle skip c ctes items = some i) :
    (∀ it ∈ items, pushedOk skip c ctes i it) ∧ i ≠ n!"files" ∧ i ≠ n!"views" ∧ c.classType i ≠ some n!"api" ∧
      cteCaptures ctes items = false := by
  unfold checkSingle at h
  cases hq : queryInfo skip c ctes items with
  | none => simp [hq] at h
  | some qi =>
    obtain ⟨m, ints, p, u⟩ := qi
    simp only [hq] at h
    split at h
    · rename_i j _ heq
      simp only [Option.some.injEq, QueryInfo.mk.injEq] at heq
      obtain ⟨rfl, rfl, _, rfl⟩ := heq
      split at h
      · rename_i hcond
        simp only [Option.some.injEq] at h; subst h
        refine ⟨?_, hcond.1, hcond.2.1, hcond.2.2.1, hcond.2.2.2⟩
        obtain ⟨_, hall⟩ := queryInfoFrom_spec skip c ctes items _ _ hq
        intro it hit
        have := hall it hit
        cases it with
        | udf => exact absurd this (by simp [itemOk])
        | native => exact absurd this (by simp [itemOk])
        | table parts =>
          refine ⟨parts, rfl, ?_⟩
          rcases this with hs | ⟨integ, rest, hr, hcase⟩
          · exact Or.inl hs
          · refine Or.inr ⟨integ, rest, hr, ?_⟩
            rcases hcase with ⟨hp, hc | hm⟩ | ⟨hp, hm⟩
            · exact Or.inr ⟨hp, hc.1, hc.2⟩
            · simp at hm
            · simp only [List.mem_singleton] at hm
              subst hm
              exact Or.inl ⟨rfl, hp⟩
      · simp at h
    · simp at h

end MindsVerif.Route
