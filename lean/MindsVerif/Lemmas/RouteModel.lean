import MindsVerif.Lemmas.Route
/-! The join path applies a model in the namespace its *name* resolves to (`resolve_table`); this file
proves that this is the record's own project (`integration_name`) — the missing link of T10.4. -/
namespace MindsVerif.Route

theorem lookup_mem {β} (k : Name) : ∀ (l : List (Name × β)) (v : β), lookup k l = some v → (k, v) ∈ l
  | [], _, h => by simp [lookup] at h
  | (k', v') :: r, v, h => by
    simp only [lookup] at h
    split at h
    · rename_i hk
      simp only [Option.some.injEq] at h
      subst hk; subst h; simp
    · exact List.mem_cons_of_mem _ (lookup_mem k r v h)

theorem lowerC_eq_dot (c : Nat) : lowerC c = dot ↔ c = dot := by
  unfold lowerC dot; split <;> omega

theorem dot_mem_lower (n : Name) : dot ∈ lower n ↔ dot ∈ n := by
  induction n with
  | nil => simp [lower]
  | cons a n ih =>
    simp only [lower, List.map_cons, List.mem_cons] at ih ⊢
    rw [ih]
    constructor
    · rintro (h | h)
      · exact Or.inl ((lowerC_eq_dot a).mp h.symm).symm
      · exact Or.inr h
    · rintro (h | h)
      · exact Or.inl ((lowerC_eq_dot a).mpr h.symm).symm
      · exact Or.inr h

/-- splitting at the first dot is unambiguous -/
theorem dotted_inj_left : ∀ (a a' b b' : Name), dot ∉ a → dot ∉ a' → dotted a b = dotted a' b' → a = a'
  | [], [], _, _, _, _, _ => rfl
  | [], x :: a', b, b', _, h', h => by
    simp only [dotted, List.nil_append, List.cons_append, List.cons.injEq] at h
    exact absurd (by simp [h.1]) h'
  | x :: a, [], b, b', h0, _, h => by
    simp only [dotted, List.nil_append, List.cons_append, List.cons.injEq] at h
    exact absurd (by simp [h.1]) h0
  | x :: a, y :: a', b, b', h0, h', h => by
    simp only [dotted, List.cons_append, List.cons.injEq] at h
    simp only [List.mem_cons, not_or] at h0 h'
    rw [h.1, dotted_inj_left a a' b b' h0.2 h'.2 h.2]

/-- every predictor record carries a project, is filed under `lower "project.name"`, and its project is a
known project of the catalog -/
def wfPreds (c : Catalog) : Prop :=
  ∀ kv ∈ c.predictors, ∃ P n, kv.2.project = some P ∧ kv.1 = lower (dotted P n) ∧ lower P ∈ c.projects

def wfSt (st : List (Name × PredInfo) × List Name) : Prop :=
  ∀ kv ∈ st.1, ∃ P n, kv.2.project = some P ∧ kv.1 = lower (dotted P n) ∧ lower P ∈ st.2

theorem wfSt_step (pns : Name) (st) (p : PredSpec) (h : wfSt st) : wfSt (predStepList pns st p) := by
  intro kv hkv
  simp only [predStepList, List.mem_cons] at hkv
  rcases hkv with rfl | hkv
  · exact ⟨_, p.name, rfl, rfl, by simp [predStepList]⟩
  · obtain ⟨P, n, h1, h2, h3⟩ := h kv hkv
    exact ⟨P, n, h1, h2, by simp [predStepList, h3]⟩

theorem wfSt_foldl (pns : Name) : ∀ (ps : List PredSpec) st, wfSt st → wfSt (ps.foldl (predStepList pns) st)
  | [], _, h => h
  | p :: ps, st, h => wfSt_foldl pns ps _ (wfSt_step pns st p h)

/-- the constructor builds such catalogs from list metadata and from legacy dicts without dotted keys -/
theorem wfPreds_mkCatalog (i : CatalogIn)
    (h : match i.preds with
      | .none => True
      | .list _ => True
      | .legacy ps => ∀ p ∈ ps, dot ∉ p.name) : wfPreds (mkCatalog i) := by
  have base : ∀ projs, wfSt (([] : List (Name × PredInfo)), projs) := fun _ kv hkv => by simp at hkv
  cases hp : i.preds with
  | none => intro kv hkv; simp [mkCatalog, hp] at hkv
  | list ps =>
    have := wfSt_foldl (predNs i.predictorNs) ps _ (base (n!"mindsdb" :: ((i.integrations.getD []).foldl integStep ([], [])).2))
    simpa [wfPreds, wfSt, mkCatalog, hp] using this
  | legacy ps =>
    rw [hp] at h
    have e := mkCatalog_legacy_list i ps h
    have e' : mkCatalog i = mkCatalog { i with preds := .list ps } := by
      rw [← e]; congr; cases i; simp_all
    rw [e']
    have := wfSt_foldl (predNs i.predictorNs) ps _ (base (n!"mindsdb" :: ((i.integrations.getD []).foldl integStep ([], [])).2))
    simpa [wfPreds, wfSt, mkCatalog] using this

/-- a record found under namespace `ns` belongs to the project that `ns` spells -/
theorem lookupModel_project (c : Catalog) (hw : wfPreds c) (ns name : Name) (info : PredInfo) (P : Name)
    (h : lookupModel c (some ns) name = some info) (hP : info.project = some P)
    (hns : dot ∉ ns) (hPd : dot ∉ P) : lower ns = lower P ∧ lower ns ∈ c.projects := by
  unfold lookupModel at h
  obtain ⟨P', n, h1, h2, h3⟩ := hw _ (lookup_mem _ _ _ h)
  simp only at h1 h2
  rw [hP] at h1
  simp only [Option.some.injEq] at h1
  subst h1
  rw [lower_dotted, lower_dotted] at h2
  have := dotted_inj_left (lower ns) (lower P) _ _ (fun h => hns ((dot_mem_lower ns).mp h)) (fun h => hPd ((dot_mem_lower P).mp h)) h2
  exact ⟨this, this ▸ h3⟩

/-- T10.4, the missing link, qualified reference `q.name[.version]`: the database the name resolves to
(which the join path uses as the apply step's namespace) is the record's own project, lower-cased -/
theorem model_qualified_resolves_to_project (c : Catalog) (hw : wfPreds c) (q name : Name) (ver : Option Name)
    (hv : ∀ v, ver = some v → isDigitStr v = true) (hn : isDigitStr name = false)
    (view : PredView) (P : Name)
    (hg : getPredictor c (q :: name :: ver.toList) = some view) (hP : view.project = some P)
    (hq : dot ∉ q) (hPd : dot ∉ P) :
    resolveSimple c (q :: name :: ver.toList) = some (lower P, name :: ver.toList) := by
  have key : ∃ info, lookupModel c (some q) name = some info ∧ info.project = some P := by
    cases ver with
    | none =>
      have := getPredictor_noversion c [q] name hn
      simp only [List.cons_append, List.nil_append, List.reverse_cons, List.reverse_nil, nsOf] at this
      simp only [Option.toList] at hg
      rw [this] at hg
      cases hl : lookupModel c (some q) name with
      | none => simp [hl] at hg
      | some info =>
        simp only [hl, Option.map_some, Option.some.injEq] at hg
        exact ⟨info, rfl, by rw [← hg] at hP; exact hP⟩
    | some v =>
      have := getPredictor_version c [q] name v (hv v rfl)
      simp only [List.cons_append, List.nil_append, List.reverse_cons, List.reverse_nil, nsOf] at this
      simp only [Option.toList] at hg
      rw [this] at hg
      cases hl : lookupModel c (some q) name with
      | none => simp [hl] at hg
      | some info =>
        simp only [hl, Option.map_some, Option.some.injEq] at hg
        exact ⟨info, rfl, by rw [← hg] at hP; exact hP⟩
  obtain ⟨info, hl, hip⟩ := key
  obtain ⟨e, hm⟩ := lookupModel_project c hw q name info P hl hip hq hPd
  have hdb : lower q ∈ c.databases := by simp [Catalog.databases, hm]
  rw [e] at hdb
  simp [resolveSimple, hdb, e]

/-- the same for an unqualified reference `name[.version]` under a default namespace `d` -/
theorem model_unqualified_resolves_to_project (c : Catalog) (hw : wfPreds c) (d name : Name) (ver : Option Name)
    (hd : c.defaultNs = some d) (hdl : lower d = d)
    (hv : ∀ v, ver = some v → isDigitStr v = true ∧ lower name ∉ c.databases) (hn : isDigitStr name = false)
    (view : PredView) (P : Name)
    (hg : getPredictor c (name :: ver.toList) = some view) (hP : view.project = some P)
    (hdd : dot ∉ d) (hPd : dot ∉ P) :
    resolveSimple c (name :: ver.toList) = some (lower P, name :: ver.toList) := by
  have key : ∃ info, lookupModel c (some d) name = some info ∧ info.project = some P := by
    cases ver with
    | none =>
      have := getPredictor_noversion c [] name hn
      simp only [List.nil_append, List.reverse_nil, nsOf, hd] at this
      simp only [Option.toList] at hg
      rw [this] at hg
      cases hl : lookupModel c (some d) name with
      | none => simp [hl] at hg
      | some info =>
        simp only [hl, Option.map_some, Option.some.injEq] at hg
        exact ⟨info, rfl, by rw [← hg] at hP; exact hP⟩
    | some v =>
      have := getPredictor_version c [] name v (hv v rfl).1
      simp only [List.nil_append, List.reverse_nil, nsOf, hd] at this
      simp only [Option.toList] at hg
      rw [this] at hg
      cases hl : lookupModel c (some d) name with
      | none => simp [hl] at hg
      | some info =>
        simp only [hl, Option.map_some, Option.some.injEq] at hg
        exact ⟨info, rfl, by rw [← hg] at hP; exact hP⟩
  obtain ⟨info, hl, hip⟩ := key
  obtain ⟨e, _⟩ := lookupModel_project c hw d name info P hl hip hdd hPd
  rw [hdl] at e
  cases ver with
  | none => simp [resolveSimple, hd, e]
  | some v => simp [resolveSimple, hd, e, (hv v rfl).2]

end MindsVerif.Route
