import MindsVerif.Model.RouteNorm
import MindsVerif.Lemmas.RouteInfo
/-! The routing model with the case-mapping as a parameter: at `lower` it is the model of `Model/Route.lean`; for
EVERY normaliser, used at all sites alike, the pushdown decision and the cut are consistent. -/
namespace MindsVerif.Route

/-! ### at `lower` the generic model is the model of `Model/Route.lean` -/

theorem integStepG_lower : integStepG lower = integStep := by
  funext st s; cases s <;> rfl

theorem predNsG_lower : predNsG lower = predNs := by
  funext p; cases p <;> rfl

theorem predStepListG_lower : predStepListG lower = predStepList := by
  funext pns st p; rfl

theorem predStepLegacyG_lower : predStepLegacyG lower = predStepLegacy := by
  funext pns st p; rfl

theorem mkCatalogG_lower : mkCatalogG lower = mkCatalog := by
  funext i
  simp only [mkCatalogG, mkCatalog, integStepG_lower, predNsG_lower, predStepListG_lower, predStepLegacyG_lower]
  cases i.preds <;> rfl

theorem resolveSimpleG_lower : resolveSimpleG lower = resolveSimple := by
  funext c parts
  match parts with
  | [] => rfl
  | [_] => rfl
  | _ :: _ :: _ => rfl

theorem isPredictorG_lower : isPredictorG lower = isPredictor := by
  funext c parts; rfl

theorem stripPartsG_lower : stripPartsG lower = stripParts := by
  funext db parts star
  cases parts <;> rfl

theorem stripPartsNG_lower : stripPartsNG lower = stripPartsN := by
  funext db names isTab parts star
  simp only [stripPartsNG, stripPartsN, stripPartsG_lower]

theorem stripIdentG_lower : stripIdentG lower = stripIdent := by
  funext db names par s parts star alias
  simp only [stripIdentG, stripIdent, stripPartsNG_lower]
  rfl

mutual
theorem stripG_lower (db : Name) (names : List Name) (par : Par) (s : Slot) :
    ∀ n : Node, stripG lower db names par s n = strip db names par s n
  | .ident parts star alias => by simp [stripG, strip, stripIdentG_lower]
  | .leaf => by simp [stripG, strip]
  | .native => by simp [stripG, strip]
  | .func u ks => by simp [stripG, strip, stripKidsG_lower db names par ks]
  | .scope p ks => by simp [stripG, strip, stripKidsG_lower db names p ks]
  | .plain ks => by simp [stripG, strip, stripKidsG_lower db names par ks]
theorem stripKidsG_lower (db : Name) (names : List Name) (par : Par) :
    ∀ ks : Kids, stripKidsG lower db names par ks = stripKids db names par ks
  | .nil => by simp [stripKidsG, stripKids]
  | .cons s n ks => by
    cases s <;> simp [stripKidsG, stripKids, stripG_lower db names par _ n, stripKidsG_lower db names par ks]
end

theorem infoStepG_lower (c : Catalog) (ctes : List Name) (qi : QueryInfo) (it : Item) :
    infoStepG lower c ctes qi it = infoStep true c ctes qi it := by
  cases it with
  | udf => rfl
  | native => rfl
  | table parts =>
    simp only [infoStepG, infoStep, resolveSimpleG_lower, isPredictorG_lower, Bool.true_and, Bool.not_true,
      Bool.false_and, Bool.false_eq_true, if_false]
    rfl

theorem queryInfoFromG_lower (c : Catalog) (ctes : List Name) :
    ∀ (items : List Item) (qi : QueryInfo), queryInfoFromG lower c ctes qi items = queryInfoFrom true c ctes qi items
  | [], _ => rfl
  | it :: r, qi => by
    simp only [queryInfoFromG, queryInfoFrom, infoStepG_lower]
    cases infoStep true c ctes qi it with
    | none => rfl
    | some qi' => exact queryInfoFromG_lower c ctes r qi'

theorem cteCapturesG_lower : cteCapturesG lower = cteCaptures := by
  funext ctes items; rfl

theorem checkSingleG_lower (c : Catalog) (ctes : List Name) (items : List Item) :
    checkSingleG lower c ctes items = checkSingle true c ctes items := by
  simp only [checkSingleG, checkSingle, queryInfoG, queryInfo, queryInfoFromG_lower, cteCapturesG_lower]
  rfl

theorem checkSingleJoinG_lower (c : Catalog) (ctes : List Name) (items : List Item) :
    checkSingleJoinG lower c ctes items = checkSingleJoin true c ctes items := by
  simp only [checkSingleJoinG, checkSingleJoin, queryInfoG, queryInfo, queryInfoFromG_lower, cteCapturesG_lower]
  rfl

theorem planTopG_lower (names : List Name) (c : Catalog) (ctes : List Name) (q : Node) :
    planTopG lower lower names c ctes q = planTop true names c ctes q := by
  simp only [planTopG, planTop, checkSingleG_lower]
  cases checkSingle true c ctes (visit .arg q) with
  | none => rfl
  | some i => simp [stripG_lower]

/-! ### identifier level: what the resolver answers is what the cut leaves -/

/-- with ONE normaliser: whatever `resolve_database_table` says about a name — database `db`, remaining path
`rest` — the cut for `db` turns the written name into exactly `rest` (the default namespace being a known database) -/
theorem cut_eq_rest (n : Norm) (c : Catalog) (hd : defaultKnown c = true) (parts : List Name) (db : Name)
    (rest : List Name) (h : resolveSimpleG n c parts = some (db, rest)) : stripPartsG n db parts false = rest := by
  match parts with
  | [] =>
    cases hdn : c.defaultNs <;> simp_all [resolveSimpleG, stripPartsG]
  | [p] =>
    cases hdn : c.defaultNs with
    | none => simp [resolveSimpleG, hdn] at h
    | some d =>
      simp only [resolveSimpleG, hdn, Option.map_some, Option.some.injEq, Prod.mk.injEq] at h
      obtain ⟨_, rfl⟩ := h
      simp [stripPartsG, identLen]
  | p :: q :: r =>
    by_cases hp : n p ∈ c.databases
    · simp only [resolveSimpleG, hp, if_true, Option.some.injEq, Prod.mk.injEq] at h
      obtain ⟨rfl, rfl⟩ := h
      simp [stripPartsG, identLen]
    · simp only [resolveSimpleG, hp, if_false] at h
      cases hdn : c.defaultNs with
      | none => simp [hdn] at h
      | some d =>
        simp only [hdn, Option.map_some, Option.some.injEq, Prod.mk.injEq] at h
        obtain ⟨rfl, rfl⟩ := h
        have hdk : d ∈ c.databases := by simpa [defaultKnown, hdn] using hd
        have hne : n p ≠ d := fun e => hp (e ▸ hdk)
        simp [stripPartsG, hne]

/-- and conversely the cut fires on a qualified name only where the resolver finds the database in the catalog -/
theorem cut_only_known (n : Norm) (c : Catalog) (db : Name) (hdb : db ∈ c.databases) (p q : Name) (r : List Name)
    (h : stripPartsG n db (p :: q :: r) false ≠ p :: q :: r) : resolveSimpleG n c (p :: q :: r) = some (db, q :: r) := by
  by_cases hc : n p = db
  · subst hc
    simp [resolveSimpleG, hdb]
  · simp [stripPartsG, hc] at h

/-! ### tree level -/

def cutIdG (nc : Norm) (db : Name) (names : List Name) (x : List Name × Bool × Bool) : List Name × Bool × Bool :=
  (stripPartsNG nc db names x.2.2 x.1 x.2.1, x.2.1, x.2.2)

mutual
theorem visitedIdents_stripG (nc : Norm) (db : Name) (names : List Name) (par : Par) (s : Slot) :
    ∀ n : Node, visitedIdents s (stripG nc db names par s n) = (visitedIdents s n).map (cutIdG nc db names)
  | .ident parts star alias => by simp [stripG, visitedIdents, stripIdentG, cutIdG]
  | .leaf => by simp [stripG, visitedIdents]
  | .native => by simp [stripG, visitedIdents]
  | .func u ks => by simp [stripG, visitedIdents, visitedIdentsKids_stripG nc db names par ks]
  | .scope p ks => by simp [stripG, visitedIdents, visitedIdentsKids_stripG nc db names p ks]
  | .plain ks => by simp [stripG, visitedIdents, visitedIdentsKids_stripG nc db names par ks]
theorem visitedIdentsKids_stripG (nc : Norm) (db : Name) (names : List Name) (par : Par) :
    ∀ ks : Kids, visitedIdentsKids (stripKidsG nc db names par ks) = (visitedIdentsKids ks).map (cutIdG nc db names)
  | .nil => by simp [stripKidsG, visitedIdentsKids]
  | .cons s n ks => by
    cases s <;>
      simp [stripKidsG, visitedIdentsKids, visitedIdents_stripG nc db names par _ n,
        visitedIdentsKids_stripG nc db names par ks]
end

/-- the table identifiers among the visited identifiers -/
def tabOf (x : List Name × Bool × Bool) : Option (List Name) := if x.2.2 then some x.1 else none

mutual
/-- the tables `find_objects` sees are exactly the identifiers `prepare_integration_select` visits as tables -/
theorem visit_tables (s : Slot) : ∀ n : Node, (visit s n).filterMap tableOf = (visitedIdents s n).filterMap tabOf
  | .ident parts star alias => by
    by_cases h : s = .tbl <;> simp [visit, visitedIdents, h, tableOf, tabOf]
  | .leaf => by simp [visit, visitedIdents]
  | .native => by by_cases h : s = .tbl <;> simp [visit, visitedIdents, h, tableOf]
  | .func u ks => by
    cases u
    · simp [visit, visitedIdents, visitKids_tables ks]
    · simp only [visit, visitedIdents, if_true, List.singleton_append]
      rw [List.filterMap_cons_none (by rfl)]
      exact visitKids_tables ks
  | .scope p ks => by simp [visit, visitedIdents, visitKids_tables ks]
  | .plain ks => by simp [visit, visitedIdents, visitKids_tables ks]
theorem visitKids_tables : ∀ ks : Kids, (visitKids ks).filterMap tableOf = (visitedIdentsKids ks).filterMap tabOf
  | .nil => by simp [visitKids, visitedIdentsKids]
  | .cons s n ks => by
    cases s <;>
      simp [visitKids, visitedIdentsKids, List.filterMap_append, visit_tables _ n, visitKids_tables ks]
end

/-! ### the decision (generic copies of `infoStep_spec` … `checkSingle_sound`, for tables) -/

def itemOkG (nr : Norm) (c : Catalog) (ctes : List Name) (qi : QueryInfo) : Item → Prop
  | .udf => qi.userFunctions > 0
  | .native => qi.mdbEntities > 0
  | .table parts => isCteRef ctes parts = true ∨
      ∃ integ rest, resolveSimpleG nr c parts = some (integ, rest) ∧
      ((integ ∈ c.projects ∧ qi.mdbEntities > 0) ∨ (integ ∉ c.projects ∧ integ ∈ qi.integrations))

theorem itemOkG_mono (nr : Norm) (c : Catalog) (ctes : List Name) {a b : QueryInfo} (h : infoLe a b) (it : Item)
    (hok : itemOkG nr c ctes a it) : itemOkG nr c ctes b it := by
  cases it with
  | udf => exact Nat.lt_of_lt_of_le hok h.2.1
  | native => exact Nat.lt_of_lt_of_le hok h.1
  | table parts =>
    rcases hok with hs | ⟨integ, rest, hr, hcase⟩
    · exact Or.inl hs
    · refine Or.inr ⟨integ, rest, hr, ?_⟩
      rcases hcase with ⟨hp, hm⟩ | ⟨hp, hm⟩
      · exact Or.inl ⟨hp, Nat.lt_of_lt_of_le hm h.1⟩
      · exact Or.inr ⟨hp, h.2.2 _ hm⟩

theorem infoStepG_spec (nr : Norm) (c : Catalog) (ctes : List Name) (qi qi1 : QueryInfo) (it : Item)
    (h : infoStepG nr c ctes qi it = some qi1) : infoLe qi qi1 ∧ itemOkG nr c ctes qi1 it := by
  cases it with
  | udf =>
    simp only [infoStepG, Option.some.injEq] at h; subst h
    exact ⟨⟨Nat.le_refl _, Nat.le_succ _, fun _ hx => hx⟩, Nat.succ_pos _⟩
  | native =>
    simp only [infoStepG, Option.some.injEq] at h; subst h
    exact ⟨⟨Nat.le_succ _, Nat.le_refl _, fun _ hx => hx⟩, Nat.succ_pos _⟩
  | table parts =>
    simp only [infoStepG] at h
    by_cases hsk : isCteRef ctes parts = true
    · simp only [hsk, if_true, Option.some.injEq] at h; subst h
      exact ⟨infoLe_refl _, Or.inl hsk⟩
    · simp only [hsk, Bool.false_eq_true, if_false] at h
      cases hr : resolveSimpleG nr c parts with
      | none => simp [hr] at h
      | some x =>
        obtain ⟨integ, rest⟩ := x
        simp only [hr] at h
        by_cases hp : integ ∈ c.projects
        · simp only [hp, if_true, Option.some.injEq] at h; subst h
          refine ⟨?_, Or.inr ⟨integ, rest, hr, Or.inl ⟨hp, Nat.succ_pos _⟩⟩⟩
          split <;> exact ⟨Nat.le_succ _, Nat.le_refl _, fun _ hx => hx⟩
        · simp only [hp, if_false, Option.some.injEq] at h; subst h
          refine ⟨?_, Or.inr ⟨integ, rest, hr, Or.inr ⟨hp, mem_insertSet_self _ _⟩⟩⟩
          split <;> exact ⟨Nat.le_refl _, Nat.le_refl _, fun _ hx => mem_insertSet_of_mem _ _ _ hx⟩

theorem queryInfoFromG_spec (nr : Norm) (c : Catalog) (ctes : List Name) :
    ∀ (items : List Item) (qi qi' : QueryInfo), queryInfoFromG nr c ctes qi items = some qi' →
      infoLe qi qi' ∧ ∀ it ∈ items, itemOkG nr c ctes qi' it := by
  intro items
  induction items with
  | nil =>
    intro qi qi' h
    simp only [queryInfoFromG, Option.some.injEq] at h; subst h
    exact ⟨infoLe_refl _, by simp⟩
  | cons it r ih =>
    intro qi qi' h
    simp only [queryInfoFromG] at h
    cases hs : infoStepG nr c ctes qi it with
    | none => simp [hs] at h
    | some qi1 =>
      simp only [hs] at h
      obtain ⟨hle1, hok1⟩ := infoStepG_spec nr c ctes qi qi1 it hs
      obtain ⟨hle2, hok2⟩ := ih qi1 qi' h
      refine ⟨infoLe_trans hle1 hle2, ?_⟩
      intro x hx
      simp only [List.mem_cons] at hx
      rcases hx with rfl | hx
      · exact itemOkG_mono nr c ctes hle2 _ hok1
      · exact hok2 x hx

/-- where a table reference of a query pushed to `i` may live: it is a CTE name, or the resolver sends it to the
data integration `i` -/
def belongsG (nr : Norm) (c : Catalog) (ctes : List Name) (i : Name) (parts : List Name) : Prop :=
  isCteRef ctes parts = true ∨ ∃ rest, resolveSimpleG nr c parts = some (i, rest) ∧ i ∉ c.projects

/-- a query-info with no mindsdb entity and the single integration `i`: every visited TABLE belongs to `i`
(whatever the number of user functions — this is all `PlanJoin.check_single_integration` knows) -/
theorem tables_of_info (nr : Norm) (c : Catalog) (ctes : List Name) (items : List Item) (i : Name) (p u : Nat)
    (hq : queryInfoG nr c ctes items = some ⟨0, [i], p, u⟩) :
    ∀ parts, Item.table parts ∈ items → belongsG nr c ctes i parts := by
  obtain ⟨_, hall⟩ := queryInfoFromG_spec nr c ctes items _ _ hq
  intro parts hit
  rcases hall _ hit with hs | ⟨integ, rest, hr, hcase⟩
  · exact Or.inl hs
  · rcases hcase with ⟨_, hm⟩ | ⟨hp, hm⟩
    · simp at hm
    · simp only [List.mem_singleton] at hm
      subst hm
      exact Or.inr ⟨rest, hr, hp⟩

theorem checkSingleJoinG_sound (nr : Norm) (c : Catalog) (ctes : List Name) (items : List Item) (i : Name)
    (h : checkSingleJoinG nr c ctes items = some i) :
    (∀ parts, Item.table parts ∈ items → belongsG nr c ctes i parts) ∧ Item.native ∉ items ∧
      i ≠ n!"files" ∧ i ≠ n!"views" ∧ c.classType i ≠ some n!"api" ∧ cteCapturesG nr ctes items = false := by
  unfold checkSingleJoinG at h
  cases hq : queryInfoG nr c ctes items with
  | none => simp [hq] at h
  | some qi =>
    obtain ⟨m, ints, p, u⟩ := qi
    simp only [hq] at h
    split at h
    · rename_i j _ _ heq
      simp only [Option.some.injEq, QueryInfo.mk.injEq] at heq
      obtain ⟨rfl, rfl, _, _⟩ := heq
      split at h
      · rename_i hcond
        simp only [Option.some.injEq] at h; subst h
        refine ⟨tables_of_info nr c ctes items _ p u hq, ?_, hcond.1, hcond.2.1, hcond.2.2.1, hcond.2.2.2⟩
        intro hn
        have := (queryInfoFromG_spec nr c ctes items _ _ hq).2 _ hn
        simp [itemOkG] at this
      · simp at h
    · simp at h

theorem checkSingleG_sound (nr : Norm) (c : Catalog) (ctes : List Name) (items : List Item) (i : Name)
    (h : checkSingleG nr c ctes items = some i) :
    (∀ parts, Item.table parts ∈ items → belongsG nr c ctes i parts) ∧ Item.native ∉ items ∧ Item.udf ∉ items ∧
      i ≠ n!"files" ∧ i ≠ n!"views" ∧ c.classType i ≠ some n!"api" ∧ cteCapturesG nr ctes items = false := by
  unfold checkSingleG at h
  cases hq : queryInfoG nr c ctes items with
  | none => simp [hq] at h
  | some qi =>
    obtain ⟨m, ints, p, u⟩ := qi
    simp only [hq] at h
    split at h
    · rename_i j _ heq
      simp only [Option.some.injEq, QueryInfo.mk.injEq] at heq
      obtain ⟨rfl, rfl, _, rfl⟩ := heq
      split at h
      · rename_i hcond
        simp only [Option.some.injEq] at h; subst h
        refine ⟨tables_of_info nr c ctes items _ p 0 hq, ?_, ?_, hcond.1, hcond.2.1, hcond.2.2.1, hcond.2.2.2⟩
        · intro hn
          have := (queryInfoFromG_spec nr c ctes items _ _ hq).2 _ hn
          simp [itemOkG] at this
        · intro hn
          have := (queryInfoFromG_spec nr c ctes items _ _ hq).2 _ hn
          simp [itemOkG] at this
      · simp at h
    · simp at h

/-- a positive decision at the top level is a positive decision of the join site as well -/
theorem checkSingleJoinG_of_checkSingleG (nr : Norm) (c : Catalog) (ctes : List Name) (items : List Item) (i : Name)
    (h : checkSingleG nr c ctes items = some i) : checkSingleJoinG nr c ctes items = some i := by
  unfold checkSingleG at h
  unfold checkSingleJoinG
  cases hq : queryInfoG nr c ctes items with
  | none => simp [hq] at h
  | some qi =>
    obtain ⟨m, ints, p, u⟩ := qi
    simp only [hq] at h ⊢
    split at h
    · rename_i j _ heq
      simp only [Option.some.injEq, QueryInfo.mk.injEq] at heq
      obtain ⟨rfl, rfl, _, rfl⟩ := heq
      exact h
    · simp at h

/-- the tables of the tree that the walker visits, as `find_objects` sees them -/
theorem mem_visit_of_visited (s : Slot) (q : Node) (x : List Name × Bool × Bool) (hx : x ∈ visitedIdents s q)
    (ht : x.2.2 = true) : Item.table x.1 ∈ visit s q := by
  have h1 : x.1 ∈ (visitedIdents s q).filterMap tabOf :=
    List.mem_filterMap.mpr ⟨x, hx, by simp [tabOf, ht]⟩
  rw [← visit_tables] at h1
  obtain ⟨it, hit, hto⟩ := List.mem_filterMap.mp h1
  cases it with
  | table p => simp only [tableOf, Option.some.injEq] at hto; subst hto; exact hit
  | native => simp [tableOf] at hto
  | udf => simp [tableOf] at hto

/-- CONSISTENCY with one normaliser at both sites, for either decision site: when the query is sent to `i`, every
table identifier the walker visits (written without `*`) is a CTE name, or the decision site resolved it to
(`i`, `rest`) and the cut site turns it into exactly `rest` -/
theorem pushed_tables_consistent (n : Norm) (names : List Name) (c : Catalog) (hd : defaultKnown c = true)
    (ctes : List Name) (q : Node) (i : Name) (h : checkSingleJoinG n c ctes (visit .arg q) = some i) :
    ∀ x ∈ visitedIdents .arg q, x.2.2 = true → x.2.1 = false →
      isCteRef ctes x.1 = true ∨
      ∃ rest, resolveSimpleG n c x.1 = some (i, rest) ∧ i ∉ c.projects ∧ (cutIdG n i names x).1 = rest := by
  intro x hx ht hs
  rcases (checkSingleJoinG_sound n c ctes _ i h).1 x.1 (mem_visit_of_visited .arg q x hx ht) with hc | ⟨rest, hr, hp⟩
  · exact Or.inl hc
  · refine Or.inr ⟨rest, hr, hp, ?_⟩
    have hk : keepsLocal i names x.2.2 x.1 false = false := by simp [keepsLocal, ht]
    simp only [cutIdG, stripPartsNG, hs, hk, Bool.false_eq_true, if_false]
    exact cut_eq_rest n c hd x.1 i rest hr

/-! ### output names and planner-made aliases -/

theorem getLast_stripPartsNG (nc : Norm) (db : Name) (names : List Name) (b : Bool) (parts : List Name) :
    (stripPartsNG nc db names b parts false).getLast? = parts.getLast? := by
  unfold stripPartsNG; split
  · rfl
  · match parts with
    | [] => rfl
    | [p] => simp [stripPartsG, identLen]
    | p :: q :: r =>
      simp only [stripPartsG]
      split <;> simp [List.getLast?_cons_cons]

/-- the alias `prepare_integration_select` gives to a bare identifier target of a select from one table: ONE part,
the last part of the name verbatim — for every normaliser of the cut -/
theorem alias_exact (nc : Norm) (db : Name) (names : List Name) (parts : List Name) (l : Name)
    (h : parts.getLast? = some l) :
    (stripIdentG nc db names (.sel false) .tgt parts false none).2 = some [l] := by
  simp [stripIdentG, getLast_stripPartsNG, h]

theorem pathPartsGo_nodot (l : Name) (h : dot ∉ l) : ∀ acc : Name, (acc ≠ [] ∨ l ≠ []) →
    pathPartsGo acc l = [acc.reverse ++ l] := by
  induction l with
  | nil =>
    intro acc hne
    have : acc ≠ [] := by simpa using hne
    simp [pathPartsGo, this]
  | cons c r ih =>
    intro acc _
    have hc : c ≠ dot := fun e => h (by simp [e])
    have hr : dot ∉ r := fun e => h (by simp [e])
    simp only [pathPartsGo, hc, if_false]
    rw [ih hr (c :: acc) (Or.inl (by simp))]
    simp

/-- on a non-empty name without dots (and back-quotes) the path-string constructor is the identity … -/
theorem pathParts_nodot (l : Name) (h : dot ∉ l) (hne : l ≠ []) : pathParts l = [l] := by
  simpa [pathParts] using pathPartsGo_nodot l h [] (Or.inr hne)

end MindsVerif.Route
