import MindsVerif.Lemmas.Route
/-! Name-resolution semantics: cutting the integration qualifier preserves what every column
reference denotes (C11, T11.1) — for the cut as it is (`names = []`) and for the alias-aware cut of
fixes/C11_2.diff (`names` = aliases and CTE names of the query). -/
namespace MindsVerif.Route

def cutT (db : Name) (names : List Name) (t : TRef) : TRef := { t with parts := cut db names true t.parts }

theorem cut_tab (db : Name) (names : List Name) (parts : List Name) :
    cut db names true parts = stripParts db parts false := by
  simp [cut, stripPartsN, keepsLocal]

theorem inst_of_okTab (db : Name) (names : List Name) (t : TRef) (h : okTab db t = true) :
    ∃ i, instFed db t = some i ∧ instLocal db (cutT db names t) = some i ∧ i.db = db := by
  obtain ⟨parts, alias⟩ := t
  simp only [okTab] at h
  match parts, h with
  | [n], _ =>
    exact ⟨⟨db, n, alias⟩, by simp [instFed], by simp [instLocal, cutT, cut_tab, stripParts, identLen], rfl⟩
  | [q, n], h =>
    simp only [decide_eq_true_eq] at h
    exact ⟨⟨db, n, alias⟩, by simp [instFed, h], by simp [instLocal, cutT, cut_tab, stripParts, identLen, h], rfl⟩
  | [], h => simp at h
  | _ :: _ :: _ :: _, h => simp at h

def chainOk (db : Name) (ichain : List (List Inst)) : Prop := ∀ sc ∈ ichain, ∀ i ∈ sc, i.db = db

theorem scope_of_okTabs (db : Name) (names : List Name) :
    ∀ tabs : List TRef, tabs.all (okTab db) = true →
      ∃ sc, optAll (instFed db) tabs = some sc ∧ optAll (instLocal db) (tabs.map (cutT db names)) = some sc ∧
        ∀ i ∈ sc, i.db = db := by
  intro tabs
  induction tabs with
  | nil => intro _; exact ⟨[], rfl, rfl, by simp⟩
  | cons t r ih =>
    intro h
    simp only [List.all_cons, Bool.and_eq_true] at h
    obtain ⟨i, h1, h2, h3⟩ := inst_of_okTab db names t h.1
    obtain ⟨sc, g1, g2, g3⟩ := ih h.2
    refine ⟨i :: sc, by simp [optAll, h1, g1], by simp [optAll, h2, g2], ?_⟩
    intro j hj
    simp only [List.mem_cons] at hj
    rcases hj with rfl | hj
    · exact h3
    · exact g3 j hj

theorem cut_getLastD (db : Name) (names : List Name) (b : Bool) (r : List Name) :
    (cut db names b r).getLastD [] = r.getLastD [] := by
  unfold cut stripPartsN
  split
  · rfl
  · match r with
    | [] => rfl
    | [p] => simp [stripParts, identLen]
    | p :: q :: r =>
      simp only [stripParts]
      split <;> simp

theorem matchesCol_cut (db : Name) (names : List Name) (sch : Schema) (i : Inst) (r : List Name)
    (hdb : i.db = db) (hr : okCol db names r = true) :
    matchesCol false sch i (cut db names false r) = matchesCol true sch i r := by
  match r, hr with
  | [], _ => rfl
  | [c], _ => simp [cut, stripPartsN, keepsLocal, stripParts, identLen, matchesCol]
  | [q, c], hr =>
    simp only [okCol, Bool.or_eq_true, decide_eq_true_eq] at hr
    by_cases hn : names.contains db = true
    · have hm : db ∈ names := by simpa using hn
      simp [cut, stripPartsN, keepsLocal, identLen, hm, matchesCol]
    · have hq : lower q ≠ db := by
        rcases hr with h | h
        · exact h
        · exact absurd h hn
      simp [cut, stripPartsN, keepsLocal, stripParts, identLen, matchesCol, hq]
  | [d, q, c], _ =>
    by_cases hd : lower d = db
    · simp [cut, stripPartsN, keepsLocal, stripParts, identLen, hd, matchesCol, hdb]
    · have hd' : ¬ (lower d = i.db) := by rw [hdb]; exact hd
      simp [cut, stripPartsN, keepsLocal, stripParts, identLen, hd, matchesCol, hd']
  | d :: a :: b :: c :: r, _ =>
    by_cases hd : lower d = db
    · cases r <;> simp [cut, stripPartsN, keepsLocal, stripParts, identLen, hd, matchesCol]
    · simp [cut, stripPartsN, keepsLocal, stripParts, identLen, hd, matchesCol]

theorem matchIdx_cut (db : Name) (names : List Name) (sch : Schema) (r : List Name)
    (hr : okCol db names r = true) :
    ∀ (sc : List Inst) (k : Nat), (∀ i ∈ sc, i.db = db) →
      matchIdx false sch (cut db names false r) k sc = matchIdx true sch r k sc := by
  intro sc
  induction sc with
  | nil => intros; rfl
  | cons i is ih =>
    intro k h
    simp only [matchIdx]
    rw [matchesCol_cut db names sch i r (h i (by simp)) hr, ih (k + 1) (fun j hj => h j (by simp [hj]))]

theorem resolveCol_cut (db : Name) (names : List Name) (sch : Schema) (r : List Name)
    (hr : okCol db names r = true) :
    ∀ (ichain : List (List Inst)) (d : Nat), chainOk db ichain →
      resolveCol false sch (cut db names false r) d ichain = resolveCol true sch r d ichain := by
  intro ichain
  induction ichain with
  | nil => intros; rfl
  | cons sc outer ih =>
    intro d h
    simp only [resolveCol]
    rw [matchIdx_cut db names sch r hr sc 0 (h sc (by simp)), cut_getLastD,
      ih (d + 1) (fun s hs => h s (by simp [hs]))]

mutual
theorem resolveAll_strip (db : Name) (names : List Name) (sch : Schema) :
    ∀ (s : Sel) (ichain : List (List Inst)), chainOk db ichain → okSel db names s = true →
      resolveAll false db sch ichain (stripSel db names s) = resolveAll true db sch ichain s
  | .mk tabs cols subs, ichain, hch, hok => by
    simp only [okSel, Bool.and_eq_true] at hok
    obtain ⟨⟨ht, hc⟩, hs⟩ := hok
    obtain ⟨sc, g1, g2, g3⟩ := scope_of_okTabs db names tabs ht
    have hch' : chainOk db (sc :: ichain) := by
      intro s' hs' i hi
      simp only [List.mem_cons] at hs'
      rcases hs' with rfl | hs'
      · exact g3 i hi
      · exact hch s' hs' i hi
    have g2' : optAll (instLocal db) (List.map (fun t => { t with parts := cut db names true t.parts }) tabs) = some sc := g2
    simp only [stripSel, resolveAll, if_true, g1, g2', Bool.false_eq_true, if_false]
    rw [resolveAlls_strip db names sch subs (sc :: ichain) hch' hs]
    congr 1
    rw [List.map_map]
    apply List.map_congr_left
    intro r hr
    simp only [List.all_eq_true] at hc
    exact resolveCol_cut db names sch r (hc r hr) (sc :: ichain) 0 hch'
theorem resolveAlls_strip (db : Name) (names : List Name) (sch : Schema) :
    ∀ (ss : Sels) (ichain : List (List Inst)), chainOk db ichain → okSels db names ss = true →
      resolveAlls false db sch ichain (stripSels db names ss) = resolveAlls true db sch ichain ss
  | .nil, _, _, _ => by simp [stripSels, resolveAlls]
  | .cons s ss, ichain, hch, hok => by
    simp only [okSels, Bool.and_eq_true] at hok
    simp only [stripSels, resolveAlls]
    rw [resolveAll_strip db names sch s ichain hch hok.1, resolveAlls_strip db names sch ss ichain hch hok.2]
end

end MindsVerif.Route
