import MindsVerif.Lemmas.Route
/-! Name-resolution semantics: cutting the integration qualifier preserves what every column
reference denotes (C11, T11.1) — for every `names`: `[]` (the cut before 1ea1207) and the alias-aware cut of
the code since 1ea1207 / bd15793 (`names` = aliases, CTE names and own names of unaliased tables of the query). -/
namespace MindsVerif.Route

def cutT (db : Name) (names : List Name) (t : TRef) : TRef := { t with parts := cut db names true t.parts }

theorem cut_tab (db : Name) (names : List Name) (parts : List Name) :
    cut db names true parts = stripParts db parts false := by
  simp [cut, stripPartsN, keepsLocal]

theorem inst_of_okTab (db : Name) (names : List Name) (t : TRef) (h : okTab db t = true) :
    ∃ i, instFed db t = some i ∧ instLocal db (cutT db names t) = some i ∧ i.db = db := by
  obtain ⟨parts, alias⟩ := t
  simp only [okTab] at h
  match parts, h with
  | [n], _ =>
    exact ⟨⟨db, n, alias⟩, by simp [instFed], by simp [instLocal, cutT, cut_tab, stripParts, identLen], rfl⟩
  | [q, n], h =>
    simp only [decide_eq_true_eq] at h
    exact ⟨⟨db, n, alias⟩, by simp [instFed, h], by simp [instLocal, cutT, cut_tab, stripParts, identLen, h], rfl⟩
  | [], h => simp at h
  | _ :: _ :: _ :: _, h => simp at h

def chainOk (db : Name) (ichain : List (List Inst)) : Prop := ∀ sc ∈ ichain, ∀ i ∈ sc, i.db = db

theorem scope_of_okTabs (db : Name) (names : List Name) :
    ∀ tabs : List TRef, tabs.all (okTab db) = true →
      ∃ sc, optAll (instFed db) tabs = some sc ∧ optAll (instLocal db) (tabs.map (cutT db names)) = some sc ∧
        ∀ i ∈ sc, i.db = db := by
  intro tabs
  induction tabs with
  | nil => intro _; exact ⟨[], rfl, rfl, by simp⟩
  | cons t r ih =>
    intro h
    simp only [List.all_cons, Bool.and_eq_true] at h
    obtain ⟨i, h1, h2, h3⟩ := inst_of_okTab db names t h.1
    obtain ⟨sc, g1, g2, g3⟩ := ih h.2
    refine ⟨i :: sc, by simp [optAll, h1, g1], by simp [optAll, h2, g2], ?_⟩
    intro j hj
    simp only [List.mem_cons] at hj
    rcases hj with rfl | hj
    · exact h3
    · exact g3 j hj

theorem cut_getLastD (db : Name) (names : List Name) (b : Bool) (r : List Name) :
    (cut db names b r).getLastD [] = r.getLastD [] := by
  unfold cut stripPartsN
  split
  · rfl
  · match r with
    | [] => rfl
    | [p] => simp [stripParts, identLen]
    | p :: q :: r =>
      simp only [stripParts]
      split <;> simp

theorem matchesCol_cut (db : Name) (names : List Name) (sch : Schema) (i : Inst) (r : List Name)
    (hdb : i.db = db) (hr : okCol db names r = true) :
    matchesCol false sch i (cut db names false r) = matchesCol true sch i r := by
  match r, hr with
  | [], _ => rfl
  | [c], _ => simp [cut, stripPartsN, keepsLocal, stripParts, identLen, matchesCol]
  | [q, c], hr =>
    simp only [okCol, Bool.or_eq_true, decide_eq_true_eq] at hr
    by_cases hn : names.contains db = true
    · have hm : db ∈ names := by simpa using hn
      simp [cut, stripPartsN, keepsLocal, identLen, hm, matchesCol]
    · have hq : lower q ≠ db := by
        rcases hr with h | h
        · exact h
        · exact absurd h hn
      simp [cut, stripPartsN, keepsLocal, stripParts, identLen, matchesCol, hq]
  | [d, q, c], _ =>
    by_cases hd : lower d = db
    · simp [cut, stripPartsN, keepsLocal, stripParts, identLen, hd, matchesCol, hdb]
    · have hd' : ¬ (lower d = i.db) := by rw [hdb]; exact hd
      simp [cut, stripPartsN, keepsLocal, stripParts, identLen, hd, matchesCol, hd']
  | d :: a :: b :: c :: r, _ =>
    by_cases hd : lower d = db
    · cases r <;> simp [cut, stripPartsN, keepsLocal, stripParts, identLen, hd, matchesCol]
    · simp [cut, stripPartsN, keepsLocal, stripParts, identLen, hd, matchesCol]

theorem matchIdx_cut (db : Name) (names : List Name) (sch : Schema) (r : List Name)
    (hr : okCol db names r = true) :
    ∀ (sc : List Inst) (k : Nat), (∀ i ∈ sc, i.db = db) →
      matchIdx false sch (cut db names false r) k sc = matchIdx true sch r k sc := by
  intro sc
  induction sc with
  | nil => intros; rfl
  | cons i is ih =>
    intro k h
    simp only [matchIdx]
    rw [matchesCol_cut db names sch i r (h i (by simp)) hr, ih (k + 1) (fun j hj => h j (by simp [hj]))]

theorem resolveCol_cut (db : Name) (names : List Name) (sch : Schema) (r : List Name)
    (hr : okCol db names r = true) :
    ∀ (ichain : List (List Inst)) (d : Nat), chainOk db ichain →
      resolveCol false sch (cut db names false r) d ichain = resolveCol true sch r d ichain := by
  intro ichain
  induction ichain with
  | nil => intros; rfl
  | cons sc outer ih =>
    intro d h
    simp only [resolveCol]
    rw [matchIdx_cut db names sch r hr sc 0 (h sc (by simp)), cut_getLastD,
      ih (d + 1) (fun s hs => h s (by simp [hs]))]

mutual
theorem resolveAll_strip (db : Name) (names : List Name) (sch : Schema) :
    ∀ (s : Sel) (ichain : List (List Inst)), chainOk db ichain → okSel db names s = true →
      resolveAll false db sch ichain (stripSel db names s) = resolveAll true db sch ichain s
  | .mk tabs cols subs ctes, ichain, hch, hok => by
    simp only [okSel, Bool.and_eq_true] at hok
    obtain ⟨⟨⟨ht, hc⟩, hs⟩, hct⟩ := hok
    obtain ⟨sc, g1, g2, g3⟩ := scope_of_okTabs db names tabs ht
    have hch' : chainOk db (sc :: ichain) := by
      intro s' hs' i hi
      simp only [List.mem_cons] at hs'
      rcases hs' with rfl | hs'
      · exact g3 i hi
      · exact hch s' hs' i hi
    have g2' : optAll (instLocal db) (List.map (fun t => { t with parts := cut db names true t.parts }) tabs) = some sc := g2
    simp only [stripSel, resolveAll, if_true, g1, g2', Bool.false_eq_true, if_false]
    rw [resolveAlls_strip db names sch subs (sc :: ichain) hch' hs,
      resolveAlls_strip db names sch ctes [] (by intro sc' h; simp at h) hct]
    congr 1
    congr 1
    rw [List.map_map]
    apply List.map_congr_left
    intro r hr
    simp only [List.all_eq_true] at hc
    exact resolveCol_cut db names sch r (hc r hr) (sc :: ichain) 0 hch'
theorem resolveAlls_strip (db : Name) (names : List Name) (sch : Schema) :
    ∀ (ss : Sels) (ichain : List (List Inst)), chainOk db ichain → okSels db names ss = true →
      resolveAlls false db sch ichain (stripSels db names ss) = resolveAlls true db sch ichain ss
  | .nil, _, _, _ => by simp [stripSels, resolveAlls]
  | .cons s ss, ichain, hch, hok => by
    simp only [okSels, Bool.and_eq_true] at hok
    simp only [stripSels, resolveAlls]
    rw [resolveAll_strip db names sch s ichain hch hok.1, resolveAlls_strip db names sch ss ichain hch hok.2]
end


/-! ### the unconditional statement: every reference that denotes something keeps its denotation -/

theorem instLocal_cutT (db : Name) (names : List Name) (t : TRef) :
    instLocal db (cutT db names t) = instFed db t := by
  obtain ⟨parts, alias⟩ := t
  match parts with
  | [] => simp [instLocal, instFed, cutT, cut_tab, stripParts]
  | [n] => simp [instLocal, instFed, cutT, cut_tab, stripParts, identLen]
  | [q, n] =>
    by_cases h : lower q = db <;> simp [instLocal, instFed, cutT, cut_tab, stripParts, identLen, h]
  | [a, b, c] =>
    by_cases h : lower a = db <;> simp [instLocal, instFed, cutT, cut_tab, stripParts, identLen, h]
  | a :: b :: c :: d :: r =>
    by_cases h : lower a = db <;> simp [instLocal, instFed, cutT, cut_tab, stripParts, identLen, h]

theorem optAll_cutT (db : Name) (names : List Name) :
    ∀ tabs : List TRef, optAll (instLocal db) (tabs.map (cutT db names)) = optAll (instFed db) tabs
  | [] => rfl
  | t :: r => by simp [optAll, instLocal_cutT, optAll_cutT db names r]

theorem instFed_facts (db : Name) (t : TRef) (i : Inst) (h : instFed db t = some i) :
    i.db = db ∧ localName t = some (exposed i) := by
  obtain ⟨parts, alias⟩ := t
  match parts, h with
  | [n], h =>
    simp only [instFed, Option.some.injEq] at h; subst h
    cases alias <;> simp [localName, exposed]
  | [q, n], h =>
    simp only [instFed] at h
    split at h
    · simp only [Option.some.injEq] at h; subst h
      cases alias <;> simp [localName, exposed]
    · simp at h
  | [], h => simp [instFed] at h
  | _ :: _ :: _ :: _, h => simp [instFed] at h

theorem optAll_facts (db : Name) : ∀ (tabs : List TRef) (sc : List Inst), optAll (instFed db) tabs = some sc →
    ∀ i ∈ sc, i.db = db ∧ exposed i ∈ tabs.filterMap localName
  | [], sc, h => by simp [optAll] at h; subst h; simp
  | t :: r, sc, h => by
    simp only [optAll] at h
    cases h1 : instFed db t with
    | none => simp [h1] at h
    | some i0 =>
      cases h2 : optAll (instFed db) r with
      | none => simp [h1, h2] at h
      | some sc0 =>
        simp only [h1, h2, Option.some.injEq] at h; subst h
        intro i hi
        simp only [List.mem_cons] at hi
        obtain ⟨f1, f2⟩ := instFed_facts db t i0 h1
        rcases hi with rfl | hi
        · exact ⟨f1, by simp [f2]⟩
        · obtain ⟨g1, g2⟩ := optAll_facts db r sc0 h2 i hi
          refine ⟨g1, ?_⟩
          simp only [List.filterMap_cons]
          split <;> simp [g2]

/-- every instance of every enclosing scope lives in `db` and is referred to by one of `names` -/
def chainNamed (db : Name) (names : List Name) (ichain : List (List Inst)) : Prop :=
  ∀ sc ∈ ichain, ∀ i ∈ sc, i.db = db ∧ exposed i ∈ names

theorem matchIdx_none (sch : Schema) (r : List Name) :
    ∀ (sc : List Inst) (k : Nat), (∀ i ∈ sc, matchesCol true sch i r = false) → matchIdx true sch r k sc = []
  | [], _, _ => rfl
  | i :: is, k, hs => by
    simp only [matchIdx, hs i (by simp), Bool.false_eq_true, if_false, List.nil_append]
    exact matchIdx_none sch r is (k + 1) (fun j hj => hs j (by simp [hj]))

/-- a two-part reference qualified by the integration name, when nothing in scope is called like that,
denotes nothing in the original -/
theorem resolveCol_fed_notFound (db : Name) (names : List Name) (sch : Schema) (q c : Name)
    (hq : lower q = db) (hn : db ∉ names) :
    ∀ (ichain : List (List Inst)) (d : Nat), chainNamed db names ichain →
      resolveCol true sch [q, c] d ichain = .notFound
  | [], _, _ => rfl
  | sc :: outer, d, h => by
    have hno : ∀ i ∈ sc, matchesCol true sch i [q, c] = false := by
      intro i hi
      have := (h sc (by simp) i hi).2
      have hne : lower q ≠ exposed i := fun e => hn (hq ▸ e ▸ this)
      simp [matchesCol, hne]
    simp only [resolveCol, matchIdx_none sch [q, c] sc 0 hno]
    exact resolveCol_fed_notFound db names sch q c hq hn outer (d + 1) (fun s hs => h s (by simp [hs]))

/-- position by position -/
def keepsAll : List Res → List Res → Prop
  | [], [] => True
  | a :: as, b :: bs => Res.keeps a b ∧ keepsAll as bs
  | _, _ => False

theorem keepsAll_append : ∀ (a1 b1 a2 b2 : List Res), keepsAll a1 b1 → keepsAll a2 b2 → keepsAll (a1 ++ a2) (b1 ++ b2)
  | [], [], _, _, _, h => h
  | _ :: as, _ :: bs, a2, b2, h1, h2 => ⟨h1.1, keepsAll_append as bs a2 b2 h1.2 h2⟩
  | [], _ :: _, _, _, h, _ => h.elim
  | _ :: _, [], _, _, h, _ => h.elim

theorem keepsAll_map {α} (f g : α → Res) : ∀ l : List α, (∀ x ∈ l, Res.keeps (f x) (g x)) → keepsAll (l.map f) (l.map g)
  | [], _ => trivial
  | x :: l, h => ⟨h x (by simp), keepsAll_map f g l (fun y hy => h y (by simp [hy]))⟩

theorem keepsAll_refl : ∀ l : List Res, keepsAll l l
  | [] => trivial
  | _ :: l => ⟨Or.inr rfl, keepsAll_refl l⟩

/-- one reference: either the cut does not matter for it, or it denoted nothing to begin with -/
theorem resolveCol_keeps (db : Name) (names : List Name) (sch : Schema) (r : List Name)
    (ichain : List (List Inst)) (d : Nat) (h : chainNamed db names ichain) :
    Res.keeps (resolveCol true sch r d ichain) (resolveCol false sch (cut db names false r) d ichain) := by
  by_cases hr : okCol db names r = true
  · exact Or.inr (resolveCol_cut db names sch r hr ichain d (fun sc hsc i hi => (h sc hsc i hi).1))
  · match r, hr with
    | [q, c], hr =>
      simp only [okCol, Bool.or_eq_true, decide_eq_true_eq, not_or, Decidable.not_not] at hr
      have hn : db ∉ names := by simpa using hr.2
      exact Or.inl (resolveCol_fed_notFound db names sch q c hr.1 hn ichain d h)
    | [], hr => simp [okCol] at hr
    | [_], hr => simp [okCol] at hr
    | _ :: _ :: _ :: _, hr => simp [okCol] at hr

mutual
theorem resolveAll_keeps (db : Name) (names : List Name) (sch : Schema) :
    ∀ (s : Sel) (ichain : List (List Inst)), chainNamed db names ichain → (∀ n ∈ aliasesOf s, n ∈ names) →
      keepsAll (resolveAll true db sch ichain s) (resolveAll false db sch ichain (stripSel db names s))
  | .mk tabs cols subs ctes, ichain, hch, hsub => by
    simp only [aliasesOf, List.mem_append] at hsub
    have hc := resolveAlls_keeps db names sch ctes [] (by intro sc h; simp at h) (fun n hn => hsub n (Or.inr hn))
    have g2 : optAll (instLocal db) (List.map (fun t => { t with parts := cut db names true t.parts }) tabs) =
        optAll (instFed db) tabs := optAll_cutT db names tabs
    simp only [stripSel, resolveAll, if_true, Bool.false_eq_true, if_false, g2]
    apply keepsAll_append _ _ _ _ hc
    cases hop : optAll (instFed db) tabs with
    | none => exact ⟨Or.inr rfl, trivial⟩
    | some sc =>
      have hch' : chainNamed db names (sc :: ichain) := by
        intro s' hs' i hi
        simp only [List.mem_cons] at hs'
        rcases hs' with rfl | hs'
        · obtain ⟨f1, f2⟩ := optAll_facts db tabs _ hop i hi
          exact ⟨f1, hsub _ (Or.inl (Or.inl f2))⟩
        · exact hch s' hs' i hi
      simp only []
      apply keepsAll_append
      · rw [List.map_map]
        exact keepsAll_map _ _ cols (fun r _ => resolveCol_keeps db names sch r (sc :: ichain) 0 hch')
      · exact resolveAlls_keeps db names sch subs (sc :: ichain) hch' (fun n hn => hsub n (Or.inl (Or.inr hn)))
theorem resolveAlls_keeps (db : Name) (names : List Name) (sch : Schema) :
    ∀ (ss : Sels) (ichain : List (List Inst)), chainNamed db names ichain → (∀ n ∈ aliasesOfs ss, n ∈ names) →
      keepsAll (resolveAlls true db sch ichain ss) (resolveAlls false db sch ichain (stripSels db names ss))
  | .nil, _, _, _ => by simp [stripSels, resolveAlls, keepsAll]
  | .cons s ss, ichain, hch, hsub => by
    simp only [aliasesOfs, List.mem_append] at hsub
    simp only [stripSels, resolveAlls]
    exact keepsAll_append _ _ _ _ (resolveAll_keeps db names sch s ichain hch (fun n hn => hsub n (Or.inl hn)))
      (resolveAlls_keeps db names sch ss ichain hch (fun n hn => hsub n (Or.inr hn)))
end

end MindsVerif.Route
