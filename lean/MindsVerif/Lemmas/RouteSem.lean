import MindsVerif.Lemmas.Route
/-! Name-resolution semantics: cutting the integration qualifier preserves what every column
reference denotes (C11, T11.1). -/
namespace MindsVerif.Route

def cutT (db : Name) (t : TRef) : TRef := { t with parts := cut db t.parts }

theorem inst_of_okTab (db : Name) (t : TRef) (h : okTab db t = true) :
    ∃ i, instFed db t = some i ∧ instLocal db (cutT db t) = some i ∧ i.db = db ∧ exposed i ≠ db ∧
      i.alias = t.alias := by
  obtain ⟨parts, alias⟩ := t
  simp only [okTab, Bool.and_eq_true] at h
  obtain ⟨h1, h2⟩ := h
  match parts, h1, h2 with
  | [n], _, h2 =>
    refine ⟨⟨db, n, alias⟩, by simp [instFed], by simp [instLocal, cutT, cut, stripParts, identLen], rfl, ?_, rfl⟩
    cases alias <;> simpa [exposed] using h2
  | [q, n], h1, h2 =>
    simp only [decide_eq_true_eq] at h1
    refine ⟨⟨db, n, alias⟩, by simp [instFed, h1], by simp [instLocal, cutT, cut, stripParts, identLen, h1], rfl, ?_, rfl⟩
    cases alias <;> simpa [exposed] using h2
  | [], h1, _ => simp at h1
  | _ :: _ :: _ :: _, h1, _ => simp at h1

def instOk (db : Name) (tchain : List (List TRef)) (i : Inst) : Prop :=
  i.db = db ∧ exposed i ≠ db ∧ ∃ sc ∈ tchain, ∃ t ∈ sc, t.alias = i.alias

def chainOk (db : Name) (tchain : List (List TRef)) (ichain : List (List Inst)) : Prop :=
  ∀ sc ∈ ichain, ∀ i ∈ sc, instOk db tchain i

theorem instOk_weaken (db : Name) (tabs : List TRef) (tchain) (i : Inst) (h : instOk db tchain i) :
    instOk db (tabs :: tchain) i := by
  obtain ⟨h1, h2, sc, hsc, t, ht, ha⟩ := h
  exact ⟨h1, h2, sc, by simp [hsc], t, ht, ha⟩

theorem scope_of_okTabs (db : Name) :
    ∀ tabs : List TRef, tabs.all (okTab db) = true →
      ∃ sc, optAll (instFed db) tabs = some sc ∧ optAll (instLocal db) (tabs.map (cutT db)) = some sc ∧
        ∀ i ∈ sc, i.db = db ∧ exposed i ≠ db ∧ ∃ t ∈ tabs, t.alias = i.alias := by
  intro tabs
  induction tabs with
  | nil => intro _; exact ⟨[], rfl, rfl, by simp⟩
  | cons t r ih =>
    intro h
    simp only [List.all_cons, Bool.and_eq_true] at h
    obtain ⟨i, h1, h2, h3, h4, h5⟩ := inst_of_okTab db t h.1
    obtain ⟨sc, g1, g2, g3⟩ := ih h.2
    refine ⟨i :: sc, by simp [optAll, h1, g1], by simp [optAll, h2, g2], ?_⟩
    intro j hj
    simp only [List.mem_cons] at hj
    rcases hj with rfl | hj
    · exact ⟨h3, h4, t, by simp, h5.symm⟩
    · obtain ⟨a, b, t', ht', e⟩ := g3 j hj
      exact ⟨a, b, t', by simp [ht'], e⟩

theorem cut_getLastD (db : Name) (r : List Name) : (cut db r).getLastD [] = r.getLastD [] := by
  match r with
  | [] => rfl
  | [p] => simp [cut, stripParts, identLen]
  | p :: q :: r =>
    simp only [cut, stripParts]
    split <;> simp

theorem matchesCol_cut (db : Name) (sch : Schema) (tchain : List (List TRef)) (i : Inst) (r : List Name)
    (hi : instOk db tchain i) (hr : okCol db tchain r = true) :
    matchesCol false sch i (cut db r) = matchesCol true sch i r := by
  obtain ⟨hdb, hexp, sc, hsc, t, ht, hal⟩ := hi
  match r, hr with
  | [], _ => rfl
  | [c], _ => simp [cut, stripParts, identLen, matchesCol]
  | [q, c], hr =>
    simp only [okCol, decide_eq_true_eq] at hr
    simp [cut, stripParts, identLen, matchesCol, hr]
  | [d, q, c], _ =>
    by_cases hd : lower d = db
    · simp [cut, stripParts, identLen, hd, matchesCol, hdb]
    · have hd' : ¬ (lower d = i.db) := by rw [hdb]; exact hd
      simp [cut, stripParts, identLen, hd, matchesCol, hd']
  | d :: a :: b :: c :: r, _ =>
    by_cases hd : lower d = db
    · cases r <;> simp [cut, stripParts, identLen, hd, matchesCol]
    · simp [cut, stripParts, identLen, hd, matchesCol]

theorem matchIdx_cut (db : Name) (sch : Schema) (tchain : List (List TRef)) (r : List Name)
    (hr : okCol db tchain r = true) :
    ∀ (sc : List Inst) (k : Nat), (∀ i ∈ sc, instOk db tchain i) →
      matchIdx false sch (cut db r) k sc = matchIdx true sch r k sc := by
  intro sc
  induction sc with
  | nil => intros; rfl
  | cons i is ih =>
    intro k h
    simp only [matchIdx]
    rw [matchesCol_cut db sch tchain i r (h i (by simp)) hr, ih (k + 1) (fun j hj => h j (by simp [hj]))]

theorem resolveCol_cut (db : Name) (sch : Schema) (tchain : List (List TRef)) (r : List Name)
    (hr : okCol db tchain r = true) :
    ∀ (ichain : List (List Inst)) (d : Nat), chainOk db tchain ichain →
      resolveCol false sch (cut db r) d ichain = resolveCol true sch r d ichain := by
  intro ichain
  induction ichain with
  | nil => intros; rfl
  | cons sc outer ih =>
    intro d h
    simp only [resolveCol]
    rw [matchIdx_cut db sch tchain r hr sc 0 (h sc (by simp)), cut_getLastD,
      ih (d + 1) (fun s hs => h s (by simp [hs]))]

mutual
theorem resolveAll_strip (db : Name) (sch : Schema) :
    ∀ (s : Sel) (tchain : List (List TRef)) (ichain : List (List Inst)), chainOk db tchain ichain →
      okSel db tchain s = true →
      resolveAll false db sch ichain (stripSel db s) = resolveAll true db sch ichain s
  | .mk tabs cols subs, tchain, ichain, hch, hok => by
    simp only [okSel, Bool.and_eq_true] at hok
    obtain ⟨⟨ht, hc⟩, hs⟩ := hok
    obtain ⟨sc, g1, g2, g3⟩ := scope_of_okTabs db tabs ht
    have hch' : chainOk db (tabs :: tchain) (sc :: ichain) := by
      intro s' hs' i hi
      simp only [List.mem_cons] at hs'
      rcases hs' with rfl | hs'
      · obtain ⟨a, b, t, ht', e⟩ := g3 i hi
        exact ⟨a, b, tabs, by simp, t, ht', e⟩
      · exact instOk_weaken db tabs tchain i (hch s' hs' i hi)
    have g2' : optAll (instLocal db) (List.map (fun t => { t with parts := cut db t.parts }) tabs) = some sc := g2
    simp only [stripSel, resolveAll, if_true, g1, g2', Bool.false_eq_true, if_false]
    rw [resolveAlls_strip db sch subs (tabs :: tchain) (sc :: ichain) hch' hs]
    congr 1
    rw [List.map_map]
    apply List.map_congr_left
    intro r hr
    simp only [List.all_eq_true] at hc
    exact resolveCol_cut db sch (tabs :: tchain) r (hc r hr) (sc :: ichain) 0 hch'
theorem resolveAlls_strip (db : Name) (sch : Schema) :
    ∀ (ss : Sels) (tchain : List (List TRef)) (ichain : List (List Inst)), chainOk db tchain ichain →
      okSels db tchain ss = true →
      resolveAlls false db sch ichain (stripSels db ss) = resolveAlls true db sch ichain ss
  | .nil, _, _, _, _ => by simp [stripSels, resolveAlls]
  | .cons s ss, tchain, ichain, hch, hok => by
    simp only [okSels, Bool.and_eq_true] at hok
    simp only [stripSels, resolveAlls]
    rw [resolveAll_strip db sch s tchain ichain hch hok.1, resolveAlls_strip db sch ss tchain ichain hch hok.2]
end

end MindsVerif.Route
