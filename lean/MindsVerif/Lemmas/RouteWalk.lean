import MindsVerif.Lemmas.Route
/-! Lemmas about the walker model: stripping, visit logs, `get_query_info`, the pushdown decision. -/
namespace MindsVerif.Route

/-! ### stripping -/

def cutId (db : Name) (names : List Name) (x : List Name × Bool × Bool) : List Name × Bool × Bool :=
  (stripPartsN db names x.2.2 x.1 x.2.1, x.2.1, x.2.2)

theorem stripPartsN_nil (db : Name) (isTab : Bool) (parts : List Name) (star : Bool) :
    stripPartsN db [] isTab parts star = stripParts db parts star := by
  simp [stripPartsN, keepsLocal]

mutual
theorem visitedIdents_strip (db : Name) (names : List Name) (par : Par) (s : Slot) :
    ∀ n : Node, visitedIdents s (strip db names par s n) = (visitedIdents s n).map (cutId db names)
  | .ident parts star alias => by simp [strip, visitedIdents, stripIdent, cutId]
  | .leaf => by simp [strip, visitedIdents]
  | .native => by simp [strip, visitedIdents]
  | .func u ks => by simp [strip, visitedIdents, visitedIdentsKids_strip db names par ks]
  | .scope p ks => by simp [strip, visitedIdents, visitedIdentsKids_strip db names p ks]
  | .plain ks => by simp [strip, visitedIdents, visitedIdentsKids_strip db names par ks]
theorem visitedIdentsKids_strip (db : Name) (names : List Name) (par : Par) :
    ∀ ks : Kids, visitedIdentsKids (stripKids db names par ks) = (visitedIdentsKids ks).map (cutId db names)
  | .nil => by simp [stripKids, visitedIdentsKids]
  | .cons s n ks => by
    cases s <;>
      simp [stripKids, visitedIdentsKids, visitedIdents_strip db names par _ n, visitedIdentsKids_strip db names par ks]
end

/-- the identifier starts with two parts that both spell the integration name -/
def doubleQual (db : Name) (parts : List Name) (star : Bool) : Bool :=
  match parts with
  | p :: q :: r => decide (lower p = db) && decide (lower q = db) && decide (identLen (q :: r) star > 1)
  | _ => false

theorem not_qualified_after_cut (db : Name) (parts : List Name) (star : Bool)
    (h : doubleQual db parts star = false) : qualifiedBy db (stripParts db parts star) star = false := by
  match parts with
  | [] => simp [stripParts, qualifiedBy]
  | [p] =>
    by_cases hc : identLen [p] star > 1 ∧ lower p = db
    · simp [stripParts, hc, qualifiedBy]
    · simp only [stripParts, hc, if_false, qualifiedBy]
      simp only [not_and] at hc
      by_cases h1 : identLen [p] star > 1
      · simp [hc h1]
      · simp [h1]
  | p :: q :: r =>
    by_cases hc : identLen (p :: q :: r) star > 1 ∧ lower p = db
    · simp only [stripParts, hc, and_self, if_true, qualifiedBy]
      simp only [doubleQual, hc.2, decide_true, Bool.true_and, Bool.and_eq_false_iff, decide_eq_false_iff_not] at h
      rcases h with h | h
      · simp [h]
      · simp [h]
    · simp only [stripParts, hc, if_false, qualifiedBy]
      have h1 : identLen (p :: q :: r) star > 1 := by simp [identLen]; omega
      simp only [h1, true_and] at hc
      simp [hc]

theorem not_qualified_after_cutN (db : Name) (names : List Name) (isTab : Bool) (parts : List Name) (star : Bool)
    (h : doubleQual db parts star = false) (hk : keepsLocal db names isTab parts star = false) :
    qualifiedBy db (stripPartsN db names isTab parts star) star = false := by
  simp only [stripPartsN, hk]
  exact not_qualified_after_cut db parts star h

theorem keepsLocal_of_not_mem (db : Name) (names : List Name) (isTab : Bool) (parts : List Name) (star : Bool)
    (h : db ∉ names) : keepsLocal db names isTab parts star = false := by
  simp [keepsLocal, h]

/-- output names: an identifier target keeps its output column name -/
theorem outName_stripIdent (db : Name) (names : List Name) (par : Par) (s : Slot) (parts : List Name)
    (alias : Option (List Name)) :
    outName (stripIdent db names par s parts false alias).1 (stripIdent db names par s parts false alias).2 =
      outName parts alias := by
  have hl0 : (stripParts db parts false).getLast? = parts.getLast? := by
    match parts with
    | [] => rfl
    | [p] => simp [stripParts, identLen]
    | p :: q :: r =>
      simp only [stripParts]
      split <;> simp [List.getLast?_cons_cons]
  have hl : ∀ b, (stripPartsN db names b parts false).getLast? = parts.getLast? := by
    intro b
    unfold stripPartsN; split
    · rfl
    · exact hl0
  cases alias with
  | some a => cases par <;> cases s <;> simp [stripIdent, outName]
  | none =>
    cases par with
    | noFrom => cases s <;> simp [stripIdent, outName, hl]
    | sel b =>
      cases b
      · cases s
        · simp [stripIdent, outName, hl]
        · simp only [stripIdent, outName, hl]
          cases parts.getLast? <;> simp
        · simp [stripIdent, outName, hl]
        · simp [stripIdent, outName, hl]
      · cases s <;> simp [stripIdent, outName, hl]

/-! ### all tables vs visited tables -/

def tableOf : Item → Option (List Name)
  | .table p => some p
  | _ => none

theorem allTables_atom (s : Slot) (n : Node) (hs : s = .skip) (h : isAtom n = true) : allTables s n = [] := by
  subst hs
  cases n <;> simp_all [isAtom, allTables]

mutual
theorem allTables_eq_visit (s : Slot) : ∀ n : Node, skipLeafOnly n = true → (visit s n).filterMap tableOf = allTables s n
  | .ident parts star alias, _ => by by_cases h : s = .tbl <;> simp [visit, allTables, h, tableOf]
  | .leaf, _ => by simp [visit, allTables]
  | .native, _ => by by_cases h : s = .tbl <;> simp [visit, allTables, h, tableOf]
  | .func u ks, h => by
    simp only [skipLeafOnly] at h
    cases u
    · simp [visit, allTables, allTablesKids_eq_visit ks h]
    · simp only [visit, allTables, if_true, List.singleton_append]
      rw [List.filterMap_cons_none (by rfl)]
      exact allTablesKids_eq_visit ks h
  | .scope p ks, h => by
    simp only [skipLeafOnly] at h
    simp [visit, allTables, allTablesKids_eq_visit ks h]
  | .plain ks, h => by
    simp only [skipLeafOnly] at h
    simp [visit, allTables, allTablesKids_eq_visit ks h]
theorem allTablesKids_eq_visit : ∀ ks : Kids, skipLeafOnlyKids ks = true → (visitKids ks).filterMap tableOf = allTablesKids ks
  | .nil, _ => by simp [visitKids, allTablesKids]
  | .cons s n ks, h => by
    simp only [skipLeafOnlyKids, Bool.and_eq_true] at h
    obtain ⟨hn, hk⟩ := h
    cases s
    · simp at hn
      simp [visitKids, allTablesKids, List.filterMap_append, allTables_eq_visit _ n hn, allTablesKids_eq_visit ks hk]
    · simp at hn
      simp [visitKids, allTablesKids, List.filterMap_append, allTables_eq_visit _ n hn, allTablesKids_eq_visit ks hk]
    · simp at hn
      simp [visitKids, allTablesKids, List.filterMap_append, allTables_eq_visit _ n hn, allTablesKids_eq_visit ks hk]
    · simp at hn
      simp [visitKids, allTablesKids, allTables_atom .skip n rfl hn, allTablesKids_eq_visit ks hk]
end

end MindsVerif.Route
